/-
  Truemper's 3-sum of totally unimodular matrices is totally unimodular — Mathlib level.
  See the header of `CmrProofs/Props/C12Three.lean` for the derivation.
-/
import CmrProofs.Lemmas.DeltaSumLemmas

set_option linter.unusedSimpArgs false
set_option linter.unusedVariables false
set_option linter.unnecessarySeqFocus false
set_option linter.unreachableTactic false
set_option linter.unusedTactic false

namespace Cmr
open Matrix

section threeDet
variable {R : Type*} [CommRing R] {p r : Type*} [Fintype p] [DecidableEq p] [Fintype r] [DecidableEq r]

/-- `[[A, 0],[c₁, α],[c₂, β]]` -/
def bordRows (A : Matrix p (p ⊕ Unit) R) (c₁ c₂ : p ⊕ Unit → R) (α β : R) :
    Matrix ((p ⊕ Unit) ⊕ Unit) ((p ⊕ Unit) ⊕ Unit) R :=
  fromBlocks (fromRows A (replicateRow Unit c₁)) (replicateCol Unit (Sum.elim (fun _ => 0) (fun _ => α)))
    (replicateRow Unit c₂) (Matrix.of fun _ _ => β)

theorem det_bordRows (A : Matrix p (p ⊕ Unit) R) (c₁ c₂ : p ⊕ Unit → R) (α β : R) :
    (bordRows A c₁ c₂ α β).det =
      β * (fromRows A (replicateRow Unit c₁)).det - α * (fromRows A (replicateRow Unit c₂)).det := by
  unfold bordRows
  rw [det_bordered_corner₂₂]
  set M := fromBlocks (fromRows A (replicateRow Unit c₁)) (replicateCol Unit (Sum.elim (fun _ => (0 : R)) (fun _ => α)))
    (replicateRow Unit c₂) (0 : Matrix Unit Unit R) with hM
  have hsw : M.submatrix (Equiv.swap (Sum.inl (Sum.inr ())) (Sum.inr ())) id =
      fromBlocks (fromRows A (replicateRow Unit c₂)) 0 (replicateRow Unit c₁) (Matrix.of fun _ _ => α) := by
    ext i j
    rcases i with (i | i) | i <;> rcases j with (j | j) | j <;> simp [hM, Equiv.swap_apply_def]
  have h2 := Matrix.det_permute (Equiv.swap (Sum.inl (Sum.inr ())) (Sum.inr ())) M
  rw [hsw, det_fromBlocks_zero₁₂, Equiv.Perm.sign_swap (by simp)] at h2
  simp at h2
  rw [show M.det = -((fromRows A (replicateRow Unit c₂)).det * α) by rw [h2]; ring]
  ring

/-- `[[γ, δ, 0],[d₁, d₂, D]]` -/
def bordCols (D : Matrix (Unit ⊕ r) r R) (d₁ d₂ : Unit ⊕ r → R) (γ δ : R) :
    Matrix (Unit ⊕ (Unit ⊕ r)) (Unit ⊕ (Unit ⊕ r)) R :=
  fromBlocks (Matrix.of fun _ _ => γ) (replicateRow Unit (Sum.elim (fun _ => δ) (fun _ => 0)))
    (replicateCol Unit d₁) (fromCols (replicateCol Unit d₂) D)

theorem det_bordCols (D : Matrix (Unit ⊕ r) r R) (d₁ d₂ : Unit ⊕ r → R) (γ δ : R) :
    (bordCols D d₁ d₂ γ δ).det =
      γ * (fromCols (replicateCol Unit d₂) D).det - δ * (fromCols (replicateCol Unit d₁) D).det := by
  unfold bordCols
  rw [det_bordered_corner₁₁]
  set M := fromBlocks (0 : Matrix Unit Unit R) (replicateRow Unit (Sum.elim (fun _ => δ) (fun _ => (0 : R))))
    (replicateCol Unit d₁) (fromCols (replicateCol Unit d₂) D) with hM
  have hsw : M.submatrix id (Equiv.swap (Sum.inl ()) (Sum.inr (Sum.inl ()))) =
      fromBlocks (Matrix.of fun _ _ => δ) 0 (replicateCol Unit d₂) (fromCols (replicateCol Unit d₁) D) := by
    ext i j
    rcases i with i | i | i <;> rcases j with j | j | j <;> simp [hM, Equiv.swap_apply_def]
  have h2 := Matrix.det_permute' (Equiv.swap (Sum.inl ()) (Sum.inr (Sum.inl ()))) M
  rw [hsw, det_fromBlocks_zero₁₂, Equiv.Perm.sign_swap (by simp)] at h2
  simp at h2
  rw [show M.det = -(δ * (fromCols (replicateCol Unit d₁) D).det) by rw [h2]; ring]
  ring

/-- the square matrix `[[A, 0],[d₁ c₁ᵀ + d₂ c₂ᵀ, D]]`, `A` of size `p × (p+1)`, `D` of size `(r+1) × r` -/
def rk2 (A : Matrix p (p ⊕ Unit) R) (D : Matrix (Unit ⊕ r) r R) (c₁ c₂ : p ⊕ Unit → R) (d₁ d₂ : Unit ⊕ r → R) :
    Matrix ((p ⊕ Unit) ⊕ r) ((p ⊕ Unit) ⊕ r) R :=
  (fromBlocks A 0 (Matrix.of fun i j => d₁ i * c₁ j + d₂ i * c₂ j) D).submatrix (Equiv.sumAssoc p Unit r) id

/-- index bookkeeping for the Schur complement step -/
def rk2Equiv (p r : Type*) : ((p ⊕ Unit) ⊕ r) ⊕ Unit ≃ (p ⊕ Unit) ⊕ (Unit ⊕ r) where
  toFun := Sum.elim (Sum.elim (Sum.elim (fun i => Sum.inl (Sum.inl i)) (fun _ => Sum.inr (Sum.inl ())))
    (fun j => Sum.inr (Sum.inr j))) (fun _ => Sum.inl (Sum.inr ()))
  invFun := Sum.elim (Sum.elim (fun i => Sum.inl (Sum.inl (Sum.inl i))) (fun _ => Sum.inr ()))
    (Sum.elim (fun _ => Sum.inl (Sum.inl (Sum.inr ()))) (fun j => Sum.inl (Sum.inr j)))
  left_inv := by rintro (((i | i) | j) | u) <;> simp
  right_inv := by rintro ((i | i) | (u | j)) <;> simp

theorem det_fromCols_neg (D : Matrix (Unit ⊕ r) r R) (d : Unit ⊕ r → R) :
    (fromCols (replicateCol Unit (-d)) D).det = - (fromCols (replicateCol Unit d) D).det := by
  have h := det_updateCol_smul (fromCols (replicateCol Unit d) D) (Sum.inl ()) (-1 : R) d
  have e1 : updateCol (fromCols (replicateCol Unit d) D) (Sum.inl ()) ((-1 : R) • d) =
      fromCols (replicateCol Unit (-d)) D := by
    ext i j
    rcases j with j | j <;> simp [updateCol_apply]
  have e2 : updateCol (fromCols (replicateCol Unit d) D) (Sum.inl ()) d = fromCols (replicateCol Unit d) D := by
    ext i j
    rcases j with j | j <;> simp [updateCol_apply]
  rw [e1, e2] at h
  rw [h]; ring

/-- **Determinant of `[[A, 0],[d₁ c₁ᵀ + d₂ c₂ᵀ, D]]` with `A` one column wider than tall.** -/
theorem det_rk2 (A : Matrix p (p ⊕ Unit) R) (D : Matrix (Unit ⊕ r) r R) (c₁ c₂ : p ⊕ Unit → R)
    (d₁ d₂ : Unit ⊕ r → R) :
    (rk2 A D c₁ c₂ d₁ d₂).det =
      (fromRows A (replicateRow Unit c₁)).det * (fromCols (replicateCol Unit d₁) D).det +
      (fromRows A (replicateRow Unit c₂)).det * (fromCols (replicateCol Unit d₂) D).det := by
  set a : p ⊕ Unit → R := Sum.elim (fun _ => 0) (fun _ => 1) with ha
  set b : Unit ⊕ r → R := Sum.elim (fun _ => 1) (fun _ => 0) with hb
  set B := fromBlocks (fromRows A (replicateRow Unit c₁)) (Matrix.of fun i j => a i * b j)
    (Matrix.of fun i j => d₂ i * c₂ j) (fromCols (replicateCol Unit (-d₁)) D) with hB
  -- the rank-one identity on `B`
  have h1 : B.det = -((fromRows A (replicateRow Unit c₁)).det * (fromCols (replicateCol Unit d₁) D).det +
      (fromRows A (replicateRow Unit c₂)).det * (fromCols (replicateCol Unit d₂) D).det) := by
    rw [hB, det_fromBlocks_rankOne, det_fromCols_neg]
    have e1 : fromBlocks (fromRows A (replicateRow Unit c₁)) (replicateCol Unit a) (replicateRow Unit c₂) 0 =
        bordRows A c₁ c₂ 1 0 := by
      ext i j
      rcases i with (i | i) | i <;> rcases j with (j | j) | j <;> simp [bordRows, ha]
    have e2 : fromBlocks 0 (replicateRow Unit b) (replicateCol Unit d₂) (fromCols (replicateCol Unit (-d₁)) D) =
        bordCols D d₂ (-d₁) 0 1 := by
      ext i j
      rcases i with i | i | i <;> rcases j with j | j | j <;> simp [bordCols, hb]
    rw [e1, e2, det_bordRows, det_bordCols]
    ring
  -- `rk2` is the Schur complement of the unit entry of `B`
  set σ : Equiv.Perm (((p ⊕ Unit) ⊕ r) ⊕ Unit) := Equiv.swap (Sum.inl (Sum.inl (Sum.inr ()))) (Sum.inr ()) with hσ
  set U : Matrix ((p ⊕ Unit) ⊕ r) Unit R :=
    Matrix.of fun i _ => Sum.elim (Sum.elim (fun _ => 0) (fun _ => -d₁ (Sum.inl ()))) (fun j => -d₁ (Sum.inr j)) i with hU
  set V : Matrix Unit ((p ⊕ Unit) ⊕ r) R := Matrix.of fun _ j => Sum.elim c₁ (fun _ => 0) j with hV
  have h2 : ((B.submatrix (rk2Equiv p r) (rk2Equiv p r)).submatrix id σ) =
      fromBlocks (rk2 A D c₁ c₂ d₁ d₂ + U * V) U V 1 := by
    ext i j
    rcases i with ((i | i) | i) | i <;> rcases j with ((j | j) | j) | j <;>
      simp [hB, hσ, hU, hV, rk2, rk2Equiv, Equiv.swap_apply_def, Matrix.mul_apply, ha, hb]
  have h3 := Matrix.det_permute' σ (B.submatrix (rk2Equiv p r) (rk2Equiv p r))
  let _ : Invertible (1 : Matrix Unit Unit R) := invertibleOne
  rw [h2, det_submatrix_equiv_self, hσ, Equiv.Perm.sign_swap (by simp), det_fromBlocks₂₂] at h3
  simp at h3
  rw [h3, h1]
  ring

end threeDet

/-! ### The arithmetic at the heart of the 3-sum -/

local notation "𝕋" => Set.range (SignType.cast : SignType → ℤ)

theorem signRange_mul3 {a b c : ℤ} (ha : a ∈ 𝕋) (hb : b ∈ 𝕋) (hc : c ∈ 𝕋) : a * b * c ∈ 𝕋 :=
  signRange_mul (signRange_mul ha hb) hc

/-- a vector `x ∈ {0,±1}²` with `det [x, z] ∈ {0,±1}` (`z = (α,β)`, `α, β = ±1`) is `0`, `±e₁`, `±e₂` or `±z` -/
theorem pair_of_det_signRange {α β x1 x2 : ℤ} (hα : α = 1 ∨ α = -1) (hβ : β = 1 ∨ β = -1)
    (h1 : x1 ∈ 𝕋) (h2 : x2 ∈ 𝕋) (h : β * x1 - α * x2 ∈ 𝕋) : x2 = 0 ∨ x1 = 0 ∨ x1 = α * β * x2 := by
  rw [signRange_iff] at *
  rcases hα with rfl | rfl <;> rcases hβ with rfl | rfl <;> rcases h1 with rfl | rfl | rfl <;>
    rcases h2 with rfl | rfl | rfl <;> omega

/-- `y M x ∈ {0,±1}` whenever the entries of `M`, of `M z`, of `g M` and `g M z` are in `{0,±1}` and `x`, `y` are as
in `pair_of_det_signRange`: the value is, up to sign, one of those nine numbers. -/
theorem threeSum_arith {m00 m01 m10 m11 α β γ δ x1 x2 y1 y2 : ℤ}
    (hα : α = 1 ∨ α = -1) (hβ : β = 1 ∨ β = -1) (hγ : γ = 1 ∨ γ = -1) (hδ : δ = 1 ∨ δ = -1)
    (e00 : m00 ∈ 𝕋) (e01 : m01 ∈ 𝕋) (e10 : m10 ∈ 𝕋) (e11 : m11 ∈ 𝕋)
    (c0 : m00 * α + m01 * β ∈ 𝕋) (c1 : m10 * α + m11 * β ∈ 𝕋)
    (r0 : γ * m00 + δ * m10 ∈ 𝕋) (r1 : γ * m01 + δ * m11 ∈ 𝕋)
    (n : γ * (m00 * α + m01 * β) + δ * (m10 * α + m11 * β) ∈ 𝕋)
    (hx1 : x1 ∈ 𝕋) (hx2 : x2 ∈ 𝕋) (hx : β * x1 - α * x2 ∈ 𝕋)
    (hy1 : y1 ∈ 𝕋) (hy2 : y2 ∈ 𝕋) (hy : γ * y2 - δ * y1 ∈ 𝕋) :
    y1 * (m00 * x1 + m01 * x2) + y2 * (m10 * x1 + m11 * x2) ∈ 𝕋 := by
  have hX := pair_of_det_signRange hα hβ hx1 hx2 hx
  have hY : y2 = 0 ∨ y1 = 0 ∨ y1 = γ * δ * y2 := by
    have := pair_of_det_signRange hδ hγ hy2 hy1 hy
    rcases this with h | h | h
    · exact Or.inr (Or.inl h)
    · exact Or.inl h
    · refine Or.inr (Or.inr ?_)
      rcases hγ with rfl | rfl <;> rcases hδ with rfl | rfl <;> omega
  have tβ := signRange_of_pm1 hβ
  have tδ := signRange_of_pm1 hδ
  rcases hX with h | h | h <;> rcases hY with h' | h' | h' <;> subst h <;> subst h'
  · have e : y1 * (m00 * x1 + m01 * 0) + 0 * (m10 * x1 + m11 * 0) = y1 * x1 * m00 := by ring
    rw [e]; exact signRange_mul3 hy1 hx1 e00
  · have e : 0 * (m00 * x1 + m01 * 0) + y2 * (m10 * x1 + m11 * 0) = y2 * x1 * m10 := by ring
    rw [e]; exact signRange_mul3 hy2 hx1 e10
  · have e : γ * δ * y2 * (m00 * x1 + m01 * 0) + y2 * (m10 * x1 + m11 * 0) =
        (δ * y2) * x1 * (γ * m00 + δ * m10) := by
      rcases hδ with rfl | rfl <;> ring
    rw [e]; exact signRange_mul3 (signRange_mul tδ hy2) hx1 r0
  · have e : y1 * (m00 * 0 + m01 * x2) + 0 * (m10 * 0 + m11 * x2) = y1 * x2 * m01 := by ring
    rw [e]; exact signRange_mul3 hy1 hx2 e01
  · have e : 0 * (m00 * 0 + m01 * x2) + y2 * (m10 * 0 + m11 * x2) = y2 * x2 * m11 := by ring
    rw [e]; exact signRange_mul3 hy2 hx2 e11
  · have e : γ * δ * y2 * (m00 * 0 + m01 * x2) + y2 * (m10 * 0 + m11 * x2) =
        (δ * y2) * x2 * (γ * m01 + δ * m11) := by
      rcases hδ with rfl | rfl <;> ring
    rw [e]; exact signRange_mul3 (signRange_mul tδ hy2) hx2 r1
  · have e : y1 * (m00 * (α * β * x2) + m01 * x2) + 0 * (m10 * (α * β * x2) + m11 * x2) =
        y1 * (β * x2) * (m00 * α + m01 * β) := by
      rcases hβ with rfl | rfl <;> ring
    rw [e]; exact signRange_mul3 hy1 (signRange_mul tβ hx2) c0
  · have e : 0 * (m00 * (α * β * x2) + m01 * x2) + y2 * (m10 * (α * β * x2) + m11 * x2) =
        y2 * (β * x2) * (m10 * α + m11 * β) := by
      rcases hβ with rfl | rfl <;> ring
    rw [e]; exact signRange_mul3 hy2 (signRange_mul tβ hx2) c1
  · have e : γ * δ * y2 * (m00 * (α * β * x2) + m01 * x2) + y2 * (m10 * (α * β * x2) + m11 * x2) =
        (δ * y2) * (β * x2) * (γ * (m00 * α + m01 * β) + δ * (m10 * α + m11 * β)) := by
      rcases hβ with rfl | rfl <;> rcases hδ with rfl | rfl <;> ring
    rw [e]; exact signRange_mul3 (signRange_mul tδ hy2) (signRange_mul tβ hx2) n

/-! ### Square submatrices of the 3-sum, by the shape of their `A`-part -/

/-- If a square matrix factors as `F * E * G` through an index type of at most its size, `F`, `G` totally unimodular
and `det E ∈ {0,±1}`, then its determinant is 0 or ±1. -/
theorem det_signRange_of_factor3 {k : ℕ} {ρ γ κ : Type*} [Fintype κ] [DecidableEq κ]
    (S : Matrix (Fin k) (Fin k) ℤ) (eR : ρ ≃ Fin k) (eC : γ ≃ Fin k) (F : Matrix ρ κ ℤ) (E : Matrix κ κ ℤ)
    (G : Matrix κ γ ℤ) (hS : S.submatrix eR eC = F * E * G) (hF : F.IsTotallyUnimodular) (hE : E.det ∈ 𝕋)
    (hG : G.IsTotallyUnimodular) (hcard : Fintype.card κ ≤ k) : S.det ∈ 𝕋 := by
  rcases Nat.lt_or_ge (Fintype.card κ) k with hlt | hge
  · have hS' : S = (F.submatrix eR.symm id) * ((E * G).submatrix id eC.symm) := by
      rw [← Matrix.submatrix_mul F (E * G) eR.symm id eC.symm Function.bijective_id, ← Matrix.mul_assoc, ← hS]
      ext i j; simp
    rw [hS', det_mul_eq_zero_of_card_lt _ _ (by simpa using hlt)]
    exact ⟨0, by simp⟩
  · have hc : Fintype.card κ = Fintype.card (Fin k) := by simp; omega
    let e : κ ≃ Fin k := Fintype.equivOfCardEq hc
    have hS'' : S = (F.submatrix eR.symm e.symm) * (E.submatrix e.symm e.symm) * (G.submatrix e.symm eC.symm) := by
      rw [Matrix.submatrix_mul_equiv, Matrix.submatrix_mul_equiv, ← hS]
      ext i j; simp
    rw [hS'', Matrix.det_mul, Matrix.det_mul, det_submatrix_equiv_self]
    exact signRange_mul (signRange_mul ((isTotallyUnimodular_iff F).mp hF k _ _) hE)
      ((isTotallyUnimodular_iff G).mp hG k _ _)

/-- the `A`-part of the square submatrix has at least as many rows as columns -/
theorem threeSum_det_of_card_le {k : ℕ} {L R L' R' : Type*} [Fintype L] [Fintype R] [Fintype L'] [Fintype R']
    [DecidableEq L] [DecidableEq R] [DecidableEq L'] [DecidableEq R']
    (A : Matrix L L' ℤ) (C : Matrix R L' ℤ) (D : Matrix R R' ℤ)
    (hA : A.IsTotallyUnimodular) (hD : D.IsTotallyUnimodular)
    (S : Matrix (Fin k) (Fin k) ℤ) (eR : L ⊕ R ≃ Fin k) (eC : L' ⊕ R' ≃ Fin k)
    (hS : S.submatrix eR eC = fromBlocks A 0 C D)
    (hcard : Fintype.card L' ≤ Fintype.card L) : S.det ∈ 𝕋 := by
  have hk := Fintype.card_congr eR
  rw [Fintype.card_sum, Fintype.card_fin] at hk
  refine det_signRange_of_factor3 S eR eC (fromBlocks A 0 0 (1 : Matrix R R ℤ))
    (fromBlocks (1 : Matrix L' L' ℤ) 0 C (1 : Matrix R R ℤ)) (fromBlocks (1 : Matrix L' L' ℤ) 0 0 D) ?_ ?_ ?_ ?_ ?_
  · rw [hS, fromBlocks_multiply, fromBlocks_multiply]
    simp
  · exact fromBlocks_diag_isTotallyUnimodular _ _ hA one_isTotallyUnimodular
  · rw [det_fromBlocks_zero₁₂]
    exact ⟨1, by simp⟩
  · exact fromBlocks_diag_isTotallyUnimodular _ _ one_isTotallyUnimodular hD
  · simp only [Fintype.card_sum]
    omega

/-- the `A`-part of the square submatrix has at least two more columns than rows -/
theorem threeSum_det_of_card_ge_two {k : ℕ} {L R L' R' : Type*} [Fintype L] [Fintype R] [Fintype L'] [Fintype R']
    [DecidableEq L] [DecidableEq R] [DecidableEq L'] [DecidableEq R']
    (A : Matrix L L' ℤ) (J : Matrix (Fin 2) L' ℤ) (z : Fin 2 → ℤ) (g : Fin 2 → ℤ) (K : Matrix R (Fin 2) ℤ)
    (D : Matrix R R' ℤ) (Qi : Matrix (Fin 2) (Fin 2) ℤ) (hQi : Qi.det ∈ 𝕋)
    (h1 : (fromBlocks A 0 J (replicateCol Unit z)).IsTotallyUnimodular)
    (h2 : (fromBlocks (replicateRow Unit g) 0 K D).IsTotallyUnimodular)
    (S : Matrix (Fin k) (Fin k) ℤ) (eR : L ⊕ R ≃ Fin k) (eC : L' ⊕ R' ≃ Fin k)
    (hS : S.submatrix eR eC = fromBlocks A 0 (K * Qi * J) D)
    (hcard : Fintype.card L + 2 ≤ Fintype.card L') : S.det ∈ 𝕋 := by
  have hk := Fintype.card_congr eC
  rw [Fintype.card_sum, Fintype.card_fin] at hk
  refine det_signRange_of_factor3 S eR eC
    (fromBlocks (1 : Matrix L L ℤ) 0 0 (fromCols K D))
    (fromBlocks (1 : Matrix L L ℤ) 0 0 (fromBlocks Qi 0 0 (1 : Matrix R' R' ℤ)))
    (fromBlocks A 0 (fromRows J 0) (fromRows 0 (1 : Matrix R' R' ℤ))) ?_ ?_ ?_ ?_ ?_
  · rw [hS, fromBlocks_multiply, fromBlocks_multiply, fromCols_mul_fromBlocks]
    simp [fromCols_mul_fromRows]
  · apply fromBlocks_diag_isTotallyUnimodular _ _ one_isTotallyUnimodular
    have := h2.submatrix (Sum.inr : R → Unit ⊕ R) id
    convert this using 1
    ext i j
    rcases j with j | j <;> simp
  · rw [det_fromBlocks_zero₁₂, det_fromBlocks_zero₁₂]
    simpa using hQi
  · have := (fromBlocks_diag_isTotallyUnimodular _ _ h1 (one_isTotallyUnimodular (n := R'))).submatrix
      (Sum.elim (fun l => Sum.inl (Sum.inl l)) (Sum.elim (fun a => Sum.inl (Sum.inr a)) (fun j => Sum.inr j)) :
        L ⊕ (Fin 2 ⊕ R') → (L ⊕ Fin 2) ⊕ R')
      (Sum.elim (fun l => Sum.inl (Sum.inl l)) (fun j => Sum.inr j) : L' ⊕ R' → (L' ⊕ Unit) ⊕ R')
    convert this using 1
    ext i j
    rcases i with i | i | i <;> rcases j with j | j <;> simp
  · simp only [Fintype.card_sum, Fintype.card_fin]
    omega

theorem det_fromRows_lin {R : Type*} [CommRing R] {p : Type*} [Fintype p] [DecidableEq p]
    (A : Matrix p (p ⊕ Unit) R) (u v : p ⊕ Unit → R) (s t : R) :
    (fromRows A (replicateRow Unit (fun j => s * u j + t * v j))).det =
      s * (fromRows A (replicateRow Unit u)).det + t * (fromRows A (replicateRow Unit v)).det := by
  have e : ∀ w : p ⊕ Unit → R, fromRows A (replicateRow Unit w) =
      updateRow (fromRows A (replicateRow Unit u)) (Sum.inr ()) w := by
    intro w
    ext i j
    rcases i with i | i <;> simp [updateRow_apply]
  have e' : (fun j => s * u j + t * v j) = s • u + t • v := by ext j; simp
  rw [e (fun j => s * u j + t * v j), e v, e', det_updateRow_add, det_updateRow_smul, det_updateRow_smul, ← e u]

/-- the `A`-part of the square submatrix has exactly one more column than rows: the determinant is, up to sign,
`y Q⁻¹ x` with `x`, `y` the pairs of minors of the operands obtained by adding one special line -/
theorem threeSum_det_of_card_succ {k : ℕ} {L R L' R' : Type*} [Fintype L] [Fintype R] [Fintype L'] [Fintype R']
    [DecidableEq L] [DecidableEq R] [DecidableEq L'] [DecidableEq R']
    (A : Matrix L L' ℤ) (J : Matrix (Fin 2) L' ℤ) (z : Fin 2 → ℤ) (g : Fin 2 → ℤ) (K : Matrix R (Fin 2) ℤ)
    (D : Matrix R R' ℤ) (Qi : Matrix (Fin 2) (Fin 2) ℤ)
    (hz : ∀ a, z a = 1 ∨ z a = -1) (hg : ∀ b, g b = 1 ∨ g b = -1)
    (hQe : ∀ a b, Qi a b ∈ 𝕋) (hQz : ∀ a, Qi a 0 * z 0 + Qi a 1 * z 1 ∈ 𝕋)
    (hQg : ∀ b, g 0 * Qi 0 b + g 1 * Qi 1 b ∈ 𝕋)
    (hQn : g 0 * (Qi 0 0 * z 0 + Qi 0 1 * z 1) + g 1 * (Qi 1 0 * z 0 + Qi 1 1 * z 1) ∈ 𝕋)
    (h1 : (fromBlocks A 0 J (replicateCol Unit z)).IsTotallyUnimodular)
    (h2 : (fromBlocks (replicateRow Unit g) 0 K D).IsTotallyUnimodular)
    (S : Matrix (Fin k) (Fin k) ℤ) (eR : L ⊕ R ≃ Fin k) (eC : L' ⊕ R' ≃ Fin k)
    (hS : S.submatrix eR eC = fromBlocks A 0 (K * Qi * J) D)
    (hcard : Fintype.card L' = Fintype.card L + 1) : S.det ∈ 𝕋 := by
  have hk := Fintype.card_congr eR
  have hk' := Fintype.card_congr eC
  rw [Fintype.card_sum, Fintype.card_fin] at hk hk'
  let eL : L ⊕ Unit ≃ L' := Fintype.equivOfCardEq (by simp; omega)
  let eRr : Unit ⊕ R' ≃ R := Fintype.equivOfCardEq (by simp; omega)
  set Ab : Matrix L (L ⊕ Unit) ℤ := A.submatrix id eL with hAb
  set Db : Matrix (Unit ⊕ R') R' ℤ := D.submatrix eRr id with hDb
  set Jb : Fin 2 → L ⊕ Unit → ℤ := fun b j => J b (eL j) with hJb
  set c : Fin 2 → L ⊕ Unit → ℤ := fun a j => Qi a 0 * Jb 0 j + Qi a 1 * Jb 1 j with hc
  set d : Fin 2 → Unit ⊕ R' → ℤ := fun b i => K (eRr i) b with hd
  set T := rk2 Ab Db (c 0) (c 1) (d 0) (d 1) with hT
  let e₁ : Fin k ≃ (L ⊕ Unit) ⊕ R' :=
    (eR.symm.trans (Equiv.sumCongr (Equiv.refl L) eRr.symm)).trans (Equiv.sumAssoc L Unit R').symm
  let e₂ : Fin k ≃ (L ⊕ Unit) ⊕ R' := eC.symm.trans (Equiv.sumCongr eL.symm (Equiv.refl R'))
  have hST : S = T.submatrix e₁ e₂ := by
    have : S = (S.submatrix eR eC).submatrix eR.symm eC.symm := by ext i j; simp
    rw [this, hS, hT]
    ext i j
    simp only [submatrix_apply, e₁, e₂, Equiv.trans_apply, rk2]
    rcases eR.symm i with i' | i' <;> rcases eC.symm j with j' | j' <;>
      simp [Matrix.mul_apply, Fin.sum_univ_two, hAb, hDb, hc, hd, hJb]
    ring
  rw [hST]
  apply det_submatrix_equiv_equiv_signRange
  rw [hT, det_rk2, hc, det_fromRows_lin, det_fromRows_lin]
  have hf := fun (M : Matrix (L ⊕ Fin 2) (L' ⊕ Unit) ℤ) (h : M.IsTotallyUnimodular) =>
    (isTotallyUnimodular_iff_fintype M).mp h
  have hg' := fun (M : Matrix (Unit ⊕ R) (Fin 2 ⊕ R') ℤ) (h : M.IsTotallyUnimodular) =>
    (isTotallyUnimodular_iff_fintype M).mp h
  have hx : ∀ b : Fin 2, (fromRows Ab (replicateRow Unit (Jb b))).det ∈ 𝕋 := by
    intro b
    have := hf _ h1 (L ⊕ Unit) (Sum.elim Sum.inl (fun _ => Sum.inr b)) (fun j => Sum.inl (eL j))
    convert this using 2
    ext i j
    rcases i with i | i <;> simp [hAb, hJb]
  have hxz : z 1 * (fromRows Ab (replicateRow Unit (Jb 0))).det -
      z 0 * (fromRows Ab (replicateRow Unit (Jb 1))).det ∈ 𝕋 := by
    rw [← det_bordRows]
    have := hf _ h1 ((L ⊕ Unit) ⊕ Unit)
      (Sum.elim (Sum.elim Sum.inl (fun _ => Sum.inr 0)) (fun _ => Sum.inr 1)) (Sum.map eL id)
    convert this using 2
    ext i j
    rcases i with (i | i) | i <;> rcases j with j | j <;> simp [bordRows, hAb, hJb]
  have hy : ∀ b : Fin 2, (fromCols (replicateCol Unit (d b)) Db).det ∈ 𝕋 := by
    intro b
    have := hg' _ h2 (Unit ⊕ R') (fun i => Sum.inr (eRr i)) (Sum.elim (fun _ => Sum.inl b) Sum.inr)
    convert this using 2
    ext i j
    rcases j with j | j <;> simp [hDb, hd]
  have hyg : g 0 * (fromCols (replicateCol Unit (d 1)) Db).det -
      g 1 * (fromCols (replicateCol Unit (d 0)) Db).det ∈ 𝕋 := by
    rw [← det_bordCols]
    have := hg' _ h2 (Unit ⊕ (Unit ⊕ R')) (Sum.elim (fun _ => Sum.inl ()) (fun i => Sum.inr (eRr i)))
      (Sum.elim (fun _ => Sum.inl 0) (Sum.elim (fun _ => Sum.inl 1) Sum.inr))
    convert this using 2
    ext i j
    rcases i with i | i <;> rcases j with j | j | j <;> simp [bordCols, hDb, hd]
  have key := threeSum_arith (hz 0) (hz 1) (hg 0) (hg 1) (hQe 0 0) (hQe 0 1) (hQe 1 0) (hQe 1 1)
    (hQz 0) (hQz 1) (hQg 0) (hQg 1) hQn (hx 0) (hx 1) hxz (hy 0) (hy 1) hyg
  convert key using 1
  ring

/-- **3-sum, core form.**  `M₁ = [[A, 0],[J, z]]` (two special rows `J`, special column `(0; z)`) and
`M₂ = [[g, 0],[K, D]]` (special row `(g, 0)`, two special columns `K`) totally unimodular, `z`, `g` with entries `±1`,
and a `2 × 2` matrix `Qi` such that the entries of `Qi`, `Qi z`, `g Qi`, the number `g Qi z` and `det Qi` are all in
`{0,±1}`: then `[[A, 0],[K Qi J, D]]` is totally unimodular. -/
theorem threeSum_isTotallyUnimodular_core {m m' n n' : Type*} (A : Matrix m n ℤ) (J : Matrix (Fin 2) n ℤ)
    (z : Fin 2 → ℤ) (g : Fin 2 → ℤ) (K : Matrix m' (Fin 2) ℤ) (D : Matrix m' n' ℤ) (Qi : Matrix (Fin 2) (Fin 2) ℤ)
    (hz : ∀ a, z a = 1 ∨ z a = -1) (hg : ∀ b, g b = 1 ∨ g b = -1)
    (hQe : ∀ a b, Qi a b ∈ 𝕋) (hQz : ∀ a, Qi a 0 * z 0 + Qi a 1 * z 1 ∈ 𝕋)
    (hQg : ∀ b, g 0 * Qi 0 b + g 1 * Qi 1 b ∈ 𝕋)
    (hQn : g 0 * (Qi 0 0 * z 0 + Qi 0 1 * z 1) + g 1 * (Qi 1 0 * z 0 + Qi 1 1 * z 1) ∈ 𝕋)
    (hQd : Qi.det ∈ 𝕋)
    (h1 : (fromBlocks A 0 J (replicateCol Unit z)).IsTotallyUnimodular)
    (h2 : (fromBlocks (replicateRow Unit g) 0 K D).IsTotallyUnimodular) :
    (fromBlocks A 0 (K * Qi * J) D).IsTotallyUnimodular := by
  intro k f g' hf hg'
  set eR := Equiv.sumCompl (fun i : Fin k => (f i).isLeft = true) with heR
  set eC := Equiv.sumCompl (fun i : Fin k => (g' i).isLeft = true) with heC
  have hfl : ∀ i : {i : Fin k // (f i).isLeft = true}, ∃ a, f i.1 = Sum.inl a := fun i => Sum.isLeft_iff.mp i.2
  have hfr : ∀ i : {i : Fin k // ¬ (f i).isLeft = true}, ∃ a, f i.1 = Sum.inr a := fun i =>
    Sum.isRight_iff.mp (by have := i.2; simpa using this)
  have hgl : ∀ i : {i : Fin k // (g' i).isLeft = true}, ∃ a, g' i.1 = Sum.inl a := fun i => Sum.isLeft_iff.mp i.2
  have hgr : ∀ i : {i : Fin k // ¬ (g' i).isLeft = true}, ∃ a, g' i.1 = Sum.inr a := fun i =>
    Sum.isRight_iff.mp (by have := i.2; simpa using this)
  choose fl hfl using hfl
  choose fr hfr using hfr
  choose gl hgl using hgl
  choose gr hgr using hgr
  have hsorted : ((fromBlocks A 0 (K * Qi * J) D).submatrix f g').submatrix eR eC =
      fromBlocks (A.submatrix fl gl) 0 ((K.submatrix fr id) * Qi * (J.submatrix id gl)) (D.submatrix fr gr) := by
    ext i j
    rcases i with i | i <;> rcases j with j | j <;>
      simp [heR, heC, Equiv.sumCompl, hgl, hgr, hfl, hfr, Matrix.mul_apply]
  have k1 : (fromBlocks (A.submatrix fl gl) 0 (J.submatrix id gl) (replicateCol Unit z)).IsTotallyUnimodular := by
    have := h1.submatrix (Sum.map fl id) (Sum.map gl id)
    convert this using 1
    ext i j
    rcases i with i | i <;> rcases j with j | j <;> simp
  have k2 : (fromBlocks (replicateRow Unit g) 0 (K.submatrix fr id) (D.submatrix fr gr)).IsTotallyUnimodular := by
    have := h2.submatrix (Sum.map id fr) (Sum.map id gr)
    convert this using 1
    ext i j
    rcases i with i | i <;> rcases j with j | j <;> simp
  rcases Nat.lt_trichotomy (Fintype.card {i : Fin k // (g' i).isLeft = true})
    (Fintype.card {i : Fin k // (f i).isLeft = true} + 1) with hlt | heq | hgt
  · refine threeSum_det_of_card_le _ _ _ ?_ ?_ _ eR eC hsorted (by omega)
    · have := k1.submatrix (Sum.inl : _ → _ ⊕ Fin 2) (Sum.inl : _ → _ ⊕ Unit)
      convert this using 1
      ext i j; simp
    · have := k2.submatrix (Sum.inr : _ → Unit ⊕ _) (Sum.inr : _ → Fin 2 ⊕ _)
      convert this using 1
      ext i j; simp
  · exact threeSum_det_of_card_succ _ _ z g _ _ Qi hz hg hQe hQz hQg hQn k1 k2 _ eR eC hsorted heq
  · exact threeSum_det_of_card_ge_two _ _ z g _ _ Qi hQd k1 k2 _ eR eC hsorted (by omega)

/-- the inverse of an integer `2 × 2` matrix of determinant `±1` is `det Q • adj Q` -/
theorem mul_det_smul_adjugate {Q : Matrix (Fin 2) (Fin 2) ℤ} (hQ : Q.det = 1 ∨ Q.det = -1) :
    Q * (Q.det • Q.adjugate) = 1 := by
  rw [Matrix.mul_smul, Matrix.mul_adjugate, smul_smul]
  rcases hQ with h | h <;> rw [h] <;> simp

/-- **Truemper's 3-sum of totally unimodular matrices is totally unimodular** (standard position):
`M₁ = [[A, 0],[J, z]]`, `M₂ = [[g, 0],[K, D]]` and `N = [[g, 0],[Q, z]]` totally unimodular, `z`, `g` with entries
`±1`, `Q` nonsingular: then `[[A, 0],[K Q⁻¹ J, D]]` is totally unimodular (`Q⁻¹ = det Q • adj Q`). -/
theorem threeSum_isTotallyUnimodular {m m' n n' : Type*} (A : Matrix m n ℤ) (J : Matrix (Fin 2) n ℤ)
    (z : Fin 2 → ℤ) (g : Fin 2 → ℤ) (K : Matrix m' (Fin 2) ℤ) (D : Matrix m' n' ℤ) (Q : Matrix (Fin 2) (Fin 2) ℤ)
    (hz : ∀ a, z a = 1 ∨ z a = -1) (hg : ∀ b, g b = 1 ∨ g b = -1) (hQ : Q.det ≠ 0)
    (h1 : (fromBlocks A 0 J (replicateCol Unit z)).IsTotallyUnimodular)
    (h2 : (fromBlocks (replicateRow Unit g) 0 K D).IsTotallyUnimodular)
    (hN : (fromBlocks (replicateRow Unit g) 0 Q (replicateCol Unit z)).IsTotallyUnimodular) :
    (fromBlocks A 0 (K * (Q.det • Q.adjugate) * J) D).IsTotallyUnimodular := by
  have hm := (isTotallyUnimodular_iff_fintype _).mp hN
  have mQ := hm (Fin 2) ![Sum.inr 0, Sum.inr 1] ![Sum.inl 0, Sum.inl 1]
  have mz0 := hm (Fin 2) ![Sum.inr 0, Sum.inr 1] ![Sum.inl 0, Sum.inr ()]
  have mz1 := hm (Fin 2) ![Sum.inr 0, Sum.inr 1] ![Sum.inl 1, Sum.inr ()]
  have mg0 := hm (Fin 2) ![Sum.inl (), Sum.inr 0] ![Sum.inl 0, Sum.inl 1]
  have mg1 := hm (Fin 2) ![Sum.inl (), Sum.inr 1] ![Sum.inl 0, Sum.inl 1]
  have mN := hm (Fin 3) ![Sum.inl (), Sum.inr 0, Sum.inr 1] ![Sum.inl 0, Sum.inl 1, Sum.inr ()]
  have me : ∀ a b, Q a b ∈ 𝕋 := fun a b => by
    have := hN.apply (Sum.inr a) (Sum.inl b); simpa using this
  rw [det_fin_two] at mQ mz0 mz1 mg0 mg1
  rw [det_fin_three] at mN
  simp at mQ mz0 mz1 mg0 mg1 mN
  have hd : Q.det = Q 0 0 * Q 1 1 - Q 0 1 * Q 1 0 := det_fin_two Q
  have hdT : Q.det ∈ 𝕋 := by rw [hd]; exact mQ
  have hd1 : Q.det = 1 ∨ Q.det = -1 := by
    rcases (signRange_iff _).mp hdT with h | h | h
    · exact absurd h hQ
    · exact Or.inl h
    · exact Or.inr h
  have e00 : (Q.det • Q.adjugate) 0 0 = Q.det * Q 1 1 := by simp [adjugate_fin_two]
  have e01 : (Q.det • Q.adjugate) 0 1 = -(Q.det * Q 0 1) := by simp [adjugate_fin_two]
  have e10 : (Q.det • Q.adjugate) 1 0 = -(Q.det * Q 1 0) := by simp [adjugate_fin_two]
  have e11 : (Q.det • Q.adjugate) 1 1 = Q.det * Q 0 0 := by simp [adjugate_fin_two]
  refine threeSum_isTotallyUnimodular_core A J z g K D _ hz hg ?_ ?_ ?_ ?_ ?_ h1 h2
  · intro a b
    fin_cases a <;> fin_cases b <;> simp only [Fin.zero_eta, Fin.mk_one, Fin.isValue, e00, e01, e10, e11]
    · exact signRange_mul hdT (me 1 1)
    · exact signRange_neg (signRange_mul hdT (me 0 1))
    · exact signRange_neg (signRange_mul hdT (me 1 0))
    · exact signRange_mul hdT (me 0 0)
  · intro a
    fin_cases a <;> simp only [Fin.zero_eta, Fin.mk_one, Fin.isValue, e00, e01, e10, e11]
    · have := signRange_mul hdT (signRange_neg mz1)
      convert this using 1; ring
    · have := signRange_mul hdT mz0
      convert this using 1; ring
  · intro b
    fin_cases b <;> simp only [Fin.zero_eta, Fin.mk_one, Fin.isValue, e00, e01, e10, e11]
    · have := signRange_mul hdT mg1
      convert this using 1; ring
    · have := signRange_mul hdT (signRange_neg mg0)
      convert this using 1; ring
  · rw [e00, e01, e10, e11]
    have := signRange_mul hdT (signRange_neg mN)
    convert this using 1; ring
  · rw [det_smul, det_adjugate]
    simp only [Fintype.card_fin]
    exact signRange_mul (by rw [pow_two]; exact signRange_mul hdT hdT) (by simpa using hdT)

/-! ### The same statement for list matrices -/

/-- the `3 × 3` matrix `N = [[γ, δ, 0],[q00, q01, α],[q10, q11, β]]` as a block matrix -/
theorem toMx_threeN (γ δ q00 q01 q10 q11 α β : Int) :
    (toMx 3 3 [[γ, δ, 0], [q00, q01, α], [q10, q11, β]]).submatrix
        (Sum.elim (fun _ : Unit => (0 : Fin 3)) (fun a : Fin 2 => a.succ))
        (Sum.elim (fun b : Fin 2 => b.castSucc) (fun _ : Unit => (2 : Fin 3))) =
      fromBlocks (replicateRow Unit ![γ, δ]) 0 !![q00, q01; q10, q11] (replicateCol Unit ![α, β]) := by
  ext i j
  rcases i with i | i <;> rcases j with j | j <;> (try fin_cases i) <;> (try fin_cases j) <;> rfl

/-- 3-sums of list matrices.  `rows1, cols1` (`rows2, cols2`) are the lines of `M1` (`M2`) that survive; `ri rj` are
the special rows and `cz` the special column of `M1`, `rg` the special row and `ck2 cl2` the special columns of `M2`;
`q` is any `2 × 2` matrix for which `N` is totally unimodular. -/
theorem isTU_threeSum_lists {m1 n1 m2 n2 : Nat} (M1 M2 : Mat) (hTU1 : isTU m1 n1 M1 = true)
    (hTU2 : isTU m2 n2 M2 = true) (rows1 cols1 rows2 cols2 : List Nat)
    (hr1 : ∀ x ∈ rows1, x < m1) (hc1 : ∀ x ∈ cols1, x < n1) (hr2 : ∀ x ∈ rows2, x < m2) (hc2 : ∀ x ∈ cols2, x < n2)
    (ri rj cz rg ck2 cl2 : Nat) (hri : ri < m1) (hrj : rj < m1) (hcz : cz < n1) (hrg : rg < m2) (hck2 : ck2 < n2)
    (hcl2 : cl2 < n2)
    (hα : ent M1 ri cz = 1 ∨ ent M1 ri cz = -1) (hβ : ent M1 rj cz = 1 ∨ ent M1 rj cz = -1)
    (hγ : ent M2 rg ck2 = 1 ∨ ent M2 rg ck2 = -1) (hδ : ent M2 rg cl2 = 1 ∨ ent M2 rg cl2 = -1)
    (hz0 : ∀ x ∈ rows1, ent M1 x cz = 0) (hg0 : ∀ y ∈ cols2, ent M2 rg y = 0)
    (q00 q01 q10 q11 : Int) (hdet : q00 * q11 - q01 * q10 ≠ 0)
    (hN : isTU 3 3 [[ent M2 rg ck2, ent M2 rg cl2, 0], [q00, q01, ent M1 ri cz], [q10, q11, ent M1 rj cz]] = true) :
    isTU (rows1.length + rows2.length) (cols1.length + cols2.length)
      (blockMat rows1.length cols1.length rows2.length cols2.length
        (fun i j => ent M1 (rows1.getD i 0) (cols1.getD j 0))
        (fun _ _ => 0)
        (fun i j =>
          ent M2 (rows2.getD i 0) ck2 *
              ((q00 * q11 - q01 * q10) * q11 * ent M1 ri (cols1.getD j 0) +
                -((q00 * q11 - q01 * q10) * q01) * ent M1 rj (cols1.getD j 0)) +
            ent M2 (rows2.getD i 0) cl2 *
              (-((q00 * q11 - q01 * q10) * q10) * ent M1 ri (cols1.getD j 0) +
                (q00 * q11 - q01 * q10) * q00 * ent M1 rj (cols1.getD j 0)))
        (fun i j => ent M2 (rows2.getD i 0) (cols2.getD j 0))) = true := by
  rw [isTU_iff_submatrix_equiv _ finSumFinEquiv finSumFinEquiv, toMx_blockMat]
  rw [isTU_iff] at hTU1 hTU2 hN
  let fR1 : Fin rows1.length → Fin m1 := fun i => ⟨rows1.getD i 0, getD_lt_of_forall hr1 i.isLt⟩
  let fC1 : Fin cols1.length → Fin n1 := fun i => ⟨cols1.getD i 0, getD_lt_of_forall hc1 i.isLt⟩
  let fR2 : Fin rows2.length → Fin m2 := fun i => ⟨rows2.getD i 0, getD_lt_of_forall hr2 i.isLt⟩
  let fC2 : Fin cols2.length → Fin n2 := fun i => ⟨cols2.getD i 0, getD_lt_of_forall hc2 i.isLt⟩
  have hN' := hN.submatrix (Sum.elim (fun _ : Unit => (0 : Fin 3)) (fun a : Fin 2 => a.succ))
    (Sum.elim (fun b : Fin 2 => b.castSucc) (fun _ : Unit => (2 : Fin 3)))
  rw [toMx_threeN] at hN'
  have key := threeSum_isTotallyUnimodular
    (Matrix.of fun (i : Fin rows1.length) (j : Fin cols1.length) => ent M1 (rows1.getD i 0) (cols1.getD j 0))
    (Matrix.of fun (a : Fin 2) (j : Fin cols1.length) => ent M1 (if a = 0 then ri else rj) (cols1.getD j 0))
    ![ent M1 ri cz, ent M1 rj cz] ![ent M2 rg ck2, ent M2 rg cl2]
    (Matrix.of fun (i : Fin rows2.length) (b : Fin 2) => ent M2 (rows2.getD i 0) (if b = 0 then ck2 else cl2))
    (Matrix.of fun (i : Fin rows2.length) (j : Fin cols2.length) => ent M2 (rows2.getD i 0) (cols2.getD j 0))
    !![q00, q01; q10, q11]
    (by intro a; fin_cases a <;> simpa) (by intro b; fin_cases b <;> simpa)
    (by rw [det_fin_two_of]; exact hdet) ?_ ?_ hN'
  · convert key using 1
    ext i j
    rcases i with i | i <;> rcases j with j | j <;>
      simp [Matrix.mul_apply, Fin.sum_univ_two, det_fin_two_of, adjugate_fin_two_of]
    ring
  · have := hTU1.submatrix (Sum.elim fR1 (fun a : Fin 2 => if a = 0 then ⟨ri, hri⟩ else ⟨rj, hrj⟩))
      (Sum.elim fC1 (fun _ : Unit => ⟨cz, hcz⟩))
    convert this using 1
    ext i j
    rcases i with i | i <;> rcases j with j | j
    · simp [toMx, fR1, fC1]
    · simp [toMx, fR1, fC1]
      exact (hz0 _ (List.getElem_mem i.isLt)).symm
    · by_cases h : i = 0 <;> simp [h, toMx, fC1]
    · have hi : i = 0 ∨ i = 1 := by omega
      rcases hi with rfl | rfl <;> rfl
  · have := hTU2.submatrix (Sum.elim (fun _ : Unit => ⟨rg, hrg⟩) fR2)
      (Sum.elim (fun b : Fin 2 => if b = 0 then ⟨ck2, hck2⟩ else ⟨cl2, hcl2⟩) fC2)
    convert this using 1
    ext i j
    rcases i with i | i <;> rcases j with j | j
    · fin_cases j <;> simp [toMx]
    · simp [toMx, fR2, fC2]
      exact (hg0 _ (List.getElem_mem j.isLt)).symm
    · fin_cases j <;> simp [toMx, fR2]
    · simp [toMx, fR2, fC2]

end Cmr
