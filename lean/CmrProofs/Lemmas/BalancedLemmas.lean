/-
  Lemmas about the hole predicate of `Cmr/Balanced.lean` (`twoPerLine`, `entrySum`, `isUnbalancedHole`):
  restatement through the index lists (`twoPerLineL`, `entrySumL`), invariance under permuting the index lists,
  invariance under transposition, sorting of duplicate-free index lists into sublists of `List.range m`.
-/
import Mathlib.Algebra.BigOperators.Group.List.Basic
import Mathlib.Data.List.Sort
import CmrProofs.Lemmas.DetBridge
import Cmr.Balanced

set_option linter.unusedSimpArgs false
set_option linter.unusedVariables false

namespace Cmr

/-! ### list helpers -/

theorem map_getD_range (l : List Nat) : (List.range l.length).map (fun i => l.getD i 0) = l := by
  apply List.ext_getElem
  · simp
  · intro i h1 h2
    simp [List.getD_eq_getElem?_getD, List.getElem?_eq_getElem h2]

theorem all_congr_mem {α : Type} {l : List α} {p q : α → Bool} (h : ∀ x ∈ l, p x = q x) : l.all p = l.all q := by
  induction l with
  | nil => rfl
  | cons a l ih =>
    simp only [List.all_cons]
    rw [h a (by simp), ih (fun x hx => h x (by simp [hx]))]

theorem ent_sub_getD (M : Mat) (rs cs : List Nat) {i j : Nat} (hi : i < rs.length) (hj : j < cs.length) :
    ent (sub M rs cs) i j = ent M (rs.getD i 0) (cs.getD j 0) := by
  rw [ent_sub M rs cs hi hj]
  simp [List.getD_eq_getElem?_getD, List.getElem?_eq_getElem hi, List.getElem?_eq_getElem hj]

/-! ### the hole predicate through the index lists -/

/-- `twoPerLine (sub M rs cs)` stated on the index lists: every selected row has exactly two nonzeros in the selected
columns and vice versa (counted with multiplicity of the index lists). -/
def twoPerLineL (M : Mat) (rs cs : List Nat) : Bool :=
  rs.all (fun r => cs.countP (fun c => ent M r c != 0) == 2) &&
  cs.all (fun c => rs.countP (fun r => ent M r c != 0) == 2)

/-- `entrySum (sub M rs cs)` stated on the index lists. -/
def entrySumL (M : Mat) (rs cs : List Nat) : Int :=
  (rs.map (fun r => (cs.map (fun c => ent M r c)).sum)).sum

theorem twoPerLine_sub (M : Mat) (rs cs : List Nat) (k : Nat) (hr : rs.length = k) (hc : cs.length = k) :
    twoPerLine (sub M rs cs) k = twoPerLineL M rs cs := by
  subst hr
  unfold twoPerLine twoPerLineL
  congr 1
  · conv_rhs => rw [← map_getD_range rs, List.all_map]
    apply all_congr_mem
    intro i hi
    have hi' : i < rs.length := List.mem_range.mp hi
    simp only [Function.comp]
    congr 1
    rw [← List.countP_eq_length_filter]
    conv_rhs => rw [← map_getD_range cs, List.countP_map]
    rw [hc]
    apply List.countP_congr
    intro j hj
    have hj' : j < cs.length := by rw [hc]; exact List.mem_range.mp hj
    simp only [Function.comp]
    rw [ent_sub_getD M rs cs hi' hj']
  · conv_rhs => rw [← map_getD_range cs, List.all_map]
    rw [hc]
    apply all_congr_mem
    intro j hj
    have hj' : j < cs.length := by rw [hc]; exact List.mem_range.mp hj
    simp only [Function.comp]
    congr 1
    rw [← List.countP_eq_length_filter]
    conv_rhs => rw [← map_getD_range rs, List.countP_map]
    apply List.countP_congr
    intro i hi
    have hi' : i < rs.length := List.mem_range.mp hi
    simp only [Function.comp]
    rw [ent_sub_getD M rs cs hi' hj']

theorem entrySum_sub (M : Mat) (rs cs : List Nat) (k : Nat) (hr : rs.length = k) (hc : cs.length = k) :
    entrySum (sub M rs cs) k = entrySumL M rs cs := by
  subst hr
  unfold entrySum entrySumL
  congr 1
  conv_rhs => rw [← map_getD_range rs, List.map_map]
  apply List.map_congr_left
  intro i hi
  have hi' : i < rs.length := List.mem_range.mp hi
  simp only [Function.comp]
  congr 1
  conv_rhs => rw [← map_getD_range cs, List.map_map]
  rw [hc]
  apply List.map_congr_left
  intro j hj
  have hj' : j < cs.length := by rw [hc]; exact List.mem_range.mp hj
  simp only [Function.comp]
  rw [ent_sub_getD M rs cs hi' hj']

/-- the hole predicate on the index lists -/
def isUnbalancedHoleL (M : Mat) (rs cs : List Nat) : Bool := twoPerLineL M rs cs && entrySumL M rs cs % 4 == 2

theorem isUnbalancedHole_sub (M : Mat) (rs cs : List Nat) (k : Nat) (hr : rs.length = k) (hc : cs.length = k) :
    isUnbalancedHole (sub M rs cs) k = isUnbalancedHoleL M rs cs := by
  unfold isUnbalancedHole isUnbalancedHoleL
  rw [twoPerLine_sub M rs cs k hr hc, entrySum_sub M rs cs k hr hc]

/-! ### permutation invariance -/

theorem twoPerLineL_perm (M : Mat) {rs rs' cs cs' : List Nat} (hr : rs.Perm rs') (hc : cs.Perm cs') :
    twoPerLineL M rs cs = twoPerLineL M rs' cs' := by
  unfold twoPerLineL
  have e1 : (fun r => cs.countP (fun c => ent M r c != 0) == 2) =
      (fun r => cs'.countP (fun c => ent M r c != 0) == 2) := by
    funext r; rw [hc.countP_eq]
  have e2 : (fun c => rs.countP (fun r => ent M r c != 0) == 2) =
      (fun c => rs'.countP (fun r => ent M r c != 0) == 2) := by
    funext c; rw [hr.countP_eq]
  rw [e1, e2, hr.all_eq, hc.all_eq]

theorem entrySumL_perm (M : Mat) {rs rs' cs cs' : List Nat} (hr : rs.Perm rs') (hc : cs.Perm cs') :
    entrySumL M rs cs = entrySumL M rs' cs' := by
  unfold entrySumL
  have e1 : (fun r => (cs.map (fun c => ent M r c)).sum) = (fun r => (cs'.map (fun c => ent M r c)).sum) := by
    funext r; exact (hc.map _).sum_eq
  rw [e1]
  exact (hr.map _).sum_eq

theorem isUnbalancedHoleL_perm (M : Mat) {rs rs' cs cs' : List Nat} (hr : rs.Perm rs') (hc : cs.Perm cs') :
    isUnbalancedHoleL M rs cs = isUnbalancedHoleL M rs' cs' := by
  unfold isUnbalancedHoleL
  rw [twoPerLineL_perm M hr hc, entrySumL_perm M hr hc]

/-- **The hole predicate does not depend on the order of the index lists.** -/
theorem isUnbalancedHole_perm (M : Mat) {rs rs' cs cs' : List Nat} (k : Nat) (hr : rs.Perm rs') (hc : cs.Perm cs')
    (hlr : rs.length = k) (hlc : cs.length = k) :
    isUnbalancedHole (sub M rs cs) k = isUnbalancedHole (sub M rs' cs') k := by
  rw [isUnbalancedHole_sub M rs cs k hlr hlc,
    isUnbalancedHole_sub M rs' cs' k (by rw [← hr.length_eq]; exact hlr) (by rw [← hc.length_eq]; exact hlc)]
  exact isUnbalancedHoleL_perm M hr hc

/-! ### sorting duplicate-free index lists -/

/-- A duplicate-free list of numbers below `m`, sorted, is a sublist of `List.range m`. -/
theorem sorted_sublist_range (l : List Nat) (m : Nat) (hlt : ∀ x ∈ l, x < m) (hnd : l.Nodup) :
    (l.insertionSort (· ≤ ·)).Sublist (List.range m) := by
  have hperm := List.perm_insertionSort (· ≤ ·) l
  have hle : (l.insertionSort (· ≤ ·)).Pairwise (· ≤ ·) := List.pairwise_insertionSort (· ≤ ·) l
  have hnd' : (l.insertionSort (· ≤ ·)).Nodup := hperm.nodup_iff.mpr hnd
  have hpw : (l.insertionSort (· ≤ ·)).Pairwise (· < ·) := by
    have := hle.and hnd'
    exact this.imp (fun ⟨h1, h2⟩ => Nat.lt_of_le_of_ne h1 h2)
  apply List.sublist_of_subperm_of_pairwise (r := (· < ·)) _ hpw List.pairwise_lt_range
  apply List.subperm_of_subset hnd'
  intro x hx
  exact List.mem_range.mpr (hlt x (hperm.mem_iff.mp hx))

theorem sublist_range_length_le {l : List Nat} {m : Nat} (h : l.Sublist (List.range m)) : l.length ≤ m := by
  have := h.length_le
  simpa using this

/-! ### transposition -/

theorem sum_map_sum_comm (rs cs : List Nat) (f : Nat → Nat → Int) :
    (rs.map (fun r => (cs.map (fun c => f r c)).sum)).sum = (cs.map (fun c => (rs.map (fun r => f r c)).sum)).sum := by
  induction rs with
  | nil => simp
  | cons r rs ih =>
    simp only [List.map_cons, List.sum_cons]
    rw [ih, List.sum_map_add]

theorem twoPerLineL_transpose (m n : Nat) (M : Mat) (rs cs : List Nat) (hr : ∀ x ∈ rs, x < m) (hc : ∀ x ∈ cs, x < n) :
    twoPerLineL (transpose m n M) cs rs = twoPerLineL M rs cs := by
  unfold twoPerLineL
  rw [Bool.and_comm]
  congr 1
  · apply all_congr_mem
    intro r hr'
    congr 1
    apply List.countP_congr
    intro c hc'
    rw [transpose, ent_ofFn _ (hc c hc') (hr r hr')]
  · apply all_congr_mem
    intro c hc'
    congr 1
    apply List.countP_congr
    intro r hr'
    rw [transpose, ent_ofFn _ (hc c hc') (hr r hr')]

theorem entrySumL_transpose (m n : Nat) (M : Mat) (rs cs : List Nat) (hr : ∀ x ∈ rs, x < m) (hc : ∀ x ∈ cs, x < n) :
    entrySumL (transpose m n M) cs rs = entrySumL M rs cs := by
  unfold entrySumL
  rw [sum_map_sum_comm rs cs (fun r c => ent M r c)]
  congr 1
  apply List.map_congr_left
  intro c hc'
  congr 1
  apply List.map_congr_left
  intro r hr'
  rw [transpose, ent_ofFn _ (hc c hc') (hr r hr')]

theorem isUnbalancedHoleL_transpose (m n : Nat) (M : Mat) (rs cs : List Nat) (hr : ∀ x ∈ rs, x < m)
    (hc : ∀ x ∈ cs, x < n) :
    isUnbalancedHoleL (transpose m n M) cs rs = isUnbalancedHoleL M rs cs := by
  unfold isUnbalancedHoleL
  rw [twoPerLineL_transpose m n M rs cs hr hc, entrySumL_transpose m n M rs cs hr hc]

/-- ternarity of a well-formed matrix, entrywise -/
theorem isTernary_iff_ent {M : Mat} {m n : Nat} (hwf : M.wf m n = true) :
    isTernary M = true ↔ ∀ i, i < m → ∀ j, j < n → isTernaryEntry (ent M i j) = true := by
  constructor
  · intro h i hi j hj
    exact (isTernaryEntry_iff _).mpr (ent_ternary hwf h hi hj)
  · intro h
    rw [← ofFn_ent hwf]
    exact isTernary_ofFn (fun i hi j hj => (isTernaryEntry_iff _).mp (h i hi j hj))

theorem isTernary_transpose {M : Mat} {m n : Nat} (hwf : M.wf m n = true) :
    isTernary (transpose m n M) = isTernary M := by
  have hwt : (transpose m n M).wf n m = true := wf_ofFn n m _
  rw [Bool.eq_iff_iff, isTernary_iff_ent hwt, isTernary_iff_ent hwf]
  constructor
  · intro h i hi j hj
    have := h j hj i hi
    rwa [transpose, ent_ofFn _ hj hi] at this
  · intro h j hj i hi
    rw [transpose, ent_ofFn _ hj hi]
    exact h i hi j hj

end Cmr
