/-
  Helper lemmas for C16 (`Cmr/Equimod.lean`): gcd folds, the "largest index satisfying a predicate" search used by
  `rankQ`, `choose` on a full list, column replacement versus `Matrix.updateCol`, and the identity matrix being
  totally unimodular.
-/
import CmrProofs.Lemmas.DetBridge
import Cmr.Equimod

set_option linter.unusedSimpArgs false
set_option linter.unusedVariables false

namespace Cmr
open Matrix

/-! ### gcd folds -/

theorem foldl_gcd_dvd {α : Type} (f : α → Nat) (l : List α) (g0 : Nat) :
    l.foldl (fun g x => Nat.gcd g (f x)) g0 ∣ g0 ∧
      ∀ x ∈ l, l.foldl (fun g x => Nat.gcd g (f x)) g0 ∣ f x := by
  induction l generalizing g0 with
  | nil => simp
  | cons a l ih =>
    simp only [List.foldl_cons, List.mem_cons]
    obtain ⟨h1, h2⟩ := ih (Nat.gcd g0 (f a))
    refine ⟨h1.trans (Nat.gcd_dvd_left _ _), ?_⟩
    rintro x (rfl | hx)
    · exact h1.trans (Nat.gcd_dvd_right _ _)
    · exact h2 x hx

theorem dvd_foldl_gcd {α : Type} (f : α → Nat) (l : List α) (g0 d : Nat) (h0 : d ∣ g0)
    (h : ∀ x ∈ l, d ∣ f x) : d ∣ l.foldl (fun g x => Nat.gcd g (f x)) g0 := by
  induction l generalizing g0 with
  | nil => simpa using h0
  | cons a l ih =>
    simp only [List.foldl_cons]
    exact ih _ (Nat.dvd_gcd h0 (h a (by simp))) (fun x hx => h x (by simp [hx]))

/-! ### the downward search of `rankQ` -/

/-- the `k × k` minors of `M` do not all vanish -/
def hasMinor (m n : Nat) (M : Mat) (k : Nat) : Bool :=
  (choose k (List.range m)).any fun rs => (choose k (List.range n)).any fun cs => detL k (sub M rs cs) != 0

theorem rankQ_eq (m n : Nat) (M : Mat) :
    rankQ m n M = ((List.range (min m n + 1)).reverse.find? (hasMinor m n M)).getD 0 := rfl

theorem hasMinor_iff (m n : Nat) (M : Mat) (k : Nat) :
    hasMinor m n M k = true ↔
      ∃ rs ∈ choose k (List.range m), ∃ cs ∈ choose k (List.range n), detL k (sub M rs cs) ≠ 0 := by
  simp [hasMinor]

theorem hasMinor_zero (m n : Nat) (M : Mat) : hasMinor m n M 0 = true := by
  simp [hasMinor, choose, detL]

/-- Searching `N, N-1, …, 0` for the first index satisfying `P` (with `P 0`) finds the largest such index. -/
theorem findLast_spec (P : Nat → Bool) (N : Nat) (h0 : P 0 = true) :
    ((List.range (N + 1)).reverse.find? P).getD 0 ≤ N ∧
    P (((List.range (N + 1)).reverse.find? P).getD 0) = true ∧
    ∀ k, ((List.range (N + 1)).reverse.find? P).getD 0 < k → k ≤ N → P k = false := by
  induction N with
  | zero =>
    simp only [Nat.zero_add, List.range_one, List.reverse_singleton, List.find?_cons, h0, Option.getD_some]
    exact ⟨Nat.le_refl _, trivial, fun k h1 h2 => by omega⟩
  | succ N ih =>
    rw [List.range_succ, List.reverse_append]
    simp only [List.reverse_singleton, List.singleton_append, List.find?_cons]
    cases hP : P (N + 1) with
    | true =>
      simp only [Option.getD_some]
      exact ⟨Nat.le_refl _, hP, fun k h1 h2 => by omega⟩
    | false =>
      simp only []
      obtain ⟨a, b, c⟩ := ih
      refine ⟨by omega, b, ?_⟩
      intro k hk hk2
      by_cases hkN : k = N + 1
      · subst hkN; exact hP
      · exact c k hk (by omega)

/-! ### `choose` on the whole list -/

theorem choose_eq_nil_of_lt {α : Type} (k : Nat) (xs : List α) (h : xs.length < k) : choose k xs = [] := by
  apply List.eq_nil_iff_forall_not_mem.mpr
  intro l hl
  rw [mem_choose] at hl
  have := hl.1.length_le
  omega

theorem choose_length_self {α : Type} (xs : List α) : choose xs.length xs = [xs] := by
  induction xs with
  | nil => simp [choose]
  | cons x xs ih =>
    simp only [List.length_cons, choose, ih, List.map_cons, List.map_nil]
    rw [choose_eq_nil_of_lt _ _ (Nat.lt_succ_self _)]
    simp

theorem choose_range_self (n : Nat) : choose n (List.range n) = [List.range n] := by
  have := choose_length_self (List.range n)
  simpa using this

theorem length_of_mem_choose {α : Type} {k : Nat} {xs l : List α} (h : l ∈ choose k xs) : l.length = k :=
  ((mem_choose k xs l).mp h).2

theorem lt_of_mem_choose_range {k m : Nat} {l : List Nat} (h : l ∈ choose k (List.range m)) :
    ∀ x ∈ l, x < m := fun x hx => List.mem_range.mp (((mem_choose k _ l).mp h).1.subset hx)

/-! ### shapes and entries -/

theorem wf_sub (M : Mat) (rs cs : List Nat) : (sub M rs cs).wf rs.length cs.length = true := by
  simp [Mat.wf, sub]

theorem sub_range_self {M : Mat} {m n : Nat} (h : M.wf m n = true) :
    sub M (List.range m) (List.range n) = M := by
  have hw := wf_sub M (List.range m) (List.range n)
  simp only [List.length_range] at hw
  apply mat_ext hw h
  intro i hi j hj
  rw [ent_sub M _ _ (by simpa using hi) (by simpa using hj)]
  simp

theorem mapEntries_ofFn (m n : Nat) (f : Nat → Nat → Int) (g : Int → Int) :
    (Mat.ofFn m n f).mapEntries g = Mat.ofFn m n (fun i j => g (f i j)) := by
  simp [Mat.ofFn, Mat.mapEntries, List.map_map, Function.comp_def]

theorem all_ofFn (m n : Nat) (f : Nat → Nat → Int) (p : Int → Bool) :
    (Mat.ofFn m n f).all (fun row => row.all p) = true ↔ ∀ i, i < m → ∀ j, j < n → p (f i j) = true := by
  simp [Mat.ofFn, List.all_eq_true]

/-- column `j` of a list matrix -/
def colOf (N : Mat) (j : Nat) : List Int := N.map (fun row => row.getD j 0)

theorem colOf_sub (M : Mat) (rs B : List Nat) {j : Nat} (hj : j < B.length) :
    colOf (sub M rs B) j = rs.map (fun x => ent M x B[j]) := by
  simp [colOf, sub, List.map_map, Function.comp_def, List.getD_eq_getElem?_getD, List.getElem?_map,
    List.getElem?_eq_getElem hj]

theorem length_colOf (N : Mat) (j : Nat) : (colOf N j).length = N.length := by simp [colOf]

theorem getD_colOf (N : Mat) (j t : Nat) (ht : t < N.length) : (colOf N j).getD t 0 = ent N t j := by
  simp [colOf, ent, List.getD_eq_getElem?_getD, List.getElem?_map, List.getElem?_eq_getElem ht]

/-! ### column replacement is `Matrix.updateCol` -/

theorem ent_replaceCol {N : Mat} {r : Nat} (hN : N.wf r r = true) (v : List Int) (hv : v.length = r)
    {i a b : Nat} (hi : i < r) (ha : a < r) (hb : b < r) :
    ent (replaceCol N i v) a b = if b = i then v.getD a 0 else ent N a b := by
  have hl := length_of_wf hN
  have haN : a < N.length := by omega
  have hav : a < v.length := by omega
  have hrow : (N[a]).length = r := row_length_of_wf hN (List.getElem_mem haN)
  have haz : a < (N.zip v).length := by simp; omega
  unfold ent replaceCol
  simp only [List.getD_eq_getElem?_getD, List.getElem?_map, List.getElem?_eq_getElem haz,
    List.getElem_zip, Option.map_some, Option.getD_some, List.getElem?_set,
    List.getElem?_eq_getElem haN, List.getElem?_eq_getElem hav]
  by_cases hbi : b = i
  · subst hbi
    simp [hrow, hb]
  · have : ¬ i = b := fun h => hbi h.symm
    simp [hbi, this]

theorem wf_replaceCol {N : Mat} {r : Nat} (hN : N.wf r r = true) (v : List Int) (hv : v.length = r) (i : Nat) :
    (replaceCol N i v).wf r r = true := by
  have hl := length_of_wf hN
  simp only [Mat.wf, Bool.and_eq_true, beq_iff_eq, List.all_eq_true, replaceCol, List.length_map,
    List.length_zip, List.mem_map]
  refine ⟨by omega, ?_⟩
  rintro row ⟨⟨row', x⟩, hmem, rfl⟩
  simp only [List.length_set]
  exact row_length_of_wf hN (List.of_mem_zip hmem).1

theorem toMx_replaceCol {N : Mat} {r : Nat} (hN : N.wf r r = true) (v : List Int) (hv : v.length = r)
    {i : Nat} (hi : i < r) :
    toMx r r (replaceCol N i v) = (toMx r r N).updateCol ⟨i, hi⟩ (fun t => v.getD t 0) := by
  ext a b
  simp only [toMx, Matrix.updateCol_apply, ent_replaceCol hN v hv hi a.isLt b.isLt, Fin.ext_iff]

/-- Replacing column `i` of `N` by column `j` of `N` gives `N` (if `i = j`) or a matrix with two equal columns. -/
theorem detL_replaceCol_colOf {N : Mat} {r : Nat} (hN : N.wf r r = true) {i j : Nat} (hi : i < r) (hj : j < r) :
    detL r (replaceCol N i (colOf N j)) = if i = j then detL r N else 0 := by
  have hl := length_of_wf hN
  have hv : (colOf N j).length = r := by rw [length_colOf]; exact hl
  rw [detL_eq_det, toMx_replaceCol hN _ hv hi]
  have hcol : (fun t : Fin r => (colOf N j).getD t 0) = fun t : Fin r => toMx r r N t ⟨j, hj⟩ := by
    funext t
    rw [getD_colOf N j t (by rw [hl]; exact t.isLt)]
    rfl
  rw [hcol]
  by_cases hij : i = j
  · subst hij
    simp only [if_true]
    rw [Matrix.updateCol_eq_self, detL_eq_det]
  · simp only [hij, if_false]
    apply Matrix.det_zero_of_column_eq (i := (⟨i, hi⟩ : Fin r)) (j := ⟨j, hj⟩)
    · intro h; exact hij (Fin.ext_iff.mp h)
    · intro k
      have : (⟨j, hj⟩ : Fin r) ≠ ⟨i, hi⟩ := fun h => hij (Fin.ext_iff.mp h).symm
      simp [Matrix.updateCol_apply, this]

/-! ### the identity matrix is totally unimodular -/

/-- the `n × n` identity as a list matrix -/
def identity (n : Nat) : Mat := Mat.ofFn n n (fun i j => if i = j then 1 else 0)

theorem toMx_identity (n : Nat) : toMx n n (identity n) = (1 : Matrix (Fin n) (Fin n) ℤ) := by
  ext i j
  simp only [toMx, identity, ent_ofFn _ i.isLt j.isLt, Matrix.one_apply, Fin.ext_iff]

theorem one_isTotallyUnimodular (n : Nat) : (1 : Matrix (Fin n) (Fin n) ℤ).IsTotallyUnimodular := by
  have h0 : (Matrix.of (fun (_ : Fin 0) (_ : Fin n) => (0 : ℤ))).IsTotallyUnimodular :=
    Matrix.emptyRows_isTotallyUnimodular _
  have h1 := h0.fromRows_one
  have h2 := h1.submatrix (Sum.inr : Fin n → Fin 0 ⊕ Fin n) id
  have e : (Matrix.fromRows (Matrix.of (fun (_ : Fin 0) (_ : Fin n) => (0 : ℤ))) 1).submatrix
      (Sum.inr : Fin n → Fin 0 ⊕ Fin n) id = 1 := by
    ext i j; simp
  rwa [e] at h2

theorem isTU_identity (n : Nat) : isTU n n (identity n) = true := by
  rw [isTU_iff, toMx_identity]
  exact one_isTotallyUnimodular n

end Cmr
