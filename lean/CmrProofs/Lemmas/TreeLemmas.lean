/-
  Lemmas for C03 / C04 — inversion of the two per-node tree checkers of `Cmr/Tree.lean`, and the matrix lemma behind the
  TU certification of series-parallel nodes.

  * `Cmr.Ex.*`: small facts about `Except` (`bind_eq_ok`, `forM_ok_iff`, `mapM_ok_iff`, `forIn_unit_ok_iff`, …).
  * `isPerm_iff`.
  * `checkRecompose` and `checkFlags` are long `do` blocks in `Except`.  They are cut into named pieces whose text is
    copied verbatim from `Cmr/Tree.lean` (`recompLeaf/SP/Piv/One/Sum`, `recompKids/Fields/Transpose`, `flagsGraph`, …,
    the latter in continuation-passing form) so that `checkRecompose_eq` and `checkFlags_eq` hold by `rfl`; every piece
    gets an `…_ok_iff` lemma stating exactly when it accepts, and `checkRecompose_ok_iff` / `checkFlags_ok_iff`
    (structure `FlagsOk`) put them together.  The pieces are proof devices, not model code.
  * `tu_of_row`: adding a zero row, a signed unit row or a ± copy of a row to a totally unimodular matrix (Mathlib) keeps
    it totally unimodular; `mxOn`, `isTU_sub_iff_mxOn`, `lineRem_TU` transport this to the list model.
-/
import Cmr.Tree
import CmrProofs.Lemmas.TUClosure
import CmrProofs.Lemmas.SPLemmas
import Mathlib.Tactic

set_option linter.unusedSimpArgs false
set_option linter.unusedVariables false

namespace Cmr
namespace Ex

theorem throw_bind {ε α β : Type} (e : ε) (f : α → Except ε β) : (throw e : Except ε α) >>= f = Except.error e := rfl
theorem throw_eq {ε α : Type} (e : ε) : (throw e : Except ε α) = Except.error e := rfl
theorem pure_eq {ε α : Type} (a : α) : (pure a : Except ε α) = Except.ok a := rfl
theorem ok_bind {ε α β : Type} (a : α) (f : α → Except ε β) : (Except.ok a : Except ε α) >>= f = f a := rfl
theorem error_bind {ε α β : Type} (e : ε) (f : α → Except ε β) : (Except.error e : Except ε α) >>= f = Except.error e := rfl

theorem bind_eq_ok {ε α β : Type} (x : Except ε α) (f : α → Except ε β) (b : β) :
    (x >>= f) = Except.ok b ↔ ∃ a, x = Except.ok a ∧ f a = Except.ok b := by
  cases x with
  | error e => simp [error_bind]
  | ok a => simp [ok_bind]

theorem ite_error_eq_ok {ε α : Type} (c : Prop) [Decidable c] (e : ε) (x : Except ε α) (b : α) :
    (if c then Except.error e else x) = Except.ok b ↔ ¬ c ∧ x = Except.ok b := by
  split <;> simp [*]

theorem forM_ok_iff {ε α : Type} (f : α → Except ε Unit) (l : List α) :
    l.forM f = Except.ok () ↔ ∀ x ∈ l, f x = Except.ok () := by
  induction l with
  | nil => simp [List.forM_eq_forM, pure_eq]
  | cons a l ih =>
    simp only [List.forM_eq_forM] at ih ⊢
    simp only [List.forM_cons, bind_eq_ok, ih, List.mem_cons, forall_eq_or_imp]
    constructor
    · rintro ⟨_, h1, h2⟩; exact ⟨h1, h2⟩
    · rintro ⟨h1, h2⟩; exact ⟨(), h1, h2⟩

theorem mapM_ok_iff {ε α β : Type} (f : α → Except ε β) (l : List α) (ys : List β) :
    l.mapM f = Except.ok ys ↔ List.Forall₂ (fun x y => f x = Except.ok y) l ys := by
  induction l generalizing ys with
  | nil => simp [pure_eq]
  | cons a l ih =>
    simp only [List.mapM_cons, bind_eq_ok, pure_eq, Except.ok.injEq]
    constructor
    · rintro ⟨b, hb, bs, hbs, rfl⟩
      exact List.Forall₂.cons hb ((ih bs).mp hbs)
    · intro h
      cases h with
      | cons hb hbs => exact ⟨_, hb, _, (ih _).mpr hbs, rfl⟩

/-- a `for` loop over a list whose body never breaks and carries no state -/
theorem forIn_unit_ok_iff {ε α : Type} (f : α → PUnit.{1} → Except ε (ForInStep PUnit.{1})) (l : List α)
    (hf : ∀ x r, f x PUnit.unit = Except.ok r → r = ForInStep.yield PUnit.unit) :
    forIn l PUnit.unit f = Except.ok PUnit.unit ↔ ∀ x ∈ l, f x PUnit.unit = Except.ok (ForInStep.yield PUnit.unit) := by
  induction l with
  | nil => simp [pure_eq]
  | cons a l ih =>
    simp only [List.forIn_cons, bind_eq_ok, List.mem_cons, forall_eq_or_imp]
    constructor
    · rintro ⟨r, hr, h⟩
      have := hf a r hr
      subst this
      exact ⟨hr, ih.mp h⟩
    · rintro ⟨h1, h2⟩
      exact ⟨_, h1, ih.mpr h2⟩

theorem mapM_option_eq_some_iff {α β : Type} (f : α → Option β) (l : List α) (ys : List β) :
    l.mapM f = some ys ↔ List.Forall₂ (fun x y => f x = some y) l ys := by
  induction l generalizing ys with
  | nil => simp
  | cons a l ih =>
    simp only [List.mapM_cons, Option.bind_eq_bind, Option.bind_eq_some_iff, Option.pure_def, Option.some.injEq]
    constructor
    · rintro ⟨b, hb, bs, hbs, rfl⟩
      exact List.Forall₂.cons hb ((ih bs).mp hbs)
    · intro h
      cases h with
      | cons hb hbs => exact ⟨_, hb, _, (ih _).mpr hbs, rfl⟩

end Ex

theorem isPerm_iff (l : List Nat) (n : Nat) : isPerm l n = true ↔ l.Perm (List.range n) := by
  unfold isPerm
  simp only [Bool.and_eq_true, beq_iff_eq, decide_eq_true_eq, List.all_eq_true]
  constructor
  · rintro ⟨⟨hl, hnd⟩, hlt⟩
    have hsub : l ⊆ List.range n := fun x hx => List.mem_range.mpr (hlt x hx)
    have := List.subperm_of_subset hnd hsub
    exact this.perm_of_length_le (by simp [hl])
  · intro h
    refine ⟨⟨by simpa using h.length_eq, h.nodup_iff.mpr List.nodup_range⟩, ?_⟩
    intro x hx
    exact List.mem_range.mp (h.subset hx)


/-! ### verbatim pieces of `checkRecompose` -/

/-- expected child-to-parent row map of a pivot node: pivot rows become the pivot columns -/
def pivExpRows (m : Nat) (pivots : List (Nat × Nat)) : List Int :=
  (List.range m).map (fun i =>
    match pivots.find? (fun p => p.1 == i) with | some p => (p.2 : Int) + 1 | none => -1 - (i : Int))
/-- expected child-to-parent column map of a pivot node -/
def pivExpCols (n : Nat) (pivots : List (Nat × Nat)) : List Int :=
  (List.range n).map (fun j =>
    match pivots.find? (fun p => p.2 == j) with | some p => -1 - (p.1 : Int) | none => (j : Int) + 1)

/-- rows, columns and matrix of one child of a 1-sum node -/
def oneBlock (nd : FNode) : ChildInfo × FNode → Except (String × String) (List Nat × List Nat × Mat) :=
  fun (ci, k) =>
    match ci.rowsToParent.mapM rowOfElem, ci.colsToParent.mapM colOfElem with
    | some rs, some cs =>
      if rs.length == k.matrix.numRows && cs.length == k.matrix.numCols then pure (rs, cs, k.matrix.toDense)
      else throw ("tree:maps", s!"node {nd.id}: child map lengths")
    | _, _ => throw ("tree:maps", s!"node {nd.id}: 1-sum child maps are not rows->rows, columns->columns")

/-- the `m × n` matrix having block `B` on the lines `rs × cs` for every `(rs, cs, B)` in `blocks`, zero elsewhere -/
def blockDiag (m n : Nat) (blocks : List (List Nat × List Nat × Mat)) : Mat :=
  Mat.ofFn m n (fun i j =>
    match blocks.find? (fun b => b.1.contains i && b.2.1.contains j) with
    | some (rs, cs, B) => ent B (rs.idxOf i) (cs.idxOf j)
    | none => 0)

/-- the composition and the special (non-mapped) lines of a 2-sum, Δ-sum, Y-sum or 3-sum node, exactly as `checkRecompose` computes them -/
def sumSpec (nd : FNode) (c0 : ChildInfo) (k0 : FNode) (c1 : ChildInfo) (k1 : FNode) :
    Except String Mat × List (Option Nat) × List (Option Nat) × List (Option Nat) × List (Option Nat) :=
    let ty := nd.type
    let ch := chOf nd
    let m0 := k0.matrix.numRows; let n0 := k0.matrix.numCols; let m1 := k1.matrix.numRows; let n1 := k1.matrix.numCols
    let M0 := k0.matrix.toDense; let M1 := k1.matrix.toDense
    let g (l : List (Option Nat)) (i : Nat) : Option Nat := l.getD i none
      if ty == NodeType.twosum then
        (if m0 == 0 || n1 == 0 then .error "empty child" else compose2a ch m0 n0 M0 m1 n1 M1 (m0 - 1) 0,
         [some (m0 - 1)], [], [], [some 0])
      else if ty == NodeType.deltasum then
        ((match g c0.specialRows 0, g c0.specialCols 0, g c0.specialCols 1, g c1.specialRows 0, g c1.specialCols 0, g c1.specialCols 1 with
          | some a, some b, some c, some d, some e, some f => composeDelta ch m0 n0 M0 m1 n1 M1 a b c d e f
          | _, _, _, _, _, _ => .error "special lines not recorded"),
         c0.specialRows, c0.specialCols, c1.specialRows, c1.specialCols)
      else if ty == NodeType.ysum then
        ((match g c0.specialRows 0, g c0.specialRows 1, g c0.specialCols 0, g c1.specialRows 0, g c1.specialRows 1, g c1.specialCols 0 with
          | some a, some b, some c, some d, some e, some f => composeY ch m0 n0 M0 m1 n1 M1 a b c d e f
          | _, _, _, _, _, _ => .error "special lines not recorded"),
         c0.specialRows, c0.specialCols, c1.specialRows, c1.specialCols)
      else if ty == NodeType.threesum then
        ((match (c0.specialRows ++ c0.specialCols ++ c1.specialRows ++ c1.specialCols).mapM id with
          | some [ri, rj, ck, cl, cz, rg, ri2, rj2, ck2, cl2] =>
            compose3 ch m0 n0 M0 m1 n1 M1 ri rj ck cl cz rg ri2 rj2 ck2 cl2 (fun N => ch != 3 || isTU 3 3 N)
          | _ => .error "special lines not recorded"),
         c0.specialRows, [g c0.specialCols 2], [g c1.specialRows 0], c1.specialCols)
      else (.error s!"unknown node type {ty}", [], [], [], [])

def recompLeaf (nd : FNode) (kids : List (ChildInfo × FNode)) : Except (String × String) Unit := do
  let m := nd.matrix.numRows; let n := nd.matrix.numCols
  let M := nd.matrix.toDense
  let ty := nd.type
  let ch := chOf nd
  if kids.length != 0 then throw ("tree:arity", s!"node {nd.id}: leaf type {ty} with {kids.length} children")
  return ()

def recompSP (nd : FNode) (kids : List (ChildInfo × FNode)) : Except (String × String) Unit := do
  let m := nd.matrix.numRows; let n := nd.matrix.numCols
  let M := nd.matrix.toDense
  let ty := nd.type
  let ch := chOf nd
  if kids.length > 1 then throw ("tree:arity", s!"node {nd.id}: series-parallel node with {kids.length} children")
  match applyReductions nd.ternary M (List.range m) (List.range n) nd.reductions 0 with
  | .error k => throw ("tree:sp", s!"node {nd.id}: reduction #{k} is not a valid zero/unit/copy reduction at that point")
  | .ok (R, C) =>
    match kids with
    | [] =>
      if !(R.isEmpty && C.isEmpty) then throw ("tree:sp", s!"node {nd.id}: no child but reductions leave rows {R} columns {C}")
    | (ci, k) :: _ =>
      match ci.rowsToParent.mapM rowOfElem, ci.colsToParent.mapM colOfElem with
      | some rs, some cs =>
        if !(rs.length == k.matrix.numRows && cs.length == k.matrix.numCols) then throw ("tree:maps", s!"node {nd.id}: child map lengths")
        if !(rs.all R.contains && R.all rs.contains && cs.all C.contains && C.all cs.contains && decide rs.Nodup && decide cs.Nodup) then
          throw ("tree:sp", s!"node {nd.id}: child lines rows {rs} cols {cs} differ from what the reductions leave: rows {R} cols {C}")
        if k.matrix.toDense != sub M rs cs then throw ("tree:sp", s!"node {nd.id}: child matrix is not the recorded submatrix")
      | _, _ => throw ("tree:maps", s!"node {nd.id}: series-parallel child maps are not rows->rows, columns->columns")
  return ()

def recompPiv (nd : FNode) (kids : List (ChildInfo × FNode)) : Except (String × String) Unit := do
  let m := nd.matrix.numRows; let n := nd.matrix.numCols
  let M := nd.matrix.toDense
  let ty := nd.type
  let ch := chOf nd
  match kids with
  | [(ci, k)] =>
    let E := if nd.ternary then pivots3 m n M nd.pivots else pivots2 m n M nd.pivots
    match E with
    | none => throw ("tree:pivots", s!"node {nd.id}: recorded pivot on a zero entry")
    | some E =>
      if !(k.matrix.numRows == m && k.matrix.numCols == n) then throw ("tree:pivots", s!"node {nd.id}: child shape")
      if nd.pivots.isEmpty then throw ("tree:pivots", s!"node {nd.id}: pivot node without pivots")
      if !(decide (nd.pivots.map Prod.fst).Nodup && decide (nd.pivots.map Prod.snd).Nodup) then
        throw ("tree:pivots", s!"node {nd.id}: pivot rows/columns not pairwise distinct")
      if k.matrix.toDense != E then
        throw ("tree:pivots", s!"node {nd.id}: child {matToString k.matrix.toDense} is not the parent after the recorded pivots {matToString E}")
      -- element maps swap exactly the pivot lines
      let expR : List Int := pivExpRows m nd.pivots
      let expC : List Int := pivExpCols n nd.pivots
      if ci.rowsToParent != expR || ci.colsToParent != expC then
        throw ("tree:maps", s!"node {nd.id}: pivot child maps do not swap exactly the pivot lines")
  | _ => throw ("tree:arity", s!"node {nd.id}: pivot node with {kids.length} children")
  return ()

def recompOne (nd : FNode) (kids : List (ChildInfo × FNode)) : Except (String × String) Unit := do
  let m := nd.matrix.numRows; let n := nd.matrix.numCols
  let M := nd.matrix.toDense
  let ty := nd.type
  let ch := chOf nd
  if kids.length < 2 then throw ("tree:arity", s!"node {nd.id}: 1-sum with {kids.length} children")
  let blocks ← kids.mapM (oneBlock nd)
  let allR := blocks.flatMap (·.1)
  let allC := blocks.flatMap (·.2.1)
  if !(isPerm allR m && isPerm allC n) then
    throw ("tree:onesum", s!"node {nd.id}: child lines do not partition the lines of the matrix")
  let E := blockDiag m n blocks
  if E != M then throw ("tree:onesum", s!"node {nd.id}: block-diagonal composition of the children differs from the matrix")
  return ()

def recompSum (nd : FNode) (kids : List (ChildInfo × FNode)) : Except (String × String) Unit := do
  let m := nd.matrix.numRows; let n := nd.matrix.numCols
  let M := nd.matrix.toDense
  let ty := nd.type
  let ch := chOf nd
  match kids with
  | [(c0, k0), (c1, k1)] =>
    let m0 := k0.matrix.numRows; let n0 := k0.matrix.numCols; let m1 := k1.matrix.numRows; let n1 := k1.matrix.numCols
    let M0 := k0.matrix.toDense; let M1 := k1.matrix.toDense
    if !(c0.rowsToParent.length == m0 && c0.colsToParent.length == n0 && c1.rowsToParent.length == m1 && c1.colsToParent.length == n1) then
      throw ("tree:maps", s!"node {nd.id}: child map lengths")
    let (composed, bad0r, bad0c, bad1r, bad1c) := sumSpec nd c0 k0 c1 k1
    match composed with
    | .error why => throw ("tree:sum-shape", s!"node {nd.id} (type {ty}): children do not have the documented shape: {why}")
    | .ok Pm =>
      match keepMapped c0.rowsToParent bad0r rowOfElem, keepMapped c1.rowsToParent bad1r rowOfElem,
            keepMapped c0.colsToParent bad0c colOfElem, keepMapped c1.colsToParent bad1c colOfElem with
      | some r0, some r1, some k0c, some k1c =>
        let rho := r0 ++ r1; let kap := k0c ++ k1c
        if !(isPerm rho m && isPerm kap n) then
          throw ("tree:maps", s!"node {nd.id} (type {ty}): child-to-parent maps are not bijections onto the lines of the matrix: rows {rho} columns {kap}")
        let want := sub M rho kap
        if Pm != want then
          -- D14 diagnosis: for 2-sums, is the bottom-left block exactly negated?
          if ty == NodeType.twosum then
            let negBL := Mat.ofFn m n (fun i j => if i ≥ r0.length && j < k0c.length then normChar ch (-(ent Pm i j)) else ent Pm i j)
            if negBL == want then
              throw ("tree:twosum-negated", s!"node {nd.id}: 2-sum of the children reproduces the bottom-left block negated (shared representative entry is -1)")
          throw ("tree:recompose", s!"node {nd.id} (type {ty}): composition of the children {matToString Pm} differs from the matrix under the maps {matToString want}")
      | _, _, _, _ => throw ("tree:maps", s!"node {nd.id} (type {ty}): child maps of non-special lines are not rows->rows, columns->columns")
  | _ => throw ("tree:arity", s!"node {nd.id}: sum node (type {ty}) with {kids.length} children")

def recompBody (nd : FNode) (kids : List (ChildInfo × FNode)) : Except (String × String) Unit :=
  if leafTypes.contains nd.type then recompLeaf nd kids
  else if nd.type == NodeType.seriesParallel then recompSP nd kids
  else if nd.type == NodeType.pivots then recompPiv nd kids
  else if nd.type == NodeType.onesum then recompOne nd kids
  else recompSum nd kids

def recompKids (nodes : List FNode) (nd : FNode) : Except (String × String) (List (ChildInfo × FNode)) :=
  nd.children.mapM (fun ci =>
    match findNode nodes ci.child with
    | some k => pure (ci, k)
    | none => throw ("tree:arity", s!"node {nd.id}: missing child"))

def recompFields (nd : FNode) (kids : List (ChildInfo × FNode)) (k : Except (String × String) Unit) :
    Except (String × String) Unit := do
  for (_, k) in kids do
    if k.ternary != nd.ternary then throw ("tree:field", s!"node {nd.id}: child over a different field")
    if !k.matrix.consistent then throw ("tree:csr", s!"node {k.id}: inconsistent matrix")
  k

def recompTranspose (nd : FNode) (k : Except (String × String) Unit) : Except (String × String) Unit := do
  let A := nd.matrix
  let m := A.numRows; let n := A.numCols
  let M := A.toDense
  match nd.transpose with
  | some T =>
    if !T.consistent then throw ("tree:csr", s!"node {nd.id}: inconsistent transpose")
    if !(T.numRows == n && T.numCols == m && T.toDense == transpose m n M) then
      throw ("tree:transpose", s!"node {nd.id}: stored transpose is not the transpose of the matrix")
  | none => pure ()
  k

/-- `checkRecompose` is, definitionally, the composition of the pieces above. -/
theorem checkRecompose_eq (nodes : List FNode) (nd : FNode) : checkRecompose nodes nd = (do
  if !nd.matrix.consistent then throw ("tree:csr", s!"node {nd.id}: inconsistent matrix {repr nd.matrix}")
  recompTranspose nd (do
    let kids ← recompKids nodes nd
    recompFields nd kids (recompBody nd kids))) := rfl

/-! ### verbatim pieces of `checkFlags` (continuation-passing) -/

def flagsGraph (nodes : List FNode) (nd : FNode) (k : Except (String × String) Unit) : Except (String × String) Unit := do
  let A := nd.matrix
  let m := A.numRows; let n := A.numCols; let M := A.toDense
  let ty := nd.type
  let kids := nd.children.filterMap (fun ci => findNode nodes ci.child)
  match nd.graph with
  | some gd => checkGraphLeaf nd gd false
  | none => pure ()
  k

def flagsCograph (nodes : List FNode) (nd : FNode) (k : Except (String × String) Unit) : Except (String × String) Unit := do
  let A := nd.matrix
  let m := A.numRows; let n := A.numCols; let M := A.toDense
  let ty := nd.type
  let kids := nd.children.filterMap (fun ci => findNode nodes ci.child)
  match nd.cograph with
  | some gd => checkGraphLeaf nd gd true
  | none => pure ()
  k

def flagsType (nodes : List FNode) (nd : FNode) (k : Except (String × String) Unit) : Except (String × String) Unit := do
  let A := nd.matrix
  let m := A.numRows; let n := A.numCols; let M := A.toDense
  let ty := nd.type
  let kids := nd.children.filterMap (fun ci => findNode nodes ci.child)
  if ty == NodeType.graph && nd.gra ≤ 0 then throw ("tree:flags", s!"node {nd.id}: graph leaf without positive graphicness")
  if ty == NodeType.cograph && nd.cogra ≤ 0 then throw ("tree:flags", s!"node {nd.id}: cograph leaf without positive cographicness")
  if ty == NodeType.planar && !(nd.gra > 0 && nd.cogra > 0) then throw ("tree:flags", s!"node {nd.id}: planar leaf flags")
  if (ty == NodeType.graph || ty == NodeType.cograph || ty == NodeType.planar || ty == NodeType.r10) && nd.reg ≤ 0 then
    throw ("tree:flags", s!"node {nd.id}: leaf of type {ty} without positive regularity")
  if ty == NodeType.irregular && nd.reg ≥ 0 then throw ("tree:flags", s!"node {nd.id}: irregular node without negative regularity")
  k

def flagsProp (nodes : List FNode) (nd : FNode) (k : Except (String × String) Unit) : Except (String × String) Unit := do
  let A := nd.matrix
  let m := A.numRows; let n := A.numCols; let M := A.toDense
  let ty := nd.type
  let kids := nd.children.filterMap (fun ci => findNode nodes ci.child)
  let innerReg : List Int := [NodeType.pivots, NodeType.onesum, NodeType.twosum, NodeType.deltasum, NodeType.threesum, NodeType.ysum, NodeType.seriesParallel]
  if innerReg.contains ty && nd.reg > 0 && !(kids.all (·.reg > 0) && kids.length == nd.children.length) then
    throw ("tree:flags-propagation", s!"node {nd.id}: regularity +1 although a child is not known to be regular")
  let innerGra : List Int := [NodeType.pivots, NodeType.onesum, NodeType.twosum, NodeType.deltasum, NodeType.seriesParallel]
  if innerGra.contains ty && nd.gra > 0 && !(kids.all (·.gra > 0)) then
    throw ("tree:flags-propagation", s!"node {nd.id}: graphicness +1 although a child is not known to be graphic")
  let innerCo : List Int := [NodeType.pivots, NodeType.onesum, NodeType.twosum, NodeType.ysum, NodeType.seriesParallel]
  if innerCo.contains ty && nd.cogra > 0 && !(kids.all (·.cogra > 0)) then
    throw ("tree:flags-propagation", s!"node {nd.id}: cographicness +1 although a child is not known to be cographic")
  k

def flagsR10 (nodes : List FNode) (nd : FNode) (k : Except (String × String) Unit) : Except (String × String) Unit := do
  let A := nd.matrix
  let m := A.numRows; let n := A.numCols; let M := A.toDense
  let ty := nd.type
  let kids := nd.children.filterMap (fun ci => findNode nodes ci.child)
  if ty == NodeType.r10 then
    if !(m == 5 && n == 5 && isR10Support (support M)) then
      throw ("tree:r10", s!"node {nd.id}: typed R10 but the matrix {matToString M} is not a representation matrix of R10")
    if nd.ternary && !isTU 5 5 M then throw ("tree:r10", s!"node {nd.id}: ternary R10 node is not totally unimodular")
  k

def flagsMinors (nodes : List FNode) (nd : FNode) (k : Except (String × String) Unit) : Except (String × String) Unit := do
  let A := nd.matrix
  let m := A.numRows; let n := A.numCols; let M := A.toDense
  let ty := nd.type
  let kids := nd.children.filterMap (fun ci => findNode nodes ci.child)
  for mn in nd.minors do
    if mn.type == -2 then
      match mn.sub with
      | some (rsI, csI) =>
        let rs := rsI.filterMap (fun v => if v < 0 then none else some v.toNat)
        let cs := csI.filterMap (fun v => if v < 0 then none else some v.toNat)
        if !(rs.length == rsI.length && cs.length == csI.length && rs.length == cs.length && rs.all (· < m) && cs.all (· < n) &&
             decide rs.Nodup && decide cs.Nodup) then
          throw ("tree:minor", s!"node {nd.id}: determinant minor rows {rsI} columns {csI} is not a square submatrix of the node's matrix")
        if rs.length ≤ 8 then
          let d := detL rs.length (sub M rs cs)
          if !(d ≥ 2 || d ≤ -2) then throw ("tree:minor", s!"node {nd.id}: stored violating submatrix rows {rs} cols {cs} has determinant {d}")
      | none => throw ("tree:minor", s!"node {nd.id}: determinant minor without submatrix")
  k

def flagsOracleReg (nodes : List FNode) (nd : FNode) (k : Except (String × String) Unit) : Except (String × String) Unit := do
  let A := nd.matrix
  let m := A.numRows; let n := A.numCols; let M := A.toDense
  let ty := nd.type
  let kids := nd.children.filterMap (fun ci => findNode nodes ci.child)
  if m ≤ oracleDim && n ≤ oracleDim then
    let regular := if nd.ternary then isTU m n M else isRegular n M
    if nd.reg > 0 && !regular then throw ("tree:flag-regular", s!"node {nd.id} (type {ty}): regularity +1 but {matToString M} is not {if nd.ternary then "TU" else "regular"}")
    if nd.reg < 0 && regular then throw ("tree:flag-regular", s!"node {nd.id} (type {ty}): regularity -1 but {matToString M} is {if nd.ternary then "TU" else "regular"}")
  k

def flagsOracleGra (nodes : List FNode) (nd : FNode) (k : Except (String × String) Unit) : Except (String × String) Unit := do
  let A := nd.matrix
  let m := A.numRows; let n := A.numCols; let M := A.toDense
  let ty := nd.type
  let kids := nd.children.filterMap (fun ci => findNode nodes ci.child)
  if m ≤ 5 && n ≤ 7 then
    let gr := if nd.ternary then isNetwork m n M else isGraphic m n M
    if nd.gra > 0 && !gr then throw ("tree:flag-graphic", s!"node {nd.id} (type {ty}): graphicness +1 but {matToString M} is not {if nd.ternary then "network" else "graphic"}")
    if nd.gra < 0 && gr then throw ("tree:flag-graphic", s!"node {nd.id} (type {ty}): graphicness -1 but {matToString M} is {if nd.ternary then "network" else "graphic"}")
  k

def flagsOracleCo (nodes : List FNode) (nd : FNode) : Except (String × String) Unit := do
  let A := nd.matrix
  let m := A.numRows; let n := A.numCols; let M := A.toDense
  let ty := nd.type
  let kids := nd.children.filterMap (fun ci => findNode nodes ci.child)
  if n ≤ 5 && m ≤ 7 then
    let Mt := transpose m n M
    let cg := if nd.ternary then isNetwork n m Mt else isGraphic n m Mt
    if nd.cogra > 0 && !cg then throw ("tree:flag-cographic", s!"node {nd.id} (type {ty}): cographicness +1 but the transpose of {matToString M} is not {if nd.ternary then "network" else "graphic"}")
    if nd.cogra < 0 && cg then throw ("tree:flag-cographic", s!"node {nd.id} (type {ty}): cographicness -1 but the transpose of {matToString M} is {if nd.ternary then "network" else "graphic"}")

/-- `checkFlags` is, definitionally, the chain of the pieces above. -/
theorem checkFlags_eq (nodes : List FNode) (nd : FNode) : checkFlags nodes nd =
    if !nd.matrix.consistent then pure () else
    flagsGraph nodes nd (flagsCograph nodes nd (flagsType nodes nd (flagsProp nodes nd (flagsR10 nodes nd
      (flagsMinors nodes nd (flagsOracleReg nodes nd (flagsOracleGra nodes nd (flagsOracleCo nodes nd)))))))) := rfl


/-! ### acceptance of the pieces of `checkRecompose` -/

def Kids (nodes : List FNode) (nd : FNode) (kids : List (ChildInfo × FNode)) : Prop :=
  List.Forall₂ (fun ci p => findNode nodes ci.child = some p.2 ∧ p.1 = ci) nd.children kids

theorem recompKids_ok_iff (nodes : List FNode) (nd : FNode) (kids : List (ChildInfo × FNode)) :
    recompKids nodes nd = .ok kids ↔ Kids nodes nd kids := by
  unfold recompKids Kids
  rw [Ex.mapM_ok_iff]
  constructor <;> intro h <;> refine h.imp ?_ <;> intro ci p hp
  · split at hp
    · rename_i k hk
      simp only [Ex.pure_eq, Except.ok.injEq] at hp
      subst hp
      exact ⟨hk, rfl⟩
    · simp [Ex.throw_eq] at hp
  · obtain ⟨h1, h2⟩ := hp
    obtain ⟨a, b⟩ := p
    simp only at h1 h2
    subst h2
    simp [h1, Ex.pure_eq]

theorem recompFields_ok_iff (nd : FNode) (kids : List (ChildInfo × FNode)) (k : Except (String × String) Unit) :
    recompFields nd kids k = .ok () ↔
      (∀ p ∈ kids, p.2.ternary = nd.ternary ∧ p.2.matrix.consistent = true) ∧ k = .ok () := by
  unfold recompFields
  rw [Ex.bind_eq_ok]
  constructor
  · rintro ⟨u, h1, h2⟩
    refine ⟨?_, h2⟩
    rw [Ex.forIn_unit_ok_iff] at h1
    · intro p hp
      have := h1 p hp
      simp only [Ex.throw_bind, Ex.ite_error_eq_ok, Ex.bind_eq_ok, pure_bind, Ex.pure_eq] at this
      simpa using this
    · intro p r
      simp only [Ex.throw_bind, Ex.ite_error_eq_ok, Ex.bind_eq_ok, pure_bind, Ex.pure_eq]
      simp
      intro _ _ h; exact h.symm
  · rintro ⟨h1, h2⟩
    refine ⟨PUnit.unit, ?_, h2⟩
    rw [Ex.forIn_unit_ok_iff]
    · intro p hp
      have := h1 p hp
      simp only [Ex.throw_bind, Ex.ite_error_eq_ok, Ex.bind_eq_ok, pure_bind, Ex.pure_eq]
      simpa using this
    · intro p r
      simp only [Ex.throw_bind, Ex.ite_error_eq_ok, Ex.bind_eq_ok, pure_bind, Ex.pure_eq]
      simp
      intro _ _ h; exact h.symm

theorem recompTranspose_ok_iff (nd : FNode) (k : Except (String × String) Unit) :
    recompTranspose nd k = .ok () ↔
      (∀ T, nd.transpose = some T → T.consistent = true ∧ T.numRows = nd.matrix.numCols ∧ T.numCols = nd.matrix.numRows ∧
        T.toDense = transpose nd.matrix.numRows nd.matrix.numCols nd.matrix.toDense) ∧ k = .ok () := by
  unfold recompTranspose
  cases nd.transpose with
  | none => simp [Ex.pure_eq]
  | some T =>
    simp only [Ex.throw_bind, Ex.ite_error_eq_ok, Ex.bind_eq_ok, pure_bind, Ex.pure_eq]
    simp [and_assoc]

theorem checkRecompose_ok_iff (nodes : List FNode) (nd : FNode) :
    checkRecompose nodes nd = .ok () ↔
      nd.matrix.consistent = true ∧
      (∀ T, nd.transpose = some T → T.consistent = true ∧ T.numRows = nd.matrix.numCols ∧ T.numCols = nd.matrix.numRows ∧
        T.toDense = transpose nd.matrix.numRows nd.matrix.numCols nd.matrix.toDense) ∧
      ∃ kids, Kids nodes nd kids ∧ (∀ p ∈ kids, p.2.ternary = nd.ternary ∧ p.2.matrix.consistent = true) ∧
        recompBody nd kids = .ok () := by
  rw [checkRecompose_eq]
  simp only [Ex.throw_bind, Ex.ite_error_eq_ok, Ex.bind_eq_ok, pure_bind, recompTranspose_ok_iff, recompKids_ok_iff,
    recompFields_ok_iff]
  simp


theorem recompBody_leaf {nd : FNode} {kids : List (ChildInfo × FNode)} (h : nd.type ∈ leafTypes) :
    recompBody nd kids = recompLeaf nd kids := by
  have : leafTypes.contains nd.type = true := by simpa using h
  unfold recompBody
  rw [if_pos this]

theorem recompBody_sp {nd : FNode} {kids : List (ChildInfo × FNode)} (h : nd.type = NodeType.seriesParallel) :
    recompBody nd kids = recompSP nd kids := by
  simp [recompBody, h, leafTypes, NodeType.seriesParallel, NodeType.irregular, NodeType.unknown, NodeType.graph, NodeType.cograph, NodeType.planar, NodeType.r10]

theorem recompBody_piv {nd : FNode} {kids : List (ChildInfo × FNode)} (h : nd.type = NodeType.pivots) :
    recompBody nd kids = recompPiv nd kids := by
  simp [recompBody, h, leafTypes, NodeType.seriesParallel, NodeType.irregular, NodeType.unknown, NodeType.graph, NodeType.cograph, NodeType.planar, NodeType.r10, NodeType.pivots]

theorem recompBody_one {nd : FNode} {kids : List (ChildInfo × FNode)} (h : nd.type = NodeType.onesum) :
    recompBody nd kids = recompOne nd kids := by
  simp [recompBody, h, leafTypes, NodeType.seriesParallel, NodeType.irregular, NodeType.unknown, NodeType.graph, NodeType.cograph, NodeType.planar, NodeType.r10, NodeType.pivots, NodeType.onesum]

theorem recompBody_sum {nd : FNode} {kids : List (ChildInfo × FNode)}
    (h : nd.type = NodeType.twosum ∨ nd.type = NodeType.deltasum ∨ nd.type = NodeType.ysum ∨ nd.type = NodeType.threesum) :
    recompBody nd kids = recompSum nd kids := by
  rcases h with h | h | h | h <;>
  simp [recompBody, h, leafTypes, NodeType.seriesParallel, NodeType.irregular, NodeType.unknown, NodeType.graph, NodeType.cograph, NodeType.planar, NodeType.r10, NodeType.pivots, NodeType.onesum, NodeType.twosum, NodeType.deltasum, NodeType.ysum, NodeType.threesum]

theorem recompLeaf_ok_iff (nd : FNode) (kids : List (ChildInfo × FNode)) :
    recompLeaf nd kids = .ok () ↔ kids = [] := by
  unfold recompLeaf
  simp only [Ex.throw_bind, Ex.ite_error_eq_ok, Ex.bind_eq_ok, pure_bind, Ex.pure_eq]
  simp

theorem recompSP_ok_iff (nd : FNode) (kids : List (ChildInfo × FNode)) :
    recompSP nd kids = .ok () ↔
      kids.length ≤ 1 ∧ ∃ R C,
        applyReductions nd.ternary nd.matrix.toDense (List.range nd.matrix.numRows) (List.range nd.matrix.numCols)
          nd.reductions 0 = .ok (R, C) ∧
        (kids = [] → R = [] ∧ C = []) ∧
        (∀ ci k, kids.head? = some (ci, k) → ∃ rs cs,
          ci.rowsToParent.mapM rowOfElem = some rs ∧ ci.colsToParent.mapM colOfElem = some cs ∧
          rs.length = k.matrix.numRows ∧ cs.length = k.matrix.numCols ∧
          (∀ x ∈ rs, x ∈ R) ∧ (∀ x ∈ R, x ∈ rs) ∧ (∀ x ∈ cs, x ∈ C) ∧ (∀ x ∈ C, x ∈ cs) ∧ rs.Nodup ∧ cs.Nodup ∧
          k.matrix.toDense = sub nd.matrix.toDense rs cs) := by
  unfold recompSP
  simp only [Ex.throw_bind, Ex.ite_error_eq_ok, Ex.bind_eq_ok, pure_bind, Ex.pure_eq]
  apply and_congr (by omega)
  generalize applyReductions nd.ternary nd.matrix.toDense (List.range nd.matrix.numRows)
    (List.range nd.matrix.numCols) nd.reductions 0 = res
  cases res with
  | error k => simp
  | ok p =>
    obtain ⟨R, C⟩ := p
    simp only [Except.ok.injEq, Prod.mk.injEq]
    have ex : ∀ P : List Nat → List Nat → Prop, (∃ R' C', (R = R' ∧ C = C') ∧ P R' C') ↔ P R C := by
      intro P; constructor
      · rintro ⟨_, _, ⟨rfl, rfl⟩, h⟩; exact h
      · intro h; exact ⟨R, C, ⟨rfl, rfl⟩, h⟩
    refine Iff.trans ?_ (ex _).symm
    cases kids with
    | nil =>
      simp [Ex.ite_error_eq_ok]
    | cons p tail =>
      obtain ⟨ci, k⟩ := p
      simp only [List.head?_cons, Option.some.injEq, Prod.mk.injEq]
      constructor
      · intro h
        refine ⟨fun h0 => absurd h0 (List.cons_ne_nil _ _), ?_⟩
        rintro ci' k' ⟨rfl, rfl⟩
        split at h
        · rename_i rs cs h1 h2
          simp only [Ex.ite_error_eq_ok] at h
          simp only [Bool.not_eq_true', Bool.not_eq_false, Bool.and_eq_true, beq_iff_eq, List.all_eq_true,
            List.contains_iff_mem, decide_eq_true_eq, bne_iff_ne, ne_eq, not_not] at h
          obtain ⟨⟨a1, a2⟩, ⟨⟨⟨⟨⟨b1, b2⟩, b3⟩, b4⟩, b5⟩, b6⟩, c1, _⟩ := h
          exact ⟨rs, cs, h1, h2, a1, a2, b1, b2, b3, b4, b5, b6, c1⟩
        · cases h
      · rintro ⟨_, h⟩
        obtain ⟨rs, cs, h1, h2, a1, a2, b1, b2, b3, b4, b5, b6, c1⟩ := h ci k ⟨rfl, rfl⟩
        simp only [h1, h2, Ex.ite_error_eq_ok]
        simp only [Bool.not_eq_true', Bool.not_eq_false, Bool.and_eq_true, beq_iff_eq, List.all_eq_true,
          List.contains_iff_mem, decide_eq_true_eq, bne_iff_ne, ne_eq, not_not]
        exact ⟨⟨a1, a2⟩, ⟨⟨⟨⟨⟨b1, b2⟩, b3⟩, b4⟩, b5⟩, b6⟩, c1, trivial⟩


theorem recompPiv_ok_iff (nd : FNode) (kids : List (ChildInfo × FNode)) :
    recompPiv nd kids = .ok () ↔
      ∃ ci k, kids = [(ci, k)] ∧ ∃ E,
        (if nd.ternary then pivots3 nd.matrix.numRows nd.matrix.numCols nd.matrix.toDense nd.pivots
          else pivots2 nd.matrix.numRows nd.matrix.numCols nd.matrix.toDense nd.pivots) = some E ∧
        k.matrix.numRows = nd.matrix.numRows ∧ k.matrix.numCols = nd.matrix.numCols ∧
        nd.pivots ≠ [] ∧ (nd.pivots.map Prod.fst).Nodup ∧ (nd.pivots.map Prod.snd).Nodup ∧
        k.matrix.toDense = E ∧
        ci.rowsToParent = pivExpRows nd.matrix.numRows nd.pivots ∧
        ci.colsToParent = pivExpCols nd.matrix.numCols nd.pivots := by
  unfold recompPiv
  simp only [Ex.throw_bind, Ex.ite_error_eq_ok, Ex.bind_eq_ok, pure_bind, Ex.pure_eq]
  split
  · rename_i ci k
    simp only [List.cons.injEq, Prod.mk.injEq, and_true]
    have ex : ∀ P : ChildInfo → FNode → Prop, (∃ ci' k', (ci = ci' ∧ k = k') ∧ P ci' k') ↔ P ci k := by
      intro P; constructor
      · rintro ⟨_, _, ⟨rfl, rfl⟩, h⟩; exact h
      · intro h; exact ⟨ci, k, ⟨rfl, rfl⟩, h⟩
    refine Iff.trans ?_ (ex _).symm
    split
    · rename_i hE
      simp [hE]
    · rename_i E hE
      simp only [hE, Option.some.injEq, Ex.ite_error_eq_ok]
      simp only [Bool.not_eq_true', Bool.not_eq_false, Bool.and_eq_true, beq_iff_eq, decide_eq_true_eq, bne_iff_ne,
        ne_eq, not_not, Bool.or_eq_true, not_or, List.isEmpty_iff]
      constructor
      · rintro ⟨⟨a1, a2⟩, a3, ⟨a4, a5⟩, a6, ⟨a7, a8⟩, _⟩
        exact ⟨E, rfl, a1, a2, a3, a4, a5, a6, a7, a8⟩
      · rintro ⟨E', rfl, a1, a2, a3, a4, a5, a6, a7, a8⟩
        exact ⟨⟨a1, a2⟩, a3, ⟨a4, a5⟩, a6, ⟨a7, a8⟩, trivial⟩
  · rename_i hk
    simp only [reduceCtorEq, false_iff, not_exists, not_and]
    intro ci k hkk
    exact absurd hkk (hk ci k)

/-- what `oneBlock` returns: the decoded row and column lists and the child's dense matrix -/
theorem oneBlock_ok_iff (nd : FNode) (p : ChildInfo × FNode) (b : List Nat × List Nat × Mat) :
    oneBlock nd p = .ok b ↔
      p.1.rowsToParent.mapM rowOfElem = some b.1 ∧ p.1.colsToParent.mapM colOfElem = some b.2.1 ∧
      b.1.length = p.2.matrix.numRows ∧ b.2.1.length = p.2.matrix.numCols ∧ b.2.2 = p.2.matrix.toDense := by
  obtain ⟨ci, k⟩ := p
  obtain ⟨rs, cs, B⟩ := b
  unfold oneBlock
  simp only
  split
  · rename_i rs' cs' h1 h2
    simp only [h1, h2, Option.some.injEq]
    split
    · rename_i hl
      simp only [Bool.and_eq_true, beq_iff_eq] at hl
      simp only [Ex.pure_eq, Except.ok.injEq, Prod.mk.injEq]
      constructor
      · rintro ⟨rfl, rfl, rfl⟩; exact ⟨rfl, rfl, hl.1, hl.2, rfl⟩
      · rintro ⟨rfl, rfl, _, _, rfl⟩; exact ⟨rfl, rfl, rfl⟩
    · rename_i hl
      simp only [Bool.and_eq_true, beq_iff_eq] at hl
      simp only [Ex.throw_eq, reduceCtorEq, false_iff]
      rintro ⟨rfl, rfl, h3, h4, _⟩
      exact hl ⟨h3, h4⟩
  · rename_i hh
    simp only [Ex.throw_eq, reduceCtorEq, false_iff]
    rintro ⟨h1, h2, _⟩
    exact hh _ _ h1 h2

theorem recompOne_ok_iff (nd : FNode) (kids : List (ChildInfo × FNode)) :
    recompOne nd kids = .ok () ↔
      2 ≤ kids.length ∧ ∃ blocks,
        List.Forall₂ (fun p b => oneBlock nd p = .ok b) kids blocks ∧
        isPerm (blocks.flatMap (·.1)) nd.matrix.numRows = true ∧
        isPerm (blocks.flatMap (·.2.1)) nd.matrix.numCols = true ∧
        blockDiag nd.matrix.numRows nd.matrix.numCols blocks = nd.matrix.toDense := by
  unfold recompOne
  simp only [Ex.throw_bind, Ex.ite_error_eq_ok, Ex.bind_eq_ok, pure_bind, Ex.pure_eq, Ex.mapM_ok_iff]
  apply and_congr (by omega)
  apply exists_congr
  intro blocks
  apply and_congr Iff.rfl
  simp only [Bool.not_eq_true', Bool.not_eq_false, Bool.and_eq_true, bne_iff_ne, ne_eq, not_not, and_true, and_assoc]

theorem recompSum_ok_iff (nd : FNode) (kids : List (ChildInfo × FNode)) :
    recompSum nd kids = .ok () ↔
      ∃ c0 k0 c1 k1, kids = [(c0, k0), (c1, k1)] ∧
        c0.rowsToParent.length = k0.matrix.numRows ∧ c0.colsToParent.length = k0.matrix.numCols ∧
        c1.rowsToParent.length = k1.matrix.numRows ∧ c1.colsToParent.length = k1.matrix.numCols ∧
        ∃ P r0 r1 q0 q1,
          (sumSpec nd c0 k0 c1 k1).1 = .ok P ∧
          keepMapped c0.rowsToParent (sumSpec nd c0 k0 c1 k1).2.1 rowOfElem = some r0 ∧
          keepMapped c1.rowsToParent (sumSpec nd c0 k0 c1 k1).2.2.2.1 rowOfElem = some r1 ∧
          keepMapped c0.colsToParent (sumSpec nd c0 k0 c1 k1).2.2.1 colOfElem = some q0 ∧
          keepMapped c1.colsToParent (sumSpec nd c0 k0 c1 k1).2.2.2.2 colOfElem = some q1 ∧
          isPerm (r0 ++ r1) nd.matrix.numRows = true ∧ isPerm (q0 ++ q1) nd.matrix.numCols = true ∧
          P = sub nd.matrix.toDense (r0 ++ r1) (q0 ++ q1) := by
  unfold recompSum
  simp only [Ex.throw_bind, Ex.ite_error_eq_ok, Ex.bind_eq_ok, pure_bind, Ex.pure_eq]
  split
  · rename_i c0 k0 c1 k1
    simp only [List.cons.injEq, Prod.mk.injEq, and_true]
    have ex : ∀ P : ChildInfo → FNode → ChildInfo → FNode → Prop,
        (∃ a b c d, ((c0 = a ∧ k0 = b) ∧ c1 = c ∧ k1 = d) ∧ P a b c d) ↔ P c0 k0 c1 k1 := by
      intro P; constructor
      · rintro ⟨_, _, _, _, ⟨⟨rfl, rfl⟩, rfl, rfl⟩, h⟩; exact h
      · intro h; exact ⟨c0, k0, c1, k1, ⟨⟨rfl, rfl⟩, rfl, rfl⟩, h⟩
    refine Iff.trans ?_ (ex _).symm
    generalize sumSpec nd c0 k0 c1 k1 = spec
    obtain ⟨composed, b0r, b0c, b1r, b1c⟩ := spec
    simp only
    rw [Ex.ite_error_eq_ok]
    constructor
    · rintro ⟨hl, h⟩
      simp only [Bool.not_eq_true', Bool.not_eq_false, Bool.and_eq_true, beq_iff_eq] at hl
      obtain ⟨⟨⟨l1, l2⟩, l3⟩, l4⟩ := hl
      refine ⟨l1, l2, l3, l4, ?_⟩
      cases composed with
      | error why => simp [Ex.throw_eq] at h
      | ok Pm =>
        simp only at h
        split at h
        · rename_i r0 r1 q0 q1 e1 e2 e3 e4
          rw [Ex.ite_error_eq_ok] at h
          obtain ⟨hp, h⟩ := h
          simp only [Bool.not_eq_true', Bool.not_eq_false, Bool.and_eq_true] at hp
          by_cases hP : Pm = sub nd.matrix.toDense (r0 ++ r1) (q0 ++ q1)
          · exact ⟨Pm, r0, r1, q0, q1, rfl, e1, e2, e3, e4, hp.1, hp.2, hP⟩
          · have hne : (Pm != sub nd.matrix.toDense (r0 ++ r1) (q0 ++ q1)) = true := by simpa using hP
            rw [if_pos hne] at h
            exfalso
            split at h
            · split at h <;> simp [Ex.throw_eq] at h
            · simp [Ex.throw_eq] at h
        · simp [Ex.throw_eq] at h
    · rintro ⟨l1, l2, l3, l4, P, r0, r1, q0, q1, rfl, e1, e2, e3, e4, p1, p2, hP⟩
      refine ⟨by simp [l1, l2, l3, l4], ?_⟩
      simp only [e1, e2, e3, e4]
      rw [Ex.ite_error_eq_ok]
      refine ⟨by simp [p1, p2], ?_⟩
      rw [if_neg (by simp [hP])]
  · rename_i hk
    simp only [reduceCtorEq, false_iff, not_exists, not_and]
    intro c0 k0 c1 k1 hkk
    exact absurd hkk (hk c0 k0 c1 k1)



/-! ### acceptance of the pieces of `checkFlags` -/


theorem checkGraphLeaf_false_ok_iff (nd : FNode) (gd : GraphData) :
    checkGraphLeaf nd gd false = .ok () ↔
      checkGraphCert nd.matrix.numRows nd.matrix.numCols nd.matrix.toDense gd.g gd.forest gd.coforest nd.ternary = .ok () := by
  unfold checkGraphLeaf
  simp only [Bool.false_eq_true, if_false]
  split
  · rename_i u h; simp [h]
  · rename_i e h; simp [h]

theorem checkGraphLeaf_true_ok_iff (nd : FNode) (gd : GraphData) :
    checkGraphLeaf nd gd true = .ok () ↔
      checkGraphCert nd.matrix.numCols nd.matrix.numRows
        (transpose nd.matrix.numRows nd.matrix.numCols nd.matrix.toDense) gd.g gd.forest gd.coforest nd.ternary = .ok () := by
  unfold checkGraphLeaf
  simp only [if_true]
  split
  · rename_i u h; simp [h]
  · rename_i e h; simp [h]

theorem flagsGraph_ok_iff (nodes : List FNode) (nd : FNode) (k : Except (String × String) Unit) :
    flagsGraph nodes nd k = .ok () ↔
      (∀ gd, nd.graph = some gd → checkGraphCert nd.matrix.numRows nd.matrix.numCols nd.matrix.toDense gd.g gd.forest
        gd.coforest nd.ternary = .ok ()) ∧ k = .ok () := by
  unfold flagsGraph
  cases nd.graph with
  | none => simp [Ex.pure_eq, Ex.ok_bind]
  | some gd =>
    simp only [Ex.bind_eq_ok, Option.some.injEq, forall_eq', ← checkGraphLeaf_false_ok_iff]
    constructor
    · rintro ⟨u, h1, h2⟩; exact ⟨h1, h2⟩
    · rintro ⟨h1, h2⟩; exact ⟨(), h1, h2⟩

theorem flagsCograph_ok_iff (nodes : List FNode) (nd : FNode) (k : Except (String × String) Unit) :
    flagsCograph nodes nd k = .ok () ↔
      (∀ gd, nd.cograph = some gd → checkGraphCert nd.matrix.numCols nd.matrix.numRows
        (transpose nd.matrix.numRows nd.matrix.numCols nd.matrix.toDense) gd.g gd.forest gd.coforest nd.ternary = .ok ()) ∧
      k = .ok () := by
  unfold flagsCograph
  cases nd.cograph with
  | none => simp [Ex.pure_eq, Ex.ok_bind]
  | some gd =>
    simp only [Ex.bind_eq_ok, Option.some.injEq, forall_eq', ← checkGraphLeaf_true_ok_iff]
    constructor
    · rintro ⟨u, h1, h2⟩; exact ⟨h1, h2⟩
    · rintro ⟨h1, h2⟩; exact ⟨(), h1, h2⟩

/-- the children of `nd` that exist in the node list (as `checkFlags` computes them) -/
def flagKids (nodes : List FNode) (nd : FNode) : List FNode := nd.children.filterMap (fun ci => findNode nodes ci.child)

/-- row/column indices of a stored submatrix: negative entries are dropped -/
def decodeIdx (l : List Int) : List Nat := l.filterMap (fun v => if v < 0 then none else some v.toNat)

def regOracle (nd : FNode) : Bool :=
  if nd.ternary then isTU nd.matrix.numRows nd.matrix.numCols nd.matrix.toDense
  else isRegular nd.matrix.numCols nd.matrix.toDense
def graOracle (nd : FNode) : Bool :=
  if nd.ternary then isNetwork nd.matrix.numRows nd.matrix.numCols nd.matrix.toDense
  else isGraphic nd.matrix.numRows nd.matrix.numCols nd.matrix.toDense
def cograOracle (nd : FNode) : Bool :=
  if nd.ternary then isNetwork nd.matrix.numCols nd.matrix.numRows (transpose nd.matrix.numRows nd.matrix.numCols nd.matrix.toDense)
  else isGraphic nd.matrix.numCols nd.matrix.numRows (transpose nd.matrix.numRows nd.matrix.numCols nd.matrix.toDense)

def innerReg : List Int := [NodeType.pivots, NodeType.onesum, NodeType.twosum, NodeType.deltasum, NodeType.threesum, NodeType.ysum, NodeType.seriesParallel]
def innerGra : List Int := [NodeType.pivots, NodeType.onesum, NodeType.twosum, NodeType.deltasum, NodeType.seriesParallel]
def innerCo : List Int := [NodeType.pivots, NodeType.onesum, NodeType.twosum, NodeType.ysum, NodeType.seriesParallel]

theorem flagKids_eq (nodes : List FNode) (nd : FNode) :
    nd.children.filterMap (fun ci => findNode nodes ci.child) = flagKids nodes nd := rfl
theorem regOracle_eq (nd : FNode) :
    (if nd.ternary then isTU nd.matrix.numRows nd.matrix.numCols nd.matrix.toDense
      else isRegular nd.matrix.numCols nd.matrix.toDense) = regOracle nd := rfl
theorem graOracle_eq (nd : FNode) :
    (if nd.ternary then isNetwork nd.matrix.numRows nd.matrix.numCols nd.matrix.toDense
      else isGraphic nd.matrix.numRows nd.matrix.numCols nd.matrix.toDense) = graOracle nd := rfl
theorem cograOracle_eq (nd : FNode) :
    (if nd.ternary then isNetwork nd.matrix.numCols nd.matrix.numRows (transpose nd.matrix.numRows nd.matrix.numCols nd.matrix.toDense)
      else isGraphic nd.matrix.numCols nd.matrix.numRows (transpose nd.matrix.numRows nd.matrix.numCols nd.matrix.toDense)) =
      cograOracle nd := rfl
theorem innerReg_eq : [NodeType.pivots, NodeType.onesum, NodeType.twosum, NodeType.deltasum, NodeType.threesum, NodeType.ysum, NodeType.seriesParallel] = innerReg := rfl
theorem innerGra_eq : [NodeType.pivots, NodeType.onesum, NodeType.twosum, NodeType.deltasum, NodeType.seriesParallel] = innerGra := rfl
theorem innerCo_eq : [NodeType.pivots, NodeType.onesum, NodeType.twosum, NodeType.ysum, NodeType.seriesParallel] = innerCo := rfl

theorem flagsType_ok_iff (nodes : List FNode) (nd : FNode) (k : Except (String × String) Unit) :
    flagsType nodes nd k = .ok () ↔
      ((nd.type = NodeType.graph → 0 < nd.gra) ∧ (nd.type = NodeType.cograph → 0 < nd.cogra) ∧
       (nd.type = NodeType.planar → 0 < nd.gra ∧ 0 < nd.cogra) ∧
       (nd.type = NodeType.graph ∨ nd.type = NodeType.cograph ∨ nd.type = NodeType.planar ∨ nd.type = NodeType.r10 →
          0 < nd.reg) ∧
       (nd.type = NodeType.irregular → nd.reg < 0)) ∧ k = .ok () := by
  unfold flagsType
  simp only [Ex.throw_bind, Ex.ite_error_eq_ok, Ex.bind_eq_ok, pure_bind, Ex.pure_eq]
  simp only [Bool.and_eq_true, Bool.or_eq_true, beq_iff_eq, decide_eq_true_eq, Bool.not_eq_true', not_and, not_le,
    Bool.and_eq_false_iff, decide_eq_false_iff_not, not_lt, gt_iff_lt, ge_iff_le, and_assoc, or_assoc]
  simp only [not_or, not_le]

theorem flagsProp_ok_iff (nodes : List FNode) (nd : FNode) (k : Except (String × String) Unit) :
    flagsProp nodes nd k = .ok () ↔
      ((nd.type ∈ innerReg → 0 < nd.reg →
          (∀ c ∈ flagKids nodes nd, 0 < c.reg) ∧ (flagKids nodes nd).length = nd.children.length) ∧
       (nd.type ∈ innerGra → 0 < nd.gra → ∀ c ∈ flagKids nodes nd, 0 < c.gra) ∧
       (nd.type ∈ innerCo → 0 < nd.cogra → ∀ c ∈ flagKids nodes nd, 0 < c.cogra)) ∧ k = .ok () := by
  unfold flagsProp
  simp only [Ex.throw_bind, Ex.ite_error_eq_ok, Ex.bind_eq_ok, pure_bind, Ex.pure_eq]
  simp only [flagKids_eq, innerReg_eq, innerGra_eq, innerCo_eq]
  simp only [Bool.and_eq_true, List.contains_iff_mem, decide_eq_true_eq, Bool.not_eq_true', not_and,
    Bool.not_eq_false, List.all_eq_true, beq_iff_eq, gt_iff_lt, and_assoc, Bool.and_eq_false_iff, not_or]

theorem flagsR10_ok_iff (nodes : List FNode) (nd : FNode) (k : Except (String × String) Unit) :
    flagsR10 nodes nd k = .ok () ↔
      (nd.type = NodeType.r10 → nd.matrix.numRows = 5 ∧ nd.matrix.numCols = 5 ∧
        isR10Support (support nd.matrix.toDense) = true ∧ (nd.ternary = true → isTU 5 5 nd.matrix.toDense = true)) ∧
      k = .ok () := by
  unfold flagsR10
  simp only [Ex.throw_bind, Ex.ite_error_eq_ok, Ex.bind_eq_ok, pure_bind, Ex.pure_eq]
  by_cases ht : nd.type = NodeType.r10
  · simp only [ht, beq_self_eq_true, if_true, Ex.ite_error_eq_ok, forall_const]
    simp only [Bool.not_eq_true', Bool.not_eq_false, Bool.and_eq_true, beq_iff_eq, not_and, and_assoc]
  · have : (nd.type == NodeType.r10) = false := by simpa using ht
    simp [this, ht]

/-- what `checkFlags` demands of a stored minor of type `-2` (determinant violator) -/
def MinorOk (nd : FNode) (mn : MinorData) : Prop :=
  mn.type = -2 → ∃ rsI csI, mn.sub = some (rsI, csI) ∧
    (decodeIdx rsI).length = rsI.length ∧ (decodeIdx csI).length = csI.length ∧
    (decodeIdx rsI).length = (decodeIdx csI).length ∧
    (∀ x ∈ decodeIdx rsI, x < nd.matrix.numRows) ∧ (∀ x ∈ decodeIdx csI, x < nd.matrix.numCols) ∧
    (decodeIdx rsI).Nodup ∧ (decodeIdx csI).Nodup ∧
    ((decodeIdx rsI).length ≤ 8 →
      2 ≤ detL (decodeIdx rsI).length (sub nd.matrix.toDense (decodeIdx rsI) (decodeIdx csI)) ∨
      detL (decodeIdx rsI).length (sub nd.matrix.toDense (decodeIdx rsI) (decodeIdx csI)) ≤ -2)

theorem Ex.forIn_unit_ok_iff' {ε α : Type} (f : α → PUnit.{1} → Except ε (ForInStep PUnit.{1})) (l : List α)
    (P : α → Prop) (hf : ∀ x r, f x PUnit.unit = Except.ok r ↔ (r = ForInStep.yield PUnit.unit ∧ P x)) :
    (∃ u, forIn l PUnit.unit f = Except.ok u) ↔ ∀ x ∈ l, P x := by
  have : (∃ u, forIn l PUnit.unit f = Except.ok u) ↔ forIn l PUnit.unit f = Except.ok PUnit.unit := by
    constructor
    · rintro ⟨u, hu⟩; exact hu
    · intro h; exact ⟨_, h⟩
  rw [this, Ex.forIn_unit_ok_iff]
  · apply forall₂_congr
    intro x _
    rw [hf]; simp
  · intro x r hr
    exact ((hf x r).mp hr).1

theorem flagsMinors_ok_iff (nodes : List FNode) (nd : FNode) (k : Except (String × String) Unit) :
    flagsMinors nodes nd k = .ok () ↔ (∀ mn ∈ nd.minors, MinorOk nd mn) ∧ k = .ok () := by
  unfold flagsMinors
  simp only [Ex.throw_bind, Ex.throw_eq, Ex.error_bind, Ex.bind_eq_ok, pure_bind, Ex.pure_eq, exists_and_right]
  apply and_congr _ Iff.rfl
  apply Ex.forIn_unit_ok_iff'
  intro mn r
  unfold MinorOk
  by_cases ht : mn.type = -2
  · have hb : (mn.type == -2) = true := by simpa using ht
    rw [if_pos hb]
    simp only [ht, forall_const]
    cases hs : mn.sub with
    | none => simp
    | some p =>
      obtain ⟨rsI, csI⟩ := p
      simp only [Option.some.injEq, Prod.mk.injEq]
      have ex : ∀ P : List Int → List Int → Prop, (∃ a b, (rsI = a ∧ csI = b) ∧ P a b) ↔ P rsI csI := by
        intro P; constructor
        · rintro ⟨_, _, ⟨rfl, rfl⟩, h⟩; exact h
        · intro h; exact ⟨rsI, csI, ⟨rfl, rfl⟩, h⟩
      rw [ex]
      simp only [decodeIdx]
      generalize List.filterMap (fun v : Int => if v < 0 then none else some v.toNat) rsI = rs
      generalize List.filterMap (fun v : Int => if v < 0 then none else some v.toNat) csI = cs
      rw [Ex.ite_error_eq_ok]
      simp only [Bool.not_eq_true', Bool.not_eq_false, Bool.and_eq_true, beq_iff_eq, List.all_eq_true,
        decide_eq_true_eq, and_assoc]
      by_cases h8 : rs.length ≤ 8
      · rw [if_pos h8, Ex.ite_error_eq_ok]
        simp only [Bool.not_eq_true', Bool.not_eq_false, Bool.or_eq_true, decide_eq_true_eq, ge_iff_le,
          Except.ok.injEq, h8, forall_const]
        constructor
        · rintro ⟨a1, a2, a3, a4, a5, a6, a7, a8, a9⟩
          exact ⟨a9.symm, a1, a2, a3, a4, a5, a6, a7, a8⟩
        · rintro ⟨a9, a1, a2, a3, a4, a5, a6, a7, a8⟩
          exact ⟨a1, a2, a3, a4, a5, a6, a7, a8, a9.symm⟩
      · rw [if_neg h8]
        simp only [Except.ok.injEq]
        constructor
        · rintro ⟨a1, a2, a3, a4, a5, a6, a7, a9⟩
          exact ⟨a9.symm, a1, a2, a3, a4, a5, a6, a7, fun h => absurd h h8⟩
        · rintro ⟨a9, a1, a2, a3, a4, a5, a6, a7, _⟩
          exact ⟨a1, a2, a3, a4, a5, a6, a7, a9.symm⟩
  · have hb : ¬ (mn.type == -2) = true := by simpa using ht
    rw [if_neg hb]
    simp only [Except.ok.injEq]
    constructor
    · intro h; exact ⟨h.symm, fun h' => absurd h' ht⟩
    · intro h; exact h.1.symm

theorem flagsOracleReg_ok_iff (nodes : List FNode) (nd : FNode) (k : Except (String × String) Unit) :
    flagsOracleReg nodes nd k = .ok () ↔
      (nd.matrix.numRows ≤ oracleDim → nd.matrix.numCols ≤ oracleDim →
        (0 < nd.reg → regOracle nd = true) ∧ (nd.reg < 0 → regOracle nd = false)) ∧ k = .ok () := by
  unfold flagsOracleReg regOracle
  simp only [Ex.throw_bind, Ex.throw_eq, Ex.error_bind, Ex.bind_eq_ok, pure_bind, Ex.pure_eq]
  generalize (if nd.ternary = true then isTU nd.matrix.numRows nd.matrix.numCols nd.matrix.toDense
      else isRegular nd.matrix.numCols nd.matrix.toDense) = o
  by_cases hmn : nd.matrix.numRows ≤ oracleDim ∧ nd.matrix.numCols ≤ oracleDim
  · have hb : (decide (nd.matrix.numRows ≤ oracleDim) && decide (nd.matrix.numCols ≤ oracleDim)) = true := by simpa using hmn
    rw [if_pos hb, Ex.ite_error_eq_ok, Ex.ite_error_eq_ok]
    simp only [hmn.1, hmn.2, forall_const]
    simp only [Bool.and_eq_true, decide_eq_true_eq, Bool.not_eq_true', not_and, Bool.not_eq_false, gt_iff_lt,
      and_assoc, and_true, Bool.not_eq_true]
  · have hb : ¬ (decide (nd.matrix.numRows ≤ oracleDim) && decide (nd.matrix.numCols ≤ oracleDim)) = true := by simpa using hmn
    rw [if_neg hb]
    constructor
    · intro hk; exact ⟨fun h1 h2 => absurd ⟨h1, h2⟩ hmn, hk⟩
    · intro hk; exact hk.2

theorem flagsOracleGra_ok_iff (nodes : List FNode) (nd : FNode) (k : Except (String × String) Unit) :
    flagsOracleGra nodes nd k = .ok () ↔
      (nd.matrix.numRows ≤ 5 → nd.matrix.numCols ≤ 7 →
        (0 < nd.gra → graOracle nd = true) ∧ (nd.gra < 0 → graOracle nd = false)) ∧ k = .ok () := by
  unfold flagsOracleGra graOracle
  simp only [Ex.throw_bind, Ex.throw_eq, Ex.error_bind, Ex.bind_eq_ok, pure_bind, Ex.pure_eq]
  generalize (if nd.ternary = true then isNetwork nd.matrix.numRows nd.matrix.numCols nd.matrix.toDense
      else isGraphic nd.matrix.numRows nd.matrix.numCols nd.matrix.toDense) = o
  by_cases hmn : nd.matrix.numRows ≤ 5 ∧ nd.matrix.numCols ≤ 7
  · have hb : (decide (nd.matrix.numRows ≤ 5) && decide (nd.matrix.numCols ≤ 7)) = true := by simpa using hmn
    rw [if_pos hb, Ex.ite_error_eq_ok, Ex.ite_error_eq_ok]
    simp only [hmn.1, hmn.2, forall_const]
    simp only [Bool.and_eq_true, decide_eq_true_eq, Bool.not_eq_true', not_and, Bool.not_eq_false, gt_iff_lt,
      and_assoc, and_true, Bool.not_eq_true]
  · have hb : ¬ (decide (nd.matrix.numRows ≤ 5) && decide (nd.matrix.numCols ≤ 7)) = true := by simpa using hmn
    rw [if_neg hb]
    constructor
    · intro hk; exact ⟨fun h1 h2 => absurd ⟨h1, h2⟩ hmn, hk⟩
    · intro hk; exact hk.2

theorem flagsOracleCo_ok_iff (nodes : List FNode) (nd : FNode) :
    flagsOracleCo nodes nd = .ok () ↔
      nd.matrix.numCols ≤ 5 → nd.matrix.numRows ≤ 7 →
        (0 < nd.cogra → cograOracle nd = true) ∧ (nd.cogra < 0 → cograOracle nd = false) := by
  unfold flagsOracleCo cograOracle
  simp only [Ex.throw_bind, Ex.throw_eq, Ex.error_bind, Ex.bind_eq_ok, pure_bind, Ex.pure_eq]
  generalize (if nd.ternary = true then isNetwork nd.matrix.numCols nd.matrix.numRows (transpose nd.matrix.numRows nd.matrix.numCols nd.matrix.toDense)
      else isGraphic nd.matrix.numCols nd.matrix.numRows (transpose nd.matrix.numRows nd.matrix.numCols nd.matrix.toDense)) = o
  by_cases hmn : nd.matrix.numCols ≤ 5 ∧ nd.matrix.numRows ≤ 7
  · have hb : (decide (nd.matrix.numCols ≤ 5) && decide (nd.matrix.numRows ≤ 7)) = true := by simpa using hmn
    rw [if_pos hb, Ex.ite_error_eq_ok, Ex.ite_error_eq_ok]
    simp only [hmn.1, hmn.2, forall_const]
    simp only [Bool.and_eq_true, decide_eq_true_eq, Bool.not_eq_true', not_and, Bool.not_eq_false, gt_iff_lt,
      and_assoc, and_true, Bool.not_eq_true]
  · have hb : ¬ (decide (nd.matrix.numCols ≤ 5) && decide (nd.matrix.numRows ≤ 7)) = true := by simpa using hmn
    rw [if_neg hb]
    constructor
    · intro hk; exact fun h1 h2 => absurd ⟨h1, h2⟩ hmn
    · intro hk; exact rfl


/-- everything `checkFlags` demands of a node with a consistent matrix -/
structure FlagsOk (nodes : List FNode) (nd : FNode) : Prop where
  graph : ∀ gd, nd.graph = some gd → checkGraphCert nd.matrix.numRows nd.matrix.numCols nd.matrix.toDense gd.g gd.forest
    gd.coforest nd.ternary = .ok ()
  cograph : ∀ gd, nd.cograph = some gd → checkGraphCert nd.matrix.numCols nd.matrix.numRows
    (transpose nd.matrix.numRows nd.matrix.numCols nd.matrix.toDense) gd.g gd.forest gd.coforest nd.ternary = .ok ()
  typeFlags : (nd.type = NodeType.graph → 0 < nd.gra) ∧ (nd.type = NodeType.cograph → 0 < nd.cogra) ∧
    (nd.type = NodeType.planar → 0 < nd.gra ∧ 0 < nd.cogra) ∧
    (nd.type = NodeType.graph ∨ nd.type = NodeType.cograph ∨ nd.type = NodeType.planar ∨ nd.type = NodeType.r10 →
      0 < nd.reg) ∧
    (nd.type = NodeType.irregular → nd.reg < 0)
  propagate : (nd.type ∈ innerReg → 0 < nd.reg →
      (∀ c ∈ flagKids nodes nd, 0 < c.reg) ∧ (flagKids nodes nd).length = nd.children.length) ∧
    (nd.type ∈ innerGra → 0 < nd.gra → ∀ c ∈ flagKids nodes nd, 0 < c.gra) ∧
    (nd.type ∈ innerCo → 0 < nd.cogra → ∀ c ∈ flagKids nodes nd, 0 < c.cogra)
  r10 : nd.type = NodeType.r10 → nd.matrix.numRows = 5 ∧ nd.matrix.numCols = 5 ∧
    isR10Support (support nd.matrix.toDense) = true ∧ (nd.ternary = true → isTU 5 5 nd.matrix.toDense = true)
  minors : ∀ mn ∈ nd.minors, MinorOk nd mn
  oracleReg : nd.matrix.numRows ≤ oracleDim → nd.matrix.numCols ≤ oracleDim →
    (0 < nd.reg → regOracle nd = true) ∧ (nd.reg < 0 → regOracle nd = false)
  oracleGra : nd.matrix.numRows ≤ 5 → nd.matrix.numCols ≤ 7 →
    (0 < nd.gra → graOracle nd = true) ∧ (nd.gra < 0 → graOracle nd = false)
  oracleCo : nd.matrix.numCols ≤ 5 → nd.matrix.numRows ≤ 7 →
    (0 < nd.cogra → cograOracle nd = true) ∧ (nd.cogra < 0 → cograOracle nd = false)

/-- `checkFlags` accepts exactly when the matrix is inconsistent (then C03 rejects the node) or all clauses hold. -/
theorem checkFlags_ok_iff (nodes : List FNode) (nd : FNode) :
    checkFlags nodes nd = .ok () ↔ (nd.matrix.consistent = true → FlagsOk nodes nd) := by
  rw [checkFlags_eq]
  by_cases hc : nd.matrix.consistent = true
  · have hb : ¬ (!nd.matrix.consistent) = true := by simp [hc]
    rw [if_neg hb, flagsGraph_ok_iff, flagsCograph_ok_iff, flagsType_ok_iff, flagsProp_ok_iff, flagsR10_ok_iff,
      flagsMinors_ok_iff, flagsOracleReg_ok_iff, flagsOracleGra_ok_iff, flagsOracleCo_ok_iff]
    constructor
    · rintro ⟨h1, h2, h3, h4, h5, h6, h7, h8, h9⟩ _
      exact ⟨h1, h2, h3, h4, h5, h6, h7, h8, h9⟩
    · intro h
      obtain ⟨h1, h2, h3, h4, h5, h6, h7, h8, h9⟩ := h hc
      exact ⟨h1, h2, h3, h4, h5, h6, h7, h8, h9⟩
  · have hb : (!nd.matrix.consistent) = true := by simpa using hc
    rw [if_pos hb]
    simp [Ex.pure_eq, hc]

theorem mem_flagKids {nodes : List FNode} {nd : FNode} {c : FNode} :
    c ∈ flagKids nodes nd ↔ ∃ ci ∈ nd.children, findNode nodes ci.child = some c := by
  simp [flagKids, List.mem_filterMap]

theorem length_filterMap_eq_iff {α β : Type} (f : α → Option β) (l : List α) :
    (l.filterMap f).length = l.length ↔ ∀ x ∈ l, (f x).isSome = true := by
  induction l with
  | nil => simp
  | cons a l ih =>
    cases h : f a with
    | none =>
      simp only [List.filterMap_cons_none h, List.length_cons, List.mem_cons, forall_eq_or_imp, h, Option.isSome_none,
        Bool.false_eq_true, false_and, iff_false]
      have := List.length_filterMap_le f l
      omega
    | some b =>
      simp only [List.filterMap_cons_some h, List.length_cons, Nat.add_right_cancel_iff, ih, List.mem_cons,
        forall_eq_or_imp, h, Option.isSome_some, true_and]

theorem flagKids_length_iff {nodes : List FNode} {nd : FNode} :
    (flagKids nodes nd).length = nd.children.length ↔ ∀ ci ∈ nd.children, ∃ c, findNode nodes ci.child = some c := by
  unfold flagKids
  rw [length_filterMap_eq_iff]
  simp only [Option.isSome_iff_exists]



/-! ### total unimodularity and series-parallel extensions -/

section TU
open Matrix

theorem signRange_neg {d : ℤ} (h : d ∈ Set.range (SignType.cast : SignType → ℤ)) :
    -d ∈ Set.range (SignType.cast : SignType → ℤ) := by
  obtain ⟨s, rfl⟩ := h
  exact ⟨-s, by simp⟩

/-- Adding one row to a totally unimodular matrix keeps it totally unimodular if the new row is zero, a signed unit
vector, or a copy or negated copy of another row.  `A` provides all rows of `B` other than `r0`. -/
theorem tu_of_row {m₀ m' n : Type} [DecidableEq m'] [DecidableEq n] {A : Matrix m₀ n ℤ} {B : Matrix m' n ℤ}
    (hA : A.IsTotallyUnimodular) (r0 : m') (emb : ∀ x, x ≠ r0 → ∃ y, A y = B x)
    (hrow : (Nonempty n → ∃ j, ∃ s : SignType, B r0 = Pi.single j (s : ℤ)) ∨
      (∃ r2, r2 ≠ r0 ∧ ∃ s : ℤ, (s = 1 ∨ s = -1) ∧ B r0 = s • B r2)) :
    B.IsTotallyUnimodular := by
  choose y hy using emb
  rcases hrow with hunit | ⟨r2, hne, s, hs, hcopy⟩
  · -- `B` is a row-submatrix of `fromRows A (row r0)`
    let B0 : Matrix Unit n ℤ := fun _ => B r0
    have hF : (fromRows A B0).IsTotallyUnimodular := hA.fromRows_unitlike (fun hn _ => hunit hn)
    let g : m' → m₀ ⊕ Unit := fun x => if h : x = r0 then Sum.inr () else Sum.inl (y x h)
    have : B = (fromRows A B0).submatrix g id := by
      ext x j
      simp only [submatrix_apply, id_eq, g]
      by_cases h : x = r0
      · subst h; simp only [dif_pos]; rfl
      · simp [h, hy x h]
    rw [this]
    exact hF.submatrix g id
  · intro k p q hp hq
    by_cases hex : ∃ i0, p i0 = r0
    · obtain ⟨i0, hi0⟩ := hex
      let p' : Fin k → m' := Function.update p i0 r2
      have hp' : ∀ i, p' i ≠ r0 := by
        intro i
        by_cases h : i = i0
        · subst h; simp [p', hne]
        · simp only [p', Function.update_of_ne h]
          intro hc
          exact h (hp (hc.trans hi0.symm))
      have e1 : B.submatrix p' q = A.submatrix (fun i => y (p' i) (hp' i)) q := by
        ext i j
        simp only [submatrix_apply]
        rw [hy]
      have d1 : (B.submatrix p' q).det ∈ Set.range (SignType.cast : SignType → ℤ) := by
        rw [e1]
        exact (isTotallyUnimodular_iff A).mp hA k _ _
      have e2 : B.submatrix p q = updateRow (B.submatrix p' q) i0 (s • (B.submatrix p' q) i0) := by
        ext i j
        by_cases h : i = i0
        · subst h
          simp only [submatrix_apply, updateRow_self, Pi.smul_apply, p', Function.update_self, hi0]
          rw [hcopy]; rfl
        · simp only [submatrix_apply, updateRow_ne h, p', Function.update_of_ne h]
      rw [e2, det_updateRow_smul, updateRow_eq_self]
      rcases hs with rfl | rfl
      · simpa using d1
      · simpa using signRange_neg d1
    · have hp' : ∀ i, p i ≠ r0 := fun i hc => hex ⟨i, hc⟩
      have e1 : B.submatrix p q = A.submatrix (fun i => y (p i) (hp' i)) q := by
        ext i j
        simp only [submatrix_apply]
        rw [hy]
      rw [e1]
      exact (isTotallyUnimodular_iff A).mp hA k _ _

/-- the matrix with entry function `E` restricted to the rows in `R` and columns in `C` (index types are subtypes of `ℕ`) -/
def mxOn (E : Nat → Nat → Int) (R C : List Nat) : Matrix {x // x ∈ R} {y // y ∈ C} ℤ := fun i j => E i.1 j.1

theorem mxOn_transpose (E : Nat → Nat → Int) (R C : List Nat) : (mxOn E R C)ᵀ = mxOn (flipE E) C R := rfl

/-- the TU oracle on `sub M R C` decides total unimodularity of the matrix restricted to the index sets -/
theorem isTU_sub_iff_mxOn (M : Mat) (R C : List Nat) :
    isTU R.length C.length (sub M R C) = true ↔ (mxOn (ent M) R C).IsTotallyUnimodular := by
  rw [isTU_iff]
  have e1 : toMx R.length C.length (sub M R C) =
      (mxOn (ent M) R C).submatrix (fun i : Fin R.length => ⟨R[i.val], List.getElem_mem i.isLt⟩)
        (fun j : Fin C.length => ⟨C[j.val], List.getElem_mem j.isLt⟩) := by
    ext i j
    simp only [toMx, submatrix_apply, mxOn]
    rw [ent_sub M R C i.isLt j.isLt]
  have e2 : mxOn (ent M) R C =
      (toMx R.length C.length (sub M R C)).submatrix
        (fun x : {x // x ∈ R} => ⟨R.idxOf x.1, List.idxOf_lt_length_of_mem x.2⟩)
        (fun y : {y // y ∈ C} => ⟨C.idxOf y.1, List.idxOf_lt_length_of_mem y.2⟩) := by
    ext x y
    simp only [toMx, submatrix_apply, mxOn]
    rw [ent_sub M R C (List.idxOf_lt_length_of_mem x.2) (List.idxOf_lt_length_of_mem y.2)]
    simp
  constructor
  · intro h; rw [e2]; exact h.submatrix _ _
  · intro h; rw [e1]; exact h.submatrix _ _

/-- total unimodularity on index sets only depends on the sets -/
theorem mxOn_TU_of_subset {E : Nat → Nat → Int} {R C R' C' : List Nat} (hR : ∀ x ∈ R', x ∈ R) (hC : ∀ y ∈ C', y ∈ C)
    (h : (mxOn E R C).IsTotallyUnimodular) : (mxOn E R' C').IsTotallyUnimodular := by
  have : mxOn E R' C' = (mxOn E R C).submatrix (fun x => ⟨x.1, hR _ x.2⟩) (fun y => ⟨y.1, hC _ y.2⟩) := rfl
  rw [this]
  exact h.submatrix _ _

/-- Putting back a removable line (zero, unit or ± copy) preserves total unimodularity, provided the entries on the
index sets are in {-1,0,1} (needed for the unit case: the single nonzero must be ±1). -/
theorem lineRem_TU {t : Bool} {E : Nat → Nat → Int} {R C : List Nat} {r : Nat}
    (hT : ∀ x ∈ R, ∀ y ∈ C, E x y = 0 ∨ E x y = 1 ∨ E x y = -1)
    (h : LineRem t E R C r) (hA : (mxOn E (R.erase r) C).IsTotallyUnimodular) :
    (mxOn E R C).IsTotallyUnimodular := by
  obtain ⟨hr, hline⟩ := h
  apply tu_of_row hA (⟨r, hr⟩ : {x // x ∈ R})
  · intro x hx
    have hne : x.1 ≠ r := fun hc => hx (Subtype.ext hc)
    exact ⟨⟨x.1, (List.mem_erase_of_ne hne).mpr x.2⟩, rfl⟩
  · rcases hline with hz | ⟨c, hc, hnz, huniq⟩ | ⟨r2, hr2, hne, hcopy⟩
    · left
      intro ⟨j⟩
      refine ⟨j, 0, ?_⟩
      funext y
      simp only [mxOn, SignType.coe_zero, Pi.single_zero, Pi.zero_apply]
      exact hz y.1 y.2
    · left
      intro _
      have hv := hT r hr c hc
      obtain ⟨s, hs⟩ : ∃ s : SignType, (s : ℤ) = E r c := by
        rcases hv with hv | hv | hv
        · exact absurd hv hnz
        · exact ⟨1, by simp [hv]⟩
        · exact ⟨-1, by simp [hv]⟩
      refine ⟨⟨c, hc⟩, s, ?_⟩
      funext y
      by_cases hy : y = ⟨c, hc⟩
      · subst hy
        simp [mxOn, hs]
      · rw [Pi.single_eq_of_ne hy]
        simp only [mxOn]
        by_contra hne
        exact hy (Subtype.ext (huniq y.1 y.2 hne))
    · right
      refine ⟨⟨r2, hr2⟩, fun hc => hne (congrArg Subtype.val hc), ?_⟩
      rcases hcopy with hc | ⟨_, hc⟩
      · refine ⟨1, Or.inl rfl, ?_⟩
        funext y
        simp only [mxOn, one_smul]
        exact hc y.1 y.2
      · refine ⟨-1, Or.inr rfl, ?_⟩
        funext y
        simp only [mxOn, Pi.smul_apply, smul_eq_mul, neg_mul, one_mul]
        exact hc y.1 y.2


end TU

end Cmr
