/-
  Lemmas for `CmrProofs/Props/C10GraphicSums.lean`: the disjoint union of two bridge forests.

  * `walk_rename`, `walk_append_left`, `walk_append_right` : walks survive a relabelling of the nodes and the embedding of
    an edge list as a prefix / suffix (edge indices moved up by the length of the prefix, `shiftBy`);
  * `pathEntry_walk_ge`, `pathEntry_shiftBy_lt`, `pathEntry_shiftBy_ge` : the incidence vector of a walk of one part is
    zero on the edges of the other part;
  * `unionT T1 T2` : nodes of `T1` doubled, nodes of `T2` doubled plus one, lists concatenated;
    `unionT_bridgeForest` : every edge stays a bridge (`bridge_of_project` with the projection that halves the nodes of one
    parity and collapses the other parity to one node);
  * `realises_blockDiag` : `Realises` is closed under block-diagonal composition.
-/
import CmrProofs.Lemmas.GraStepLemmas
import CmrProofs.Lemmas.SumsLemmas

set_option linter.unusedSimpArgs false
set_option linter.unusedVariables false

namespace Cmr.GraSum
open Cmr Cmr.Props Cmr.GraStep

/-! ### walks under relabelling and in a concatenation of edge lists -/

theorem walk_rename (φ : Nat → Nat) {T : List Edge} {s t : Nat} {w : List (Nat × Bool)} (h : IsWalk T s t w) :
    IsWalk (T.map (renameE φ)) (φ s) (φ t) w := by
  induction h with
  | nil => exact IsWalk.nil _
  | @fwd s t k e p hk ht _ ih =>
    refine IsWalk.fwd (e := renameE φ e) (by simp [List.getElem?_map, hk]) (by rw [renameE_tail, ht]) ?_
    rw [renameE_head]; exact ih
  | @bwd s t k e p hk ht _ ih =>
    refine IsWalk.bwd (e := renameE φ e) (by simp [List.getElem?_map, hk]) (by rw [renameE_head, ht]) ?_
    rw [renameE_tail]; exact ih

theorem walk_append_left {A : List Edge} (B : List Edge) {s t : Nat} {w : List (Nat × Bool)} (h : IsWalk A s t w) :
    IsWalk (A ++ B) s t w := by
  induction h with
  | nil => exact IsWalk.nil _
  | @fwd s t k e p hk ht _ ih =>
    exact IsWalk.fwd (by rw [List.getElem?_append_left (List.getElem?_eq_some_iff.mp hk).1]; exact hk) ht ih
  | @bwd s t k e p hk ht _ ih =>
    exact IsWalk.bwd (by rw [List.getElem?_append_left (List.getElem?_eq_some_iff.mp hk).1]; exact hk) ht ih

/-- edge indices moved up by `K` -/
def shiftBy (K : Nat) (w : List (Nat × Bool)) : List (Nat × Bool) := w.map (fun x => (x.1 + K, x.2))

theorem getElem?_append_add {A B : List Edge} {K : Nat} (hK : K = A.length) (k : Nat) : (A ++ B)[k + K]? = B[k]? := by
  subst hK
  rw [List.getElem?_append_right (by omega)]
  congr 1; omega

theorem walk_append_right {A B : List Edge} {K : Nat} (hK : K = A.length) {s t : Nat} {w : List (Nat × Bool)}
    (h : IsWalk B s t w) : IsWalk (A ++ B) s t (shiftBy K w) := by
  induction h with
  | nil => exact IsWalk.nil _
  | @fwd s t k e p hk ht _ ih =>
    exact IsWalk.fwd (by rw [getElem?_append_add hK]; exact hk) ht ih
  | @bwd s t k e p hk ht _ ih =>
    exact IsWalk.bwd (by rw [getElem?_append_add hK]; exact hk) ht ih

theorem mem_shiftBy {K : Nat} {w : List (Nat × Bool)} {i : Nat} {d : Bool} :
    (i, d) ∈ shiftBy K w ↔ K ≤ i ∧ (i - K, d) ∈ w := by
  unfold shiftBy
  rw [List.mem_map]
  constructor
  · rintro ⟨⟨k, d'⟩, hx, heq⟩
    simp only [Prod.mk.injEq] at heq
    obtain ⟨rfl, rfl⟩ := heq
    exact ⟨by omega, by simpa using hx⟩
  · rintro ⟨hle, hx⟩
    exact ⟨(i - K, d), hx, by simp; omega⟩

theorem nodup_shiftBy {K : Nat} {w : List (Nat × Bool)} (nd : (w.map Prod.fst).Nodup) :
    ((shiftBy K w).map Prod.fst).Nodup := by
  have : (shiftBy K w).map Prod.fst = (w.map Prod.fst).map (· + K) := by
    simp [shiftBy, List.map_map, Function.comp_def]
  rw [this]
  exact nd.map (fun a b h => by simpa using h)

theorem pathEntry_shiftBy_ge {signed : Bool} {K : Nat} {w : List (Nat × Bool)} (nd : (w.map Prod.fst).Nodup) {i : Nat}
    (hi : K ≤ i) : pathEntry signed (shiftBy K w) i = pathEntry signed w (i - K) :=
  pathEntry_eq_of_mem_iff nd (nodup_shiftBy nd) (fun d => by rw [mem_shiftBy]; simp [hi])

theorem pathEntry_shiftBy_lt {signed : Bool} {K : Nat} {w : List (Nat × Bool)} {i : Nat} (hi : i < K) :
    pathEntry signed (shiftBy K w) i = 0 := by
  apply pathEntry_zero_of_not_mem
  rw [mem_map_fst_iff, mem_shiftBy, mem_shiftBy]
  omega

theorem pathEntry_walk_ge {signed : Bool} {T : List Edge} {s t : Nat} {w : List (Nat × Bool)} (h : IsWalk T s t w) {i : Nat}
    (hi : T.length ≤ i) : pathEntry signed w i = 0 := by
  apply pathEntry_zero_of_not_mem
  intro hm
  obtain ⟨x, hx, rfl⟩ := List.mem_map.mp hm
  obtain ⟨e, he⟩ := h.getElem?_of_mem hx
  have := (List.getElem?_eq_some_iff.mp he).1
  omega

/-! ### the disjoint union of two forests -/

/-- nodes of the first forest become even, nodes of the second odd -/
def unionT (T1 T2 : List Edge) : List Edge := T1.map (renameE (2 * ·)) ++ T2.map (renameE (2 * · + 1))

theorem unionT_length (T1 T2 : List Edge) : (unionT T1 T2).length = T1.length + T2.length := by simp [unionT]

theorem adj_rename {φ : Nat → Nat} {T : List Edge} {k x y : Nat} (h : Adj (T.map (renameE φ)) k x y) :
    ∃ a b, x = φ a ∧ y = φ b ∧ Adj T k a b := by
  obtain ⟨e', he', hends⟩ := h
  rw [List.getElem?_map] at he'
  cases he : T[k]? with
  | none => simp [he] at he'
  | some e =>
    simp only [he, Option.map_some, Option.some.injEq] at he'
    subst he'
    simp only [renameE] at hends
    rcases hends with ⟨h1, h2⟩ | ⟨h1, h2⟩
    · exact ⟨e.u, e.v, h1.symm, h2.symm, e, he, Or.inl ⟨rfl, rfl⟩⟩
    · exact ⟨e.v, e.u, h1.symm, h2.symm, e, he, Or.inr ⟨rfl, rfl⟩⟩

theorem adj_union {T1 T2 : List Edge} {k x y : Nat} (h : Adj (unionT T1 T2) k x y) :
    (k < T1.length ∧ ∃ a b, x = 2 * a ∧ y = 2 * b ∧ Adj T1 k a b) ∨
      (T1.length ≤ k ∧ ∃ a b, x = 2 * a + 1 ∧ y = 2 * b + 1 ∧ Adj T2 (k - T1.length) a b) := by
  obtain ⟨e', he', hends⟩ := h
  unfold unionT at he'
  by_cases hk : k < T1.length
  · rw [List.getElem?_append_left (by simpa using hk)] at he'
    exact Or.inl ⟨hk, adj_rename ⟨e', he', hends⟩⟩
  · rw [List.getElem?_append_right (by simpa using hk), List.length_map] at he'
    exact Or.inr ⟨by omega, adj_rename ⟨e', he', hends⟩⟩

def ψ1 (x : Nat) : Nat := if x % 2 = 0 then x / 2 else 0
def ψ2 (x : Nat) : Nat := if x % 2 = 1 then x / 2 else 0

theorem ψ1_even (a : Nat) : ψ1 (2 * a) = a := by unfold ψ1; rw [if_pos (by omega)]; omega
theorem ψ1_odd (a : Nat) : ψ1 (2 * a + 1) = 0 := by unfold ψ1; rw [if_neg (by omega)]
theorem ψ2_odd (a : Nat) : ψ2 (2 * a + 1) = a := by unfold ψ2; rw [if_pos (by omega)]; omega
theorem ψ2_even (a : Nat) : ψ2 (2 * a) = 0 := by unfold ψ2; rw [if_neg (by omega)]

theorem unionT_bridgeForest {T1 T2 : List Edge} (hb1 : IsBridgeForest T1) (hb2 : IsBridgeForest T2) :
    IsBridgeForest (unionT T1 T2) := by
  intro k e he
  by_cases hk : k < T1.length
  · refine bridge_of_project (T := T1) ψ1 (fun k' => if k' < T1.length then some k' else none) ?_ ?_ hb1 he
      (by simp [hk])
    · intro k' x y hadj
      rcases adj_union hadj with ⟨hlt, a, b, rfl, rfl, h⟩ | ⟨hge, a, b, rfl, rfl, h⟩
      · exact Or.inl ⟨k', by simp [hlt], by rw [ψ1_even, ψ1_even]; exact h⟩
      · exact Or.inr ⟨by simp; omega, by rw [ψ1_odd, ψ1_odd]⟩
    · intro k1 k2 k h1 h2
      split at h1 <;> split at h2 <;> simp at h1 h2
      omega
  · refine bridge_of_project (T := T2) ψ2 (fun k' => if k' < T1.length then none else some (k' - T1.length)) ?_ ?_ hb2 he
      (by simp [hk])
    · intro k' x y hadj
      rcases adj_union hadj with ⟨hlt, a, b, rfl, rfl, h⟩ | ⟨hge, a, b, rfl, rfl, h⟩
      · exact Or.inr ⟨by simp [hlt], by rw [ψ2_even, ψ2_even]⟩
      · exact Or.inl ⟨k' - T1.length, by simp; omega, by rw [ψ2_odd, ψ2_odd]; exact h⟩
    · intro k1 k2 k h1 h2
      split at h1 <;> split at h2 <;> simp at h1 h2
      omega

/-- **Disjoint union**: the block-diagonal matrix of two realised matrices is realised. -/
theorem realises_blockDiag {signed : Bool} {m1 n1 m2 n2 : Nat} {A B : Mat} (hA : Realises signed m1 n1 A)
    (hB : Realises signed m2 n2 B) :
    Realises signed (m1 + m2) (n1 + n2)
      (blockMat m1 n1 m2 n2 (fun i j => ent A i j) (fun _ _ => 0) (fun _ _ => 0) (fun i j => ent B i j)) := by
  obtain ⟨T1, rfl, hb1, hc1⟩ := hA
  obtain ⟨T2, rfl, hb2, hc2⟩ := hB
  refine ⟨unionT T1 T2, unionT_length T1 T2, unionT_bridgeForest hb1 hb2, ?_⟩
  intro j hj
  by_cases h2 : j < n1
  · obtain ⟨s, t, w, hw, nd, hent⟩ := hc1 j h2
    refine ⟨2 * s, 2 * t, w, walk_append_left _ (walk_rename (2 * ·) hw), nd, ?_⟩
    intro i hi
    rw [Cmr.ent_blockMat _ _ _ _ _ _ _ _ hi hj]
    by_cases h1 : i < T1.length <;> simp only [h1, h2, if_true, if_false]
    · exact hent i h1
    · exact (pathEntry_walk_ge hw (by omega)).symm
  · obtain ⟨s, t, w, hw, nd, hent⟩ := hc2 (j - n1) (by omega)
    refine ⟨2 * s + 1, 2 * t + 1, shiftBy T1.length w,
      walk_append_right (by simp) (walk_rename (2 * · + 1) hw), nodup_shiftBy nd, ?_⟩
    intro i hi
    rw [Cmr.ent_blockMat _ _ _ _ _ _ _ _ hi hj]
    by_cases h1 : i < T1.length <;> simp only [h1, h2, if_true, if_false]
    · exact (pathEntry_shiftBy_lt h1).symm
    · rw [pathEntry_shiftBy_ge nd (by omega)]
      exact hent _ (by omega)

end Cmr.GraSum
