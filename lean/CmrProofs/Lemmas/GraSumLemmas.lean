/-
  Lemmas for `CmrProofs/Props/C10GraphicSums.lean`: the disjoint union of two bridge forests.

  * `walk_rename`, `walk_append_left`, `walk_append_right` : walks survive a relabelling of the nodes and the embedding of
    an edge list as a prefix / suffix (edge indices moved up by the length of the prefix, `shiftBy`);
  * `pathEntry_walk_ge`, `pathEntry_shiftBy_lt`, `pathEntry_shiftBy_ge` : the incidence vector of a walk of one part is
    zero on the edges of the other part;
  * `unionT T1 T2` : nodes of `T1` doubled, nodes of `T2` doubled plus one, lists concatenated;
    `unionT_bridgeForest` : every edge stays a bridge (`bridge_of_project` with the projection that halves the nodes of one
    parity and collapses the other parity to one node);
  * `realises_blockDiag` : `Realises` is closed under block-diagonal composition.

  Gluing two bridge forests for the 2-sum (marker forest edge `r` of `T1`, marker walk `wc` from `sc` to `tc` in `T2`):
  * `glueT T1 T2 rows a b sc tc` : the edges `rows` of `T1` (all but `r`), nodes doubled except that the ends `a`, `b` of
    the marker edge become the odd copies of `sc`, `tc`, followed by the edges of `T2` with nodes doubled plus one;
  * `glueT_bridgeForest` : every edge stays a bridge (`bridge_of_project` onto `T1` with the marker contracted, resp. onto
    `T2` with each side of the marker in `T1` collapsed to the matching end of the walk);
  * `walk_glue` : a walk of `T1` maps to a walk of the glued forest, the marker step replaced by `wc` or its reverse
    (`stepG`); `mem_glue_lt`, `mem_glue_ge`, `nodup_glue` : its steps, and that its edges stay pairwise distinct.
-/
import CmrProofs.Lemmas.GraStepLemmas
import CmrProofs.Lemmas.SumsLemmas

set_option linter.unusedSimpArgs false
set_option linter.unusedVariables false

namespace Cmr.GraSum
open Cmr Cmr.Props Cmr.GraStep

/-! ### walks under relabelling and in a concatenation of edge lists -/

theorem walk_rename (φ : Nat → Nat) {T : List Edge} {s t : Nat} {w : List (Nat × Bool)} (h : IsWalk T s t w) :
    IsWalk (T.map (renameE φ)) (φ s) (φ t) w := by
  induction h with
  | nil => exact IsWalk.nil _
  | @fwd s t k e p hk ht _ ih =>
    refine IsWalk.fwd (e := renameE φ e) (by simp [List.getElem?_map, hk]) (by rw [renameE_tail, ht]) ?_
    rw [renameE_head]; exact ih
  | @bwd s t k e p hk ht _ ih =>
    refine IsWalk.bwd (e := renameE φ e) (by simp [List.getElem?_map, hk]) (by rw [renameE_head, ht]) ?_
    rw [renameE_tail]; exact ih

theorem walk_append_left {A : List Edge} (B : List Edge) {s t : Nat} {w : List (Nat × Bool)} (h : IsWalk A s t w) :
    IsWalk (A ++ B) s t w := by
  induction h with
  | nil => exact IsWalk.nil _
  | @fwd s t k e p hk ht _ ih =>
    exact IsWalk.fwd (by rw [List.getElem?_append_left (List.getElem?_eq_some_iff.mp hk).1]; exact hk) ht ih
  | @bwd s t k e p hk ht _ ih =>
    exact IsWalk.bwd (by rw [List.getElem?_append_left (List.getElem?_eq_some_iff.mp hk).1]; exact hk) ht ih

/-- edge indices moved up by `K` -/
def shiftBy (K : Nat) (w : List (Nat × Bool)) : List (Nat × Bool) := w.map (fun x => (x.1 + K, x.2))

theorem getElem?_append_add {A B : List Edge} {K : Nat} (hK : K = A.length) (k : Nat) : (A ++ B)[k + K]? = B[k]? := by
  subst hK
  rw [List.getElem?_append_right (by omega)]
  congr 1; omega

theorem walk_append_right {A B : List Edge} {K : Nat} (hK : K = A.length) {s t : Nat} {w : List (Nat × Bool)}
    (h : IsWalk B s t w) : IsWalk (A ++ B) s t (shiftBy K w) := by
  induction h with
  | nil => exact IsWalk.nil _
  | @fwd s t k e p hk ht _ ih =>
    exact IsWalk.fwd (by rw [getElem?_append_add hK]; exact hk) ht ih
  | @bwd s t k e p hk ht _ ih =>
    exact IsWalk.bwd (by rw [getElem?_append_add hK]; exact hk) ht ih

theorem mem_shiftBy {K : Nat} {w : List (Nat × Bool)} {i : Nat} {d : Bool} :
    (i, d) ∈ shiftBy K w ↔ K ≤ i ∧ (i - K, d) ∈ w := by
  unfold shiftBy
  rw [List.mem_map]
  constructor
  · rintro ⟨⟨k, d'⟩, hx, heq⟩
    simp only [Prod.mk.injEq] at heq
    obtain ⟨rfl, rfl⟩ := heq
    exact ⟨by omega, by simpa using hx⟩
  · rintro ⟨hle, hx⟩
    exact ⟨(i - K, d), hx, by simp; omega⟩

theorem nodup_shiftBy {K : Nat} {w : List (Nat × Bool)} (nd : (w.map Prod.fst).Nodup) :
    ((shiftBy K w).map Prod.fst).Nodup := by
  have : (shiftBy K w).map Prod.fst = (w.map Prod.fst).map (· + K) := by
    simp [shiftBy, List.map_map, Function.comp_def]
  rw [this]
  exact nd.map (fun a b h => by simpa using h)

theorem pathEntry_shiftBy_ge {signed : Bool} {K : Nat} {w : List (Nat × Bool)} (nd : (w.map Prod.fst).Nodup) {i : Nat}
    (hi : K ≤ i) : pathEntry signed (shiftBy K w) i = pathEntry signed w (i - K) :=
  pathEntry_eq_of_mem_iff nd (nodup_shiftBy nd) (fun d => by rw [mem_shiftBy]; simp [hi])

theorem pathEntry_shiftBy_lt {signed : Bool} {K : Nat} {w : List (Nat × Bool)} {i : Nat} (hi : i < K) :
    pathEntry signed (shiftBy K w) i = 0 := by
  apply pathEntry_zero_of_not_mem
  rw [mem_map_fst_iff, mem_shiftBy, mem_shiftBy]
  omega

theorem pathEntry_walk_ge {signed : Bool} {T : List Edge} {s t : Nat} {w : List (Nat × Bool)} (h : IsWalk T s t w) {i : Nat}
    (hi : T.length ≤ i) : pathEntry signed w i = 0 := by
  apply pathEntry_zero_of_not_mem
  intro hm
  obtain ⟨x, hx, rfl⟩ := List.mem_map.mp hm
  obtain ⟨e, he⟩ := h.getElem?_of_mem hx
  have := (List.getElem?_eq_some_iff.mp he).1
  omega

/-! ### the disjoint union of two forests -/

/-- nodes of the first forest become even, nodes of the second odd -/
def unionT (T1 T2 : List Edge) : List Edge := T1.map (renameE (2 * ·)) ++ T2.map (renameE (2 * · + 1))

theorem unionT_length (T1 T2 : List Edge) : (unionT T1 T2).length = T1.length + T2.length := by simp [unionT]

theorem adj_rename {φ : Nat → Nat} {T : List Edge} {k x y : Nat} (h : Adj (T.map (renameE φ)) k x y) :
    ∃ a b, x = φ a ∧ y = φ b ∧ Adj T k a b := by
  obtain ⟨e', he', hends⟩ := h
  rw [List.getElem?_map] at he'
  cases he : T[k]? with
  | none => simp [he] at he'
  | some e =>
    simp only [he, Option.map_some, Option.some.injEq] at he'
    subst he'
    simp only [renameE] at hends
    rcases hends with ⟨h1, h2⟩ | ⟨h1, h2⟩
    · exact ⟨e.u, e.v, h1.symm, h2.symm, e, he, Or.inl ⟨rfl, rfl⟩⟩
    · exact ⟨e.v, e.u, h1.symm, h2.symm, e, he, Or.inr ⟨rfl, rfl⟩⟩

theorem adj_union {T1 T2 : List Edge} {k x y : Nat} (h : Adj (unionT T1 T2) k x y) :
    (k < T1.length ∧ ∃ a b, x = 2 * a ∧ y = 2 * b ∧ Adj T1 k a b) ∨
      (T1.length ≤ k ∧ ∃ a b, x = 2 * a + 1 ∧ y = 2 * b + 1 ∧ Adj T2 (k - T1.length) a b) := by
  obtain ⟨e', he', hends⟩ := h
  unfold unionT at he'
  by_cases hk : k < T1.length
  · rw [List.getElem?_append_left (by simpa using hk)] at he'
    exact Or.inl ⟨hk, adj_rename ⟨e', he', hends⟩⟩
  · rw [List.getElem?_append_right (by simpa using hk), List.length_map] at he'
    exact Or.inr ⟨by omega, adj_rename ⟨e', he', hends⟩⟩

def ψ1 (x : Nat) : Nat := if x % 2 = 0 then x / 2 else 0
def ψ2 (x : Nat) : Nat := if x % 2 = 1 then x / 2 else 0

theorem ψ1_even (a : Nat) : ψ1 (2 * a) = a := by unfold ψ1; rw [if_pos (by omega)]; omega
theorem ψ1_odd (a : Nat) : ψ1 (2 * a + 1) = 0 := by unfold ψ1; rw [if_neg (by omega)]
theorem ψ2_odd (a : Nat) : ψ2 (2 * a + 1) = a := by unfold ψ2; rw [if_pos (by omega)]; omega
theorem ψ2_even (a : Nat) : ψ2 (2 * a) = 0 := by unfold ψ2; rw [if_neg (by omega)]

theorem unionT_bridgeForest {T1 T2 : List Edge} (hb1 : IsBridgeForest T1) (hb2 : IsBridgeForest T2) :
    IsBridgeForest (unionT T1 T2) := by
  intro k e he
  by_cases hk : k < T1.length
  · refine bridge_of_project (T := T1) ψ1 (fun k' => if k' < T1.length then some k' else none) ?_ ?_ hb1 he
      (by simp [hk])
    · intro k' x y hadj
      rcases adj_union hadj with ⟨hlt, a, b, rfl, rfl, h⟩ | ⟨hge, a, b, rfl, rfl, h⟩
      · exact Or.inl ⟨k', by simp [hlt], by rw [ψ1_even, ψ1_even]; exact h⟩
      · exact Or.inr ⟨by simp; omega, by rw [ψ1_odd, ψ1_odd]⟩
    · intro k1 k2 k h1 h2
      split at h1 <;> split at h2 <;> simp at h1 h2
      omega
  · refine bridge_of_project (T := T2) ψ2 (fun k' => if k' < T1.length then none else some (k' - T1.length)) ?_ ?_ hb2 he
      (by simp [hk])
    · intro k' x y hadj
      rcases adj_union hadj with ⟨hlt, a, b, rfl, rfl, h⟩ | ⟨hge, a, b, rfl, rfl, h⟩
      · exact Or.inr ⟨by simp [hlt], by rw [ψ2_even, ψ2_even]⟩
      · exact Or.inl ⟨k' - T1.length, by simp; omega, by rw [ψ2_odd, ψ2_odd]; exact h⟩
    · intro k1 k2 k h1 h2
      split at h1 <;> split at h2 <;> simp at h1 h2
      omega

/-- **Disjoint union**: the block-diagonal matrix of two realised matrices is realised. -/
theorem realises_blockDiag {signed : Bool} {m1 n1 m2 n2 : Nat} {A B : Mat} (hA : Realises signed m1 n1 A)
    (hB : Realises signed m2 n2 B) :
    Realises signed (m1 + m2) (n1 + n2)
      (blockMat m1 n1 m2 n2 (fun i j => ent A i j) (fun _ _ => 0) (fun _ _ => 0) (fun i j => ent B i j)) := by
  obtain ⟨T1, rfl, hb1, hc1⟩ := hA
  obtain ⟨T2, rfl, hb2, hc2⟩ := hB
  refine ⟨unionT T1 T2, unionT_length T1 T2, unionT_bridgeForest hb1 hb2, ?_⟩
  intro j hj
  by_cases h2 : j < n1
  · obtain ⟨s, t, w, hw, nd, hent⟩ := hc1 j h2
    refine ⟨2 * s, 2 * t, w, walk_append_left _ (walk_rename (2 * ·) hw), nd, ?_⟩
    intro i hi
    rw [Cmr.ent_blockMat _ _ _ _ _ _ _ _ hi hj]
    by_cases h1 : i < T1.length <;> simp only [h1, h2, if_true, if_false]
    · exact hent i h1
    · exact (pathEntry_walk_ge hw (by omega)).symm
  · obtain ⟨s, t, w, hw, nd, hent⟩ := hc2 (j - n1) (by omega)
    refine ⟨2 * s + 1, 2 * t + 1, shiftBy T1.length w,
      walk_append_right (by simp) (walk_rename (2 * · + 1) hw), nodup_shiftBy nd, ?_⟩
    intro i hi
    rw [Cmr.ent_blockMat _ _ _ _ _ _ _ _ hi hj]
    by_cases h1 : i < T1.length <;> simp only [h1, h2, if_true, if_false]
    · exact (pathEntry_shiftBy_lt h1).symm
    · rw [pathEntry_shiftBy_ge nd (by omega)]
      exact hent _ (by omega)

open Classical

/-! ### gluing two forests along a forest edge of the first and a walk of the second -/

/-- nodes of the first forest: the ends `a`, `b` of the marker edge go to the ends `sc`, `tc` of the walk (odd copies) -/
def φg (a b sc tc : Nat) (x : Nat) : Nat := if x = a then 2 * sc + 1 else if x = b then 2 * tc + 1 else 2 * x

theorem φg_a (a b sc tc : Nat) : φg a b sc tc a = 2 * sc + 1 := by simp [φg]
theorem φg_b {a b : Nat} (hab : a ≠ b) (sc tc : Nat) : φg a b sc tc b = 2 * tc + 1 := by
  unfold φg; rw [if_neg (Ne.symm hab), if_pos rfl]

/-- the edges `rows` of `T1` (marker removed) followed by the edges of `T2` -/
def glueT (T1 T2 : List Edge) (rows : List Nat) (a b sc tc : Nat) : List Edge :=
  contractT T1 (φg a b sc tc) rows ++ T2.map (renameE (2 * · + 1))

theorem glueT_length (T1 T2 : List Edge) (rows : List Nat) (a b sc tc : Nat) :
    (glueT T1 T2 rows a b sc tc).length = rows.length + T2.length := by simp [glueT, contractT_length]

theorem adj_contract {T : List Edge} {φ : Nat → Nat} {rows : List Nat} (hlt : ∀ k ∈ rows, k < T.length) {k' x y : Nat}
    (h : Adj (contractT T φ rows) k' x y) :
    ∃ k a' b', rows[k']? = some k ∧ x = φ a' ∧ y = φ b' ∧ Adj T k a' b' := by
  obtain ⟨e', he', hends⟩ := h
  obtain ⟨k, e, hr, he, rfl⟩ := contractT_getElem?_inv hlt he'
  simp only [renameE] at hends
  rcases hends with ⟨h1, h2⟩ | ⟨h1, h2⟩
  · exact ⟨k, e.u, e.v, hr, h1.symm, h2.symm, e, he, Or.inl ⟨rfl, rfl⟩⟩
  · exact ⟨k, e.v, e.u, hr, h1.symm, h2.symm, e, he, Or.inr ⟨rfl, rfl⟩⟩

theorem adj_glue {T1 T2 : List Edge} {rows : List Nat} {a b sc tc : Nat} (hlt : ∀ k ∈ rows, k < T1.length) {k' x y : Nat}
    (h : Adj (glueT T1 T2 rows a b sc tc) k' x y) :
    (k' < rows.length ∧ ∃ k a' b', rows[k']? = some k ∧ x = φg a b sc tc a' ∧ y = φg a b sc tc b' ∧ Adj T1 k a' b') ∨
      (rows.length ≤ k' ∧ ∃ a' b', x = 2 * a' + 1 ∧ y = 2 * b' + 1 ∧ Adj T2 (k' - rows.length) a' b') := by
  obtain ⟨e', he', hends⟩ := h
  unfold glueT at he'
  by_cases hk : k' < rows.length
  · rw [List.getElem?_append_left (by simpa [contractT_length] using hk)] at he'
    exact Or.inl ⟨hk, adj_contract hlt ⟨e', he', hends⟩⟩
  · rw [List.getElem?_append_right (by simpa [contractT_length] using hk), contractT_length] at he'
    exact Or.inr ⟨by omega, adj_rename ⟨e', he', hends⟩⟩

/-- side of the marker edge on which a node of `T1` lies, as a node of `T2` -/
noncomputable def Ψg (T1 : List Edge) (r a b sc tc x : Nat) : Nat :=
  if ReachOn T1 (· ≠ r) a x then sc else if ReachOn T1 (· ≠ r) b x then tc else 0

theorem Ψg_congr {T1 : List Edge} {r a b sc tc x y : Nat} (h : ReachOn T1 (· ≠ r) x y) :
    Ψg T1 r a b sc tc x = Ψg T1 r a b sc tc y := by
  have h1 : ReachOn T1 (· ≠ r) a x ↔ ReachOn T1 (· ≠ r) a y := ⟨fun g => g.trans h, fun g => g.trans h.symm⟩
  have h2 : ReachOn T1 (· ≠ r) b x ↔ ReachOn T1 (· ≠ r) b y := ⟨fun g => g.trans h, fun g => g.trans h.symm⟩
  unfold Ψg
  simp only [h1, h2]

noncomputable def ψ2g (T1 : List Edge) (r a b sc tc y : Nat) : Nat :=
  if y % 2 = 1 then y / 2 else Ψg T1 r a b sc tc (y / 2)

theorem ψ2g_odd (T1 : List Edge) (r a b sc tc y : Nat) : ψ2g T1 r a b sc tc (2 * y + 1) = y := by
  unfold ψ2g; rw [if_pos (by omega)]; omega

theorem ψ2g_φ {T1 : List Edge} {r a b sc tc : Nat} (hab : ¬ ReachOn T1 (· ≠ r) a b) (x : Nat) :
    ψ2g T1 r a b sc tc (φg a b sc tc x) = Ψg T1 r a b sc tc x := by
  unfold φg
  by_cases h1 : x = a
  · subst h1
    rw [if_pos rfl, ψ2g_odd]
    unfold Ψg; rw [if_pos (ReachOn.refl _)]
  · rw [if_neg h1]
    by_cases h2 : x = b
    · subst h2
      rw [if_pos rfl, ψ2g_odd]
      unfold Ψg; rw [if_neg hab, if_pos (ReachOn.refl _)]
    · rw [if_neg h2]
      unfold ψ2g
      rw [if_neg (by omega), Nat.mul_div_cancel_left x (by omega)]

noncomputable def ψ1g (T1 T2 : List Edge) (rows : List Nat) (a sc y : Nat) : Nat :=
  if y % 2 = 0 then compRep T1 (fun k => k ∉ rows) (y / 2)
  else if ReachOn T2 (fun _ => True) sc (y / 2) then compRep T1 (fun k => k ∉ rows) a else 0

theorem ψ1g_odd (T1 T2 : List Edge) (rows : List Nat) (a sc y : Nat) :
    ψ1g T1 T2 rows a sc (2 * y + 1) = if ReachOn T2 (fun _ => True) sc y then compRep T1 (fun k => k ∉ rows) a else 0 := by
  unfold ψ1g
  rw [if_neg (by omega)]
  have : (2 * y + 1) / 2 = y := by omega
  rw [this]

theorem ψ1g_φ {T1 T2 : List Edge} {rows : List Nat} {a b sc tc : Nat}
    (hρ : compRep T1 (fun k => k ∉ rows) a = compRep T1 (fun k => k ∉ rows) b)
    (hW : ReachOn T2 (fun _ => True) sc tc) (x : Nat) :
    ψ1g T1 T2 rows a sc (φg a b sc tc x) = compRep T1 (fun k => k ∉ rows) x := by
  unfold φg
  by_cases h1 : x = a
  · subst h1
    rw [if_pos rfl, ψ1g_odd, if_pos (ReachOn.refl _)]
  · rw [if_neg h1]
    by_cases h2 : x = b
    · subst h2
      rw [if_pos rfl, ψ1g_odd, if_pos hW, hρ]
    · rw [if_neg h2]
      unfold ψ1g
      rw [if_pos (by omega), Nat.mul_div_cancel_left x (by omega)]

theorem glueT_bridgeForest {T1 T2 : List Edge} (hb1 : IsBridgeForest T1) (hb2 : IsBridgeForest T2) {rows : List Nat}
    {r : Nat} {e : Edge} (hnd : rows.Nodup) (hmem : ∀ k, k ∈ rows ↔ k < T1.length ∧ k ≠ r) (he : T1[r]? = some e)
    {sc tc : Nat} (hW : ReachOn T2 (fun _ => True) sc tc) :
    IsBridgeForest (glueT T1 T2 rows e.tail e.head sc tc) := by
  have hlt : ∀ k ∈ rows, k < T1.length := fun k hk => ((hmem k).mp hk).1
  have hr : r ∉ rows := fun h => ((hmem r).mp h).2 rfl
  have hab : ¬ ReachOn T1 (· ≠ r) e.tail e.head := by
    intro h
    rcases e.tail_head with ⟨h1, h2⟩ | ⟨h1, h2⟩
    · rw [h1, h2] at h; exact hb1 r e he h
    · rw [h1, h2] at h; exact hb1 r e he h.symm
  have hρ : compRep T1 (fun k => k ∉ rows) e.tail = compRep T1 (fun k => k ∉ rows) e.head :=
    compRep_eq_of_reach (ReachOn.single (P := fun k => k ∉ rows) hr (adj_tail_head he))
  intro k' e' he'
  by_cases hk : k' < rows.length
  · refine bridge_of_project (T := contractT T1 (compRep T1 (fun k => k ∉ rows)) rows)
      (ψ1g T1 T2 rows e.tail sc) (fun k' => if k' < rows.length then some k' else none) ?_ ?_
      (contractT_bridgeForest hb1 hnd hlt) he' (by simp [hk])
    · intro k2 x y hadj
      rcases adj_glue hlt hadj with ⟨hlt2, k, a', b', hrk, rfl, rfl, e2, he2, hends⟩ | ⟨hge, a', b', rfl, rfl, h⟩
      · refine Or.inl ⟨k2, by simp [hlt2], ?_⟩
        rw [ψ1g_φ hρ hW, ψ1g_φ hρ hW]
        refine ⟨_, contractT_getElem?_of hrk he2, ?_⟩
        simp only [renameE]
        rcases hends with ⟨h1, h2⟩ | ⟨h1, h2⟩
        · exact Or.inl ⟨by rw [h1], by rw [h2]⟩
        · exact Or.inr ⟨by rw [h1], by rw [h2]⟩
      · refine Or.inr ⟨by simp; omega, ?_⟩
        rw [ψ1g_odd, ψ1g_odd]
        have : ReachOn T2 (fun _ => True) sc a' ↔ ReachOn T2 (fun _ => True) sc b' :=
          ⟨fun g => g.trans (ReachOn.single trivial h), fun g => g.trans (ReachOn.single trivial h.symm)⟩
        simp only [this]
    · intro k1 k2 k h1 h2
      split at h1 <;> split at h2 <;> simp at h1 h2
      omega
  · refine bridge_of_project (T := T2) (ψ2g T1 r e.tail e.head sc tc)
      (fun k' => if k' < rows.length then none else some (k' - rows.length)) ?_ ?_ hb2 he' (by simp [hk])
    · intro k2 x y hadj
      rcases adj_glue hlt hadj with ⟨hlt2, k, a', b', hrk, rfl, rfl, hadj1⟩ | ⟨hge, a', b', rfl, rfl, h⟩
      · refine Or.inr ⟨by simp [hlt2], ?_⟩
        rw [ψ2g_φ hab, ψ2g_φ hab]
        have hkr : k ≠ r := ((hmem k).mp (List.mem_of_getElem? hrk)).2
        exact Ψg_congr (ReachOn.single (P := (· ≠ r)) hkr hadj1)
      · exact Or.inl ⟨k2 - rows.length, by simp; omega, by rw [ψ2g_odd, ψ2g_odd]; exact h⟩
    · intro k1 k2 k h1 h2
      split at h1 <;> split at h2 <;> simp at h1 h2
      omega

/-! ### walks of the first forest in the glued forest -/

/-- image of a step: the marker edge becomes the walk `wc` (or its reverse), moved behind the edges `rows` -/
def stepG (rows : List Nat) (r : Nat) (wc : List (Nat × Bool)) (x : Nat × Bool) : List (Nat × Bool) :=
  if x.1 = r then shiftBy rows.length (if x.2 then wc else revWalk wc) else [(rows.idxOf x.1, x.2)]

theorem walk_glue {T1 T2 : List Edge} {rows : List Nat} {r : Nat} {e : Edge}
    (hmem : ∀ k, k ∈ rows ↔ k < T1.length ∧ k ≠ r) (he : T1[r]? = some e) (hab : e.tail ≠ e.head)
    {sc tc : Nat} {wc : List (Nat × Bool)} (hwc : IsWalk T2 sc tc wc) {s t : Nat} {w : List (Nat × Bool)}
    (h : IsWalk T1 s t w) :
    IsWalk (glueT T1 T2 rows e.tail e.head sc tc) (φg e.tail e.head sc tc s) (φg e.tail e.head sc tc t)
      (w.flatMap (stepG rows r wc)) := by
  have hK : rows.length = (contractT T1 (φg e.tail e.head sc tc) rows).length := (contractT_length _ _ _).symm
  induction h with
  | nil => exact IsWalk.nil _
  | @fwd s t k e' p hk ht _ ih =>
    rw [List.flatMap_cons]
    by_cases hkr : k = r
    · subst hkr
      rw [he] at hk; cases hk
      subst ht
      have : stepG rows k wc (k, true) = shiftBy rows.length wc := by simp [stepG]
      rw [this]
      refine IsWalk.append ?_ ih
      rw [φg_a, φg_b hab]
      exact walk_append_right hK (walk_rename (2 * · + 1) hwc)
    · have hin : k ∈ rows := (hmem k).mpr ⟨(List.getElem?_eq_some_iff.mp hk).1, hkr⟩
      have : stepG rows r wc (k, true) = [(rows.idxOf k, true)] := by simp [stepG, hkr]
      rw [this]
      refine IsWalk.append (walk_append_left _ ?_) ih
      refine IsWalk.fwd (contractT_getElem?_of (List.getElem?_idxOf hin) hk) (by rw [renameE_tail, ht]) ?_
      rw [renameE_head]; exact IsWalk.nil _
  | @bwd s t k e' p hk ht _ ih =>
    rw [List.flatMap_cons]
    by_cases hkr : k = r
    · subst hkr
      rw [he] at hk; cases hk
      subst ht
      have : stepG rows k wc (k, false) = shiftBy rows.length (revWalk wc) := by simp [stepG]
      rw [this]
      refine IsWalk.append ?_ ih
      rw [φg_a, φg_b hab]
      exact walk_append_right hK (walk_rename (2 * · + 1) hwc.reverse)
    · have hin : k ∈ rows := (hmem k).mpr ⟨(List.getElem?_eq_some_iff.mp hk).1, hkr⟩
      have : stepG rows r wc (k, false) = [(rows.idxOf k, false)] := by simp [stepG, hkr]
      rw [this]
      refine IsWalk.append (walk_append_left _ ?_) ih
      refine IsWalk.bwd (contractT_getElem?_of (List.getElem?_idxOf hin) hk) (by rw [renameE_head, ht]) ?_
      rw [renameE_tail]; exact IsWalk.nil _

theorem mem_glue_lt {rows : List Nat} {r : Nat} {wc w : List (Nat × Bool)} (hnd : rows.Nodup) (hr : r ∉ rows)
    (hw : ∀ x ∈ w, x.1 ∈ rows ∨ x.1 = r) {i : Nat} (hi : i < rows.length) (d : Bool) :
    (i, d) ∈ w.flatMap (stepG rows r wc) ↔ (rows[i], d) ∈ w := by
  rw [List.mem_flatMap]
  constructor
  · rintro ⟨⟨k, d'⟩, hx, hm⟩
    unfold stepG at hm
    by_cases hkr : k = r
    · simp only [hkr, if_true] at hm
      have := (mem_shiftBy.mp hm).1
      omega
    · simp only [hkr, if_false, List.mem_singleton, Prod.mk.injEq] at hm
      obtain ⟨h1, rfl⟩ := hm
      have hin : k ∈ rows := (hw _ hx).resolve_right hkr
      subst h1
      simpa [List.getElem_idxOf] using hx
  · intro hx
    refine ⟨_, hx, ?_⟩
    have hne : rows[i] ≠ r := fun h => hr (h ▸ List.getElem_mem hi)
    simp [stepG, hne, hnd.idxOf_getElem]

theorem mem_glue_ge {rows : List Nat} {r : Nat} {wc w : List (Nat × Bool)}
    (hw : ∀ x ∈ w, x.1 ∈ rows ∨ x.1 = r) {i : Nat} (hi : rows.length ≤ i) (d : Bool) :
    (i, d) ∈ w.flatMap (stepG rows r wc) ↔
      ((r, true) ∈ w ∧ (i - rows.length, d) ∈ wc) ∨ ((r, false) ∈ w ∧ (i - rows.length, !d) ∈ wc) := by
  rw [List.mem_flatMap]
  constructor
  · rintro ⟨⟨k, d'⟩, hx, hm⟩
    unfold stepG at hm
    by_cases hkr : k = r
    · subst hkr
      simp only [if_true] at hm
      have hm2 := (mem_shiftBy.mp hm).2
      cases d'
      · simp only [Bool.false_eq_true, if_false] at hm2
        exact Or.inr ⟨hx, mem_revWalk.mp hm2⟩
      · simp only [if_true] at hm2
        exact Or.inl ⟨hx, hm2⟩
    · simp only [hkr, if_false, List.mem_singleton, Prod.mk.injEq] at hm
      have hin : k ∈ rows := (hw _ hx).resolve_right hkr
      have := List.idxOf_lt_length_of_mem hin
      omega
  · rintro (⟨hx, hm⟩ | ⟨hx, hm⟩)
    · exact ⟨_, hx, by simp only [stepG, if_true]; exact mem_shiftBy.mpr ⟨hi, hm⟩⟩
    · exact ⟨_, hx, by
        simp only [stepG, if_true, Bool.false_eq_true, if_false]
        exact mem_shiftBy.mpr ⟨hi, mem_revWalk.mpr hm⟩⟩

theorem nodup_glue {rows : List Nat} {r : Nat} {wc : List (Nat × Bool)} (hnd : rows.Nodup) (hr : r ∉ rows)
    (ndc : (wc.map Prod.fst).Nodup) : ∀ {w : List (Nat × Bool)}, (∀ x ∈ w, x.1 ∈ rows ∨ x.1 = r) →
      (w.map Prod.fst).Nodup → ((w.flatMap (stepG rows r wc)).map Prod.fst).Nodup := by
  intro w
  induction w with
  | nil => intro _ _; simp
  | cons x w ih =>
    intro hw nd
    obtain ⟨k, d⟩ := x
    simp only [List.map_cons, List.nodup_cons] at nd
    obtain ⟨hk, nd⟩ := nd
    have hw' : ∀ x ∈ w, x.1 ∈ rows ∨ x.1 = r := fun x hx => hw x (List.mem_cons_of_mem _ hx)
    have ih := ih hw' nd
    rw [List.flatMap_cons, List.map_append, List.nodup_append]
    refine ⟨?_, ih, ?_⟩
    · unfold stepG
      by_cases hkr : k = r
      · simp only [hkr, if_true]
        apply nodup_shiftBy
        cases d
        · simp only [Bool.false_eq_true, if_false, revWalk_map_fst]
          exact List.nodup_reverse.mpr ndc
        · simpa using ndc
      · simp [hkr]
    · intro a ha b hb
      rintro rfl
      obtain ⟨⟨a', d2⟩, hx2, rfl⟩ := List.mem_map.mp hb
      simp only at ha
      obtain ⟨⟨a'', d1⟩, hx1, h11⟩ := List.mem_map.mp ha
      simp only at h11
      subst h11
      unfold stepG at hx1
      by_cases hkr : k = r
      · simp only [hkr, if_true] at hx1
        have hge := (mem_shiftBy.mp hx1).1
        rcases (mem_glue_ge hw' hge d2).mp hx2 with ⟨h, _⟩ | ⟨h, _⟩
        · exact hk (hkr ▸ List.mem_map.mpr ⟨_, h, rfl⟩)
        · exact hk (hkr ▸ List.mem_map.mpr ⟨_, h, rfl⟩)
      · simp only [hkr, if_false, List.mem_singleton, Prod.mk.injEq] at hx1
        obtain ⟨h1, _⟩ := hx1
        have hin : k ∈ rows := (hw (k, d) List.mem_cons_self).resolve_right hkr
        have hlt : a'' < rows.length := h1 ▸ List.idxOf_lt_length_of_mem hin
        have := (mem_glue_lt hnd hr hw' hlt d2).mp hx2
        have hk2 : rows[a''] = k := by subst h1; simp [List.getElem_idxOf]
        exact hk (List.mem_map.mpr ⟨_, this, hk2⟩)

end Cmr.GraSum
