/-
  Lemmas about the executable graph model `Cmr/Graph.lean` (core Lean only): a declarative notion of walk in a list of
  forest edges, soundness of the tree-path search, the entry-by-entry contract of `cycleColumn` / `cycleMatrix`, and the
  exact acceptance condition of the certificate checker `checkGraphCert`.
-/
import CmrProofs.Lemmas.MatBasic
import Cmr.Graph
set_option linter.unusedSimpArgs false
set_option linter.unusedVariables false
namespace Cmr

/-- `IsWalk T s t p`: `p` is a walk from node `s` to node `t` in the edge list `T`; each step `(k, fwd)` uses the edge at
index `k` of `T`, from `Edge.tail` to `Edge.head` if `fwd` and from head to tail otherwise. -/
inductive IsWalk (T : List Edge) : Nat → Nat → List (Nat × Bool) → Prop
  | nil (s : Nat) : IsWalk T s s []
  | fwd {s t k : Nat} {e : Edge} {p : List (Nat × Bool)} :
      T[k]? = some e → e.tail = s → IsWalk T e.head t p → IsWalk T s t ((k, true) :: p)
  | bwd {s t k : Nat} {e : Edge} {p : List (Nat × Bool)} :
      T[k]? = some e → e.head = s → IsWalk T e.tail t p → IsWalk T s t ((k, false) :: p)

/-- the search from a node to itself returns the empty walk -/
theorem treePath_self (T : List Edge) (fuel : Nat) (used : List Nat) (s : Nat) :
    treePath T fuel used s s = some [] := by
  cases fuel <;> simp [treePath]

/-- The search returns a genuine walk from `s` to `t` that uses pairwise distinct edges of `T`, none of them marked used. -/
theorem treePath_sound {T : List Edge} {fuel : Nat} {used : List Nat} {s t : Nat} {p : List (Nat × Bool)}
    (h : treePath T fuel used s t = some p) :
    IsWalk T s t p ∧ (p.map Prod.fst).Nodup ∧ (∀ x ∈ p, x.1 ∉ used) ∧ (∀ x ∈ p, x.1 < T.length) := by
  induction fuel generalizing used s p with
  | zero =>
    unfold treePath at h
    split at h
    · rename_i hst
      have hst : s = t := by simpa using hst
      cases h; subst hst
      exact ⟨IsWalk.nil _, by simp, by simp, by simp⟩
    · cases h
  | succ fuel ih =>
    unfold treePath at h
    split at h
    · rename_i hst
      have hst : s = t := by simpa using hst
      cases h; subst hst
      exact ⟨IsWalk.nil _, by simp, by simp, by simp⟩
    · obtain ⟨⟨e, k⟩, hmem, h2⟩ := List.exists_of_findSome?_eq_some h
      have hk : T[k]? = some e := by
        simpa [List.mem_zipIdx_iff_getElem?] using hmem
      have hklt : k < T.length := by
        rcases List.getElem?_eq_some_iff.mp hk with ⟨hlt, _⟩; exact hlt
      simp only at h2
      split at h2
      · cases h2
      · rename_i hused
        have hused : k ∉ used := by simpa using hused
        split at h2
        · rename_i htail
          have htail : e.tail = s := by simpa using htail
          cases hq : treePath T fuel (k :: used) e.head t with
          | none => simp [hq] at h2
          | some q =>
            simp [hq] at h2
            subst h2
            obtain ⟨w, nd, hu, hl⟩ := ih hq
            refine ⟨IsWalk.fwd hk htail w, ?_, ?_, ?_⟩
            · simp only [List.map_cons, List.nodup_cons]
              refine ⟨?_, nd⟩
              intro hm
              obtain ⟨x, hx, hxe⟩ := List.mem_map.mp hm
              have := hu x hx
              simp [hxe] at this
            · intro x hx
              rcases List.mem_cons.mp hx with rfl | hx
              · exact hused
              · have := hu x hx
                simp at this; exact this.2
            · intro x hx
              rcases List.mem_cons.mp hx with rfl | hx
              · exact hklt
              · exact hl x hx
        · split at h2
          · rename_i hhead
            have hhead : e.head = s := by simpa using hhead
            cases hq : treePath T fuel (k :: used) e.tail t with
            | none => simp [hq] at h2
            | some q =>
              simp [hq] at h2
              subst h2
              obtain ⟨w, nd, hu, hl⟩ := ih hq
              refine ⟨IsWalk.bwd hk hhead w, ?_, ?_, ?_⟩
              · simp only [List.map_cons, List.nodup_cons]
                refine ⟨?_, nd⟩
                intro hm
                obtain ⟨x, hx, hxe⟩ := List.mem_map.mp hm
                have := hu x hx
                simp [hxe] at this
              · intro x hx
                rcases List.mem_cons.mp hx with rfl | hx
                · exact hused
                · have := hu x hx
                  simp at this; exact this.2
              · intro x hx
                rcases List.mem_cons.mp hx with rfl | hx
                · exact hklt
                · exact hl x hx
          · cases h2


theorem lookup_some_mem {p : List (Nat × Bool)} {k : Nat} {b : Bool} (h : p.lookup k = some b) : (k, b) ∈ p := by
  induction p with
  | nil => simp at h
  | cons x p ih =>
    obtain ⟨k', b'⟩ := x
    simp only [List.lookup_cons] at h
    split at h
    · rename_i hk
      have : k = k' := by simpa using hk
      subst this; cases h; simp
    · exact List.mem_cons_of_mem _ (ih h)

theorem lookup_none_iff {p : List (Nat × Bool)} {k : Nat} : p.lookup k = none ↔ k ∉ p.map Prod.fst := by
  induction p with
  | nil => simp
  | cons x p ih =>
    obtain ⟨k', b'⟩ := x
    simp only [List.lookup_cons, List.map_cons, List.mem_cons, not_or]
    by_cases hk : k = k'
    · subst hk; simp
    · have : (k == k') = false := by simpa using hk
      simp [this, ih, hk]

theorem lookup_of_mem_nodup {p : List (Nat × Bool)} {k : Nat} {b : Bool} (nd : (p.map Prod.fst).Nodup)
    (h : (k, b) ∈ p) : p.lookup k = some b := by
  induction p with
  | nil => simp at h
  | cons x p ih =>
    obtain ⟨k', b'⟩ := x
    simp only [List.map_cons, List.nodup_cons] at nd
    simp only [List.lookup_cons]
    rcases List.mem_cons.mp h with heq | hmem
    · cases heq; simp
    · have hne : k ≠ k' := by
        rintro rfl
        exact nd.1 (List.mem_map.mpr ⟨(k, b), hmem, rfl⟩)
      have : (k == k') = false := by simpa using hne
      simp [this, ih nd.2 hmem]

/-- the entry contributed to row `k` by the walk `p`: `0` off the walk, `1` on it (unsigned) resp. `+1`/`-1` for a
forward/backward traversal (signed).  This is literally the `match` in `cycleColumn`. -/
def pathEntry (signed : Bool) (p : List (Nat × Bool)) (k : Nat) : Int :=
  match p.lookup k with
  | none => 0
  | some fwd => if signed then (if fwd then 1 else -1) else 1

theorem pathEntry_eq_match (signed : Bool) (p : List (Nat × Bool)) (k : Nat) :
    pathEntry signed p k =
      (match p.lookup k with
       | none => 0
       | some fwd => if signed then (if fwd then 1 else -1) else 1) := rfl

theorem pathEntry_of_none {signed : Bool} {p : List (Nat × Bool)} {k : Nat} (h : p.lookup k = none) :
    pathEntry signed p k = 0 := by simp [pathEntry, h]

theorem pathEntry_of_some {signed : Bool} {p : List (Nat × Bool)} {k : Nat} {b : Bool} (h : p.lookup k = some b) :
    pathEntry signed p k = if signed then (if b then 1 else -1) else 1 := by simp [pathEntry, h]

/-- unsigned: `1` exactly on the edges of the walk -/
theorem pathEntry_unsigned (p : List (Nat × Bool)) (k : Nat) :
    pathEntry false p k = if k ∈ p.map Prod.fst then 1 else 0 := by
  cases hq : p.lookup k with
  | none => rw [pathEntry_of_none hq, if_neg (lookup_none_iff.mp hq)]
  | some b =>
    have : k ∈ p.map Prod.fst := List.mem_map.mpr ⟨(k, b), lookup_some_mem hq, rfl⟩
    rw [pathEntry_of_some hq, if_pos this]; simp

/-- signed: `+1` on forwardly traversed edges, `-1` on backwardly traversed edges, `0` off the walk -/
theorem pathEntry_signed {p : List (Nat × Bool)} (nd : (p.map Prod.fst).Nodup) (k : Nat) :
    pathEntry true p k = if (k, true) ∈ p then 1 else if (k, false) ∈ p then -1 else 0 := by
  cases hq : p.lookup k with
  | none =>
    have hn := lookup_none_iff.mp hq
    have h1 : (k, true) ∉ p := fun h => hn (List.mem_map.mpr ⟨_, h, rfl⟩)
    have h2 : (k, false) ∉ p := fun h => hn (List.mem_map.mpr ⟨_, h, rfl⟩)
    rw [pathEntry_of_none hq, if_neg h1, if_neg h2]
  | some b =>
    have hm := lookup_some_mem hq
    rw [pathEntry_of_some hq]
    cases b with
    | true => simp [hm]
    | false =>
      have h1 : (k, true) ∉ p := by
        intro h
        have := lookup_of_mem_nodup nd h
        rw [hq] at this; cases this
      simp [hm, h1]

theorem pathEntry_cases (signed : Bool) (p : List (Nat × Bool)) (k : Nat) :
    pathEntry signed p k = 0 ∨ pathEntry signed p k = 1 ∨ (signed = true ∧ pathEntry signed p k = -1) := by
  cases hq : p.lookup k with
  | none => left; exact pathEntry_of_none hq
  | some b => rw [pathEntry_of_some hq]; cases signed <;> cases b <;> simp

/-- A column of `M(G,T)` / `M(D,T)` is the (signed) incidence vector of a walk in `T` from the tail to the head of `f` with
pairwise distinct edges. -/
theorem cycleColumn_spec {T : List Edge} {signed : Bool} {f : Edge} {col : List Int}
    (h : cycleColumn T signed f = some col) :
    ∃ p, IsWalk T f.tail f.head p ∧ (p.map Prod.fst).Nodup ∧ col.length = T.length ∧
      ∀ k, k < T.length → col.getD k 0 = pathEntry signed p k := by
  unfold cycleColumn at h
  cases hq : treePath T T.length [] f.tail f.head with
  | none => simp [hq] at h
  | some p =>
    simp only [hq, Option.map_some, Option.some.injEq] at h
    obtain ⟨w, nd, _, _⟩ := treePath_sound hq
    refine ⟨p, w, nd, ?_, ?_⟩
    · subst h; simp
    · intro k hk
      subst h
      simp only [List.getD_eq_getElem?_getD, List.getElem?_map, List.getElem?_range, hk, if_true, Option.map_some,
        Option.getD_some, pathEntry]
      cases p.lookup k <;> rfl

theorem cycleColumn_entry_signed {T : List Edge} {signed : Bool} {f : Edge} {col : List Int}
    (h : cycleColumn T signed f = some col) (k : Nat) :
    col.getD k 0 = 0 ∨ col.getD k 0 = 1 ∨ (signed = true ∧ col.getD k 0 = -1) := by
  obtain ⟨p, _, _, hl, he⟩ := cycleColumn_spec h
  by_cases hk : k < T.length
  · rw [he k hk]; exact pathEntry_cases _ _ _
  · left
    have : col.length ≤ k := by omega
    simp [List.getD_eq_getElem?_getD, List.getElem?_eq_none this]

theorem cycleColumn_entry_unsigned {T : List Edge} {f : Edge} {col : List Int}
    (h : cycleColumn T false f = some col) (k : Nat) : col.getD k 0 = 0 ∨ col.getD k 0 = 1 := by
  rcases cycleColumn_entry_signed h k with h | h | ⟨h, _⟩
  · exact Or.inl h
  · exact Or.inr h
  · cases h

theorem mapM_option_spec {α β : Type} (f : α → Option β) :
    ∀ {l : List α} {r : List β}, l.mapM f = some r →
      r.length = l.length ∧ ∀ j (h : j < l.length), f l[j] = r[j]? := by
  intro l
  induction l with
  | nil => intro r h; simp at h; subst h; simp
  | cons a l ih =>
    intro r h
    rw [List.mapM_cons] at h
    cases ha : f a with
    | none => simp [ha] at h
    | some b =>
      cases hl : l.mapM f with
      | none => simp [ha, hl] at h
      | some bs =>
        simp [ha, hl] at h
        subst h
        obtain ⟨h1, h2⟩ := ih hl
        refine ⟨by simp [h1], ?_⟩
        intro j hj
        cases j with
        | zero => simp [ha]
        | succ j => simpa using h2 j (by simpa using hj)

theorem mapM_option_some_of_forall {α β : Type} (f : α → Option β) :
    ∀ {l : List α}, (∀ a ∈ l, (f a).isSome = true) → ∃ r, l.mapM f = some r := by
  intro l
  induction l with
  | nil => intro _; exact ⟨[], by simp⟩
  | cons a l ih =>
    intro h
    obtain ⟨r, hr⟩ := ih (fun x hx => h x (List.mem_cons_of_mem _ hx))
    obtain ⟨b, hb⟩ := Option.isSome_iff_exists.mp (h a List.mem_cons_self)
    exact ⟨b :: r, by rw [List.mapM_cons]; simp [hb, hr]⟩

/-- Shape `|T| × |coT|`, and entry `(i,j)` is `pathEntry` of forest edge `i` on a duplicate-free walk in `T` between the
ends of coforest edge `j`: `0` off the walk, `1` on it (unsigned), `±1` by traversal direction (signed). -/
theorem cycleMatrix_spec {T coT : List Edge} {signed : Bool} {C : Mat} (h : cycleMatrix T coT signed = some C) :
    C.wf T.length coT.length = true ∧
    ∀ j (hj : j < coT.length), ∃ p, IsWalk T (coT[j]).tail (coT[j]).head p ∧ (p.map Prod.fst).Nodup ∧
      ∀ i, i < T.length → ent C i j = pathEntry signed p i := by
  unfold cycleMatrix at h
  cases hq : coT.mapM (cycleColumn T signed) with
  | none => simp [hq] at h
  | some cols =>
    simp only [hq, Option.map_some, Option.some.injEq] at h
    subst h
    refine ⟨wf_ofFn _ _ _, ?_⟩
    intro j hj
    obtain ⟨hlen, hcol⟩ := mapM_option_spec _ hq
    have hj' : j < cols.length := by omega
    have hc := hcol j hj
    rw [List.getElem?_eq_getElem hj'] at hc
    obtain ⟨p, w, nd, _, he⟩ := cycleColumn_spec hc
    refine ⟨p, w, nd, ?_⟩
    intro i hi
    rw [ent_ofFn _ hi hj, ← he i hi]
    simp [List.getD_eq_getElem?_getD, List.getElem?_eq_getElem hj']

/-- the matrix is determined entry by entry: a binary (unsigned) resp. ternary (signed) matrix -/
theorem cycleMatrix_ternary {T coT : List Edge} {signed : Bool} {C : Mat} (h : cycleMatrix T coT signed = some C) :
    isTernary C = true := by
  obtain ⟨hwf, he⟩ := cycleMatrix_spec h
  rw [← ofFn_ent hwf]
  apply isTernary_ofFn
  intro i hi j hj
  obtain ⟨p, _, _, hp⟩ := he j hj
  rw [hp i hi]
  rcases pathEntry_cases signed p i with h | h | ⟨_, h⟩
  · exact Or.inl h
  · exact Or.inr (Or.inl h)
  · exact Or.inr (Or.inr h)

theorem cycleMatrix_binary {T coT : List Edge} {C : Mat} (h : cycleMatrix T coT false = some C) :
    isBinary C = true := by
  obtain ⟨hwf, he⟩ := cycleMatrix_spec h
  rw [← ofFn_ent hwf]
  apply isBinary_ofFn
  intro i hi j hj
  obtain ⟨p, _, _, hp⟩ := he j hj
  rw [hp i hi]
  rcases pathEntry_cases false p i with h | h | ⟨h, _⟩
  · exact Or.inl h
  · exact Or.inr h
  · cases h

theorem forestLabels_nil (nodes : List Nat) : forestLabels nodes [] = some (nodes.map (fun x => (x, x))) := by
  simp [forestLabels]

theorem isForest_nil (g : Graph) : isForest g [] = true := by
  simp [isForest, forestLabels_nil]

theorem isSpanningForest_isForest {g : Graph} {T : List Edge} (h : isSpanningForest g T = true) :
    isForest g T = true := by
  unfold isSpanningForest at h
  unfold isForest
  cases hq : forestLabels g.nodes T with
  | none => simp [hq] at h
  | some lab => rfl

/-- an initial segment of a forest is a forest -/
theorem forestLabels_some_of_prefix {nodes : List Nat} {T1 T2 : List Edge}
    (h : (forestLabels nodes (T1 ++ T2)).isSome = true) : (forestLabels nodes T1).isSome = true := by
  unfold forestLabels at h ⊢
  rw [List.foldlM_append] at h
  cases hq : List.foldlM (fun (lab : List (Nat × Nat)) (e : Edge) =>
      let lu := (lab.lookup e.u).getD e.u
      let lv := (lab.lookup e.v).getD e.v
      if lu == lv then none
      else some (lab.map (fun (x, l) => (x, if l == lv then lu else l)))) (nodes.map (fun x => (x, x))) T1 with
  | none => rw [hq] at h; simp at h
  | some lab => rfl


theorem edge?_spec {g : Graph} {id : Nat} {e : Edge} (h : g.edge? id = some e) : e ∈ g.edges ∧ e.id = id := by
  unfold Graph.edge? at h
  refine ⟨List.mem_of_find?_eq_some h, ?_⟩
  have := List.find?_some h
  simpa using this

/-- `edgesOf` resolves ids position by position to edges of the graph carrying those ids -/
theorem edgesOf_spec {g : Graph} {ids : List Nat} {T : List Edge} (h : g.edgesOf ids = some T) :
    T.length = ids.length ∧ ∀ i (hi : i < ids.length) (hi' : i < T.length), T[i] ∈ g.edges ∧ (T[i]).id = ids[i] := by
  unfold Graph.edgesOf at h
  obtain ⟨hl, he⟩ := mapM_option_spec _ h
  refine ⟨hl, ?_⟩
  intro i hi hi'
  have := he i hi
  rw [List.getElem?_eq_getElem hi'] at this
  exact edge?_spec this

/-- verdicts of the certificate checker can be compared by `decide` (used by the closing examples of C05/C06/C14) -/
instance exceptUnitDecEq : DecidableEq (Except String Unit)
  | .ok (), .ok () => isTrue rfl
  | .ok (), .error _ => isFalse (by intro h; cases h)
  | .error _, .ok () => isFalse (by intro h; cases h)
  | .error a, .error b =>
    if h : a = b then isTrue (by rw [h]) else isFalse (by intro h'; cases h'; exact h rfl)

/-- The certificate checker accepts exactly when: sizes fit, `forest ++ coforest` lists every edge id of `g` exactly once,
both lists resolve to edges, the forest edges are a spanning forest, and the fundamental-cycle matrix is `M`. -/
theorem checkGraphCert_ok_iff (m n : Nat) (M : Mat) (g : Graph) (forest coforest : List Nat) (signed : Bool) :
    checkGraphCert m n M g forest coforest signed = .ok () ↔
      forest.length = m ∧ coforest.length = n ∧ (forest ++ coforest).Nodup ∧
      (∀ e ∈ g.edges, e.id ∈ forest ++ coforest) ∧ (forest ++ coforest).length = g.edges.length ∧
      ∃ T coT, g.edgesOf forest = some T ∧ g.edgesOf coforest = some coT ∧ isSpanningForest g T = true ∧
        cycleMatrix T coT signed = some M := by
  unfold checkGraphCert
  constructor
  · intro h
    split at h
    · cases h
    rename_i h1
    split at h
    · cases h
    rename_i h2
    simp only at h
    split at h
    · cases h
    rename_i h3
    split at h
    · cases h
    rename_i h4
    split at h
    · rename_i T coT hT hcoT
      split at h
      · cases h
      rename_i h5
      split at h
      · cases h
      rename_i C hC
      split at h
      · rename_i hCM
        have hCM : C = M := by simpa using hCM
        subst hCM
        refine ⟨by simpa using h1, by simpa using h2, by simpa using h3, ?_, ?_, T, coT, hT, hcoT, by simpa using h5, hC⟩
        · simp only [Bool.or_eq_true, Bool.not_eq_true', not_or] at h4
          have := h4.1
          simp only [Bool.not_eq_false, List.all_eq_true] at this
          intro e he
          simpa using this e he
        · simp only [Bool.or_eq_true, Bool.not_eq_true', not_or] at h4
          simpa using h4.2
      · cases h
    · cases h
  · rintro ⟨h1, h2, h3, h4, h5, T, coT, hT, hcoT, hsp, hC⟩
    have h4' : (g.edges.all (fun e => (forest ++ coforest).contains e.id)) = true := by
      rw [List.all_eq_true]; intro e he; simpa using h4 e he
    simp [h1, h2, h3, h4', h5, hT, hcoT, hsp, hC]
    intro x hx hn
    rcases List.mem_append.mp (h4 x hx) with h | h
    · exact absurd h hn
    · exact h

/-- component label of `x` in a labelling -/
def lbl (lab : List (Nat × Nat)) (x : Nat) : Nat := (lab.lookup x).getD x

/-- replace label `a` by label `b` -/
def relabel (a b : Nat) (lab : List (Nat × Nat)) : List (Nat × Nat) :=
  lab.map (fun (x, l) => (x, if l == a then b else l))

/-- one step of `forestLabels` -/
def forestStep (lab : List (Nat × Nat)) (e : Edge) : Option (List (Nat × Nat)) :=
  if lbl lab e.u == lbl lab e.v then none else some (relabel (lbl lab e.v) (lbl lab e.u) lab)

theorem forestLabels_eq (nodes : List Nat) (T : List Edge) :
    forestLabels nodes T = T.foldlM forestStep (nodes.map (fun x => (x, x))) := rfl

theorem lookup_relabel (a b : Nat) (lab : List (Nat × Nat)) (x : Nat) :
    (relabel a b lab).lookup x = (lab.lookup x).map (fun l => if l == a then b else l) := by
  induction lab with
  | nil => simp [relabel]
  | cons y lab ih =>
    obtain ⟨k, l⟩ := y
    unfold relabel at ih ⊢
    simp only [List.map_cons, List.lookup_cons]
    by_cases hk : x = k
    · subst hk; simp
    · have : (x == k) = false := by simpa using hk
      simp only [this]
      exact ih

theorem lbl_relabel {a b : Nat} {lab : List (Nat × Nat)} {x : Nat} (h : (lab.lookup x).isSome = true) :
    lbl (relabel a b lab) x = if lbl lab x == a then b else lbl lab x := by
  obtain ⟨l, hl⟩ := Option.isSome_iff_exists.mp h
  simp [lbl, lookup_relabel, hl]

theorem lookup_init (nodes : List Nat) (x : Nat) (h : x ∈ nodes) :
    ((nodes.map (fun x => (x, x))).lookup x).isSome = true := by
  induction nodes with
  | nil => simp at h
  | cons y nodes ih =>
    simp only [List.map_cons, List.lookup_cons]
    by_cases hk : x = y
    · subst hk; simp
    · have : (x == y) = false := by simpa using hk
      rcases List.mem_cons.mp h with h | h
      · exact absurd h hk
      · simp [this, ih h]

theorem forest_sublist_aux {nodes : List Nat} {T' T : List Edge} (hs : T'.Sublist T) :
    ∀ (lab' lab : List (Nat × Nat)),
      (∀ x ∈ nodes, (lab'.lookup x).isSome = true) → (∀ x ∈ nodes, (lab.lookup x).isSome = true) →
      (∀ x ∈ nodes, ∀ y ∈ nodes, lbl lab' x = lbl lab' y → lbl lab x = lbl lab y) →
      (∀ e ∈ T, e.u ∈ nodes ∧ e.v ∈ nodes) →
      (T.foldlM forestStep lab).isSome = true → (T'.foldlM forestStep lab').isSome = true := by
  induction hs with
  | slnil => intro lab' lab _ _ _ _ _; simp
  | @cons T' T e hs ih =>
    intro lab' lab hk' hk hr he h
    rw [List.foldlM_cons] at h
    have heu := (he e List.mem_cons_self).1
    have hev := (he e List.mem_cons_self).2
    cases hq : forestStep lab e with
    | none => simp [hq] at h
    | some lab2 =>
      simp only [hq, Option.bind_eq_bind, Option.bind_some] at h
      unfold forestStep at hq
      split at hq
      · cases hq
      · simp only [Option.some.injEq] at hq
        subst hq
        refine ih lab' _ hk' ?_ ?_ (fun e' h' => he e' (List.mem_cons_of_mem _ h')) h
        · intro x hx; rw [lookup_relabel]; simp [hk x hx]
        · intro x hx y hy hxy
          rw [lbl_relabel (hk x hx), lbl_relabel (hk y hy), hr x hx y hy hxy]
  | @cons_cons T' T e hs ih =>
    intro lab' lab hk' hk hr he h
    rw [List.foldlM_cons] at h ⊢
    have heu := (he e List.mem_cons_self).1
    have hev := (he e List.mem_cons_self).2
    cases hq : forestStep lab e with
    | none => simp [hq] at h
    | some lab2 =>
      simp only [hq, Option.bind_eq_bind, Option.bind_some] at h
      unfold forestStep at hq
      split at hq
      · cases hq
      · rename_i hne
        simp only [Option.some.injEq] at hq
        subst hq
        have hne : lbl lab e.u ≠ lbl lab e.v := by simpa using hne
        have hne' : lbl lab' e.u ≠ lbl lab' e.v := fun h' => hne (hr _ heu _ hev h')
        have hq' : forestStep lab' e = some (relabel (lbl lab' e.v) (lbl lab' e.u) lab') := by
          unfold forestStep; simp [hne']
        simp only [hq', Option.bind_eq_bind, Option.bind_some]
        refine ih _ _ ?_ ?_ ?_ (fun e' h' => he e' (List.mem_cons_of_mem _ h')) h
        · intro x hx; rw [lookup_relabel]; simp [hk' x hx]
        · intro x hx; rw [lookup_relabel]; simp [hk x hx]
        · intro x hx y hy hxy
          rw [lbl_relabel (hk' x hx), lbl_relabel (hk' y hy)] at hxy
          rw [lbl_relabel (hk x hx), lbl_relabel (hk y hy)]
          by_cases h1 : lbl lab' x = lbl lab' e.v <;> by_cases h2 : lbl lab' y = lbl lab' e.v
          · rw [hr x hx _ hev h1, hr y hy _ hev h2]
          · simp [h1, h2] at hxy
            have e1 := hr x hx _ hev h1
            have e2 := hr y hy _ heu hxy.symm
            simp [e1, e2]
          · simp [h1, h2] at hxy
            have e1 := hr x hx _ heu hxy
            have e2 := hr y hy _ hev h2
            simp [e1, e2]
          · simp [h1, h2] at hxy
            rw [hr x hx y hy hxy]

/-- A sublist of a forest is a forest, provided all end nodes are nodes of the graph.  (Without the side condition the
statement is false for this union-find model: unknown nodes act as their own labels, see the example below.) -/
theorem forestLabels_some_of_sublist {nodes : List Nat} {T' T : List Edge} (hs : T'.Sublist T)
    (he : ∀ e ∈ T, e.u ∈ nodes ∧ e.v ∈ nodes) (h : (forestLabels nodes T).isSome = true) :
    (forestLabels nodes T').isSome = true := by
  rw [forestLabels_eq] at h ⊢
  exact forest_sublist_aux hs _ _ (lookup_init nodes) (lookup_init nodes) (fun _ _ _ _ h => h) he h

/-- the side condition cannot be dropped: with node list `[1]`, the edges `5–1, 7–5, 1–5` are accepted but the sublist
`5–1, 1–5` is rejected -/
example : (forestLabels [1] [⟨0, 5, 1, false⟩, ⟨1, 7, 5, false⟩, ⟨2, 1, 5, false⟩]).isSome = true ∧
    (forestLabels [1] [⟨0, 5, 1, false⟩, ⟨2, 1, 5, false⟩]).isSome = false := by decide

theorem isSpanningForest_nodes {g : Graph} {T : List Edge} (h : isSpanningForest g T = true) :
    ∀ e ∈ T, e.u ∈ g.nodes ∧ e.v ∈ g.nodes := by
  unfold isSpanningForest at h
  cases hq : forestLabels g.nodes T with
  | none => simp [hq] at h
  | some lab =>
    simp only [hq, Bool.and_eq_true, List.all_eq_true] at h
    intro e he
    have := h.2 e he
    simpa using this

/-- every sublist of a spanning forest is a forest -/
theorem isForest_of_sublist_spanning {g : Graph} {T' T : List Edge} (hs : T'.Sublist T)
    (h : isSpanningForest g T = true) : isForest g T' = true :=
  forestLabels_some_of_sublist hs (isSpanningForest_nodes h) (isSpanningForest_isForest h)

end Cmr
