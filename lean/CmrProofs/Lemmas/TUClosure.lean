/-
  F3 — closure facts about the TU oracle, transported from Mathlib through `isTU_iff`.
-/
import CmrProofs.Lemmas.DetBridge

set_option linter.unusedSimpArgs false
set_option linter.unusedVariables false

namespace Cmr
open Matrix

/-- `sub M rs cs` as a Mathlib submatrix along index maps into range. -/
theorem toMx_sub {m n : Nat} (M : Mat) (rs cs : List Nat) (hr : ∀ x ∈ rs, x < m) (hc : ∀ x ∈ cs, x < n) :
    toMx rs.length cs.length (sub M rs cs) =
      (toMx m n M).submatrix (fun i : Fin rs.length => ⟨rs[i.val], hr _ (List.getElem_mem i.isLt)⟩)
        (fun j : Fin cs.length => ⟨cs[j.val], hc _ (List.getElem_mem j.isLt)⟩) := by
  ext i j
  simp only [toMx, Matrix.submatrix_apply]
  rw [ent_sub M rs cs i.isLt j.isLt]

/-- TU is inherited by every submatrix given by arbitrary index lists (repetitions and any order allowed). -/
theorem isTU_sub {m n : Nat} (M : Mat) (h : isTU m n M = true) (rs cs : List Nat)
    (hr : ∀ x ∈ rs, x < m) (hc : ∀ x ∈ cs, x < n) :
    isTU rs.length cs.length (sub M rs cs) = true := by
  rw [isTU_iff] at h ⊢
  rw [toMx_sub M rs cs hr hc]
  exact h.submatrix _ _

/-- The determinant of a square submatrix of a TU matrix along duplicate-free index lists is −1, 0 or 1. -/
theorem detOk_of_isTU {m n : Nat} (M : Mat) (h : isTU m n M = true) (rs cs : List Nat)
    (hl : rs.length = cs.length) (hr : ∀ x ∈ rs, x < m) (hc : ∀ x ∈ cs, x < n)
    (hnr : rs.Nodup) (hnc : cs.Nodup) :
    detOk (detL rs.length (sub M rs cs)) = true := by
  rw [isTU_iff] at h
  rw [detOk_iff, detL_eq_det]
  have key := h rs.length (fun i : Fin rs.length => ⟨rs[i.val], hr _ (List.getElem_mem i.isLt)⟩)
    (fun j : Fin rs.length => ⟨cs[j.val]'(by rw [← hl]; exact j.isLt), hc _ (List.getElem_mem _)⟩)
    (by
      intro a b hab
      simp only [Fin.mk.injEq] at hab
      exact Fin.ext ((List.Nodup.getElem_inj_iff hnr).mp hab))
    (by
      intro a b hab
      simp only [Fin.mk.injEq] at hab
      exact Fin.ext ((List.Nodup.getElem_inj_iff hnc).mp hab))
  convert key using 2
  ext i j
  simp only [toMx, Matrix.submatrix_apply]
  rw [ent_sub M rs cs i.isLt (by rw [← hl]; exact j.isLt)]

theorem isTU_transpose (m n : Nat) (M : Mat) : isTU n m (transpose m n M) = isTU m n M := by
  have key : toMx n m (transpose m n M) = (toMx m n M).transpose := by
    ext i j
    simp [toMx, transpose, ent_ofFn _ i.isLt j.isLt, Matrix.transpose_apply]
  have h1 := isTU_iff n m (transpose m n M)
  have h2 := isTU_iff m n M
  rw [key, Matrix.transpose_isTotallyUnimodular_iff] at h1
  cases ha : isTU n m (transpose m n M) <;> cases hb : isTU m n M <;> simp_all

/-- An entry outside {-1,0,1} refutes total unimodularity (a 1×1 minor). -/
theorem isTU_entry {m n : Nat} (M : Mat) (h : isTU m n M = true) {i j : Nat} (hi : i < m) (hj : j < n) :
    isTernaryEntry (ent M i j) = true := by
  have := detOk_of_isTU M h [i] [j] rfl (by simpa using hi) (by simpa using hj) (by simp) (by simp)
  simp only [List.length_singleton, detL, sub, List.map, List.range_one, List.foldl, ent] at this
  simp [detL, List.range_zero, ent] at this
  simp only [isTernaryEntry]
  simp only [detOk] at this
  simpa [ent] using this

end Cmr
