import CmrProofs.Work4.GraSums

set_option linter.unusedSimpArgs false
set_option linter.unusedVariables false

namespace Cmr.Props.C10GraphicSums
open Cmr Cmr.GraStep Cmr.GraSum Cmr.Props.C10Graphic

/-! ## 0. The table entries -/

theorem sumRel_gra_net :
    sumRel "1" 2 .gra = .both ∧ sumRel "1" 3 .net = .both ∧ (∀ ch, sumRel "1" ch .gra = .both) ∧
    (∀ ch, sumRel "1" ch .net = .both) ∧ sumRel "2" 2 .gra = .closed ∧ sumRel "2" 3 .net = .closed := by
  refine ⟨by decide, by decide, fun _ => rfl, fun _ => rfl, by decide, by decide⟩

/-! ## 1. 1-sums -/

/-- **Block-diagonal matrices**, both oracles at once (`orc true = isNetwork`, `orc false = isGraphic`). -/
theorem blockDiag_orc {signed : Bool} {m1 n1 m2 n2 : Nat} {A B : Mat} (hA : A.wf m1 n1 = true) (hB : B.wf m2 n2 = true) :
    orc signed (m1 + m2) (n1 + n2) (blockMat m1 n1 m2 n2 (fun i j => ent A i j) (fun _ _ => 0) (fun _ _ => 0)
      (fun i j => ent B i j)) = true ↔ orc signed m1 n1 A = true ∧ orc signed m2 n2 B = true := by
  have hwf := Cmr.blockMat_wf m1 n1 m2 n2 (fun i j => ent A i j) (fun _ _ => 0) (fun _ _ => 0) (fun i j => ent B i j)
  constructor
  · intro h
    constructor
    · have := orc_S hwf (rows := List.range m1) (cols := List.range n1) List.nodup_range
        (by intro x hx; simp at hx; omega) (by intro x hx; simp at hx; omega) h
      rw [List.length_range, List.length_range] at this
      have e : sub (blockMat m1 n1 m2 n2 (fun i j => ent A i j) (fun _ _ => 0) (fun _ _ => 0)
          (fun i j => ent B i j)) (List.range m1) (List.range n1) = A := by
        have hw := wf_sub (blockMat m1 n1 m2 n2 (fun i j => ent A i j) (fun _ _ => 0) (fun _ _ => 0)
          (fun i j => ent B i j)) (List.range m1) (List.range n1)
        simp only [List.length_range] at hw
        apply mat_ext hw hA
        intro i hi j hj
        rw [ent_sub _ _ _ (by simpa using hi) (by simpa using hj)]
        simp only [List.getElem_range]
        exact ent_blockMat_tl _ _ _ _ _ _ _ _ hi hj
      rwa [e] at this
    · have := orc_S hwf (rows := (List.range m2).map (m1 + ·)) (cols := (List.range n2).map (n1 + ·))
        (List.nodup_range.map (fun a b h => by simpa using h))
        (by intro x hx; simp at hx; omega) (by intro x hx; simp at hx; omega) h
      rw [List.length_map, List.length_range, List.length_map, List.length_range] at this
      have e : sub (blockMat m1 n1 m2 n2 (fun i j => ent A i j) (fun _ _ => 0) (fun _ _ => 0)
          (fun i j => ent B i j)) ((List.range m2).map (m1 + ·)) ((List.range n2).map (n1 + ·)) = B := by
        have hw := wf_sub (blockMat m1 n1 m2 n2 (fun i j => ent A i j) (fun _ _ => 0) (fun _ _ => 0)
          (fun i j => ent B i j)) ((List.range m2).map (m1 + ·)) ((List.range n2).map (n1 + ·))
        simp only [List.length_range, List.length_map] at hw
        apply mat_ext hw hB
        intro i hi j hj
        rw [ent_sub _ _ _ (by simpa using hi) (by simpa using hj)]
        simp only [List.getElem_map, List.getElem_range]
        exact ent_blockMat_br _ _ _ _ _ _ _ _ hi hj
      rwa [e] at this
  · rintro ⟨h1, h2⟩
    exact (orc_iff_realises hwf).mpr
      (realises_blockDiag ((orc_iff_realises hA).mp h1) ((orc_iff_realises hB).mp h2))

/-- **1-sum of any number of matrices** (`compose1` itself): the oracle accepts the result iff it accepts every summand. -/
theorem compose1_orc_list {signed : Bool} (l : List (Nat × Nat × Mat)) (hwf : ∀ x ∈ l, x.2.2.wf x.1 x.2.1 = true) :
    orc signed (compose1 l).1 (compose1 l).2.1 (compose1 l).2.2 = true ↔ ∀ x ∈ l, orc signed x.1 x.2.1 x.2.2 = true := by
  induction l with
  | nil => simp [compose1]; cases signed <;> decide
  | cons x rest ih =>
    obtain ⟨m, n, A⟩ := x
    have hA : A.wf m n = true := hwf (m, n, A) (List.mem_cons_self)
    have hrest : ∀ x ∈ rest, x.2.2.wf x.1 x.2.1 = true := fun x hx => hwf x (List.mem_cons_of_mem _ hx)
    simp only [compose1, List.mem_cons, forall_eq_or_imp]
    rw [← ih hrest]
    exact blockDiag_orc hA (C12.compose1_wf rest)

theorem compose1_gra_list (l : List (Nat × Nat × Mat)) (hwf : ∀ x ∈ l, x.2.2.wf x.1 x.2.1 = true) :
    isGraphic (compose1 l).1 (compose1 l).2.1 (compose1 l).2.2 = true ↔ ∀ x ∈ l, isGraphic x.1 x.2.1 x.2.2 = true :=
  compose1_orc_list (signed := false) l hwf

theorem compose1_net_list (l : List (Nat × Nat × Mat)) (hwf : ∀ x ∈ l, x.2.2.wf x.1 x.2.1 = true) :
    isNetwork (compose1 l).1 (compose1 l).2.1 (compose1 l).2.2 = true ↔ ∀ x ∈ l, isNetwork x.1 x.2.1 x.2.2 = true :=
  compose1_orc_list (signed := true) l hwf

/-- **1-sum, `gra`**: the model's `compose1` of two matrices is graphic iff both summands are. -/
theorem sum1_gra (m1 n1 : Nat) (A : Mat) (m2 n2 : Nat) (B : Mat) (hA : A.wf m1 n1 = true) (hB : B.wf m2 n2 = true) :
    isGraphic (compose1 [(m1, n1, A), (m2, n2, B)]).1 (compose1 [(m1, n1, A), (m2, n2, B)]).2.1
        (compose1 [(m1, n1, A), (m2, n2, B)]).2.2 = true ↔
      isGraphic m1 n1 A = true ∧ isGraphic m2 n2 B = true := by
  rw [compose1_gra_list _ (by intro x hx; simp at hx; rcases hx with rfl | rfl <;> assumption)]
  simp

/-- **1-sum, `net`**: the model's `compose1` of two matrices is a network matrix iff both summands are. -/
theorem sum1_net (m1 n1 : Nat) (A : Mat) (m2 n2 : Nat) (B : Mat) (hA : A.wf m1 n1 = true) (hB : B.wf m2 n2 = true) :
    isNetwork (compose1 [(m1, n1, A), (m2, n2, B)]).1 (compose1 [(m1, n1, A), (m2, n2, B)]).2.1
        (compose1 [(m1, n1, A), (m2, n2, B)]).2.2 = true ↔
      isNetwork m1 n1 A = true ∧ isNetwork m2 n2 B = true := by
  rw [compose1_net_list _ (by intro x hx; simp at hx; rcases hx with rfl | rfl <;> assumption)]
  simp

/-! ## 3. Non-vacuity and worked instances -/

/-- a 1-sum evaluated by the oracles directly -/
example : (compose1 [(2, 2, [[1, 1], [1, 0]]), (1, 1, [[1]])]) = (3, 3, [[1, 1, 0], [1, 0, 0], [0, 0, 1]]) ∧
    isGraphic 3 3 [[1, 1, 0], [1, 0, 0], [0, 0, 1]] = true ∧
    isGraphic 2 2 [[1, 1], [1, 0]] = true ∧ isGraphic 1 1 [[1]] = true := by decide

example : (compose1 [(2, 2, [[1, -1], [0, 1]]), (1, 2, [[-1, 1]])]) = (3, 4, [[1, -1, 0, 0], [0, 1, 0, 0], [0, 0, -1, 1]]) ∧
    isNetwork 3 4 [[1, -1, 0, 0], [0, 1, 0, 0], [0, 0, -1, 1]] = true ∧
    isNetwork 2 2 [[1, -1], [0, 1]] = true ∧ isNetwork 1 2 [[-1, 1]] = true := by decide

/-- `⇐` applied: the verdict on the sum from the verdicts on the summands -/
example : isGraphic 6 6 (compose1 [(3, 3, [[1, 1, 0], [1, 0, 1], [0, 1, 1]]), (3, 3, [[1, 1, 0], [1, 0, 1], [0, 1, 1]])]).2.2 = true :=
  (sum1_gra 3 3 _ 3 3 _ (by decide) (by decide)).mpr (by decide)

/-- `⇒` used contrapositively: the Fano matrix is not graphic, so no 1-sum with it is -/
example : isGraphic (compose1 [(3, 4, [[1, 1, 0, 1], [1, 0, 1, 1], [0, 1, 1, 1]]), (1, 1, [[1]])]).1
    (compose1 [(3, 4, [[1, 1, 0, 1], [1, 0, 1, 1], [0, 1, 1, 1]]), (1, 1, [[1]])]).2.1
    (compose1 [(3, 4, [[1, 1, 0, 1], [1, 0, 1, 1], [0, 1, 1, 1]]), (1, 1, [[1]])]).2.2 = false := by
  rw [Bool.eq_false_iff, Ne, sum1_gra 3 4 _ 1 1 _ (by decide) (by decide)]
  decide

/-- the same for `net`: `[[1,1],[1,-1]]` is not a network matrix -/
example : isNetwork (compose1 [(1, 1, [[-1]]), (2, 2, [[1, 1], [1, -1]])]).1 (compose1 [(1, 1, [[-1]]), (2, 2, [[1, 1], [1, -1]])]).2.1
    (compose1 [(1, 1, [[-1]]), (2, 2, [[1, 1], [1, -1]])]).2.2 = false := by
  rw [Bool.eq_false_iff, Ne, sum1_net 1 1 _ 2 2 _ (by decide) (by decide)]
  decide

/-- the 2-sum entries are claimed in one characteristic only -/
example : sumRel "2" 3 .gra = .none ∧ sumRel "2" 2 .net = .none := by decide

#print axioms sum1_gra
#print axioms sum1_net
#print axioms compose1_orc_list
#print axioms sumRel_gra_net

end Cmr.Props.C10GraphicSums
