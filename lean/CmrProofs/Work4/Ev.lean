import CmrProofs.Props.C12
open Cmr
#eval (match compose2a 2 3 3 [[1, 1, 0], [1, 0, 1], [0, 1, 1]] 2 2 [[1, 1], [1, 0]] 2 0 with | .ok P => P | .error _ => [])
#eval (match compose2a 3 3 2 [[-1, 1], [1, 0], [0, -1]] 2 2 [[1, -1], [0, 1]] 0 0 with | .ok P => P | .error _ => [])
#eval (match compose2b 2 3 3 [[1, 1, 0], [1, 0, 1], [0, 1, 1]] 2 2 [[1, 1], [0, 1]] 2 0 with | .ok P => P | .error _ => [])
#eval (match compose2b 3 3 2 [[-1, 1], [1, 0], [0, -1]] 2 2 [[1, -1], [0, 1]] 1 0 with | .ok P => P | .error _ => [])
#check @C12.okEq
