/-
  Property C13 — pivots equal field arithmetic (up to line negation).

  Model: `Cmr/Pivot.lean` (`pivot2`, `pivot3` in the library's sign convention, `exchange2/3` = textbook basis
  exchange, `pivots2/3` = left fold, `regularPivot`).
  Tie: op `pivot` — exact equality of `CMRchrmat{Binary,Ternary,Regular}Pivot(s)` with the model on all pivot
  positions (zero and nonzero) of exhaustive small domains and on seeded sequences.
-/
import CmrProofs.Lemmas.MatBasic
import Cmr.Pivot

set_option linter.unusedSimpArgs false
set_option linter.unusedVariables false

namespace Cmr.Props.C13
open Cmr

theorem mod3_cases (x : Int) : mod3 x = 0 ∨ mod3 x = 1 ∨ mod3 x = -1 := by
  simp only [mod3]
  by_cases h : x % 3 = 2 <;> simp [h] <;> omega

theorem mod2_cases (x : Int) : mod2 x = 0 ∨ mod2 x = 1 := by
  unfold mod2; omega

theorem pivot_wf2 (m n : Nat) (M : Mat) (r c : Nat) : (pivot2 m n M r c).wf m n = true := wf_ofFn _ _ _
theorem pivot_wf3 (m n : Nat) (M : Mat) (r c : Nat) : (pivot3 m n M r c).wf m n = true := wf_ofFn _ _ _

/-- Results of pivots are matrices over the field's representatives. -/
theorem pivot2_binary (m n : Nat) (M : Mat) (r c : Nat) : isBinary (pivot2 m n M r c) = true :=
  isBinary_ofFn (fun _ _ _ _ => mod2_cases _)

theorem pivot3_ternary (m n : Nat) (M : Mat) (r c : Nat) : isTernary (pivot3 m n M r c) = true :=
  isTernary_ofFn (fun _ _ _ _ => mod3_cases _)

/-- A binary pivot on a 1-entry is exactly the GF(2) basis exchange. -/
theorem pivot2_eq_exchange2 (m n : Nat) (M : Mat) (hwf : M.wf m n = true) (hb : isBinary M = true)
    (r c : Nat) (hr : r < m) (hc : c < n) (hp : ent M r c = 1) :
    pivot2 m n M r c = exchange2 m n M r c := by
  unfold pivot2 exchange2
  apply ofFn_congr
  intro i hi j hj
  have e1 := ent_binary hwf hb hi hj
  have e2 := ent_binary hwf hb hi hc
  have e3 := ent_binary hwf hb hr hj
  unfold pivotRaw mod2
  by_cases h1 : i = r <;> by_cases h2 : j = c <;> simp [h1, h2, hp] <;>
    rcases e1 with e1 | e1 <;> rcases e2 with e2 | e2 <;> rcases e3 with e3 | e3 <;> simp_all

/-- The binary pivot is an involution. -/
theorem pivot2_involutive (m n : Nat) (M : Mat) (hwf : M.wf m n = true) (hb : isBinary M = true)
    (r c : Nat) (hr : r < m) (hc : c < n) (hp : ent M r c = 1) :
    pivot2 m n (pivot2 m n M r c) r c = M := by
  apply mat_ext (pivot_wf2 _ _ _ _ _) hwf
  intro i hi j hj
  have e1 := ent_binary hwf hb hi hj
  have e2 := ent_binary hwf hb hi hc
  have e3 := ent_binary hwf hb hr hj
  simp only [pivot2, ent_ofFn _ hi hj]
  unfold pivotRaw
  simp only [ent_ofFn _ hr hc, ent_ofFn _ hi hj, ent_ofFn _ hi hc, ent_ofFn _ hr hj]
  unfold mod2
  by_cases h1 : i = r <;> by_cases h2 : j = c <;> simp [h1, h2, hp] <;>
    rcases e1 with e1 | e1 <;> rcases e2 with e2 | e2 <;> rcases e3 with e3 | e3 <;> simp_all

/-- The ternary pivot is the GF(3) basis exchange with the pivot column negated. -/
theorem pivot3_eq_exchange3_negCol (m n : Nat) (M : Mat) (hwf : M.wf m n = true) (ht : isTernary M = true)
    (r c : Nat) (hr : r < m) (hc : c < n) (hp : ent M r c ≠ 0) :
    pivot3 m n M r c = Mat.ofFn m n (fun i j => if j == c then mod3 (-(ent (exchange3 m n M r c) i j))
                                                 else ent (exchange3 m n M r c) i j) := by
  unfold pivot3
  apply ofFn_congr
  intro i hi j hj
  have e0 := ent_ternary hwf ht hr hc
  have e1 := ent_ternary hwf ht hi hj
  have e2 := ent_ternary hwf ht hi hc
  have e3 := ent_ternary hwf ht hr hj
  simp only [exchange3, ent_ofFn _ hi hj]
  unfold pivotRaw
  by_cases h1 : i = r <;> by_cases h2 : j = c <;> simp [h1, h2] <;>
    rcases e0 with e0 | e0 | e0 <;> rcases e1 with e1 | e1 | e1 <;> rcases e2 with e2 | e2 | e2 <;>
    rcases e3 with e3 | e3 | e3 <;> simp_all [mod3] <;> decide

/-- Pivoting twice on the same entry restores the matrix up to negating the pivot row and the pivot column. -/
theorem pivot3_twice (m n : Nat) (M : Mat) (hwf : M.wf m n = true) (ht : isTernary M = true)
    (r c : Nat) (hr : r < m) (hc : c < n) (hp : ent M r c ≠ 0) :
    pivot3 m n (pivot3 m n M r c) r c =
      Mat.ofFn m n (fun i j => if i == r then (if j == c then ent M i j else -(ent M i j))
                               else (if j == c then -(ent M i j) else ent M i j)) := by
  unfold pivot3
  apply ofFn_congr
  intro i hi j hj
  have e0 := ent_ternary hwf ht hr hc
  have e1 := ent_ternary hwf ht hi hj
  have e2 := ent_ternary hwf ht hi hc
  have e3 := ent_ternary hwf ht hr hj
  unfold pivotRaw
  simp only [ent_ofFn _ hr hc, ent_ofFn _ hi hj, ent_ofFn _ hi hc, ent_ofFn _ hr hj]
  by_cases h1 : i = r <;> by_cases h2 : j = c <;> simp [h1, h2] <;>
    rcases e0 with e0 | e0 | e0 <;> rcases e1 with e1 | e1 | e1 <;> rcases e2 with e2 | e2 | e2 <;>
    rcases e3 with e3 | e3 | e3 <;> simp_all [mod3] <;> decide

/-- A pivot sequence is the pivots applied one by one (and is rejected as soon as a pivot entry is zero). -/
theorem pivots3_cons (m n : Nat) (M : Mat) (r c : Nat) (ps : List (Nat × Nat)) :
    pivots3 m n M ((r, c) :: ps) =
      if pivotOk3 m n M r c then pivots3 m n (pivot3 m n M r c) ps else none := rfl

theorem pivots2_cons (m n : Nat) (M : Mat) (r c : Nat) (ps : List (Nat × Nat)) :
    pivots2 m n M ((r, c) :: ps) =
      if pivotOk2 m n M r c then pivots2 m n (pivot2 m n M r c) ps else none := rfl

/-- A zero (or out-of-range) pivot entry is rejected. -/
theorem zero_pivot_rejected3 (m n : Nat) (M : Mat) (r c : Nat) (ps : List (Nat × Nat)) (h : ent M r c = 0) :
    pivots3 m n M ((r, c) :: ps) = none := by
  simp [pivots3, pivotOk3, h, mod3]

theorem zero_pivot_rejected2 (m n : Nat) (M : Mat) (r c : Nat) (ps : List (Nat × Nat)) (h : ent M r c = 0) :
    pivots2 m n M ((r, c) :: ps) = none := by
  simp [pivots2, pivotOk2, h, mod2]

theorem firstNonTernary_none (m n : Nat) (R : Mat) :
    firstNonTernary m n R = none ↔ ∀ i, i < m → ∀ j, j < n → isTernaryEntry (ent R i j) = true := by
  unfold firstNonTernary
  simp only [List.findSome?_eq_none_iff, List.mem_range]
  constructor
  · intro h i hi j hj
    have := h i hi j hj
    by_cases ht : isTernaryEntry (ent R i j) = true
    · exact ht
    · simp [ht] at this
  · intro h i hi j hj
    simp [h i hi j hj]

theorem firstNonTernary_some (m n : Nat) (R : Mat) (i j : Nat) (h : firstNonTernary m n R = some (i, j)) :
    i < m ∧ j < n ∧ isTernaryEntry (ent R i j) = false := by
  unfold firstNonTernary at h
  obtain ⟨i', hi', h2⟩ := List.exists_of_findSome?_eq_some h
  obtain ⟨j', hj', h3⟩ := List.exists_of_findSome?_eq_some h2
  by_cases ht : isTernaryEntry (ent R i' j') = true
  · simp [ht] at h3
  · simp only [ht] at h3
    simp at h3
    obtain ⟨rfl, rfl⟩ := h3
    exact ⟨List.mem_range.mp hi', List.mem_range.mp hj', by simpa using ht⟩

/-- The regular pivot returns a matrix exactly when every entry of the rational pivot stays in {-1,0,1} … -/
theorem regularPivot_mat_iff (m n : Nat) (M : Mat) (r c : Nat) (hr : r < m) (hc : c < n)
    (hp : ent M r c = 1 ∨ ent M r c = -1) :
    (∃ R, regularPivot m n M r c = .mat R) ↔
      ∀ i, i < m → ∀ j, j < n → isTernaryEntry (pivotRaw M r c i j) = true := by
  have hcond : (!(decide (r < m) && decide (c < n) && (ent M r c == 1 || ent M r c == -1))) = false := by
    rcases hp with h | h <;> simp [hr, hc, h]
  unfold regularPivot
  rw [hcond]
  simp only [Bool.false_eq_true, if_false]
  constructor
  · rintro ⟨R, hR⟩
    cases hq : firstNonTernary m n (pivotRawMat m n M r c) with
    | none =>
      intro i hi j hj
      have := (firstNonTernary_none m n _).mp hq i hi j hj
      simpa [pivotRawMat, ent_ofFn _ hi hj] using this
    | some p => obtain ⟨a, b⟩ := p; simp [hq] at hR
  · intro h
    have : firstNonTernary m n (pivotRawMat m n M r c) = none := by
      rw [firstNonTernary_none]
      intro i hi j hj
      simpa [pivotRawMat, ent_ofFn _ hi hj] using h i hi j hj
    exact ⟨pivotRawMat m n M r c, by simp [this]⟩

/-- … in which case it coincides with the GF(3) pivot (no reduction happened) … -/
theorem regularPivot_mat_eq_pivot3 (m n : Nat) (M : Mat) (r c : Nat) (R : Mat)
    (h : regularPivot m n M r c = .mat R) : R = pivot3 m n M r c := by
  unfold regularPivot at h
  split at h
  · cases h
  · cases hq : firstNonTernary m n (pivotRawMat m n M r c) with
    | some p => obtain ⟨a, b⟩ := p; simp [hq] at h
    | none =>
      simp only [hq] at h
      injection h with h
      subst h
      unfold pivotRawMat pivot3
      apply ofFn_congr
      intro i hi j hj
      have := (firstNonTernary_none m n _).mp hq i hi j hj
      simp only [pivotRawMat, ent_ofFn _ hi hj] at this
      rcases (isTernaryEntry_iff _).mp this with e | e | e <;> rw [e] <;> decide

/-- … and otherwise names an entry off the pivot lines whose 2×2 submatrix with the pivot has |det| ≥ 2. -/
theorem regularPivot_violator_det (m n : Nat) (M : Mat) (hwf : M.wf m n = true) (ht : isTernary M = true)
    (r c i j : Nat) (h : regularPivot m n M r c = .violator i j) :
    i < m ∧ j < n ∧ i ≠ r ∧ j ≠ c ∧
      (let d := ent M r c * ent M i j - ent M r j * ent M i c; d ≥ 2 ∨ d ≤ -2) := by
  unfold regularPivot at h
  split at h
  · cases h
  · rename_i hcond
    simp only [Bool.not_eq_true, Bool.not_eq_false', Bool.and_eq_true, decide_eq_true_eq, Bool.or_eq_true,
      beq_iff_eq] at hcond
    obtain ⟨⟨hr, hc⟩, hp⟩ := hcond
    cases hq : firstNonTernary m n (pivotRawMat m n M r c) with
    | none => simp [hq] at h
    | some p =>
      obtain ⟨a, b⟩ := p
      simp only [hq] at h
      injection h with h1 h2
      subst h1; subst h2
      obtain ⟨hi, hj, hnt⟩ := firstNonTernary_some m n _ _ _ hq
      simp only [pivotRawMat, ent_ofFn _ hi hj] at hnt
      have e1 := ent_ternary hwf ht hi hj
      have e2 := ent_ternary hwf ht hi hc
      have e3 := ent_ternary hwf ht hr hj
      refine ⟨hi, hj, ?_, ?_, ?_⟩
      · intro heq; subst heq
        unfold pivotRaw at hnt
        by_cases h2 : b = c <;> rcases hp with hp | hp <;> rcases e1 with e1 | e1 | e1 <;>
          simp_all [isTernaryEntry]
      · intro heq; subst heq
        unfold pivotRaw at hnt
        by_cases h1 : a = r <;> rcases hp with hp | hp <;> rcases e1 with e1 | e1 | e1 <;>
          simp_all [isTernaryEntry]
      · unfold pivotRaw at hnt
        by_cases h1 : a = r <;> by_cases h2 : b = c <;> rcases hp with hp | hp <;>
          rcases e1 with e1 | e1 | e1 <;> rcases e2 with e2 | e2 | e2 <;> rcases e3 with e3 | e3 | e3 <;>
          simp_all [isTernaryEntry]

/-- Non-vacuity and a worked instance of each statement. -/
example : let M : Mat := [[1, 1, 0], [1, 0, -1], [0, 1, 1]]
    M.wf 3 3 = true ∧ isTernary M = true ∧ ent M 0 0 ≠ 0 ∧
    pivot3 3 3 M 0 0 = [[-1, 1, 0], [1, -1, -1], [0, 1, 1]] ∧
    pivot3 3 3 (pivot3 3 3 M 0 0) 0 0 = [[1, -1, 0], [-1, 0, -1], [0, 1, 1]] ∧
    pivot2 3 3 (pivot2 3 3 [[1, 1, 0], [1, 0, 1], [0, 1, 1]] 0 0) 0 0 = [[1, 1, 0], [1, 0, 1], [0, 1, 1]] := by
  decide

example : (∃ i j, regularPivot 2 2 [[1, 1], [-1, 1]] 0 0 = .violator i j) := ⟨1, 1, by rfl⟩

end Cmr.Props.C13
