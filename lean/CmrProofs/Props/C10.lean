/-
  Property C10 — recognizer verdicts are invariant under each class's symmetries and closure operations.

  Model: `Cmr/Rel.lean` (`Step`, `Step.apply`, `applySteps`, the relation table `Step.rel` / `stepsRel`, `sumRel`).
  The checker (`checkRelations` in `Cmr/Judge.lean`) compares verdict(M) of class `c` with the verdict of the class
  `(stepsRel c steps).1` on `g(M)` according to `(stepsRel c steps).2` (`iff`: equal, `imp`: yes ⇒ yes, `none`: nothing),
  for ternary `M` (and 0/1 `M` for the binary-only classes).  The theorems below justify the table for the verdict
  oracles of the model:
    §1 shapes; §2 algebra of the table (`Rel.seq`, `stepsRel` of a concatenation, `Cls.dual`);
    §3 `isTU` (class `tu`): every non-pivot step, lifted to step lists; §3b the GF(3) pivot and the lift to *all* step
       lists for ternary inputs;
    §4 transposition duality (`gra`/`cog`, `net`/`con`: the model has one oracle per pair, the dual class is the oracle
       on the transpose — `isCographic`, `isConetwork` in `RelLemmas`);
    §5 `isRegular` (class `reg`), §6 `isBalanced` (class `bal`), §8 `isSPgreedy` (classes `spb`, `spt`): every
       non-pivot step with table entry `iff`/`imp`, lifted to step lists;
    §7 the sum relations for `tu` (corollaries of C12).
  No 0/1 or ternarity hypothesis is needed except for the GF(3) pivot (`tu_V3`): the oracles answer `no` on matrices
  with other entries, before and after every non-pivot step.
  Helper definitions (all in `CmrProofs/Lemmas/RelLemmas.lean`): `Step.isPivot` (`V2`/`V3`), `Step.rowInsOk m n s pos` /
  `Step.colInsOk` (the step is an applicable row/column insertion before `pos`), `Step.newRow n M s` / `Step.newCol M s`
  (the inserted line, exactly as in `Step.apply`), `Step.unitSign` (the sign of a `U`/`D` step is `+1`), `spCls t`
  (`spt` for `t = true`, `spb` for `t = false`).
  Covered in extension modules: the GF(2) pivot for `reg` (C10Pivot.lean), 1- and 2-sums for `reg` (C10Sums.lean),
  the non-transposition, non-pivot steps for `gra`/`cog`/`net`/`con` (C10Graphic.lean).
  the GF(2) pivot for `spb` and the GF(3) pivot for `spt` (C10SPPivot.lean).
  the GF(2) pivot for `gra` and the GF(3) pivot for `net` (C10GraphicPivot.lean).
  the GF(2) pivot for `cog` and the GF(3) pivot for `con` (C10CographicPivot.lean).
  Not covered: the class `cam`,
  sums for classes other than `tu`, `reg` (C10Sums.lean), `gra` and `net` (C10GraphicSums.lean), `spb` and `spt` (C10SPSums.lean).
-/
import CmrProofs.Lemmas.RelLemmas
import CmrProofs.Props.C12
import CmrProofs.Props.C17
import Cmr.Graph

set_option linter.unusedSimpArgs false
set_option linter.unusedVariables false

namespace Cmr.Props.C10
open Cmr Matrix

/-! ## 1. Shape -/

/-- An applicable step maps a well-formed `m × n` matrix to a well-formed `m' × n'` matrix. -/
theorem apply_wf {m n : Nat} {M : Mat} {s : Step} {m' n' : Nat} {M' : Mat}
    (h : s.apply m n M = some (m', n', M')) (hwf : M.wf m n = true) : M'.wf m' n' = true :=
  Step.apply_wf h hwf

theorem applySteps_wf {steps : List Step} {m n : Nat} {M : Mat} {m' n' : Nat} {M' : Mat}
    (h : applySteps m n M steps = some (m', n', M')) (hwf : M.wf m n = true) : M'.wf m' n' = true :=
  Cmr.applySteps_wf h hwf

/-! ## 2. Algebra of the relation table -/

theorem seq_assoc (a b c : Rel) : (a.seq b).seq c = a.seq (b.seq c) := by
  cases a <;> cases b <;> cases c <;> rfl

theorem iff_seq (r : Rel) : Rel.iff.seq r = r := by cases r <;> rfl

theorem seq_iff (r : Rel) : r.seq Rel.iff = r := by cases r <;> rfl

/-- `iff` only arises from `iff` and `iff`. -/
theorem seq_eq_iff (a b : Rel) : a.seq b = .iff ↔ a = .iff ∧ b = .iff := Rel.seq_eq_iff

/-- `none` is absorbing. -/
theorem none_seq (r : Rel) : Rel.none.seq r = .none ∧ r.seq Rel.none = .none := by cases r <;> exact ⟨rfl, rfl⟩

theorem dual_dual (c : Cls) : c.dual.dual = c := by cases c <;> rfl

/-- The relation of a concatenation: run `s₂` from the class reached after `s₁`, combine with `Rel.seq`. -/
theorem stepsRel_append (c : Cls) (s₁ s₂ : List Step) :
    stepsRel c (s₁ ++ s₂) =
      ((stepsRel (stepsRel c s₁).1 s₂).1, (stepsRel c s₁).2.seq (stepsRel (stepsRel c s₁).1 s₂).2) := by
  induction s₁ generalizing c with
  | nil => simp [stepsRel, iff_seq]
  | cons s rest ih =>
    rw [List.cons_append, stepsRel_cons, stepsRel_cons, ih]
    simp only [seq_assoc]

/-- Only transpositions change the class, and they dualise it: the class after the steps. -/
theorem stepsRel_class (c : Cls) (steps : List Step) :
    (stepsRel c steps).1 = if (steps.countP (fun s => match s with | .T => true | _ => false)) % 2 = 0 then c else c.dual := by
  induction steps generalizing c with
  | nil => simp [stepsRel]
  | cons s rest ih =>
    rw [stepsRel_cons]
    simp only
    rw [ih]
    cases s <;> simp only [List.countP_cons, Bool.false_eq_true, if_false, if_true, Nat.add_zero]
    rw [dual_dual]
    rcases Nat.mod_two_eq_zero_or_one (List.countP (fun s => match s with | .T => true | _ => false) rest) with h | h
    · have : (List.countP (fun s => match s with | .T => true | _ => false) rest + 1) % 2 = 1 := by omega
      simp [h, this]
    · have : (List.countP (fun s => match s with | .T => true | _ => false) rest + 1) % 2 = 0 := by omega
      simp [h, this]

/-! ## 3. Total unimodularity (class `tu`) -/

/-- Transposition. -/
theorem tu_T (m n : Nat) (M : Mat) : isTU n m (transpose m n M) = isTU m n M := isTU_transpose m n M

/-- Permutation of rows and columns. -/
theorem tu_P {m n : Nat} {M : Mat} (hwf : M.wf m n = true) {rows cols : List Nat}
    (hr : isPermOf rows m = true) (hc : isPermOf cols n = true) : isTU m n (sub M rows cols) = isTU m n M :=
  isTU_perm hwf hr hc

/-- Submatrix: yes implies yes. -/
theorem tu_S {m n : Nat} {M : Mat} {rows cols : List Nat} (hr : ∀ x ∈ rows, x < m) (hc : ∀ x ∈ cols, x < n)
    (h : isTU m n M = true) : isTU rows.length cols.length (sub M rows cols) = true :=
  isTU_sub M h rows cols hr hc

/-- Negation of a row / a column. -/
theorem tu_NR (m n : Nat) (M : Mat) (i : Nat) : isTU m n (negRow M i) = isTU m n M := isTU_negRow m n M i

theorem tu_NC (m n : Nat) (M : Mat) (j : Nat) : isTU m n (negCol M j) = isTU m n M := isTU_negCol m n M j

/-- Insertion of a zero row, a `±` unit row, or a `±` copy of a row (steps `ZR`, `UR`, `DR`). -/
theorem tu_rowInsertion {m n : Nat} {M : Mat} (hwf : M.wf m n = true) {s : Step} {pos : Nat} (hs : s.rowInsOk m n pos) :
    isTU (m + 1) n (insertRow M pos (s.newRow n M)) = isTU m n M := by
  have hp : pos ≤ m := by cases s <;> simp only [Step.rowInsOk] at hs <;> first | exact hs.2 | exact hs.2.1
  exact isTU_insertRow hwf hp _ (newRow_rowFrom hs)

/-- Insertion of a zero column, a `±` unit column, or a `±` copy of a column (steps `ZC`, `UC`, `DC`). -/
theorem tu_colInsertion {m n : Nat} {M : Mat} (hwf : M.wf m n = true) {s : Step} {pos : Nat} (hs : s.colInsOk m n pos) :
    isTU m (n + 1) (insertCol M pos (s.newCol M)) = isTU m n M := by
  have hp : pos ≤ n := by cases s <;> simp only [Step.colInsOk] at hs <;> first | exact hs.2 | exact hs.2.1
  exact isTU_insertCol hwf hp _ (newCol_colFrom hs)

/-- The six insertions spelled out: a zero row, the row `s·e_j`, the row `s·(row i)` (`s = ±1`), and the same for columns. -/
theorem tu_ZR {m n : Nat} {M : Mat} (hwf : M.wf m n = true) {pos : Nat} (hp : pos ≤ m) :
    isTU (m + 1) n (insertRow M pos (List.replicate n 0)) = isTU m n M :=
  tu_rowInsertion hwf (s := .ZR pos) ⟨rfl, hp⟩

theorem tu_UR {m n : Nat} {M : Mat} (hwf : M.wf m n = true) {pos j : Nat} {s : Int} (hp : pos ≤ m) (hj : j < n)
    (hs : s = 1 ∨ s = -1) : isTU (m + 1) n (insertRow M pos (unitVec n j s)) = isTU m n M :=
  tu_rowInsertion hwf (s := .UR pos j s) ⟨rfl, hp, hj, hs⟩

theorem tu_DR {m n : Nat} {M : Mat} (hwf : M.wf m n = true) {pos i : Nat} {s : Int} (hp : pos ≤ m) (hi : i < m)
    (hs : s = 1 ∨ s = -1) : isTU (m + 1) n (insertRow M pos ((M.getD i []).map (s * ·))) = isTU m n M :=
  tu_rowInsertion hwf (s := .DR pos i s) ⟨rfl, hp, hi, hs⟩

theorem tu_ZC {m n : Nat} {M : Mat} (hwf : M.wf m n = true) {pos : Nat} (hp : pos ≤ n) :
    isTU m (n + 1) (insertCol M pos (fun _ => 0)) = isTU m n M :=
  tu_colInsertion hwf (s := .ZC pos) ⟨rfl, hp⟩

theorem tu_UC {m n : Nat} {M : Mat} (hwf : M.wf m n = true) {pos i : Nat} {s : Int} (hp : pos ≤ n) (hi : i < m)
    (hs : s = 1 ∨ s = -1) : isTU m (n + 1) (insertCol M pos (fun k => if k == i then s else 0)) = isTU m n M :=
  tu_colInsertion hwf (s := .UC pos i s) ⟨rfl, hp, hi, hs⟩

theorem tu_DC {m n : Nat} {M : Mat} (hwf : M.wf m n = true) {pos j : Nat} {s : Int} (hp : pos ≤ n) (hj : j < n)
    (hs : s = 1 ∨ s = -1) : isTU m (n + 1) (insertCol M pos (fun k => s * ent M k j)) = isTU m n M :=
  tu_colInsertion hwf (s := .DC pos j s) ⟨rfl, hp, hj, hs⟩

/-- **Every step whose table entry for `tu` is `iff`, other than the GF(3) pivot, leaves the TU verdict unchanged.** -/
theorem tu_step_iff {s : Step} (hnp : s.isPivot = false) (hrel : s.rel .tu = .iff) {m n : Nat} {M : Mat}
    {m' n' : Nat} {M' : Mat} (h : s.apply m n M = some (m', n', M')) (hwf : M.wf m n = true) :
    isTU m' n' M' = isTU m n M := by
  cases s with
  | T =>
    simp only [Step.apply, Option.some.injEq, Prod.mk.injEq] at h
    obtain ⟨rfl, rfl, rfl⟩ := h
    exact isTU_transpose m n M
  | P rows cols =>
    obtain ⟨hr, hc, rfl, rfl, rfl⟩ := apply_P_iff.mp h
    exact isTU_perm hwf hr hc
  | S rows cols => simp [Step.rel] at hrel
  | V2 r c => simp [Step.isPivot] at hnp
  | V3 r c => simp [Step.isPivot] at hnp
  | NR i =>
    obtain ⟨_, rfl, rfl, rfl⟩ := apply_NR_iff.mp h
    exact isTU_negRow _ _ M i
  | NC j =>
    obtain ⟨_, rfl, rfl, rfl⟩ := apply_NC_iff.mp h
    exact isTU_negCol _ _ M j
  | ZR pos =>
    obtain ⟨p, hs, rfl, rfl, rfl⟩ := apply_rowIns rfl h
    exact tu_rowInsertion hwf hs
  | UR pos j sg =>
    obtain ⟨p, hs, rfl, rfl, rfl⟩ := apply_rowIns rfl h
    exact tu_rowInsertion hwf hs
  | DR pos i sg =>
    obtain ⟨p, hs, rfl, rfl, rfl⟩ := apply_rowIns rfl h
    exact tu_rowInsertion hwf hs
  | ZC pos =>
    obtain ⟨p, hs, rfl, rfl, rfl⟩ := apply_colIns rfl h
    exact tu_colInsertion hwf hs
  | UC pos i sg =>
    obtain ⟨p, hs, rfl, rfl, rfl⟩ := apply_colIns rfl h
    exact tu_colInsertion hwf hs
  | DC pos j sg =>
    obtain ⟨p, hs, rfl, rfl, rfl⟩ := apply_colIns rfl h
    exact tu_colInsertion hwf hs

/-- **A step whose table entry for `tu` is `imp` (a slice) maps yes to yes.** -/
theorem tu_step_imp {s : Step} (hrel : s.rel .tu = .imp) {m n : Nat} {M : Mat}
    {m' n' : Nat} {M' : Mat} (h : s.apply m n M = some (m', n', M')) (hTU : isTU m n M = true) :
    isTU m' n' M' = true := by
  cases s with
  | S rows cols =>
    obtain ⟨hr, hc, _, _, rfl, rfl, rfl⟩ := apply_S_iff.mp h
    exact isTU_sub M hTU rows cols hr hc
  | T => simp [Step.rel] at hrel
  | P rows cols => simp [Step.rel] at hrel
  | V2 r c => simp [Step.rel, Cls.binaryOnly] at hrel
  | V3 r c => simp [Step.rel, Cls.beq_eq_decide] at hrel
  | NR i => simp [Step.rel, Cls.binaryOnly] at hrel
  | NC i => simp [Step.rel, Cls.binaryOnly] at hrel
  | ZR pos => simp [Step.rel, Cls.beq_eq_decide] at hrel
  | ZC pos => simp [Step.rel, Cls.beq_eq_decide] at hrel
  | UR pos j sg => simp only [Step.rel] at hrel; split at hrel <;> simp_all [Cls.binaryOnly, Cls.beq_eq_decide]
  | UC pos j sg => simp only [Step.rel] at hrel; split at hrel <;> simp_all [Cls.binaryOnly, Cls.beq_eq_decide]
  | DR pos j sg => simp only [Step.rel] at hrel; split at hrel <;> simp_all [Cls.binaryOnly, Cls.beq_eq_decide]
  | DC pos j sg => simp only [Step.rel] at hrel; split at hrel <;> simp_all [Cls.binaryOnly, Cls.beq_eq_decide]

/-- Every non-pivot step has a table entry `iff` or `imp` for `tu`: the table claims something for each of them. -/
theorem tu_rel_total {s : Step} (hnp : s.isPivot = false) : s.rel .tu = .iff ∨ s.rel .tu = .imp := by
  cases s <;> simp [Step.isPivot] at hnp <;> simp [Step.rel, Cls.binaryOnly, Cls.beq_eq_decide]

/-- **Lift to step lists**: along a list of non-pivot steps, the combined relation `iff` gives equal TU verdicts and
the combined relation `imp` gives yes ⇒ yes. -/
theorem tu_steps {steps : List Step} (hnp : ∀ s ∈ steps, s.isPivot = false) {m n : Nat} {M : Mat}
    {m' n' : Nat} {M' : Mat} (h : applySteps m n M steps = some (m', n', M')) (hwf : M.wf m n = true) :
    (stepsRel .tu steps).1 = .tu ∧
    ((stepsRel .tu steps).2 = .iff → isTU m' n' M' = isTU m n M) ∧
    ((stepsRel .tu steps).2 = .imp → isTU m n M = true → isTU m' n' M' = true) := by
  refine ⟨?_, ?_⟩
  · rw [stepsRel_class_selfdual rfl]
  · exact steps_lift (c := .tu) rfl isTU (fun s => !s.isPivot)
      (fun s hs hrel m n M m' n' M' h hwf => tu_step_iff (by simpa using hs) hrel h hwf)
      (fun s hs hrel m n M m' n' M' h hwf hTU => tu_step_imp hrel h hTU)
      steps (fun s hs => by simp [hnp s hs]) m n M m' n' M' h hwf

/-! ## 3b. Total unimodularity and the GF(3) pivot; ternary inputs -/

/-- **A GF(3) pivot of a TU matrix is TU.** -/
theorem tu_V3_yes {m n : Nat} {M : Mat} {r c : Nat} (hok : pivotOk3 m n M r c = true) (hTU : isTU m n M = true) :
    isTU m n (pivot3 m n M r c) = true := isTU_pivot3 hTU hok

/-- For a ternary matrix the TU verdict is the same before and after a GF(3) pivot.  (Ternarity is needed: `pivot3`
reduces modulo 3, so a matrix with an entry `2` — not TU — can have a TU pivot.) -/
theorem tu_V3 {m n : Nat} {M : Mat} (hwf : M.wf m n = true) (ht : isTernary M = true) {r c : Nat}
    (hok : pivotOk3 m n M r c = true) : isTU m n (pivot3 m n M r c) = isTU m n M := isTU_pivot3_eq hwf ht hok

/-- the hypothesis `isTernary` of `tu_V3` cannot be dropped -/
example : pivotOk3 1 2 [[1, 2]] 0 0 = true ∧ isTU 1 2 [[1, 2]] = false ∧ isTU 1 2 (pivot3 1 2 [[1, 2]] 0 0) = true := by
  decide

/-- Every step maps ternary matrices to ternary matrices (the checker only relates verdicts of ternary inputs). -/
theorem apply_ternary {m n : Nat} {M : Mat} {s : Step} {m' n' : Nat} {M' : Mat}
    (h : s.apply m n M = some (m', n', M')) (hwf : M.wf m n = true) (ht : isTernary M = true) :
    isTernary M' = true := Step.apply_ternary h hwf ht

/-- **Every step whose table entry for `tu` is `iff` — the GF(3) pivot included — leaves the TU verdict of a ternary
matrix unchanged.** -/
theorem tu_step_iff_ternary {s : Step} (hrel : s.rel .tu = .iff) {m n : Nat} {M : Mat}
    {m' n' : Nat} {M' : Mat} (h : s.apply m n M = some (m', n', M')) (hwf : M.wf m n = true)
    (ht : isTernary M = true) : isTU m' n' M' = isTU m n M := by
  by_cases hnp : s.isPivot = false
  · exact tu_step_iff hnp hrel h hwf
  · cases s <;> simp [Step.isPivot] at hnp
    · simp [Step.rel, Cls.binaryOnly] at hrel
    · rename_i r c
      simp only [Step.apply] at h
      split at h
      · rename_i hok
        simp only [Option.some.injEq, Prod.mk.injEq] at h
        obtain ⟨rfl, rfl, rfl⟩ := h
        exact isTU_pivot3_eq hwf ht hok
      · cases h

/-- **Lift to arbitrary step lists, ternary input**: combined relation `iff` gives equal TU verdicts, `imp` gives
yes ⇒ yes (the GF(2) pivot has table entry `none` for `tu`, so lists containing it claim nothing). -/
theorem tu_steps_ternary {steps : List Step} {m n : Nat} {M : Mat}
    {m' n' : Nat} {M' : Mat} (h : applySteps m n M steps = some (m', n', M')) (hwf : M.wf m n = true)
    (ht : isTernary M = true) :
    ((stepsRel .tu steps).2 = .iff → isTU m' n' M' = isTU m n M) ∧
    ((stepsRel .tu steps).2 = .imp → isTU m n M = true → isTU m' n' M' = true) :=
  steps_lift_inv (c := .tu) rfl isTU (fun _ _ M => isTernary M = true)
    (fun s m n M m' n' M' h hwf ht => Step.apply_ternary h hwf ht)
    (fun s hrel m n M m' n' M' h hwf ht => tu_step_iff_ternary hrel h hwf ht)
    (fun s hrel m n M m' n' M' h hwf _ hTU => tu_step_imp hrel h hTU)
    steps m n M m' n' M' h hwf ht

/-! ## 4. Transposition duality -/

/-- Transposition is an involution on well-formed matrices: the pair (class `c` on `M`, class `c.dual` on `Mᵀ`) that the
checker compares is symmetric. -/
theorem transpose_involutive {M : Mat} {m n : Nat} (hwf : M.wf m n = true) : transpose n m (transpose m n M) = M :=
  transpose_transpose hwf

/-- Step `T` applied twice is the identity. -/
theorem apply_T_T {M : Mat} {m n : Nat} (hwf : M.wf m n = true) : applySteps m n M [.T, .T] = some (m, n, M) := by
  simp [applySteps, Step.apply, transpose_transpose hwf]

/-- `gra` on `M` and `cog` on `Mᵀ` (and `cog` on `M`, `gra` on `Mᵀ`) are the same function of the same matrix. -/
theorem graphic_T {M : Mat} {m n : Nat} (hwf : M.wf m n = true) :
    isCographic n m (transpose m n M) = isGraphic m n M ∧ isGraphic n m (transpose m n M) = isCographic m n M := by
  refine ⟨?_, rfl⟩
  unfold isCographic
  rw [transpose_transpose hwf]

theorem network_T {M : Mat} {m n : Nat} (hwf : M.wf m n = true) :
    isConetwork n m (transpose m n M) = isNetwork m n M ∧ isNetwork n m (transpose m n M) = isConetwork m n M := by
  refine ⟨?_, rfl⟩
  unfold isConetwork
  rw [transpose_transpose hwf]

/-- Balancedness is self-dual (restated from C17). -/
theorem balanced_T {M : Mat} {m n : Nat} (hwf : M.wf m n = true) :
    isBalanced n m (transpose m n M) = isBalanced m n M := C17.isBalanced_transpose m n M hwf

/-! ## 5. Regularity (class `reg`) -/

/-- Transposition. -/
theorem reg_T {M : Mat} {m n : Nat} (hwf : M.wf m n = true) : isRegular m (transpose m n M) = isRegular n M :=
  isRegular_transpose hwf

/-- Permutation. -/
theorem reg_P {M : Mat} {m n : Nat} (hwf : M.wf m n = true) {rows cols : List Nat}
    (hr : isPermOf rows m = true) (hc : isPermOf cols n = true) : isRegular n (sub M rows cols) = isRegular n M :=
  isRegular_perm hwf hr hc

/-- Submatrix (along arbitrary in-range index lists, repetitions allowed): yes implies yes. -/
theorem reg_S {M : Mat} {m n : Nat} (hwf : M.wf m n = true) {rows cols : List Nat} (hr : ∀ x ∈ rows, x < m)
    (hc : ∀ x ∈ cols, x < n) (h : isRegular n M = true) : isRegular cols.length (sub M rows cols) = true :=
  isRegular_sub hwf h rows cols hr hc

/-- Insertion of a zero row, a unit row, a copy of a row (sign `+1`). -/
theorem reg_rowInsertion {M : Mat} {m n : Nat} (hwf : M.wf m n = true) {s : Step} {pos : Nat}
    (hs : s.rowInsOk m n pos) (h1 : s.unitSign = true) :
    isRegular n (insertRow M pos (s.newRow n M)) = isRegular n M := isRegular_rowIns hwf hs h1

/-- Insertion of a zero column, a unit column, a copy of a column (sign `+1`). -/
theorem reg_colInsertion {M : Mat} {m n : Nat} (hwf : M.wf m n = true) {s : Step} {pos : Nat}
    (hs : s.colInsOk m n pos) (h1 : s.unitSign = true) :
    isRegular (n + 1) (insertCol M pos (s.newCol M)) = isRegular n M := isRegular_colIns hwf hs h1

/-- for `reg`, an insertion step with table entry `iff` has sign `+1` -/
theorem reg_rel_unitSign {s : Step} (hrel : s.rel .reg = .iff) : s.unitSign = true := by
  cases s <;> simp only [Step.unitSign] <;> rename_i p q sg <;>
    · by_cases h : sg = 1
      · simp [h]
      · simp [Step.rel, Cls.beq_eq_decide, Cls.binaryOnly, h] at hrel

/-- **Every step whose table entry for `reg` is `iff`, other than the GF(2) pivot, leaves the regularity verdict
unchanged** (no 0/1 hypothesis is needed: a matrix with another entry is not regular, before and after). -/
theorem reg_step_iff {s : Step} (hnp : s.isPivot = false) (hrel : s.rel .reg = .iff) {m n : Nat} {M : Mat}
    {m' n' : Nat} {M' : Mat} (h : s.apply m n M = some (m', n', M')) (hwf : M.wf m n = true) :
    isRegular n' M' = isRegular n M := by
  have h1 := reg_rel_unitSign hrel
  cases s with
  | T =>
    simp only [Step.apply, Option.some.injEq, Prod.mk.injEq] at h
    obtain ⟨rfl, rfl, rfl⟩ := h
    exact isRegular_transpose hwf
  | P rows cols =>
    obtain ⟨hr, hc, rfl, rfl, rfl⟩ := apply_P_iff.mp h
    exact isRegular_perm hwf hr hc
  | S rows cols => simp [Step.rel] at hrel
  | V2 r c => simp [Step.isPivot] at hnp
  | V3 r c => simp [Step.isPivot] at hnp
  | NR i => simp [Step.rel, Cls.binaryOnly] at hrel
  | NC j => simp [Step.rel, Cls.binaryOnly] at hrel
  | ZR pos =>
    obtain ⟨p, hs, rfl, rfl, rfl⟩ := apply_rowIns rfl h
    exact isRegular_rowIns hwf hs h1
  | UR pos j sg =>
    obtain ⟨p, hs, rfl, rfl, rfl⟩ := apply_rowIns rfl h
    exact isRegular_rowIns hwf hs h1
  | DR pos i sg =>
    obtain ⟨p, hs, rfl, rfl, rfl⟩ := apply_rowIns rfl h
    exact isRegular_rowIns hwf hs h1
  | ZC pos =>
    obtain ⟨p, hs, rfl, rfl, rfl⟩ := apply_colIns rfl h
    exact isRegular_colIns hwf hs h1
  | UC pos i sg =>
    obtain ⟨p, hs, rfl, rfl, rfl⟩ := apply_colIns rfl h
    exact isRegular_colIns hwf hs h1
  | DC pos j sg =>
    obtain ⟨p, hs, rfl, rfl, rfl⟩ := apply_colIns rfl h
    exact isRegular_colIns hwf hs h1

/-- the only steps with table entry `imp` are slices -/
theorem rel_imp_isSlice {c : Cls} {s : Step} (hrel : s.rel c = .imp) : ∃ rows cols, s = .S rows cols := by
  cases s with
  | S rows cols => exact ⟨rows, cols, rfl⟩
  | T => simp [Step.rel] at hrel
  | P rows cols => simp [Step.rel] at hrel
  | V2 r c => simp only [Step.rel] at hrel; split at hrel <;> cases hrel
  | V3 r c => simp only [Step.rel] at hrel; split at hrel <;> cases hrel
  | NR i => simp only [Step.rel] at hrel; split at hrel <;> cases hrel
  | NC i => simp only [Step.rel] at hrel; split at hrel <;> cases hrel
  | ZR pos => simp only [Step.rel] at hrel; split at hrel <;> cases hrel
  | ZC pos => simp only [Step.rel] at hrel; split at hrel <;> cases hrel
  | UR pos j sg => simp only [Step.rel] at hrel; (repeat' split at hrel) <;> cases hrel
  | UC pos j sg => simp only [Step.rel] at hrel; (repeat' split at hrel) <;> cases hrel
  | DR pos j sg => simp only [Step.rel] at hrel; (repeat' split at hrel) <;> cases hrel
  | DC pos j sg => simp only [Step.rel] at hrel; (repeat' split at hrel) <;> cases hrel

/-- **A step whose table entry for `reg` is `imp` (a slice) maps yes to yes.** -/
theorem reg_step_imp {s : Step} (hrel : s.rel .reg = .imp) {m n : Nat} {M : Mat}
    {m' n' : Nat} {M' : Mat} (h : s.apply m n M = some (m', n', M')) (hwf : M.wf m n = true)
    (hR : isRegular n M = true) : isRegular n' M' = true := by
  obtain ⟨rows, cols, rfl⟩ := rel_imp_isSlice hrel
  obtain ⟨hr, hc, _, _, rfl, rfl, rfl⟩ := apply_S_iff.mp h
  exact isRegular_sub hwf hR rows cols hr hc

/-- **Lift to step lists** for `reg`. -/
theorem reg_steps {steps : List Step} (hnp : ∀ s ∈ steps, s.isPivot = false) {m n : Nat} {M : Mat}
    {m' n' : Nat} {M' : Mat} (h : applySteps m n M steps = some (m', n', M')) (hwf : M.wf m n = true) :
    (stepsRel .reg steps).1 = .reg ∧
    ((stepsRel .reg steps).2 = .iff → isRegular n' M' = isRegular n M) ∧
    ((stepsRel .reg steps).2 = .imp → isRegular n M = true → isRegular n' M' = true) := by
  refine ⟨stepsRel_class_selfdual rfl steps, ?_⟩
  exact steps_lift (c := .reg) rfl (fun _ n M => isRegular n M) (fun s => !s.isPivot)
    (fun s hs hrel m n M m' n' M' h hwf => reg_step_iff (by simpa using hs) hrel h hwf)
    (fun s hs hrel m n M m' n' M' h hwf hR => reg_step_imp hrel h hwf hR)
    steps (fun s hs => by simp [hnp s hs]) m n M m' n' M' h hwf

/-! ## 6. Balancedness (class `bal`) -/

/-- Transposition (C17). -/
theorem bal_T {M : Mat} {m n : Nat} (hwf : M.wf m n = true) : isBalanced n m (transpose m n M) = isBalanced m n M :=
  C17.isBalanced_transpose m n M hwf

/-- Permutation. -/
theorem bal_P {M : Mat} {m n : Nat} (hwf : M.wf m n = true) {rows cols : List Nat}
    (hr : isPermOf rows m = true) (hc : isPermOf cols n = true) :
    isBalanced m n (sub M rows cols) = isBalanced m n M := isBalanced_perm hwf hr hc

/-- Submatrix along duplicate-free index lists in any order: yes implies yes. -/
theorem bal_S {M : Mat} {m n : Nat} (hwf : M.wf m n = true) {rows cols : List Nat} (hr : ∀ x ∈ rows, x < m)
    (hc : ∀ x ∈ cols, x < n) (hnr : rows.Nodup) (hnc : cols.Nodup) (h : isBalanced m n M = true) :
    isBalanced rows.length cols.length (sub M rows cols) = true := isBalanced_sub hwf h rows cols hr hc hnr hnc

/-- Negation of a row / a column. -/
theorem bal_NR {M : Mat} {m n : Nat} (hwf : M.wf m n = true) (i : Nat) :
    isBalanced m n (negRow M i) = isBalanced m n M := isBalanced_negRow hwf i

theorem bal_NC {M : Mat} {m n : Nat} (hwf : M.wf m n = true) (j : Nat) :
    isBalanced m n (negCol M j) = isBalanced m n M := isBalanced_negCol hwf j

/-- Multiplying rows by signs `±1`. -/
theorem bal_rowScale {M M' : Mat} {m n : Nat} (hwf : M.wf m n = true) (hwf' : M'.wf m n = true)
    (u : Nat → Int) (hu : ∀ r, r < m → u r = 1 ∨ u r = -1)
    (h : ∀ r, r < m → ∀ c, c < n → ent M' r c = u r * ent M r c) :
    isBalanced m n M' = isBalanced m n M := isBalanced_rowScale hwf hwf' u hu h

/-- Insertion of a zero row, a `±` unit row, a `±` copy of a row. -/
theorem bal_rowInsertion {M : Mat} {m n : Nat} (hwf : M.wf m n = true) {s : Step} {pos : Nat}
    (hs : s.rowInsOk m n pos) :
    isBalanced (m + 1) n (insertRow M pos (s.newRow n M)) = isBalanced m n M := isBalanced_rowIns hwf hs

/-- Insertion of a zero column, a `±` unit column, a `±` copy of a column. -/
theorem bal_colInsertion {M : Mat} {m n : Nat} (hwf : M.wf m n = true) {s : Step} {pos : Nat}
    (hs : s.colInsOk m n pos) :
    isBalanced m (n + 1) (insertCol M pos (s.newCol M)) = isBalanced m n M := isBalanced_colIns hwf hs

/-- **Every step whose table entry for `bal` is `iff` leaves the balancedness verdict unchanged** (pivots have entry
`none` for `bal`; no ternarity hypothesis is needed: a matrix with another entry is not balanced, before and after). -/
theorem bal_step_iff {s : Step} (hrel : s.rel .bal = .iff) {m n : Nat} {M : Mat}
    {m' n' : Nat} {M' : Mat} (h : s.apply m n M = some (m', n', M')) (hwf : M.wf m n = true) :
    isBalanced m' n' M' = isBalanced m n M := by
  cases s with
  | T =>
    simp only [Step.apply, Option.some.injEq, Prod.mk.injEq] at h
    obtain ⟨rfl, rfl, rfl⟩ := h
    exact C17.isBalanced_transpose m n M hwf
  | P rows cols =>
    obtain ⟨hr, hc, rfl, rfl, rfl⟩ := apply_P_iff.mp h
    exact isBalanced_perm hwf hr hc
  | S rows cols => simp [Step.rel] at hrel
  | V2 r c => simp [Step.rel, Cls.binaryOnly] at hrel
  | V3 r c => simp [Step.rel, Cls.beq_eq_decide] at hrel
  | NR i =>
    obtain ⟨_, rfl, rfl, rfl⟩ := apply_NR_iff.mp h
    exact isBalanced_negRow hwf i
  | NC j =>
    obtain ⟨_, rfl, rfl, rfl⟩ := apply_NC_iff.mp h
    exact isBalanced_negCol hwf j
  | ZR pos =>
    obtain ⟨p, hs, rfl, rfl, rfl⟩ := apply_rowIns rfl h
    exact isBalanced_rowIns hwf hs
  | UR pos j sg =>
    obtain ⟨p, hs, rfl, rfl, rfl⟩ := apply_rowIns rfl h
    exact isBalanced_rowIns hwf hs
  | DR pos i sg =>
    obtain ⟨p, hs, rfl, rfl, rfl⟩ := apply_rowIns rfl h
    exact isBalanced_rowIns hwf hs
  | ZC pos =>
    obtain ⟨p, hs, rfl, rfl, rfl⟩ := apply_colIns rfl h
    exact isBalanced_colIns hwf hs
  | UC pos i sg =>
    obtain ⟨p, hs, rfl, rfl, rfl⟩ := apply_colIns rfl h
    exact isBalanced_colIns hwf hs
  | DC pos j sg =>
    obtain ⟨p, hs, rfl, rfl, rfl⟩ := apply_colIns rfl h
    exact isBalanced_colIns hwf hs

/-- **A step whose table entry for `bal` is `imp` (a slice) maps yes to yes.** -/
theorem bal_step_imp {s : Step} (hrel : s.rel .bal = .imp) {m n : Nat} {M : Mat}
    {m' n' : Nat} {M' : Mat} (h : s.apply m n M = some (m', n', M')) (hwf : M.wf m n = true)
    (hB : isBalanced m n M = true) : isBalanced m' n' M' = true := by
  obtain ⟨rows, cols, rfl⟩ := rel_imp_isSlice hrel
  obtain ⟨hr, hc, hnr, hnc, rfl, rfl, rfl⟩ := apply_S_iff.mp h
  exact isBalanced_sub hwf hB rows cols hr hc hnr hnc

/-- **Lift to step lists** for `bal` (every step list: pivots make the combined relation `none`). -/
theorem bal_steps {steps : List Step} {m n : Nat} {M : Mat}
    {m' n' : Nat} {M' : Mat} (h : applySteps m n M steps = some (m', n', M')) (hwf : M.wf m n = true) :
    (stepsRel .bal steps).1 = .bal ∧
    ((stepsRel .bal steps).2 = .iff → isBalanced m' n' M' = isBalanced m n M) ∧
    ((stepsRel .bal steps).2 = .imp → isBalanced m n M = true → isBalanced m' n' M' = true) := by
  refine ⟨stepsRel_class_selfdual rfl steps, ?_⟩
  exact steps_lift (c := .bal) rfl isBalanced (fun _ => true)
    (fun s _ hrel m n M m' n' M' h hwf => bal_step_iff hrel h hwf)
    (fun s _ hrel m n M m' n' M' h hwf hB => bal_step_imp hrel h hwf hB)
    steps (fun s hs => rfl) m n M m' n' M' h hwf

/-! ## 7. Sums (class `tu`) -/

/-- table entry: for `tu` the 1-sum relation is `both`, the 2-sum relation over GF(3) is `closed` -/
theorem sumRel_tu : sumRel "1" 3 .tu = .both ∧ sumRel "1" 2 .tu = .both ∧ sumRel "2" 3 .tu = .closed := by decide

/-- **1-sum**: the model's `compose1` of two matrices is TU iff both summands are. -/
theorem sum1_tu (m1 n1 : Nat) (A : Mat) (m2 n2 : Nat) (B : Mat) :
    isTU (compose1 [(m1, n1, A), (m2, n2, B)]).1 (compose1 [(m1, n1, A), (m2, n2, B)]).2.1
        (compose1 [(m1, n1, A), (m2, n2, B)]).2.2 = true ↔
      isTU m1 n1 A = true ∧ isTU m2 n2 B = true := by
  rw [C12.compose1_TU_list]
  simp

/-- **2-sum over GF(3)**, both layouts: TU operands give a TU sum. -/
theorem sum2a_tu {m1 n1 : Nat} {M1 : Mat} {m2 n2 : Nat} {M2 : Mat} {r c : Nat} {P : Mat}
    (h : compose2a 3 m1 n1 M1 m2 n2 M2 r c = .ok P)
    (hTU1 : isTU m1 n1 M1 = true) (hTU2 : isTU m2 n2 M2 = true) :
    isTU ((m1 - 1) + m2) (n1 + (n2 - 1)) P = true := C12.compose2a_TU h hTU1 hTU2

theorem sum2b_tu {m1 n1 : Nat} {M1 : Mat} {m2 n2 : Nat} {M2 : Mat} {c r : Nat} {P : Mat}
    (h : compose2b 3 m1 n1 M1 m2 n2 M2 c r = .ok P)
    (hTU1 : isTU m1 n1 M1 = true) (hTU2 : isTU m2 n2 M2 = true) :
    isTU (m1 + (m2 - 1)) ((n1 - 1) + n2) P = true := C12.compose2b_TU h hTU1 hTU2

/-! ## 8. Series-parallel matrices (classes `spb`: `ternary = false`, `spt`: `ternary = true`) -/

/-- Transposition. -/
theorem sp_T {t : Bool} {m n : Nat} {M : Mat} (hwf : M.wf m n = true) :
    isSPgreedy t n m (transpose m n M) = isSPgreedy t m n M := isSP_transpose hwf

/-- Permutation. -/
theorem sp_P {t : Bool} {M : Mat} {m n : Nat} (hwf : M.wf m n = true) {rows cols : List Nat}
    (hr : isPermOf rows m = true) (hc : isPermOf cols n = true) :
    isSPgreedy t m n (sub M rows cols) = isSPgreedy t m n M := isSP_perm hwf hr hc

/-- Submatrix along duplicate-free index lists: yes implies yes. -/
theorem sp_S {t : Bool} {m n : Nat} {M : Mat} {rows cols : List Nat} (hr : ∀ x ∈ rows, x < m) (hc : ∀ x ∈ cols, x < n)
    (hnr : rows.Nodup) (hnc : cols.Nodup) (h : isSPgreedy t m n M = true) :
    isSPgreedy t rows.length cols.length (sub M rows cols) = true := isSP_sub h rows cols hr hc hnr hnc

/-- Ternary case: scaling rows and columns by signs. -/
theorem sp_scale {m n : Nat} {M M' : Mat} (s u : Nat → Int) (hs : ∀ r, s r = 1 ∨ s r = -1)
    (hu : ∀ c, u c = 1 ∨ u c = -1) (he : ∀ r, r < m → ∀ c, c < n → ent M' r c = s r * u c * ent M r c) :
    isSPgreedy true m n M' = isSPgreedy true m n M := isSP_scale s u hs hu he

/-- Insertion of a zero / unit / copied row; a negated copy only in the ternary case. -/
theorem sp_rowInsertion {t : Bool} {M : Mat} {m n : Nat} (hwf : M.wf m n = true) {s : Step} {pos : Nat}
    (hs : s.rowInsOk m n pos) (hsg : t = true ∨ s.unitSign = true) :
    isSPgreedy t (m + 1) n (insertRow M pos (s.newRow n M)) = isSPgreedy t m n M := isSP_rowIns hwf hs hsg

theorem sp_colInsertion {t : Bool} {M : Mat} {m n : Nat} (hwf : M.wf m n = true) {s : Step} {pos : Nat}
    (hs : s.colInsOk m n pos) (hsg : t = true ∨ s.unitSign = true) :
    isSPgreedy t m (n + 1) (insertCol M pos (s.newCol M)) = isSPgreedy t m n M := isSP_colIns hwf hs hsg

/-- for the binary class, an insertion step with table entry `iff` has sign `+1` -/
theorem sp_rel_sign {t : Bool} {s : Step} (hrel : s.rel (spCls t) = .iff) : t = true ∨ s.unitSign = true := by
  cases t
  · right
    cases s <;> simp only [Step.unitSign] <;> rename_i p q sg <;>
      · by_cases h : sg = 1
        · simp [h]
        · simp [spCls, Step.rel, Cls.beq_eq_decide, Cls.binaryOnly, h] at hrel
  · exact Or.inl rfl

/-- **Every non-pivot step whose table entry for the series-parallel class is `iff` leaves the verdict unchanged.** -/
theorem sp_step_iff {t : Bool} {s : Step} (hnp : s.isPivot = false) (hrel : s.rel (spCls t) = .iff) {m n : Nat} {M : Mat}
    {m' n' : Nat} {M' : Mat} (h : s.apply m n M = some (m', n', M')) (hwf : M.wf m n = true) :
    isSPgreedy t m' n' M' = isSPgreedy t m n M := by
  have hsg := sp_rel_sign hrel
  cases s with
  | T =>
    simp only [Step.apply, Option.some.injEq, Prod.mk.injEq] at h
    obtain ⟨rfl, rfl, rfl⟩ := h
    exact isSP_transpose hwf
  | P rows cols =>
    obtain ⟨hr, hc, rfl, rfl, rfl⟩ := apply_P_iff.mp h
    exact isSP_perm hwf hr hc
  | S rows cols => simp [Step.rel] at hrel
  | V2 r c => simp [Step.isPivot] at hnp
  | V3 r c => simp [Step.isPivot] at hnp
  | NR i =>
    obtain ⟨_, rfl, rfl, rfl⟩ := apply_NR_iff.mp h
    cases t
    · simp [spCls, Step.rel, Cls.binaryOnly] at hrel
    · exact isSP_negRow M i
  | NC j =>
    obtain ⟨_, rfl, rfl, rfl⟩ := apply_NC_iff.mp h
    cases t
    · simp [spCls, Step.rel, Cls.binaryOnly] at hrel
    · exact isSP_negCol M j
  | ZR pos =>
    obtain ⟨p, hs, rfl, rfl, rfl⟩ := apply_rowIns rfl h
    exact isSP_rowIns hwf hs hsg
  | UR pos j sg =>
    obtain ⟨p, hs, rfl, rfl, rfl⟩ := apply_rowIns rfl h
    exact isSP_rowIns hwf hs hsg
  | DR pos i sg =>
    obtain ⟨p, hs, rfl, rfl, rfl⟩ := apply_rowIns rfl h
    exact isSP_rowIns hwf hs hsg
  | ZC pos =>
    obtain ⟨p, hs, rfl, rfl, rfl⟩ := apply_colIns rfl h
    exact isSP_colIns hwf hs hsg
  | UC pos i sg =>
    obtain ⟨p, hs, rfl, rfl, rfl⟩ := apply_colIns rfl h
    exact isSP_colIns hwf hs hsg
  | DC pos j sg =>
    obtain ⟨p, hs, rfl, rfl, rfl⟩ := apply_colIns rfl h
    exact isSP_colIns hwf hs hsg

/-- **A slice maps yes to yes.** -/
theorem sp_step_imp {t : Bool} {s : Step} (hrel : s.rel (spCls t) = .imp) {m n : Nat} {M : Mat}
    {m' n' : Nat} {M' : Mat} (h : s.apply m n M = some (m', n', M'))
    (hSP : isSPgreedy t m n M = true) : isSPgreedy t m' n' M' = true := by
  obtain ⟨rows, cols, rfl⟩ := rel_imp_isSlice hrel
  obtain ⟨hr, hc, hnr, hnc, rfl, rfl, rfl⟩ := apply_S_iff.mp h
  exact isSP_sub hSP rows cols hr hc hnr hnc

/-- **Lift to step lists** for `spb` (`t = false`) and `spt` (`t = true`). -/
theorem sp_steps {t : Bool} {steps : List Step} (hnp : ∀ s ∈ steps, s.isPivot = false) {m n : Nat} {M : Mat}
    {m' n' : Nat} {M' : Mat} (h : applySteps m n M steps = some (m', n', M')) (hwf : M.wf m n = true) :
    (stepsRel (spCls t) steps).1 = spCls t ∧
    ((stepsRel (spCls t) steps).2 = .iff → isSPgreedy t m' n' M' = isSPgreedy t m n M) ∧
    ((stepsRel (spCls t) steps).2 = .imp → isSPgreedy t m n M = true → isSPgreedy t m' n' M' = true) := by
  have hd : (spCls t).dual = spCls t := by cases t <;> rfl
  refine ⟨stepsRel_class_selfdual hd steps, ?_⟩
  exact steps_lift (c := spCls t) hd (isSPgreedy t) (fun s => !s.isPivot)
    (fun s hs hrel m n M m' n' M' h hwf => sp_step_iff (by simpa using hs) hrel h hwf)
    (fun s hs hrel m n M m' n' M' h hwf hSP => sp_step_imp hrel h hSP)
    steps (fun s hs => by simp [hnp s hs]) m n M m' n' M' h hwf

/-! ## Non-vacuity: every kind of step applies to a concrete 3 × 4 network matrix -/

/-- the base matrix is well-formed, TU and balanced -/
example : isTU 3 4 [[1, -1, 0, 1], [0, 1, 1, 0], [0, 0, 1, 1]] = true ∧
    isBalanced 3 4 [[1, -1, 0, 1], [0, 1, 1, 0], [0, 0, 1, 1]] = true ∧
    Mat.wf [[1, -1, 0, 1], [0, 1, 1, 0], [0, 0, 1, 1]] 3 4 = true := by decide

/-- each step kind is applicable (the `some` hypotheses of the step theorems are satisfiable) -/
example :
    Step.T.apply 3 4 [[1, -1, 0, 1], [0, 1, 1, 0], [0, 0, 1, 1]] = some (4, 3, [[1, 0, 0], [-1, 1, 0], [0, 1, 1], [1, 0, 1]]) ∧
    (Step.P [2, 0, 1] [3, 1, 0, 2]).apply 3 4 [[1, -1, 0, 1], [0, 1, 1, 0], [0, 0, 1, 1]] =
      some (3, 4, [[1, 0, 0, 1], [1, -1, 1, 0], [0, 1, 0, 1]]) ∧
    (Step.S [2, 0] [3, 1, 0]).apply 3 4 [[1, -1, 0, 1], [0, 1, 1, 0], [0, 0, 1, 1]] = some (2, 3, [[1, 0, 0], [1, -1, 1]]) := by
  decide

example :
    (Step.NR 1).apply 3 4 [[1, -1, 0, 1], [0, 1, 1, 0], [0, 0, 1, 1]] = some (3, 4, [[1, -1, 0, 1], [0, -1, -1, 0], [0, 0, 1, 1]]) ∧
    (Step.NC 3).apply 3 4 [[1, -1, 0, 1], [0, 1, 1, 0], [0, 0, 1, 1]] = some (3, 4, [[1, -1, 0, -1], [0, 1, 1, 0], [0, 0, 1, -1]]) ∧
    (Step.V3 0 1).apply 3 4 [[1, -1, 0, 1], [0, 1, 1, 0], [0, 0, 1, 1]] = some (3, 4, [[-1, 1, 0, -1], [1, -1, 1, 1], [0, 0, 1, 1]]) := by
  decide

example :
    (Step.ZR 1).apply 3 4 [[1, -1, 0, 1], [0, 1, 1, 0], [0, 0, 1, 1]] =
      some (4, 4, [[1, -1, 0, 1], [0, 0, 0, 0], [0, 1, 1, 0], [0, 0, 1, 1]]) ∧
    (Step.ZC 4).apply 3 4 [[1, -1, 0, 1], [0, 1, 1, 0], [0, 0, 1, 1]] =
      some (3, 5, [[1, -1, 0, 1, 0], [0, 1, 1, 0, 0], [0, 0, 1, 1, 0]]) := by decide

example :
    (Step.UR 3 2 (-1)).apply 3 4 [[1, -1, 0, 1], [0, 1, 1, 0], [0, 0, 1, 1]] =
      some (4, 4, [[1, -1, 0, 1], [0, 1, 1, 0], [0, 0, 1, 1], [0, 0, -1, 0]]) ∧
    (Step.UC 0 1 1).apply 3 4 [[1, -1, 0, 1], [0, 1, 1, 0], [0, 0, 1, 1]] =
      some (3, 5, [[0, 1, -1, 0, 1], [1, 0, 1, 1, 0], [0, 0, 0, 1, 1]]) := by decide

example :
    (Step.DR 2 0 (-1)).apply 3 4 [[1, -1, 0, 1], [0, 1, 1, 0], [0, 0, 1, 1]] =
      some (4, 4, [[1, -1, 0, 1], [0, 1, 1, 0], [-1, 1, 0, -1], [0, 0, 1, 1]]) ∧
    (Step.DC 1 3 1).apply 3 4 [[1, -1, 0, 1], [0, 1, 1, 0], [0, 0, 1, 1]] =
      some (3, 5, [[1, 1, -1, 0, 1], [0, 0, 1, 1, 0], [0, 1, 0, 1, 1]]) := by decide

/-- a step list that applies, with combined relation `imp` for `tu` … -/
example :
    applySteps 3 4 [[1, -1, 0, 1], [0, 1, 1, 0], [0, 0, 1, 1]]
      [.T, .P [3, 1, 0, 2] [2, 0, 1], .NR 1, .ZC 1, .UR 4 2 (-1), .DC 0 3 (-1), .S [4, 0, 2] [1, 3, 0]] =
        some (3, 3, [[0, -1, 0], [1, 1, 0], [0, 1, 0]]) ∧
    stepsRel .tu [.T, .P [3, 1, 0, 2] [2, 0, 1], .NR 1, .ZC 1, .UR 4 2 (-1), .DC 0 3 (-1), .S [4, 0, 2] [1, 3, 0]] = (.tu, .imp) := by
  decide

/-- … `iff` for `bal` without the slice, `iff` from `gra` to `cog`, and `none` for `reg` once a row is negated -/
example :
    stepsRel .bal [.T, .P [3, 1, 0, 2] [2, 0, 1], .NR 1, .ZC 1, .UR 4 2 (-1), .DC 0 3 (-1)] = (.bal, .iff) ∧
    stepsRel .gra [.T, .P [3, 1, 0, 2] [2, 0, 1], .ZC 1, .UR 4 2 1, .DC 0 3 1] = (.cog, .iff) ∧
    stepsRel .reg [.T, .NR 1] = (.reg, .none) := by decide

/-- regularity: a regular 0/1 matrix that is not TU, and a list of steps that are all `iff` for `reg` -/
example :
    isRegular 4 [[1, 1, 0, 1], [0, 1, 1, 0], [1, 0, 1, 1]] = true ∧ isTU 3 4 [[1, 1, 0, 1], [0, 1, 1, 0], [1, 0, 1, 1]] = false ∧
    stepsRel .reg [.T, .ZR 1, .UC 2 0 1, .DR 0 3 1] = (.reg, .iff) := by decide

example :
    applySteps 3 4 [[1, 1, 0, 1], [0, 1, 1, 0], [1, 0, 1, 1]] [.T, .ZR 1, .UC 2 0 1, .DR 0 3 1] =
      some (6, 4, [[0, 1, 0, 1], [1, 0, 1, 1], [0, 0, 0, 0], [1, 1, 0, 0], [0, 1, 0, 1], [1, 0, 0, 1]]) := by decide

/-- the lifted theorem applied: the slice at the end of the list above is TU because the base matrix is -/
example : isTU 3 3 [[0, -1, 0], [1, 1, 0], [0, 1, 0]] = true :=
  (tu_steps (steps := [.T, .P [3, 1, 0, 2] [2, 0, 1], .NR 1, .ZC 1, .UR 4 2 (-1), .DC 0 3 (-1), .S [4, 0, 2] [1, 3, 0]])
    (by decide) (m := 3) (n := 4) (M := [[1, -1, 0, 1], [0, 1, 1, 0], [0, 0, 1, 1]]) (by decide) (by decide)).2.2
    (by decide) (by decide)

end Cmr.Props.C10
