/-
  Property C12, Δ- and Y-sums: **the Δ-sum (3-sum in Schrijver's form) and the Y-sum of totally unimodular matrices are
  totally unimodular**, for Mathlib matrices and for the model's `composeDelta` / `composeY` (`Cmr/Sums.lean`), with the
  special lines in arbitrary positions.

  Statement (Schrijver, Theory of Linear and Integer Programming, §19.4 (iii)): with `ε = ±1`,
      M₁ = [[A, a, a],[cᵀ, 0, ε]],  M₂ = [[ε, 0, bᵀ],[d, d, D]]   totally unimodular
      ⟹  [[A, a bᵀ],[d cᵀ, D]]   totally unimodular.

  Derivation used (all of it proved in `CmrProofs/Lemmas/DeltaSumLemmas.lean`, nothing is left open).  The classical
  route "2-sum, then pivot, then delete" was worked out symbolically first and does not reproduce the Δ-sum (the 2-sum of
  `M₁` along `(a;ε)` and `M₂` along `(ε,0,bᵀ)` is `[[A,a,εa,0,a bᵀ],[cᵀ,0,1,0,ε bᵀ],[0,0,d,d,D]]`; pivoting on the
  entry `ε·ε = 1` turns the block `a bᵀ` into `a bᵀ − εa·εbᵀ = 0`); the proof is a direct determinant argument instead.
  Only four bordered submatrices of the operands are used,
      [[A, a],[cᵀ, 0]],  [[A, a],[cᵀ, ε]]   (from `M₁`),      [[0, bᵀ],[d, D]],  [[ε, bᵀ],[d, D]]   (from `M₂`),
  and these are also submatrices of the operands `[[A,a],[cᵀ,0],[cᵀ,ε]]`, `[[ε,bᵀ],[0,bᵀ],[d,D]]` of the Y-sum, so one
  theorem (`Cmr.rankOneSum_isTotallyUnimodular`) gives both sums; no transposition is needed.

  Take a square submatrix `S = [[A', a' b'ᵀ],[d' c'ᵀ, D']]` of the sum, `A'` of size `p × q`, `S` of size `k`.
  * `p > q`: `S = [[A', a', 0],[d' c'ᵀ, 0, 1]] · [[1, 0],[0, b'ᵀ],[0, D']]` factors through `q + 1 + (k - p) ≤ k`
    indices with totally unimodular factors (rows of `[[A,a],[cᵀ,0]]` repeated and scaled by `d'`, unit columns
    appended; `[bᵀ; D]` with a unit block), so `det S` is `0` (rank) or a product of two minors
    (`Cmr.det_signRange_of_factor`, the tool of the 2-sum proof).  `p < q` is the mirror image (exchange the operands).
  * `p = q`: the determinant identity `Cmr.det_fromBlocks_rankOne`,
        det [[A', a' b'ᵀ],[d' c'ᵀ, D']] = det A' · det D' − det [[A', a'],[c'ᵀ, 0]] · det [[0, b'ᵀ],[d', D']],
    valid over every commutative ring.  It is proved without Laplace expansion or Cauchy–Binet: the bordered matrix
    `Q(s, c) = [[0, s | cᵀ, 0],[-1, 0 | 0, bᵀ],[a, 0 | A, 0],[0, d | 0, D]]` has the invertible corner
    `[[0,-1],[-1,0]]` for `s = -1`, so Mathlib's Schur-complement formula gives `det Q(-1,c) = −det S` and
    `det Q(-1,0) = −det A · det D`; `Q(0,c)` is block triangular after grouping the border lines with their blocks,
    `det Q(0,c) = det [[A,a],[cᵀ,0]] · det [[0,bᵀ],[d,D]]`; and `det Q(-1,c) = det Q(0,c) + det Q(-1,0)` by linearity
    in the first row.  With `α₁ = det A'`, `α₀ = det [[A',a'],[c'ᵀ,0]]`, `δ₁`, `δ₀` alike, linearity in the corner gives
    `det [[A',a'],[c'ᵀ,ε]] = α₀ + ε α₁` and `det [[ε,b'ᵀ],[d',D']] = δ₀ + ε δ₁`.  All six numbers are in `{0,±1}`;
    if `α₁ α₀ δ₁ δ₀ ≠ 0` this forces `α₀ = −ε α₁`, `δ₀ = −ε δ₁`, hence `det S = α₁ δ₁ − α₀ δ₀ = 0`; otherwise `det S` is a
    single product (`Cmr.deltaSum_arith`).  This is where both copies of `a` (and of `d`) are needed.

  Model level: `composeDelta 3 … = .ok P` yields the documented shape (`C12.composeDelta_eq_ok_iff`); a totally
  unimodular operand has entries in `{0,±1}`, on which `normChar 3` is the identity, so the four bordered matrices are
  `sub`-matrices of the operands along index lists and `P` is literally the block matrix of `Cmr.isTU_rankOne_lists`.
  No well-formedness or ternarity hypothesis is needed: `isTU` reads only the `m × n` window and implies ternary entries.
-/
import CmrProofs.Props.C12
import CmrProofs.Lemmas.DeltaSumLemmas

set_option linter.unusedSimpArgs false
set_option linter.unusedVariables false
set_option linter.unnecessarySeqFocus false
set_option linter.unreachableTactic false
set_option linter.unusedTactic false

namespace Cmr.Props.C12Delta
open Cmr Cmr.Props.C12 Matrix

/-! ## 1. Mathlib level -/

/-- **Determinant of a square block matrix with rank-one off-diagonal blocks** (any commutative ring). -/
theorem det_rankOneBlocks {R : Type*} [CommRing R] {p r : Type*} [Fintype p] [DecidableEq p] [Fintype r]
    [DecidableEq r] (A : Matrix p p R) (D : Matrix r r R) (a c : p → R) (b d : r → R) :
    (fromBlocks A (Matrix.of fun i j => a i * b j) (Matrix.of fun i j => d i * c j) D).det =
      A.det * D.det - (fromBlocks A (replicateCol Unit a) (replicateRow Unit c) 0).det *
        (fromBlocks 0 (replicateRow Unit b) (replicateCol Unit d) D).det :=
  det_fromBlocks_rankOne A D a c b d

/-- **Δ-sum of totally unimodular matrices** (standard position): `M₁ = [[A, a, a],[cᵀ, 0, ε]]` and
`M₂ = [[ε, 0, bᵀ],[d, d, D]]` totally unimodular, `ε = ±1`, imply `[[A, a bᵀ],[d cᵀ, D]]` totally unimodular. -/
theorem deltaSum_isTotallyUnimodular {m m' n n' : Type*} (A : Matrix m n ℤ) (a : m → ℤ) (c : n → ℤ)
    (b : n' → ℤ) (d : m' → ℤ) (D : Matrix m' n' ℤ) (ε : ℤ) (hε : ε = 1 ∨ ε = -1)
    (h1 : (fromBlocks A (fromCols (replicateCol Unit a) (replicateCol Unit a)) (replicateRow Unit c)
      (fromCols (0 : Matrix Unit Unit ℤ) (Matrix.of fun (_ _ : Unit) => ε))).IsTotallyUnimodular)
    (h2 : (fromBlocks (fromCols (Matrix.of fun (_ _ : Unit) => ε) (0 : Matrix Unit Unit ℤ)) (replicateRow Unit b)
      (fromCols (replicateCol Unit d) (replicateCol Unit d)) D).IsTotallyUnimodular) :
    (fromBlocks A (Matrix.of fun i j => a i * b j) (Matrix.of fun i j => d i * c j) D).IsTotallyUnimodular :=
  Cmr.deltaSum_isTotallyUnimodular A a c b d D ε hε h1 h2

/-- **Y-sum of totally unimodular matrices** (standard position): `M₁ = [[A, a],[cᵀ, 0],[cᵀ, ε]]` and
`M₂ = [[ε, bᵀ],[0, bᵀ],[d, D]]` totally unimodular, `ε = ±1`, imply `[[A, a bᵀ],[d cᵀ, D]]` totally unimodular. -/
theorem ySum_isTotallyUnimodular {m m' n n' : Type*} (A : Matrix m n ℤ) (a : m → ℤ) (c : n → ℤ)
    (b : n' → ℤ) (d : m' → ℤ) (D : Matrix m' n' ℤ) (ε : ℤ) (hε : ε = 1 ∨ ε = -1)
    (h1 : (fromBlocks A (replicateCol Unit a) (fromRows (replicateRow Unit c) (replicateRow Unit c))
      (fromRows (0 : Matrix Unit Unit ℤ) (Matrix.of fun (_ _ : Unit) => ε))).IsTotallyUnimodular)
    (h2 : (fromBlocks (fromRows (Matrix.of fun (_ _ : Unit) => ε) (0 : Matrix Unit Unit ℤ))
      (fromRows (replicateRow Unit b) (replicateRow Unit b)) (replicateCol Unit d) D).IsTotallyUnimodular) :
    (fromBlocks A (Matrix.of fun i j => a i * b j) (Matrix.of fun i j => d i * c j) D).IsTotallyUnimodular :=
  Cmr.ySum_isTotallyUnimodular A a c b d D ε hε h1 h2

/-! ## 2. The model's `composeDelta` and `composeY` -/

/-- **Over GF(3), the model's Δ-sum of totally unimodular matrices is totally unimodular**, for every position of
the special row and the two special columns of each operand. -/
theorem composeDelta_TU {m1 n1 : Nat} {M1 : Mat} {m2 n2 : Nat} {M2 : Mat} {r1 ca cb r2 cc cd : Nat} {P : Mat}
    (h : composeDelta 3 m1 n1 M1 m2 n2 M2 r1 ca cb r2 cc cd = .ok P)
    (hTU1 : isTU m1 n1 M1 = true) (hTU2 : isTU m2 n2 M2 = true) :
    isTU ((m1 - 1) + (m2 - 1)) ((n1 - 2) + (n2 - 2)) P = true := by
  obtain ⟨⟨⟨hr1, hca, hcb, hab, hr2, hcc, hcd, hccd⟩, hpm, hz1, hcp1, he2, hz2, hcp2⟩, rfl⟩ :=
    (composeDelta_eq_ok_iff _ _ _ _ _ _ _ _ _ _ _ _ _ _).mp h
  have t1 : ∀ i, i < m1 → ∀ j, j < n1 → ent M1 i j = 0 ∨ ent M1 i j = 1 ∨ ent M1 i j = -1 :=
    fun i hi j hj => (isTernaryEntry_iff _).mp (isTU_entry M1 hTU1 hi hj)
  have t2 : ∀ i, i < m2 → ∀ j, j < n2 → ent M2 i j = 0 ∨ ent M2 i j = 1 ∨ ent M2 i j = -1 :=
    fun i hi j hj => (isTernaryEntry_iff _).mp (isTU_entry M2 hTU2 hi hj)
  have q1 : ∀ i, i < m1 → ∀ j, j < n1 → normChar 3 (ent M1 i j) = ent M1 i j :=
    fun i hi j hj => normChar_three_of_ternary (t1 i hi j hj)
  have q2 : ∀ i, i < m2 → ∀ j, j < n2 → normChar 3 (ent M2 i j) = ent M2 i j :=
    fun i hi j hj => normChar_three_of_ternary (t2 i hi j hj)
  rw [q1 _ hr1 _ hcb] at hpm he2
  rw [q1 _ hr1 _ hca] at hz1
  rw [q2 _ hr2 _ hcc] at he2
  rw [q2 _ hr2 _ hcd] at hz2
  rw [← length_eraseIdxs_one hr1, ← length_eraseIdxs_one hr2, ← length_eraseIdxs_two hca hcb hab,
    ← length_eraseIdxs_two hcc hcd hccd]
  unfold deltaResult composeRank1
  set rows1 := eraseIdxs (List.range m1) [r1] with hrows1
  set cols1 := eraseIdxs (List.range n1) [ca, cb] with hcols1
  set rows2 := eraseIdxs (List.range m2) [r2] with hrows2
  set cols2 := eraseIdxs (List.range n2) [cc, cd] with hcols2
  have mr1 : ∀ x ∈ rows1, x < m1 ∧ x ≠ r1 := fun x hx => by
    have := (mem_eraseIdxs_range m1 [r1] x).mp hx; simpa using this
  have mc1 : ∀ x ∈ cols1, x < n1 := fun x hx => ((mem_eraseIdxs_range n1 [ca, cb] x).mp hx).1
  have mr2 : ∀ x ∈ rows2, x < m2 ∧ x ≠ r2 := fun x hx => by
    have := (mem_eraseIdxs_range m2 [r2] x).mp hx; simpa using this
  have mc2 : ∀ x ∈ cols2, x < n2 := fun x hx => ((mem_eraseIdxs_range n2 [cc, cd] x).mp hx).1
  have key := isTU_rankOne_lists M1 M2 hTU1 hTU2 rows1 cols1 rows2 cols2 (fun x hx => (mr1 x hx).1) mc1
    (fun x hx => (mr2 x hx).1) mc2 r1 r1 ca cb r2 r2 cd cc hr1 hr1 hca hcb hr2 hr2 hcd hcc (ent M1 r1 cb) hpm
    hz1 rfl
    (fun x hx => by
      have := hcp1 x (mr1 x hx).1 (mr1 x hx).2
      rw [q1 _ (mr1 x hx).1 _ hca, q1 _ (mr1 x hx).1 _ hcb] at this
      exact this.symm)
    (fun _ _ => rfl) hz2 he2
    (fun x hx => by
      have := hcp2 x (mr2 x hx).1 (mr2 x hx).2
      rw [q2 _ (mr2 x hx).1 _ hcc, q2 _ (mr2 x hx).1 _ hcd] at this
      exact this.symm)
    (fun _ _ => rfl)
  rw [← key]
  apply isTU_congr
  intro i hi j hj
  rw [Cmr.ent_blockMat _ _ _ _ _ _ _ _ hi hj, Cmr.ent_blockMat _ _ _ _ _ _ _ _ hi hj]
  have gr1 : ∀ i, i < rows1.length → rows1.getD i 0 < m1 := fun i hi => (mr1 _ (getD_mem_of_lt hi)).1
  have gc1 : ∀ j, j < cols1.length → cols1.getD j 0 < n1 := fun j hj => mc1 _ (getD_mem_of_lt hj)
  have gr2 : ∀ i, i < rows2.length → rows2.getD i 0 < m2 := fun i hi => (mr2 _ (getD_mem_of_lt hi)).1
  have gc2 : ∀ j, j < cols2.length → cols2.getD j 0 < n2 := fun j hj => mc2 _ (getD_mem_of_lt hj)
  by_cases h1 : i < rows1.length <;> by_cases h2 : j < cols1.length <;> simp only [h1, h2, if_true, if_false]
  · exact q1 _ (gr1 i h1) _ (gc1 j h2)
  · exact normChar_three_of_ternary (ternary_mul (t1 _ (gr1 i h1) _ hca) (t2 _ hr2 _ (gc2 _ (by omega))))
  · exact normChar_three_of_ternary (ternary_mul (t2 _ (gr2 _ (by omega)) _ hcc) (t1 _ hr1 _ (gc1 j h2)))
  · exact q2 _ (gr2 _ (by omega)) _ (gc2 _ (by omega))

/-- **Over GF(3), the model's Y-sum of totally unimodular matrices is totally unimodular**, for every position of
the two special rows and the special column of each operand. -/
theorem composeY_TU {m1 n1 : Nat} {M1 : Mat} {m2 n2 : Nat} {M2 : Mat} {ra rb c1 rc rd c2 : Nat} {P : Mat}
    (h : composeY 3 m1 n1 M1 m2 n2 M2 ra rb c1 rc rd c2 = .ok P)
    (hTU1 : isTU m1 n1 M1 = true) (hTU2 : isTU m2 n2 M2 = true) :
    isTU ((m1 - 2) + (m2 - 2)) ((n1 - 1) + (n2 - 1)) P = true := by
  obtain ⟨⟨⟨hra, hrb, hab, hc1, hrc, hrd, hcd, hc2⟩, hpm, hz1, hcp1, he2, hz2, hcp2⟩, rfl⟩ :=
    (composeY_eq_ok_iff _ _ _ _ _ _ _ _ _ _ _ _ _ _).mp h
  have t1 : ∀ i, i < m1 → ∀ j, j < n1 → ent M1 i j = 0 ∨ ent M1 i j = 1 ∨ ent M1 i j = -1 :=
    fun i hi j hj => (isTernaryEntry_iff _).mp (isTU_entry M1 hTU1 hi hj)
  have t2 : ∀ i, i < m2 → ∀ j, j < n2 → ent M2 i j = 0 ∨ ent M2 i j = 1 ∨ ent M2 i j = -1 :=
    fun i hi j hj => (isTernaryEntry_iff _).mp (isTU_entry M2 hTU2 hi hj)
  have q1 : ∀ i, i < m1 → ∀ j, j < n1 → normChar 3 (ent M1 i j) = ent M1 i j :=
    fun i hi j hj => normChar_three_of_ternary (t1 i hi j hj)
  have q2 : ∀ i, i < m2 → ∀ j, j < n2 → normChar 3 (ent M2 i j) = ent M2 i j :=
    fun i hi j hj => normChar_three_of_ternary (t2 i hi j hj)
  rw [q1 _ hrb _ hc1] at hpm he2
  rw [q1 _ hra _ hc1] at hz1
  rw [q2 _ hrc _ hc2] at he2
  rw [q2 _ hrd _ hc2] at hz2
  rw [← length_eraseIdxs_two hra hrb hab, ← length_eraseIdxs_two hrc hrd hcd, ← length_eraseIdxs_one hc1,
    ← length_eraseIdxs_one hc2]
  unfold yResult composeRank1
  set rows1 := eraseIdxs (List.range m1) [ra, rb] with hrows1
  set cols1 := eraseIdxs (List.range n1) [c1] with hcols1
  set rows2 := eraseIdxs (List.range m2) [rc, rd] with hrows2
  set cols2 := eraseIdxs (List.range n2) [c2] with hcols2
  have mr1 : ∀ x ∈ rows1, x < m1 := fun x hx => ((mem_eraseIdxs_range m1 [ra, rb] x).mp hx).1
  have mc1 : ∀ x ∈ cols1, x < n1 ∧ x ≠ c1 := fun x hx => by
    have := (mem_eraseIdxs_range n1 [c1] x).mp hx; simpa using this
  have mr2 : ∀ x ∈ rows2, x < m2 := fun x hx => ((mem_eraseIdxs_range m2 [rc, rd] x).mp hx).1
  have mc2 : ∀ x ∈ cols2, x < n2 ∧ x ≠ c2 := fun x hx => by
    have := (mem_eraseIdxs_range n2 [c2] x).mp hx; simpa using this
  have key := isTU_rankOne_lists M1 M2 hTU1 hTU2 rows1 cols1 rows2 cols2 mr1 (fun x hx => (mc1 x hx).1)
    mr2 (fun x hx => (mc2 x hx).1) ra rb c1 c1 rd rc c2 c2 hra hrb hc1 hc1 hrd hrc hc2 hc2 (ent M1 rb c1) hpm
    hz1 rfl (fun _ _ => rfl)
    (fun y hy => by
      have := hcp1 y (mc1 y hy).1 (mc1 y hy).2
      rw [q1 _ hra _ (mc1 y hy).1, q1 _ hrb _ (mc1 y hy).1] at this
      exact this.symm)
    hz2 he2 (fun _ _ => rfl)
    (fun y hy => by
      have := hcp2 y (mc2 y hy).1 (mc2 y hy).2
      rw [q2 _ hrc _ (mc2 y hy).1, q2 _ hrd _ (mc2 y hy).1] at this
      exact this.symm)
  rw [← key]
  apply isTU_congr
  intro i hi j hj
  rw [Cmr.ent_blockMat _ _ _ _ _ _ _ _ hi hj, Cmr.ent_blockMat _ _ _ _ _ _ _ _ hi hj]
  have gr1 : ∀ i, i < rows1.length → rows1.getD i 0 < m1 := fun i hi => mr1 _ (getD_mem_of_lt hi)
  have gc1 : ∀ j, j < cols1.length → cols1.getD j 0 < n1 := fun j hj => (mc1 _ (getD_mem_of_lt hj)).1
  have gr2 : ∀ i, i < rows2.length → rows2.getD i 0 < m2 := fun i hi => mr2 _ (getD_mem_of_lt hi)
  have gc2 : ∀ j, j < cols2.length → cols2.getD j 0 < n2 := fun j hj => (mc2 _ (getD_mem_of_lt hj)).1
  by_cases h1 : i < rows1.length <;> by_cases h2 : j < cols1.length <;> simp only [h1, h2, if_true, if_false]
  · exact q1 _ (gr1 i h1) _ (gc1 j h2)
  · exact normChar_three_of_ternary (ternary_mul (t1 _ (gr1 i h1) _ hc1) (t2 _ hrc _ (gc2 _ (by omega))))
  · exact normChar_three_of_ternary (ternary_mul (t2 _ (gr2 _ (by omega)) _ hc2) (t1 _ hra _ (gc1 j h2)))
  · exact q2 _ (gr2 _ (by omega)) _ (gc2 _ (by omega))

end Cmr.Props.C12Delta
