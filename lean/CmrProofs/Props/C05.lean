/-
  Property C05 — graphic/cographic recognition is exact; the returned graph reproduces the matrix.

  Model: `Cmr/Graph.lean` (`checkGraphCert … false` = the certificate checker: forest/coforest partition the edge set,
  the forest is a spanning forest, and the fundamental-cycle matrix `cycleMatrix T coT false` = `M(G,T)` equals the
  matrix; `isGraphic` = binary ∧ brute-force search `graphicSearch` over all trees on nodes `0…m` whose edge `i` is
  row `i`, every column support being a tree path according to the decider `supportIsPath`).
  Tie: op `graphic` — every `yes` of `CMRgraphicTestMatrix` / `CMRgraphicTestTranspose` that comes with a graph is
  decided by `checkGraphCert m n M g forest coforest false` (any size); every `no` (and every `yes` without a graph)
  on at most 5 rows is compared with `isGraphic`; non-binary input must be answered `no`.

  What is proved: acceptance by the checker means `M = M(G,T)` entry for entry (`checkGraphCert_sound`,
  `cert_entries`), the exact shape of the oracle (`isGraphic_def`, `isGraphic_nonbinary`) and that the tree returned by
  the search passes the decider on every column (`graphicSearch_sound`).  Completeness of the search oracle with respect
  to the declarative notion is not proved here.
-/
import CmrProofs.Lemmas.GraphLemmas

set_option linter.unusedSimpArgs false
set_option linter.unusedVariables false

namespace Cmr.Props.C05
open Cmr

/-- Acceptance of a graph certificate (unsigned case) unfolds to: the sizes fit, forest and coforest together list every
edge of `g` exactly once, both id lists resolve to edges of `g` (position by position), the forest edges form a
spanning forest of `g`, and the fundamental-cycle matrix of forest/coforest is exactly `M`. -/
theorem checkGraphCert_sound {m n : Nat} {M : Mat} {g : Graph} {forest coforest : List Nat}
    (h : checkGraphCert m n M g forest coforest false = .ok ()) :
    forest.length = m ∧ coforest.length = n ∧ (forest ++ coforest).Nodup ∧
    (∀ e ∈ g.edges, e.id ∈ forest ++ coforest) ∧ (forest ++ coforest).length = g.edges.length ∧
    ∃ T coT, g.edgesOf forest = some T ∧ g.edgesOf coforest = some coT ∧
      T.length = m ∧ coT.length = n ∧
      (∀ i (hi : i < forest.length) (hi' : i < T.length), T[i] ∈ g.edges ∧ (T[i]).id = forest[i]) ∧
      (∀ j (hj : j < coforest.length) (hj' : j < coT.length), coT[j] ∈ g.edges ∧ (coT[j]).id = coforest[j]) ∧
      isSpanningForest g T = true ∧ cycleMatrix T coT false = some M := by
  obtain ⟨h1, h2, h3, h4, h5, T, coT, hT, hcoT, hsp, hC⟩ := (checkGraphCert_ok_iff _ _ _ _ _ _ _).mp h
  obtain ⟨hTl, hTe⟩ := edgesOf_spec hT
  obtain ⟨hcl, hce⟩ := edgesOf_spec hcoT
  exact ⟨h1, h2, h3, h4, h5, T, coT, hT, hcoT, by omega, by omega, hTe, hce, hsp, hC⟩

/-- The converse: these conditions are also sufficient (the checker tests nothing else). -/
theorem checkGraphCert_complete {m n : Nat} {M : Mat} {g : Graph} {forest coforest : List Nat} {T coT : List Edge}
    (h1 : forest.length = m) (h2 : coforest.length = n) (h3 : (forest ++ coforest).Nodup)
    (h4 : ∀ e ∈ g.edges, e.id ∈ forest ++ coforest) (h5 : (forest ++ coforest).length = g.edges.length)
    (hT : g.edgesOf forest = some T) (hcoT : g.edgesOf coforest = some coT) (hsp : isSpanningForest g T = true)
    (hC : cycleMatrix T coT false = some M) :
    checkGraphCert m n M g forest coforest false = .ok () :=
  (checkGraphCert_ok_iff _ _ _ _ _ _ _).mpr ⟨h1, h2, h3, h4, h5, T, coT, hT, hcoT, hsp, hC⟩

/-- `M = M(G,T)` entry for entry: an accepted certificate provides, for every column `j`, a walk in the forest between
the two ends of coforest edge `j` that uses pairwise distinct forest edges, such that `M[i][j] = 1` if forest edge `i`
lies on it and `M[i][j] = 0` otherwise. -/
theorem cert_entries {m n : Nat} {M : Mat} {g : Graph} {forest coforest : List Nat}
    (h : checkGraphCert m n M g forest coforest false = .ok ()) :
    ∃ T coT, g.edgesOf forest = some T ∧ g.edgesOf coforest = some coT ∧ T.length = m ∧ coT.length = n ∧
      isSpanningForest g T = true ∧ isForest g T = true ∧ M.wf m n = true ∧
      ∀ j (hj : j < coT.length), ∃ p, IsWalk T (coT[j]).tail (coT[j]).head p ∧ (p.map Prod.fst).Nodup ∧
        ∀ i, i < m → ent M i j = if i ∈ p.map Prod.fst then 1 else 0 := by
  obtain ⟨_, _, _, _, _, T, coT, hT, hcoT, hTl, hcl, _, _, hsp, hC⟩ := checkGraphCert_sound h
  obtain ⟨hwf, he⟩ := cycleMatrix_spec hC
  refine ⟨T, coT, hT, hcoT, hTl, hcl, hsp, isSpanningForest_isForest hsp, by rw [← hTl, ← hcl]; exact hwf, ?_⟩
  intro j hj
  obtain ⟨p, w, nd, hp⟩ := he j hj
  refine ⟨p, w, nd, ?_⟩
  intro i hi
  rw [hp i (by omega), pathEntry_unsigned]

/-- In particular an accepted matrix is a well-formed 0/1 matrix. -/
theorem cert_binary {m n : Nat} {M : Mat} {g : Graph} {forest coforest : List Nat}
    (h : checkGraphCert m n M g forest coforest false = .ok ()) : M.wf m n = true ∧ isBinary M = true := by
  obtain ⟨T, coT, _, _, _, _, _, _, hwf, _⟩ := cert_entries h
  obtain ⟨_, _, _, _, _, T, coT, _, _, _, _, _, _, _, hC⟩ := checkGraphCert_sound h
  exact ⟨hwf, cycleMatrix_binary hC⟩

/-- The oracle is, by definition, "binary and the tree search succeeds". -/
theorem isGraphic_def (m n : Nat) (M : Mat) :
    isGraphic m n M = true ↔ isBinary M = true ∧ ∃ T, graphicSearch m n M = some T := by
  simp [isGraphic, Option.isSome_iff_exists]

/-- Non-binary matrices are not graphic. -/
theorem isGraphic_nonbinary {m n : Nat} {M : Mat} (h : isBinary M = false) : isGraphic m n M = false := by
  simp [isGraphic, h]

theorem mem_parentFns {m : Nat} : ∀ {k : Nat} {p : List Nat}, p ∈ parentFns m k → p.length = k ∧ ∀ x ∈ p, x ≤ m := by
  intro k
  induction k with
  | zero => intro p hp; simp [parentFns] at hp; subst hp; simp
  | succ k ih =>
    intro p hp
    simp only [parentFns, List.mem_flatMap, List.mem_map, List.mem_range] at hp
    obtain ⟨q, hq, x, hx, rfl⟩ := hp
    obtain ⟨h1, h2⟩ := ih hq
    refine ⟨by simp [h1], ?_⟩
    intro y hy
    rcases List.mem_append.mp hy with hy | hy
    · exact h2 y hy
    · simp at hy; omega

theorem parentEdges_length (p : List Nat) : (parentEdges p).length = p.length := by
  simp [parentEdges]

theorem parentEdges_getElem? (p : List Nat) (i : Nat) :
    (parentEdges p)[i]? = (p[i]?).map (fun par => ({ id := i, u := i + 1, v := par } : Edge)) := by
  simp [parentEdges, List.getElem?_map, List.getElem?_zipIdx]
  cases p[i]? <;> simp

/-- The tree returned by the search has one edge per row, edge `i` carries id `i` and joins node `i+1` to a node of
`0…m`, it is accepted as a forest on the nodes `0…m` (hence, having `m` edges on `m+1` nodes, a spanning tree), and every
column support of `M` is a path of it according to the decider `supportIsPath`. -/
theorem graphicSearch_sound {m n : Nat} {M : Mat} {T : List Edge} (h : graphicSearch m n M = some T) :
    T.length = m ∧
    (∀ i, i < m → ∃ par, par ≤ m ∧ T[i]? = some { id := i, u := i + 1, v := par }) ∧
    (forestLabels (List.range (m+1)) T).isSome = true ∧
    ∀ j, j < n → supportIsPath T ((List.range m).filter (fun i => ent M i j != 0)) = true := by
  unfold graphicSearch at h
  obtain ⟨p, hp, h2⟩ := List.exists_of_findSome?_eq_some h
  simp only at h2
  split at h2
  · rename_i hc
    simp only [Option.some.injEq] at h2
    subst h2
    simp only [Bool.and_eq_true, List.all_eq_true, List.mem_range] at hc
    obtain ⟨hlen, hle⟩ := mem_parentFns hp
    refine ⟨by rw [parentEdges_length, hlen], ?_, hc.1, hc.2⟩
    intro i hi
    have hi' : i < p.length := by omega
    refine ⟨p[i], hle _ (List.getElem_mem hi'), ?_⟩
    rw [parentEdges_getElem?, List.getElem?_eq_getElem hi']
    rfl
  · cases h2

/-- Non-vacuity: the triangle with forest `{0,1}` and coforest `{2}` realises `[[1],[1]]`; the checker accepts it, rejects
a wrong matrix and a non-spanning forest; the oracle agrees, and refuses a non-binary matrix. -/
example :
    let g : Graph := { nodes := [0, 1, 2], edges := [⟨0, 0, 1, false⟩, ⟨1, 1, 2, false⟩, ⟨2, 0, 2, false⟩] }
    cycleMatrix [⟨0, 0, 1, false⟩, ⟨1, 1, 2, false⟩] [⟨2, 0, 2, false⟩] false = some [[1], [1]] ∧
    treePath [⟨0, 0, 1, false⟩, ⟨1, 1, 2, false⟩] 2 [] 0 2 = some [(0, true), (1, true)] ∧
    checkGraphCert 2 1 [[1], [1]] g [0, 1] [2] false = .ok () ∧
    checkGraphCert 2 1 [[1], [0]] g [0, 1] [2] false ≠ .ok () ∧
    checkGraphCert 1 2 [[1, 1]] g [0] [1, 2] false ≠ .ok () ∧
    checkGraphCert 2 1 [[1], [1]] g [1, 2] [0] false = .ok () ∧
    isGraphic 2 1 [[1], [1]] = true ∧ isGraphic 2 1 [[1], [2]] = false := by
  decide

example : graphicSearch 2 2 [[1, 1], [1, 0]] = some [⟨0, 1, 0, false⟩, ⟨1, 2, 0, false⟩] := by decide

/-- the Fano matrix F7 is refused by the oracle, the cycle matrix of K4 minus a star (triangle supports) is accepted -/
example : isGraphic 3 4 [[1, 1, 0, 1], [1, 0, 1, 1], [0, 1, 1, 1]] = false ∧
    isGraphic 3 3 [[1, 1, 0], [1, 0, 1], [0, 1, 1]] = true := by decide

end Cmr.Props.C05
