/-
  Property C10 (extension) — the pivot entries of the relation table for the dual graph classes:
    * cographicness (`isCographic`) of a 0/1 matrix is invariant under a GF(2) pivot (`cog_V2`, `cog_step_V2`);
    * being a conetwork matrix (`isConetwork`) is invariant under a GF(3) pivot of a matrix with entries `0, 1, -1`
      (`con_V3`, `con_step_V3`).

  Route.  The library-convention pivot is symmetric under transposition (`pivotRaw_transpose`), hence
  `transpose (pivot2 M r c) = pivot2 (transpose M) c r` (`transpose_pivot2`, same for `pivot3`).  Since
  `isCographic m n M` is `isGraphic n m (transpose m n M)`, the statements reduce to `C10GraphicPivot.gra_V2` and
  `C10GraphicPivot.net_V3` applied to the transpose.
-/
import CmrProofs.Props.C10GraphicPivot

set_option linter.unusedSimpArgs false
set_option linter.unusedVariables false

namespace Cmr.Props.C10CographicPivot
open Cmr Cmr.Props.C10Pivot Cmr.Props.C10GraphicPivot

theorem entT {m n : Nat} (M : Mat) {i j : Nat} (hi : i < n) (hj : j < m) :
    ent (transpose m n M) i j = ent M j i := by
  rw [transpose, ent_ofFn _ hi hj]

/-- the library pivot is symmetric under transposition, entrywise -/
theorem pivotRaw_transpose {m n : Nat} (M : Mat) {r c i j : Nat} (hr : r < m) (hc : c < n) (hi : i < m) (hj : j < n) :
    pivotRaw (transpose m n M) c r j i = pivotRaw M r c i j := by
  simp only [pivotRaw, entT M hc hr, entT M hj hr, entT M hc hi, entT M hj hi]
  by_cases h1 : i = r <;> by_cases h2 : j = c <;> simp [h1, h2, Int.mul_assoc, Int.mul_comm, Int.mul_left_comm]

theorem transpose_pivot2 {m n : Nat} (M : Mat) {r c : Nat} (hr : r < m) (hc : c < n) :
    transpose m n (pivot2 m n M r c) = pivot2 n m (transpose m n M) c r := by
  apply mat_ext (wf_transpose m n _) (C13.pivot_wf2 n m _ c r)
  intro j hj i hi
  rw [entT _ hj hi, pivot2, pivot2, ent_ofFn _ hi hj, ent_ofFn _ hj hi, pivotRaw_transpose M hr hc hi hj]

theorem transpose_pivot3 {m n : Nat} (M : Mat) {r c : Nat} (hr : r < m) (hc : c < n) :
    transpose m n (pivot3 m n M r c) = pivot3 n m (transpose m n M) c r := by
  apply mat_ext (wf_transpose m n _) (C13.pivot_wf3 n m _ c r)
  intro j hj i hi
  rw [entT _ hj hi, pivot3, pivot3, ent_ofFn _ hi hj, ent_ofFn _ hj hi, pivotRaw_transpose M hr hc hi hj]

theorem isBinary_transpose' {m n : Nat} {M : Mat} (hwf : M.wf m n = true) (hb : isBinary M = true) :
    isBinary (transpose m n M) = true := by
  unfold transpose
  exact isBinary_ofFn (fun j hj i hi => ent_binary hwf hb hi hj)

/-- **Cographicness of a 0/1 matrix is invariant under a GF(2) pivot.** -/
theorem cog_V2 {m n : Nat} {M : Mat} (hwf : M.wf m n = true) (hb : isBinary M = true) {r c : Nat}
    (hok : pivotOk2 m n M r c = true) : isCographic m n (pivot2 m n M r c) = isCographic m n M := by
  obtain ⟨hr, hc, hp⟩ := pivotOk2_iff.mp hok
  have hok' : pivotOk2 n m (transpose m n M) c r = true := by
    rw [pivotOk2_iff]
    exact ⟨hc, hr, by rw [entT M hc hr]; exact hp⟩
  unfold isCographic
  rw [transpose_pivot2 M hr hc]
  exact gra_V2 (wf_transpose m n M) (isBinary_transpose' hwf hb) hok'

/-- **Being a conetwork matrix is invariant under a GF(3) pivot (entries `0, ±1`).** -/
theorem con_V3 {m n : Nat} {M : Mat} (hwf : M.wf m n = true) (ht : isTernary M = true) {r c : Nat}
    (hok : pivotOk3 m n M r c = true) : isConetwork m n (pivot3 m n M r c) = isConetwork m n M := by
  obtain ⟨hr, hc, hp⟩ := pivotOk3_iff'.mp hok
  have hok' : pivotOk3 n m (transpose m n M) c r = true := by
    rw [pivotOk3_iff']
    exact ⟨hc, hr, by rw [entT M hc hr]; exact hp⟩
  unfold isConetwork
  rw [transpose_pivot3 M hr hc]
  exact net_V3 (wf_transpose m n M) ((isTernary_transpose hwf).trans ht) hok'

/-! ## Lift to the step table -/

/-- the step `V2 r c` of the table, class `cog` -/
theorem cog_step_V2 {r c : Nat} {m n : Nat} {M : Mat} {m' n' : Nat} {M' : Mat}
    (h : (Step.V2 r c).apply m n M = some (m', n', M')) (hwf : M.wf m n = true) (hb : isBinary M = true) :
    isCographic m' n' M' = isCographic m n M := by
  simp only [Step.apply] at h
  split at h
  · rename_i hok
    simp only [Option.some.injEq, Prod.mk.injEq] at h
    obtain ⟨rfl, rfl, rfl⟩ := h
    exact cog_V2 hwf hb hok
  · cases h

/-- the step `V3 r c` of the table, class `con` -/
theorem con_step_V3 {r c : Nat} {m n : Nat} {M : Mat} {m' n' : Nat} {M' : Mat}
    (h : (Step.V3 r c).apply m n M = some (m', n', M')) (hwf : M.wf m n = true) (ht : isTernary M = true) :
    isConetwork m' n' M' = isConetwork m n M := by
  simp only [Step.apply] at h
  split at h
  · rename_i hok
    simp only [Option.some.injEq, Prod.mk.injEq] at h
    obtain ⟨rfl, rfl, rfl⟩ := h
    exact con_V3 hwf ht hok
  · cases h


end Cmr.Props.C10CographicPivot
