/-
  C05 — graphic matrices are regular (restated from `CmrProofs/Props/C06TU.lean`, where network matrices are proved totally
  unimodular, so that the C05 audit covers them): a 'yes' of the graphicness oracle, and every certificate accepted by the
  checker, implies that some signing of the matrix is totally unimodular.
-/
import CmrProofs.Props.C06TU
namespace Cmr.Props.C05Regular
open Cmr Cmr.Props.C06TU

theorem cycle_matrix_regular {g : Graph} {T coT : List Edge} {M : Mat} (hsp : isSpanningForest g T = true)
    (hM : cycleMatrix T coT false = some M) : isRegular coT.length M = true :=
  graphic_isRegular hsp hM

theorem oracle_yes_regular {m n : Nat} {M : Mat} (h : isGraphic m n M = true) (hwf : M.wf m n = true) :
    isRegular n M = true :=
  isGraphic_isRegular h hwf

theorem certificate_regular {m n : Nat} {M : Mat} {g : Graph} {forest coforest : List Nat}
    (h : checkGraphCert m n M g forest coforest false = .ok ()) : isRegular n M = true :=
  checkGraphCert_isRegular h

end Cmr.Props.C05Regular
