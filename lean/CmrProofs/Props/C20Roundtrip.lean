/-
  Property C20 — "text formats round-trip": writing a matrix (dense or sparse format) or a submatrix with the
  library's printers and reading the bytes back with the library's readers gives the original object.

  Model: the readers are `parseDenseText`, `parseSparseText`, `parseSubmatText` of `Cmr/Text.lean`; the writers are
  `renderDense`, `renderSparse`, `renderSubmat` of `Cmr/Render.lean`, which reproduce byte for byte what
  `CMR*matPrintDense`, `CMR*matPrintSparse`, `CMRsubmatPrint` emit (the observed sample strings are `example`s there).

  Proved here, for all sizes and all matrices (no bound other than the parser's own header guard, carried as the
  hypotheses `m ≤ 2147483647`, `n ≤ 2147483647`):
  * `intTok_renderInt`, `natTok_renderNat` — a printed number reads back as that number;
  * `tokenizeBytes_tok`, `tokenizeBytes_space`, `tokenizeBytes_run`, `tokenizeBytes_stream` — tokenizing a rendered
    stream yields exactly the rendered tokens; instantiated for the three formats in `tokenizeBytes_renderDense`,
    `tokenizeBytes_renderSparse`, `tokenizeBytes_renderSubmat`;
  * `parseDense_renderDense`, `parseSparse_renderSparse`, `parseSubmat_renderSubmat` — the round trips
    (`parseDenseLenient_renderDense` for the lenient dense reader; `…_ofFn` variants without well-formedness).
  Nothing is left partial.
-/
import Cmr.Render
import CmrProofs.Lemmas.MatBasic
set_option linter.unusedSimpArgs false
set_option linter.unusedVariables false
namespace Cmr.Props.C20Roundtrip
open Cmr

/-! ### decimal numbers -/

/-- one step of `digitsVal` -/
def digitStep (acc : Option Nat) (d : Nat) : Option Nat :=
  match acc with
  | none => none
  | some v => if 48 ≤ d && d ≤ 57 then some (10 * v + (d - 48)) else none

theorem digitsVal_eq (ds : List Nat) :
    digitsVal ds = if ds.isEmpty then none else ds.foldl digitStep (some 0) := rfl

/-- a byte string is a token: non-empty and free of whitespace -/
def IsTok (t : List Nat) : Prop := t ≠ [] ∧ ∀ b ∈ t, isSpaceByte b = false

/-- a byte string consists of decimal digits -/
def AllDigits (t : List Nat) : Prop := ∀ b ∈ t, 48 ≤ b ∧ b ≤ 57

theorem natDigitsAux_ne_nil (fuel n : Nat) (h : n < fuel) : natDigitsAux fuel n ≠ [] := by
  cases fuel with
  | zero => omega
  | succ f =>
    unfold natDigitsAux
    split <;> simp

theorem natDigitsAux_allDigits (fuel n : Nat) : AllDigits (natDigitsAux fuel n) := by
  induction fuel generalizing n with
  | zero => intro b hb; simp [natDigitsAux] at hb
  | succ f ih =>
    intro b hb
    unfold natDigitsAux at hb
    split at hb
    · simp at hb; omega
    · rw [List.mem_append] at hb
      rcases hb with hb | hb
      · exact ih _ b hb
      · simp at hb; omega

theorem foldl_natDigitsAux (fuel n : Nat) (h : n < fuel) :
    (natDigitsAux fuel n).foldl digitStep (some 0) = some n := by
  induction fuel generalizing n with
  | zero => omega
  | succ f ih =>
    unfold natDigitsAux
    split
    · rename_i h10
      have h57 : 48 + n ≤ 57 := by omega
      simp [digitStep, h57]
    · rename_i h10
      have h1 : n / 10 < f := by omega
      rw [List.foldl_append, ih _ h1]
      have h57 : 48 + n % 10 ≤ 57 := by omega
      simp [digitStep, h57]
      omega

theorem renderNat_ne_nil (n : Nat) : renderNat n ≠ [] := natDigitsAux_ne_nil _ _ (Nat.lt_succ_self n)
theorem renderNat_allDigits (n : Nat) : AllDigits (renderNat n) := natDigitsAux_allDigits _ _

/-- the decimal digits of `n` evaluate to `n` -/
theorem digitsVal_renderNat (n : Nat) : digitsVal (renderNat n) = some n := by
  rw [digitsVal_eq]
  have := renderNat_ne_nil n
  cases h : renderNat n with
  | nil => exact absurd h this
  | cons d ds =>
    rw [← h]
    simp only [h, List.isEmpty_cons, Bool.false_eq_true, if_false]
    rw [← h]
    exact foldl_natDigitsAux _ _ (Nat.lt_succ_self n)

theorem renderNat_head (n : Nat) : ∃ d ds, renderNat n = d :: ds ∧ 48 ≤ d ∧ d ≤ 57 := by
  have := renderNat_ne_nil n
  have hd := renderNat_allDigits n
  cases h : renderNat n with
  | nil => exact absurd h this
  | cons d ds =>
    rw [h] at hd
    exact ⟨d, ds, rfl, hd d (List.mem_cons_self)⟩

/-- size and index tokens read back -/
theorem natTok_renderNat (n : Nat) : natTok (renderNat n) = some n := by
  obtain ⟨d, ds, h, h1, h2⟩ := renderNat_head n
  have hv := digitsVal_renderNat n
  rw [h] at hv ⊢
  unfold natTok
  split
  · rename_i heq; simp at heq; omega
  · rename_i heq; simp at heq; omega
  · exact hv

theorem intTok_renderNat (n : Nat) : intTok (renderNat n) = some (n : Int) := by
  obtain ⟨d, ds, h, h1, h2⟩ := renderNat_head n
  have hv := digitsVal_renderNat n
  rw [h] at hv ⊢
  unfold intTok
  split
  · rename_i heq; simp at heq; omega
  · rename_i heq; simp at heq; omega
  · rw [hv]; rfl

/-- **decimal rendering of an integer reads back as that integer** -/
theorem intTok_renderInt (z : Int) : intTok (renderInt z) = some z := by
  cases z with
  | ofNat n => exact intTok_renderNat n
  | negSucc n =>
    show intTok (45 :: renderNat (n + 1)) = _
    simp only [intTok, digitsVal_renderNat, Option.map_some]
    rfl

theorem isSpaceByte_digit {b : Nat} (h : 48 ≤ b ∧ b ≤ 57) : isSpaceByte b = false := by
  unfold isSpaceByte
  have h1 : (b == 32) = false := by simp; omega
  have h2 : (9 ≤ b && b ≤ 13) = false := by simp; omega
  simp [h1, h2]

theorem isTok_renderNat (n : Nat) : IsTok (renderNat n) :=
  ⟨renderNat_ne_nil n, fun b hb => isSpaceByte_digit (renderNat_allDigits n b hb)⟩

theorem isTok_renderInt (z : Int) : IsTok (renderInt z) := by
  cases z with
  | ofNat n => exact isTok_renderNat n
  | negSucc n =>
    refine ⟨by simp [renderInt], ?_⟩
    intro b hb
    simp only [renderInt, List.mem_cons] at hb
    rcases hb with rfl | hb
    · decide
    · exact (isTok_renderNat _).2 b hb


/-! ### the tokenizer -/

/-- one step of the tokenizer's fold -/
def tokStep (p : List Nat × List (List Nat)) (b : Nat) : List Nat × List (List Nat) :=
  if isSpaceByte b then (if p.1.isEmpty then p else ([], p.1.reverse :: p.2)) else (b :: p.1, p.2)

/-- the tokenizer's result from an intermediate state -/
def tokFinish (p : List Nat × List (List Nat)) : List (List Nat) :=
  (if p.1.isEmpty then p.2 else p.1.reverse :: p.2).reverse

def tokFrom (p : List Nat × List (List Nat)) (bs : List Nat) : List (List Nat) :=
  tokFinish (bs.foldl tokStep p)

theorem tokenizeBytes_eq (bs : List Nat) : tokenizeBytes bs = tokFrom ([], []) bs := rfl

theorem tokFrom_cons (p : List Nat × List (List Nat)) (b : Nat) (bs : List Nat) :
    tokFrom p (b :: bs) = tokFrom (tokStep p b) bs := rfl

theorem tokFrom_acc (cur : List Nat) (acc : List (List Nat)) (bs : List Nat) :
    tokFrom (cur, acc) bs = acc.reverse ++ tokFrom (cur, []) bs := by
  induction bs generalizing cur acc with
  | nil =>
    simp only [tokFrom, List.foldl_nil, tokFinish]
    by_cases hc : cur.isEmpty = true <;> simp [hc]
  | cons b bs ih =>
    rw [tokFrom_cons, tokFrom_cons]
    unfold tokStep
    by_cases hb : isSpaceByte b = true
    · by_cases hc : cur.isEmpty = true
      · simp only [hb, hc, if_true]; exact ih cur acc
      · simp only [hb, hc, if_true, if_false, Bool.false_eq_true]
        rw [ih [] (cur.reverse :: acc), ih [] [cur.reverse]]
        simp
    · simp only [hb, if_false, Bool.false_eq_true]
      exact ih (b :: cur) acc

theorem foldl_tokStep_tok (t : List Nat) (ht : ∀ b ∈ t, isSpaceByte b = false) (cur : List Nat)
    (acc : List (List Nat)) : t.foldl tokStep (cur, acc) = (t.reverse ++ cur, acc) := by
  induction t generalizing cur with
  | nil => rfl
  | cons b t ih =>
    have hb := ht b List.mem_cons_self
    rw [List.foldl_cons]
    have : tokStep (cur, acc) b = (b :: cur, acc) := by simp [tokStep, hb]
    rw [this, ih (fun c hc => ht c (List.mem_cons_of_mem _ hc))]
    simp

theorem tokenizeBytes_nil : tokenizeBytes [] = [] := rfl

/-- a leading whitespace byte is skipped -/
theorem tokenizeBytes_space (s : Nat) (hs : isSpaceByte s = true) (rest : List Nat) :
    tokenizeBytes (s :: rest) = tokenizeBytes rest := by
  rw [tokenizeBytes_eq, tokFrom_cons]
  simp [tokStep, hs, tokenizeBytes_eq]

/-- a token followed by a whitespace byte is the first token of the stream -/
theorem tokenizeBytes_tok (t : List Nat) (ht : IsTok t) (s : Nat) (hs : isSpaceByte s = true) (rest : List Nat) :
    tokenizeBytes (t ++ s :: rest) = t :: tokenizeBytes rest := by
  rw [tokenizeBytes_eq, tokenizeBytes_eq]
  unfold tokFrom
  rw [List.foldl_append, foldl_tokStep_tok t ht.2, List.foldl_cons]
  have hne : (t.reverse ++ []).isEmpty = false := by
    cases t with
    | nil => exact absurd rfl ht.1
    | cons a t => simp
  have : tokStep (t.reverse ++ [], []) s = ([], [t]) := by
    simp only [tokStep, hs, if_true, hne, Bool.false_eq_true, if_false]
    simp
  rw [this]
  exact tokFrom_acc [] [t] rest

/-- a run of tokens, each followed by one space -/
theorem tokenizeBytes_run {α : Type} (f : α → List Nat) (hf : ∀ x, IsTok (f x)) (xs : List α) (rest : List Nat) :
    tokenizeBytes (xs.flatMap (fun x => f x ++ [32]) ++ rest) = xs.map f ++ tokenizeBytes rest := by
  induction xs with
  | nil => rfl
  | cons x xs ih =>
    rw [List.flatMap_cons, List.append_assoc, List.append_assoc, List.singleton_append,
      tokenizeBytes_tok _ (hf x) 32 (by decide), ih]
    rfl

/-- leading whitespace is skipped -/
theorem tokenizeBytes_spaces (sp : List Nat) (hsp : ∀ b ∈ sp, isSpaceByte b = true) (rest : List Nat) :
    tokenizeBytes (sp ++ rest) = tokenizeBytes rest := by
  induction sp with
  | nil => rfl
  | cons b sp ih =>
    rw [List.cons_append, tokenizeBytes_space b (hsp b List.mem_cons_self),
      ih (fun c hc => hsp c (List.mem_cons_of_mem _ hc))]

/-- **tokenizing a rendered stream yields exactly the rendered tokens**: any sequence of tokens, each followed by a
non-empty run of whitespace bytes (spaces, newlines, ...), tokenizes to that sequence of tokens. -/
theorem tokenizeBytes_stream (items : List (List Nat × List Nat))
    (h : ∀ p ∈ items, IsTok p.1 ∧ p.2 ≠ [] ∧ ∀ b ∈ p.2, isSpaceByte b = true) :
    tokenizeBytes (items.flatMap (fun p => p.1 ++ p.2)) = items.map (·.1) := by
  induction items with
  | nil => rfl
  | cons p items ih =>
    obtain ⟨h1, h2, h3⟩ := h p List.mem_cons_self
    rw [List.flatMap_cons, List.map_cons]
    cases hsp : p.2 with
    | nil => exact absurd hsp h2
    | cons b sp =>
      rw [hsp] at h3
      rw [List.append_assoc, List.cons_append, tokenizeBytes_tok _ h1 b (h3 b List.mem_cons_self),
        tokenizeBytes_spaces sp (fun c hc => h3 c (List.mem_cons_of_mem _ hc)),
        ih (fun q hq => h q (List.mem_cons_of_mem _ hq))]

theorem isSpaceByte_32 : isSpaceByte 32 = true := by decide
theorem isSpaceByte_10 : isSpaceByte 10 = true := by decide


/-! ### generic list facts -/

theorem mapM_map_of_left_inv {α β : Type} (f : α → β) (g : β → Option α) (h : ∀ x, g (f x) = some x)
    (l : List α) : (l.map f).mapM g = some l := by
  induction l with
  | nil => rfl
  | cons a l ih => simp [List.mapM_cons, h, ih]

/-- entry `(i, j)` of a well-formed matrix sits at offset `i * n + j` of the concatenation of its rows -/
theorem getD_flatten_of_wf (M : Mat) (m n : Nat) (h : M.wf m n = true) (i j : Nat) (hj : j < n) :
    M.flatten.getD (i * n + j) 0 = ent M i j := by
  induction M generalizing m i with
  | nil => simp [ent]
  | cons r rs ih =>
    have hr : r.length = n := row_length_of_wf h List.mem_cons_self
    have hrs : Mat.wf rs (m - 1) n = true := by
      simp only [Mat.wf, List.length_cons, List.all_cons, Bool.and_eq_true, beq_iff_eq] at h ⊢
      exact ⟨by omega, h.2.2⟩
    cases i with
    | zero =>
      simp only [List.flatten_cons, Nat.zero_mul, Nat.zero_add, ent, List.getD_eq_getElem?_getD,
        List.getElem?_cons_zero, Option.getD_some]
      rw [List.getElem?_append_left (by omega)]
    | succ i =>
      have := ih (m - 1) hrs i
      simp only [ent, List.getD_eq_getElem?_getD, List.getElem?_cons_succ, List.flatten_cons] at this ⊢
      rw [List.getElem?_append_right (by rw [hr, Nat.succ_mul]; omega)]
      rw [← this]
      congr 2
      rw [hr, Nat.succ_mul]; omega

theorem length_flatten_of_wf (M : Mat) (m n : Nat) (h : M.wf m n = true) : M.flatten.length = m * n := by
  induction M generalizing m with
  | nil => simp [Mat.wf] at h; subst h; simp
  | cons r rs ih =>
    have hr : r.length = n := row_length_of_wf h List.mem_cons_self
    have hm : m = rs.length + 1 := by simp [Mat.wf] at h; omega
    have hrs : Mat.wf rs (m - 1) n = true := by
      simp only [Mat.wf, List.length_cons, List.all_cons, Bool.and_eq_true, beq_iff_eq] at h ⊢
      exact ⟨by omega, h.2.2⟩
    rw [List.flatten_cons, List.length_append, ih _ hrs, hr, hm, Nat.add_sub_cancel, Nat.succ_mul]
    omega

/-! ### dense format -/

theorem denseEntries_eq (m n : Nat) (M : Mat) : denseEntries m n M = Mat.ofFn m n (ent M) := rfl

theorem denseEntries_of_wf (m n : Nat) (M : Mat) (h : M.wf m n = true) : denseEntries m n M = M := by
  rw [denseEntries_eq, ofFn_ent h]

/-- lines of entries, each entry followed by a space and each line by a newline -/
theorem tokenizeBytes_rows (rows : List (List Int)) (rest : List Nat) :
    tokenizeBytes (rows.flatMap (fun row => row.flatMap (fun x => renderInt x ++ [32]) ++ [10]) ++ rest)
      = rows.flatten.map renderInt ++ tokenizeBytes rest := by
  induction rows with
  | nil => rfl
  | cons r rs ih =>
    rw [List.flatMap_cons, List.append_assoc, List.append_assoc, tokenizeBytes_run renderInt isTok_renderInt,
      List.singleton_append, tokenizeBytes_space 10 isSpaceByte_10, ih]
    simp

/-- **tokenizing a rendered dense matrix yields exactly the rendered tokens** -/
theorem tokenizeBytes_renderDense (m n : Nat) (M : Mat) :
    tokenizeBytes (renderDense m n M)
      = renderNat m :: renderNat n :: (denseEntries m n M).flatten.map renderInt := by
  unfold renderDense
  rw [tokenizeBytes_tok _ (isTok_renderNat m) 32 isSpaceByte_32,
    tokenizeBytes_tok _ (isTok_renderNat n) 10 isSpaceByte_10]
  have := tokenizeBytes_rows (denseEntries m n M) []
  rw [List.append_nil] at this
  rw [this, tokenizeBytes_nil, List.append_nil]

/-- Round trip of the dense format, no well-formedness assumed: the parser returns the `m × n` matrix of the
entries `ent M i j` that the writer printed. -/
theorem parseDenseWith_renderDense_ofFn (tokf : List Nat → Option Int) (htok : ∀ z, tokf (renderInt z) = some z)
    (lo hi : Int) (m n : Nat) (M : Mat)
    (hm : m ≤ 2147483647) (hn : n ≤ 2147483647)
    (hrange : ∀ i, i < m → ∀ j, j < n → lo ≤ ent M i j ∧ ent M i j ≤ hi) :
    parseDenseTextWith tokf lo hi (renderDense m n M) = .ok m n (Mat.ofFn m n (ent M)) := by
  have hwf : (denseEntries m n M).wf m n = true := wf_ofFn m n _
  have hlen : ((denseEntries m n M).flatten.map renderInt).length = m * n := by
    rw [List.length_map, length_flatten_of_wf _ _ _ hwf]
  unfold parseDenseTextWith
  rw [tokenizeBytes_renderDense]
  simp only [natTok_renderNat]
  have h1 : (m > 2147483647 || n > 2147483647) = false := by simp; omega
  have h2 : ¬ ((denseEntries m n M).flatten.map renderInt).length < m * n := by omega
  have h3 : ¬ ((denseEntries m n M).flatten.map renderInt).length > m * n := by omega
  rw [h1]
  simp only [Bool.false_eq_true, if_false, h2, h3]
  rw [List.take_of_length_le (by omega), mapM_map_of_left_inv renderInt tokf htok]
  have hall : ((denseEntries m n M).flatten.all (fun v => decide (lo ≤ v) && decide (v ≤ hi))) = true := by
    rw [List.all_eq_true]
    intro v hv
    rw [List.mem_flatten] at hv
    obtain ⟨row, hrow, hv⟩ := hv
    simp only [denseEntries, List.mem_map, List.mem_range] at hrow
    obtain ⟨i, hi', rfl⟩ := hrow
    simp only [List.mem_map, List.mem_range] at hv
    obtain ⟨j, hj', rfl⟩ := hv
    have := hrange i hi' j hj'
    simp [this.1, this.2]
  simp only [hall, if_true]
  congr 1
  apply ofFn_congr
  intro i hi' j hj'
  rw [getD_flatten_of_wf _ m n hwf i j hj', denseEntries_eq, ent_ofFn _ hi' hj']

theorem parseDense_renderDense_ofFn (lo hi : Int) (m n : Nat) (M : Mat)
    (hm : m ≤ 2147483647) (hn : n ≤ 2147483647)
    (hrange : ∀ i, i < m → ∀ j, j < n → lo ≤ ent M i j ∧ ent M i j ≤ hi) :
    parseDenseText lo hi (renderDense m n M) = .ok m n (Mat.ofFn m n (ent M)) :=
  parseDenseWith_renderDense_ofFn intTok intTok_renderInt lo hi m n M hm hn hrange

/-- **C20, dense round trip.**  A well-formed `m × n` matrix with entries in `[lo, hi]`, written in the dense
format, is read back unchanged.  The two size hypotheses are the parser's header guard (`int` sizes). -/
theorem parseDense_renderDense (lo hi : Int) (m n : Nat) (M : Mat) (hwf : M.wf m n = true)
    (hm : m ≤ 2147483647) (hn : n ≤ 2147483647)
    (hrange : ∀ row ∈ M, ∀ x ∈ row, lo ≤ x ∧ x ≤ hi) :
    parseDenseText lo hi (renderDense m n M) = .ok m n M := by
  rw [parseDense_renderDense_ofFn lo hi m n M hm hn, ofFn_ent hwf]
  intro i hi' j hj'
  obtain ⟨row, hrow, hx⟩ := ent_mem_of_lt hwf hi' hj'
  exact hrange row hrow _ hx


/-! ### the lenient reader (`strtod`-style entries) accepts the written files too -/

theorem takeWhile_allDigits (t : List Nat) (h : AllDigits t) :
    t.takeWhile (· != 46) = t ∧ t.dropWhile (· != 46) = [] := by
  induction t with
  | nil => exact ⟨rfl, rfl⟩
  | cons b t ih =>
    have hb := h b List.mem_cons_self
    have h46 : (b != 46) = true := by simp; omega
    have := ih (fun c hc => h c (List.mem_cons_of_mem _ hc))
    simp [List.takeWhile_cons, List.dropWhile_cons, h46, this.1, this.2]

/-- the lenient reader after the sign has been split off -/
def lenientBody (sign : Int) (body : List Nat) : Option Int :=
  match body.dropWhile (· != 46) with
  | [] => (digitsVal (body.takeWhile (· != 46))).map (fun v => sign * (v : Int))
  | _ :: zs =>
    if !(zs.all (· == 48)) then none
    else if (body.takeWhile (· != 46)).isEmpty then (if zs.isEmpty then none else some 0)
    else (digitsVal (body.takeWhile (· != 46))).map (fun v => sign * (v : Int))

theorem intTokLenient_minus (ds : List Nat) : intTokLenient (45 :: ds) = lenientBody (-1) ds := rfl

theorem intTokLenient_digit (d : Nat) (ds : List Nat) (h : 48 ≤ d) :
    intTokLenient (d :: ds) = lenientBody 1 (d :: ds) := by
  unfold intTokLenient
  split
  rename_i heq
  split at heq
  · rename_i h45; simp at h45; omega
  · rename_i h43; simp at h43; omega
  · cases heq; rfl

theorem lenientBody_digits (sign : Int) (body : List Nat) (h : AllDigits body) :
    lenientBody sign body = (digitsVal body).map (fun v => sign * (v : Int)) := by
  unfold lenientBody
  rw [(takeWhile_allDigits body h).1, (takeWhile_allDigits body h).2]

theorem intTokLenient_renderInt (z : Int) : intTokLenient (renderInt z) = some z := by
  cases z with
  | ofNat n =>
    obtain ⟨d, ds, h, h1, h2⟩ := renderNat_head n
    have hv := digitsVal_renderNat n
    have hd := renderNat_allDigits n
    show intTokLenient (renderNat n) = _
    rw [h] at hv hd ⊢
    rw [intTokLenient_digit d ds h1, lenientBody_digits 1 _ hd, hv]
    show some (1 * (n : Int)) = some (n : Int)
    rw [Int.one_mul]
  | negSucc n =>
    show intTokLenient (45 :: renderNat (n + 1)) = _
    rw [intTokLenient_minus, lenientBody_digits _ _ (renderNat_allDigits (n + 1)), digitsVal_renderNat]
    show some (-1 * ((n + 1 : Nat) : Int)) = some (Int.negSucc n)
    congr 1
    omega

/-- dense round trip through the lenient reader `parseDenseTextLenient` -/
theorem parseDenseLenient_renderDense (lo hi : Int) (m n : Nat) (M : Mat) (hwf : M.wf m n = true)
    (hm : m ≤ 2147483647) (hn : n ≤ 2147483647)
    (hrange : ∀ row ∈ M, ∀ x ∈ row, lo ≤ x ∧ x ≤ hi) :
    parseDenseTextLenient lo hi (renderDense m n M) = .ok m n M := by
  unfold parseDenseTextLenient
  rw [parseDenseWith_renderDense_ofFn intTokLenient intTokLenient_renderInt lo hi m n M hm hn, ofFn_ent hwf]
  intro i hi' j hj'
  obtain ⟨row, hrow, hx⟩ := ent_mem_of_lt hwf hi' hj'
  exact hrange row hrow _ hx

/-! ### sparse format -/

/-- the three tokens of a nonzero's line -/
def tripleToks (t : Nat × Nat × Int) : List (List Nat) :=
  [renderNat (t.1 + 1), renderNat (t.2.1 + 1), renderInt t.2.2]

/-- the three numbers of a nonzero's line (1-based position, value) -/
def intTriple (t : Nat × Nat × Int) : Int × Int × Int := (((t.1 + 1 : Nat) : Int), ((t.2.1 + 1 : Nat) : Int), t.2.2)

theorem tokenizeBytes_tripleLines (ts : List (Nat × Nat × Int)) :
    tokenizeBytes (ts.flatMap (fun t =>
      renderNat (t.1 + 1) ++ 32 :: (renderNat (t.2.1 + 1) ++ 32 :: (renderInt t.2.2 ++ [10]))))
      = ts.flatMap tripleToks := by
  induction ts with
  | nil => rfl
  | cons t ts ih =>
    rw [List.flatMap_cons, List.flatMap_cons]
    simp only [List.append_assoc, List.cons_append, List.nil_append]
    rw [tokenizeBytes_tok _ (isTok_renderNat _) 32 isSpaceByte_32,
      tokenizeBytes_tok _ (isTok_renderNat _) 32 isSpaceByte_32,
      tokenizeBytes_tok _ (isTok_renderInt _) 10 isSpaceByte_10, ih]
    rfl

/-- **tokenizing a rendered sparse matrix yields exactly the rendered tokens** -/
theorem tokenizeBytes_renderSparse (m n : Nat) (M : Mat) :
    tokenizeBytes (renderSparse m n M)
      = renderNat m :: renderNat n :: renderNat (sparseTriples m n M).length ::
          (sparseTriples m n M).flatMap tripleToks := by
  unfold renderSparse
  rw [tokenizeBytes_tok _ (isTok_renderNat m) 32 isSpaceByte_32,
    tokenizeBytes_tok _ (isTok_renderNat n) 32 isSpaceByte_32,
    tokenizeBytes_tok _ (isTok_renderNat _) 10 isSpaceByte_10,
    tokenizeBytes_space 10 isSpaceByte_10, tokenizeBytes_tripleLines]

theorem length_flatMap_tripleToks (ts : List (Nat × Nat × Int)) : (ts.flatMap tripleToks).length = 3 * ts.length := by
  induction ts with
  | nil => rfl
  | cons t ts ih => rw [List.flatMap_cons, List.length_append, ih, List.length_cons]; simp [tripleToks]; omega

theorem mapM_intTok_tripleToks (ts : List (Nat × Nat × Int)) :
    (ts.flatMap tripleToks).mapM intTok = some (ts.flatMap (fun t => [(intTriple t).1, (intTriple t).2.1, (intTriple t).2.2])) := by
  induction ts with
  | nil => rfl
  | cons t ts ih =>
    rw [List.flatMap_cons, List.flatMap_cons]
    simp [tripleToks, List.mapM_cons, intTok_renderNat, intTok_renderInt, ih, intTriple]

theorem triples_flatMap (ts : List (Nat × Nat × Int)) :
    triples (ts.flatMap (fun t => [(intTriple t).1, (intTriple t).2.1, (intTriple t).2.2])) = ts.map intTriple := by
  induction ts with
  | nil => rfl
  | cons t ts ih =>
    rw [List.flatMap_cons]
    simp only [List.cons_append, List.nil_append, triples, ih, List.map_cons]

theorem mem_sparseTriples {m n : Nat} {M : Mat} {t : Nat × Nat × Int} :
    t ∈ sparseTriples m n M ↔ t.1 < m ∧ t.2.1 < n ∧ t.2.2 = ent M t.1 t.2.1 ∧ t.2.2 ≠ 0 := by
  obtain ⟨a, b, v⟩ := t
  simp only [sparseTriples, List.mem_flatMap, List.mem_filterMap, List.mem_range]
  constructor
  · rintro ⟨i, hi, j, hj, h⟩
    split at h
    · rename_i hne
      simp only [Option.some.injEq, Prod.mk.injEq] at h
      obtain ⟨rfl, rfl, rfl⟩ := h
      exact ⟨hi, hj, rfl, by simpa using hne⟩
    · exact absurd h (by simp)
  · rintro ⟨h1, h2, h3, h4⟩
    subst h3
    exact ⟨a, h1, b, h2, by simp [h4]⟩

theorem length_flatMap_le {α β : Type} (f : α → List β) (n : Nat) (l : List α) (h : ∀ x ∈ l, (f x).length ≤ n) :
    (l.flatMap f).length ≤ l.length * n := by
  induction l with
  | nil => simp
  | cons a l ih =>
    rw [List.flatMap_cons, List.length_append, List.length_cons, Nat.succ_mul]
    have h1 := h a List.mem_cons_self
    have h2 := ih (fun x hx => h x (List.mem_cons_of_mem _ hx))
    omega

/-- the parser's guard `nnz ≤ m * n` holds for every written matrix -/
theorem length_sparseTriples_le (m n : Nat) (M : Mat) : (sparseTriples m n M).length ≤ m * n := by
  have := length_flatMap_le (fun i => (List.range n).filterMap (fun j =>
    if ent M i j != 0 then some (i, j, ent M i j) else none)) n (List.range m) (by
      intro i _
      exact Nat.le_trans (List.length_filterMap_le _ _) (by simp))
  simpa [sparseTriples] using this

/-- the nonzeros are written in strictly increasing row-major order -/
theorem sparseTriples_sorted (m n : Nat) (M : Mat) :
    (sparseTriples m n M).Pairwise (fun s t => s.1 < t.1 ∨ (s.1 = t.1 ∧ s.2.1 < t.2.1)) := by
  unfold sparseTriples
  rw [List.pairwise_flatMap]
  constructor
  · intro i _
    rw [List.pairwise_filterMap]
    refine List.Pairwise.imp ?_ List.pairwise_lt_range
    intro a b hab s hs t ht
    split at hs <;> simp at hs
    split at ht <;> simp at ht
    subst hs; subst ht
    exact Or.inr ⟨rfl, hab⟩
  · refine List.Pairwise.imp ?_ List.pairwise_lt_range
    intro a b hab s hs t ht
    simp only [List.mem_filterMap] at hs ht
    obtain ⟨j, _, hs⟩ := hs
    obtain ⟨k, _, ht⟩ := ht
    split at hs <;> simp at hs
    split at ht <;> simp at ht
    subst hs; subst ht
    exact Or.inl hab

theorem eraseDups_of_pairwise_ne {α : Type} [BEq α] [LawfulBEq α] (l : List α) (h : l.Pairwise (· ≠ ·)) :
    l.eraseDups = l := by
  induction l with
  | nil => simp
  | cons a l ih =>
    rw [List.pairwise_cons] at h
    rw [List.eraseDups_cons]
    have : List.filter (fun b => !b == a) l = l := by
      rw [List.filter_eq_self]
      intro b hb
      have := h.1 b hb
      simp only [Bool.not_eq_true', beq_eq_false_iff_ne, ne_eq]
      exact fun e => this e.symm
    rw [this, ih h.2]


theorem intTriple_injOn_pos {s t : Nat × Nat × Int}
    (h : ((intTriple s).1, (intTriple s).2.1) = ((intTriple t).1, (intTriple t).2.1)) :
    s.1 = t.1 ∧ s.2.1 = t.2.1 := by
  simp only [intTriple, Prod.mk.injEq] at h
  omega

/-- positions of the written nonzeros, as the parser collects them -/
theorem filterMap_pos (l : List (Nat × Nat × Int)) (h : ∀ t ∈ l, t.2.2 ≠ 0) :
    (l.map intTriple).filterMap (fun (x : Int × Int × Int) =>
        match x with
        | (r, c, v) => if v != 0 then some (r, c) else none)
      = l.map (fun t => ((intTriple t).1, (intTriple t).2.1)) := by
  induction l with
  | nil => rfl
  | cons a l ih =>
    have ha := h a List.mem_cons_self
    rw [List.map_cons, List.filterMap_cons, ih (fun t ht => h t (List.mem_cons_of_mem _ ht))]
    simp [intTriple, ha]

/-- Round trip of the sparse format, no well-formedness assumed. -/
theorem parseSparse_renderSparse_ofFn (lo hi : Int) (m n : Nat) (M : Mat)
    (hm : m ≤ 2147483647) (hn : n ≤ 2147483647)
    (hrange : ∀ i, i < m → ∀ j, j < n → ent M i j ≠ 0 → lo ≤ ent M i j ∧ ent M i j ≤ hi) :
    parseSparseText lo hi (renderSparse m n M) = .ok m n (Mat.ofFn m n (ent M)) := by
  have hk := length_sparseTriples_le m n M
  have hlen := length_flatMap_tripleToks (sparseTriples m n M)
  have hne : ∀ t ∈ sparseTriples m n M, t.2.2 ≠ 0 := fun t ht => (mem_sparseTriples.mp ht).2.2.2
  unfold parseSparseText
  rw [tokenizeBytes_renderSparse]
  simp only [natTok_renderNat]
  have h1 : (m > 2147483647 || n > 2147483647) = false := by simp; omega
  have h2 : ¬ (sparseTriples m n M).length > m * n := by omega
  have h3 : ¬ ((sparseTriples m n M).flatMap tripleToks).length < 3 * (sparseTriples m n M).length := by omega
  have h4 : ¬ ((sparseTriples m n M).flatMap tripleToks).length > 3 * (sparseTriples m n M).length := by omega
  rw [h1]
  simp only [Bool.false_eq_true, if_false, h2, h3, h4]
  rw [List.take_of_length_le (by omega), mapM_intTok_tripleToks]
  simp only [triples_flatMap]
  have hall : ((sparseTriples m n M).map intTriple).all (fun (x : Int × Int × Int) =>
      match x with
      | (r, c, v) => decide (1 ≤ r) && decide (r ≤ (m : Int)) && decide (1 ≤ c) && decide (c ≤ (n : Int))
          && decide (lo ≤ v) && decide (v ≤ hi)) = true := by
    rw [List.all_eq_true]
    intro x hx
    obtain ⟨t, ht, rfl⟩ := List.mem_map.mp hx
    obtain ⟨ht1, ht2, ht3, ht4⟩ := mem_sparseTriples.mp ht
    have hr := hrange t.1 ht1 t.2.1 ht2 (ht3 ▸ ht4)
    rw [← ht3] at hr
    simp only [intTriple, Bool.and_eq_true]
    refine ⟨⟨⟨⟨⟨?_, ?_⟩, ?_⟩, ?_⟩, ?_⟩, ?_⟩ <;> apply decide_eq_true <;> omega
  rw [hall]
  simp only [Bool.not_true, Bool.false_eq_true, if_false]
  rw [filterMap_pos _ hne]
  have hdup : ((sparseTriples m n M).map (fun t => ((intTriple t).1, (intTriple t).2.1))).eraseDups
      = (sparseTriples m n M).map (fun t => ((intTriple t).1, (intTriple t).2.1)) := by
    apply eraseDups_of_pairwise_ne
    rw [List.pairwise_map]
    refine List.Pairwise.imp ?_ (sparseTriples_sorted m n M)
    intro s t hst heq
    have := intTriple_injOn_pos heq
    omega
  rw [hdup]
  simp only [bne_self_eq_false, Bool.false_eq_true, if_false]
  congr 1
  apply ofFn_congr
  intro i hi' j hj'
  cases hf : ((sparseTriples m n M).map intTriple).find? (fun (x : Int × Int × Int) =>
      match x with
      | (r, c, v) => r == (i : Int) + 1 && c == (j : Int) + 1 && v != 0) with
  | none =>
    rw [List.find?_eq_none] at hf
    simp only [Option.map_none, Option.getD_none]
    by_cases h0 : ent M i j = 0
    · exact h0.symm
    · exfalso
      have hmem : (i, j, ent M i j) ∈ sparseTriples m n M := mem_sparseTriples.mpr ⟨hi', hj', rfl, h0⟩
      have := hf _ (List.mem_map.mpr ⟨_, hmem, rfl⟩)
      simp [intTriple, h0] at this
  | some x =>
    have hx := List.mem_of_find?_eq_some hf
    have hp := List.find?_some hf
    obtain ⟨t, ht, rfl⟩ := List.mem_map.mp hx
    obtain ⟨ht1, ht2, ht3, ht4⟩ := mem_sparseTriples.mp ht
    simp only [intTriple, Bool.and_eq_true, beq_iff_eq, bne_iff_ne, ne_eq] at hp
    simp only [Option.map_some, Option.getD_some, intTriple]
    have e1 : t.1 = i := by omega
    have e2 : t.2.1 = j := by omega
    rw [ht3, e1, e2]

/-- **C20, sparse round trip.**  A well-formed `m × n` matrix whose nonzero entries lie in `[lo, hi]`, written in the
sparse format, is read back unchanged.  (Zero entries are not written, so nothing is required of `lo ≤ 0 ≤ hi`.) -/
theorem parseSparse_renderSparse (lo hi : Int) (m n : Nat) (M : Mat) (hwf : M.wf m n = true)
    (hm : m ≤ 2147483647) (hn : n ≤ 2147483647)
    (hrange : ∀ row ∈ M, ∀ x ∈ row, x ≠ 0 → lo ≤ x ∧ x ≤ hi) :
    parseSparseText lo hi (renderSparse m n M) = .ok m n M := by
  rw [parseSparse_renderSparse_ofFn lo hi m n M hm hn, ofFn_ent hwf]
  intro i hi' j hj'
  obtain ⟨row, hrow, hx⟩ := ent_mem_of_lt hwf hi' hj'
  exact hrange row hrow _ hx


/-! ### submatrix format -/

theorem tokenizeBytes_indexLine (xs : List Nat) (rest : List Nat) :
    tokenizeBytes (renderIndexLine xs ++ rest) = xs.map (fun x => renderNat (x + 1)) ++ tokenizeBytes rest := by
  unfold renderIndexLine
  rw [List.append_assoc, tokenizeBytes_run (fun x => renderNat (x + 1)) (fun x => isTok_renderNat _),
    List.singleton_append, tokenizeBytes_space 10 isSpaceByte_10]

/-- **tokenizing a rendered submatrix yields exactly the rendered tokens** -/
theorem tokenizeBytes_renderSubmat (s : SubmatText) :
    tokenizeBytes (renderSubmat s)
      = renderNat s.numRows :: renderNat s.numCols :: renderNat s.rows.length :: renderNat s.cols.length ::
          ((s.rows ++ s.cols).map (fun x => renderNat (x + 1))) := by
  unfold renderSubmat
  rw [tokenizeBytes_tok _ (isTok_renderNat _) 32 isSpaceByte_32,
    tokenizeBytes_tok _ (isTok_renderNat _) 32 isSpaceByte_32,
    tokenizeBytes_tok _ (isTok_renderNat _) 32 isSpaceByte_32,
    tokenizeBytes_tok _ (isTok_renderNat _) 10 isSpaceByte_10,
    tokenizeBytes_indexLine]
  have := tokenizeBytes_indexLine s.cols []
  rw [List.append_nil] at this
  rw [this, tokenizeBytes_nil, List.append_nil, List.map_append]

theorem map_pred_succ (l : List Nat) : (l.map (· + 1)).map (· - 1) = l := by
  induction l with
  | nil => rfl
  | cons a l ih => rw [List.map_cons, List.map_cons, ih]; rfl

/-- **C20, submatrix round trip.**  The conditions are exactly the parser's: sizes fit an `int`, at most `numRows`
row indices and `numCols` column indices, every index within the matrix. -/
theorem parseSubmat_renderSubmat (s : SubmatText)
    (hm : s.numRows ≤ 2147483647) (hn : s.numCols ≤ 2147483647)
    (hr : s.rows.length ≤ s.numRows) (hc : s.cols.length ≤ s.numCols)
    (hrows : ∀ x ∈ s.rows, x < s.numRows) (hcols : ∀ x ∈ s.cols, x < s.numCols) :
    parseSubmatText (renderSubmat s) = some s := by
  unfold parseSubmatText
  rw [tokenizeBytes_renderSubmat]
  have htake : List.take 4 (renderNat s.numRows :: renderNat s.numCols :: renderNat s.rows.length ::
      renderNat s.cols.length :: ((s.rows ++ s.cols).map (fun x => renderNat (x + 1))))
      = [renderNat s.numRows, renderNat s.numCols, renderNat s.rows.length, renderNat s.cols.length] := by
    simp
  have hdrop : List.drop 4 (renderNat s.numRows :: renderNat s.numCols :: renderNat s.rows.length ::
      renderNat s.cols.length :: ((s.rows ++ s.cols).map (fun x => renderNat (x + 1))))
      = (s.rows ++ s.cols).map (fun x => renderNat (x + 1)) := by
    simp
  rw [htake, hdrop]
  have hhead : [renderNat s.numRows, renderNat s.numCols, renderNat s.rows.length, renderNat s.cols.length].mapM natTok
      = some [s.numRows, s.numCols, s.rows.length, s.cols.length] := by
    simp [List.mapM_cons, natTok_renderNat]
  rw [hhead]
  simp only
  have h1 : (s.numRows > 2147483647 || s.numCols > 2147483647 || s.rows.length > s.numRows
      || s.cols.length > s.numCols) = false := by simp; omega
  rw [h1]
  have hlen : ((s.rows ++ s.cols).map (fun x => renderNat (x + 1))).length = s.rows.length + s.cols.length := by simp
  rw [hlen]
  simp only [Bool.false_eq_true, if_false, bne_self_eq_false]
  rw [List.take_of_length_le (by omega)]
  have hmap : ((s.rows ++ s.cols).map (fun x => renderNat (x + 1))).mapM natTok
      = some ((s.rows ++ s.cols).map (· + 1)) := by
    have := mapM_map_of_left_inv renderNat natTok natTok_renderNat ((s.rows ++ s.cols).map (· + 1))
    rw [List.map_map] at this
    exact this
  rw [hmap]
  simp only
  have hlen2 : ¬ ((s.rows ++ s.cols).map (· + 1)).length < s.rows.length + s.cols.length := by simp
  simp only [hlen2, if_false]
  have ht1 : List.take s.rows.length ((s.rows ++ s.cols).map (· + 1)) = s.rows.map (· + 1) := by
    rw [List.map_append, List.take_left' (by simp)]
  have ht2 : List.take s.cols.length (List.drop s.rows.length ((s.rows ++ s.cols).map (· + 1)))
      = s.cols.map (· + 1) := by
    rw [List.map_append, List.drop_left' (by simp), List.take_of_length_le (by simp)]
  rw [ht1, ht2]
  have ha1 : (s.rows.map (· + 1)).all (fun x => decide (1 ≤ x) && decide (x ≤ s.numRows)) = true := by
    rw [List.all_eq_true]
    intro x hx
    obtain ⟨y, hy, rfl⟩ := List.mem_map.mp hx
    have := hrows y hy
    simp; omega
  have ha2 : (s.cols.map (· + 1)).all (fun x => decide (1 ≤ x) && decide (x ≤ s.numCols)) = true := by
    rw [List.all_eq_true]
    intro x hx
    obtain ⟨y, hy, rfl⟩ := List.mem_map.mp hx
    have := hcols y hy
    simp; omega
  rw [ha1, ha2]
  simp only [Bool.and_self, if_true, map_pred_succ]


/-! ### corollaries for the library's entry types -/

/-- `char` matrices (`CMR_CHRMAT`, entries in `[-128, 127]`): every ternary matrix round-trips through both formats. -/
theorem parseDense_renderDense_ternary (m n : Nat) (M : Mat) (hwf : M.wf m n = true)
    (hm : m ≤ 2147483647) (hn : n ≤ 2147483647) (ht : isTernary M = true) :
    parseDenseText (-128) 127 (renderDense m n M) = .ok m n M := by
  apply parseDense_renderDense _ _ _ _ _ hwf hm hn
  intro row hrow x hx
  simp only [isTernary, List.all_eq_true] at ht
  rcases (isTernaryEntry_iff x).mp (ht row hrow x hx) with h | h | h <;> subst h <;> decide

theorem parseSparse_renderSparse_ternary (m n : Nat) (M : Mat) (hwf : M.wf m n = true)
    (hm : m ≤ 2147483647) (hn : n ≤ 2147483647) (ht : isTernary M = true) :
    parseSparseText (-128) 127 (renderSparse m n M) = .ok m n M := by
  apply parseSparse_renderSparse _ _ _ _ _ hwf hm hn
  intro row hrow x hx _
  simp only [isTernary, List.all_eq_true] at ht
  rcases (isTernaryEntry_iff x).mp (ht row hrow x hx) with h | h | h <;> subst h <;> decide

/-- the writers are injective on the matrices they are meant for: equal files, equal matrices -/
theorem renderDense_injective (lo hi : Int) (m n m' n' : Nat) (M M' : Mat)
    (hwf : M.wf m n = true) (hwf' : M'.wf m' n' = true)
    (hm : m ≤ 2147483647) (hn : n ≤ 2147483647) (hm' : m' ≤ 2147483647) (hn' : n' ≤ 2147483647)
    (hrange : ∀ row ∈ M, ∀ x ∈ row, lo ≤ x ∧ x ≤ hi) (hrange' : ∀ row ∈ M', ∀ x ∈ row, lo ≤ x ∧ x ≤ hi)
    (h : renderDense m n M = renderDense m' n' M') : m = m' ∧ n = n' ∧ M = M' := by
  have h1 := parseDense_renderDense lo hi m n M hwf hm hn hrange
  have h2 := parseDense_renderDense lo hi m' n' M' hwf' hm' hn' hrange'
  rw [h, h2] at h1
  injection h1 with a b c
  exact ⟨a.symm, b.symm, c.symm⟩

/-! ### non-vacuity: the theorems apply to concrete matrices, and the hypotheses are not idle -/

example : intTok (renderInt (-2147483648)) = some (-2147483648) := intTok_renderInt _
example : renderInt (-5) = asciiBytes "-5" ∧ renderInt 100 = asciiBytes "100" ∧ renderInt 0 = asciiBytes "0" := by decide

example : parseDenseText (-128) 127 (asciiBytes "2 3\n1 0 -1 \n0 0 1 \n") = .ok 2 3 [[1, 0, -1], [0, 0, 1]] := by
  rw [show asciiBytes "2 3\n1 0 -1 \n0 0 1 \n" = renderDense 2 3 [[1, 0, -1], [0, 0, 1]] by decide]
  exact parseDense_renderDense (-128) 127 2 3 [[1, 0, -1], [0, 0, 1]] (by decide) (by decide) (by decide) (by decide)

example : parseDenseText (-2147483648) 2147483647 (asciiBytes "1 2\n-5 100 \n") = .ok 1 2 [[-5, 100]] := by
  rw [show asciiBytes "1 2\n-5 100 \n" = renderDense 1 2 [[-5, 100]] by decide]
  exact parseDense_renderDense _ _ 1 2 [[-5, 100]] (by decide) (by decide) (by decide) (by decide)

example : parseDenseText (-128) 127 (renderDense 0 4 []) = .ok 0 4 [] :=
  parseDense_renderDense _ _ 0 4 [] (by decide) (by decide) (by decide) (by decide)

example : parseSparseText (-128) 127 (asciiBytes "2 3 3\n\n1 1 1\n1 3 -1\n2 3 1\n") = .ok 2 3 [[1, 0, -1], [0, 0, 1]] := by
  rw [show asciiBytes "2 3 3\n\n1 1 1\n1 3 -1\n2 3 1\n" = renderSparse 2 3 [[1, 0, -1], [0, 0, 1]] by decide]
  exact parseSparse_renderSparse (-128) 127 2 3 [[1, 0, -1], [0, 0, 1]] (by decide) (by decide) (by decide) (by decide)

/-- zero entries need not lie in the value range of the sparse format -/
example : parseSparseText 1 5 (renderSparse 2 2 [[0, 3], [5, 0]]) = .ok 2 2 [[0, 3], [5, 0]] :=
  parseSparse_renderSparse 1 5 2 2 [[0, 3], [5, 0]] (by decide) (by decide) (by decide) (by decide)

example : parseSubmatText (asciiBytes "3 3 3 3\n3 2 1 \n3 2 1 \n")
    = some { numRows := 3, numCols := 3, rows := [2, 1, 0], cols := [2, 1, 0] } := by
  rw [show asciiBytes "3 3 3 3\n3 2 1 \n3 2 1 \n"
    = renderSubmat { numRows := 3, numCols := 3, rows := [2, 1, 0], cols := [2, 1, 0] } by decide]
  exact parseSubmat_renderSubmat { numRows := 3, numCols := 3, rows := [2, 1, 0], cols := [2, 1, 0] }
    (by decide) (by decide) (by decide) (by decide) (by decide) (by decide)

/-- the value-range hypothesis is needed: an entry outside `[lo, hi]` is rejected by the reader -/
example : (match parseDenseText (-1) 1 (renderDense 1 1 [[2]]) with | .ok .. => false | .inputError _ => true) = true := by
  decide

/-- the index-range hypothesis is needed: a row index `≥ numRows` is rejected by the reader -/
example : parseSubmatText (renderSubmat { numRows := 2, numCols := 2, rows := [2], cols := [0] }) = none := by decide

/-- the well-formedness hypothesis is needed: a ragged matrix is read back padded with zeros, not unchanged -/
example : parseDenseText (-1) 1 (renderDense 2 2 [[1], [1, 1]]) = .ok 2 2 [[1, 0], [1, 1]] :=
  parseDense_renderDense_ofFn (-1) 1 2 2 [[1], [1, 1]] (by decide) (by decide) (by decide)

end Cmr.Props.C20Roundtrip
