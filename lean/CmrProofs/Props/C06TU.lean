/-
  C06TU — network matrices are totally unimodular (and graphic matrices are regular), for the model `Cmr/Graph.lean`.

  Main results
  * `network_isTU` : `isSpanningForest g T → cycleMatrix T coT true = some M → isTU |T| |coT| M`;
  * `isNetwork_isTU` : a `yes` of the brute-force network oracle implies total unimodularity;
  * `graphic_isRegular` : the unsigned fundamental-cycle matrix `M(G,T)` is regular (its signing `M(D,T)` is TU);
  * `checkGraphCert_isTU`, `checkGraphCert_isRegular` : the same for matrices accepted by the certificate checker;
  * `isGraphic_isRegular` : a `yes` of the brute-force graphicness oracle implies regularity.

  Route (lemmas in `CmrProofs/Lemmas/NetworkLemmas.lean`): incidence matrix + factorisation.
  (1) the node–arc incidence matrix `[B_T | B_coT]` is totally unimodular (`incidence_isTotallyUnimodular`);
  (2) `B_T · M = B_coT` by telescoping along the tree walks (`incMx_mul_cycleMatrix`);
  (3) in a bridge forest `B_T` has the left inverse `L[k,v] = [v on the head side of arc k]` (`sideMx_mul_incMx`), hence by
      Cauchy–Binet (`det_mul_rect`) a row-submatrix `B_T[U]` with determinant `±1`;
  (4) a `k × k` minor of `M` is a maximal minor of `[1 | M]`, and `B_T[U] · [1 | M] = [B_T | B_coT][U]` (`tu_of_factor`).
-/
import CmrProofs.Lemmas.NetworkLemmas
import CmrProofs.Props.C02
import CmrProofs.Props.C05
import CmrProofs.Props.C06

set_option linter.unusedSimpArgs false
set_option linter.unusedVariables false

namespace Cmr.Props.C06TU
open Cmr Matrix

theorem bridgeForest_of_spanning {g : Graph} {T : List Edge} (hsp : isSpanningForest g T = true) : IsBridgeForest T :=
  bridges_of_incremental ((forestLabels_isSome_iff (isSpanningForest_nodes hsp)).mp (isSpanningForest_isForest hsp))

/-- **Network matrices are totally unimodular** (Mathlib's `Matrix.IsTotallyUnimodular`). -/
theorem network_isTotallyUnimodular {g : Graph} {T coT : List Edge} {M : Mat} (hsp : isSpanningForest g T = true)
    (hM : cycleMatrix T coT true = some M) : (toMx T.length coT.length M).IsTotallyUnimodular :=
  network_toMx_tu (bridgeForest_of_spanning hsp) hM

/-- **Network matrices are totally unimodular**: the signed fundamental-cycle matrix `M(D,T)` of a spanning forest `T`
of a digraph `g` with respect to any list `coT` of arcs passes the total-unimodularity oracle. -/
theorem network_isTU {g : Graph} {T coT : List Edge} {M : Mat} (hsp : isSpanningForest g T = true)
    (hM : cycleMatrix T coT true = some M) : isTU T.length coT.length M = true :=
  (isTU_iff _ _ _).mpr (network_isTotallyUnimodular hsp hM)

/-- with the row/column counts as parameters -/
theorem network_isTU' {m n : Nat} {g : Graph} {T coT : List Edge} {M : Mat} (hm : T.length = m) (hn : coT.length = n)
    (hsp : isSpanningForest g T = true) (hM : cycleMatrix T coT true = some M) : isTU m n M = true := by
  subst hm hn
  exact network_isTU hsp hM

/-- a matrix accepted by the signed certificate checker is totally unimodular -/
theorem checkGraphCert_isTU {m n : Nat} {M : Mat} {g : Graph} {forest coforest : List Nat}
    (h : checkGraphCert m n M g forest coforest true = .ok ()) : isTU m n M = true := by
  obtain ⟨h1, h2, _, _, _, T, coT, hT, hcoT, hsp, hC⟩ := (checkGraphCert_ok_iff _ _ _ _ _ _ _).mp h
  obtain ⟨hTl, _⟩ := edgesOf_spec hT
  obtain ⟨hcl, _⟩ := edgesOf_spec hcoT
  exact network_isTU' (by omega) (by omega) hsp hC

/-! ### the oracle's `yes` implies total unimodularity -/

theorem getD_map_range (m : Nat) (f : Nat → Int) {i : Nat} (hi : i < m) : ((List.range m).map f).getD i 0 = f i := by
  simp [List.getD_eq_getElem?_getD, List.getElem?_map, List.getElem?_range hi]

theorem pathEntry_revWalk {p : List (Nat × Bool)} (nd : (p.map Prod.fst).Nodup) (k : Nat) :
    pathEntry true (revWalk p) k = - pathEntry true p k :=
  pathEntry_rev (revWalk_nodup nd) nd (fun _ => Iff.rfl) k

/-- a column accepted by the sign test is the signed incidence vector of a walk with distinct edges -/
theorem signedColumnOk_walk {T : List Edge} {m : Nat} (hm : T.length = m) {M : Mat} {j : Nat}
    (h : signedColumnOk T m M j = true) :
    ∃ s t p, IsWalk T s t p ∧ (p.map Prod.fst).Nodup ∧ ∀ i, i < T.length → ent M i j = pathEntry true p i := by
  rw [signedColumnOk_eq] at h
  split at h
  · rename_i hE
    refine ⟨0, 0, [], IsWalk.nil _, by simp, ?_⟩
    intro i hi
    have hE' : (List.range m).filter (fun i => ent M i j != 0) = [] := by simpa using hE
    have := List.filter_eq_nil_iff.mp hE' i (List.mem_range.mpr (hm ▸ hi))
    simp only [bne_iff_ne, ne_eq, Decidable.not_not] at this
    rw [this]; rfl
  · split at h
    · rename_i a b _
      split at h
      · rename_i col hcol
        obtain ⟨p, hw, nd, hlen, hent⟩ := cycleColumn_spec hcol
        have ha : ({ id := 0, u := a, v := b } : Edge).tail = a := rfl
        have hb : ({ id := 0, u := a, v := b } : Edge).head = b := rfl
        rw [ha, hb] at hw
        simp only [Bool.or_eq_true, beq_iff_eq] at h
        rcases h with h | h
        · refine ⟨a, b, p, hw, nd, ?_⟩
          intro i hi
          rw [← hent i hi, h, getD_map_range m _ (hm ▸ hi)]
        · refine ⟨b, a, revWalk p, hw.reverse, revWalk_nodup nd, ?_⟩
          intro i hi
          rw [pathEntry_revWalk nd, ← hent i hi]
          have := congrArg (fun l => l.getD i 0) h
          simp only [getD_map_range m _ (hm ▸ hi)] at this
          rw [← this]
          simp only [List.getD_eq_getElem?_getD, List.getElem?_map]
          cases col[i]? <;> simp
      · cases h
    · cases h

theorem length_of_mem_boolVecs : ∀ {k : Nat} {o : List Bool}, o ∈ boolVecs k → o.length = k := by
  intro k
  induction k with
  | zero => intro o h; simp [boolVecs] at h; subst h; rfl
  | succ k ih =>
    intro o h
    simp only [boolVecs, List.mem_flatMap] at h
    obtain ⟨v, hv, ho⟩ := h
    have := ih hv
    simp at ho
    rcases ho with rfl | rfl <;> simp [this]

/-- The tree returned by a successful network search is a bridge forest with `m` arcs, and every column of `M` passes
the sign test with respect to it. -/
theorem networkSearch_tree {m n : Nat} {M : Mat} {T : List Edge} (h : networkSearch m n M = some T) :
    T.length = m ∧ IsBridgeForest T ∧ ∀ j, j < n → signedColumnOk T m M j = true := by
  unfold networkSearch at h
  obtain ⟨p, hp, h2⟩ := List.exists_of_findSome?_eq_some h
  simp only at h2
  split at h2
  · rename_i hc
    simp only [Bool.and_eq_true, List.all_eq_true, List.mem_range] at hc
    obtain ⟨o, ho, h3⟩ := List.exists_of_findSome?_eq_some h2
    split at h3
    · rename_i hs
      simp only [Option.some.injEq] at h3
      simp only [List.all_eq_true, List.mem_range] at hs
      obtain ⟨hlen, hle⟩ := C05.mem_parentFns hp
      have holen := length_of_mem_boolVecs ho
      have hT : T = reorient (parentEdges p) o := h3.symm
      have hnodes : ∀ e ∈ parentEdges p, e.u ∈ List.range (m + 1) ∧ e.v ∈ List.range (m + 1) := by
        intro e he
        obtain ⟨i, hi⟩ := List.mem_iff_getElem?.mp he
        rw [C05.parentEdges_getElem?] at hi
        cases hpi : p[i]? with
        | none => simp [hpi] at hi
        | some par =>
          have hlt := (List.getElem?_eq_some_iff.mp hpi).1
          have hpar := hle par (List.mem_of_getElem? hpi)
          simp only [hpi, Option.map_some, Option.some.injEq] at hi
          subst hi
          simp only [List.mem_range]
          omega
      have hb0 : IsBridgeForest (parentEdges p) :=
        bridges_of_incremental ((forestLabels_isSome_iff hnodes).mp hc.1)
      refine ⟨?_, ?_, ?_⟩
      · rw [hT]
        simp [reorient, C05.parentEdges_length, hlen, holen]
      · rw [hT]
        refine IsBridgeForest.of_same_ends ?_ hb0
        intro k e2 he2
        rw [reorient_getElem?] at he2
        cases h0 : (parentEdges p)[k]? with
        | none => simp [h0] at he2
        | some e1 =>
          cases ho' : o[k]? with
          | none => simp [h0, ho'] at he2
          | some r =>
            simp only [h0, ho', Option.some.injEq] at he2
            subst he2
            exact ⟨e1, rfl, rfl, rfl⟩
      · intro j hj
        rw [← h3]
        exact hs j hj
    · cases h3
  · cases h2

/-- **A `yes` of the network oracle implies total unimodularity** (no shape hypothesis needed: both oracles read `M`
through the total entry function `ent`). -/
theorem isNetwork_isTU' {m n : Nat} {M : Mat} (h : isNetwork m n M = true) : isTU m n M = true := by
  obtain ⟨_, T, hT⟩ := (C06.isNetwork_def m n M).mp h
  obtain ⟨hlen, hb, hcols⟩ := networkSearch_tree hT
  subst hlen
  exact (isTU_iff _ _ _).mpr (walk_columns_tu hb (fun j hj => signedColumnOk_walk rfl (hcols j hj)))

/-- the same in the form asked for by the tie of C06 -/
theorem isNetwork_isTU {m n : Nat} {M : Mat} (h : isNetwork m n M = true) (_hwf : M.wf m n = true) :
    isTU m n M = true := isNetwork_isTU' h

/-- contrapositive: a matrix that is not totally unimodular is refused by the network oracle -/
theorem not_isNetwork_of_not_isTU {m n : Nat} {M : Mat} (h : isTU m n M = false) : isNetwork m n M = false := by
  cases hN : isNetwork m n M with
  | false => rfl
  | true => rw [isNetwork_isTU' hN] at h; cases h

/-! ### graphic matrices are regular -/

/-- the signed matrix exists whenever the unsigned one does (same tree paths) -/
theorem cycleMatrix_signed_of_unsigned {T coT : List Edge} {M : Mat} (hM : cycleMatrix T coT false = some M) :
    ∃ S, cycleMatrix T coT true = some S := by
  unfold cycleMatrix at hM ⊢
  cases hq : coT.mapM (cycleColumn T false) with
  | none => simp [hq] at hM
  | some cols =>
    obtain ⟨hl, hc⟩ := mapM_option_spec _ hq
    have hall : ∀ f ∈ coT, (cycleColumn T true f).isSome = true := by
      intro f hf
      obtain ⟨j, hj, rfl⟩ := List.getElem_of_mem hf
      have := hc j hj
      rw [List.getElem?_eq_getElem (by omega)] at this
      unfold cycleColumn at this ⊢
      cases hp : treePath T T.length [] (coT[j]).tail (coT[j]).head with
      | none => simp [hp] at this
      | some p => simp
    obtain ⟨r, hr⟩ := mapM_option_some_of_forall _ hall
    exact ⟨_, by rw [hr]; rfl⟩

/-- in a bridge forest the signed fundamental-cycle matrix is a signing of the unsigned one -/
theorem cycleMatrix_signing {T coT : List Edge} {M S : Mat} (hb : IsBridgeForest T)
    (hM : cycleMatrix T coT false = some M) (hS : cycleMatrix T coT true = some S) : C02.IsSigningOf S M := by
  obtain ⟨hwfM, hcM⟩ := cycleMatrix_spec hM
  obtain ⟨hwfS, hcS⟩ := cycleMatrix_spec hS
  rw [C02.isSigningOf_iff_ent hwfM]
  refine ⟨hwfS, ?_⟩
  intro i hi j hj
  obtain ⟨p, hwp, ndp, hp⟩ := hcM j hj
  obtain ⟨q, hwq, ndq, hq⟩ := hcS j hj
  rw [hp i hi, hq i hi, pathEntry_unsigned, pathEntry_signed ndq]
  by_cases hmem : i ∈ p.map Prod.fst
  · rw [if_pos hmem, if_neg (by omega)]
    obtain ⟨⟨k, d⟩, hx, rfl⟩ := List.mem_map.mp hmem
    have hxq := walk_unique hb hwp ndp hwq ndq _ hx
    cases d with
    | true => left; simp [hxq]
    | false =>
      right
      have : (k, true) ∉ q := fun h => not_both_dirs ndq h hxq
      simp [hxq, this]
  · rw [if_neg hmem, if_pos rfl]
    have h1 : (i, true) ∉ q := fun h => hmem (List.mem_map.mpr ⟨_, walk_unique hb hwq ndq hwp ndp _ h, rfl⟩)
    have h2 : (i, false) ∉ q := fun h => hmem (List.mem_map.mpr ⟨_, walk_unique hb hwq ndq hwp ndp _ h, rfl⟩)
    simp [h1, h2]

/-- **Graphic matrices are regular**: the unsigned fundamental-cycle matrix `M(G,T)` of a spanning forest has the totally
unimodular signing `M(D,T)` (any orientation of the edges), so the regularity oracle of C02 accepts it. -/
theorem graphic_isRegular {g : Graph} {T coT : List Edge} {M : Mat} (hsp : isSpanningForest g T = true)
    (hM : cycleMatrix T coT false = some M) : isRegular coT.length M = true := by
  obtain ⟨S, hS⟩ := cycleMatrix_signed_of_unsigned hM
  have hb := bridgeForest_of_spanning hsp
  exact (C02.isRegular_iff T.length coT.length M (cycleMatrix_spec hM).1).mpr
    ⟨cycleMatrix_binary hM, S, cycleMatrix_signing hb hM hS, network_isTU hsp hS⟩

/-- a matrix accepted by the unsigned certificate checker is regular -/
theorem checkGraphCert_isRegular {m n : Nat} {M : Mat} {g : Graph} {forest coforest : List Nat}
    (h : checkGraphCert m n M g forest coforest false = .ok ()) : isRegular n M = true := by
  obtain ⟨h1, h2, _, _, _, T, coT, hT, hcoT, hsp, hC⟩ := (checkGraphCert_ok_iff _ _ _ _ _ _ _).mp h
  obtain ⟨hcl, _⟩ := edgesOf_spec hcoT
  have : coT.length = n := by omega
  subst this
  exact graphic_isRegular hsp hC

/-! ### the graphicness oracle's `yes` implies regularity -/

/-- a support accepted by the path test is the edge set of a walk with distinct edges -/
theorem supportIsPath_walk {T : List Edge} {S : List Nat} (hS : S.Nodup) (h : supportIsPath T S = true) :
    ∃ s t p, IsWalk T s t p ∧ (p.map Prod.fst).Nodup ∧ ∀ k, k ∈ p.map Prod.fst ↔ k ∈ S := by
  rw [supportIsPath_eq] at h
  split at h
  · rename_i hE
    have : S = [] := by simpa using hE
    subst this
    exact ⟨0, 0, [], IsWalk.nil _, by simp, by simp⟩
  · rw [Bool.and_eq_true] at h
    obtain ⟨_, h⟩ := h
    split at h
    · rename_i a b _
      split at h
      · rename_i p hp
        obtain ⟨hw, nd, _, _⟩ := treePath_sound hp
        rw [Bool.and_eq_true] at h
        obtain ⟨hlen, hall⟩ := h
        have hlen : p.length = S.length := by simpa using hlen
        have hsub : p.map Prod.fst ⊆ S := by
          intro k hk
          obtain ⟨x, hx, rfl⟩ := List.mem_map.mp hk
          have := List.all_eq_true.mp hall x hx
          simpa using this
        have hperm : (p.map Prod.fst).Perm S :=
          (List.subperm_of_subset nd hsub).perm_of_length_le (by simp [hlen])
        exact ⟨a, b, p, hw, nd, fun k => hperm.mem_iff⟩
      · cases h
    · cases h

/-- The tree returned by a successful graphic search is a bridge forest with `m` edges, and every column support of `M`
is the edge set of a walk with distinct edges. -/
theorem graphicSearch_tree {m n : Nat} {M : Mat} {T : List Edge} (h : graphicSearch m n M = some T) :
    T.length = m ∧ IsBridgeForest T ∧ ∀ j, j < n → ∃ s t p, IsWalk T s t p ∧ (p.map Prod.fst).Nodup ∧
      ∀ k, k ∈ p.map Prod.fst ↔ k ∈ (List.range m).filter (fun i => ent M i j != 0) := by
  obtain ⟨hlen, hedges, hf, hcols⟩ := C05.graphicSearch_sound h
  have hnodes : ∀ e ∈ T, e.u ∈ List.range (m + 1) ∧ e.v ∈ List.range (m + 1) := by
    intro e he
    obtain ⟨i, hi⟩ := List.mem_iff_getElem?.mp he
    have hlt : i < m := hlen ▸ (List.getElem?_eq_some_iff.mp hi).1
    obtain ⟨par, hpar, hT⟩ := hedges i hlt
    rw [hi] at hT
    simp only [Option.some.injEq] at hT
    subst hT
    simp only [List.mem_range]
    omega
  refine ⟨hlen, bridges_of_incremental ((forestLabels_isSome_iff hnodes).mp hf), ?_⟩
  intro j hj
  exact supportIsPath_walk (List.Nodup.sublist List.filter_sublist List.nodup_range) (hcols j hj)

/-- **A `yes` of the graphicness oracle implies regularity**: orienting the tree found by the search and signing every
column along its path gives a totally unimodular signing. -/
theorem isGraphic_isRegular {m n : Nat} {M : Mat} (h : isGraphic m n M = true) (hwf : M.wf m n = true) :
    isRegular n M = true := by
  obtain ⟨hbin, T, hT⟩ := (C05.isGraphic_def m n M).mp h
  obtain ⟨hlen, hb, hcols⟩ := graphicSearch_tree hT
  subst hlen
  have h' : ∀ j, ∃ p : List (Nat × Bool), j < n → ∃ s t, IsWalk T s t p ∧ (p.map Prod.fst).Nodup ∧
      ∀ k, k ∈ p.map Prod.fst ↔ k ∈ (List.range T.length).filter (fun i => ent M i j != 0) := by
    intro j
    by_cases hj : j < n
    · obtain ⟨s, t, p, hp⟩ := hcols j hj
      exact ⟨p, fun _ => ⟨s, t, hp⟩⟩
    · exact ⟨[], fun hj' => absurd hj' hj⟩
  choose p hp using h'
  refine (C02.isRegular_iff T.length n M hwf).mpr
    ⟨hbin, Mat.ofFn T.length n (fun i j => pathEntry true (p j) i), ?_, ?_⟩
  · rw [C02.isSigningOf_iff_ent hwf]
    refine ⟨wf_ofFn _ _ _, ?_⟩
    intro i hi j hj
    obtain ⟨s, t, hw, nd, hmem⟩ := hp j hj
    rw [ent_ofFn _ hi hj]
    have hiff : i ∈ (p j).map Prod.fst ↔ ent M i j ≠ 0 := by
      rw [hmem i, List.mem_filter, List.mem_range]
      simp [hi]
    by_cases h0 : ent M i j = 0
    · rw [if_pos h0]
      have : i ∉ (p j).map Prod.fst := fun hm => (hiff.mp hm) h0
      exact pathEntry_of_none (lookup_none_iff.mpr this)
    · rw [if_neg h0]
      have hm := hiff.mpr h0
      cases hl : (p j).lookup i with
      | none => exact absurd hm (lookup_none_iff.mp hl)
      | some b => rw [pathEntry_of_some hl]; cases b <;> simp
  · refine (isTU_iff _ _ _).mpr (walk_columns_tu hb ?_)
    intro j hj
    obtain ⟨s, t, hw, nd, _⟩ := hp j hj
    exact ⟨s, t, p j, hw, nd, fun i hi => ent_ofFn _ hi hj⟩

/-- contrapositive: a non-regular matrix is refused by the graphicness oracle -/
theorem not_isGraphic_of_not_isRegular {m n : Nat} {M : Mat} (hwf : M.wf m n = true) (h : isRegular n M = false) :
    isGraphic m n M = false := by
  cases hG : isGraphic m n M with
  | false => rfl
  | true => rw [isGraphic_isRegular hG hwf] at h; cases h

/-! ### examples -/

/-- the incidence matrix of the directed triangle is totally unimodular, by the theorem -/
example : (!![1, 0, -1; -1, 1, 0; 0, -1, 1] : Matrix (Fin 3) (Fin 3) ℤ).IsTotallyUnimodular := by
  apply incidence_isTotallyUnimodular
  refine ⟨?_, ?_, ?_⟩
  · intro i j; fin_cases i <;> fin_cases j <;> simp
  · intro j i i'; fin_cases j <;> fin_cases i <;> fin_cases i' <;> simp
  · intro j i i'; fin_cases j <;> fin_cases i <;> fin_cases i' <;> simp

/-- non-vacuity of `network_isTU`: the hypotheses hold for a directed `K4` with a reversed tree arc; the conclusion is
also confirmed by evaluating the oracle -/
example :
    let T : List Edge := [⟨0, 10, 20, false⟩, ⟨1, 30, 10, true⟩, ⟨2, 10, 40, false⟩]
    let coT : List Edge := [⟨3, 20, 30, false⟩, ⟨4, 40, 20, false⟩, ⟨5, 30, 40, false⟩]
    let g : Graph := { nodes := [10, 20, 30, 40, 50], edges := T ++ coT }
    isSpanningForest g T = true ∧
    cycleMatrix T coT true = some [[-1, 1, 0], [1, 0, -1], [0, -1, 1]] ∧
    isTU 3 3 [[-1, 1, 0], [1, 0, -1], [0, -1, 1]] = true := by decide

/-- the theorem applied instead of evaluating the oracle -/
example : isTU 3 3 [[-1, 1, 0], [1, 0, -1], [0, -1, 1]] = true :=
  network_isTU
    (g := { nodes := [10, 20, 30, 40, 50],
            edges := [⟨0, 10, 20, false⟩, ⟨1, 30, 10, true⟩, ⟨2, 10, 40, false⟩, ⟨3, 20, 30, false⟩,
                      ⟨4, 40, 20, false⟩, ⟨5, 30, 40, false⟩] })
    (T := [⟨0, 10, 20, false⟩, ⟨1, 30, 10, true⟩, ⟨2, 10, 40, false⟩])
    (coT := [⟨3, 20, 30, false⟩, ⟨4, 40, 20, false⟩, ⟨5, 30, 40, false⟩]) (by decide) (by decide)

/-- oracle side: a network matrix is accepted and TU; the non-TU matrix `[[1,1],[1,-1]]` is refused -/
example : isNetwork 2 2 [[1, 0], [1, -1]] = true ∧ isTU 2 2 [[1, 0], [1, -1]] = true ∧
    isTU 2 2 [[1, 1], [1, -1]] = false ∧ isNetwork 2 2 [[1, 1], [1, -1]] = false := by decide

example : isTU 2 2 [[1, 0], [1, -1]] = true := isNetwork_isTU' (by decide)

/-- graphic ⇒ regular: the triangle-support matrix of `K4` is regular although it is not itself TU -/
example : isRegular 3 [[1, 1, 0], [1, 0, 1], [0, 1, 1]] = true :=
  graphic_isRegular
    (g := { nodes := [10, 20, 30, 40, 50],
            edges := [⟨0, 10, 20, false⟩, ⟨1, 30, 10, false⟩, ⟨2, 10, 40, false⟩, ⟨3, 20, 30, false⟩,
                      ⟨4, 20, 40, false⟩, ⟨5, 40, 30, false⟩] })
    (T := [⟨0, 10, 20, false⟩, ⟨1, 30, 10, false⟩, ⟨2, 10, 40, false⟩])
    (coT := [⟨3, 20, 30, false⟩, ⟨4, 20, 40, false⟩, ⟨5, 40, 30, false⟩]) (by decide) (by decide)

example : isTU 3 3 [[1, 1, 0], [1, 0, 1], [0, 1, 1]] = false := by decide

/-- oracle side: graphic ⇒ regular by the theorem -/
example : isRegular 3 [[1, 1, 0], [1, 0, 1], [0, 1, 1]] = true := isGraphic_isRegular (m := 3) (by decide) (by decide)

/-- a small matrix that is not regular (it is not binary) is refused by both oracles, as `not_isGraphic_of_not_isRegular`
predicts -/
example : isRegular 2 [[1, 1], [1, 2]] = false ∧ isGraphic 2 2 [[1, 1], [1, 2]] = false := by decide

end Cmr.Props.C06TU
