/-
  Property C06 — network/conetwork recognition is exact, with a sign-correct digraph certificate.

  Model: `Cmr/Graph.lean` (`checkGraphCert … true` = the certificate checker with the signed fundamental-cycle matrix
  `cycleMatrix T coT true` = `M(D,T)`, arcs read through `Edge.tail` / `Edge.head`, i.e. after applying the arc-reversal
  flags; `isNetwork` = ternary ∧ brute-force search `networkSearch`: a tree as in `graphicSearch` on the support, then all
  orientations of the tree arcs, every column being ± the signed path pattern (`signedColumnOk`)).
  Tie: op `network` — every `yes` of `CMRnetworkTestMatrix` / `CMRnetworkTestTranspose` that comes with a digraph is decided
  by `checkGraphCert m n M g forest coforest true` (any size); every `no`, every `yes` without digraph and every returned
  violating submatrix on at most 5 rows is compared with `isNetwork`; non-ternary input must be answered `no`.

  What is proved: acceptance by the checker means `M = M(D,T)` entry for entry including signs (`checkGraphCert_sound`,
  `cert_entries`), the exact shape of the oracle (`isNetwork_def`, `isNetwork_nonternary`) and what a successful search
  returns (`networkSearch_sound`).  Completeness of the search oracle is not proved here.
-/
import CmrProofs.Lemmas.GraphLemmas

set_option linter.unusedSimpArgs false
set_option linter.unusedVariables false

namespace Cmr.Props.C06
open Cmr

/-- Acceptance of a digraph certificate unfolds to: the sizes fit, forest and coforest together list every arc of `g`
exactly once, both id lists resolve to arcs of `g` (position by position), the forest arcs form a spanning forest of the
underlying graph, and the signed fundamental-cycle matrix of forest/coforest is exactly `M`. -/
theorem checkGraphCert_sound {m n : Nat} {M : Mat} {g : Graph} {forest coforest : List Nat}
    (h : checkGraphCert m n M g forest coforest true = .ok ()) :
    forest.length = m ∧ coforest.length = n ∧ (forest ++ coforest).Nodup ∧
    (∀ e ∈ g.edges, e.id ∈ forest ++ coforest) ∧ (forest ++ coforest).length = g.edges.length ∧
    ∃ T coT, g.edgesOf forest = some T ∧ g.edgesOf coforest = some coT ∧
      T.length = m ∧ coT.length = n ∧
      (∀ i (hi : i < forest.length) (hi' : i < T.length), T[i] ∈ g.edges ∧ (T[i]).id = forest[i]) ∧
      (∀ j (hj : j < coforest.length) (hj' : j < coT.length), coT[j] ∈ g.edges ∧ (coT[j]).id = coforest[j]) ∧
      isSpanningForest g T = true ∧ cycleMatrix T coT true = some M := by
  obtain ⟨h1, h2, h3, h4, h5, T, coT, hT, hcoT, hsp, hC⟩ := (checkGraphCert_ok_iff _ _ _ _ _ _ _).mp h
  obtain ⟨hTl, hTe⟩ := edgesOf_spec hT
  obtain ⟨hcl, hce⟩ := edgesOf_spec hcoT
  exact ⟨h1, h2, h3, h4, h5, T, coT, hT, hcoT, by omega, by omega, hTe, hce, hsp, hC⟩

/-- The converse: these conditions are also sufficient (the checker tests nothing else). -/
theorem checkGraphCert_complete {m n : Nat} {M : Mat} {g : Graph} {forest coforest : List Nat} {T coT : List Edge}
    (h1 : forest.length = m) (h2 : coforest.length = n) (h3 : (forest ++ coforest).Nodup)
    (h4 : ∀ e ∈ g.edges, e.id ∈ forest ++ coforest) (h5 : (forest ++ coforest).length = g.edges.length)
    (hT : g.edgesOf forest = some T) (hcoT : g.edgesOf coforest = some coT) (hsp : isSpanningForest g T = true)
    (hC : cycleMatrix T coT true = some M) :
    checkGraphCert m n M g forest coforest true = .ok () :=
  (checkGraphCert_ok_iff _ _ _ _ _ _ _).mpr ⟨h1, h2, h3, h4, h5, T, coT, hT, hcoT, hsp, hC⟩

/-- How a walk reads its first step: `(k, true)` means forest arc `k` is left at its tail and entered at its head (after
applying the reversal flag), `(k, false)` the opposite. -/
theorem walk_step {T : List Edge} {s t k : Nat} {b : Bool} {p : List (Nat × Bool)} (w : IsWalk T s t ((k, b) :: p)) :
    ∃ e, T[k]? = some e ∧
      (if b then e.tail = s ∧ IsWalk T e.head t p else e.head = s ∧ IsWalk T e.tail t p) := by
  cases w with
  | fwd h1 h2 h3 => exact ⟨_, h1, by simp [h2, h3]⟩
  | bwd h1 h2 h3 => exact ⟨_, h1, by simp [h2, h3]⟩

/-- `M = M(D,T)` entry for entry: an accepted certificate provides, for every column `j`, a walk in the forest from the
tail to the head of coforest arc `j` that uses pairwise distinct forest arcs, such that `M[i][j] = +1` if forest arc `i`
is traversed forwardly (tail to head), `-1` if it is traversed backwardly, and `0` if it is not on the walk. -/
theorem cert_entries {m n : Nat} {M : Mat} {g : Graph} {forest coforest : List Nat}
    (h : checkGraphCert m n M g forest coforest true = .ok ()) :
    ∃ T coT, g.edgesOf forest = some T ∧ g.edgesOf coforest = some coT ∧ T.length = m ∧ coT.length = n ∧
      isSpanningForest g T = true ∧ isForest g T = true ∧ M.wf m n = true ∧
      ∀ j (hj : j < coT.length), ∃ p, IsWalk T (coT[j]).tail (coT[j]).head p ∧ (p.map Prod.fst).Nodup ∧
        ∀ i, i < m → ent M i j = if (i, true) ∈ p then 1 else if (i, false) ∈ p then -1 else 0 := by
  obtain ⟨_, _, _, _, _, T, coT, hT, hcoT, hTl, hcl, _, _, hsp, hC⟩ := checkGraphCert_sound h
  obtain ⟨hwf, he⟩ := cycleMatrix_spec hC
  refine ⟨T, coT, hT, hcoT, hTl, hcl, hsp, isSpanningForest_isForest hsp, by rw [← hTl, ← hcl]; exact hwf, ?_⟩
  intro j hj
  obtain ⟨p, w, nd, hp⟩ := he j hj
  refine ⟨p, w, nd, ?_⟩
  intro i hi
  rw [hp i (by omega), pathEntry_signed nd]

/-- In particular an accepted matrix is a well-formed matrix over {-1,0,1}. -/
theorem cert_ternary {m n : Nat} {M : Mat} {g : Graph} {forest coforest : List Nat}
    (h : checkGraphCert m n M g forest coforest true = .ok ()) : M.wf m n = true ∧ isTernary M = true := by
  obtain ⟨T, coT, _, _, _, _, _, _, hwf, _⟩ := cert_entries h
  obtain ⟨_, _, _, _, _, T, coT, _, _, _, _, _, _, _, hC⟩ := checkGraphCert_sound h
  exact ⟨hwf, cycleMatrix_ternary hC⟩

/-- The oracle is, by definition, "ternary and the tree-and-orientation search succeeds". -/
theorem isNetwork_def (m n : Nat) (M : Mat) :
    isNetwork m n M = true ↔ isTernary M = true ∧ ∃ T, networkSearch m n M = some T := by
  simp [isNetwork, Option.isSome_iff_exists]

/-- Non-ternary matrices are not network matrices. -/
theorem isNetwork_nonternary {m n : Nat} {M : Mat} (h : isTernary M = false) : isNetwork m n M = false := by
  simp [isNetwork, h]

/-- A successful search returns an orientation `T` of a tree `T0` on the nodes `0…m` (accepted as a forest, every column
support a path of it according to `supportIsPath`) such that every column passes the sign test `signedColumnOk`. -/
theorem networkSearch_sound {m n : Nat} {M : Mat} {T : List Edge} (h : networkSearch m n M = some T) :
    ∃ (T0 : List Edge) (o : List Bool),
      (forestLabels (List.range (m+1)) T0).isSome = true ∧
      (∀ j, j < n → supportIsPath T0 ((List.range m).filter (fun i => ent M i j != 0)) = true) ∧
      o ∈ boolVecs m ∧ T = (T0.zip o).map (fun (e, r) => { e with rev := r }) ∧
      ∀ j, j < n → signedColumnOk T m M j = true := by
  unfold networkSearch at h
  obtain ⟨p, hp, h2⟩ := List.exists_of_findSome?_eq_some h
  simp only at h2
  split at h2
  · rename_i hc
    simp only [Bool.and_eq_true, List.all_eq_true, List.mem_range] at hc
    obtain ⟨o, ho, h3⟩ := List.exists_of_findSome?_eq_some h2
    split at h3
    · rename_i hs
      simp only [Option.some.injEq] at h3
      simp only [List.all_eq_true, List.mem_range] at hs
      refine ⟨parentEdges p, o, hc.1, hc.2, ho, h3.symm, ?_⟩
      intro j hj
      rw [← h3]
      exact hs j hj
    · cases h3
  · cases h2

/-- Non-vacuity: the directed triangle `0→1→2`, `0→2` with forest `{0,1}` realises `[[1],[1]]`; reversing forest arc `1`
(by the flag or by swapping its ends) gives `[[1],[-1]]`; the checker accepts exactly the sign-correct matrix, and the
oracle agrees on small instances. -/
example :
    let g : Graph := { nodes := [0, 1, 2], edges := [⟨0, 0, 1, false⟩, ⟨1, 1, 2, false⟩, ⟨2, 0, 2, false⟩] }
    let g' : Graph := { nodes := [0, 1, 2], edges := [⟨0, 0, 1, false⟩, ⟨1, 1, 2, true⟩, ⟨2, 0, 2, false⟩] }
    cycleMatrix [⟨0, 0, 1, false⟩, ⟨1, 1, 2, false⟩] [⟨2, 0, 2, false⟩] true = some [[1], [1]] ∧
    cycleMatrix [⟨0, 0, 1, false⟩, ⟨1, 1, 2, true⟩] [⟨2, 0, 2, false⟩] true = some [[1], [-1]] ∧
    cycleMatrix [⟨0, 0, 1, false⟩, ⟨1, 2, 1, false⟩] [⟨2, 0, 2, false⟩] true = some [[1], [-1]] ∧
    cycleMatrix [⟨0, 0, 1, false⟩, ⟨1, 1, 2, true⟩] [⟨2, 0, 2, false⟩] false = some [[1], [1]] ∧
    treePath [⟨0, 0, 1, false⟩, ⟨1, 1, 2, true⟩] 2 [] 0 2 = some [(0, true), (1, false)] ∧
    checkGraphCert 2 1 [[1], [1]] g [0, 1] [2] true = .ok () ∧
    checkGraphCert 2 1 [[1], [-1]] g [0, 1] [2] true ≠ .ok () ∧
    checkGraphCert 2 1 [[1], [-1]] g' [0, 1] [2] true = .ok () ∧
    checkGraphCert 2 1 [[1], [1]] g' [0, 1] [2] true ≠ .ok () ∧
    isNetwork 2 1 [[1], [-1]] = true ∧ isNetwork 2 1 [[1], [2]] = false ∧
    isNetwork 2 2 [[1, 1], [1, -1]] = false := by
  decide

end Cmr.Props.C06
