/-
  Property C16 — equimodular / unimodular matrices follow the documented definition.

  Model: `Cmr/Equimod.lean` (`rankQ`, `columnBases`, `gcdMinors`, `replaceCol`, `solveX`, `equimodFor`,
  `equimodular`, `equimodularAll`): for an integer matrix `M` of rank `r`, `M` is equimodular with determinant gcd
  `k` iff for some column basis `B` the gcd of all `r × r` minors of the columns `B` is `k` and the unique `X` with
  `M = M_B X` is totally unimodular.
  Tie: op `equimodular` (verdict and `k` of `CMRequimodularTest` / `CMRunimodularTest` against `equimodular`).

  This file proves that each ingredient of the model is what the documentation says it is (rank = size of the
  largest nonvanishing minor, `gcdMinors` = greatest common divisor of the minors of the basis columns,
  `columnBases` = all column bases, `solveX` = Cramer's rule with an integrality test), and settles the special
  case the documentation is tested against: every nonsingular square matrix is equimodular with `k = |det M|`
  (`X` is the identity), e.g. `[[2,1],[0,2]]` has `k = 4`.
-/
import CmrProofs.Lemmas.EquimodLemmas

set_option linter.unusedSimpArgs false
set_option linter.unusedVariables false

namespace Cmr.Props.C16
open Cmr

/-! ### 1. `rankQ` is the size of the largest nonvanishing minor -/

/-- (a) the rank is at most `min m n`; (b) some `rankQ × rankQ` minor is nonzero (for rank 0: the empty minor, with
determinant 1); (c) every larger minor vanishes. -/
theorem rankQ_spec (m n : Nat) (M : Mat) :
    rankQ m n M ≤ min m n ∧
    (∀ r, r = rankQ m n M →
      ∃ rs ∈ choose r (List.range m), ∃ cs ∈ choose r (List.range n), detL r (sub M rs cs) ≠ 0) ∧
    (∀ k, rankQ m n M < k → k ≤ min m n →
      ∀ rs ∈ choose k (List.range m), ∀ cs ∈ choose k (List.range n), detL k (sub M rs cs) = 0) := by
  obtain ⟨ha, hb, hc⟩ := findLast_spec (hasMinor m n M) (min m n) (hasMinor_zero m n M)
  rw [← rankQ_eq] at ha hb hc
  refine ⟨ha, ?_, ?_⟩
  · rintro r rfl
    exact (hasMinor_iff m n M _).mp hb
  · intro k hk hk2 rs hrs cs hcs
    have hfalse := hc k hk hk2
    by_contra hne
    have : hasMinor m n M k = true := (hasMinor_iff m n M k).mpr ⟨rs, hrs, cs, hcs, hne⟩
    rw [this] at hfalse
    cases hfalse

theorem rankQ_le (m n : Nat) (M : Mat) : rankQ m n M ≤ min m n := (rankQ_spec m n M).1

/-- There are no `k × k` minors at all beyond `min m n`, so (c) holds for every `k` above the rank. -/
theorem minor_eq_zero_of_rankQ_lt (m n : Nat) (M : Mat) (k : Nat) (hk : rankQ m n M < k)
    (rs : List Nat) (hrs : rs ∈ choose k (List.range m)) (cs : List Nat) (hcs : cs ∈ choose k (List.range n)) :
    detL k (sub M rs cs) = 0 := by
  have h1 := ((mem_choose _ _ _).mp hrs)
  have h2 := ((mem_choose _ _ _).mp hcs)
  have l1 := h1.1.length_le
  have l2 := h2.1.length_le
  simp only [List.length_range] at l1 l2
  exact (rankQ_spec m n M).2.2 k hk (by omega) rs hrs cs hcs

/-- Characterisation: `r` is the rank iff some `r × r` minor is nonzero and all larger minors vanish. -/
theorem rankQ_eq_iff (m n : Nat) (M : Mat) (r : Nat) :
    rankQ m n M = r ↔
      (∃ rs ∈ choose r (List.range m), ∃ cs ∈ choose r (List.range n), detL r (sub M rs cs) ≠ 0) ∧
      (∀ k, r < k → ∀ rs ∈ choose k (List.range m), ∀ cs ∈ choose k (List.range n), detL k (sub M rs cs) = 0) := by
  constructor
  · rintro rfl
    exact ⟨(rankQ_spec m n M).2.1 _ rfl, fun k hk rs hrs cs hcs => minor_eq_zero_of_rankQ_lt m n M k hk rs hrs cs hcs⟩
  · rintro ⟨⟨rs, hrs, cs, hcs, hne⟩, hall⟩
    obtain ⟨rs', hrs', cs', hcs', hne'⟩ := (rankQ_spec m n M).2.1 _ rfl
    rcases Nat.lt_trichotomy (rankQ m n M) r with h | h | h
    · exact absurd (minor_eq_zero_of_rankQ_lt m n M r h rs hrs cs hcs) hne
    · exact h
    · exact absurd (hall _ h rs' hrs' cs' hcs') hne'

/-! ### 2. `gcdMinors` is the gcd of all `r × r` minors of the columns `B` -/

theorem gcdMinors_dvd (m r : Nat) (M : Mat) (B : List Nat) (rs : List Nat)
    (hrs : rs ∈ choose r (List.range m)) : (gcdMinors m r M B : Int) ∣ detL r (sub M rs B) := by
  rw [Int.natCast_dvd]
  exact (foldl_gcd_dvd (fun rs => (detL r (sub M rs B)).natAbs) (choose r (List.range m)) 0).2 rs hrs

theorem gcdMinors_greatest (m r : Nat) (M : Mat) (B : List Nat) (d : Int)
    (h : ∀ rs ∈ choose r (List.range m), d ∣ detL r (sub M rs B)) : d.natAbs ∣ gcdMinors m r M B := by
  apply dvd_foldl_gcd (fun rs => (detL r (sub M rs B)).natAbs) _ 0 d.natAbs (Nat.dvd_zero _)
  intro rs hrs
  exact Int.natAbs_dvd_natAbs.mpr (h rs hrs)

/-- `gcdMinors` vanishes exactly when all the minors do (gcd convention `gcd ∅ = gcd {0} = 0`). -/
theorem gcdMinors_eq_zero_iff (m r : Nat) (M : Mat) (B : List Nat) :
    gcdMinors m r M B = 0 ↔ ∀ rs ∈ choose r (List.range m), detL r (sub M rs B) = 0 := by
  constructor
  · intro h rs hrs
    have := gcdMinors_dvd m r M B rs hrs
    rw [h] at this
    simpa using this
  · intro h
    have := gcdMinors_greatest m r M B 0 (fun rs hrs => by rw [h rs hrs])
    simpa using this

/-! ### 3. `columnBases` are exactly the column bases -/

theorem mem_columnBases (m n r : Nat) (M : Mat) (B : List Nat) :
    B ∈ columnBases m n r M ↔
      B ∈ choose r (List.range n) ∧ ∃ rs ∈ choose r (List.range m), detL r (sub M rs B) ≠ 0 := by
  simp [columnBases, List.mem_filter]

/-- With `r` the rank there is always a column basis: the `[]` branch of `equimodular` is dead. -/
theorem columnBases_ne_nil (m n : Nat) (M : Mat) : columnBases m n (rankQ m n M) M ≠ [] := by
  obtain ⟨rs, hrs, cs, hcs, hne⟩ := (rankQ_spec m n M).2.1 _ rfl
  have : cs ∈ columnBases m n (rankQ m n M) M := (mem_columnBases _ _ _ _ _).mpr ⟨hcs, rs, hrs, hne⟩
  exact List.ne_nil_of_mem this

/-- A column basis has positive `gcdMinors`. -/
theorem gcdMinors_pos_of_mem_columnBases (m n r : Nat) (M : Mat) (B : List Nat) (hB : B ∈ columnBases m n r M) :
    0 < gcdMinors m r M B := by
  obtain ⟨_, rs, hrs, hne⟩ := (mem_columnBases _ _ _ _ _).mp hB
  apply Nat.pos_of_ne_zero
  intro h0
  exact hne ((gcdMinors_eq_zero_iff m r M B).mp h0 rs hrs)

/-! ### 4. `solveX` is Cramer's rule with an integrality test -/

/-- the Cramer numerator of `X i j` with respect to the row block `rs` -/
def cramerNum (r : Nat) (M : Mat) (rs B : List Nat) (i j : Nat) : Int :=
  detL r (replaceCol (sub M rs B) i (rs.map (fun x => ent M x j)))

theorem solveX_unfold (m n r : Nat) (M : Mat) (B : List Nat) (rs : List Nat)
    (h : (choose r (List.range m)).find? (fun rs => detL r (sub M rs B) != 0) = some rs) :
    solveX m n r M B =
      if (Mat.ofFn r n (cramerNum r M rs B)).all (fun row => row.all (fun x => x % detL r (sub M rs B) == 0))
      then some (Mat.ofFn r n (fun i j => cramerNum r M rs B i j / detL r (sub M rs B))) else none := by
  unfold solveX
  rw [h]
  simp only []
  rw [mapEntries_ofFn]
  rfl

theorem solveX_spec (m n r : Nat) (M : Mat) (B : List Nat) (X : Mat) (h : solveX m n r M B = some X) :
    X.wf r n = true ∧
    ∃ rs ∈ choose r (List.range m), detL r (sub M rs B) ≠ 0 ∧
      ∀ i, i < r → ∀ j, j < n →
        detL r (sub M rs B) * ent X i j = detL r (replaceCol (sub M rs B) i (rs.map (fun x => ent M x j))) := by
  cases hf : (choose r (List.range m)).find? (fun rs => detL r (sub M rs B) != 0) with
  | none =>
    unfold solveX at h
    rw [hf] at h
    cases h
  | some rs =>
    have hd : detL r (sub M rs B) ≠ 0 := by simpa using List.find?_some hf
    have hmem := List.mem_of_find?_eq_some hf
    rw [solveX_unfold m n r M B rs hf] at h
    split at h
    · rename_i hall
      cases h
      refine ⟨wf_ofFn _ _ _, rs, hmem, hd, ?_⟩
      intro i hi j hj
      rw [ent_ofFn _ hi hj]
      have hdiv := (all_ofFn r n _ _).mp hall i hi j hj
      have hdvd : detL r (sub M rs B) ∣ cramerNum r M rs B i j := by
        apply Int.dvd_of_emod_eq_zero
        simpa using hdiv
      exact Int.mul_ediv_cancel' hdvd
    · cases h

/-- Integrality: with a column basis present, `solveX` fails only because some Cramer numerator is not divisible by
the determinant of the chosen row block. -/
theorem solveX_none_spec (m n r : Nat) (M : Mat) (B : List Nat) (hB : B ∈ columnBases m n r M)
    (h : solveX m n r M B = none) :
    ∃ rs ∈ choose r (List.range m), detL r (sub M rs B) ≠ 0 ∧
      ∃ i, i < r ∧ ∃ j, j < n ∧
        ¬ detL r (sub M rs B) ∣ detL r (replaceCol (sub M rs B) i (rs.map (fun x => ent M x j))) := by
  cases hf : (choose r (List.range m)).find? (fun rs => detL r (sub M rs B) != 0) with
  | none =>
    obtain ⟨_, rs, hrs, hne⟩ := (mem_columnBases _ _ _ _ _).mp hB
    rw [List.find?_eq_none] at hf
    have := hf rs hrs
    simp [hne] at this
  | some rs =>
    have hd : detL r (sub M rs B) ≠ 0 := by simpa using List.find?_some hf
    have hmem := List.mem_of_find?_eq_some hf
    rw [solveX_unfold m n r M B rs hf] at h
    split at h
    · cases h
    · rename_i hall
      refine ⟨rs, hmem, hd, ?_⟩
      by_contra hcon
      apply hall
      rw [all_ofFn]
      intro i hi j hj
      have : detL r (sub M rs B) ∣ cramerNum r M rs B i j := by
        by_contra hnd
        exact hcon ⟨i, hi, j, hj, hnd⟩
      simpa using Int.emod_eq_zero_of_dvd this

/-- `solveX` is `none` when the columns `B` contain no nonsingular `r × r` row block (`B` is not a column basis). -/
theorem solveX_none_of_not_basis (m n r : Nat) (M : Mat) (B : List Nat)
    (h : ∀ rs ∈ choose r (List.range m), detL r (sub M rs B) = 0) : solveX m n r M B = none := by
  have hf : (choose r (List.range m)).find? (fun rs => detL r (sub M rs B) != 0) = none := by
    rw [List.find?_eq_none]
    intro rs hrs
    simp [h rs hrs]
  unfold solveX
  rw [hf]

/-! ### 5. Cramer numerators of the basis columns themselves -/

/-- For the `j'`-th basis column the Cramer numerator is `det N` on the diagonal and `0` off it (`N` is the chosen
`r × r` block): replacing column `i` of `N` by column `j'` of `N` gives `N` itself or two equal columns. -/
theorem cramer_basis_column (r : Nat) (M : Mat) (rs B : List Nat) (hrs : rs.length = r) (hB : B.length = r)
    {i j' : Nat} (hi : i < r) (hj' : j' < B.length) :
    detL r (replaceCol (sub M rs B) i (rs.map (fun x => ent M x B[j']))) =
      if i = j' then detL r (sub M rs B) else 0 := by
  have hw : (sub M rs B).wf r r = true := by
    have := wf_sub M rs B
    rwa [hrs, hB] at this
  rw [← colOf_sub M rs B hj']
  exact detL_replaceCol_colOf hw hi (by omega)

/-- Consequently `X` restricted to the basis columns is the identity. -/
theorem solveX_basis_columns (m n r : Nat) (M : Mat) (B : List Nat) (X : Mat) (h : solveX m n r M B = some X)
    (hB : B ∈ choose r (List.range n)) {i j' : Nat} (hi : i < r) (hj' : j' < B.length) :
    ent X i B[j'] = if i = j' then 1 else 0 := by
  obtain ⟨_, rs, hrs, hd, hX⟩ := solveX_spec m n r M B X h
  have hlt : B[j'] < n := lt_of_mem_choose_range hB _ (List.getElem_mem hj')
  have h1 := hX i hi B[j'] hlt
  rw [cramer_basis_column r M rs B (length_of_mem_choose hrs) (length_of_mem_choose hB) hi hj'] at h1
  by_cases hij : i = j'
  · simp only [hij, if_true] at h1 ⊢
    have : detL r (sub M rs B) * ent X j' B[j'] = detL r (sub M rs B) * 1 := by rw [h1, Int.mul_one]
    exact Int.eq_of_mul_eq_mul_left hd this
  · simp only [hij, if_false] at h1 ⊢
    rcases Int.mul_eq_zero.mp h1 with h0 | h0
    · exact absurd h0 hd
    · exact h0

/-! ### 6. Nonsingular square matrices are equimodular with `k = |det M|` -/

theorem rankQ_square_nonsingular (n : Nat) (M : Mat) (hwf : M.wf n n = true) (hdet : detL n M ≠ 0) :
    rankQ n n M = n := by
  rw [rankQ_eq_iff]
  refine ⟨⟨List.range n, ?_, List.range n, ?_, ?_⟩, ?_⟩
  · rw [choose_range_self]; simp
  · rw [choose_range_self]; simp
  · rw [sub_range_self hwf]; exact hdet
  · intro k hk rs hrs
    rw [choose_eq_nil_of_lt k (List.range n) (by simpa using hk)] at hrs
    cases hrs

theorem columnBases_square_nonsingular (n : Nat) (M : Mat) (hwf : M.wf n n = true) (hdet : detL n M ≠ 0) :
    columnBases n n n M = [List.range n] := by
  unfold columnBases
  rw [choose_range_self]
  simp [sub_range_self hwf, hdet]

theorem gcdMinors_square (n : Nat) (M : Mat) (hwf : M.wf n n = true) :
    gcdMinors n n M (List.range n) = (detL n M).natAbs := by
  unfold gcdMinors
  rw [choose_range_self]
  simp [sub_range_self hwf]

theorem solveX_square_nonsingular (n : Nat) (M : Mat) (hwf : M.wf n n = true) (hdet : detL n M ≠ 0) :
    solveX n n n M (List.range n) = some (identity n) := by
  have hf : (choose n (List.range n)).find? (fun rs => detL n (sub M rs (List.range n)) != 0)
      = some (List.range n) := by
    rw [choose_range_self]
    simp [sub_range_self hwf, hdet]
  rw [solveX_unfold n n n M _ _ hf, sub_range_self hwf]
  have hnum : Mat.ofFn n n (cramerNum n M (List.range n) (List.range n)) =
      Mat.ofFn n n (fun i j => if i = j then detL n M else 0) := by
    apply ofFn_congr
    intro i hi j hj
    have hj' : j < (List.range n).length := by simpa using hj
    have := cramer_basis_column n M (List.range n) (List.range n) (by simp) (by simp) hi hj'
    simp only [List.getElem_range, sub_range_self hwf] at this
    simp only [cramerNum, sub_range_self hwf]
    exact this
  have hall : (Mat.ofFn n n (fun i j => if i = j then detL n M else 0)).all
      (fun row => row.all (fun x => x % detL n M == 0)) = true := by
    rw [all_ofFn]
    intro i hi j hj
    by_cases hij : i = j <;> simp [hij]
  have hX : Mat.ofFn n n (fun i j => cramerNum n M (List.range n) (List.range n) i j / detL n M) = identity n := by
    unfold identity
    apply ofFn_congr
    intro i hi j hj
    have e : cramerNum n M (List.range n) (List.range n) i j = if i = j then detL n M else 0 := by
      have := congrArg (fun A => ent A i j) hnum
      simpa only [ent_ofFn _ hi hj] using this
    rw [e]
    by_cases hij : i = j
    · simp [hij, Int.ediv_self hdet]
    · simp [hij]
  rw [hnum, hall, hX]
  rfl

/-- **Every nonsingular square matrix is equimodular with determinant gcd `|det M|`** (`X` is the identity, which is
totally unimodular). -/
theorem square_nonsingular_equimodular (n : Nat) (M : Mat) (hwf : M.wf n n = true) (hdet : detL n M ≠ 0) :
    equimodular n n M = (true, (detL n M).natAbs) := by
  unfold equimodular
  simp only [rankQ_square_nonsingular n M hwf hdet, columnBases_square_nonsingular n M hwf hdet]
  unfold equimodFor
  simp only [solveX_square_nonsingular n M hwf hdet, gcdMinors_square n M hwf, isTU_identity]

/-- … and it is unimodular (`k = 1`) iff `det M = ±1`. -/
theorem square_nonsingular_unimodular_iff (n : Nat) (M : Mat) (hwf : M.wf n n = true) (hdet : detL n M ≠ 0) :
    equimodular n n M = (true, 1) ↔ detL n M = 1 ∨ detL n M = -1 := by
  rw [square_nonsingular_equimodular n M hwf hdet]
  simp only [Prod.mk.injEq, true_and]
  omega

/-! ### 7. Definitional facts -/

theorem equimodular_eq_first_basis (m n : Nat) (M : Mat) (B : List Nat) (rest : List (List Nat))
    (h : columnBases m n (rankQ m n M) M = B :: rest) :
    equimodular m n M = equimodFor m n (rankQ m n M) M B := by
  unfold equimodular
  simp only [h]

theorem equimodularAll_eq (m n : Nat) (M : Mat) :
    equimodularAll m n M = (columnBases m n (rankQ m n M) M).map (equimodFor m n (rankQ m n M) M) := rfl

/-- `equimodular` is the first of the answers for all column bases (which is never empty). -/
theorem equimodularAll_head (m n : Nat) (M : Mat) :
    (equimodularAll m n M).head? = some (equimodular m n M) := by
  cases h : columnBases m n (rankQ m n M) M with
  | nil => exact absurd h (columnBases_ne_nil m n M)
  | cons B rest =>
    rw [equimodular_eq_first_basis m n M B rest h, equimodularAll_eq, h]
    rfl

theorem equimodFor_eq_true_iff (m n r : Nat) (M : Mat) (B : List Nat) (k : Nat) :
    equimodFor m n r M B = (true, k) ↔
      gcdMinors m r M B = k ∧ ∃ X, solveX m n r M B = some X ∧ isTU r n X = true := by
  unfold equimodFor
  cases h : solveX m n r M B with
  | none => simp
  | some X =>
    simp only [Prod.mk.injEq, Option.some.injEq, exists_eq_left']
    exact And.comm

/-- Unimodular = equimodular with `k = 1`, spelled out. -/
theorem unimodular_iff (m n : Nat) (M : Mat) :
    equimodular m n M = (true, 1) ↔
      ∃ B rest X, columnBases m n (rankQ m n M) M = B :: rest ∧
        gcdMinors m (rankQ m n M) M B = 1 ∧
        solveX m n (rankQ m n M) M B = some X ∧ isTU (rankQ m n M) n X = true := by
  cases h : columnBases m n (rankQ m n M) M with
  | nil => exact absurd h (columnBases_ne_nil m n M)
  | cons B rest =>
    rw [equimodular_eq_first_basis m n M B rest h, equimodFor_eq_true_iff]
    constructor
    · rintro ⟨hk, X, hX, hTU⟩
      exact ⟨B, rest, X, rfl, hk, hX, hTU⟩
    · rintro ⟨B', rest', X, hBr, hk, hX, hTU⟩
      cases hBr
      exact ⟨hk, X, hX, hTU⟩

theorem equimodFor_false_of_not_TU (m n r : Nat) (M : Mat) (B : List Nat) (X : Mat)
    (hX : solveX m n r M B = some X) (hTU : isTU r n X = false) :
    equimodFor m n r M B = (false, gcdMinors m r M B) := by
  unfold equimodFor
  simp only [hX, hTU]

theorem equimodFor_false_of_not_integral (m n r : Nat) (M : Mat) (B : List Nat)
    (hX : solveX m n r M B = none) : equimodFor m n r M B = (false, gcdMinors m r M B) := by
  unfold equimodFor
  simp only [hX]

/-- The second component is always the gcd of the minors of the basis columns. -/
theorem equimodFor_snd (m n r : Nat) (M : Mat) (B : List Nat) :
    (equimodFor m n r M B).2 = gcdMinors m r M B := by
  unfold equimodFor
  cases solveX m n r M B <;> rfl

/-! ### 8. Non-vacuity -/

/-- The documented definition on concrete matrices: nonsingular square matrices (`k = |det|`), rank-deficient
matrices, non-equimodular matrices (`X` not totally unimodular, `X` not integral), the zero and the empty matrix. -/
example :
    equimodular 2 2 [[2, 1], [0, 2]] = (true, 4) ∧
    equimodular 2 2 [[1, 1], [0, 2]] = (true, 2) ∧
    equimodular 2 2 [[1, 0], [0, 1]] = (true, 1) ∧
    -- rank 1: basis column 0, minors 2 and 4, X = [[1, 2]] is not TU
    rankQ 2 2 [[2, 4], [4, 8]] = 1 ∧ equimodular 2 2 [[2, 4], [4, 8]] = (false, 2) ∧
    -- rank 1, equimodular with k = 2: X = [[1, 1]]
    equimodular 2 2 [[2, 2], [4, 4]] = (true, 2) ∧
    -- rank 2 in a 2 × 3 matrix, X not integral
    equimodular 2 3 [[2, 0, 1], [0, 2, 1]] = (false, 4) ∧
    -- rank 2, X = [[1,0,1],[0,1,-1]] is TU, k = 1: unimodular
    equimodular 2 3 [[1, 0, 1], [0, 1, -1]] = (true, 1) ∧
    -- the zero matrix has rank 0, the empty basis, the empty minor 1
    equimodular 2 2 [[0, 0], [0, 0]] = (true, 1) ∧
    equimodular 0 0 [] = (true, 1) := by decide

/-- The hypotheses of `square_nonsingular_equimodular` are met and its conclusion is the evaluated one. -/
example : let M : Mat := [[2, 1], [0, 2]]
    M.wf 2 2 = true ∧ detL 2 M = 4 ∧ equimodular 2 2 M = (true, (detL 2 M).natAbs) ∧
    columnBases 2 2 (rankQ 2 2 M) M = [[0, 1]] ∧ solveX 2 2 2 M [0, 1] = some (identity 2) ∧
    equimodularAll 2 3 [[1, 0, 1], [0, 1, -1]] = [(true, 1), (true, 1), (true, 1)] := by decide

end Cmr.Props.C16
