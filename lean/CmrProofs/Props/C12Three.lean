/-
  Property C12, 3-sums: **Truemper's 3-sum of totally unimodular matrices is totally unimodular**, for Mathlib matrices
  and for the model's `compose3` (`Cmr/Sums.lean`), with the special lines in arbitrary positions.  Nothing is left open.

  Statement.  With `z = (α; β)`, `g = (γ, δ)` (entries `±1`), `J = [C_i; C_j]` (the two special rows of `M₁`, over all
  columns of `A`), `K = [C_k C_l]` (the two special columns of `M₂`, over all rows of `D`) and a nonsingular `2 × 2`
  matrix `Q`,
      M₁ = [[A, 0],[J, z]],   M₂ = [[g, 0],[K, D]],   N = [[g, 0],[Q, z]]   totally unimodular
      ⟹  [[A, 0],[K Q⁻¹ J, D]]   totally unimodular.
  (`Cmr.threeSum_isTotallyUnimodular`.)  It is *not* needed that `Q` is the submatrix `J[·,{k,l}] = K[{i,j},·]` of
  the operands, although `compose3` checks this; only the total unimodularity of `N` is used.

  Derivation (all of it proved in `CmrProofs/Lemmas/ThreeSumLemmas.lean`).  Route (a) of the task, a direct determinant
  argument generalising the Δ-sum proof; route (b) (pivot of a Δ-sum) was examined first and dropped: pivoting `M₁` on
  an entry `q` of `Q` gives the Δ-sum shape `[[A~, a, a],[cᵀ, 0, ε]]` only when the other entry of `Q` in that column
  vanishes, so it needs a normalisation of `N` and a case distinction over the position of the pivot, and the operands
  of that Δ-sum are not submatrices of pivots of `M₁`, `M₂` but `Q⁻¹`-transformed.

  Take a square submatrix `S = [[A', 0],[K' Q⁻¹ J', D']]` of the sum, `A'` of size `p × q`, `S` of size `k`.
  * `q ≤ p`:  `S = [[A', 0],[0, 1]] · [[1, 0],[C', 1]] · [[1, 0],[0, D']]` through `q + (k − p) ≤ k` indices, outer
    factors totally unimodular, middle factor of determinant 1 (`Cmr.det_signRange_of_factor3`, an extension of the
    2-sum tool `det_signRange_of_factor`): `det S` is `0` (rank) or `det A' · det D'`.
  * `q ≥ p + 2`:  `S = [[1, 0, 0],[0, K', D']] · diag(1, Q⁻¹, 1) · [[A', 0],[J', 0],[0, 1]]` through
    `p + 2 + (k − q) ≤ k` indices: `det S` is `0` or `det [K' D'] · det Q⁻¹ · det [A'; J']`.
  * `q = p + 1` (the heart).  Write `K' Q⁻¹ J' = d₁ c₁ᵀ + d₂ c₂ᵀ` (`d_b` the columns of `K'`, `c_a` the rows of
    `Q⁻¹ J'`).  Then (`Cmr.det_rk2`, any commutative ring)
        det [[A', 0],[d₁ c₁ᵀ + d₂ c₂ᵀ, D']] = det [A'; c₁ᵀ] · det [d₁ D'] + det [A'; c₂ᵀ] · det [d₂ D'].
    Proof without Laplace expansion or Cauchy–Binet: border `S` by one row and one column,
        B = [[A', 0, 0],[c₁ᵀ, 1, 0],[d₂ c₂ᵀ, −d₁, D']] = [[Ã, a bᵀ],[d₂ c₂ᵀ, D̃]],
        Ã = [A'; c₁ᵀ],  D̃ = [−d₁ D'],  a = b = first/last unit vector (so `a bᵀ` is the single entry 1);
    adding `d₁` times the new row to the rows of `D'` restores `d₁ c₁ᵀ + d₂ c₂ᵀ`, i.e. `S` is the Schur complement of the unit entry of `B` (after one transposition of columns, so `det S = −det B`),
    and `det B` is given by the rank-one identity `Cmr.det_fromBlocks_rankOne` of the Δ-sum proof; its two bordered
    determinants are `−det [A'; c₂ᵀ]` and `−det [d₂ D']` (`Cmr.det_bordRows`, `Cmr.det_bordCols`: expansion along a
    line with two non-zeros, done by one transposition and `det_fromBlocks_zero₁₂`).
    By linearity in the last row, `det [A'; c_aᵀ] = (Q⁻¹ x)_a` with `x_b = det [A'; J'_b]`, so `det S = y Q⁻¹ x`,
    `y_b = det [K'_b D']`.  Known: `x₁, x₂, det [[A', 0],[J', z]] = β x₁ − α x₂ ∈ {0,±1}` (minors of `M₁`) and
    `y₁, y₂, det [[g, 0],[K', D']] = γ y₂ − δ y₁ ∈ {0,±1}` (minors of `M₂`).  Since `α, β = ±1`, this forces
    `x ∈ {0, ±e₁, ±e₂, ±z}` and likewise `y ∈ {0, ±e₁, ±e₂, ±g}` (`Cmr.pair_of_det_signRange`); hence `y Q⁻¹ x` is, up
    to sign, an entry of `Q⁻¹`, of `Q⁻¹ z`, of `g Q⁻¹`, or `g Q⁻¹ z` — and with `Q⁻¹ = det Q · adj Q` these nine numbers
    are `± det Q` times minors of `N` (entries of `Q`; `2 × 2` minors of `[Q z]` and `[g; Q]`; `det N`)
    (`Cmr.threeSum_arith`).  The conjecture was checked numerically first (all 192 admissible `N`, 9408 cases).

  Model level: `compose3 3 … = .ok P` yields the documented shape (`C12.compose3_eq_ok_iff`); a totally unimodular
  operand has entries in `{0,±1}`, on which `normChar 3` is the identity; `det Q ∈ {0,±1}` is a minor of `N`; the
  bottom-left entries of `P` are `normChar 3` of the exact integer entries of `K Q⁻¹ J`, which are `1 × 1` minors of the
  totally unimodular integer matrix and therefore unchanged by `normChar 3`.
-/
import CmrProofs.Props.C12
import CmrProofs.Lemmas.ThreeSumLemmas

set_option linter.unusedSimpArgs false
set_option linter.unusedVariables false
set_option linter.unnecessarySeqFocus false
set_option linter.unreachableTactic false
set_option linter.unusedTactic false

namespace Cmr.Props.C12Three
open Cmr Cmr.Props.C12 Matrix

/-! ## 1. Mathlib level -/

/-- **Determinant of `[[A, 0],[d₁ c₁ᵀ + d₂ c₂ᵀ, D]]`**, `A` of size `p × (p+1)`, `D` of size `(r+1) × r` (any
commutative ring). -/
theorem det_rankTwoBlock {R : Type*} [CommRing R] {p r : Type*} [Fintype p] [DecidableEq p] [Fintype r]
    [DecidableEq r] (A : Matrix p (p ⊕ Unit) R) (D : Matrix (Unit ⊕ r) r R) (c₁ c₂ : p ⊕ Unit → R)
    (d₁ d₂ : Unit ⊕ r → R) :
    ((fromBlocks A 0 (Matrix.of fun i j => d₁ i * c₁ j + d₂ i * c₂ j) D).submatrix (Equiv.sumAssoc p Unit r) id).det =
      (fromRows A (replicateRow Unit c₁)).det * (fromCols (replicateCol Unit d₁) D).det +
      (fromRows A (replicateRow Unit c₂)).det * (fromCols (replicateCol Unit d₂) D).det :=
  det_rk2 A D c₁ c₂ d₁ d₂

/-- **Truemper's 3-sum of totally unimodular matrices** (standard position): `M₁ = [[A, 0],[J, z]]`,
`M₂ = [[g, 0],[K, D]]`, `N = [[g, 0],[Q, z]]` totally unimodular, `z`, `g` with entries `±1`, `Q` nonsingular, imply
`[[A, 0],[K Q⁻¹ J, D]]` totally unimodular, where `Q⁻¹ = det Q • adj Q` (see `inverse_connecting`). -/
theorem threeSum_isTotallyUnimodular {m m' n n' : Type*} (A : Matrix m n ℤ) (J : Matrix (Fin 2) n ℤ)
    (z : Fin 2 → ℤ) (g : Fin 2 → ℤ) (K : Matrix m' (Fin 2) ℤ) (D : Matrix m' n' ℤ) (Q : Matrix (Fin 2) (Fin 2) ℤ)
    (hz : ∀ a, z a = 1 ∨ z a = -1) (hg : ∀ b, g b = 1 ∨ g b = -1) (hQ : Q.det ≠ 0)
    (h1 : (fromBlocks A 0 J (replicateCol Unit z)).IsTotallyUnimodular)
    (h2 : (fromBlocks (replicateRow Unit g) 0 K D).IsTotallyUnimodular)
    (hN : (fromBlocks (replicateRow Unit g) 0 Q (replicateCol Unit z)).IsTotallyUnimodular) :
    (fromBlocks A 0 (K * (Q.det • Q.adjugate) * J) D).IsTotallyUnimodular :=
  Cmr.threeSum_isTotallyUnimodular A J z g K D Q hz hg hQ h1 h2 hN

/-- `det Q • adj Q` is the inverse of an integer `2 × 2` matrix of determinant `±1`. -/
theorem inverse_connecting {Q : Matrix (Fin 2) (Fin 2) ℤ} (hQ : Q.det = 1 ∨ Q.det = -1) :
    Q * (Q.det • Q.adjugate) = 1 :=
  mul_det_smul_adjugate hQ

/-! ## 2. The model's `compose3` -/

/-- the determinant of the connecting matrix is a minor of `N` -/
theorem threeN_det_ternary {γ δ q00 q01 q10 q11 α β : Int}
    (hN : isTU 3 3 [[γ, δ, 0], [q00, q01, α], [q10, q11, β]] = true) :
    q00 * q11 - q01 * q10 = 0 ∨ q00 * q11 - q01 * q10 = 1 ∨ q00 * q11 - q01 * q10 = -1 := by
  rw [isTU_iff] at hN
  have hN' := hN.submatrix (Sum.elim (fun _ : Unit => (0 : Fin 3)) (fun a : Fin 2 => a.succ))
    (Sum.elim (fun b : Fin 2 => b.castSucc) (fun _ : Unit => (2 : Fin 3)))
  rw [toMx_threeN] at hN'
  have := (isTotallyUnimodular_iff_fintype _).mp hN' (Fin 2) ![Sum.inr 0, Sum.inr 1] ![Sum.inl 0, Sum.inl 1]
  rw [det_fin_two] at this
  simp only [submatrix_apply, cons_val_zero, cons_val_one, fromBlocks_apply₂₁, of_apply, cons_val', cons_val_fin_one]
    at this
  exact (signRange_iff _).mp this

/-- **Over GF(3), the model's 3-sum of totally unimodular matrices is totally unimodular**, for every position of the
special rows and columns of each operand (`N` is checked by the oracle `isTU 3 3`). -/
theorem compose3_TU {m1 n1 : Nat} {M1 : Mat} {m2 n2 : Nat} {M2 : Mat} {ri rj ck cl cz rg ri2 rj2 ck2 cl2 : Nat}
    {P : Mat}
    (h : compose3 3 m1 n1 M1 m2 n2 M2 ri rj ck cl cz rg ri2 rj2 ck2 cl2 (fun N => isTU 3 3 N) = .ok P)
    (hTU1 : isTU m1 n1 M1 = true) (hTU2 : isTU m2 n2 M2 = true) :
    isTU ((m1 - 2) + (m2 - 1)) ((n1 - 1) + (n2 - 2)) P = true := by
  obtain ⟨⟨⟨hri, hrj, hrij, hck, hcl, hcz, hkl, hkz, hlz, hrg, hri2, hrj2, hgi, hgj, hij2, hck2, hcl2, hkl2⟩,
    ⟨hα, hβ⟩, hz0, ⟨hγ, hδ⟩, hg0, -, hdet, hN⟩, rfl⟩ :=
    (compose3_eq_ok_iff _ _ _ _ _ _ _ _ _ _ _ _ _ _ _ _ _ _ _).mp h
  have t1 : ∀ i, i < m1 → ∀ j, j < n1 → ent M1 i j = 0 ∨ ent M1 i j = 1 ∨ ent M1 i j = -1 :=
    fun i hi j hj => (isTernaryEntry_iff _).mp (isTU_entry M1 hTU1 hi hj)
  have t2 : ∀ i, i < m2 → ∀ j, j < n2 → ent M2 i j = 0 ∨ ent M2 i j = 1 ∨ ent M2 i j = -1 :=
    fun i hi j hj => (isTernaryEntry_iff _).mp (isTU_entry M2 hTU2 hi hj)
  have q1 : ∀ i, i < m1 → ∀ j, j < n1 → normChar 3 (ent M1 i j) = ent M1 i j :=
    fun i hi j hj => normChar_three_of_ternary (t1 i hi j hj)
  have q2 : ∀ i, i < m2 → ∀ j, j < n2 → normChar 3 (ent M2 i j) = ent M2 i j :=
    fun i hi j hj => normChar_three_of_ternary (t2 i hi j hj)
  rw [q1 _ hri _ hcz] at hα
  rw [q1 _ hrj _ hcz] at hβ
  rw [q2 _ hrg _ hck2] at hγ
  rw [q2 _ hrg _ hcl2] at hδ
  rw [q1 _ hri _ hck, q1 _ hrj _ hcl, q1 _ hri _ hcl, q1 _ hrj _ hck] at hdet
  rw [q1 _ hri _ hck, q1 _ hrj _ hcl, q1 _ hri _ hcl, q1 _ hrj _ hck, q1 _ hri _ hcz, q1 _ hrj _ hcz,
    q2 _ hrg _ hck2, q2 _ hrg _ hcl2] at hN
  have hdq := threeN_det_ternary hN
  have hdq' : normChar 3 (ent M1 ri ck * ent M1 rj cl - ent M1 ri cl * ent M1 rj ck) =
      ent M1 ri ck * ent M1 rj cl - ent M1 ri cl * ent M1 rj ck := normChar_three_of_ternary hdq
  rw [hdq'] at hdet
  rw [← length_eraseIdxs_two hri hrj hrij, ← length_eraseIdxs_one hrg, ← length_eraseIdxs_one hcz,
    ← length_eraseIdxs_two hck2 hcl2 hkl2]
  simp only [threeResult]
  rw [q1 _ hri _ hck, q1 _ hrj _ hcl, q1 _ hri _ hcl, q1 _ hrj _ hck, hdq']
  set rows1 := eraseIdxs (List.range m1) [ri, rj] with hrows1
  set cols1 := eraseIdxs (List.range n1) [cz] with hcols1
  set rows2 := eraseIdxs (List.range m2) [rg] with hrows2
  set cols2 := eraseIdxs (List.range n2) [ck2, cl2] with hcols2
  have mr1 : ∀ x ∈ rows1, x < m1 ∧ x ≠ ri ∧ x ≠ rj := fun x hx => by
    have := (mem_eraseIdxs_range m1 [ri, rj] x).mp hx; simpa using this
  have mc1 : ∀ x ∈ cols1, x < n1 := fun x hx => ((mem_eraseIdxs_range n1 [cz] x).mp hx).1
  have mr2 : ∀ x ∈ rows2, x < m2 := fun x hx => ((mem_eraseIdxs_range m2 [rg] x).mp hx).1
  have mc2 : ∀ x ∈ cols2, x < n2 ∧ x ≠ ck2 ∧ x ≠ cl2 := fun x hx => by
    have := (mem_eraseIdxs_range n2 [ck2, cl2] x).mp hx; simpa using this
  have key := isTU_threeSum_lists M1 M2 hTU1 hTU2 rows1 cols1 rows2 cols2 (fun x hx => (mr1 x hx).1) mc1 mr2
    (fun x hx => (mc2 x hx).1) ri rj cz rg ck2 cl2 hri hrj hcz hrg hck2 hcl2 hα hβ hγ hδ
    (fun x hx => by
      have := hz0 x (mr1 x hx).1 (mr1 x hx).2.1 (mr1 x hx).2.2
      rwa [q1 _ (mr1 x hx).1 _ hcz] at this)
    (fun y hy => by
      have := hg0 y (mc2 y hy).1 (mc2 y hy).2.1 (mc2 y hy).2.2
      rwa [q2 _ hrg _ (mc2 y hy).1] at this)
    (ent M1 ri ck) (ent M1 ri cl) (ent M1 rj ck) (ent M1 rj cl) hdet hN
  rw [← key]
  apply isTU_congr
  intro i hi j hj
  have hent := (isTernaryEntry_iff _).mp (isTU_entry _ key hi hj)
  rw [Cmr.ent_blockMat _ _ _ _ _ _ _ _ hi hj] at hent ⊢
  rw [Cmr.ent_blockMat _ _ _ _ _ _ _ _ hi hj]
  have gr1 : ∀ i, i < rows1.length → rows1.getD i 0 < m1 := fun i hi => (mr1 _ (getD_mem_of_lt hi)).1
  have gc1 : ∀ j, j < cols1.length → cols1.getD j 0 < n1 := fun j hj => mc1 _ (getD_mem_of_lt hj)
  have gr2 : ∀ i, i < rows2.length → rows2.getD i 0 < m2 := fun i hi => mr2 _ (getD_mem_of_lt hi)
  have gc2 : ∀ j, j < cols2.length → cols2.getD j 0 < n2 := fun j hj => (mc2 _ (getD_mem_of_lt hj)).1
  by_cases h1 : i < rows1.length <;> by_cases h2 : j < cols1.length <;>
    simp only [h1, h2, if_true, if_false] at hent ⊢
  · exact q1 _ (gr1 i h1) _ (gc1 j h2)
  · exact normChar_three_of_ternary hent
  · exact q2 _ (gr2 _ (by omega)) _ (gc2 _ (by omega))

/-! ## 3. Numeric sanity -/

/-- two instances in which all hypotheses of `compose3_TU` hold.  (1) Both operands are `[[1,1,0],[1,0,1],[0,1,-1]]`
(as `M₁`: `A = (1 1)`, `C_i = (1 0)`, `C_j = (0 1)`, `(α;β) = (1;-1)`; as `M₂`: `(γ δ) = (1 1)`, `C_k = (1;0)`,
`C_l = (0;1)`, `D = (1;-1)`), `Q = 1`.  (2) `4 × 4` operands with `Q = [[0,-1],[1,1]]`, `(α;β) = (-1;1)`,
`(γ δ) = (1 1)` and a row of `C` that is not a row of either operand.  The sums are totally unimodular. -/
example :
    isTU 3 3 [[1, 1, 0], [1, 0, 1], [0, 1, -1]] = true ∧
    okEq (compose3 3 3 3 [[1, 1, 0], [1, 0, 1], [0, 1, -1]] 3 3 [[1, 1, 0], [1, 0, 1], [0, 1, -1]]
      1 2 0 1 2 0 1 2 0 1 (fun N => isTU 3 3 N)) [[1, 1, 0], [1, 0, 1], [0, 1, -1]] = true ∧
    isTU 4 4 [[-1, 0, 1, 0], [-1, 0, 1, 0], [0, -1, 1, -1], [1, 1, -1, 1]] = true ∧
    isTU 4 4 [[1, 1, 0, 0], [0, -1, -1, -1], [1, 1, 1, 0], [-1, -1, -1, -1]] = true ∧
    okEq (compose3 3 4 4 [[-1, 0, 1, 0], [-1, 0, 1, 0], [0, -1, 1, -1], [1, 1, -1, 1]]
        4 4 [[1, 1, 0, 0], [0, -1, -1, -1], [1, 1, 1, 0], [-1, -1, -1, -1]]
      2 3 0 1 3 0 1 2 0 1 (fun N => isTU 3 3 N))
      [[-1, 0, 1, 0, 0], [-1, 0, 1, 0, 0], [0, -1, 1, -1, -1], [1, 1, -1, 1, 0], [-1, -1, 1, -1, -1]] = true ∧
    isTU 5 5 [[-1, 0, 1, 0, 0], [-1, 0, 1, 0, 0], [0, -1, 1, -1, -1], [1, 1, -1, 1, 0], [-1, -1, 1, -1, -1]] = true := by
  decide

end Cmr.Props.C12Three
