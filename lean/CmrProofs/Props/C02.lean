/-
  Property C02 — the regularity verdict equals the definition: a 0/1 matrix is regular iff its nonzeros can be
  signed so that the matrix becomes totally unimodular (entries outside {0,1}: not regular).

  Model: `Cmr/Regular.lean` (`rowSignings`, the depth-first `signSearch` that abandons a non-TU row prefix,
  `tuSigning`, `isRegular`).  The search prunes; the theorems below show the pruning loses nothing (every row prefix
  of a TU matrix is TU), so the verdict is exactly "binary and some signing is TU", where TU is Mathlib's
  `Matrix.IsTotallyUnimodular` through `isTU_iff`.
  Tie: op `regular M` → `CMRregularTest` verdict = `isRegular`.
-/
import Mathlib.Data.List.Forall2
import CmrProofs.Lemmas.TUClosure
import Cmr.Regular

set_option linter.unusedSimpArgs false
set_option linter.unusedVariables false

namespace Cmr.Props.C02
open Cmr Matrix

/-! ### Row signings -/

/-- `rowSignings r` is exactly the set of rows of the same length that are `0` where `r` is `0` and `±1` elsewhere. -/
theorem mem_rowSignings (r s : List Int) :
    s ∈ rowSignings r ↔ List.Forall₂ (fun x y => if x = 0 then y = 0 else (y = 1 ∨ y = -1)) r s := by
  induction r generalizing s with
  | nil => simp [rowSignings, List.forall₂_nil_left_iff]
  | cons x xs ih =>
    by_cases hx : x = 0
    · simp only [rowSignings, hx, beq_self_eq_true, if_true, List.mem_map, List.forall₂_cons_left_iff, ih]
      constructor
      · rintro ⟨t, ht, rfl⟩; exact ⟨0, t, rfl, ht, rfl⟩
      · rintro ⟨b, t, hb, ht, rfl⟩; exact ⟨t, ht, by rw [hb]⟩
    · have hx' : (x == 0) = false := by simpa using hx
      simp only [rowSignings, hx', hx, if_false, List.mem_append, List.mem_map, List.forall₂_cons_left_iff, ih,
        Bool.false_eq_true]
      constructor
      · rintro (⟨t, ht, rfl⟩ | ⟨t, ht, rfl⟩)
        · exact ⟨1, t, Or.inl rfl, ht, rfl⟩
        · exact ⟨-1, t, Or.inr rfl, ht, rfl⟩
      · rintro ⟨b, t, hb | hb, ht, rfl⟩
        · exact Or.inl ⟨t, ht, by rw [hb]⟩
        · exact Or.inr ⟨t, ht, by rw [hb]⟩

/-- Positional form of `mem_rowSignings`. -/
theorem mem_rowSignings_iff_getElem (r s : List Int) :
    s ∈ rowSignings r ↔ s.length = r.length ∧
      ∀ i, i < r.length → (if r.getD i 0 = 0 then s.getD i 0 = 0 else (s.getD i 0 = 1 ∨ s.getD i 0 = -1)) := by
  rw [mem_rowSignings, List.forall₂_iff_get]
  constructor
  · rintro ⟨hl, h⟩
    refine ⟨hl.symm, fun i hi => ?_⟩
    have hi' : i < s.length := by omega
    have := h i hi hi'
    simpa [List.getD_eq_getElem?_getD, List.getElem?_eq_getElem hi, List.getElem?_eq_getElem hi'] using this
  · rintro ⟨hl, h⟩
    refine ⟨hl.symm, fun i hi hi' => ?_⟩
    have := h i hi
    simpa [List.getD_eq_getElem?_getD, List.getElem?_eq_getElem hi, List.getElem?_eq_getElem hi'] using this

theorem length_of_mem_rowSignings {r s : List Int} (h : s ∈ rowSignings r) : s.length = r.length :=
  ((mem_rowSignings_iff_getElem r s).mp h).1

/-- A 0/1 row is one of its own signings. -/
theorem self_mem_rowSignings {r : List Int} (hb : r.all isBinaryEntry = true) : r ∈ rowSignings r := by
  rw [mem_rowSignings]
  induction r with
  | nil => exact List.Forall₂.nil
  | cons x xs ih =>
    simp only [List.all_cons, Bool.and_eq_true] at hb
    refine List.Forall₂.cons ?_ (ih hb.2)
    rcases (isBinaryEntry_iff x).mp hb.1 with h | h <;> simp [h]

/-! ### Signings of a matrix -/

/-- `S` is a signing of `M`: same shape, `0` where `M` is `0`, `±1` where `M` is nonzero. -/
def IsSigningOf (S M : Mat) : Prop := List.Forall₂ (fun r s => s ∈ rowSignings r) M S

theorem IsSigningOf.length_eq {S M : Mat} (h : IsSigningOf S M) : S.length = M.length :=
  (List.Forall₂.length_eq h).symm

theorem isSigningOf_nil_iff (S : Mat) : IsSigningOf S [] ↔ S = [] := by
  simp [IsSigningOf, List.forall₂_nil_left_iff]

theorem isSigningOf_cons_iff (S : Mat) (r : List Int) (rest : Mat) :
    IsSigningOf S (r :: rest) ↔ ∃ s S', s ∈ rowSignings r ∧ IsSigningOf S' rest ∧ S = s :: S' := by
  simp [IsSigningOf, List.forall₂_cons_left_iff]

/-- A signing has the shape of the matrix it signs. -/
theorem IsSigningOf.wf {S M : Mat} {m n : Nat} (h : IsSigningOf S M) (hwf : M.wf m n = true) : S.wf m n = true := by
  have hl := h.length_eq
  have hm := length_of_wf hwf
  simp only [Mat.wf, Bool.and_eq_true, beq_iff_eq, List.all_eq_true]
  refine ⟨by omega, fun s hs => ?_⟩
  obtain ⟨i, hi, rfl⟩ := List.getElem_of_mem hs
  have hi' : i < M.length := by omega
  have := (List.forall₂_iff_get.mp h).2 i hi' hi
  simp only [List.get_eq_getElem] at this
  rw [length_of_mem_rowSignings this]
  exact row_length_of_wf hwf (List.getElem_mem hi')

/-- Entrywise reading of `IsSigningOf` for a well-formed `M`: same shape and every entry is an admissible signed value. -/
theorem isSigningOf_iff_ent {S M : Mat} {m n : Nat} (hwf : M.wf m n = true) :
    IsSigningOf S M ↔ S.wf m n = true ∧
      ∀ i, i < m → ∀ j, j < n →
        (if ent M i j = 0 then ent S i j = 0 else (ent S i j = 1 ∨ ent S i j = -1)) := by
  have hm := length_of_wf hwf
  constructor
  · intro h
    refine ⟨h.wf hwf, fun i hi j hj => ?_⟩
    have hiM : i < M.length := by omega
    have hiS : i < S.length := by rw [h.length_eq]; exact hiM
    have hrow := (List.forall₂_iff_get.mp h).2 i hiM hiS
    simp only [List.get_eq_getElem] at hrow
    have hlen : (M[i]).length = n := row_length_of_wf hwf (List.getElem_mem hiM)
    have := ((mem_rowSignings_iff_getElem _ _).mp hrow).2 j (by omega)
    simpa [ent, List.getD_eq_getElem?_getD, List.getElem?_eq_getElem hiM, List.getElem?_eq_getElem hiS] using this
  · rintro ⟨hS, h⟩
    have hSl := length_of_wf hS
    refine List.forall₂_iff_get.mpr ⟨by omega, fun i hiM hiS => ?_⟩
    simp only [List.get_eq_getElem]
    have hlenM : (M[i]).length = n := row_length_of_wf hwf (List.getElem_mem hiM)
    have hlenS : (S[i]).length = n := row_length_of_wf hS (List.getElem_mem hiS)
    refine (mem_rowSignings_iff_getElem _ _).mpr ⟨by omega, fun j hj => ?_⟩
    have := h i (by omega) j (by omega)
    simpa [ent, List.getD_eq_getElem?_getD, List.getElem?_eq_getElem hiM, List.getElem?_eq_getElem hiS] using this

/-- A 0/1 matrix is a signing of itself. -/
theorem isSigningOf_self {M : Mat} (hb : isBinary M = true) : IsSigningOf M M := by
  unfold IsSigningOf
  rw [List.forall₂_same]
  intro r hr
  simp only [isBinary, List.all_eq_true] at hb
  exact self_mem_rowSignings (List.all_eq_true.mpr (hb r hr))

/-! ### Row prefixes of a TU matrix are TU -/

theorem ent_append_left (A B : Mat) {i : Nat} (hi : i < A.length) (j : Nat) : ent (A ++ B) i j = ent A i j := by
  simp [ent, List.getD_eq_getElem?_getD, List.getElem?_append_left hi]

/-- Every row prefix of a TU matrix is TU (no shape hypothesis: `ent` is total). -/
theorem isTU_prefix (n : Nat) (A B : Mat) (h : isTU (A ++ B).length n (A ++ B) = true) :
    isTU A.length n A = true := by
  rw [isTU_iff] at h ⊢
  have key : toMx A.length n A =
      (toMx (A ++ B).length n (A ++ B)).submatrix
        (fun i : Fin A.length => ⟨i.val, by rw [List.length_append]; exact Nat.lt_add_right _ i.isLt⟩) id := by
    ext i j
    simp [toMx, ent_append_left A B i.isLt]
  rw [key]
  exact h.submatrix _ _

theorem isTU_zero_rows (n : Nat) (M : Mat) : isTU 0 n M = true := by
  rw [isTU_iff]
  intro k f g hf hg
  have : k = 0 := by
    have := Fintype.card_le_of_injective f hf
    simpa using this
  subst this
  exact ⟨1, by simp⟩

/-! ### The search -/

/-- Soundness: a result extends the prefix by a signing of the remaining rows, and (if a row was added) is TU. -/
theorem signSearch_sound (n : Nat) (rows : List (List Int)) (pref P : Mat) (h : signSearch n rows pref = some P) :
    ∃ S, IsSigningOf S rows ∧ P = pref ++ S ∧ (rows ≠ [] → isTU P.length n P = true) := by
  induction rows generalizing pref with
  | nil =>
    simp only [signSearch, Option.some.injEq] at h
    exact ⟨[], (isSigningOf_nil_iff _).mpr rfl, by simp [h], fun hne => absurd rfl hne⟩
  | cons r rest ih =>
    simp only [signSearch] at h
    obtain ⟨s, hs, hsome⟩ := List.exists_of_findSome?_eq_some h
    by_cases htu : isTU (pref ++ [s]).length n (pref ++ [s]) = true
    · rw [if_pos htu] at hsome
      obtain ⟨S', hS', hP, htuP⟩ := ih (pref ++ [s]) hsome
      refine ⟨s :: S', (isSigningOf_cons_iff _ _ _).mpr ⟨s, S', hs, hS', rfl⟩, by simp [hP], fun _ => ?_⟩
      by_cases hrest : rest = []
      · subst hrest
        rw [(isSigningOf_nil_iff _).mp hS'] at hP
        rw [hP, List.append_nil]
        exact htu
      · exact htuP hrest
    · rw [if_neg htu] at hsome
      cases hsome

/-- Completeness: pruning loses nothing.  If some signing of the remaining rows completes the prefix to a TU matrix,
the search succeeds.  (No row-length hypotheses are needed.) -/
theorem signSearch_complete (n : Nat) (rows : List (List Int)) (pref S : Mat) (hS : IsSigningOf S rows)
    (htu : isTU (pref ++ S).length n (pref ++ S) = true) : (signSearch n rows pref).isSome = true := by
  induction rows generalizing pref S with
  | nil => simp [signSearch]
  | cons r rest ih =>
    obtain ⟨s, S', hs, hS', rfl⟩ := (isSigningOf_cons_iff _ _ _).mp hS
    simp only [signSearch]
    rw [List.findSome?_isSome_iff]
    refine ⟨s, hs, ?_⟩
    have e : pref ++ s :: S' = (pref ++ [s]) ++ S' := by simp
    rw [e] at htu
    have hp : isTU (pref ++ [s]).length n (pref ++ [s]) = true := isTU_prefix n _ _ htu
    rw [if_pos hp]
    exact ih (pref ++ [s]) S' hS' htu

/-- What `tuSigning` returns is a TU signing of `M`. -/
theorem tuSigning_sound (n : Nat) (M S : Mat) (h : tuSigning n M = some S) :
    isBinary M = true ∧ IsSigningOf S M ∧ isTU M.length n S = true := by
  unfold tuSigning at h
  by_cases hb : isBinary M = true
  · rw [if_pos hb] at h
    obtain ⟨S', hS', hP, htu⟩ := signSearch_sound n M [] S h
    simp only [List.nil_append] at hP
    subst hP
    refine ⟨hb, hS', ?_⟩
    by_cases hM : M = []
    · subst hM; exact isTU_zero_rows n S
    · rw [← hS'.length_eq]; exact htu hM
  · rw [if_neg hb] at h
    cases h

/-! ### The verdict -/

/-- Only the row count of `M` matters for the statement (`ent` is total); `isRegular_iff` is the well-formed case. -/
theorem isRegular_iff_of_length (m n : Nat) (M : Mat) (hlen : M.length = m) :
    isRegular n M = true ↔ isBinary M = true ∧ ∃ S : Mat, IsSigningOf S M ∧ isTU m n S = true := by
  constructor
  · intro h
    unfold isRegular at h
    obtain ⟨S, hS⟩ := Option.isSome_iff_exists.mp h
    obtain ⟨hb, hsig, htu⟩ := tuSigning_sound n M S hS
    exact ⟨hb, S, hsig, by rw [← hlen]; exact htu⟩
  · rintro ⟨hb, S, hsig, htu⟩
    unfold isRegular tuSigning
    rw [if_pos hb]
    apply signSearch_complete n M [] S hsig
    simp only [List.nil_append]
    rw [hsig.length_eq, hlen]
    exact htu

/-- **Regular iff 0/1 and the nonzeros can be signed so that the matrix becomes totally unimodular.** -/
theorem isRegular_iff (m n : Nat) (M : Mat) (hwf : M.wf m n = true) :
    isRegular n M = true ↔ isBinary M = true ∧ ∃ S : Mat, IsSigningOf S M ∧ isTU m n S = true :=
  isRegular_iff_of_length m n M (length_of_wf hwf)

/-- The same with Mathlib's total unimodularity. -/
theorem isRegular_iff_mathlib (m n : Nat) (M : Mat) (hwf : M.wf m n = true) :
    isRegular n M = true ↔
      isBinary M = true ∧ ∃ S : Mat, IsSigningOf S M ∧ (toMx m n S).IsTotallyUnimodular := by
  rw [isRegular_iff m n M hwf]
  simp only [isTU_iff]

/-- Entries outside {0,1}: not regular. -/
theorem not_binary_not_regular (n : Nat) (M : Mat) (h : isBinary M = false) : isRegular n M = false := by
  simp [isRegular, tuSigning, h]

/-- A TU 0/1 matrix is regular (it is its own signing). -/
theorem regular_of_binary_TU (m n : Nat) (M : Mat) (hwf : M.wf m n = true) (hb : isBinary M = true)
    (htu : isTU m n M = true) : isRegular n M = true :=
  (isRegular_iff m n M hwf).mpr ⟨hb, M, isSigningOf_self hb, htu⟩

/-- Non-vacuity: a regular matrix that is not itself TU, the (non-regular) Fano matrix, a non-binary matrix. -/
example : isRegular 3 [[1, 1, 0], [0, 1, 1], [1, 0, 1]] = true ∧
    isTU 3 3 [[1, 1, 0], [0, 1, 1], [1, 0, 1]] = false ∧
    isRegular 4 [[1, 1, 0, 1], [1, 0, 1, 1], [0, 1, 1, 1]] = false ∧
    isRegular 2 [[1, -1]] = false := by decide

end Cmr.Props.C02
