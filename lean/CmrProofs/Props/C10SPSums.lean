/-
  Property C10 (extension) — the `sumRel` table entries for the series-parallel classes `spb` (`isSPgreedy false`) and
  `spt` (`isSPgreedy true`):
    * `sumRel "1" _ c = .both`      : a 1-sum is series-parallel iff every summand is (`sum1_sp`, `compose1_sp_list`);
    * `sumRel "2" 2 .spb = .closed` : the binary 2-sum of binary series-parallel matrices is binary series-parallel, in
                                      both layouts (`sum2a_spb`, `sum2b_spb`);
    * `sumRel "2" 3 .spt = .closed` : the GF(3) 2-sum of ternary series-parallel matrices is ternary series-parallel
                                      (`sum2a_spt`, `sum2b_spt`).

  Route: `isSPgreedy_iff_SPE` (RelLemmas, from C08) reads series-parallelness as the existence of a reduction sequence
  `SPE t E R C` on index sets; `SPE.embed` (SPLemmas) transports it along signed embeddings.
  1-sum.  `⇒`: each block is a submatrix (`sp_S`).  `⇐`: a line that is removable in a block is removable in the
  block-diagonal matrix (`LineRem.append`), so the reduction of the first block followed by the reduction of the second
  one reduces the whole (`SPE.append`).  No well-formedness hypothesis is needed.
  2-sum.  On one entry function `F` the 2-sum `[[A', 0], [d cᵀ, D]]` of `A` (rows `RA`, special row `r`, `cᵀ` = row `r`)
  and `B = [d D]` (columns `CB`, special column `c`, given by a separate vector `d`) lives on the index sets
  `(RA.erase r ++ RB, CA ++ CB.erase c)` (`G2`, `P2`).  Induction on the reduction sequence of `A`, for all `B` and for
  both layouts at once (`SPE_twoSum`; the second layout is the first one for `flipE F`):
    * a removed line of `A` that does not interact with the special row is removable in the sum (`P2_row`, `P2_col`);
    * a row of `A` that is a copy of the special row, or a unit column of `A` at the special row, is moved to `B`
      (as a unit row at the special column, resp. a copy of the special column);
    * the special row itself: zero — the sum is block diagonal (1-sum); copy of row `i` — `i` becomes the special row
      (and stays, as a unit row of `B`); unit at column `j` — the sum is a 2-sum in the other layout, of `A` without the
      special row (special column `j`) and `B` with a new unit row.
  The operands of a 2-sum are assumed to have entries `0, 1` (binary) resp. `0, 1, -1` (ternary) inside their windows:
  `compose2a`, `compose2b` reduce the entries mod 2 resp. mod 3, and `isSPgreedy` itself does not restrict the entries.
-/
import CmrProofs.Props.C10Sums

set_option linter.unusedSimpArgs false
set_option linter.unusedVariables false

namespace Cmr.Props.C10SPSums
open Cmr

/-! ## 0. The table entries -/

theorem sumRel_sp : sumRel "1" 2 .spb = .both ∧ sumRel "1" 3 .spb = .both ∧ sumRel "1" 2 .spt = .both ∧
    sumRel "1" 3 .spt = .both ∧ sumRel "2" 2 .spb = .closed ∧ sumRel "2" 3 .spt = .closed := by decide

/-! ## 1. Reductions of block-diagonal index sets -/

/-- a removable line stays removable when the index sets grow by lines that vanish on the new columns -/
theorem LineRem.append {t : Bool} {F : Nat → Nat → Int} {R1 C1 : List Nat} (R2 C2 : List Nat) {r : Nat}
    (hz : ∀ x ∈ R1, ∀ y ∈ C2, F x y = 0) (h : LineRem t F R1 C1 r) : LineRem t F (R1 ++ R2) (C1 ++ C2) r := by
  obtain ⟨hr, h⟩ := h
  refine ⟨List.mem_append_left _ hr, ?_⟩
  rcases h with h | ⟨c, hc, hne, hall⟩ | ⟨r2, hr2, hne, hcp⟩
  · left
    intro c hc
    rcases List.mem_append.mp hc with hc | hc
    · exact h c hc
    · exact hz r hr c hc
  · right; left
    refine ⟨c, List.mem_append_left _ hc, hne, ?_⟩
    intro c' hc' hne'
    rcases List.mem_append.mp hc' with hc' | hc'
    · exact hall c' hc' hne'
    · exact absurd (hz r hr c' hc') hne'
  · right; right
    refine ⟨r2, List.mem_append_left _ hr2, hne, ?_⟩
    rcases hcp with hcp | ⟨ht, hcp⟩
    · left
      intro c hc
      rcases List.mem_append.mp hc with hc | hc
      · exact hcp c hc
      · rw [hz r hr c hc, hz r2 hr2 c hc]
    · right
      refine ⟨ht, ?_⟩
      intro c hc
      rcases List.mem_append.mp hc with hc | hc
      · exact hcp c hc
      · rw [hz r hr c hc, hz r2 hr2 c hc]; rfl

/-- **Block-diagonal index sets**: if `E` vanishes on `R1 × C2` and on `R2 × C1`, reductions of `(R1, C1)` and of
`(R2, C2)` concatenate to a reduction of `(R1 ++ R2, C1 ++ C2)`. -/
theorem SPE.append {t : Bool} {E : Nat → Nat → Int} {R1 C1 R2 C2 : List Nat} (h1 : SPE t E R1 C1)
    (h2 : SPE t E R2 C2) (hz1 : ∀ x ∈ R1, ∀ y ∈ C2, E x y = 0) (hz2 : ∀ x ∈ R2, ∀ y ∈ C1, E x y = 0) :
    SPE t E (R1 ++ R2) (C1 ++ C2) := by
  induction h1 with
  | nil => simpa using h2
  | @row R C r hrem _ ih =>
    refine SPE.row (LineRem.append R2 C2 hz1 hrem) ?_
    rw [List.erase_append_left _ hrem.1]
    exact ih (fun x hx => hz1 x (List.mem_of_mem_erase hx)) hz2
  | @col R C c hrem _ ih =>
    refine SPE.col (LineRem.append (F := flipE E) C2 R2 (fun y hy x hx => hz2 x hx y hy) hrem) ?_
    rw [List.erase_append_left _ hrem.1]
    exact ih hz1 (fun x hx y hy => hz2 x hx y (List.mem_of_mem_erase hy))

/-- series-parallelness of a block-diagonal entry function on `range (m1 + m2) × range (n1 + n2)` -/
theorem SPE_blockDiag {t : Bool} {E EA EB : Nat → Nat → Int} {m1 n1 m2 n2 : Nat}
    (hA : SPE t EA (List.range m1) (List.range n1)) (hB : SPE t EB (List.range m2) (List.range n2))
    (h11 : ∀ i, i < m1 → ∀ j, j < n1 → E i j = EA i j)
    (h22 : ∀ i, i < m2 → ∀ j, j < n2 → E (m1 + i) (n1 + j) = EB i j)
    (h12 : ∀ i, i < m1 → ∀ j, j < n2 → E i (n1 + j) = 0)
    (h21 : ∀ i, i < m2 → ∀ j, j < n1 → E (m1 + i) j = 0) :
    SPE t E (List.range (m1 + m2)) (List.range (n1 + n2)) := by
  rw [List.range_add, List.range_add]
  apply SPE.append
  · exact hA.congr List.nodup_range List.nodup_range
      (fun x hx y hy => h11 x (List.mem_range.mp hx) y (List.mem_range.mp hy))
  · have hn : ∀ (a k : Nat), ((List.range k).map (a + ·)).Nodup := by
      intro a k
      exact List.nodup_range.map (fun x y h => by simpa using h)
    apply hB.embed (f := fun x => x - m1) (g := fun y => y - n1) (s := fun _ => 1) (u := fun _ => 1) (hn m1 m2) (hn n1 n2)
    exact
      { mapR := fun x hx => by
          obtain ⟨i, hi, rfl⟩ := List.mem_map.mp hx
          simpa using hi
        mapC := fun y hy => by
          obtain ⟨j, hj, rfl⟩ := List.mem_map.mp hy
          simpa using hj
        injR := fun x hx x' hx' e => by
          obtain ⟨i, hi, rfl⟩ := List.mem_map.mp hx
          obtain ⟨i', hi', rfl⟩ := List.mem_map.mp hx'
          simp at e; simp [e]
        injC := fun y hy y' hy' e => by
          obtain ⟨j, hj, rfl⟩ := List.mem_map.mp hy
          obtain ⟨j', hj', rfl⟩ := List.mem_map.mp hy'
          simp at e; simp [e]
        sgnR := fun _ => Or.inl rfl, sgnC := fun _ => Or.inl rfl
        ent := fun x hx y hy => by
          obtain ⟨i, hi, rfl⟩ := List.mem_map.mp hx
          obtain ⟨j, hj, rfl⟩ := List.mem_map.mp hy
          simp only [Nat.add_sub_cancel_left, one_mul]
          exact h22 i (List.mem_range.mp hi) j (List.mem_range.mp hj) }
  · intro x hx y hy
    obtain ⟨j, hj, rfl⟩ := List.mem_map.mp hy
    exact h12 x (List.mem_range.mp hx) j (List.mem_range.mp hj)
  · intro x hx y hy
    obtain ⟨i, hi, rfl⟩ := List.mem_map.mp hx
    exact h21 i (List.mem_range.mp hi) y (List.mem_range.mp hy)

/-! ## 2. 1-sums -/

/-- **Block-diagonal matrices**: series-parallel iff both blocks are (either class). -/
theorem blockDiag_sp {t : Bool} {m1 n1 m2 n2 : Nat} {A B : Mat} :
    isSPgreedy t (m1 + m2) (n1 + n2) (blockMat m1 n1 m2 n2 (fun i j => ent A i j) (fun _ _ => 0) (fun _ _ => 0)
      (fun i j => ent B i j)) = true ↔ isSPgreedy t m1 n1 A = true ∧ isSPgreedy t m2 n2 B = true := by
  constructor
  · intro h
    constructor
    · have := C10.sp_S (rows := List.range m1) (cols := List.range n1) (by intro x hx; simp at hx; omega)
        (by intro x hx; simp at hx; omega) List.nodup_range List.nodup_range h
      rw [List.length_range, List.length_range, isSPgreedy_iff_SPE] at this
      rw [isSPgreedy_iff_SPE]
      apply this.congr List.nodup_range List.nodup_range
      intro x hx y hy
      rw [ent_sub _ _ _ (by simpa using hx) (by simpa using hy)]
      simp only [List.getElem_range]
      exact (ent_blockMat_tl _ _ _ _ _ _ _ _ (List.mem_range.mp hx) (List.mem_range.mp hy)).symm
    · have hn : ∀ (a k : Nat), ((List.range k).map (a + ·)).Nodup := by
        intro a k
        exact List.nodup_range.map (fun x y h => by simpa using h)
      have := C10.sp_S (rows := (List.range m2).map (m1 + ·)) (cols := (List.range n2).map (n1 + ·))
        (by intro x hx; simp at hx; omega) (by intro x hx; simp at hx; omega) (hn m1 m2) (hn n1 n2) h
      rw [List.length_map, List.length_map, List.length_range, List.length_range, isSPgreedy_iff_SPE] at this
      rw [isSPgreedy_iff_SPE]
      apply this.congr List.nodup_range List.nodup_range
      intro x hx y hy
      rw [ent_sub _ _ _ (by simpa using hx) (by simpa using hy)]
      simp only [List.getElem_map, List.getElem_range]
      exact (ent_blockMat_br _ _ _ _ _ _ _ _ (List.mem_range.mp hx) (List.mem_range.mp hy)).symm
  · rintro ⟨hA, hB⟩
    rw [isSPgreedy_iff_SPE] at hA hB ⊢
    exact SPE_blockDiag hA hB (fun i hi j hj => ent_blockMat_tl _ _ _ _ _ _ _ _ hi hj)
      (fun i hi j hj => ent_blockMat_br _ _ _ _ _ _ _ _ hi hj)
      (fun i hi j hj => ent_blockMat_tr _ _ _ _ _ _ _ _ hi hj)
      (fun i hi j hj => ent_blockMat_bl _ _ _ _ _ _ _ _ hi hj)

/-- **1-sum of any number of matrices** (`compose1` itself): series-parallel iff every summand is. -/
theorem compose1_sp_list {t : Bool} (l : List (Nat × Nat × Mat)) :
    isSPgreedy t (compose1 l).1 (compose1 l).2.1 (compose1 l).2.2 = true ↔
      ∀ x ∈ l, isSPgreedy t x.1 x.2.1 x.2.2 = true := by
  induction l with
  | nil => cases t <;> simp [compose1] <;> decide
  | cons x rest ih =>
    obtain ⟨m, n, A⟩ := x
    simp only [compose1, List.mem_cons, forall_eq_or_imp]
    rw [← ih]
    exact blockDiag_sp

/-- **1-sum**, binary and ternary series-parallel classes: `compose1` of two matrices is series-parallel iff both
summands are. -/
theorem sum1_sp (t : Bool) (m1 n1 : Nat) (A : Mat) (m2 n2 : Nat) (B : Mat) :
    isSPgreedy t (compose1 [(m1, n1, A), (m2, n2, B)]).1 (compose1 [(m1, n1, A), (m2, n2, B)]).2.1
        (compose1 [(m1, n1, A), (m2, n2, B)]).2.2 = true ↔
      isSPgreedy t m1 n1 A = true ∧ isSPgreedy t m2 n2 B = true := by
  rw [compose1_sp_list]
  simp

theorem sum1_spb (m1 n1 : Nat) (A : Mat) (m2 n2 : Nat) (B : Mat) :
    isSPgreedy false (compose1 [(m1, n1, A), (m2, n2, B)]).1 (compose1 [(m1, n1, A), (m2, n2, B)]).2.1
        (compose1 [(m1, n1, A), (m2, n2, B)]).2.2 = true ↔
      isSPgreedy false m1 n1 A = true ∧ isSPgreedy false m2 n2 B = true := sum1_sp false m1 n1 A m2 n2 B

theorem sum1_spt (m1 n1 : Nat) (A : Mat) (m2 n2 : Nat) (B : Mat) :
    isSPgreedy true (compose1 [(m1, n1, A), (m2, n2, B)]).1 (compose1 [(m1, n1, A), (m2, n2, B)]).2.1
        (compose1 [(m1, n1, A), (m2, n2, B)]).2.2 = true ↔
      isSPgreedy true m1 n1 A = true ∧ isSPgreedy true m2 n2 B = true := sum1_sp true m1 n1 A m2 n2 B

/-! ## 3. 2-sums on index sets -/

/-- `F` with column `c` replaced by `d` -/
def repl (F : Nat → Nat → Int) (c : Nat) (d : Nat → Int) : Nat → Nat → Int := fun i j => if j = c then d i else F i j

structure G2 (t : Bool) (F : Nat → Nat → Int) (RA CA : List Nat) (r : Nat) (RB CB : List Nat) (c : Nat)
    (d : Nat → Int) : Prop where
  hr : r ∈ RA
  hc : c ∈ CB
  nRA : RA.Nodup
  nCA : CA.Nodup
  nRB : RB.Nodup
  nCB : CB.Nodup
  disjR : ∀ x ∈ RA, x ≠ r → x ∉ RB
  disjC : ∀ y ∈ CA, y ∉ CB
  zero : ∀ x ∈ RA, x ≠ r → ∀ y ∈ CB, y ≠ c → F x y = 0
  rank1 : ∀ x ∈ RB, ∀ y ∈ CA, F x y = d x * F r y
  entA : ∀ x ∈ RA, ∀ y ∈ CA, F x y = 0 ∨ Sgn t (F x y)
  spB : SPE t (repl F c d) RB CB

def P2 (t : Bool) (F : Nat → Nat → Int) (RA CA : List Nat) : Prop :=
  ∀ r RB CB c d, G2 t F RA CA r RB CB c d → SPE t F (RA.erase r ++ RB) (CA ++ CB.erase c)

theorem mem_erase_nd {l : List Nat} (h : l.Nodup) {x a : Nat} : x ∈ l.erase a ↔ x ≠ a ∧ x ∈ l :=
  List.Nodup.mem_erase_iff h

namespace G2
variable {t : Bool} {F : Nat → Nat → Int} {RA CA RB CB : List Nat} {r c : Nat} {d : Nat → Int}

theorem nodupR (g : G2 t F RA CA r RB CB c d) : (RA.erase r ++ RB).Nodup := by
  rw [List.nodup_append]
  refine ⟨g.nRA.erase r, g.nRB, ?_⟩
  intro a ha b hb hab
  subst hab
  obtain ⟨h1, h2⟩ := (mem_erase_nd g.nRA).mp ha
  exact g.disjR a h2 h1 hb

theorem nodupC (g : G2 t F RA CA r RB CB c d) : (CA ++ CB.erase c).Nodup := by
  rw [List.nodup_append]
  refine ⟨g.nCA, g.nCB.erase c, ?_⟩
  intro a ha b hb hab
  subst hab
  exact g.disjC a ha (List.mem_of_mem_erase hb)

theorem eraseRow (g : G2 t F RA CA r RB CB c d) {i : Nat} (hi : i ≠ r) : G2 t F (RA.erase i) CA r RB CB c d :=
  { hr := (mem_erase_nd g.nRA).mpr ⟨hi.symm, g.hr⟩, hc := g.hc, nRA := g.nRA.erase i, nCA := g.nCA, nRB := g.nRB
    nCB := g.nCB, disjR := fun x hx => g.disjR x (List.mem_of_mem_erase hx), disjC := g.disjC
    zero := fun x hx => g.zero x (List.mem_of_mem_erase hx), rank1 := g.rank1
    entA := fun x hx => g.entA x (List.mem_of_mem_erase hx), spB := g.spB }

theorem eraseCol (g : G2 t F RA CA r RB CB c d) (j : Nat) : G2 t F RA (CA.erase j) r RB CB c d :=
  { hr := g.hr, hc := g.hc, nRA := g.nRA, nCA := g.nCA.erase j, nRB := g.nRB
    nCB := g.nCB, disjR := g.disjR, disjC := fun y hy => g.disjC y (List.mem_of_mem_erase hy)
    zero := g.zero, rank1 := fun x hx y hy => g.rank1 x hx y (List.mem_of_mem_erase hy)
    entA := fun x hx y hy => g.entA x hx y (List.mem_of_mem_erase hy), spB := g.spB }

/-- the top right block vanishes -/
theorem zeroTR (g : G2 t F RA CA r RB CB c d) : ∀ x ∈ RA.erase r, ∀ y ∈ CB.erase c, F x y = 0 := by
  intro x hx y hy
  obtain ⟨h1, h2⟩ := (mem_erase_nd g.nRA).mp hx
  obtain ⟨h3, h4⟩ := (mem_erase_nd g.nCB).mp hy
  exact g.zero x h2 h1 y h4 h3

end G2

theorem le_sum_of_mem' : ∀ (l : List Nat) (x : Nat), x ∈ l → x ≤ l.sum := by
  intro l
  induction l with
  | nil => intro x hx; simp at hx
  | cons a l ih =>
    intro x hx
    simp only [List.sum_cons]
    rcases List.mem_cons.mp hx with rfl | h
    · omega
    · have := ih x h; omega

/-- removal of a row of the first operand -/
theorem P2_row {t : Bool} {F : Nat → Nat → Int} {RA CA : List Nat} {i : Nat} (hrem : LineRem t F RA CA i)
    (hsub : SPE t F (RA.erase i) CA) (ih : P2 t F (RA.erase i) CA) (ihf : P2 t (flipE F) CA (RA.erase i)) :
    P2 t F RA CA := by
  intro r RB CB c d g
  have hiRA := hrem.1
  -- a reduction step that does not involve the special row lifts
  have lift : i ≠ r → LineRem t F (RA.erase r) CA i → SPE t F (RA.erase r ++ RB) (CA ++ CB.erase c) := by
    intro hir h'
    refine SPE.row (LineRem.append RB (CB.erase c) g.zeroTR h') ?_
    rw [List.erase_append_left _ h'.1, List.erase_comm]
    exact ih r RB CB c d (g.eraseRow hir)
  by_cases hir : i = r
  · subst hir
    rcases hrem.2 with hz | ⟨j0, hj0, hne, hall⟩ | ⟨i2, hi2, hne2, hcp⟩
    · -- zero special row: block diagonal
      have hB : SPE t F RB (CB.erase c) := by
        apply (g.spB.mono g.nRB (g.nCB.erase c) (fun x hx => hx) (fun y hy => List.mem_of_mem_erase hy)).congr
          g.nRB (g.nCB.erase c)
        intro x hx y hy
        have := ((mem_erase_nd g.nCB).mp hy).1
        simp [repl, this]
      apply SPE.append hsub hB g.zeroTR
      intro x hx y hy
      rw [g.rank1 x hx y hy, hz y hy]; simp
    · -- unit special row: second layout with the roles of rows and columns exchanged
      have ha : Sgn t (F i j0) := by
        rcases g.entA i hiRA j0 hj0 with h | h
        · exact absurd h hne
        · exact h
      have hrow0 : ∀ y ∈ CA, y ≠ j0 → F i y = 0 := by
        intro y hy hyj
        by_contra h0
        exact hyj (hall y hy h0)
      have hj0CB : j0 ∉ CB := g.disjC j0 hj0
      let y0 := (RA ++ RB).sum + 1
      have hy0 : ∀ x ∈ RA ++ RB, x ≠ y0 := by
        intro x hx
        have := le_sum_of_mem' _ x hx
        show x ≠ (RA ++ RB).sum + 1
        omega
      let d' : Nat → Int := fun x => if x = j0 then 1 else 0
      have g' : G2 t (flipE F) CA (RA.erase i) j0 (j0 :: CB.erase c) (y0 :: RB) y0 d' :=
        { hr := hj0
          hc := List.mem_cons_self
          nRA := g.nCA
          nCA := g.nRA.erase i
          nRB := List.nodup_cons.mpr ⟨fun h => hj0CB (List.mem_of_mem_erase h), g.nCB.erase c⟩
          nCB := List.nodup_cons.mpr ⟨fun h => hy0 y0 (List.mem_append_right _ h) rfl, g.nRB⟩
          disjR := by
            intro x hx hxj hmem
            rcases List.mem_cons.mp hmem with h | h
            · exact hxj h
            · exact g.disjC x hx (List.mem_of_mem_erase h)
          disjC := by
            intro y hy hmem
            obtain ⟨h1, h2⟩ := (mem_erase_nd g.nRA).mp hy
            rcases List.mem_cons.mp hmem with h | h
            · exact hy0 y (List.mem_append_left _ h2) h
            · exact g.disjR y h2 h1 h
          zero := by
            intro x hx hxj y hy hyy
            rcases List.mem_cons.mp hy with h | h
            · exact absurd h hyy
            · show F y x = 0
              rw [g.rank1 y h x hx, hrow0 x hx hxj]; simp
          rank1 := by
            intro x hx y hy
            obtain ⟨h1, h2⟩ := (mem_erase_nd g.nRA).mp hy
            show F y x = d' x * F y j0
            rcases List.mem_cons.mp hx with h | h
            · subst h; simp [d']
            · have hxj : x ≠ j0 := fun e => hj0CB (e ▸ List.mem_of_mem_erase h)
              obtain ⟨h3, h4⟩ := (mem_erase_nd g.nCB).mp h
              simp only [d', hxj, if_false, zero_mul]
              exact g.zero y h2 h1 x h4 h3
          entA := by
            intro x hx y hy
            exact g.entA y (List.mem_of_mem_erase hy) x hx
          spB := by
            refine SPE.col (c := y0) ⟨List.mem_cons_self, Or.inr (Or.inl ⟨j0, List.mem_cons_self, ?_, ?_⟩)⟩ ?_
            · simp [flipE, repl, d']
            · intro x hx hnz
              by_contra hxj
              simp [flipE, repl, d', hxj] at hnz
            · rw [List.erase_cons_head]
              apply g.spB.flip.embed (f := fun x => if x = j0 then c else x) (g := id)
                (s := fun x => if x = j0 then F i j0 else 1) (u := fun _ => 1)
                (List.nodup_cons.mpr ⟨fun h => hj0CB (List.mem_of_mem_erase h), g.nCB.erase c⟩) g.nRB
              exact
                { mapR := by
                    intro x hx
                    rcases List.mem_cons.mp hx with h | h
                    · simp [h, g.hc]
                    · have hxj : x ≠ j0 := fun e => hj0CB (e ▸ List.mem_of_mem_erase h)
                      simp [hxj, List.mem_of_mem_erase h]
                  mapC := fun y hy => hy
                  injR := by
                    intro x hx x' hx' e
                    have key : ∀ z, z ∈ CB.erase c → z ≠ j0 ∧ z ≠ c := fun z hz =>
                      ⟨fun e => hj0CB (e ▸ List.mem_of_mem_erase hz), ((mem_erase_nd g.nCB).mp hz).1⟩
                    rcases List.mem_cons.mp hx with h | h <;> rcases List.mem_cons.mp hx' with h' | h'
                    · rw [h, h']
                    · obtain ⟨k1, k2⟩ := key x' h'
                      simp [h, k1] at e; exact absurd e.symm k2
                    · obtain ⟨k1, k2⟩ := key x h
                      simp [h', k1] at e; exact absurd e k2
                    · obtain ⟨k1, k2⟩ := key x h
                      obtain ⟨k3, k4⟩ := key x' h'
                      simpa [k1, k3] using e
                  injC := fun _ _ _ _ e => e
                  sgnR := by
                    intro x
                    by_cases hx : x = j0
                    · simp only [hx, if_true]; exact ha
                    · simp only [hx, if_false]; exact Or.inl rfl
                  sgnC := fun _ => Or.inl rfl
                  ent := by
                    intro x hx y hy
                    have hyy : y ≠ y0 := hy0 y (List.mem_append_right _ hy)
                    rcases List.mem_cons.mp hx with h | h
                    · subst h
                      simp only [repl, flipE, hyy, if_false, if_true, id]
                      rw [g.rank1 y hy x hj0]; ring
                    · have hxj : x ≠ j0 := fun e => hj0CB (e ▸ List.mem_of_mem_erase h)
                      have hxc : x ≠ c := ((mem_erase_nd g.nCB).mp h).1
                      simp [repl, flipE, hyy, hxj, hxc] } }
      have := (ihf j0 _ _ y0 d' g').flip
      rw [List.erase_cons_head] at this
      apply SPE.mono (R := RA.erase i ++ RB) (C := CA.erase j0 ++ j0 :: CB.erase c) this g.nodupR g.nodupC
        (fun x hx => hx)
      intro y hy
      rcases List.mem_append.mp hy with h | h
      · by_cases hyj : y = j0
        · exact List.mem_append_right _ (hyj ▸ List.mem_cons_self)
        · exact List.mem_append_left _ ((mem_erase_nd g.nCA).mpr ⟨hyj, h⟩)
      · exact List.mem_append_right _ (List.mem_cons_of_mem _ h)
    · -- the special row is a copy of row `i2`: `i2` becomes the special row, and stays as a row of the second operand
      obtain ⟨e, he, hcp⟩ := lineCopy_iff_sgn.mp hcp
      have hi2B : i2 ∉ RB := g.disjR i2 hi2 hne2
      let d' : Nat → Int := fun x => if x = i2 then 1 else e * d x
      have g' : G2 t F (RA.erase i) CA i2 (i2 :: RB) CB c d' :=
        { hr := (mem_erase_nd g.nRA).mpr ⟨hne2, hi2⟩
          hc := g.hc
          nRA := g.nRA.erase i
          nCA := g.nCA
          nRB := List.nodup_cons.mpr ⟨hi2B, g.nRB⟩
          nCB := g.nCB
          disjR := by
            intro x hx hxi hmem
            obtain ⟨h1, h2⟩ := (mem_erase_nd g.nRA).mp hx
            rcases List.mem_cons.mp hmem with h | h
            · exact hxi h
            · exact g.disjR x h2 h1 h
          disjC := g.disjC
          zero := by
            intro x hx hxi y hy hyc
            obtain ⟨h1, h2⟩ := (mem_erase_nd g.nRA).mp hx
            exact g.zero x h2 h1 y hy hyc
          rank1 := by
            intro x hx y hy
            rcases List.mem_cons.mp hx with h | h
            · subst h; simp [d']
            · have hxi : x ≠ i2 := fun e => hi2B (e ▸ h)
              simp only [d', hxi, if_false]
              rw [g.rank1 x h y hy, hcp y hy]; ring
          entA := fun x hx => g.entA x (List.mem_of_mem_erase hx)
          spB := by
            refine SPE.row (r := i2) ⟨List.mem_cons_self, Or.inr (Or.inl ⟨c, g.hc, ?_, ?_⟩)⟩ ?_
            · simp [repl, d']
            · intro y hy hnz
              by_contra hyc
              simp only [repl, hyc, if_false] at hnz
              exact hnz (g.zero i2 hi2 hne2 y hy hyc)
            · rw [List.erase_cons_head]
              apply g.spB.embed (f := id) (g := id) (s := fun _ => 1) (u := fun y => if y = c then e else 1) g.nRB g.nCB
              exact
                { mapR := fun _ h => h, mapC := fun _ h => h, injR := fun _ _ _ _ h => h, injC := fun _ _ _ _ h => h
                  sgnR := fun _ => Or.inl rfl
                  sgnC := by
                    intro y
                    by_cases hy : y = c
                    · simp only [hy, if_true]; exact he
                    · simp only [hy, if_false]; exact Or.inl rfl
                  ent := by
                    intro x hx y hy
                    have hxi : x ≠ i2 := fun e => hi2B (e ▸ hx)
                    by_cases hyc : y = c
                    · simp [repl, d', hyc, hxi]
                    · simp [repl, d', hyc, hxi] } }
      have := ih i2 _ _ c d' g'
      apply SPE.mono this g.nodupR g.nodupC ?_ (fun y hy => hy)
      intro x hx
      rcases List.mem_append.mp hx with h | h
      · by_cases hxi : x = i2
        · exact List.mem_append_right _ (hxi ▸ List.mem_cons_self)
        · exact List.mem_append_left _ ((mem_erase_nd (g.nRA.erase i)).mpr ⟨hxi, h⟩)
      · exact List.mem_append_right _ (List.mem_cons_of_mem _ h)
  · have hiE : i ∈ RA.erase r := (mem_erase_nd g.nRA).mpr ⟨hir, hiRA⟩
    rcases hrem.2 with hz | hu | ⟨i2, hi2, hne2, hcp⟩
    · exact lift hir ⟨hiE, Or.inl hz⟩
    · exact lift hir ⟨hiE, Or.inr (Or.inl hu)⟩
    · by_cases hi2r : i2 = r
      · -- row `i` is a copy of the special row: it becomes a row of the second operand
        subst hi2r
        obtain ⟨e, he, hcp⟩ := lineCopy_iff_sgn.mp hcp
        have hiB : i ∉ RB := g.disjR i hiRA hir
        let d' : Nat → Int := fun x => if x = i then e else d x
        have g' : G2 t F (RA.erase i) CA i2 (i :: RB) CB c d' :=
          { hr := (mem_erase_nd g.nRA).mpr ⟨hne2, hi2⟩
            hc := g.hc
            nRA := g.nRA.erase i
            nCA := g.nCA
            nRB := List.nodup_cons.mpr ⟨hiB, g.nRB⟩
            nCB := g.nCB
            disjR := by
              intro x hx hxr hmem
              obtain ⟨h1, h2⟩ := (mem_erase_nd g.nRA).mp hx
              rcases List.mem_cons.mp hmem with h | h
              · exact h1 h
              · exact g.disjR x h2 hxr h
            disjC := g.disjC
            zero := fun x hx => g.zero x (List.mem_of_mem_erase hx)
            rank1 := by
              intro x hx y hy
              rcases List.mem_cons.mp hx with h | h
              · subst h; simp only [d', if_true]; exact hcp y hy
              · have hxi : x ≠ i := fun e => hiB (e ▸ h)
                simp only [d', hxi, if_false]
                exact g.rank1 x h y hy
            entA := fun x hx => g.entA x (List.mem_of_mem_erase hx)
            spB := by
              refine SPE.row (r := i) ⟨List.mem_cons_self, Or.inr (Or.inl ⟨c, g.hc, ?_, ?_⟩)⟩ ?_
              · simp only [repl, d', if_true]; exact he.ne_zero
              · intro y hy hnz
                by_contra hyc
                simp only [repl, hyc, if_false] at hnz
                exact hnz (g.zero i hiRA hir y hy hyc)
              · rw [List.erase_cons_head]
                apply g.spB.congr g.nRB g.nCB
                intro x hx y hy
                have hxi : x ≠ i := fun e => hiB (e ▸ hx)
                simp [repl, d', hxi] }
        have := ih i2 _ _ c d' g'
        apply SPE.mono this g.nodupR g.nodupC ?_ (fun y hy => hy)
        intro x hx
        rcases List.mem_append.mp hx with h | h
        · obtain ⟨h1, h2⟩ := (mem_erase_nd g.nRA).mp h
          by_cases hxi : x = i
          · exact List.mem_append_right _ (hxi ▸ List.mem_cons_self)
          · exact List.mem_append_left _ ((mem_erase_nd (g.nRA.erase i)).mpr ⟨h1, (mem_erase_nd g.nRA).mpr ⟨hxi, h2⟩⟩)
        · exact List.mem_append_right _ (List.mem_cons_of_mem _ h)
      · exact lift hir ⟨hiE, Or.inr (Or.inr ⟨i2, (mem_erase_nd g.nRA).mpr ⟨hi2r, hi2⟩, hne2, hcp⟩)⟩

/-- removal of a column of the first operand -/
theorem P2_col {t : Bool} {F : Nat → Nat → Int} {RA CA : List Nat} {j : Nat} (hrem : LineRem t (flipE F) CA RA j)
    (ih : P2 t F RA (CA.erase j)) : P2 t F RA CA := by
  intro r RB CB c d g
  have hjCA := hrem.1
  have lift : LineRem t (flipE F) (CA ++ CB.erase c) (RA.erase r ++ RB) j →
      SPE t F (RA.erase r ++ RB) (CA ++ CB.erase c) := by
    intro h'
    refine SPE.col h' ?_
    rw [List.erase_append_left _ hjCA]
    exact ih r RB CB c d (g.eraseCol j)
  have hjM : j ∈ CA ++ CB.erase c := List.mem_append_left _ hjCA
  rcases hrem.2 with hz | ⟨i, hi, hne, hall⟩ | ⟨j2, hj2, hne2, hcp⟩
  · apply lift
    refine ⟨hjM, Or.inl ?_⟩
    intro x hx
    show F x j = 0
    rcases List.mem_append.mp hx with h | h
    · exact hz x (List.mem_of_mem_erase h)
    · have : F r j = 0 := hz r g.hr
      rw [g.rank1 x h j hjCA, this]; simp
  · by_cases hir : i = r
    · -- unit column at the special row: it becomes a column of the second operand (a copy of the special column)
      subst hir
      have ha : Sgn t (F i j) := by
        rcases g.entA i hi j hjCA with h | h
        · exact absurd h hne
        · exact h
      have hjCB : j ∉ CB := g.disjC j hjCA
      have hcj : c ≠ j := fun e => hjCB (e ▸ g.hc)
      have g' : G2 t F RA (CA.erase j) i RB (j :: CB) c d :=
        { hr := g.hr
          hc := List.mem_cons_of_mem _ g.hc
          nRA := g.nRA
          nCA := g.nCA.erase j
          nRB := g.nRB
          nCB := List.nodup_cons.mpr ⟨hjCB, g.nCB⟩
          disjR := g.disjR
          disjC := by
            intro y hy hmem
            obtain ⟨h1, h2⟩ := (mem_erase_nd g.nCA).mp hy
            rcases List.mem_cons.mp hmem with h | h
            · exact h1 h
            · exact g.disjC y h2 h
          zero := by
            intro x hx hxi y hy hyc
            rcases List.mem_cons.mp hy with h | h
            · subst h
              by_contra h0
              exact hxi (hall x hx h0)
            · exact g.zero x hx hxi y h hyc
          rank1 := fun x hx y hy => g.rank1 x hx y (List.mem_of_mem_erase hy)
          entA := fun x hx y hy => g.entA x hx y (List.mem_of_mem_erase hy)
          spB := by
            refine SPE.col (c := j) ⟨List.mem_cons_self, Or.inr (Or.inr ⟨c, List.mem_cons_of_mem _ g.hc, hcj, ?_⟩)⟩ ?_
            · apply lineCopy_iff_sgn.mpr
              refine ⟨F i j, ha, ?_⟩
              intro x hx
              show repl F c d x j = F i j * repl F c d x c
              simp only [repl, if_true, hcj.symm, if_false]
              rw [g.rank1 x hx j hjCA]; ring
            · rw [List.erase_cons_head]
              exact g.spB }
      have := ih i RB (j :: CB) c d g'
      rw [List.erase_cons_tail (by simpa using hcj.symm)] at this
      apply SPE.mono this g.nodupR g.nodupC (fun x hx => hx)
      intro y hy
      rcases List.mem_append.mp hy with h | h
      · by_cases hyj : y = j
        · exact List.mem_append_right _ (hyj ▸ List.mem_cons_self)
        · exact List.mem_append_left _ ((mem_erase_nd g.nCA).mpr ⟨hyj, h⟩)
      · exact List.mem_append_right _ (List.mem_cons_of_mem _ h)
    · have hrj : F r j = 0 := by
        by_contra h0
        exact hir (hall r g.hr h0).symm
      apply lift
      refine ⟨hjM, Or.inr (Or.inl ⟨i, List.mem_append_left _ ((mem_erase_nd g.nRA).mpr ⟨hir, hi⟩), hne, ?_⟩)⟩
      intro x hx hnz
      rcases List.mem_append.mp hx with h | h
      · exact hall x (List.mem_of_mem_erase h) hnz
      · exfalso
        apply hnz
        show F x j = 0
        rw [g.rank1 x h j hjCA, hrj]; simp
  · obtain ⟨e, he, hcp⟩ := lineCopy_iff_sgn.mp hcp
    apply lift
    refine ⟨hjM, Or.inr (Or.inr ⟨j2, List.mem_append_left _ hj2, hne2, lineCopy_iff_sgn.mpr ⟨e, he, ?_⟩⟩)⟩
    intro x hx
    show F x j = e * F x j2
    rcases List.mem_append.mp hx with h | h
    · exact hcp x (List.mem_of_mem_erase h)
    · have : F r j = e * F r j2 := hcp r g.hr
      rw [g.rank1 x h j hjCA, g.rank1 x h j2 hj2, this]; ring

/-- **2-sums of series-parallel index sets are series-parallel**, in both layouts. -/
theorem SPE_twoSum {t : Bool} {U : Nat → Nat → Int} {RA CA : List Nat} (h : SPE t U RA CA) :
    P2 t U RA CA ∧ P2 t (flipE U) CA RA := by
  induction h with
  | nil =>
    constructor <;> intro r RB CB c d g <;> exact absurd g.hr List.not_mem_nil
  | @row R C r hrem hsub ih =>
    exact ⟨P2_row hrem hsub ih.1 ih.2, P2_col (F := flipE U) hrem ih.2⟩
  | @col R C c hrem hsub ih =>
    exact ⟨P2_col hrem ih.1, P2_row (F := flipE U) hrem hsub.flip ih.2 ih.1⟩

/-! ## 4. 2-sums of entry functions on `range` index sets -/

theorem getD_inj_nd (l : List Nat) (hl : l.Nodup) {i j : Nat} (hi : i < l.length) (hj : j < l.length)
    (hij : l.getD i 0 = l.getD j 0) : i = j := by
  simp only [List.getD_eq_getElem?_getD, List.getElem?_eq_getElem hi, List.getElem?_eq_getElem hj,
    Option.getD_some] at hij
  exact (List.Nodup.getElem_inj_iff hl).mp hij

theorem nodup_map_add (a k : Nat) : ((List.range k).map (a + ·)).Nodup :=
  List.nodup_range.map (fun x y h => by simpa using h)

/-- the first layout `[[A, 0], [d cᵀ, D]]` read on entry functions: `EP` is the 2-sum of `EA` (special row `r`, the other
rows listed in `rows1`) and `EB` (special column `c`, the other columns listed in `cols2`) -/
theorem glueA {t : Bool} {EA EB EP : Nat → Nat → Int} {m1 n1 m2 n2 r c : Nat} {rows1 cols2 : List Nat}
    (hr : r < m1) (hc : c < n2)
    (hrows : ∀ i, i < rows1.length → rows1.getD i 0 < m1 ∧ rows1.getD i 0 ≠ r) (hrn : rows1.Nodup)
    (hcols : ∀ j, j < cols2.length → cols2.getD j 0 < n2 ∧ cols2.getD j 0 ≠ c) (hcn : cols2.Nodup)
    (hEA : ∀ i, i < m1 → ∀ j, j < n1 → EA i j = 0 ∨ Sgn t (EA i j))
    (hA : SPE t EA (List.range m1) (List.range n1)) (hB : SPE t EB (List.range m2) (List.range n2))
    (tl : ∀ i, i < rows1.length → ∀ j, j < n1 → EP i j = EA (rows1.getD i 0) j)
    (tr : ∀ i, i < rows1.length → ∀ j, j < cols2.length → EP i (n1 + j) = 0)
    (bl : ∀ i, i < m2 → ∀ j, j < n1 → EP (rows1.length + i) j = EB i c * EA r j)
    (br : ∀ i, i < m2 → ∀ j, j < cols2.length → EP (rows1.length + i) (n1 + j) = EB i (cols2.getD j 0)) :
    SPE t EP (List.range (rows1.length + m2)) (List.range (n1 + cols2.length)) := by
  let U : Nat → Nat → Int := fun x y =>
    if x < m1 then (if y < n1 then EA x y else 0)
    else (if y < n1 then EB (x - m1) c * EA r y else EB (x - m1) (y - n1))
  have hU1 : ∀ x, x < m1 → ∀ y, y < n1 → U x y = EA x y := by
    intro x hx y hy; simp only [U, hx, hy, if_true]
  have hU2 : ∀ x, x < m1 → ∀ y, U x (n1 + y) = 0 := by
    intro x hx y; simp only [U, hx, if_true, show ¬ (n1 + y < n1) by omega, if_false]
  have hU3 : ∀ x, ∀ y, y < n1 → U (m1 + x) y = EB x c * EA r y := by
    intro x y hy; simp only [U, hy, if_true, show ¬ (m1 + x < m1) by omega, if_false, Nat.add_sub_cancel_left]
  have hU4 : ∀ x y, U (m1 + x) (n1 + y) = EB x y := by
    intro x y
    simp only [U, show ¬ (m1 + x < m1) by omega, show ¬ (n1 + y < n1) by omega, if_false, Nat.add_sub_cancel_left]
  have hAU : SPE t U (List.range m1) (List.range n1) :=
    hA.congr List.nodup_range List.nodup_range
      (fun x hx y hy => hU1 x (List.mem_range.mp hx) y (List.mem_range.mp hy))
  have g : G2 t U (List.range m1) (List.range n1) r ((List.range m2).map (m1 + ·)) ((List.range n2).map (n1 + ·))
      (n1 + c) (fun x => EB (x - m1) c) :=
    { hr := List.mem_range.mpr hr
      hc := List.mem_map.mpr ⟨c, List.mem_range.mpr hc, rfl⟩
      nRA := List.nodup_range
      nCA := List.nodup_range
      nRB := nodup_map_add m1 m2
      nCB := nodup_map_add n1 n2
      disjR := by
        intro x hx _ hmem
        obtain ⟨k, _, rfl⟩ := List.mem_map.mp hmem
        have := List.mem_range.mp hx
        omega
      disjC := by
        intro y hy hmem
        obtain ⟨k, _, rfl⟩ := List.mem_map.mp hmem
        have := List.mem_range.mp hy
        omega
      zero := by
        intro x hx _ y hy _
        obtain ⟨k, _, rfl⟩ := List.mem_map.mp hy
        exact hU2 x (List.mem_range.mp hx) k
      rank1 := by
        intro x hx y hy
        obtain ⟨k, _, rfl⟩ := List.mem_map.mp hx
        rw [hU3 k y (List.mem_range.mp hy), hU1 r hr y (List.mem_range.mp hy), Nat.add_sub_cancel_left]
      entA := by
        intro x hx y hy
        rw [hU1 x (List.mem_range.mp hx) y (List.mem_range.mp hy)]
        exact hEA x (List.mem_range.mp hx) y (List.mem_range.mp hy)
      spB := by
        apply hB.embed (f := fun x => x - m1) (g := fun y => y - n1) (s := fun _ => 1) (u := fun _ => 1)
          (nodup_map_add m1 m2) (nodup_map_add n1 n2)
        exact
          { mapR := fun x hx => by
              obtain ⟨i, hi, rfl⟩ := List.mem_map.mp hx
              simpa using hi
            mapC := fun y hy => by
              obtain ⟨j, hj, rfl⟩ := List.mem_map.mp hy
              simpa using hj
            injR := fun x hx x' hx' e => by
              obtain ⟨i, hi, rfl⟩ := List.mem_map.mp hx
              obtain ⟨i', hi', rfl⟩ := List.mem_map.mp hx'
              simp at e; simp [e]
            injC := fun y hy y' hy' e => by
              obtain ⟨j, hj, rfl⟩ := List.mem_map.mp hy
              obtain ⟨j', hj', rfl⟩ := List.mem_map.mp hy'
              simp at e; simp [e]
            sgnR := fun _ => Or.inl rfl, sgnC := fun _ => Or.inl rfl
            ent := fun x hx y hy => by
              obtain ⟨i, hi, rfl⟩ := List.mem_map.mp hx
              obtain ⟨j, hj, rfl⟩ := List.mem_map.mp hy
              simp only [repl, Nat.add_sub_cancel_left, one_mul]
              by_cases hjc : n1 + j = n1 + c
              · have : j = c := by omega
                simp [this]
              · simp only [hjc, if_false]; exact hU4 i j } }
  have hM := (SPE_twoSum hAU).1 r _ _ (n1 + c) _ g
  set k1 := rows1.length with hk1
  set k2 := cols2.length with hk2
  apply hM.embed (f := fun i => if i < k1 then rows1.getD i 0 else m1 + (i - k1))
    (g := fun j => if j < n1 then j else n1 + cols2.getD (j - n1) 0) (s := fun _ => 1) (u := fun _ => 1)
    List.nodup_range List.nodup_range
  exact
    { mapR := by
        intro i hi
        have hi := List.mem_range.mp hi
        by_cases h : i < k1
        · simp only [h, if_true]
          obtain ⟨h1, h2⟩ := hrows i h
          exact List.mem_append_left _ ((mem_erase_nd List.nodup_range).mpr ⟨h2, List.mem_range.mpr h1⟩)
        · simp only [h, if_false]
          exact List.mem_append_right _ (List.mem_map.mpr ⟨i - k1, List.mem_range.mpr (by omega), rfl⟩)
      mapC := by
        intro j hj
        have hj := List.mem_range.mp hj
        by_cases h : j < n1
        · simp only [h, if_true]
          exact List.mem_append_left _ (List.mem_range.mpr h)
        · simp only [h, if_false]
          obtain ⟨h1, h2⟩ := hcols (j - n1) (by omega)
          exact List.mem_append_right _ ((mem_erase_nd (nodup_map_add n1 n2)).mpr
            ⟨by omega, List.mem_map.mpr ⟨_, List.mem_range.mpr h1, rfl⟩⟩)
      injR := by
        intro i hi i' hi' e
        have hi := List.mem_range.mp hi
        have hi' := List.mem_range.mp hi'
        by_cases h : i < k1 <;> by_cases h' : i' < k1 <;> simp only [h, h', if_true, if_false] at e
        · exact getD_inj_nd rows1 hrn h h' e
        · have := (hrows i h).1; omega
        · have := (hrows i' h').1; omega
        · omega
      injC := by
        intro j hj j' hj' e
        have hj := List.mem_range.mp hj
        have hj' := List.mem_range.mp hj'
        by_cases h : j < n1 <;> by_cases h' : j' < n1 <;> simp only [h, h', if_true, if_false] at e
        · exact e
        · omega
        · omega
        · have := getD_inj_nd cols2 hcn (i := j - n1) (j := j' - n1) (by omega) (by omega) (by omega)
          omega
      sgnR := fun _ => Or.inl rfl
      sgnC := fun _ => Or.inl rfl
      ent := by
        intro i hi j hj
        have hi := List.mem_range.mp hi
        have hj := List.mem_range.mp hj
        simp only [one_mul]
        by_cases h : i < k1 <;> by_cases h' : j < n1 <;> simp only [h, h', if_true, if_false]
        · rw [hU1 _ (hrows i h).1 j h']; exact tl i h j h'
        · rw [hU2 _ (hrows i h).1]
          have := tr i h (j - n1) (by omega)
          rwa [show n1 + (j - n1) = j by omega] at this
        · rw [hU3 _ j h']
          have := bl (i - k1) (by omega) j h'
          rwa [show k1 + (i - k1) = i by omega] at this
        · rw [hU4]
          have := br (i - k1) (by omega) (j - n1) (by omega)
          rwa [show k1 + (i - k1) = i by omega, show n1 + (j - n1) = j by omega] at this }

/-! ## 5. 2-sums of matrices -/

/-- the characteristic belonging to the class: 2 for `spb`, 3 for `spt` -/
def spCh (t : Bool) : Nat := if t then 3 else 2

theorem normChar_entOK {t : Bool} {x : Int} (h : x = 0 ∨ Sgn t x) : normChar (spCh t) x = x := by
  cases t
  · rcases h with rfl | rfl | ⟨h, _⟩
    · decide
    · decide
    · cases h
  · rcases h with rfl | rfl | ⟨_, rfl⟩ <;> decide

theorem entOK_mul {t : Bool} {x y : Int} (hx : x = 0 ∨ Sgn t x) (hy : y = 0 ∨ Sgn t y) :
    x * y = 0 ∨ Sgn t (x * y) := by
  rcases hx with rfl | rfl | ⟨ht, rfl⟩
  · left; simp
  · simpa using hy
  · rcases hy with rfl | rfl | ⟨_, rfl⟩
    · left; simp
    · right; right; exact ⟨ht, by simp⟩
    · right; left; simp

theorem eraseIdxs_one_spec (m r : Nat) :
    (∀ i, i < (eraseIdxs (List.range m) [r]).length →
      (eraseIdxs (List.range m) [r]).getD i 0 < m ∧ (eraseIdxs (List.range m) [r]).getD i 0 ≠ r) ∧
    (eraseIdxs (List.range m) [r]).Nodup := by
  constructor
  · intro i hi
    obtain ⟨h1, h2⟩ := getD_eraseIdxs_range m [r] hi
    exact ⟨h1, by simpa using h2⟩
  · unfold eraseIdxs
    exact List.nodup_range.filter _

/-- **2-sum `[[A,0],[d cᵀ,D]]` of series-parallel matrices is series-parallel** (`t = false`: binary class over
GF(2); `t = true`: ternary class over GF(3)); the operands have entries `0, 1` resp. `0, ±1`. -/
theorem sum2a_sp (t : Bool) {m1 n1 : Nat} {M1 : Mat} {m2 n2 : Nat} {M2 : Mat} {r c : Nat} {P : Mat}
    (h : compose2a (spCh t) m1 n1 M1 m2 n2 M2 r c = .ok P)
    (hE1 : ∀ i, i < m1 → ∀ j, j < n1 → ent M1 i j = 0 ∨ Sgn t (ent M1 i j))
    (hE2 : ∀ i, i < m2 → ∀ j, j < n2 → ent M2 i j = 0 ∨ Sgn t (ent M2 i j))
    (h1 : isSPgreedy t m1 n1 M1 = true) (h2 : isSPgreedy t m2 n2 M2 = true) :
    isSPgreedy t ((m1 - 1) + m2) (n1 + (n2 - 1)) P = true := by
  obtain ⟨⟨hr, hc⟩, rfl⟩ := (C12.compose2a_eq_ok_iff _ _ _ _ _ _ _ _ _ _).mp h
  rw [← length_eraseIdxs_one hr, ← length_eraseIdxs_one hc]
  rw [isSPgreedy_iff_SPE] at h1 h2 ⊢
  unfold C12.sum2aResult
  obtain ⟨hrows, hrn⟩ := eraseIdxs_one_spec m1 r
  obtain ⟨hcols, hcn⟩ := eraseIdxs_one_spec n2 c
  apply glueA (EA := ent M1) (EB := ent M2) hr hc hrows hrn hcols hcn hE1 h1 h2
  · intro i hi j hj
    rw [ent_blockMat_tl _ _ _ _ _ _ _ _ hi hj]
    exact normChar_entOK (hE1 _ (hrows i hi).1 j hj)
  · intro i hi j hj
    exact ent_blockMat_tr _ _ _ _ _ _ _ _ hi hj
  · intro i hi j hj
    rw [ent_blockMat_bl _ _ _ _ _ _ _ _ hi hj]
    exact normChar_entOK (entOK_mul (hE2 i hi c hc) (hE1 r hr j hj))
  · intro i hi j hj
    rw [ent_blockMat_br _ _ _ _ _ _ _ _ hi hj]
    exact normChar_entOK (hE2 i hi _ (hcols j hj).1)

/-- **2-sum `[[A,a bᵀ],[0,D]]` of series-parallel matrices is series-parallel.** -/
theorem sum2b_sp (t : Bool) {m1 n1 : Nat} {M1 : Mat} {m2 n2 : Nat} {M2 : Mat} {c r : Nat} {P : Mat}
    (h : compose2b (spCh t) m1 n1 M1 m2 n2 M2 c r = .ok P)
    (hE1 : ∀ i, i < m1 → ∀ j, j < n1 → ent M1 i j = 0 ∨ Sgn t (ent M1 i j))
    (hE2 : ∀ i, i < m2 → ∀ j, j < n2 → ent M2 i j = 0 ∨ Sgn t (ent M2 i j))
    (h1 : isSPgreedy t m1 n1 M1 = true) (h2 : isSPgreedy t m2 n2 M2 = true) :
    isSPgreedy t (m1 + (m2 - 1)) ((n1 - 1) + n2) P = true := by
  obtain ⟨⟨hc, hr⟩, rfl⟩ := (C12.compose2b_eq_ok_iff _ _ _ _ _ _ _ _ _ _).mp h
  rw [← length_eraseIdxs_one hr, ← length_eraseIdxs_one hc]
  rw [isSPgreedy_iff_SPE] at h1 h2 ⊢
  unfold C12.sum2bResult
  obtain ⟨hcols, hcn⟩ := eraseIdxs_one_spec n1 c
  obtain ⟨hrows, hrn⟩ := eraseIdxs_one_spec m2 r
  refine SPE.flip (E := flipE (ent _)) ?_
  apply glueA (EA := flipE (ent M1)) (EB := flipE (ent M2)) hc hr hcols hcn hrows hrn
    (fun i hi j hj => hE1 j hj i hi) h1.flip h2.flip
  · intro i hi j hj
    show ent _ j i = ent M1 j _
    rw [ent_blockMat_tl _ _ _ _ _ _ _ _ hj hi]
    exact normChar_entOK (hE1 j hj _ (hcols i hi).1)
  · intro i hi j hj
    show ent _ (m1 + j) i = 0
    exact ent_blockMat_bl _ _ _ _ _ _ _ _ hj hi
  · intro i hi j hj
    show ent _ j (_ + i) = ent M2 r i * ent M1 j c
    rw [ent_blockMat_tr _ _ _ _ _ _ _ _ hj hi, mul_comm]
    exact normChar_entOK (entOK_mul (hE2 r hr i hi) (hE1 j hj c hc))
  · intro i hi j hj
    show ent _ (m1 + j) (_ + i) = ent M2 _ i
    rw [ent_blockMat_br _ _ _ _ _ _ _ _ hj hi]
    exact normChar_entOK (hE2 _ (hrows j hj).1 i hi)

theorem entOK_binary {x : Int} (h : x = 0 ∨ x = 1) : x = 0 ∨ Sgn false x := by
  rcases h with h | h
  · exact Or.inl h
  · exact Or.inr (Or.inl h)

theorem entOK_ternary {x : Int} (h : x = 0 ∨ x = 1 ∨ x = -1) : x = 0 ∨ Sgn true x := by
  rcases h with h | h | h
  · exact Or.inl h
  · exact Or.inr (Or.inl h)
  · exact Or.inr (Or.inr ⟨rfl, h⟩)

/-- **`sumRel "2" 2 .spb = .closed`, first layout**: the binary 2-sum of binary series-parallel 0/1 matrices is binary
series-parallel. -/
theorem sum2a_spb {m1 n1 : Nat} {M1 : Mat} {m2 n2 : Nat} {M2 : Mat} {r c : Nat} {P : Mat}
    (h : compose2a 2 m1 n1 M1 m2 n2 M2 r c = .ok P)
    (hb1 : ∀ i, i < m1 → ∀ j, j < n1 → (ent M1 i j = 0 ∨ ent M1 i j = 1))
    (hb2 : ∀ i, i < m2 → ∀ j, j < n2 → (ent M2 i j = 0 ∨ ent M2 i j = 1))
    (h1 : isSPgreedy false m1 n1 M1 = true) (h2 : isSPgreedy false m2 n2 M2 = true) :
    isSPgreedy false ((m1 - 1) + m2) (n1 + (n2 - 1)) P = true :=
  sum2a_sp false h (fun i hi j hj => entOK_binary (hb1 i hi j hj)) (fun i hi j hj => entOK_binary (hb2 i hi j hj)) h1 h2

/-- second layout -/
theorem sum2b_spb {m1 n1 : Nat} {M1 : Mat} {m2 n2 : Nat} {M2 : Mat} {c r : Nat} {P : Mat}
    (h : compose2b 2 m1 n1 M1 m2 n2 M2 c r = .ok P)
    (hb1 : ∀ i, i < m1 → ∀ j, j < n1 → (ent M1 i j = 0 ∨ ent M1 i j = 1))
    (hb2 : ∀ i, i < m2 → ∀ j, j < n2 → (ent M2 i j = 0 ∨ ent M2 i j = 1))
    (h1 : isSPgreedy false m1 n1 M1 = true) (h2 : isSPgreedy false m2 n2 M2 = true) :
    isSPgreedy false (m1 + (m2 - 1)) ((n1 - 1) + n2) P = true :=
  sum2b_sp false h (fun i hi j hj => entOK_binary (hb1 i hi j hj)) (fun i hi j hj => entOK_binary (hb2 i hi j hj)) h1 h2

/-- **`sumRel "2" 3 .spt = .closed`, first layout**: the GF(3) 2-sum of ternary series-parallel 0/±1 matrices is
ternary series-parallel. -/
theorem sum2a_spt {m1 n1 : Nat} {M1 : Mat} {m2 n2 : Nat} {M2 : Mat} {r c : Nat} {P : Mat}
    (h : compose2a 3 m1 n1 M1 m2 n2 M2 r c = .ok P)
    (ht1 : ∀ i, i < m1 → ∀ j, j < n1 → (ent M1 i j = 0 ∨ ent M1 i j = 1 ∨ ent M1 i j = -1))
    (ht2 : ∀ i, i < m2 → ∀ j, j < n2 → (ent M2 i j = 0 ∨ ent M2 i j = 1 ∨ ent M2 i j = -1))
    (h1 : isSPgreedy true m1 n1 M1 = true) (h2 : isSPgreedy true m2 n2 M2 = true) :
    isSPgreedy true ((m1 - 1) + m2) (n1 + (n2 - 1)) P = true :=
  sum2a_sp true h (fun i hi j hj => entOK_ternary (ht1 i hi j hj)) (fun i hi j hj => entOK_ternary (ht2 i hi j hj)) h1 h2

/-- second layout -/
theorem sum2b_spt {m1 n1 : Nat} {M1 : Mat} {m2 n2 : Nat} {M2 : Mat} {c r : Nat} {P : Mat}
    (h : compose2b 3 m1 n1 M1 m2 n2 M2 c r = .ok P)
    (ht1 : ∀ i, i < m1 → ∀ j, j < n1 → (ent M1 i j = 0 ∨ ent M1 i j = 1 ∨ ent M1 i j = -1))
    (ht2 : ∀ i, i < m2 → ∀ j, j < n2 → (ent M2 i j = 0 ∨ ent M2 i j = 1 ∨ ent M2 i j = -1))
    (h1 : isSPgreedy true m1 n1 M1 = true) (h2 : isSPgreedy true m2 n2 M2 = true) :
    isSPgreedy true (m1 + (m2 - 1)) ((n1 - 1) + n2) P = true :=
  sum2b_sp true h (fun i hi j hj => entOK_ternary (ht1 i hi j hj)) (fun i hi j hj => entOK_ternary (ht2 i hi j hj)) h1 h2

/-! ## Non-vacuity -/

/-- `[[1,1],[1,-1]]` is not series-parallel, `[[1,-1],[1,-1]]` is ternary but not binary series-parallel -/
example : isSPgreedy true 2 2 [[1, 1], [1, -1]] = false ∧ isSPgreedy true 2 2 [[1, -1], [1, -1]] = true ∧
    isSPgreedy false 2 2 [[1, -1], [-1, 1]] = false ∧ isSPgreedy false 2 3 [[1, 1, 0], [1, 1, 1]] = true := by decide

/-- a 1-sum of series-parallel matrices, evaluated directly … -/
example : (compose1 [(2, 3, [[1, 1, 0], [1, 1, 1]]), (2, 2, [[1, -1], [1, -1]])]).2.2 =
      [[1, 1, 0, 0, 0], [1, 1, 1, 0, 0], [0, 0, 0, 1, -1], [0, 0, 0, 1, -1]] ∧
    isSPgreedy true 4 5 [[1, 1, 0, 0, 0], [1, 1, 1, 0, 0], [0, 0, 0, 1, -1], [0, 0, 0, 1, -1]] = true := by decide

/-- … and through the theorem -/
example : isSPgreedy true 4 5 [[1, 1, 0, 0, 0], [1, 1, 1, 0, 0], [0, 0, 0, 1, -1], [0, 0, 0, 1, -1]] = true :=
  (sum1_spt 2 3 [[1, 1, 0], [1, 1, 1]] 2 2 [[1, -1], [1, -1]]).mpr (by decide)

/-- `⇒` used contrapositively: a summand that is not series-parallel makes the 1-sum not series-parallel -/
example : isSPgreedy false (compose1 [(2, 3, [[1, 1, 0], [1, 1, 1]]), (2, 2, [[1, -1], [-1, 1]])]).1
    (compose1 [(2, 3, [[1, 1, 0], [1, 1, 1]]), (2, 2, [[1, -1], [-1, 1]])]).2.1
    (compose1 [(2, 3, [[1, 1, 0], [1, 1, 1]]), (2, 2, [[1, -1], [-1, 1]])]).2.2 = false := by
  rw [Bool.eq_false_iff, Ne, sum1_spb]
  decide

/-- nothing is claimed for the 2-sum over the other characteristic -/
example : sumRel "2" 3 .spb = .none ∧ sumRel "2" 2 .spt = .none := by decide

/-- a ternary 2-sum (first layout): `[[1,-1],[1,1],[0,1]]` with special row 1 and `[[1,1],[-1,0]]` with special column 0 -/
example : C12.okEq (compose2a 3 3 2 [[1, -1], [-1, 1], [0, 1]] 2 2 [[1, 1], [-1, 0]] 1 0)
    [[1, -1, 0], [0, 1, 0], [-1, 1, 1], [1, -1, 0]] = true := by decide

/-- the theorem applies to it; the verdict agrees with direct evaluation of the decider -/
example : isSPgreedy true 4 3 [[1, -1, 0], [0, 1, 0], [-1, 1, 1], [1, -1, 0]] = true :=
  sum2a_spt (m1 := 3) (n1 := 2) (M1 := [[1, -1], [-1, 1], [0, 1]]) (m2 := 2) (n2 := 2) (M2 := [[1, 1], [-1, 0]])
    (r := 1) (c := 0) (by decide) (by decide) (by decide) (by decide) (by decide)

example : isSPgreedy true 4 3 [[1, -1, 0], [0, 1, 0], [-1, 1, 1], [1, -1, 0]] = true := by decide

/-- a binary 2-sum (second layout): `[[1,1,0],[1,1,1]]` with special column 2 and `[[1,1],[0,1]]` with special row 0 -/
example : C12.okEq (compose2b 2 2 3 [[1, 1, 0], [1, 1, 1]] 2 2 [[1, 1], [0, 1]] 2 0)
    [[1, 1, 0, 0], [1, 1, 1, 1], [0, 0, 0, 1]] = true := by decide

example : isSPgreedy false 3 4 [[1, 1, 0, 0], [1, 1, 1, 1], [0, 0, 0, 1]] = true :=
  sum2b_spb (m1 := 2) (n1 := 3) (M1 := [[1, 1, 0], [1, 1, 1]]) (m2 := 2) (n2 := 2) (M2 := [[1, 1], [0, 1]])
    (c := 2) (r := 0) (by decide) (by decide) (by decide) (by decide) (by decide)

example : isSPgreedy false 3 4 [[1, 1, 0, 0], [1, 1, 1, 1], [0, 0, 0, 1]] = true := by decide

end Cmr.Props.C10SPSums
