/-
  Property C10 (extension) — the pivot entries of the relation table for the series-parallel classes:
    * `(Step.V2 r c).rel .spb = .iff` : binary series-parallelness (`isSPgreedy false`) of a 0/1 matrix is invariant
                                        under a GF(2) pivot (`spb_V2`, `spb_step_V2`);
    * `(Step.V3 r c).rel .spt = .iff` : ternary series-parallelness (`isSPgreedy true`) of a matrix with entries
                                        `0, 1, -1` is invariant under a GF(3) pivot (`spt_V3`, `spt_step_V3`).

  Route.  `isSPgreedy_iff_SPE` reads series-parallelness as a reduction sequence `SPE t E R C` on index sets.  The pivot
  is defined on entry functions (`PE t E r c`, the reduction mod 2 resp. mod 3 of `pivE`), so that pivoting commutes
  with the removal of a line other than the pivot row and the pivot column by definition.  `SPE_pivot` (induction on
  the number of lines): a series-parallel `(R, C)` has a removable line `l` (`SPE.inv`), and from it `row_step` finds
  a line `l'` of the PIVOTED matrix that is removable and is not the pivot row or column:
    * `l` a row `i` other than the pivot row: zero stays zero; a unit row outside the pivot column is unchanged; a unit
      row at the pivot column becomes a signed copy of the pivot row; a copy of a row `k` stays a copy of `k`, except
      for `k` the pivot row, when it becomes a unit row at the pivot column (`copy_of_pivot_row`);  `l' = i`;
    * `l` the pivot row, a copy of row `k`: then `k` is a copy of the pivot row and `l' = k` as before;
    * `l` the pivot row, a unit row: the pivot only rescales the pivot row and column (`unit_pivot_row`, `SPE.embed`);
    * columns: the same for the transposed entry function (`PE_flip`).
  The matrix without `l'` is series-parallel by monotonicity (`SPE.mono`), and the induction hypothesis applies to it.
  The converse directions follow from `C13.pivot2_involutive` and `C13.pivot3_twice` (a second pivot restores the
  matrix up to the signs of the pivot row and column, which `SPE.embed` absorbs).
  Lifts: to `Step.apply` (`spb_step_V2`, `spt_step_V3`), to every step with table entry `iff` (`spb_step_iff_binary`,
  `spt_step_iff_ternary`) and to step lists with pivots (`spb_steps_binary`, `spt_steps_ternary`).
-/
import CmrProofs.Props.C10SPSums
import CmrProofs.Props.C10Pivot
import CmrProofs.Props.C13

set_option linter.unusedSimpArgs false
set_option linter.unusedVariables false

namespace Cmr.Props.C10SPPivot
open Cmr

/-! ## 1. Pivots on entry functions -/

def nrm (t : Bool) (x : Int) : Int := if t then mod3 x else mod2 x

def pivE (E : Nat → Nat → Int) (r c i j : Nat) : Int :=
  if i = r then (if j = c then -(E r c) else E r c * E r j)
  else if j = c then E r c * E i c
  else E i j - E r c * E i c * E r j

def PE (t : Bool) (E : Nat → Nat → Int) (r c : Nat) : Nat → Nat → Int := fun i j => nrm t (pivE E r c i j)

theorem mod3_neg (x : Int) : mod3 (-x) = - mod3 x := by
  simp only [mod3, beq_iff_eq]
  split <;> split <;> omega

theorem mod2_neg (x : Int) : mod2 (-x) = mod2 x := by
  unfold mod2; omega

theorem nrm_zero (t : Bool) : nrm t 0 = 0 := by cases t <;> decide

theorem nrm_sgn_mul {t : Bool} {e : Int} (h : Sgn t e) (x : Int) : nrm t (e * x) = e * nrm t x := by
  rcases h with rfl | ⟨rfl, rfl⟩
  · simp
  · simp only [nrm, if_true, Int.neg_mul, Int.one_mul, mod3_neg]

theorem nrm_neg_mul {t : Bool} {a : Int} (h : Sgn t a) : ∃ e', Sgn t e' ∧ ∀ x, nrm t (-(a * x)) = e' * nrm t x := by
  cases t
  · rcases h with rfl | ⟨h, _⟩
    · exact ⟨1, Or.inl rfl, fun x => by simp [nrm, mod2_neg]⟩
    · cases h
  · rcases h with rfl | ⟨_, rfl⟩
    · exact ⟨-1, Or.inr ⟨rfl, rfl⟩, fun x => by simp [nrm, mod3_neg]⟩
    · exact ⟨1, Or.inl rfl, fun x => by simp [nrm]⟩

theorem nrm_ok {t : Bool} {a : Int} (h : a = 0 ∨ Sgn t a) : nrm t a = a := by
  rcases h with rfl | rfl | ⟨rfl, rfl⟩
  · exact nrm_zero t
  · cases t <;> decide
  · decide

theorem sgn_sq {t : Bool} {e : Int} (h : Sgn t e) : e * e = 1 := by
  rcases h with rfl | ⟨_, rfl⟩ <;> decide

theorem PE_flip (t : Bool) (E : Nat → Nat → Int) (r c : Nat) : PE t (flipE E) c r = flipE (PE t E r c) := by
  funext j i
  show nrm t (pivE (flipE E) c r j i) = nrm t (pivE E r c i j)
  congr 1
  simp only [pivE, flipE]
  by_cases h1 : i = r <;> by_cases h2 : j = c <;> simp [h1, h2]
  ring

theorem pivE_rr (E : Nat → Nat → Int) (r c : Nat) : pivE E r c r c = -(E r c) := by simp [pivE]
theorem pivE_rj (E : Nat → Nat → Int) (r c : Nat) {j : Nat} (h : j ≠ c) : pivE E r c r j = E r c * E r j := by
  simp [pivE, h]
theorem pivE_ic (E : Nat → Nat → Int) (r c : Nat) {i : Nat} (h : i ≠ r) : pivE E r c i c = E r c * E i c := by
  simp [pivE, h]
theorem pivE_ij (E : Nat → Nat → Int) (r c : Nat) {i j : Nat} (h : i ≠ r) (h' : j ≠ c) :
    pivE E r c i j = E i j - E r c * E i c * E r j := by
  simp [pivE, h, h']

/-! ## 2. A removable line of the pivoted matrix -/

/-- a row that is a signed copy of the pivot row becomes a unit row at the pivot column -/
theorem copy_of_pivot_row {t : Bool} {E : Nat → Nat → Int} {R C : List Nat} {r c k : Nat} (hc : c ∈ C)
    (he : Sgn t (E r c)) (hk : k ∈ R) (hkr : k ≠ r) {e : Int} (hs : Sgn t e) (hcp : ∀ j ∈ C, E k j = e * E r j) :
    LineRem t (PE t E r c) R C k := by
  refine ⟨hk, Or.inr (Or.inl ⟨c, hc, ?_, ?_⟩)⟩
  · show nrm t (pivE E r c k c) ≠ 0
    rw [pivE_ic _ _ _ hkr, hcp c hc]
    have : E r c * (e * E r c) = e := by
      rw [Int.mul_left_comm, sgn_sq he, Int.mul_one]
    rw [this, nrm_ok (Or.inr hs)]
    exact hs.ne_zero
  · intro j hj hne
    by_contra hjc
    apply hne
    show nrm t (pivE E r c k j) = 0
    rw [pivE_ij _ _ _ hkr hjc, hcp c hc, hcp j hj]
    have : e * E r j - E r c * (e * E r c) * E r j = 0 := by
      have h1 : E r c * (e * E r c) = e := by
        rw [Int.mul_left_comm, sgn_sq he, Int.mul_one]
      rw [h1]; ring
    rw [this, nrm_zero]

theorem row_step {t : Bool} {E : Nat → Nat → Int} {R C : List Nat} {r c i : Nat}
    (hok : ∀ x ∈ R, ∀ y ∈ C, E x y = 0 ∨ Sgn t (E x y)) (hr : r ∈ R) (hc : c ∈ C) (he : Sgn t (E r c))
    (hrem : LineRem t E R C i) :
    (∃ i', i' ≠ r ∧ LineRem t (PE t E r c) R C i') ∨ LineUnit E C r c := by
  obtain ⟨hi, hrem⟩ := hrem
  by_cases hir : i = r
  · subst hir
    rcases hrem with hz | ⟨j0, hj0, hne, hall⟩ | ⟨k, hk, hki, hcp⟩
    · exact absurd (hz c hc) he.ne_zero
    · right
      exact ⟨hc, he.ne_zero, fun j hj hnz => (hall j hj hnz).trans (hall c hc he.ne_zero).symm⟩
    · left
      obtain ⟨e, hs, hcp⟩ := lineCopy_iff_sgn.mp hcp
      refine ⟨k, hki, copy_of_pivot_row hc he hk hki hs ?_⟩
      intro j hj
      rw [hcp j hj, ← Int.mul_assoc, sgn_sq hs, Int.one_mul]
  · left
    refine ⟨i, hir, ?_⟩
    rcases hrem with hz | ⟨j0, hj0, hne, hall⟩ | ⟨k, hk, hki, hcp⟩
    · refine ⟨hi, Or.inl ?_⟩
      intro j hj
      show nrm t (pivE E r c i j) = 0
      by_cases hjc : j = c
      · subst hjc
        rw [pivE_ic _ _ _ hir, hz j hj, Int.mul_zero, nrm_zero]
      · rw [pivE_ij _ _ _ hir hjc, hz j hj, hz c hc]
        simp [nrm_zero]
    · have hzero : ∀ j ∈ C, j ≠ j0 → E i j = 0 := by
        intro j hj hjj
        by_contra h0
        exact hjj (hall j hj h0)
      by_cases hj0c : j0 = c
      · subst hj0c
        have ha : Sgn t (E i j0) := by
          rcases hok i hi j0 hj0 with h | h
          · exact absurd h hne
          · exact h
        obtain ⟨e', he', hx⟩ := nrm_neg_mul ha
        refine ⟨hi, Or.inr (Or.inr ⟨r, hr, fun h => hir h.symm, lineCopy_iff_sgn.mpr ⟨e', he', ?_⟩⟩)⟩
        intro j hj
        show nrm t (pivE E r j0 i j) = e' * nrm t (pivE E r j0 r j)
        by_cases hjc : j = j0
        · subst hjc
          rw [pivE_ic _ _ _ hir, pivE_rr, ← hx]
          congr 1; ring
        · rw [pivE_ij _ _ _ hir hjc, pivE_rj _ _ _ hjc, ← hx, hzero j hj hjc]
          congr 1; ring
      · have hic : E i c = 0 := hzero c hc (fun h => hj0c h.symm)
        have hP : ∀ j ∈ C, PE t E r c i j = E i j := by
          intro j hj
          show nrm t (pivE E r c i j) = E i j
          by_cases hjc : j = c
          · subst hjc
            rw [pivE_ic _ _ _ hir, hic, Int.mul_zero, nrm_zero]
          · rw [pivE_ij _ _ _ hir hjc, hic]
            simp only [Int.mul_zero, Int.zero_mul, Int.sub_zero]
            exact nrm_ok (hok i hi j hj)
        refine ⟨hi, Or.inr (Or.inl ⟨j0, hj0, ?_, ?_⟩)⟩
        · rw [hP j0 hj0]; exact hne
        · intro j hj hnz
          rw [hP j hj] at hnz
          exact hall j hj hnz
    · obtain ⟨e, hs, hcp⟩ := lineCopy_iff_sgn.mp hcp
      by_cases hkr : k = r
      · subst hkr
        exact copy_of_pivot_row hc he hi hir hs hcp
      · refine ⟨hi, Or.inr (Or.inr ⟨k, hk, hki, lineCopy_iff_sgn.mpr ⟨e, hs, ?_⟩⟩)⟩
        intro j hj
        show nrm t (pivE E r c i j) = e * nrm t (pivE E r c k j)
        by_cases hjc : j = c
        · subst hjc
          rw [pivE_ic _ _ _ hir, pivE_ic _ _ _ hkr, hcp j hj, ← nrm_sgn_mul hs]
          congr 1; ring
        · rw [pivE_ij _ _ _ hir hjc, pivE_ij _ _ _ hkr hjc, hcp j hj, hcp c hc, ← nrm_sgn_mul hs]
          congr 1; ring

theorem sgn_nrm_neg {t : Bool} {e : Int} (h : Sgn t e) : Sgn t (nrm t (-e)) := by
  cases t
  · rcases h with rfl | ⟨h, _⟩
    · exact Or.inl (by decide)
    · cases h
  · rcases h with rfl | ⟨_, rfl⟩
    · exact Or.inr ⟨rfl, by decide⟩
    · exact Or.inl (by decide)

/-- the pivot row is a unit row: the pivot only rescales the pivot row and the pivot column -/
theorem unit_pivot_row {t : Bool} {E : Nat → Nat → Int} {R C : List Nat} {r c : Nat} (hR : R.Nodup) (hC : C.Nodup)
    (hok : ∀ x ∈ R, ∀ y ∈ C, E x y = 0 ∨ Sgn t (E x y)) (hr : r ∈ R) (hc : c ∈ C) (he : Sgn t (E r c))
    (hu : LineUnit E C r c) (h : SPE t E R C) : SPE t (PE t E r c) R C := by
  have hrow : ∀ y ∈ C, y ≠ c → E r y = 0 := by
    intro y hy hyc
    by_contra h0
    exact hyc (hu.2.2 y hy h0)
  apply h.embed (f := id) (g := id) (s := fun x => if x = r then nrm t (-(E r c)) else 1)
    (u := fun y => if y = c then E r c else 1) hR hC
  exact
    { mapR := fun _ h => h, mapC := fun _ h => h, injR := fun _ _ _ _ h => h, injC := fun _ _ _ _ h => h
      sgnR := fun x => by
        by_cases hx : x = r
        · simp only [hx, if_true]; exact sgn_nrm_neg he
        · simp only [hx, if_false]; exact Or.inl rfl
      sgnC := fun y => by
        by_cases hy : y = c
        · simp only [hy, if_true]; exact he
        · simp only [hy, if_false]; exact Or.inl rfl
      ent := fun x hx y hy => by
        show nrm t (pivE E r c x y) = _
        by_cases hxr : x = r <;> by_cases hyc : y = c
        · subst hxr; subst hyc
          simp only [if_true, id, pivE_rr]
          rw [Int.mul_assoc, sgn_sq he, Int.mul_one]
        · subst hxr
          simp only [if_true, hyc, if_false, id, pivE_rj _ _ _ hyc, hrow y hy hyc, Int.mul_zero, nrm_zero]
        · subst hyc
          simp only [hxr, if_true, if_false, id, pivE_ic _ _ _ hxr, Int.one_mul]
          rw [nrm_sgn_mul he, nrm_ok (hok x hx y hy)]
        · simp only [hxr, hyc, if_false, id, pivE_ij _ _ _ hxr hyc, hrow y hy hyc, Int.mul_zero, Int.sub_zero,
            Int.one_mul]
          exact nrm_ok (hok x hx y hy) }

/-! ## 3. Pivots preserve series-parallelness -/

theorem SPE_pivot (t : Bool) (E : Nat → Nat → Int) : ∀ (n : Nat) (R C : List Nat), R.length + C.length = n →
    R.Nodup → C.Nodup → (∀ x ∈ R, ∀ y ∈ C, E x y = 0 ∨ Sgn t (E x y)) → SPE t E R C →
    ∀ r ∈ R, ∀ c ∈ C, Sgn t (E r c) → SPE t (PE t E r c) R C := by
  intro n
  induction n with
  | zero =>
    intro R C hn _ _ _ _ r hr
    have : R = [] := List.eq_nil_of_length_eq_zero (by omega)
    subst this
    cases hr
  | succ n ih =>
    intro R C hn hR hC hok h r hr c hc he
    rcases h.inv with ⟨rfl, _⟩ | ⟨i, hrem⟩ | ⟨j, hrem⟩
    · cases hr
    · rcases row_step hok hr hc he hrem with ⟨i', hi'r, hrem'⟩ | hu
      · refine SPE.row hrem' ?_
        have hlen : (R.erase i').length + C.length = n := by
          rw [List.length_erase_of_mem hrem'.1]
          have := List.length_pos_of_mem hrem'.1
          omega
        exact ih (R.erase i') C hlen (hR.erase i') hC (fun x hx => hok x (List.mem_of_mem_erase hx))
          (h.mono (hR.erase i') hC (fun x hx => List.mem_of_mem_erase hx) (fun y hy => hy))
          r ((List.mem_erase_of_ne (Ne.symm hi'r)).mpr hr) c hc he
      · exact unit_pivot_row hR hC hok hr hc he hu h
    · have hok' : ∀ y ∈ C, ∀ x ∈ R, flipE E y x = 0 ∨ Sgn t (flipE E y x) := fun y hy x hx => hok x hx y hy
      rcases row_step (E := flipE E) hok' hc hr he hrem with ⟨j', hj'c, hrem'⟩ | hu
      · rw [PE_flip] at hrem'
        refine SPE.col hrem' ?_
        have hlen : R.length + (C.erase j').length = n := by
          rw [List.length_erase_of_mem hrem'.1]
          have := List.length_pos_of_mem hrem'.1
          omega
        exact ih R (C.erase j') hlen hR (hC.erase j') (fun x hx y hy => hok x hx y (List.mem_of_mem_erase hy))
          (h.mono hR (hC.erase j') (fun x hx => hx) (fun y hy => List.mem_of_mem_erase hy))
          r hr c ((List.mem_erase_of_ne (Ne.symm hj'c)).mpr hc) he
      · have := (unit_pivot_row (E := flipE E) hC hR hok' hc hr he hu h.flip).flip
        rw [PE_flip] at this
        exact this

/-! ## 4. The matrices of the model -/

theorem pivotRaw_eq (M : Mat) (r c i j : Nat) : pivotRaw M r c i j = pivE (ent M) r c i j := by
  unfold pivotRaw pivE
  by_cases h1 : i = r <;> by_cases h2 : j = c <;> simp [h1, h2]

theorem ent_pivot2 {m n : Nat} (M : Mat) (r c : Nat) {i j : Nat} (hi : i < m) (hj : j < n) :
    ent (pivot2 m n M r c) i j = PE false (ent M) r c i j := by
  rw [pivot2, ent_ofFn _ hi hj, pivotRaw_eq]; rfl

theorem ent_pivot3 {m n : Nat} (M : Mat) (r c : Nat) {i j : Nat} (hi : i < m) (hj : j < n) :
    ent (pivot3 m n M r c) i j = PE true (ent M) r c i j := by
  rw [pivot3, ent_ofFn _ hi hj, pivotRaw_eq]; rfl

theorem pivotOk3_iff {m n : Nat} {M : Mat} {r c : Nat} :
    pivotOk3 m n M r c = true ↔ r < m ∧ c < n ∧ mod3 (ent M r c) ≠ 0 := by
  simp [pivotOk3, and_assoc]

/-- a GF(2) pivot of a binary series-parallel 0/1 matrix is binary series-parallel -/
theorem spb_V2_imp {m n : Nat} {M : Mat} (hwf : M.wf m n = true) (hb : isBinary M = true) {r c : Nat}
    (hok : pivotOk2 m n M r c = true) (h : isSPgreedy false m n M = true) :
    isSPgreedy false m n (pivot2 m n M r c) = true := by
  obtain ⟨hr, hc, hp⟩ := C10Pivot.pivotOk2_iff.mp hok
  have hp1 : ent M r c = 1 := by
    rcases ent_binary hwf hb hr hc with e | e
    · rw [e] at hp; exact absurd rfl hp
    · exact e
  rw [isSPgreedy_iff_SPE] at h ⊢
  have hent : ∀ x ∈ List.range m, ∀ y ∈ List.range n, ent M x y = 0 ∨ Sgn false (ent M x y) := by
    intro x hx y hy
    rcases ent_binary hwf hb (List.mem_range.mp hx) (List.mem_range.mp hy) with e | e
    · exact Or.inl e
    · exact Or.inr (Or.inl e)
  have := SPE_pivot false (ent M) _ (List.range m) (List.range n) rfl List.nodup_range List.nodup_range hent h
    r (List.mem_range.mpr hr) c (List.mem_range.mpr hc) (Or.inl hp1)
  apply this.congr List.nodup_range List.nodup_range
  intro x hx y hy
  exact ent_pivot2 M r c (List.mem_range.mp hx) (List.mem_range.mp hy)

/-- **Binary series-parallelness of a 0/1 matrix is invariant under a GF(2) pivot.** -/
theorem spb_V2 {m n : Nat} {M : Mat} (hwf : M.wf m n = true) (hb : isBinary M = true) {r c : Nat}
    (hok : pivotOk2 m n M r c = true) : isSPgreedy false m n (pivot2 m n M r c) = isSPgreedy false m n M := by
  obtain ⟨hr, hc, hp⟩ := C10Pivot.pivotOk2_iff.mp hok
  have hp1 : ent M r c = 1 := by
    rcases ent_binary hwf hb hr hc with e | e
    · rw [e] at hp; exact absurd rfl hp
    · exact e
  rw [Bool.eq_iff_iff]
  refine ⟨fun h => ?_, spb_V2_imp hwf hb hok⟩
  have hok' : pivotOk2 m n (pivot2 m n M r c) r c = true := by
    rw [C10Pivot.pivotOk2_iff]
    refine ⟨hr, hc, ?_⟩
    rw [pivot2, ent_ofFn _ hr hc]
    simp only [pivotRaw, beq_self_eq_true, if_true, hp1]
    decide
  have h2 := spb_V2_imp (C13.pivot_wf2 m n M r c) (C13.pivot2_binary m n M r c) hok' h
  rwa [C13.pivot2_involutive m n M hwf hb r c hr hc hp1] at h2

/-- a GF(3) pivot of a ternary series-parallel matrix with entries `0, ±1` is ternary series-parallel -/
theorem spt_V3_imp {m n : Nat} {M : Mat} (hwf : M.wf m n = true) (ht : isTernary M = true) {r c : Nat}
    (hok : pivotOk3 m n M r c = true) (h : isSPgreedy true m n M = true) :
    isSPgreedy true m n (pivot3 m n M r c) = true := by
  obtain ⟨hr, hc, hp⟩ := pivotOk3_iff.mp hok
  have hsgn : ∀ {x y : Nat}, x < m → y < n → ent M x y = 0 ∨ Sgn true (ent M x y) := by
    intro x y hx hy
    rcases ent_ternary hwf ht hx hy with e | e | e
    · exact Or.inl e
    · exact Or.inr (Or.inl e)
    · exact Or.inr (Or.inr ⟨rfl, e⟩)
  have hp1 : Sgn true (ent M r c) := by
    rcases hsgn hr hc with e | e
    · rw [e] at hp; exact absurd rfl hp
    · exact e
  rw [isSPgreedy_iff_SPE] at h ⊢
  have := SPE_pivot true (ent M) _ (List.range m) (List.range n) rfl List.nodup_range List.nodup_range
    (fun x hx y hy => hsgn (List.mem_range.mp hx) (List.mem_range.mp hy)) h
    r (List.mem_range.mpr hr) c (List.mem_range.mpr hc) hp1
  apply this.congr List.nodup_range List.nodup_range
  intro x hx y hy
  exact ent_pivot3 M r c (List.mem_range.mp hx) (List.mem_range.mp hy)

/-- **Ternary series-parallelness of a matrix with entries `0, ±1` is invariant under a GF(3) pivot.** -/
theorem spt_V3 {m n : Nat} {M : Mat} (hwf : M.wf m n = true) (ht : isTernary M = true) {r c : Nat}
    (hok : pivotOk3 m n M r c = true) : isSPgreedy true m n (pivot3 m n M r c) = isSPgreedy true m n M := by
  obtain ⟨hr, hc, hp⟩ := pivotOk3_iff.mp hok
  have hp0 : ent M r c ≠ 0 := by
    intro e; rw [e] at hp; exact hp rfl
  rw [Bool.eq_iff_iff]
  refine ⟨fun h => ?_, spt_V3_imp hwf ht hok⟩
  have hok' : pivotOk3 m n (pivot3 m n M r c) r c = true := by
    rw [pivotOk3_iff]
    refine ⟨hr, hc, ?_⟩
    rw [pivot3, ent_ofFn _ hr hc]
    simp only [pivotRaw, beq_self_eq_true, if_true]
    rcases ent_ternary hwf ht hr hc with e | e | e
    · exact absurd e hp0
    · rw [e]; decide
    · rw [e]; decide
  have h2 := spt_V3_imp (C13.pivot_wf3 m n M r c) (C13.pivot3_ternary m n M r c) hok' h
  rw [C13.pivot3_twice m n M hwf ht r c hr hc hp0, isSPgreedy_iff_SPE] at h2
  rw [isSPgreedy_iff_SPE]
  apply h2.embed (f := id) (g := id) (s := fun x => if x = r then -1 else 1) (u := fun y => if y = c then -1 else 1)
    List.nodup_range List.nodup_range
  exact
    { mapR := fun _ h => h, mapC := fun _ h => h, injR := fun _ _ _ _ h => h, injC := fun _ _ _ _ h => h
      sgnR := fun x => by
        by_cases hx : x = r
        · simp only [hx, if_true]; exact Or.inr ⟨rfl, rfl⟩
        · simp only [hx, if_false]; exact Or.inl rfl
      sgnC := fun y => by
        by_cases hy : y = c
        · simp only [hy, if_true]; exact Or.inr ⟨rfl, rfl⟩
        · simp only [hy, if_false]; exact Or.inl rfl
      ent := fun x hx y hy => by
        rw [id, id, ent_ofFn _ (List.mem_range.mp hx) (List.mem_range.mp hy)]
        by_cases hxr : x = r <;> by_cases hyc : y = c <;> simp [hxr, hyc] }

/-! ## 5. Lift to the step table -/

theorem rel_spb_V2 (r c : Nat) : (Step.V2 r c).rel .spb = .iff := rfl
theorem rel_spt_V3 (r c : Nat) : (Step.V3 r c).rel .spt = .iff := rfl

/-- the step `V2 r c` of the table, class `spb` -/
theorem spb_step_V2 {r c : Nat} {m n : Nat} {M : Mat} {m' n' : Nat} {M' : Mat}
    (h : (Step.V2 r c).apply m n M = some (m', n', M')) (hwf : M.wf m n = true) (hb : isBinary M = true) :
    isSPgreedy false m' n' M' = isSPgreedy false m n M := by
  simp only [Step.apply] at h
  split at h
  · rename_i hok
    simp only [Option.some.injEq, Prod.mk.injEq] at h
    obtain ⟨rfl, rfl, rfl⟩ := h
    exact spb_V2 hwf hb hok
  · cases h

/-- the step `V3 r c` of the table, class `spt` -/
theorem spt_step_V3 {r c : Nat} {m n : Nat} {M : Mat} {m' n' : Nat} {M' : Mat}
    (h : (Step.V3 r c).apply m n M = some (m', n', M')) (hwf : M.wf m n = true) (ht : isTernary M = true) :
    isSPgreedy true m' n' M' = isSPgreedy true m n M := by
  simp only [Step.apply] at h
  split at h
  · rename_i hok
    simp only [Option.some.injEq, Prod.mk.injEq] at h
    obtain ⟨rfl, rfl, rfl⟩ := h
    exact spt_V3 hwf ht hok
  · cases h

/-! ## 6. Lift to step lists -/

theorem rel_spb_eq_reg (s : Step) : s.rel .spb = s.rel .reg := by cases s <;> rfl

/-- **Every step whose table entry for `spb` is `iff` — the GF(2) pivot included — leaves the binary series-parallel
verdict of a 0/1 matrix unchanged.** -/
theorem spb_step_iff_binary {s : Step} (hrel : s.rel .spb = .iff) {m n : Nat} {M : Mat}
    {m' n' : Nat} {M' : Mat} (h : s.apply m n M = some (m', n', M')) (hwf : M.wf m n = true)
    (hb : isBinary M = true) : isSPgreedy false m' n' M' = isSPgreedy false m n M := by
  by_cases hnp : s.isPivot = false
  · exact C10.sp_step_iff (t := false) hnp hrel h hwf
  · cases s <;> simp [Step.isPivot] at hnp
    · exact spb_step_V2 h hwf hb
    · simp [Step.rel, Cls.beq_eq_decide] at hrel

/-- **Every step whose table entry for `spt` is `iff` — the GF(3) pivot included — leaves the ternary series-parallel
verdict of a matrix with entries `0, ±1` unchanged.** -/
theorem spt_step_iff_ternary {s : Step} (hrel : s.rel .spt = .iff) {m n : Nat} {M : Mat}
    {m' n' : Nat} {M' : Mat} (h : s.apply m n M = some (m', n', M')) (hwf : M.wf m n = true)
    (ht : isTernary M = true) : isSPgreedy true m' n' M' = isSPgreedy true m n M := by
  by_cases hnp : s.isPivot = false
  · exact C10.sp_step_iff (t := true) hnp hrel h hwf
  · cases s <;> simp [Step.isPivot] at hnp
    · simp [Step.rel, Cls.binaryOnly] at hrel
    · exact spt_step_V3 h hwf ht

/-- **Lift to arbitrary step lists, 0/1 input, class `spb`**: GF(2) pivots are allowed in the list.  In both cases the
result is again a 0/1 matrix. -/
theorem spb_steps_binary {steps : List Step} {m n : Nat} {M : Mat}
    {m' n' : Nat} {M' : Mat} (h : applySteps m n M steps = some (m', n', M')) (hwf : M.wf m n = true)
    (hb : isBinary M = true) :
    (stepsRel .spb steps).1 = .spb ∧
    ((stepsRel .spb steps).2 = .iff → isSPgreedy false m' n' M' = isSPgreedy false m n M ∧ isBinary M' = true) ∧
    ((stepsRel .spb steps).2 = .imp →
      (isSPgreedy false m n M = true → isSPgreedy false m' n' M' = true) ∧ isBinary M' = true) :=
  ⟨stepsRel_class_selfdual rfl steps,
   C10Pivot.steps_lift_inv' (c := .spb) rfl (isSPgreedy false) (fun _ _ M => isBinary M = true)
    (fun s hrel m n M m' n' M' h hwf hb => C10Pivot.apply_binary (by rw [← rel_spb_eq_reg]; exact hrel) h hwf hb)
    (fun s hrel m n M m' n' M' h hwf hb => spb_step_iff_binary hrel h hwf hb)
    (fun s hrel m n M m' n' M' h hwf _ hR => C10.sp_step_imp (t := false) hrel h hR)
    steps m n M m' n' M' h hwf hb⟩

/-- **Lift to arbitrary step lists, input with entries `0, ±1`, class `spt`**: GF(3) pivots are allowed in the list. -/
theorem spt_steps_ternary {steps : List Step} {m n : Nat} {M : Mat}
    {m' n' : Nat} {M' : Mat} (h : applySteps m n M steps = some (m', n', M')) (hwf : M.wf m n = true)
    (ht : isTernary M = true) :
    (stepsRel .spt steps).1 = .spt ∧
    ((stepsRel .spt steps).2 = .iff → isSPgreedy true m' n' M' = isSPgreedy true m n M) ∧
    ((stepsRel .spt steps).2 = .imp → isSPgreedy true m n M = true → isSPgreedy true m' n' M' = true) :=
  ⟨stepsRel_class_selfdual rfl steps,
   steps_lift_inv (c := .spt) rfl (isSPgreedy true) (fun _ _ M => isTernary M = true)
    (fun s m n M m' n' M' h hwf ht => Step.apply_ternary h hwf ht)
    (fun s hrel m n M m' n' M' h hwf ht => spt_step_iff_ternary hrel h hwf ht)
    (fun s hrel m n M m' n' M' h hwf _ hR => C10.sp_step_imp (t := true) hrel h hR)
    steps m n M m' n' M' h hwf ht⟩

/-! ## 7. Non-vacuity -/

example : pivotOk2 2 3 [[1, 1, 0], [1, 0, 1]] 0 0 = true ∧
    isSPgreedy false 2 3 [[1, 1, 0], [1, 0, 1]] = true ∧
    isSPgreedy false 2 3 (pivot2 2 3 [[1, 1, 0], [1, 0, 1]] 0 0) = true ∧
    pivot2 2 3 [[1, 1, 0], [1, 0, 1]] 0 0 = [[1, 1, 0], [1, 1, 1]] := by decide

example : pivotOk3 2 3 [[-1, 1, 0], [1, 0, 1]] 0 0 = true ∧
    isSPgreedy true 2 3 [[-1, 1, 0], [1, 0, 1]] = true ∧
    isSPgreedy true 2 3 (pivot3 2 3 [[-1, 1, 0], [1, 0, 1]] 0 0) = true := by decide

/-- the 0/1 hypothesis of `spb_V2` cannot be dropped: `pivot2` reduces modulo 2 -/
example : pivotOk2 2 2 [[1, 1], [1, 3]] 0 0 = true ∧ isSPgreedy false 2 2 [[1, 1], [1, 3]] = false ∧
    isSPgreedy false 2 2 (pivot2 2 2 [[1, 1], [1, 3]] 0 0) = true := by decide

/-- step lists with pivots whose combined relation is `iff`, applied -/
example :
    stepsRel .spb [.T, .V2 1 0, .ZR 1, .V2 0 1] = (.spb, .iff) ∧
    stepsRel .spt [.V3 0 0, .NR 1, .T, .V3 1 1] = (.spt, .iff) ∧
    (applySteps 2 3 [[1, 1, 0], [1, 0, 1]] [.T, .V2 1 0, .ZR 1, .V2 0 1]).isSome = true ∧
    (applySteps 2 3 [[-1, 1, 0], [1, 0, 1]] [.V3 0 0, .NR 1, .T, .V3 1 1]).isSome = true := by decide

end Cmr.Props.C10SPPivot
