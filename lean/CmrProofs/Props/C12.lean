/-
  Property C12 — decomposing along a 2- or 3-separation and composing again is the identity; composition rejects
  operands that do not have the documented shape; components and sums of totally unimodular matrices are totally
  unimodular.

  Model: `Cmr/Sums.lean` (`compose1`, `compose2a`, `compose2b`, `composeDelta`, `composeY`, `compose3`, all built
  from `blockMat`, with arithmetic reduced by `normChar`).
  Tie: ops `compose` / `decompose` of `harness/ops_sepa.c` — exact equality of `CMRonesumCompose`,
  `CMRtwosumCompose`, `CMRdeltasumCompose`, `CMRysumCompose`, `CMRthreesumCompose` with the model (`.ok` matrices
  equal, `.error` iff the library returns an error code), and of the decompose-then-compose round trip
  (`CMR*sumDecomposeFirst/Second/Epsilon`) on matrices with a 2-separation or a 3-separation.
-/
import CmrProofs.Lemmas.SumsLemmas

set_option linter.unusedSimpArgs false
set_option linter.unusedVariables false
set_option linter.unnecessarySeqFocus false
set_option linter.unreachableTactic false
set_option linter.unusedTactic false

namespace Cmr.Props.C12
open Cmr

/-! ## 1. Shape of the block matrix -/

theorem blockMat_wf (r1 c1 r2 c2 : Nat) (tl tr bl br : Nat → Nat → Int) :
    (blockMat r1 c1 r2 c2 tl tr bl br).wf (r1 + r2) (c1 + c2) = true := Cmr.blockMat_wf _ _ _ _ _ _ _ _

/-- the four quadrants of `blockMat` -/
theorem ent_blockMat (r1 c1 r2 c2 : Nat) (tl tr bl br : Nat → Nat → Int) :
    (∀ i j, i < r1 → j < c1 → ent (blockMat r1 c1 r2 c2 tl tr bl br) i j = tl i j) ∧
    (∀ i j, i < r1 → j < c2 → ent (blockMat r1 c1 r2 c2 tl tr bl br) i (c1 + j) = tr i j) ∧
    (∀ i j, i < r2 → j < c1 → ent (blockMat r1 c1 r2 c2 tl tr bl br) (r1 + i) j = bl i j) ∧
    (∀ i j, i < r2 → j < c2 → ent (blockMat r1 c1 r2 c2 tl tr bl br) (r1 + i) (c1 + j) = br i j) :=
  ⟨fun _ _ hi hj => ent_blockMat_tl _ _ _ _ _ _ _ _ hi hj, fun _ _ hi hj => ent_blockMat_tr _ _ _ _ _ _ _ _ hi hj,
   fun _ _ hi hj => ent_blockMat_bl _ _ _ _ _ _ _ _ hi hj, fun _ _ hi hj => ent_blockMat_br _ _ _ _ _ _ _ _ hi hj⟩

/-! ## 2. The documented shapes, and: composition returns a matrix iff the operands have that shape -/

/-- result of the 2-sum `[[A,0],[d cᵀ,D]]` -/
def sum2aResult (ch m1 n1 : Nat) (M1 : Mat) (m2 n2 : Nat) (M2 : Mat) (r c : Nat) : Mat :=
  blockMat (eraseIdxs (List.range m1) [r]).length n1 m2 (eraseIdxs (List.range n2) [c]).length
    (fun i j => normChar ch (ent M1 ((eraseIdxs (List.range m1) [r]).getD i 0) j))
    (fun _ _ => 0)
    (fun i j => normChar ch (ent M2 i c * ent M1 r j))
    (fun i j => normChar ch (ent M2 i ((eraseIdxs (List.range n2) [c]).getD j 0)))

/-- result of the 2-sum `[[A,a bᵀ],[0,D]]` -/
def sum2bResult (ch m1 n1 : Nat) (M1 : Mat) (m2 n2 : Nat) (M2 : Mat) (c r : Nat) : Mat :=
  blockMat m1 (eraseIdxs (List.range n1) [c]).length (eraseIdxs (List.range m2) [r]).length n2
    (fun i j => normChar ch (ent M1 i ((eraseIdxs (List.range n1) [c]).getD j 0)))
    (fun i j => normChar ch (ent M1 i c * ent M2 r j))
    (fun _ _ => 0)
    (fun i j => normChar ch (ent M2 ((eraseIdxs (List.range m2) [r]).getD i 0) j))

theorem compose2a_eq_ok_iff (ch m1 n1 : Nat) (M1 : Mat) (m2 n2 : Nat) (M2 : Mat) (r c : Nat) (P : Mat) :
    compose2a ch m1 n1 M1 m2 n2 M2 r c = .ok P ↔ (r < m1 ∧ c < n2) ∧ P = sum2aResult ch m1 n1 M1 m2 n2 M2 r c := by
  unfold compose2a sum2aResult
  simp only []
  split_ifs with h1
  all_goals simp only [reduceCtorEq, false_iff, Except.ok.injEq]
  all_goals simp only [Bool.not_eq_true', Bool.eq_false_iff, ne_eq, Bool.and_eq_true, decide_eq_true_eq, not_not] at *
  all_goals first | tauto | (constructor <;> (intro h; try subst h) <;> tauto)

theorem compose2b_eq_ok_iff (ch m1 n1 : Nat) (M1 : Mat) (m2 n2 : Nat) (M2 : Mat) (c r : Nat) (P : Mat) :
    compose2b ch m1 n1 M1 m2 n2 M2 c r = .ok P ↔ (c < n1 ∧ r < m2) ∧ P = sum2bResult ch m1 n1 M1 m2 n2 M2 c r := by
  unfold compose2b sum2bResult
  simp only []
  split_ifs with h1
  all_goals simp only [reduceCtorEq, false_iff, Except.ok.injEq]
  all_goals simp only [Bool.not_eq_true', Bool.eq_false_iff, ne_eq, Bool.and_eq_true, decide_eq_true_eq, not_not] at *
  all_goals first | tauto | (constructor <;> (intro h; try subst h) <;> tauto)

/-- 2-sum: a matrix is returned iff the special row and column are in range. -/
theorem compose2a_ok_iff (ch m1 n1 : Nat) (M1 : Mat) (m2 n2 : Nat) (M2 : Mat) (r c : Nat) :
    (∃ P, compose2a ch m1 n1 M1 m2 n2 M2 r c = .ok P) ↔ r < m1 ∧ c < n2 := by
  constructor
  · rintro ⟨P, h⟩; exact ((compose2a_eq_ok_iff _ _ _ _ _ _ _ _ _ _).mp h).1
  · intro h; exact ⟨_, (compose2a_eq_ok_iff _ _ _ _ _ _ _ _ _ _).mpr ⟨h, rfl⟩⟩

theorem compose2b_ok_iff (ch m1 n1 : Nat) (M1 : Mat) (m2 n2 : Nat) (M2 : Mat) (c r : Nat) :
    (∃ P, compose2b ch m1 n1 M1 m2 n2 M2 c r = .ok P) ↔ c < n1 ∧ r < m2 := by
  constructor
  · rintro ⟨P, h⟩; exact ((compose2b_eq_ok_iff _ _ _ _ _ _ _ _ _ _).mp h).1
  · intro h; exact ⟨_, (compose2b_eq_ok_iff _ _ _ _ _ _ _ _ _ _).mpr ⟨h, rfl⟩⟩

/-- Documented shape of the operands of a Δ-sum: `M1 = [[A,a,a],[cᵀ,0,ε]]` (special row `r1`, special columns `ca`
= `(a;0)`, `cb` = `(a;ε)`), `M2 = [[ε,0,bᵀ],[d,d,D]]` (special row `r2`, special columns `cc` = `(ε;d)`, `cd` = `(0;d)`). -/
def DeltaShape (ch m1 n1 : Nat) (M1 : Mat) (m2 n2 : Nat) (M2 : Mat) (r1 ca cb r2 cc cd : Nat) : Prop :=
  (r1 < m1 ∧ ca < n1 ∧ cb < n1 ∧ ca ≠ cb ∧ r2 < m2 ∧ cc < n2 ∧ cd < n2 ∧ cc ≠ cd) ∧
  (normChar ch (ent M1 r1 cb) = 1 ∨ normChar ch (ent M1 r1 cb) = -1) ∧
  normChar ch (ent M1 r1 ca) = 0 ∧
  (∀ i, i < m1 → i ≠ r1 → normChar ch (ent M1 i ca) = normChar ch (ent M1 i cb)) ∧
  normChar ch (ent M2 r2 cc) = normChar ch (ent M1 r1 cb) ∧
  normChar ch (ent M2 r2 cd) = 0 ∧
  (∀ i, i < m2 → i ≠ r2 → normChar ch (ent M2 i cc) = normChar ch (ent M2 i cd))

def deltaResult (ch m1 n1 : Nat) (M1 : Mat) (m2 n2 : Nat) (M2 : Mat) (r1 ca cb r2 cc cd : Nat) : Mat :=
  composeRank1 ch M1 M2 (eraseIdxs (List.range m1) [r1]) (eraseIdxs (List.range n1) [ca, cb])
    (eraseIdxs (List.range m2) [r2]) (eraseIdxs (List.range n2) [cc, cd])
    (fun i => ent M1 i ca) (fun j => ent M2 r2 j) (fun j => ent M1 r1 j) (fun i => ent M2 i cc)

theorem composeDelta_eq_ok_iff (ch m1 n1 : Nat) (M1 : Mat) (m2 n2 : Nat) (M2 : Mat) (r1 ca cb r2 cc cd : Nat)
    (P : Mat) :
    composeDelta ch m1 n1 M1 m2 n2 M2 r1 ca cb r2 cc cd = .ok P ↔
      DeltaShape ch m1 n1 M1 m2 n2 M2 r1 ca cb r2 cc cd ∧
        P = deltaResult ch m1 n1 M1 m2 n2 M2 r1 ca cb r2 cc cd := by
  unfold composeDelta DeltaShape deltaResult
  simp only []
  split_ifs with h1 h2 h3 h4 h5 h6 h7
  all_goals simp only [reduceCtorEq, false_iff, Except.ok.injEq]
  all_goals simp only [Bool.not_eq_true', Bool.eq_false_iff, ne_eq, Bool.and_eq_true, decide_eq_true_eq, bne_iff_ne,
    isPM1_iff, all_eraseIdxs_one, all_eraseIdxs_two, beq_iff_eq, not_not] at *
  all_goals first | tauto | (constructor <;> (intro h; try subst h) <;> tauto)

/-- **Δ-sum: a matrix is returned iff the operands have the documented shape.** -/
theorem composeDelta_ok_iff (ch m1 n1 : Nat) (M1 : Mat) (m2 n2 : Nat) (M2 : Mat) (r1 ca cb r2 cc cd : Nat) :
    (∃ P, composeDelta ch m1 n1 M1 m2 n2 M2 r1 ca cb r2 cc cd = .ok P) ↔
      DeltaShape ch m1 n1 M1 m2 n2 M2 r1 ca cb r2 cc cd := by
  constructor
  · rintro ⟨P, h⟩; exact ((composeDelta_eq_ok_iff _ _ _ _ _ _ _ _ _ _ _ _ _ _).mp h).1
  · intro h; exact ⟨_, (composeDelta_eq_ok_iff _ _ _ _ _ _ _ _ _ _ _ _ _ _).mpr ⟨h, rfl⟩⟩

/-- Documented shape of the operands of a Y-sum: `M1 = [[A,a],[cᵀ,0],[cᵀ,ε]]` (special rows `ra` = `(cᵀ 0)`,
`rb` = `(cᵀ ε)`, special column `c1`), `M2 = [[ε,bᵀ],[0,bᵀ],[d,D]]` (special rows `rc` = `(ε bᵀ)`, `rd` = `(0 bᵀ)`,
special column `c2`). -/
def YShape (ch m1 n1 : Nat) (M1 : Mat) (m2 n2 : Nat) (M2 : Mat) (ra rb c1 rc rd c2 : Nat) : Prop :=
  (ra < m1 ∧ rb < m1 ∧ ra ≠ rb ∧ c1 < n1 ∧ rc < m2 ∧ rd < m2 ∧ rc ≠ rd ∧ c2 < n2) ∧
  (normChar ch (ent M1 rb c1) = 1 ∨ normChar ch (ent M1 rb c1) = -1) ∧
  normChar ch (ent M1 ra c1) = 0 ∧
  (∀ j, j < n1 → j ≠ c1 → normChar ch (ent M1 ra j) = normChar ch (ent M1 rb j)) ∧
  normChar ch (ent M2 rc c2) = normChar ch (ent M1 rb c1) ∧
  normChar ch (ent M2 rd c2) = 0 ∧
  (∀ j, j < n2 → j ≠ c2 → normChar ch (ent M2 rc j) = normChar ch (ent M2 rd j))

def yResult (ch m1 n1 : Nat) (M1 : Mat) (m2 n2 : Nat) (M2 : Mat) (ra rb c1 rc rd c2 : Nat) : Mat :=
  composeRank1 ch M1 M2 (eraseIdxs (List.range m1) [ra, rb]) (eraseIdxs (List.range n1) [c1])
    (eraseIdxs (List.range m2) [rc, rd]) (eraseIdxs (List.range n2) [c2])
    (fun i => ent M1 i c1) (fun j => ent M2 rc j) (fun j => ent M1 ra j) (fun i => ent M2 i c2)

theorem composeY_eq_ok_iff (ch m1 n1 : Nat) (M1 : Mat) (m2 n2 : Nat) (M2 : Mat) (ra rb c1 rc rd c2 : Nat)
    (P : Mat) :
    composeY ch m1 n1 M1 m2 n2 M2 ra rb c1 rc rd c2 = .ok P ↔
      YShape ch m1 n1 M1 m2 n2 M2 ra rb c1 rc rd c2 ∧ P = yResult ch m1 n1 M1 m2 n2 M2 ra rb c1 rc rd c2 := by
  unfold composeY YShape yResult
  simp only []
  split_ifs with h1 h2 h3 h4 h5 h6 h7
  all_goals simp only [reduceCtorEq, false_iff, Except.ok.injEq]
  all_goals simp only [Bool.not_eq_true', Bool.eq_false_iff, ne_eq, Bool.and_eq_true, decide_eq_true_eq, bne_iff_ne,
    isPM1_iff, all_eraseIdxs_one, all_eraseIdxs_two, beq_iff_eq, not_not] at *
  all_goals first | tauto | (constructor <;> (intro h; try subst h) <;> tauto)

/-- **Y-sum: a matrix is returned iff the operands have the documented shape.** -/
theorem composeY_ok_iff (ch m1 n1 : Nat) (M1 : Mat) (m2 n2 : Nat) (M2 : Mat) (ra rb c1 rc rd c2 : Nat) :
    (∃ P, composeY ch m1 n1 M1 m2 n2 M2 ra rb c1 rc rd c2 = .ok P) ↔
      YShape ch m1 n1 M1 m2 n2 M2 ra rb c1 rc rd c2 := by
  constructor
  · rintro ⟨P, h⟩; exact ((composeY_eq_ok_iff _ _ _ _ _ _ _ _ _ _ _ _ _ _).mp h).1
  · intro h; exact ⟨_, (composeY_eq_ok_iff _ _ _ _ _ _ _ _ _ _ _ _ _ _).mpr ⟨h, rfl⟩⟩

/-- Documented shape of the operands of a 3-sum: `M1 = [[A,0],[C_i,α],[C_j,β]]` (special rows `ri rj`, special
columns `ck cl` and the `(0;α;β)` column `cz`), `M2 = [[γ,δ,0],[C_k,C_l,D]]` (special row `rg`, rows `ri2 rj2`,
special columns `ck2 cl2`); the connecting 2×2 matrices agree and are nonsingular; the 3×3 matrix
`N = [[γ,δ,0],[C_ik,C_il,α],[C_jk,C_jl,β]]` passes the supplied total-unimodularity check. -/
def ThreeShape (ch m1 n1 : Nat) (M1 : Mat) (m2 n2 : Nat) (M2 : Mat)
    (ri rj ck cl cz rg ri2 rj2 ck2 cl2 : Nat) (tuCheck : Mat → Bool) : Prop :=
  (ri < m1 ∧ rj < m1 ∧ ri ≠ rj ∧ ck < n1 ∧ cl < n1 ∧ cz < n1 ∧ ck ≠ cl ∧ ck ≠ cz ∧ cl ≠ cz ∧
    rg < m2 ∧ ri2 < m2 ∧ rj2 < m2 ∧ rg ≠ ri2 ∧ rg ≠ rj2 ∧ ri2 ≠ rj2 ∧ ck2 < n2 ∧ cl2 < n2 ∧ ck2 ≠ cl2) ∧
  ((normChar ch (ent M1 ri cz) = 1 ∨ normChar ch (ent M1 ri cz) = -1) ∧
    (normChar ch (ent M1 rj cz) = 1 ∨ normChar ch (ent M1 rj cz) = -1)) ∧
  (∀ i, i < m1 → i ≠ ri → i ≠ rj → normChar ch (ent M1 i cz) = 0) ∧
  ((normChar ch (ent M2 rg ck2) = 1 ∨ normChar ch (ent M2 rg ck2) = -1) ∧
    (normChar ch (ent M2 rg cl2) = 1 ∨ normChar ch (ent M2 rg cl2) = -1)) ∧
  (∀ j, j < n2 → j ≠ ck2 → j ≠ cl2 → normChar ch (ent M2 rg j) = 0) ∧
  (normChar ch (ent M1 ri ck) = normChar ch (ent M2 ri2 ck2) ∧ normChar ch (ent M1 ri cl) = normChar ch (ent M2 ri2 cl2) ∧
    normChar ch (ent M1 rj ck) = normChar ch (ent M2 rj2 ck2) ∧ normChar ch (ent M1 rj cl) = normChar ch (ent M2 rj2 cl2)) ∧
  normChar ch (normChar ch (ent M1 ri ck) * normChar ch (ent M1 rj cl) -
      normChar ch (ent M1 ri cl) * normChar ch (ent M1 rj ck)) ≠ 0 ∧
  tuCheck [[normChar ch (ent M2 rg ck2), normChar ch (ent M2 rg cl2), 0],
           [normChar ch (ent M1 ri ck), normChar ch (ent M1 ri cl), normChar ch (ent M1 ri cz)],
           [normChar ch (ent M1 rj ck), normChar ch (ent M1 rj cl), normChar ch (ent M1 rj cz)]] = true

def threeResult (ch m1 n1 : Nat) (M1 : Mat) (m2 n2 : Nat) (M2 : Mat)
    (ri rj ck cl cz rg ri2 rj2 ck2 cl2 : Nat) : Mat :=
  let rows1 := eraseIdxs (List.range m1) [ri, rj]
  let cols1 := eraseIdxs (List.range n1) [cz]
  let rows2 := eraseIdxs (List.range m2) [rg]
  let cols2 := eraseIdxs (List.range n2) [ck2, cl2]
  let nz (x : Int) := normChar ch x
  let q00 := nz (ent M1 ri ck); let q01 := nz (ent M1 ri cl); let q10 := nz (ent M1 rj ck); let q11 := nz (ent M1 rj cl)
  let det := nz (q00 * q11 - q01 * q10)
  let i00 := det * q11; let i01 := -(det * q01); let i10 := -(det * q10); let i11 := det * q00
  blockMat rows1.length cols1.length rows2.length cols2.length
    (fun i j => nz (ent M1 (rows1.getD i 0) (cols1.getD j 0)))
    (fun _ _ => 0)
    (fun i j =>
      let x := rows2.getD i 0; let y := cols1.getD j 0
      let colk := ent M2 x ck2; let coll := ent M2 x cl2
      let rowi := ent M1 ri y; let rowj := ent M1 rj y
      nz (colk * (i00 * rowi + i01 * rowj) + coll * (i10 * rowi + i11 * rowj)))
    (fun i j => nz (ent M2 (rows2.getD i 0) (cols2.getD j 0)))

theorem compose3_eq_ok_iff (ch m1 n1 : Nat) (M1 : Mat) (m2 n2 : Nat) (M2 : Mat)
    (ri rj ck cl cz rg ri2 rj2 ck2 cl2 : Nat) (tuCheck : Mat → Bool) (P : Mat) :
    compose3 ch m1 n1 M1 m2 n2 M2 ri rj ck cl cz rg ri2 rj2 ck2 cl2 tuCheck = .ok P ↔
      ThreeShape ch m1 n1 M1 m2 n2 M2 ri rj ck cl cz rg ri2 rj2 ck2 cl2 tuCheck ∧
        P = threeResult ch m1 n1 M1 m2 n2 M2 ri rj ck cl cz rg ri2 rj2 ck2 cl2 := by
  unfold compose3 ThreeShape threeResult
  simp only []
  split_ifs with h1 h2 h3 h4 h5 h6 h7 h8
  all_goals simp only [reduceCtorEq, false_iff, Except.ok.injEq]
  all_goals simp only [Bool.not_eq_true', Bool.eq_false_iff, ne_eq, Bool.and_eq_true, decide_eq_true_eq, bne_iff_ne,
    isPM1_iff, all_eraseIdxs_one, all_eraseIdxs_two, beq_iff_eq, not_not] at *
  all_goals simp only [and_assoc] at h1
  all_goals try simp only [and_assoc] at h6
  · rintro ⟨⟨a1, a2, a3, a4, a5, a6, a7, a8⟩, -⟩; exact h1 a1
  · rintro ⟨⟨a1, a2, a3, a4, a5, a6, a7, a8⟩, -⟩; exact h2 a2
  · rintro ⟨⟨a1, a2, a3, a4, a5, a6, a7, a8⟩, -⟩; exact h3 a3
  · rintro ⟨⟨a1, a2, a3, a4, a5, a6, a7, a8⟩, -⟩; exact h4 a4
  · rintro ⟨⟨a1, a2, a3, a4, a5, a6, a7, a8⟩, -⟩; exact h5 a5
  · rintro ⟨⟨a1, a2, a3, a4, a5, a6, a7, a8⟩, -⟩; exact h6 a6
  · rintro ⟨⟨a1, a2, a3, a4, a5, a6, a7, a8⟩, -⟩; exact a7 h7
  · rintro ⟨⟨a1, a2, a3, a4, a5, a6, a7, a8⟩, -⟩; exact h8 a8
  · exact ⟨fun h => ⟨⟨h1, h2, h3, h4, h5, h6, h7, h8⟩, h.symm⟩, fun h => h.2.symm⟩

/-- **3-sum: a matrix is returned iff the operands have the documented shape.** -/
theorem compose3_ok_iff (ch m1 n1 : Nat) (M1 : Mat) (m2 n2 : Nat) (M2 : Mat)
    (ri rj ck cl cz rg ri2 rj2 ck2 cl2 : Nat) (tuCheck : Mat → Bool) :
    (∃ P, compose3 ch m1 n1 M1 m2 n2 M2 ri rj ck cl cz rg ri2 rj2 ck2 cl2 tuCheck = .ok P) ↔
      ThreeShape ch m1 n1 M1 m2 n2 M2 ri rj ck cl cz rg ri2 rj2 ck2 cl2 tuCheck := by
  constructor
  · rintro ⟨P, h⟩; exact ((compose3_eq_ok_iff _ _ _ _ _ _ _ _ _ _ _ _ _ _ _ _ _ _ _).mp h).1
  · intro h; exact ⟨_, (compose3_eq_ok_iff _ _ _ _ _ _ _ _ _ _ _ _ _ _ _ _ _ _ _).mpr ⟨h, rfl⟩⟩

/-- An `Except` value that is not `.ok _` is an error. -/
theorem error_of_not_ok {x : Except String Mat} (h : ¬ ∃ P, x = .ok P) : ∃ e, x = .error e := by
  cases x with
  | error e => exact ⟨e, rfl⟩
  | ok P => exact absurd ⟨P, rfl⟩ h

/-- **Rejection**: operands without the documented shape yield an error instead of a matrix. -/
theorem compose_rejects (ch m1 n1 : Nat) (M1 : Mat) (m2 n2 : Nat) (M2 : Mat) :
    (∀ r c, ¬ (r < m1 ∧ c < n2) → ∃ e, compose2a ch m1 n1 M1 m2 n2 M2 r c = .error e) ∧
    (∀ c r, ¬ (c < n1 ∧ r < m2) → ∃ e, compose2b ch m1 n1 M1 m2 n2 M2 c r = .error e) ∧
    (∀ r1 ca cb r2 cc cd, ¬ DeltaShape ch m1 n1 M1 m2 n2 M2 r1 ca cb r2 cc cd →
      ∃ e, composeDelta ch m1 n1 M1 m2 n2 M2 r1 ca cb r2 cc cd = .error e) ∧
    (∀ ra rb c1 rc rd c2, ¬ YShape ch m1 n1 M1 m2 n2 M2 ra rb c1 rc rd c2 →
      ∃ e, composeY ch m1 n1 M1 m2 n2 M2 ra rb c1 rc rd c2 = .error e) ∧
    (∀ ri rj ck cl cz rg ri2 rj2 ck2 cl2 tuCheck,
      ¬ ThreeShape ch m1 n1 M1 m2 n2 M2 ri rj ck cl cz rg ri2 rj2 ck2 cl2 tuCheck →
      ∃ e, compose3 ch m1 n1 M1 m2 n2 M2 ri rj ck cl cz rg ri2 rj2 ck2 cl2 tuCheck = .error e) := by
  refine ⟨?_, ?_, ?_, ?_, ?_⟩
  · intro r c h; exact error_of_not_ok (fun hp => h ((compose2a_ok_iff _ _ _ _ _ _ _ _ _).mp hp))
  · intro c r h; exact error_of_not_ok (fun hp => h ((compose2b_ok_iff _ _ _ _ _ _ _ _ _).mp hp))
  · intro r1 ca cb r2 cc cd h
    exact error_of_not_ok (fun hp => h ((composeDelta_ok_iff _ _ _ _ _ _ _ _ _ _ _ _ _).mp hp))
  · intro ra rb c1 rc rd c2 h
    exact error_of_not_ok (fun hp => h ((composeY_ok_iff _ _ _ _ _ _ _ _ _ _ _ _ _).mp hp))
  · intro ri rj ck cl cz rg ri2 rj2 ck2 cl2 tuCheck h
    exact error_of_not_ok (fun hp => h ((compose3_ok_iff _ _ _ _ _ _ _ _ _ _ _ _ _ _ _ _ _ _).mp hp))

/-! ## 1 (continued). Shape and entries of every returned matrix -/

theorem composeRank1_wf (ch : Nat) (M1 M2 : Mat) (rows1 cols1 rows2 cols2 : List Nat) (a b c d : Nat → Int) :
    (composeRank1 ch M1 M2 rows1 cols1 rows2 cols2 a b c d).wf (rows1.length + rows2.length)
      (cols1.length + cols2.length) = true := Cmr.blockMat_wf _ _ _ _ _ _ _ _

theorem compose2a_wf {ch m1 n1 : Nat} {M1 : Mat} {m2 n2 : Nat} {M2 : Mat} {r c : Nat} {P : Mat}
    (h : compose2a ch m1 n1 M1 m2 n2 M2 r c = .ok P) : P.wf ((m1 - 1) + m2) (n1 + (n2 - 1)) = true := by
  obtain ⟨⟨hr, hc⟩, rfl⟩ := (compose2a_eq_ok_iff _ _ _ _ _ _ _ _ _ _).mp h
  rw [← length_eraseIdxs_one hr, ← length_eraseIdxs_one hc]
  exact Cmr.blockMat_wf _ _ _ _ _ _ _ _

theorem compose2b_wf {ch m1 n1 : Nat} {M1 : Mat} {m2 n2 : Nat} {M2 : Mat} {c r : Nat} {P : Mat}
    (h : compose2b ch m1 n1 M1 m2 n2 M2 c r = .ok P) : P.wf (m1 + (m2 - 1)) ((n1 - 1) + n2) = true := by
  obtain ⟨⟨hc, hr⟩, rfl⟩ := (compose2b_eq_ok_iff _ _ _ _ _ _ _ _ _ _).mp h
  rw [← length_eraseIdxs_one hr, ← length_eraseIdxs_one hc]
  exact Cmr.blockMat_wf _ _ _ _ _ _ _ _

theorem composeDelta_wf {ch m1 n1 : Nat} {M1 : Mat} {m2 n2 : Nat} {M2 : Mat} {r1 ca cb r2 cc cd : Nat} {P : Mat}
    (h : composeDelta ch m1 n1 M1 m2 n2 M2 r1 ca cb r2 cc cd = .ok P) :
    P.wf ((m1 - 1) + (m2 - 1)) ((n1 - 2) + (n2 - 2)) = true := by
  obtain ⟨⟨⟨h1, h2, h3, h4, h5, h6, h7, h8⟩, -⟩, rfl⟩ := (composeDelta_eq_ok_iff _ _ _ _ _ _ _ _ _ _ _ _ _ _).mp h
  rw [← length_eraseIdxs_one h1, ← length_eraseIdxs_one h5, ← length_eraseIdxs_two h2 h3 h4,
    ← length_eraseIdxs_two h6 h7 h8]
  exact composeRank1_wf _ _ _ _ _ _ _ _ _ _ _

theorem composeY_wf {ch m1 n1 : Nat} {M1 : Mat} {m2 n2 : Nat} {M2 : Mat} {ra rb c1 rc rd c2 : Nat} {P : Mat}
    (h : composeY ch m1 n1 M1 m2 n2 M2 ra rb c1 rc rd c2 = .ok P) :
    P.wf ((m1 - 2) + (m2 - 2)) ((n1 - 1) + (n2 - 1)) = true := by
  obtain ⟨⟨⟨h1, h2, h3, h4, h5, h6, h7, h8⟩, -⟩, rfl⟩ := (composeY_eq_ok_iff _ _ _ _ _ _ _ _ _ _ _ _ _ _).mp h
  rw [← length_eraseIdxs_two h1 h2 h3, ← length_eraseIdxs_two h5 h6 h7, ← length_eraseIdxs_one h4,
    ← length_eraseIdxs_one h8]
  exact composeRank1_wf _ _ _ _ _ _ _ _ _ _ _

theorem compose3_wf {ch m1 n1 : Nat} {M1 : Mat} {m2 n2 : Nat} {M2 : Mat}
    {ri rj ck cl cz rg ri2 rj2 ck2 cl2 : Nat} {tuCheck : Mat → Bool} {P : Mat}
    (h : compose3 ch m1 n1 M1 m2 n2 M2 ri rj ck cl cz rg ri2 rj2 ck2 cl2 tuCheck = .ok P) :
    P.wf ((m1 - 2) + (m2 - 1)) ((n1 - 1) + (n2 - 2)) = true := by
  obtain ⟨⟨hs, -⟩, rfl⟩ := (compose3_eq_ok_iff _ _ _ _ _ _ _ _ _ _ _ _ _ _ _ _ _ _ _).mp h
  obtain ⟨h1, h2, h3, h4, h5, h6, h7, h8, h9, h10, h11, h12, h13, h14, h15, h16, h17, h18⟩ := hs
  rw [← length_eraseIdxs_two h1 h2 h3, ← length_eraseIdxs_one h10, ← length_eraseIdxs_one h6,
    ← length_eraseIdxs_two h16 h17 h18]
  unfold threeResult
  exact Cmr.blockMat_wf _ _ _ _ _ _ _ _

/-- Over GF(2) every returned matrix has entries in {0,1}; over GF(3) in {-1,0,1}. -/
theorem compose_entries {m1 n1 : Nat} {M1 : Mat} {m2 n2 : Nat} {M2 : Mat} {P : Mat} :
    (∀ r c, compose2a 2 m1 n1 M1 m2 n2 M2 r c = .ok P → isBinary P = true) ∧
    (∀ r c, compose2a 3 m1 n1 M1 m2 n2 M2 r c = .ok P → isTernary P = true) ∧
    (∀ c r, compose2b 2 m1 n1 M1 m2 n2 M2 c r = .ok P → isBinary P = true) ∧
    (∀ c r, compose2b 3 m1 n1 M1 m2 n2 M2 c r = .ok P → isTernary P = true) ∧
    (∀ r1 ca cb r2 cc cd, composeDelta 2 m1 n1 M1 m2 n2 M2 r1 ca cb r2 cc cd = .ok P → isBinary P = true) ∧
    (∀ r1 ca cb r2 cc cd, composeDelta 3 m1 n1 M1 m2 n2 M2 r1 ca cb r2 cc cd = .ok P → isTernary P = true) ∧
    (∀ ra rb c1 rc rd c2, composeY 2 m1 n1 M1 m2 n2 M2 ra rb c1 rc rd c2 = .ok P → isBinary P = true) ∧
    (∀ ra rb c1 rc rd c2, composeY 3 m1 n1 M1 m2 n2 M2 ra rb c1 rc rd c2 = .ok P → isTernary P = true) ∧
    (∀ ri rj ck cl cz rg ri2 rj2 ck2 cl2 tuCheck,
      compose3 2 m1 n1 M1 m2 n2 M2 ri rj ck cl cz rg ri2 rj2 ck2 cl2 tuCheck = .ok P → isBinary P = true) ∧
    (∀ ri rj ck cl cz rg ri2 rj2 ck2 cl2 tuCheck,
      compose3 3 m1 n1 M1 m2 n2 M2 ri rj ck cl cz rg ri2 rj2 ck2 cl2 tuCheck = .ok P → isTernary P = true) := by
  refine ⟨?_, ?_, ?_, ?_, ?_, ?_, ?_, ?_, ?_, ?_⟩
  · intro r c h
    obtain ⟨-, rfl⟩ := (compose2a_eq_ok_iff _ _ _ _ _ _ _ _ _ _).mp h
    simp only [sum2aResult, sum2bResult, deltaResult, yResult, threeResult, composeRank1]
    apply isBinary_blockMat <;> intros <;> first | exact normChar_binary _ | exact Or.inl rfl
  · intro r c h
    obtain ⟨-, rfl⟩ := (compose2a_eq_ok_iff _ _ _ _ _ _ _ _ _ _).mp h
    simp only [sum2aResult, sum2bResult, deltaResult, yResult, threeResult, composeRank1]
    apply isTernary_blockMat <;> intros <;> first | exact normChar_ternary _ | exact Or.inl rfl
  · intro r c h
    obtain ⟨-, rfl⟩ := (compose2b_eq_ok_iff _ _ _ _ _ _ _ _ _ _).mp h
    simp only [sum2aResult, sum2bResult, deltaResult, yResult, threeResult, composeRank1]
    apply isBinary_blockMat <;> intros <;> first | exact normChar_binary _ | exact Or.inl rfl
  · intro r c h
    obtain ⟨-, rfl⟩ := (compose2b_eq_ok_iff _ _ _ _ _ _ _ _ _ _).mp h
    simp only [sum2aResult, sum2bResult, deltaResult, yResult, threeResult, composeRank1]
    apply isTernary_blockMat <;> intros <;> first | exact normChar_ternary _ | exact Or.inl rfl
  · intro r1 ca cb r2 cc cd h
    obtain ⟨-, rfl⟩ := (composeDelta_eq_ok_iff _ _ _ _ _ _ _ _ _ _ _ _ _ _).mp h
    simp only [sum2aResult, sum2bResult, deltaResult, yResult, threeResult, composeRank1]
    apply isBinary_blockMat <;> intros <;> first | exact normChar_binary _ | exact Or.inl rfl
  · intro r1 ca cb r2 cc cd h
    obtain ⟨-, rfl⟩ := (composeDelta_eq_ok_iff _ _ _ _ _ _ _ _ _ _ _ _ _ _).mp h
    simp only [sum2aResult, sum2bResult, deltaResult, yResult, threeResult, composeRank1]
    apply isTernary_blockMat <;> intros <;> first | exact normChar_ternary _ | exact Or.inl rfl
  · intro r1 ca cb r2 cc cd h
    obtain ⟨-, rfl⟩ := (composeY_eq_ok_iff _ _ _ _ _ _ _ _ _ _ _ _ _ _).mp h
    simp only [sum2aResult, sum2bResult, deltaResult, yResult, threeResult, composeRank1]
    apply isBinary_blockMat <;> intros <;> first | exact normChar_binary _ | exact Or.inl rfl
  · intro r1 ca cb r2 cc cd h
    obtain ⟨-, rfl⟩ := (composeY_eq_ok_iff _ _ _ _ _ _ _ _ _ _ _ _ _ _).mp h
    simp only [sum2aResult, sum2bResult, deltaResult, yResult, threeResult, composeRank1]
    apply isTernary_blockMat <;> intros <;> first | exact normChar_ternary _ | exact Or.inl rfl
  · intro ri rj ck cl cz rg ri2 rj2 ck2 cl2 tuCheck h
    obtain ⟨-, rfl⟩ := (compose3_eq_ok_iff _ _ _ _ _ _ _ _ _ _ _ _ _ _ _ _ _ _ _).mp h
    simp only [sum2aResult, sum2bResult, deltaResult, yResult, threeResult, composeRank1]
    apply isBinary_blockMat <;> intros <;> first | exact normChar_binary _ | exact Or.inl rfl
  · intro ri rj ck cl cz rg ri2 rj2 ck2 cl2 tuCheck h
    obtain ⟨-, rfl⟩ := (compose3_eq_ok_iff _ _ _ _ _ _ _ _ _ _ _ _ _ _ _ _ _ _ _).mp h
    simp only [sum2aResult, sum2bResult, deltaResult, yResult, threeResult, composeRank1]
    apply isTernary_blockMat <;> intros <;> first | exact normChar_ternary _ | exact Or.inl rfl

/-! ## 3. Decompose, then compose: the identity (components in standard position) -/

/-- first component `[A; cᵀ]` of a 2-sum `[[A,0],[C,D]]`, `cᵀ` = row `i0` of `C` -/
def twoSumFirst (r1 c1 i0 : Nat) (M : Mat) : Mat :=
  Mat.ofFn (r1 + 1) c1 fun i j => if i < r1 then ent M i j else ent M (r1 + i0) j

/-- second component `[d D]` of a 2-sum `[[A,0],[d cᵀ,D]]` -/
def twoSumSecond (r1 c1 r2 c2 : Nat) (d : Nat → Int) (M : Mat) : Mat :=
  Mat.ofFn r2 (c2 + 1) fun i j => if j = 0 then d i else ent M (r1 + i) (c1 + (j - 1))

/-- **2-sum round trip** (`B = 0`, `C = d cᵀ` with `cᵀ` the representative row `r1+i0` of `M`). -/
theorem twosum_roundtrip (ch r1 c1 r2 c2 : Nat) (M : Mat) (hwf : M.wf (r1 + r2) (c1 + c2) = true)
    (hnorm : ∀ i, i < r1 + r2 → ∀ j, j < c1 + c2 → normChar ch (ent M i j) = ent M i j)
    (i0 : Nat) (d : Nat → Int)
    (hB : ∀ i, i < r1 → ∀ j, j < c2 → ent M i (c1 + j) = 0)
    (hC : ∀ k, k < r2 → ∀ j, j < c1 → ent M (r1 + k) j = normChar ch (d k * ent M (r1 + i0) j)) :
    compose2a ch (r1 + 1) c1 (twoSumFirst r1 c1 i0 M) r2 (c2 + 1) (twoSumSecond r1 c1 r2 c2 d M) r1 0 = .ok M := by
  rw [compose2a_eq_ok_iff]
  refine ⟨⟨by omega, by omega⟩, ?_⟩
  unfold sum2aResult
  rw [eraseIdxs_range_last, eraseIdxs_range_first]
  simp only [List.length_range, List.length_map]
  apply mat_ext hwf (Cmr.blockMat_wf _ _ _ _ _ _ _ _)
  intro i hi j hj
  rw [Cmr.ent_blockMat _ _ _ _ _ _ _ _ hi hj]
  by_cases h1 : i < r1 <;> by_cases h2 : j < c1 <;> simp only [h1, h2, if_true, if_false]
  · rw [getD_range h1, twoSumFirst, ent_ofFn _ (by omega) h2]; simp [h1, hnorm i hi j hj]
  · have := hB i h1 (j - c1) (by omega)
    rwa [show c1 + (j - c1) = j by omega] at this
  · rw [twoSumFirst, twoSumSecond, ent_ofFn _ (by omega) (by omega), ent_ofFn _ (by omega) h2]
    have := hC (i - r1) (by omega) j h2
    rw [show r1 + (i - r1) = i by omega] at this
    simp [this]
  · rw [getD_range_map_add 1 (by omega), twoSumSecond, ent_ofFn _ (by omega) (by omega)]
    simp only [Nat.add_eq_zero_iff, Nat.succ_ne_zero, and_false, if_false, Nat.add_sub_cancel]
    rw [show r1 + (i - r1) = i by omega, show c1 + (j - c1) = j by omega]
    exact (hnorm i hi j hj).symm

/-- first component `[A a]` of a 2-sum `[[A,B],[0,D]]`, `a` = column `j0` of `B` -/
def twoSumFirstB (r1 c1 j0 : Nat) (M : Mat) : Mat :=
  Mat.ofFn r1 (c1 + 1) fun i j => if j < c1 then ent M i j else ent M i (c1 + j0)

/-- second component `[bᵀ; D]` of a 2-sum `[[A,a bᵀ],[0,D]]` -/
def twoSumSecondB (r1 c1 r2 c2 : Nat) (b : Nat → Int) (M : Mat) : Mat :=
  Mat.ofFn (r2 + 1) c2 fun i j => if i = 0 then b j else ent M (r1 + (i - 1)) (c1 + j)

/-- **2-sum round trip, second variant** (`C = 0`, `B = a bᵀ` with `a` the representative column `c1+j0` of `M`). -/
theorem twosum_roundtrip_b (ch r1 c1 r2 c2 : Nat) (M : Mat) (hwf : M.wf (r1 + r2) (c1 + c2) = true)
    (hnorm : ∀ i, i < r1 + r2 → ∀ j, j < c1 + c2 → normChar ch (ent M i j) = ent M i j)
    (j0 : Nat) (b : Nat → Int)
    (hC : ∀ i, i < r2 → ∀ j, j < c1 → ent M (r1 + i) j = 0)
    (hB : ∀ i, i < r1 → ∀ j, j < c2 → ent M i (c1 + j) = normChar ch (ent M i (c1 + j0) * b j)) :
    compose2b ch r1 (c1 + 1) (twoSumFirstB r1 c1 j0 M) (r2 + 1) c2 (twoSumSecondB r1 c1 r2 c2 b M) c1 0 = .ok M := by
  rw [compose2b_eq_ok_iff]
  refine ⟨⟨by omega, by omega⟩, ?_⟩
  unfold sum2bResult
  rw [eraseIdxs_range_last, eraseIdxs_range_first]
  simp only [List.length_range, List.length_map]
  apply mat_ext hwf (Cmr.blockMat_wf _ _ _ _ _ _ _ _)
  intro i hi j hj
  rw [Cmr.ent_blockMat _ _ _ _ _ _ _ _ hi hj]
  by_cases h1 : i < r1 <;> by_cases h2 : j < c1 <;> simp only [h1, h2, if_true, if_false]
  · rw [getD_range h2, twoSumFirstB, ent_ofFn _ h1 (by omega)]; simp [h2, hnorm i hi j hj]
  · rw [twoSumFirstB, twoSumSecondB, ent_ofFn _ h1 (by omega), ent_ofFn _ (by omega) (by omega)]
    have := hB i h1 (j - c1) (by omega)
    rw [show c1 + (j - c1) = j by omega] at this
    simp [this]
  · have := hC (i - r1) (by omega) j h2
    rwa [show r1 + (i - r1) = i by omega] at this
  · rw [getD_range_map_add 1 (by omega), twoSumSecondB, ent_ofFn _ (by omega) (by omega)]
    simp only [Nat.add_eq_zero_iff, Nat.succ_ne_zero, and_false, if_false, Nat.add_sub_cancel]
    rw [show r1 + (i - r1) = i by omega, show c1 + (j - c1) = j by omega]
    exact (hnorm i hi j hj).symm

/-- first component `[[A,a,a],[cᵀ,0,ε]]` of a Δ-sum -/
def deltaFirst (r1 c1 : Nat) (a c : Nat → Int) (eps : Int) (M : Mat) : Mat :=
  Mat.ofFn (r1 + 1) (c1 + 2) fun i j =>
    if i < r1 then (if j < c1 then ent M i j else a i)
    else (if j < c1 then c j else if j = c1 then 0 else eps)

/-- second component `[[ε,0,bᵀ],[d,d,D]]` of a Δ-sum -/
def deltaSecond (r1 c1 r2 c2 : Nat) (b d : Nat → Int) (eps : Int) (M : Mat) : Mat :=
  Mat.ofFn (r2 + 1) (c2 + 2) fun i j =>
    if i = 0 then (if j = 0 then eps else if j = 1 then 0 else b (j - 2))
    else (if j < 2 then d (i - 1) else ent M (r1 + (i - 1)) (c1 + (j - 2)))

/-- **Δ-sum round trip**: `M = [[A, a bᵀ],[d cᵀ, D]]`; special row of `M1` last, special columns of `M1` last two;
special row of `M2` first, special columns of `M2` first two. -/
theorem deltasum_roundtrip (ch r1 c1 r2 c2 : Nat) (M : Mat) (hwf : M.wf (r1 + r2) (c1 + c2) = true)
    (hnorm : ∀ i, i < r1 + r2 → ∀ j, j < c1 + c2 → normChar ch (ent M i j) = ent M i j)
    (a b c d : Nat → Int) (eps : Int) (heps : normChar ch eps = 1 ∨ normChar ch eps = -1)
    (hB : ∀ i, i < r1 → ∀ j, j < c2 → ent M i (c1 + j) = normChar ch (a i * b j))
    (hC : ∀ k, k < r2 → ∀ j, j < c1 → ent M (r1 + k) j = normChar ch (d k * c j)) :
    composeDelta ch (r1 + 1) (c1 + 2) (deltaFirst r1 c1 a c eps M) (r2 + 1) (c2 + 2)
      (deltaSecond r1 c1 r2 c2 b d eps M) r1 c1 (c1 + 1) 0 0 1 = .ok M := by
  have e1 : ∀ i, i < r1 → ∀ j, j < c1 + 2 → ent (deltaFirst r1 c1 a c eps M) i j = if j < c1 then ent M i j else a i := by
    intro i hi j hj; rw [deltaFirst, ent_ofFn _ (by omega) hj]; simp [hi]
  have e2 : ∀ j, j < c1 + 2 → ent (deltaFirst r1 c1 a c eps M) r1 j =
      if j < c1 then c j else if j = c1 then 0 else eps := by
    intro j hj; rw [deltaFirst, ent_ofFn _ (by omega) hj]; simp
  have e3 : ∀ j, j < c2 + 2 → ent (deltaSecond r1 c1 r2 c2 b d eps M) 0 j =
      if j = 0 then eps else if j = 1 then 0 else b (j - 2) := by
    intro j hj; rw [deltaSecond, ent_ofFn _ (by omega) hj]; simp
  have e4 : ∀ i, i < r2 → ∀ j, j < c2 + 2 → ent (deltaSecond r1 c1 r2 c2 b d eps M) (i + 1) j =
      if j < 2 then d i else ent M (r1 + i) (c1 + (j - 2)) := by
    intro i hi j hj; rw [deltaSecond, ent_ofFn _ (by omega) hj]; simp
  rw [composeDelta_eq_ok_iff]
  refine ⟨⟨⟨by omega, by omega, by omega, by omega, by omega, by omega, by omega, by omega⟩, ?_, ?_, ?_, ?_, ?_, ?_⟩, ?_⟩
  · rw [e2 _ (by omega)]; simpa using heps
  · rw [e2 _ (by omega)]; simp [normChar_zero]
  · intro i hi hne
    have hi' : i < r1 := by omega
    rw [e1 i hi' _ (by omega), e1 i hi' _ (by omega)]; simp
  · rw [e3 _ (by omega), e2 _ (by omega)]; simp
  · rw [e3 _ (by omega)]; simp [normChar_zero]
  · intro i hi hne
    obtain ⟨k, rfl⟩ : ∃ k, i = k + 1 := ⟨i - 1, by omega⟩
    rw [e4 k (by omega) _ (by omega), e4 k (by omega) _ (by omega)]; simp
  · unfold deltaResult composeRank1
    rw [eraseIdxs_range_last, eraseIdxs_range_last_two, eraseIdxs_range_first, eraseIdxs_range_first_two]
    simp only [List.length_range, List.length_map]
    apply mat_ext hwf (Cmr.blockMat_wf _ _ _ _ _ _ _ _)
    intro i hi j hj
    rw [Cmr.ent_blockMat _ _ _ _ _ _ _ _ hi hj]
    by_cases h1 : i < r1 <;> by_cases h2 : j < c1 <;> simp only [h1, h2, if_true, if_false]
    · rw [getD_range h1, getD_range h2, e1 i h1 j (by omega)]; simp [h2, hnorm i hi j hj]
    · rw [getD_range h1, getD_range_map_add 2 (by omega), e1 i h1 _ (by omega), e3 _ (by omega)]
      have := hB i h1 (j - c1) (by omega)
      rw [show c1 + (j - c1) = j by omega] at this
      simp [this]
    · rw [getD_range_map_add 1 (by omega), getD_range h2, e4 _ (by omega) _ (by omega), e2 _ (by omega)]
      have := hC (i - r1) (by omega) j h2
      rw [show r1 + (i - r1) = i by omega] at this
      simp [this, h2]
    · rw [getD_range_map_add 1 (by omega), getD_range_map_add 2 (by omega), e4 _ (by omega) _ (by omega)]
      simp only [show ¬ (j - c1 + 2 < 2) by omega, if_false, Nat.add_sub_cancel]
      rw [show r1 + (i - r1) = i by omega, show c1 + (j - c1) = j by omega]
      exact (hnorm i hi j hj).symm


/-- first component `[[A,a],[cᵀ,0],[cᵀ,ε]]` of a Y-sum -/
def yFirst (r1 c1 : Nat) (a c : Nat → Int) (eps : Int) (M : Mat) : Mat :=
  Mat.ofFn (r1 + 2) (c1 + 1) fun i j =>
    if i < r1 then (if j < c1 then ent M i j else a i)
    else (if j < c1 then c j else if i = r1 then 0 else eps)

/-- second component `[[ε,bᵀ],[0,bᵀ],[d,D]]` of a Y-sum -/
def ySecond (r1 c1 r2 c2 : Nat) (b d : Nat → Int) (eps : Int) (M : Mat) : Mat :=
  Mat.ofFn (r2 + 2) (c2 + 1) fun i j =>
    if i < 2 then (if j = 0 then (if i = 0 then eps else 0) else b (j - 1))
    else (if j = 0 then d (i - 2) else ent M (r1 + (i - 2)) (c1 + (j - 1)))

/-- **Y-sum round trip**: `M = [[A, a bᵀ],[d cᵀ, D]]`; special rows of `M1` last two, special column of `M1` last;
special rows of `M2` first two, special column of `M2` first. -/
theorem ysum_roundtrip (ch r1 c1 r2 c2 : Nat) (M : Mat) (hwf : M.wf (r1 + r2) (c1 + c2) = true)
    (hnorm : ∀ i, i < r1 + r2 → ∀ j, j < c1 + c2 → normChar ch (ent M i j) = ent M i j)
    (a b c d : Nat → Int) (eps : Int) (heps : normChar ch eps = 1 ∨ normChar ch eps = -1)
    (hB : ∀ i, i < r1 → ∀ j, j < c2 → ent M i (c1 + j) = normChar ch (a i * b j))
    (hC : ∀ k, k < r2 → ∀ j, j < c1 → ent M (r1 + k) j = normChar ch (d k * c j)) :
    composeY ch (r1 + 2) (c1 + 1) (yFirst r1 c1 a c eps M) (r2 + 2) (c2 + 1)
      (ySecond r1 c1 r2 c2 b d eps M) r1 (r1 + 1) c1 0 1 0 = .ok M := by
  have e1 : ∀ i, i < r1 → ∀ j, j < c1 + 1 → ent (yFirst r1 c1 a c eps M) i j = if j < c1 then ent M i j else a i := by
    intro i hi j hj; rw [yFirst, ent_ofFn _ (by omega) hj]; simp [hi]
  have e2 : ∀ j, j < c1 + 1 → ent (yFirst r1 c1 a c eps M) r1 j = if j < c1 then c j else 0 := by
    intro j hj; rw [yFirst, ent_ofFn _ (by omega) hj]; simp
  have e2' : ∀ j, j < c1 + 1 → ent (yFirst r1 c1 a c eps M) (r1 + 1) j = if j < c1 then c j else eps := by
    intro j hj; rw [yFirst, ent_ofFn _ (by omega) hj]; simp
  have e3 : ∀ j, j < c2 + 1 → ent (ySecond r1 c1 r2 c2 b d eps M) 0 j = if j = 0 then eps else b (j - 1) := by
    intro j hj; rw [ySecond, ent_ofFn _ (by omega) hj]; simp
  have e3' : ∀ j, j < c2 + 1 → ent (ySecond r1 c1 r2 c2 b d eps M) 1 j = if j = 0 then 0 else b (j - 1) := by
    intro j hj; rw [ySecond, ent_ofFn _ (by omega) hj]; simp
  have e4 : ∀ i, i < r2 → ∀ j, j < c2 + 1 → ent (ySecond r1 c1 r2 c2 b d eps M) (i + 2) j =
      if j = 0 then d i else ent M (r1 + i) (c1 + (j - 1)) := by
    intro i hi j hj; rw [ySecond, ent_ofFn _ (by omega) hj]; simp
  rw [composeY_eq_ok_iff]
  refine ⟨⟨⟨by omega, by omega, by omega, by omega, by omega, by omega, by omega, by omega⟩, ?_, ?_, ?_, ?_, ?_, ?_⟩, ?_⟩
  · rw [e2' _ (by omega)]; simpa using heps
  · rw [e2 _ (by omega)]; simp [normChar_zero]
  · intro j hj hne
    have hj' : j < c1 := by omega
    rw [e2 j hj, e2' j hj]; simp [hj']
  · rw [e3 _ (by omega), e2' _ (by omega)]; simp
  · rw [e3' _ (by omega)]; simp [normChar_zero]
  · intro j hj hne
    rw [e3 j hj, e3' j hj]; simp [hne]
  · unfold yResult composeRank1
    rw [eraseIdxs_range_last, eraseIdxs_range_last_two, eraseIdxs_range_first, eraseIdxs_range_first_two]
    simp only [List.length_range, List.length_map]
    apply mat_ext hwf (Cmr.blockMat_wf _ _ _ _ _ _ _ _)
    intro i hi j hj
    rw [Cmr.ent_blockMat _ _ _ _ _ _ _ _ hi hj]
    by_cases h1 : i < r1 <;> by_cases h2 : j < c1 <;> simp only [h1, h2, if_true, if_false]
    · rw [getD_range h1, getD_range h2, e1 i h1 j (by omega)]; simp [h2, hnorm i hi j hj]
    · rw [getD_range h1, getD_range_map_add 1 (by omega), e1 i h1 _ (by omega), e3 _ (by omega)]
      have := hB i h1 (j - c1) (by omega)
      rw [show c1 + (j - c1) = j by omega] at this
      simp [this]
    · rw [getD_range_map_add 2 (by omega), getD_range h2, e4 _ (by omega) _ (by omega), e2 _ (by omega)]
      have := hC (i - r1) (by omega) j h2
      rw [show r1 + (i - r1) = i by omega] at this
      simp [this, h2]
    · rw [getD_range_map_add 2 (by omega), getD_range_map_add 1 (by omega), e4 _ (by omega) _ (by omega)]
      simp only [Nat.add_eq_zero_iff, Nat.succ_ne_zero, and_false, if_false, Nat.add_sub_cancel]
      rw [show r1 + (i - r1) = i by omega, show c1 + (j - c1) = j by omega]
      exact (hnorm i hi j hj).symm


/-- entry of `[C_k C_l] · Q⁻¹ · [C_i; C_j]` over the field, `Q = [[q00,q01],[q10,q11]]`, `Q⁻¹ = det·adj Q` -/
def rank2Entry (ch : Nat) (q00 q01 q10 q11 colk coll rowi rowj : Int) : Int :=
  let det := normChar ch (q00 * q11 - q01 * q10)
  normChar ch (colk * (det * q11 * rowi + -(det * q01) * rowj) + coll * (-(det * q10) * rowi + det * q00 * rowj))

/-- first component `[[A,0],[C_i,α],[C_j,β]]` of a 3-sum (`C_i`, `C_j` = rows `ii`, `jj` of `C`) -/
def threeFirst (r1 c1 ii jj : Nat) (al be : Int) (M : Mat) : Mat :=
  Mat.ofFn (r1 + 2) (c1 + 1) fun i j =>
    if i < r1 then (if j < c1 then ent M i j else 0)
    else if i = r1 then (if j < c1 then ent M (r1 + ii) j else al)
    else (if j < c1 then ent M (r1 + jj) j else be)

/-- second component `[[γ,δ,0],[C_k,C_l,D]]` of a 3-sum (`C_k`, `C_l` = columns `kk`, `ll` of `C`) -/
def threeSecond (r1 c1 r2 c2 kk ll : Nat) (ga de : Int) (M : Mat) : Mat :=
  Mat.ofFn (r2 + 1) (c2 + 2) fun i j =>
    if i = 0 then (if j = 0 then ga else if j = 1 then de else 0)
    else (if j = 0 then ent M (r1 + (i - 1)) kk else if j = 1 then ent M (r1 + (i - 1)) ll
          else ent M (r1 + (i - 1)) (c1 + (j - 2)))

/-- **3-sum round trip**: `M = [[A,0],[C,D]]` with `C = [C_k C_l] Q⁻¹ [C_i; C_j]` for rows `ii ≠ jj` of `C`, columns
`kk ≠ ll` of `C`, `Q` the nonsingular 2×2 matrix at their intersection.  Special rows of `M1` last two, `(0;α;β)`
column of `M1` last; special row of `M2` first, special columns of `M2` first two. -/
theorem threesum_roundtrip (ch r1 c1 r2 c2 : Nat) (M : Mat) (hwf : M.wf (r1 + r2) (c1 + c2) = true)
    (hnorm : ∀ i, i < r1 + r2 → ∀ j, j < c1 + c2 → normChar ch (ent M i j) = ent M i j)
    (ii jj kk ll : Nat) (hii : ii < r2) (hjj : jj < r2) (hij : ii ≠ jj) (hkk : kk < c1) (hll : ll < c1) (hkl : kk ≠ ll)
    (al be ga de : Int) (tuCheck : Mat → Bool)
    (hal : normChar ch al = 1 ∨ normChar ch al = -1) (hbe : normChar ch be = 1 ∨ normChar ch be = -1)
    (hga : normChar ch ga = 1 ∨ normChar ch ga = -1) (hde : normChar ch de = 1 ∨ normChar ch de = -1)
    (hdet : normChar ch (ent M (r1 + ii) kk * ent M (r1 + jj) ll - ent M (r1 + ii) ll * ent M (r1 + jj) kk) ≠ 0)
    (hN : tuCheck [[normChar ch ga, normChar ch de, 0],
                   [ent M (r1 + ii) kk, ent M (r1 + ii) ll, normChar ch al],
                   [ent M (r1 + jj) kk, ent M (r1 + jj) ll, normChar ch be]] = true)
    (hB : ∀ i, i < r1 → ∀ j, j < c2 → ent M i (c1 + j) = 0)
    (hC : ∀ x, x < r2 → ∀ y, y < c1 → ent M (r1 + x) y =
      rank2Entry ch (ent M (r1 + ii) kk) (ent M (r1 + ii) ll) (ent M (r1 + jj) kk) (ent M (r1 + jj) ll)
        (ent M (r1 + x) kk) (ent M (r1 + x) ll) (ent M (r1 + ii) y) (ent M (r1 + jj) y)) :
    compose3 ch (r1 + 2) (c1 + 1) (threeFirst r1 c1 ii jj al be M) (r2 + 1) (c2 + 2)
      (threeSecond r1 c1 r2 c2 kk ll ga de M) r1 (r1 + 1) kk ll c1 0 (ii + 1) (jj + 1) 0 1 tuCheck = .ok M := by
  have e1 : ∀ i, i < r1 → ∀ j, j < c1 + 1 → ent (threeFirst r1 c1 ii jj al be M) i j = if j < c1 then ent M i j else 0 := by
    intro i hi j hj; rw [threeFirst, ent_ofFn _ (by omega) hj]; simp [hi]
  have e2 : ∀ j, j < c1 + 1 → ent (threeFirst r1 c1 ii jj al be M) r1 j = if j < c1 then ent M (r1 + ii) j else al := by
    intro j hj; rw [threeFirst, ent_ofFn _ (by omega) hj]; simp
  have e2' : ∀ j, j < c1 + 1 → ent (threeFirst r1 c1 ii jj al be M) (r1 + 1) j =
      if j < c1 then ent M (r1 + jj) j else be := by
    intro j hj; rw [threeFirst, ent_ofFn _ (by omega) hj]; simp
  have e3 : ∀ j, j < c2 + 2 → ent (threeSecond r1 c1 r2 c2 kk ll ga de M) 0 j =
      if j = 0 then ga else if j = 1 then de else 0 := by
    intro j hj; rw [threeSecond, ent_ofFn _ (by omega) hj]; simp
  have e4 : ∀ i, i < r2 → ∀ j, j < c2 + 2 → ent (threeSecond r1 c1 r2 c2 kk ll ga de M) (i + 1) j =
      if j = 0 then ent M (r1 + i) kk else if j = 1 then ent M (r1 + i) ll else ent M (r1 + i) (c1 + (j - 2)) := by
    intro i hi j hj; rw [threeSecond, ent_ofFn _ (by omega) hj]; simp
  have n1 : ∀ x, x < r2 → ∀ y, y < c1 → normChar ch (ent M (r1 + x) y) = ent M (r1 + x) y :=
    fun x hx y hy => hnorm _ (by omega) _ (by omega)
  have q00 : normChar ch (ent (threeFirst r1 c1 ii jj al be M) r1 kk) = ent M (r1 + ii) kk := by
    rw [e2 _ (by omega)]; simp [hkk, n1 ii hii kk hkk]
  have q01 : normChar ch (ent (threeFirst r1 c1 ii jj al be M) r1 ll) = ent M (r1 + ii) ll := by
    rw [e2 _ (by omega)]; simp [hll, n1 ii hii ll hll]
  have q10 : normChar ch (ent (threeFirst r1 c1 ii jj al be M) (r1 + 1) kk) = ent M (r1 + jj) kk := by
    rw [e2' _ (by omega)]; simp [hkk, n1 jj hjj kk hkk]
  have q11 : normChar ch (ent (threeFirst r1 c1 ii jj al be M) (r1 + 1) ll) = ent M (r1 + jj) ll := by
    rw [e2' _ (by omega)]; simp [hll, n1 jj hjj ll hll]
  have za : normChar ch (ent (threeFirst r1 c1 ii jj al be M) r1 c1) = normChar ch al := by
    rw [e2 _ (by omega)]; simp
  have zb : normChar ch (ent (threeFirst r1 c1 ii jj al be M) (r1 + 1) c1) = normChar ch be := by
    rw [e2' _ (by omega)]; simp
  have zg : normChar ch (ent (threeSecond r1 c1 r2 c2 kk ll ga de M) 0 0) = normChar ch ga := by
    rw [e3 _ (by omega)]; simp
  have zd : normChar ch (ent (threeSecond r1 c1 r2 c2 kk ll ga de M) 0 1) = normChar ch de := by
    rw [e3 _ (by omega)]; simp
  rw [compose3_eq_ok_iff]
  refine ⟨⟨⟨by omega, by omega, by omega, by omega, by omega, by omega, by omega, by omega, by omega, by omega, by omega,
    by omega, by omega, by omega, by omega, by omega, by omega, by omega⟩, ?_, ?_, ?_, ?_, ?_, ?_, ?_⟩, ?_⟩
  · rw [za, zb]; exact ⟨hal, hbe⟩
  · intro i hi hne1 hne2
    rw [e1 i (by omega) _ (by omega)]; simp [normChar_zero]
  · rw [zg, zd]; exact ⟨hga, hde⟩
  · intro j hj hne1 hne2
    rw [e3 j hj]; simp [hne1, hne2, normChar_zero]
  · rw [q00, q01, q10, q11, e4 _ hii _ (by omega), e4 _ hii _ (by omega), e4 _ hjj _ (by omega), e4 _ hjj _ (by omega)]
    simp [n1 ii hii kk hkk, n1 ii hii ll hll, n1 jj hjj kk hkk, n1 jj hjj ll hll]
  · rw [q00, q01, q10, q11]; exact hdet
  · rw [q00, q01, q10, q11, za, zb, zg, zd]; exact hN
  · unfold threeResult
    simp only []
    rw [q00, q01, q10, q11]
    rw [eraseIdxs_range_last, eraseIdxs_range_last_two, eraseIdxs_range_first, eraseIdxs_range_first_two]
    simp only [List.length_range, List.length_map]
    apply mat_ext hwf (Cmr.blockMat_wf _ _ _ _ _ _ _ _)
    intro i hi j hj
    rw [Cmr.ent_blockMat _ _ _ _ _ _ _ _ hi hj]
    by_cases h1 : i < r1 <;> by_cases h2 : j < c1 <;> simp only [h1, h2, if_true, if_false]
    · rw [getD_range h1, getD_range h2, e1 i h1 j (by omega)]; simp [h2, hnorm i hi j hj]
    · have := hB i h1 (j - c1) (by omega)
      rwa [show c1 + (j - c1) = j by omega] at this
    · rw [getD_range_map_add 1 (by omega), getD_range h2, e4 _ (by omega) _ (by omega), e4 _ (by omega) _ (by omega),
        e2 _ (by omega), e2' _ (by omega)]
      have := hC (i - r1) (by omega) j h2
      rw [show r1 + (i - r1) = i by omega] at this
      rw [this]
      simp [rank2Entry, h2, show r1 + (i - r1) = i by omega]
    · rw [getD_range_map_add 1 (by omega), getD_range_map_add 2 (by omega), e4 _ (by omega) _ (by omega)]
      simp only [show ¬ (j - c1 + 2 = 0) by omega, show ¬ (j - c1 + 2 = 1) by omega, if_false, Nat.add_sub_cancel]
      rw [show r1 + (i - r1) = i by omega, show c1 + (j - c1) = j by omega]
      exact (hnorm i hi j hj).symm

/-! ## 4. 1-sums of totally unimodular matrices -/

/-- **1-sum of two matrices**: the block-diagonal matrix is TU iff both blocks are. -/
theorem compose1_TU (m1 n1 m2 n2 : Nat) (A B : Mat) :
    isTU (m1 + m2) (n1 + n2) (blockMat m1 n1 m2 n2 (fun i j => ent A i j) (fun _ _ => 0) (fun _ _ => 0)
      (fun i j => ent B i j)) = true ↔ isTU m1 n1 A = true ∧ isTU m2 n2 B = true :=
  isTU_blockDiag m1 n1 m2 n2 A B

theorem compose1_wf (l : List (Nat × Nat × Mat)) :
    (compose1 l).2.2.wf (compose1 l).1 (compose1 l).2.1 = true := by
  cases l with
  | nil => rfl
  | cons x rest =>
    obtain ⟨m, n, A⟩ := x
    simp only [compose1]
    exact Cmr.blockMat_wf _ _ _ _ _ _ _ _

/-- **1-sum of any number of matrices** (`compose1` itself): the result is TU iff every summand is. -/
theorem compose1_TU_list (l : List (Nat × Nat × Mat)) :
    isTU (compose1 l).1 (compose1 l).2.1 (compose1 l).2.2 = true ↔ ∀ x ∈ l, isTU x.1 x.2.1 x.2.2 = true := by
  induction l with
  | nil => simp [compose1]; decide
  | cons x rest ih =>
    obtain ⟨m, n, A⟩ := x
    simp only [compose1, List.mem_cons, forall_eq_or_imp]
    rw [← ih]
    exact isTU_blockDiag m n _ _ A _

/-! ## 5. Components of a totally unimodular 2-sum are totally unimodular -/

theorem twosum_first_TU (r1 c1 r2 c2 : Nat) (M : Mat) (hTU : isTU (r1 + r2) (c1 + c2) M = true)
    (i0 : Nat) (hi0 : i0 < r2) : isTU (r1 + 1) c1 (twoSumFirst r1 c1 i0 M) = true := by
  have h := isTU_sub M hTU (List.range r1 ++ [r1 + i0]) (List.range c1)
    (by intro x hx; simp at hx; omega) (by intro x hx; simp at hx; omega)
  simp only [List.length_append, List.length_range, List.length_singleton] at h
  rw [← h]
  apply isTU_congr
  intro i hi j hj
  rw [twoSumFirst, ent_ofFn _ hi hj, ent_sub _ _ _ (by simp; omega) (by simpa using hj)]
  by_cases h1 : i < r1
  · simp [h1, List.getElem_append_left]
  · have : i = r1 := by omega
    subst this
    simp [List.getElem_append_right]

/-- `[d D]` is TU when `d` is, up to a sign, a column of the (TU) matrix `M`. -/
theorem twosum_second_TU_of_col (r1 c1 r2 c2 : Nat) (M : Mat) (hTU : isTU (r1 + r2) (c1 + c2) M = true)
    (d : Nat → Int) (j0 : Nat) (hj0 : j0 < c1) (s : Int) (hs : s = 1 ∨ s = -1)
    (hd : ∀ k, k < r2 → d k = s * ent M (r1 + k) j0) :
    isTU r2 (c2 + 1) (twoSumSecond r1 c1 r2 c2 d M) = true := by
  have h := isTU_sub M hTU ((List.range r2).map (r1 + ·)) (j0 :: (List.range c2).map (c1 + ·))
    (by intro x hx; simp at hx; omega) (by intro x hx; simp at hx; omega)
  simp only [List.length_map, List.length_range, List.length_cons] at h
  rw [← h]
  apply isTU_of_scaledCols _ _ (fun j => if j = 0 then s else 1)
  · intro j _; by_cases hj : j = 0 <;> simp [hj, hs]
  · intro i hi j hj
    rw [twoSumSecond, ent_ofFn _ hi hj, ent_sub _ _ _ (by simpa using hi) (by simpa using hj)]
    by_cases h0 : j = 0
    · subst h0; simp [hd i hi]
    · obtain ⟨j', rfl⟩ : ∃ j', j = j' + 1 := ⟨j - 1, by omega⟩
      simp

/-- **Second component of a TU 2-sum** `[[A,0],[d cᵀ,D]]` (`cᵀ` = the nonzero representative row `r1+i0`, `d` over the
field's representatives): `[d D]` is TU. -/
theorem twosum_second_TU (ch : Nat) (hch : ch = 2 ∨ ch = 3) (r1 c1 r2 c2 : Nat) (M : Mat)
    (hTU : isTU (r1 + r2) (c1 + c2) M = true) (i0 : Nat) (hi0 : i0 < r2) (d : Nat → Int)
    (hdn : ∀ k, k < r2 → normChar ch (d k) = d k)
    (hC : ∀ k, k < r2 → ∀ j, j < c1 → ent M (r1 + k) j = normChar ch (d k * ent M (r1 + i0) j))
    (hnz : ∃ j0, j0 < c1 ∧ ent M (r1 + i0) j0 ≠ 0) :
    isTU r2 (c2 + 1) (twoSumSecond r1 c1 r2 c2 d M) = true := by
  obtain ⟨j0, hj0, hne⟩ := hnz
  have he := (isTernaryEntry_iff _).mp (isTU_entry M hTU (show r1 + i0 < r1 + r2 by omega) (show j0 < c1 + c2 by omega))
  have he' : ent M (r1 + i0) j0 = 1 ∨ ent M (r1 + i0) j0 = -1 := by
    rcases he with h | h | h
    · exact absurd h hne
    · exact Or.inl h
    · exact Or.inr h
  rcases hch with rfl | rfl
  · -- characteristic 2: `d` is the column itself
    apply twosum_second_TU_of_col r1 c1 r2 c2 M hTU d j0 hj0 1 (Or.inl rfl)
    intro k hk
    have h1 := hC k hk j0 hj0
    have h2 := hdn k hk
    have h3 := normChar_binary (d k)
    rw [h2] at h3
    rw [h1, one_mul]
    rcases h3 with e | e <;> rcases he' with e' | e' <;> rw [e, e'] <;> decide
  · -- characteristic 3: `d` is the column times the sign of the representative entry
    apply twosum_second_TU_of_col r1 c1 r2 c2 M hTU d j0 hj0 (ent M (r1 + i0) j0) he'
    intro k hk
    have h1 := hC k hk j0 hj0
    have h2 := hdn k hk
    have h3 := normChar_ternary (d k)
    rw [h2] at h3
    rw [h1]
    rcases h3 with e | e | e <;> rcases he' with e' | e' <;> rw [e, e'] <;> decide

/-! ## 6. 2-sums of totally unimodular components are totally unimodular -/

/-- **2-sum in standard position** (`C = d cᵀ` exactly, e.g. no reduction happened): if `[A; cᵀ]` and `[d D]` are TU
then so is `M = [[A,0],[d cᵀ,D]]`. -/
theorem twosum_TU_exact (r1 c1 r2 c2 : Nat) (M : Mat) (i0 : Nat) (d : Nat → Int)
    (hB : ∀ i, i < r1 → ∀ j, j < c2 → ent M i (c1 + j) = 0)
    (hC : ∀ k, k < r2 → ∀ j, j < c1 → ent M (r1 + k) j = d k * ent M (r1 + i0) j)
    (h1 : isTU (r1 + 1) c1 (twoSumFirst r1 c1 i0 M) = true)
    (h2 : isTU r2 (c2 + 1) (twoSumSecond r1 c1 r2 c2 d M) = true) :
    isTU (r1 + r2) (c1 + c2) M = true := by
  have key := isTU_blockMat_twoSum r1 c1 r2 c2 (fun i j => ent M i j) (fun i j => ent M (r1 + i) (c1 + j))
    (fun j => ent M (r1 + i0) j) d h1 h2
  rw [← key]
  apply isTU_congr
  intro i hi j hj
  rw [Cmr.ent_blockMat _ _ _ _ _ _ _ _ hi hj]
  by_cases h1 : i < r1 <;> by_cases h2 : j < c1 <;> simp only [h1, h2, if_true, if_false]
  · have := hB i h1 (j - c1) (by omega)
    rwa [show c1 + (j - c1) = j by omega] at this
  · have := hC (i - r1) (by omega) j h2
    rwa [show r1 + (i - r1) = i by omega] at this
  · rw [show r1 + (i - r1) = i by omega, show c1 + (j - c1) = j by omega]

theorem normChar_three_of_ternary {x : Int} (h : x = 0 ∨ x = 1 ∨ x = -1) : normChar 3 x = x := by
  rcases h with rfl | rfl | rfl <;> decide

theorem normChar_two_of_binary {x : Int} (h : x = 0 ∨ x = 1) : normChar 2 x = x := by
  rcases h with rfl | rfl <;> decide

theorem ternary_mul {x y : Int} (hx : x = 0 ∨ x = 1 ∨ x = -1) (hy : y = 0 ∨ y = 1 ∨ y = -1) :
    x * y = 0 ∨ x * y = 1 ∨ x * y = -1 := by
  rcases hx with rfl | rfl | rfl <;> rcases hy with rfl | rfl | rfl <;> decide

theorem binary_mul {x y : Int} (hx : x = 0 ∨ x = 1) (hy : y = 0 ∨ y = 1) : x * y = 0 ∨ x * y = 1 := by
  rcases hx with rfl | rfl <;> rcases hy with rfl | rfl <;> decide

/-- **2-sum over GF(3)**, standard position: TU components give a TU sum. -/
theorem twosum_TU (r1 c1 r2 c2 : Nat) (M : Mat) (i0 : Nat) (d : Nat → Int)
    (hB : ∀ i, i < r1 → ∀ j, j < c2 → ent M i (c1 + j) = 0)
    (hC : ∀ k, k < r2 → ∀ j, j < c1 → ent M (r1 + k) j = normChar 3 (d k * ent M (r1 + i0) j))
    (h1 : isTU (r1 + 1) c1 (twoSumFirst r1 c1 i0 M) = true)
    (h2 : isTU r2 (c2 + 1) (twoSumSecond r1 c1 r2 c2 d M) = true) :
    isTU (r1 + r2) (c1 + c2) M = true := by
  apply twosum_TU_exact r1 c1 r2 c2 M i0 d hB _ h1 h2
  intro k hk j hj
  rw [hC k hk j hj]
  apply normChar_three_of_ternary
  apply ternary_mul
  · have := (isTernaryEntry_iff _).mp (isTU_entry _ h2 hk (show 0 < c2 + 1 by omega))
    rw [twoSumSecond, ent_ofFn _ hk (by omega)] at this
    simpa using this
  · have := (isTernaryEntry_iff _).mp (isTU_entry _ h1 (show r1 < r1 + 1 by omega) hj)
    rw [twoSumFirst, ent_ofFn _ (by omega) hj] at this
    simpa using this

/-- **2-sum over GF(2)**, standard position: TU components with 0/1 connecting vectors give a TU sum. -/
theorem twosum_TU_binary (r1 c1 r2 c2 : Nat) (M : Mat) (i0 : Nat) (d : Nat → Int)
    (hd : ∀ k, k < r2 → d k = 0 ∨ d k = 1) (hc : ∀ j, j < c1 → ent M (r1 + i0) j = 0 ∨ ent M (r1 + i0) j = 1)
    (hB : ∀ i, i < r1 → ∀ j, j < c2 → ent M i (c1 + j) = 0)
    (hC : ∀ k, k < r2 → ∀ j, j < c1 → ent M (r1 + k) j = normChar 2 (d k * ent M (r1 + i0) j))
    (h1 : isTU (r1 + 1) c1 (twoSumFirst r1 c1 i0 M) = true)
    (h2 : isTU r2 (c2 + 1) (twoSumSecond r1 c1 r2 c2 d M) = true) :
    isTU (r1 + r2) (c1 + c2) M = true := by
  apply twosum_TU_exact r1 c1 r2 c2 M i0 d hB _ h1 h2
  intro k hk j hj
  rw [hC k hk j hj]
  exact normChar_two_of_binary (binary_mul (hd k hk) (hc j hj))

/-- **The model's 2-sum of TU operands is TU**, for any position of the special row and column, provided no entry
is changed by the reduction (`hn1`, `hn2`, `hp`: automatic over GF(3), and over GF(2) for 0/1 operands — see below). -/
theorem compose2a_TU_of_exact {ch m1 n1 : Nat} {M1 : Mat} {m2 n2 : Nat} {M2 : Mat} {r c : Nat} {P : Mat}
    (h : compose2a ch m1 n1 M1 m2 n2 M2 r c = .ok P)
    (hn1 : ∀ i, i < m1 → ∀ j, j < n1 → normChar ch (ent M1 i j) = ent M1 i j)
    (hn2 : ∀ i, i < m2 → ∀ j, j < n2 → normChar ch (ent M2 i j) = ent M2 i j)
    (hp : ∀ i, i < m2 → ∀ j, j < n1 → normChar ch (ent M2 i c * ent M1 r j) = ent M2 i c * ent M1 r j)
    (hTU1 : isTU m1 n1 M1 = true) (hTU2 : isTU m2 n2 M2 = true) :
    isTU ((m1 - 1) + m2) (n1 + (n2 - 1)) P = true := by
  obtain ⟨⟨hr, hc⟩, rfl⟩ := (compose2a_eq_ok_iff _ _ _ _ _ _ _ _ _ _).mp h
  rw [← length_eraseIdxs_one hr, ← length_eraseIdxs_one hc]
  unfold sum2aResult
  set rows1 := eraseIdxs (List.range m1) [r] with hrows1
  set cols2 := eraseIdxs (List.range n2) [c] with hcols2
  have hrow : ∀ i, i < rows1.length → rows1.getD i 0 < m1 := fun i hi => (getD_eraseIdxs_range m1 [r] hi).1
  have hcol : ∀ j, j < cols2.length → cols2.getD j 0 < n2 := fun j hj => (getD_eraseIdxs_range n2 [c] hj).1
  -- the two operands as submatrices of `M1`, `M2`
  have k1 : isTU (rows1.length + 1) n1 (Mat.ofFn (rows1.length + 1) n1 fun i j =>
      if i < rows1.length then ent M1 (rows1.getD i 0) j else ent M1 r j) = true := by
    have hs := isTU_sub M1 hTU1 (rows1 ++ [r]) (List.range n1)
      (by intro x hx
          rcases List.mem_append.mp hx with hx | hx
          · exact ((mem_eraseIdxs_range m1 [r] x).mp hx).1
          · simp at hx; omega)
      (by intro x hx; simpa using hx)
    simp only [List.length_append, List.length_singleton, List.length_range] at hs
    rw [← hs]
    apply isTU_congr
    intro i hi j hj
    rw [ent_ofFn _ hi hj, ent_sub _ _ _ (by simp; omega) (by simpa using hj)]
    by_cases hlt : i < rows1.length
    · simp [hlt, List.getElem_append_left, List.getD_eq_getElem?_getD]
    · have : i = rows1.length := by omega
      subst this
      simp [List.getElem_append_right]
  have k2 : isTU m2 (cols2.length + 1) (Mat.ofFn m2 (cols2.length + 1) fun i j =>
      if j = 0 then ent M2 i c else ent M2 i (cols2.getD (j - 1) 0)) = true := by
    have hs := isTU_sub M2 hTU2 (List.range m2) (c :: cols2)
      (by intro x hx; simpa using hx)
      (by intro x hx
          rcases List.mem_cons.mp hx with hx | hx
          · omega
          · exact ((mem_eraseIdxs_range n2 [c] x).mp hx).1)
    simp only [List.length_cons, List.length_range] at hs
    rw [← hs]
    apply isTU_congr
    intro i hi j hj
    rw [ent_ofFn _ hi hj, ent_sub _ _ _ (by simpa using hi) (by simpa using hj)]
    by_cases h0 : j = 0
    · subst h0; simp
    · obtain ⟨j', rfl⟩ : ∃ j', j = j' + 1 := ⟨j - 1, by omega⟩
      have : j' < cols2.length := by omega
      simp [List.getD_eq_getElem?_getD, this]
  have key := isTU_blockMat_twoSum rows1.length n1 m2 cols2.length (fun i j => ent M1 (rows1.getD i 0) j)
    (fun i j => ent M2 i (cols2.getD j 0)) (fun j => ent M1 r j) (fun i => ent M2 i c) k1 k2
  rw [← key]
  apply isTU_congr
  intro i hi j hj
  rw [Cmr.ent_blockMat _ _ _ _ _ _ _ _ hi hj, Cmr.ent_blockMat _ _ _ _ _ _ _ _ hi hj]
  by_cases h1 : i < rows1.length <;> by_cases h2 : j < n1 <;> simp only [h1, h2, if_true, if_false]
  · exact hn1 _ (hrow i h1) j h2
  · exact hp _ (by omega) j h2
  · exact hn2 _ (by omega) _ (hcol _ (by omega))

/-- **Over GF(3), the 2-sum of TU matrices is TU.** -/
theorem compose2a_TU {m1 n1 : Nat} {M1 : Mat} {m2 n2 : Nat} {M2 : Mat} {r c : Nat} {P : Mat}
    (h : compose2a 3 m1 n1 M1 m2 n2 M2 r c = .ok P)
    (hTU1 : isTU m1 n1 M1 = true) (hTU2 : isTU m2 n2 M2 = true) :
    isTU ((m1 - 1) + m2) (n1 + (n2 - 1)) P = true := by
  obtain ⟨hr, hc⟩ := ((compose2a_eq_ok_iff _ _ _ _ _ _ _ _ _ _).mp h).1
  have t1 : ∀ i, i < m1 → ∀ j, j < n1 → ent M1 i j = 0 ∨ ent M1 i j = 1 ∨ ent M1 i j = -1 :=
    fun i hi j hj => (isTernaryEntry_iff _).mp (isTU_entry M1 hTU1 hi hj)
  have t2 : ∀ i, i < m2 → ∀ j, j < n2 → ent M2 i j = 0 ∨ ent M2 i j = 1 ∨ ent M2 i j = -1 :=
    fun i hi j hj => (isTernaryEntry_iff _).mp (isTU_entry M2 hTU2 hi hj)
  exact compose2a_TU_of_exact h (fun i hi j hj => normChar_three_of_ternary (t1 i hi j hj))
    (fun i hi j hj => normChar_three_of_ternary (t2 i hi j hj))
    (fun i hi j hj => normChar_three_of_ternary (ternary_mul (t2 i hi c hc) (t1 r hr j hj))) hTU1 hTU2

/-- **Over GF(2), the 2-sum of TU 0/1 matrices is TU.** -/
theorem compose2a_TU_binary {m1 n1 : Nat} {M1 : Mat} {m2 n2 : Nat} {M2 : Mat} {r c : Nat} {P : Mat}
    (h : compose2a 2 m1 n1 M1 m2 n2 M2 r c = .ok P)
    (hwf1 : M1.wf m1 n1 = true) (hb1 : isBinary M1 = true) (hwf2 : M2.wf m2 n2 = true) (hb2 : isBinary M2 = true)
    (hTU1 : isTU m1 n1 M1 = true) (hTU2 : isTU m2 n2 M2 = true) :
    isTU ((m1 - 1) + m2) (n1 + (n2 - 1)) P = true := by
  obtain ⟨hr, hc⟩ := ((compose2a_eq_ok_iff _ _ _ _ _ _ _ _ _ _).mp h).1
  exact compose2a_TU_of_exact h (fun i hi j hj => normChar_two_of_binary (ent_binary hwf1 hb1 hi hj))
    (fun i hi j hj => normChar_two_of_binary (ent_binary hwf2 hb2 hi hj))
    (fun i hi j hj => normChar_two_of_binary (binary_mul (ent_binary hwf2 hb2 hi hc) (ent_binary hwf1 hb1 hr hj)))
    hTU1 hTU2

/-! ### second variant `[[A, a bᵀ],[0, D]]`: components of a TU sum, and sums of TU components -/

theorem twosum_first_TU_b (r1 c1 r2 c2 : Nat) (M : Mat) (hTU : isTU (r1 + r2) (c1 + c2) M = true)
    (j0 : Nat) (hj0 : j0 < c2) : isTU r1 (c1 + 1) (twoSumFirstB r1 c1 j0 M) = true := by
  have h := isTU_sub M hTU (List.range r1) (List.range c1 ++ [c1 + j0])
    (by intro x hx; simp at hx; omega) (by intro x hx; simp at hx; omega)
  simp only [List.length_append, List.length_range, List.length_singleton] at h
  rw [← h]
  apply isTU_congr
  intro i hi j hj
  rw [twoSumFirstB, ent_ofFn _ hi hj, ent_sub _ _ _ (by simpa using hi) (by simp; omega)]
  by_cases h1 : j < c1
  · simp [h1, List.getElem_append_left]
  · have : j = c1 := by omega
    subst this
    simp [List.getElem_append_right]

/-- 2-sum, second variant, standard position, `B = a bᵀ` exactly. -/
theorem twosum_TU_b_exact (r1 c1 r2 c2 : Nat) (M : Mat) (j0 : Nat) (b : Nat → Int)
    (hC : ∀ i, i < r2 → ∀ j, j < c1 → ent M (r1 + i) j = 0)
    (hB : ∀ i, i < r1 → ∀ j, j < c2 → ent M i (c1 + j) = ent M i (c1 + j0) * b j)
    (h1 : isTU r1 (c1 + 1) (twoSumFirstB r1 c1 j0 M) = true)
    (h2 : isTU (r2 + 1) c2 (twoSumSecondB r1 c1 r2 c2 b M) = true) :
    isTU (r1 + r2) (c1 + c2) M = true := by
  have key := isTU_blockMat_twoSum' r1 c1 r2 c2 (fun i j => ent M i j) (fun i j => ent M (r1 + i) (c1 + j))
    (fun i => ent M i (c1 + j0)) b h1 h2
  rw [← key]
  apply isTU_congr
  intro i hi j hj
  rw [Cmr.ent_blockMat _ _ _ _ _ _ _ _ hi hj]
  by_cases h1 : i < r1 <;> by_cases h2 : j < c1 <;> simp only [h1, h2, if_true, if_false]
  · have := hB i h1 (j - c1) (by omega)
    rwa [show c1 + (j - c1) = j by omega] at this
  · have := hC (i - r1) (by omega) j h2
    rwa [show r1 + (i - r1) = i by omega] at this
  · rw [show r1 + (i - r1) = i by omega, show c1 + (j - c1) = j by omega]

theorem compose2b_TU_of_exact {ch m1 n1 : Nat} {M1 : Mat} {m2 n2 : Nat} {M2 : Mat} {c r : Nat} {P : Mat}
    (h : compose2b ch m1 n1 M1 m2 n2 M2 c r = .ok P)
    (hn1 : ∀ i, i < m1 → ∀ j, j < n1 → normChar ch (ent M1 i j) = ent M1 i j)
    (hn2 : ∀ i, i < m2 → ∀ j, j < n2 → normChar ch (ent M2 i j) = ent M2 i j)
    (hp : ∀ i, i < m1 → ∀ j, j < n2 → normChar ch (ent M1 i c * ent M2 r j) = ent M1 i c * ent M2 r j)
    (hTU1 : isTU m1 n1 M1 = true) (hTU2 : isTU m2 n2 M2 = true) :
    isTU (m1 + (m2 - 1)) ((n1 - 1) + n2) P = true := by
  obtain ⟨⟨hc, hr⟩, rfl⟩ := (compose2b_eq_ok_iff _ _ _ _ _ _ _ _ _ _).mp h
  rw [← length_eraseIdxs_one hr, ← length_eraseIdxs_one hc]
  unfold sum2bResult
  set cols1 := eraseIdxs (List.range n1) [c] with hcols1
  set rows2 := eraseIdxs (List.range m2) [r] with hrows2
  have hcol : ∀ j, j < cols1.length → cols1.getD j 0 < n1 := fun j hj => (getD_eraseIdxs_range n1 [c] hj).1
  have hrow : ∀ i, i < rows2.length → rows2.getD i 0 < m2 := fun i hi => (getD_eraseIdxs_range m2 [r] hi).1
  have k1 : isTU m1 (cols1.length + 1) (Mat.ofFn m1 (cols1.length + 1) fun i j =>
      if j < cols1.length then ent M1 i (cols1.getD j 0) else ent M1 i c) = true := by
    have hs := isTU_sub M1 hTU1 (List.range m1) (cols1 ++ [c])
      (by intro x hx; simpa using hx)
      (by intro x hx
          rcases List.mem_append.mp hx with hx | hx
          · exact ((mem_eraseIdxs_range n1 [c] x).mp hx).1
          · simp at hx; omega)
    simp only [List.length_append, List.length_singleton, List.length_range] at hs
    rw [← hs]
    apply isTU_congr
    intro i hi j hj
    rw [ent_ofFn _ hi hj, ent_sub _ _ _ (by simpa using hi) (by simp; omega)]
    by_cases hlt : j < cols1.length
    · simp [hlt, List.getElem_append_left, List.getD_eq_getElem?_getD]
    · have : j = cols1.length := by omega
      subst this
      simp [List.getElem_append_right]
  have k2 : isTU (rows2.length + 1) n2 (Mat.ofFn (rows2.length + 1) n2 fun i j =>
      if i = 0 then ent M2 r j else ent M2 (rows2.getD (i - 1) 0) j) = true := by
    have hs := isTU_sub M2 hTU2 (r :: rows2) (List.range n2)
      (by intro x hx
          rcases List.mem_cons.mp hx with hx | hx
          · omega
          · exact ((mem_eraseIdxs_range m2 [r] x).mp hx).1)
      (by intro x hx; simpa using hx)
    simp only [List.length_cons, List.length_range] at hs
    rw [← hs]
    apply isTU_congr
    intro i hi j hj
    rw [ent_ofFn _ hi hj, ent_sub _ _ _ (by simpa using hi) (by simpa using hj)]
    by_cases h0 : i = 0
    · subst h0; simp
    · obtain ⟨i', rfl⟩ : ∃ i', i = i' + 1 := ⟨i - 1, by omega⟩
      have : i' < rows2.length := by omega
      simp [List.getD_eq_getElem?_getD, this]
  have key := isTU_blockMat_twoSum' m1 cols1.length rows2.length n2 (fun i j => ent M1 i (cols1.getD j 0))
    (fun i j => ent M2 (rows2.getD i 0) j) (fun i => ent M1 i c) (fun j => ent M2 r j) k1 k2
  rw [← key]
  apply isTU_congr
  intro i hi j hj
  rw [Cmr.ent_blockMat _ _ _ _ _ _ _ _ hi hj, Cmr.ent_blockMat _ _ _ _ _ _ _ _ hi hj]
  by_cases h1 : i < m1 <;> by_cases h2 : j < cols1.length <;> simp only [h1, h2, if_true, if_false]
  · exact hn1 _ h1 _ (hcol j h2)
  · exact hp _ h1 _ (by omega)
  · exact hn2 _ (hrow _ (by omega)) _ (by omega)

/-- **Over GF(3), the 2-sum (second variant) of TU matrices is TU.** -/
theorem compose2b_TU {m1 n1 : Nat} {M1 : Mat} {m2 n2 : Nat} {M2 : Mat} {c r : Nat} {P : Mat}
    (h : compose2b 3 m1 n1 M1 m2 n2 M2 c r = .ok P)
    (hTU1 : isTU m1 n1 M1 = true) (hTU2 : isTU m2 n2 M2 = true) :
    isTU (m1 + (m2 - 1)) ((n1 - 1) + n2) P = true := by
  obtain ⟨hc, hr⟩ := ((compose2b_eq_ok_iff _ _ _ _ _ _ _ _ _ _).mp h).1
  have t1 : ∀ i, i < m1 → ∀ j, j < n1 → ent M1 i j = 0 ∨ ent M1 i j = 1 ∨ ent M1 i j = -1 :=
    fun i hi j hj => (isTernaryEntry_iff _).mp (isTU_entry M1 hTU1 hi hj)
  have t2 : ∀ i, i < m2 → ∀ j, j < n2 → ent M2 i j = 0 ∨ ent M2 i j = 1 ∨ ent M2 i j = -1 :=
    fun i hi j hj => (isTernaryEntry_iff _).mp (isTU_entry M2 hTU2 hi hj)
  exact compose2b_TU_of_exact h (fun i hi j hj => normChar_three_of_ternary (t1 i hi j hj))
    (fun i hi j hj => normChar_three_of_ternary (t2 i hi j hj))
    (fun i hi j hj => normChar_three_of_ternary (ternary_mul (t1 i hi c hc) (t2 r hr j hj))) hTU1 hTU2

/-- **Over GF(2), the 2-sum (second variant) of TU 0/1 matrices is TU.** -/
theorem compose2b_TU_binary {m1 n1 : Nat} {M1 : Mat} {m2 n2 : Nat} {M2 : Mat} {c r : Nat} {P : Mat}
    (h : compose2b 2 m1 n1 M1 m2 n2 M2 c r = .ok P)
    (hwf1 : M1.wf m1 n1 = true) (hb1 : isBinary M1 = true) (hwf2 : M2.wf m2 n2 = true) (hb2 : isBinary M2 = true)
    (hTU1 : isTU m1 n1 M1 = true) (hTU2 : isTU m2 n2 M2 = true) :
    isTU (m1 + (m2 - 1)) ((n1 - 1) + n2) P = true := by
  obtain ⟨hc, hr⟩ := ((compose2b_eq_ok_iff _ _ _ _ _ _ _ _ _ _).mp h).1
  exact compose2b_TU_of_exact h (fun i hi j hj => normChar_two_of_binary (ent_binary hwf1 hb1 hi hj))
    (fun i hi j hj => normChar_two_of_binary (ent_binary hwf2 hb2 hi hj))
    (fun i hi j hj => normChar_two_of_binary (binary_mul (ent_binary hwf1 hb1 hi hc) (ent_binary hwf2 hb2 hr hj)))
    hTU1 hTU2

/-- `[bᵀ; D]` is TU when `bᵀ` is, up to a sign, a row of the (TU) matrix `M`. -/
theorem twosum_second_TU_b_of_row (r1 c1 r2 c2 : Nat) (M : Mat) (hTU : isTU (r1 + r2) (c1 + c2) M = true)
    (b : Nat → Int) (i0 : Nat) (hi0 : i0 < r1) (s : Int) (hs : s = 1 ∨ s = -1)
    (hb : ∀ j, j < c2 → b j = s * ent M i0 (c1 + j)) :
    isTU (r2 + 1) c2 (twoSumSecondB r1 c1 r2 c2 b M) = true := by
  have h := isTU_sub M hTU (i0 :: (List.range r2).map (r1 + ·)) ((List.range c2).map (c1 + ·))
    (by intro x hx; simp at hx; omega) (by intro x hx; simp at hx; omega)
  simp only [List.length_map, List.length_range, List.length_cons] at h
  rw [← h]
  apply isTU_of_scaledRows _ _ (fun i => if i = 0 then s else 1)
  · intro i _; by_cases hi : i = 0 <;> simp [hi, hs]
  · intro i hi j hj
    rw [twoSumSecondB, ent_ofFn _ hi hj, ent_sub _ _ _ (by simpa using hi) (by simpa using hj)]
    by_cases h0 : i = 0
    · subst h0; simp [hb j hj]
    · obtain ⟨i', rfl⟩ : ∃ i', i = i' + 1 := ⟨i - 1, by omega⟩
      simp

/-- **Second component of a TU 2-sum, second variant** `[[A,a bᵀ],[0,D]]` (`a` = the nonzero representative column
`c1+j0`, `b` over the field's representatives): `[bᵀ; D]` is TU. -/
theorem twosum_second_TU_b (ch : Nat) (hch : ch = 2 ∨ ch = 3) (r1 c1 r2 c2 : Nat) (M : Mat)
    (hTU : isTU (r1 + r2) (c1 + c2) M = true) (j0 : Nat) (hj0 : j0 < c2) (b : Nat → Int)
    (hbn : ∀ j, j < c2 → normChar ch (b j) = b j)
    (hB : ∀ i, i < r1 → ∀ j, j < c2 → ent M i (c1 + j) = normChar ch (ent M i (c1 + j0) * b j))
    (hnz : ∃ i0, i0 < r1 ∧ ent M i0 (c1 + j0) ≠ 0) :
    isTU (r2 + 1) c2 (twoSumSecondB r1 c1 r2 c2 b M) = true := by
  obtain ⟨i0, hi0, hne⟩ := hnz
  have he := (isTernaryEntry_iff _).mp (isTU_entry M hTU (show i0 < r1 + r2 by omega) (show c1 + j0 < c1 + c2 by omega))
  have he' : ent M i0 (c1 + j0) = 1 ∨ ent M i0 (c1 + j0) = -1 := by
    rcases he with h | h | h
    · exact absurd h hne
    · exact Or.inl h
    · exact Or.inr h
  rcases hch with rfl | rfl
  · apply twosum_second_TU_b_of_row r1 c1 r2 c2 M hTU b i0 hi0 1 (Or.inl rfl)
    intro j hj
    have h1 := hB i0 hi0 j hj
    have h2 := hbn j hj
    have h3 := normChar_binary (b j)
    rw [h2] at h3
    rw [h1, one_mul]
    rcases h3 with e | e <;> rcases he' with e' | e' <;> rw [e, e'] <;> decide
  · apply twosum_second_TU_b_of_row r1 c1 r2 c2 M hTU b i0 hi0 (ent M i0 (c1 + j0)) he'
    intro j hj
    have h1 := hB i0 hi0 j hj
    have h2 := hbn j hj
    have h3 := normChar_ternary (b j)
    rw [h2] at h3
    rw [h1]
    rcases h3 with e | e | e <;> rcases he' with e' | e' <;> rw [e, e'] <;> decide

/-
  NOT proved here (open): total unimodularity of Δ-sums, Y-sums and 3-sums of TU components, and of the components
  `deltaFirst/deltaSecond`, `yFirst/ySecond`, `threeFirst/threeSecond` of a TU matrix.  These are not submatrix
  statements (the components contain the extra entry `ε`, resp. `α, β, γ, δ`, whose admissible value depends on the
  matrix), and the sums need the full 3-sum theory.  For 1-sums and for both variants of the 2-sum, both directions
  (components of a TU sum are TU; sums of TU components are TU) are proved above.
-/

/-! ## 7. Non-vacuity and worked instances -/

/-- `x` is `.ok M` (Boolean, so that `decide` evaluates it) -/
def okEq (x : Except String Mat) (M : Mat) : Bool := match x with | .ok P => P == M | .error _ => false
/-- `x` is an error -/
def isErr (x : Except String Mat) : Bool := match x with | .ok _ => false | .error _ => true

theorem okEq_iff (x : Except String Mat) (M : Mat) : okEq x M = true ↔ x = .ok M := by
  cases x <;> simp [okEq]

/-- 2-sums: an accepted instance of each variant, and a rejected one (special row out of range). -/
example :
    okEq (compose2a 3 3 2 [[1,0],[0,1],[1,-1]] 2 2 [[1,1],[-1,0]] 2 0) [[1,0,0],[0,1,0],[1,-1,1],[-1,1,0]] = true ∧
    okEq (compose2b 3 2 3 [[1,0,1],[1,1,-1]] 3 2 [[1,-1],[1,0],[0,1]] 2 0) [[1,0,1,-1],[1,1,-1,1],[0,0,1,0],[0,0,0,1]] = true ∧
    isErr (compose2a 3 3 2 [[1,0],[0,1],[1,-1]] 2 2 [[1,1],[-1,0]] 3 0) = true ∧
    isErr (compose2b 3 2 3 [[1,0,1],[1,1,-1]] 3 2 [[1,-1],[1,0],[0,1]] 3 0) = true := by decide

/-- Δ-sum: accepted instance, and a rejected one (the zero entry of the first operand is violated). -/
example :
    okEq (composeDelta 3 3 4 [[1,0,1,1],[1,1,1,1],[0,1,0,1]] 3 4 [[1,0,1,1],[1,1,1,0],[-1,-1,0,1]] 2 2 3 0 0 1)
      [[1,0,1,1],[1,1,1,1],[0,1,1,0],[0,-1,0,1]] = true ∧
    isErr (composeDelta 3 3 4 [[1,0,1,1],[1,1,1,1],[0,1,1,1]] 3 4 [[1,0,1,1],[1,1,1,0],[-1,-1,0,1]] 2 2 3 0 0 1) = true := by
  decide

/-- Y-sum: accepted instance, and a rejected one (the two copies of `cᵀ` differ). -/
example :
    okEq (composeY 3 4 3 [[1,0,1],[1,1,1],[0,1,0],[0,1,-1]] 4 3 [[-1,1,1],[0,1,1],[1,1,0],[-1,0,1]] 2 3 2 0 1 0)
      [[1,0,1,1],[1,1,1,1],[0,1,1,0],[0,-1,0,1]] = true ∧
    isErr (composeY 3 4 3 [[1,0,1],[1,1,1],[0,1,0],[0,0,-1]] 4 3 [[-1,1,1],[0,1,1],[1,1,0],[-1,0,1]] 2 3 2 0 1 0) = true := by
  decide

/-- 3-sum: accepted instance, and a rejected one (`N = [[1,1,0],[1,0,1],[0,1,1]]` has determinant −2). -/
example :
    okEq (compose3 3 3 3 [[1,1,0],[1,0,1],[0,1,1]] 4 3 [[1,-1,0],[1,0,1],[0,1,1],[1,1,0]] 1 2 0 1 2 0 1 2 0 1
      (fun N => isTU 3 3 N)) [[1,1,0],[1,0,1],[0,1,1],[1,1,0]] = true ∧
    isErr (compose3 3 3 3 [[1,1,0],[1,0,1],[0,1,1]] 4 3 [[1,1,0],[1,0,1],[0,1,1],[1,1,0]] 1 2 0 1 2 0 1 2 0 1
      (fun N => isTU 3 3 N)) = true := by
  decide

/-- The hypotheses of the round-trip theorems are satisfiable: the 2-sum above, decomposed and recomposed. -/
example : let M : Mat := [[1,0,0],[0,1,0],[1,-1,1],[-1,1,0]]
    let d : Nat → Int := fun k => if k = 0 then 1 else -1
    M.wf (2 + 2) (2 + 1) = true ∧
    twoSumFirst 2 2 0 M = [[1,0],[0,1],[1,-1]] ∧ twoSumSecond 2 2 2 1 d M = [[1,1],[-1,0]] ∧
    okEq (compose2a 3 (2 + 1) 2 (twoSumFirst 2 2 0 M) 2 (1 + 1) (twoSumSecond 2 2 2 1 d M) 2 0) M = true ∧
    isTU (2 + 1) 2 (twoSumFirst 2 2 0 M) = true ∧ isTU 2 (1 + 1) (twoSumSecond 2 2 2 1 d M) = true ∧
    isTU (2 + 2) (2 + 1) M = true := by
  decide

/-- … and the Δ-sum, Y-sum and 3-sum instances above arise as decompose-then-compose round trips. -/
example : let M : Mat := [[1,0,1,1],[1,1,1,1],[0,1,1,0],[0,-1,0,1]]
    let a : Nat → Int := fun _ => 1
    let b : Nat → Int := fun _ => 1
    let c : Nat → Int := fun j => if j = 0 then 0 else 1
    let d : Nat → Int := fun k => if k = 0 then 1 else -1
    deltaFirst 2 2 a c 1 M = [[1,0,1,1],[1,1,1,1],[0,1,0,1]] ∧
    deltaSecond 2 2 2 2 b d 1 M = [[1,0,1,1],[1,1,1,0],[-1,-1,0,1]] ∧
    okEq (composeDelta 3 (2 + 1) (2 + 2) (deltaFirst 2 2 a c 1 M) (2 + 1) (2 + 2) (deltaSecond 2 2 2 2 b d 1 M)
      2 2 (2 + 1) 0 0 1) M = true ∧
    yFirst 2 2 a c (-1) M = [[1,0,1],[1,1,1],[0,1,0],[0,1,-1]] ∧
    ySecond 2 2 2 2 b d (-1) M = [[-1,1,1],[0,1,1],[1,1,0],[-1,0,1]] ∧
    okEq (composeY 3 (2 + 2) (2 + 1) (yFirst 2 2 a c (-1) M) (2 + 2) (2 + 1) (ySecond 2 2 2 2 b d (-1) M)
      2 (2 + 1) 2 0 1 0) M = true := by
  decide

example : let M : Mat := [[1,1,0],[1,0,1],[0,1,1],[1,1,0]]
    threeFirst 1 2 0 1 1 1 M = [[1,1,0],[1,0,1],[0,1,1]] ∧
    threeSecond 1 2 3 1 0 1 1 (-1) M = [[1,-1,0],[1,0,1],[0,1,1],[1,1,0]] ∧
    okEq (compose3 3 (1 + 2) (2 + 1) (threeFirst 1 2 0 1 1 1 M) (3 + 1) (1 + 2) (threeSecond 1 2 3 1 0 1 1 (-1) M)
      1 (1 + 1) 0 1 2 0 (0 + 1) (1 + 1) 0 1 (fun N => isTU 3 3 N)) M = true := by
  decide

/-- 1-sum: `compose1` of two matrices. -/
example : compose1 [(1, 2, [[1,-1]]), (2, 1, [[1],[1]])] = (3, 3, [[1,-1,0],[0,0,1],[0,0,1]]) := by decide

end Cmr.Props.C12
