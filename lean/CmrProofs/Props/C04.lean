/-
  Property C04 — the flags and leaf certificates of a decomposition tree are truthful.

  Model: `Cmr/Tree.lean` (`checkFlags nodes nd`, run by `checkTree` on every node after `checkRecompose`): stored
  graphs/cographs must reproduce the (transposed) matrix through `checkGraphCert` of `Cmr/Graph.lean`, R10 nodes must be
  row/column permutations of one of the two representation matrices `r10a`, `r10b`, stored determinant minors must have
  |det| ≥ 2, a positive regularity/graphicness/cographicness flag of an inner node needs positive flags at all children,
  and on small nodes the flags are compared with the oracles `isTU` / `isRegular` / `isGraphic` / `isNetwork`.
  Tie: op `tree` — the harness dumps the whole `CMR_SEYMOUR_NODE` tree of a regularity/TU test; the model parses it
  (`parseNode`) into `List FNode` and runs `checkTree`; any `.error (tag, text)` is a finding.

  What is proved (all from `checkFlags nodes nd = .ok ()` and consistency of the node's CSR matrix, which `checkRecompose`
  enforces): `checkFlags_ok_iff` of `CmrProofs/Lemmas/TreeLemmas.lean` characterises acceptance completely
  (structure `FlagsOk`); below are its clauses in declarative form, combined with C02/C05/C06/F2:
  * `graph_cert_sound`, `cograph_cert_sound`, `graph_cert_declarative`, `cograph_cert_declarative`;
  * `minor_det`, `minor_refutes_TU`, `minor_refutes_TU_mathlib`;
  * `positive_flag_children`;
  * `small_flags_truthful`, `small_graphic_flags_truthful`, `small_cographic_flags_truthful`,
    `reg_positive_means_TU`, `reg_negative_means_not_TU`, `reg_positive_means_regular`;
  * `type_flags`, `r10_support`, `r10_ternary_TU`, `r10_regular`.
-/
import CmrProofs.Lemmas.TreeLemmas
import CmrProofs.Props.C02
import CmrProofs.Props.C05
import CmrProofs.Props.C06

set_option linter.unusedSimpArgs false
set_option linter.unusedVariables false

namespace Cmr.Props.C04
open Cmr Matrix

theorem toDense_wf (A : Csr) : A.toDense.wf A.numRows A.numCols = true := wf_ofFn _ _ _

/-- all clauses at once -/
theorem flags_ok {nodes : List FNode} {nd : FNode} (h : checkFlags nodes nd = .ok ())
    (hc : nd.matrix.consistent = true) : FlagsOk nodes nd := (checkFlags_ok_iff nodes nd).mp h hc

/-! ### 5. stored graphs -/

theorem graph_cert_sound {nodes : List FNode} {nd : FNode} {gd : GraphData} (h : checkFlags nodes nd = .ok ())
    (hc : nd.matrix.consistent = true) (hg : nd.graph = some gd) :
    checkGraphCert nd.matrix.numRows nd.matrix.numCols nd.matrix.toDense gd.g gd.forest gd.coforest nd.ternary = .ok () :=
  (flags_ok h hc).graph gd hg

theorem cograph_cert_sound {nodes : List FNode} {nd : FNode} {gd : GraphData} (h : checkFlags nodes nd = .ok ())
    (hc : nd.matrix.consistent = true) (hg : nd.cograph = some gd) :
    checkGraphCert nd.matrix.numCols nd.matrix.numRows
      (transpose nd.matrix.numRows nd.matrix.numCols nd.matrix.toDense) gd.g gd.forest gd.coforest nd.ternary = .ok () :=
  (flags_ok h hc).cograph gd hg

/-- The stored graph of an accepted node: forest and coforest list every edge exactly once, the forest is a spanning
forest, and the (signed, for ternary nodes) fundamental-cycle matrix is exactly the node's matrix. -/
theorem graph_cert_declarative {nodes : List FNode} {nd : FNode} {gd : GraphData} (h : checkFlags nodes nd = .ok ())
    (hc : nd.matrix.consistent = true) (hg : nd.graph = some gd) :
    gd.forest.length = nd.matrix.numRows ∧ gd.coforest.length = nd.matrix.numCols ∧
    (gd.forest ++ gd.coforest).Nodup ∧ (∀ e ∈ gd.g.edges, e.id ∈ gd.forest ++ gd.coforest) ∧
    (gd.forest ++ gd.coforest).length = gd.g.edges.length ∧
    ∃ T coT, gd.g.edgesOf gd.forest = some T ∧ gd.g.edgesOf gd.coforest = some coT ∧
      isSpanningForest gd.g T = true ∧ cycleMatrix T coT nd.ternary = some nd.matrix.toDense :=
  (checkGraphCert_ok_iff _ _ _ _ _ _ _).mp (graph_cert_sound h hc hg)

theorem cograph_cert_declarative {nodes : List FNode} {nd : FNode} {gd : GraphData} (h : checkFlags nodes nd = .ok ())
    (hc : nd.matrix.consistent = true) (hg : nd.cograph = some gd) :
    gd.forest.length = nd.matrix.numCols ∧ gd.coforest.length = nd.matrix.numRows ∧
    (gd.forest ++ gd.coforest).Nodup ∧ (∀ e ∈ gd.g.edges, e.id ∈ gd.forest ++ gd.coforest) ∧
    (gd.forest ++ gd.coforest).length = gd.g.edges.length ∧
    ∃ T coT, gd.g.edgesOf gd.forest = some T ∧ gd.g.edgesOf gd.coforest = some coT ∧
      isSpanningForest gd.g T = true ∧
      cycleMatrix T coT nd.ternary = some (transpose nd.matrix.numRows nd.matrix.numCols nd.matrix.toDense) :=
  (checkGraphCert_ok_iff _ _ _ _ _ _ _).mp (cograph_cert_sound h hc hg)

/-- binary node with stored graph: `M = M(G,T)` entry for entry (C05) -/
theorem graph_entries_binary {nodes : List FNode} {nd : FNode} {gd : GraphData} (h : checkFlags nodes nd = .ok ())
    (hc : nd.matrix.consistent = true) (hg : nd.graph = some gd) (hb : nd.ternary = false) :
    ∃ T coT, gd.g.edgesOf gd.forest = some T ∧ gd.g.edgesOf gd.coforest = some coT ∧
      T.length = nd.matrix.numRows ∧ coT.length = nd.matrix.numCols ∧
      isSpanningForest gd.g T = true ∧ isForest gd.g T = true ∧
      nd.matrix.toDense.wf nd.matrix.numRows nd.matrix.numCols = true ∧
      ∀ j (hj : j < coT.length), ∃ p, IsWalk T (coT[j]).tail (coT[j]).head p ∧ (p.map Prod.fst).Nodup ∧
        ∀ i, i < nd.matrix.numRows → ent nd.matrix.toDense i j = if i ∈ p.map Prod.fst then 1 else 0 := by
  have := graph_cert_sound h hc hg
  rw [hb] at this
  exact C05.cert_entries this

/-! ### 6. determinant minors -/

theorem minor_det {nodes : List FNode} {nd : FNode} {mn : MinorData} {rsI csI : List Int}
    (h : checkFlags nodes nd = .ok ()) (hc : nd.matrix.consistent = true) (hm : mn ∈ nd.minors) (ht : mn.type = -2)
    (hs : mn.sub = some (rsI, csI)) :
    (decodeIdx rsI).length = rsI.length ∧ (decodeIdx csI).length = csI.length ∧
    (decodeIdx rsI).length = (decodeIdx csI).length ∧
    (∀ x ∈ decodeIdx rsI, x < nd.matrix.numRows) ∧ (∀ x ∈ decodeIdx csI, x < nd.matrix.numCols) ∧
    (decodeIdx rsI).Nodup ∧ (decodeIdx csI).Nodup ∧
    ((decodeIdx rsI).length ≤ 8 →
      2 ≤ detL (decodeIdx rsI).length (sub nd.matrix.toDense (decodeIdx rsI) (decodeIdx csI)) ∨
      detL (decodeIdx rsI).length (sub nd.matrix.toDense (decodeIdx rsI) (decodeIdx csI)) ≤ -2) := by
  obtain ⟨rsI', csI', hs', rest⟩ := (flags_ok h hc).minors mn hm ht
  rw [hs] at hs'
  cases hs'
  exact rest

/-- a determinant minor without stored submatrix is rejected -/
theorem minor_has_sub {nodes : List FNode} {nd : FNode} {mn : MinorData}
    (h : checkFlags nodes nd = .ok ()) (hc : nd.matrix.consistent = true) (hm : mn ∈ nd.minors) (ht : mn.type = -2) :
    ∃ rsI csI, mn.sub = some (rsI, csI) := by
  obtain ⟨rsI, csI, hs, _⟩ := (flags_ok h hc).minors mn hm ht
  exact ⟨rsI, csI, hs⟩

/-- An accepted determinant minor with at most 8 rows refutes total unimodularity of the node's matrix. -/
theorem minor_refutes_TU {nodes : List FNode} {nd : FNode} {mn : MinorData} {rsI csI : List Int}
    (h : checkFlags nodes nd = .ok ()) (hc : nd.matrix.consistent = true) (hm : mn ∈ nd.minors) (ht : mn.type = -2)
    (hs : mn.sub = some (rsI, csI)) (h8 : (decodeIdx rsI).length ≤ 8) :
    isTU nd.matrix.numRows nd.matrix.numCols nd.matrix.toDense = false := by
  obtain ⟨_, _, hl, hr, hcs, hnr, hnc, hd⟩ := minor_det h hc hm ht hs
  cases hq : isTU nd.matrix.numRows nd.matrix.numCols nd.matrix.toDense with
  | false => rfl
  | true =>
    have := detOk_of_isTU nd.matrix.toDense hq (decodeIdx rsI) (decodeIdx csI) hl hr hcs hnr hnc
    simp only [detOk, Bool.or_eq_true, beq_iff_eq] at this
    have := hd h8
    omega

theorem minor_refutes_TU_mathlib {nodes : List FNode} {nd : FNode} {mn : MinorData} {rsI csI : List Int}
    (h : checkFlags nodes nd = .ok ()) (hc : nd.matrix.consistent = true) (hm : mn ∈ nd.minors) (ht : mn.type = -2)
    (hs : mn.sub = some (rsI, csI)) (h8 : (decodeIdx rsI).length ≤ 8) :
    ¬ (toMx nd.matrix.numRows nd.matrix.numCols nd.matrix.toDense).IsTotallyUnimodular := by
  intro hTU
  have := (isTU_iff _ _ _).mpr hTU
  rw [minor_refutes_TU h hc hm ht hs h8] at this
  cases this

/-! ### 7. propagation of positive flags -/

/-- A positive flag at an inner node (of the types for which the respective property is preserved) needs positive flags
at all children; for regularity, moreover, every child must exist in the node list. -/
theorem positive_flag_children {nodes : List FNode} {nd : FNode} (h : checkFlags nodes nd = .ok ())
    (hc : nd.matrix.consistent = true) :
    (nd.type ∈ innerReg → 0 < nd.reg →
      (∀ ci ∈ nd.children, ∃ k, findNode nodes ci.child = some k) ∧
      ∀ ci ∈ nd.children, ∀ k, findNode nodes ci.child = some k → 0 < k.reg) ∧
    (nd.type ∈ innerGra → 0 < nd.gra → ∀ ci ∈ nd.children, ∀ k, findNode nodes ci.child = some k → 0 < k.gra) ∧
    (nd.type ∈ innerCo → 0 < nd.cogra → ∀ ci ∈ nd.children, ∀ k, findNode nodes ci.child = some k → 0 < k.cogra) := by
  obtain ⟨p1, p2, p3⟩ := (flags_ok h hc).propagate
  refine ⟨?_, ?_, ?_⟩
  · intro ht hr
    obtain ⟨a, b⟩ := p1 ht hr
    exact ⟨flagKids_length_iff.mp b, fun ci hci k hk => a k (mem_flagKids.mpr ⟨ci, hci, hk⟩)⟩
  · intro ht hr ci hci k hk
    exact p2 ht hr k (mem_flagKids.mpr ⟨ci, hci, hk⟩)
  · intro ht hr ci hci k hk
    exact p3 ht hr k (mem_flagKids.mpr ⟨ci, hci, hk⟩)

/-- the lists of inner node types concerned -/
example : innerReg = [NodeType.pivots, NodeType.onesum, NodeType.twosum, NodeType.deltasum, NodeType.threesum,
    NodeType.ysum, NodeType.seriesParallel] ∧
  innerGra = [NodeType.pivots, NodeType.onesum, NodeType.twosum, NodeType.deltasum, NodeType.seriesParallel] ∧
  innerCo = [NodeType.pivots, NodeType.onesum, NodeType.twosum, NodeType.ysum, NodeType.seriesParallel] :=
  ⟨rfl, rfl, rfl⟩

/-! ### 8. flags of small nodes agree with the oracles -/

theorem small_flags_truthful {nodes : List FNode} {nd : FNode} (h : checkFlags nodes nd = .ok ())
    (hc : nd.matrix.consistent = true) (hm : nd.matrix.numRows ≤ 6) (hn : nd.matrix.numCols ≤ 6) :
    (0 < nd.reg → (if nd.ternary then isTU nd.matrix.numRows nd.matrix.numCols nd.matrix.toDense
        else isRegular nd.matrix.numCols nd.matrix.toDense) = true) ∧
    (nd.reg < 0 → (if nd.ternary then isTU nd.matrix.numRows nd.matrix.numCols nd.matrix.toDense
        else isRegular nd.matrix.numCols nd.matrix.toDense) = false) :=
  (flags_ok h hc).oracleReg hm hn

theorem small_graphic_flags_truthful {nodes : List FNode} {nd : FNode} (h : checkFlags nodes nd = .ok ())
    (hc : nd.matrix.consistent = true) (hm : nd.matrix.numRows ≤ 5) (hn : nd.matrix.numCols ≤ 7) :
    (0 < nd.gra → (if nd.ternary then isNetwork nd.matrix.numRows nd.matrix.numCols nd.matrix.toDense
        else isGraphic nd.matrix.numRows nd.matrix.numCols nd.matrix.toDense) = true) ∧
    (nd.gra < 0 → (if nd.ternary then isNetwork nd.matrix.numRows nd.matrix.numCols nd.matrix.toDense
        else isGraphic nd.matrix.numRows nd.matrix.numCols nd.matrix.toDense) = false) :=
  (flags_ok h hc).oracleGra hm hn

theorem small_cographic_flags_truthful {nodes : List FNode} {nd : FNode} (h : checkFlags nodes nd = .ok ())
    (hc : nd.matrix.consistent = true) (hn : nd.matrix.numCols ≤ 5) (hm : nd.matrix.numRows ≤ 7) :
    (0 < nd.cogra → (if nd.ternary then isNetwork nd.matrix.numCols nd.matrix.numRows
          (transpose nd.matrix.numRows nd.matrix.numCols nd.matrix.toDense)
        else isGraphic nd.matrix.numCols nd.matrix.numRows
          (transpose nd.matrix.numRows nd.matrix.numCols nd.matrix.toDense)) = true) ∧
    (nd.cogra < 0 → (if nd.ternary then isNetwork nd.matrix.numCols nd.matrix.numRows
          (transpose nd.matrix.numRows nd.matrix.numCols nd.matrix.toDense)
        else isGraphic nd.matrix.numCols nd.matrix.numRows
          (transpose nd.matrix.numRows nd.matrix.numCols nd.matrix.toDense)) = false) :=
  (flags_ok h hc).oracleCo hn hm

/-- A small ternary node flagged regular is totally unimodular in Mathlib's sense … -/
theorem reg_positive_means_TU {nodes : List FNode} {nd : FNode} (h : checkFlags nodes nd = .ok ())
    (hc : nd.matrix.consistent = true) (hm : nd.matrix.numRows ≤ 6) (hn : nd.matrix.numCols ≤ 6)
    (ht : nd.ternary = true) (hr : 0 < nd.reg) :
    (toMx nd.matrix.numRows nd.matrix.numCols nd.matrix.toDense).IsTotallyUnimodular := by
  have := (small_flags_truthful h hc hm hn).1 hr
  rw [if_pos ht] at this
  exact (isTU_iff _ _ _).mp this

/-- … one flagged irregular is not … -/
theorem reg_negative_means_not_TU {nodes : List FNode} {nd : FNode} (h : checkFlags nodes nd = .ok ())
    (hc : nd.matrix.consistent = true) (hm : nd.matrix.numRows ≤ 6) (hn : nd.matrix.numCols ≤ 6)
    (ht : nd.ternary = true) (hr : nd.reg < 0) :
    ¬ (toMx nd.matrix.numRows nd.matrix.numCols nd.matrix.toDense).IsTotallyUnimodular := by
  have := (small_flags_truthful h hc hm hn).2 hr
  rw [if_pos ht] at this
  intro hTU
  rw [(isTU_iff _ _ _).mpr hTU] at this
  cases this

/-- … and a small binary node flagged regular is a 0/1 matrix with a totally unimodular signing, and conversely. -/
theorem reg_positive_means_regular {nodes : List FNode} {nd : FNode} (h : checkFlags nodes nd = .ok ())
    (hc : nd.matrix.consistent = true) (hm : nd.matrix.numRows ≤ 6) (hn : nd.matrix.numCols ≤ 6)
    (ht : nd.ternary = false) :
    (0 < nd.reg → isBinary nd.matrix.toDense = true ∧ ∃ S : Mat, C02.IsSigningOf S nd.matrix.toDense ∧
      (toMx nd.matrix.numRows nd.matrix.numCols S).IsTotallyUnimodular) ∧
    (nd.reg < 0 → ¬ (isBinary nd.matrix.toDense = true ∧ ∃ S : Mat, C02.IsSigningOf S nd.matrix.toDense ∧
      (toMx nd.matrix.numRows nd.matrix.numCols S).IsTotallyUnimodular)) := by
  obtain ⟨p, q⟩ := small_flags_truthful h hc hm hn
  have hf : ¬ nd.ternary = true := by simp [ht]
  rw [if_neg hf] at p q
  constructor
  · intro hr
    exact (C02.isRegular_iff_mathlib _ _ _ (toDense_wf _)).mp (p hr)
  · intro hr hreg
    have := (C02.isRegular_iff_mathlib _ _ _ (toDense_wf _)).mpr hreg
    rw [q hr] at this
    cases this

/-! ### 9. type-implied flags and R10 -/

theorem type_flags {nodes : List FNode} {nd : FNode} (h : checkFlags nodes nd = .ok ())
    (hc : nd.matrix.consistent = true) :
    (nd.type = NodeType.graph → 0 < nd.gra) ∧ (nd.type = NodeType.cograph → 0 < nd.cogra) ∧
    (nd.type = NodeType.planar → 0 < nd.gra ∧ 0 < nd.cogra) ∧
    (nd.type = NodeType.graph ∨ nd.type = NodeType.cograph ∨ nd.type = NodeType.planar ∨ nd.type = NodeType.r10 →
      0 < nd.reg) ∧
    (nd.type = NodeType.irregular → nd.reg < 0) := (flags_ok h hc).typeFlags

theorem r10_support {nodes : List FNode} {nd : FNode} (h : checkFlags nodes nd = .ok ())
    (hc : nd.matrix.consistent = true) (ht : nd.type = NodeType.r10) :
    nd.matrix.numRows = 5 ∧ nd.matrix.numCols = 5 ∧ isR10Support (support nd.matrix.toDense) = true := by
  obtain ⟨a, b, c, _⟩ := (flags_ok h hc).r10 ht
  exact ⟨a, b, c⟩

/-- the support of an R10 node is `r10a` or `r10b` up to a row and a column permutation (lists of all five indices) -/
theorem r10_support_perm {nodes : List FNode} {nd : FNode} (h : checkFlags nodes nd = .ok ())
    (hc : nd.matrix.consistent = true) (ht : nd.type = NodeType.r10) :
    ∃ rp ∈ perms (List.range 5), ∃ cp ∈ perms (List.range 5),
      sub (support nd.matrix.toDense) rp cp = r10a ∨ sub (support nd.matrix.toDense) rp cp = r10b := by
  obtain ⟨_, _, hs⟩ := r10_support h hc ht
  simp only [isR10Support, List.any_eq_true, Bool.or_eq_true, beq_iff_eq] at hs
  obtain ⟨rp, hrp, cp, hcp, hX⟩ := hs
  exact ⟨rp, hrp, cp, hcp, hX⟩

theorem r10_ternary_TU {nodes : List FNode} {nd : FNode} (h : checkFlags nodes nd = .ok ())
    (hc : nd.matrix.consistent = true) (ht : nd.type = NodeType.r10) (htern : nd.ternary = true) :
    (toMx 5 5 nd.matrix.toDense).IsTotallyUnimodular := by
  obtain ⟨_, _, _, d⟩ := (flags_ok h hc).r10 ht
  exact (isTU_iff _ _ _).mp (d htern)

/-- an accepted R10 node passes the regularity oracle (its size 5×5 is within the oracle bound) -/
theorem r10_node_regular {nodes : List FNode} {nd : FNode} (h : checkFlags nodes nd = .ok ())
    (hc : nd.matrix.consistent = true) (ht : nd.type = NodeType.r10) :
    (if nd.ternary then isTU 5 5 nd.matrix.toDense else isRegular 5 nd.matrix.toDense) = true := by
  obtain ⟨hm, hn, _⟩ := r10_support h hc ht
  have hr : 0 < nd.reg := (type_flags h hc).2.2.2.1 (Or.inr (Or.inr (Or.inr ht)))
  have := (small_flags_truthful h hc (by omega) (by omega)).1 hr
  rw [hm, hn] at this
  exact this

/-- The two representation matrices of R10 are regular (closed fact about the model, by evaluation). -/
theorem r10_regular : isRegular 5 r10a = true ∧ isRegular 5 r10b = true := by decide

/-- … and they are accepted as R10 supports. -/
theorem r10_support_self : isR10Support (support r10a) = true ∧ isR10Support (support r10b) = true := by
  decide +kernel

/-! ### non-vacuity -/

section Examples

def one11 : Csr := { numRows := 1, numCols := 1, nnz := 1, slice := [0, 1], cols := [0], vals := [1] }

/-- a graph leaf for `[[1]]`: two parallel edges, the first is the forest, the second the coforest -/
def leaf1 (id : Nat) : FNode :=
  { id := id, type := NodeType.graph, ternary := false, reg := 1, gra := 1, cogra := 0, pivots := [], reductions := [],
    minors := [], matrix := one11, transpose := some one11,
    graph := some { g := { nodes := [0, 1], edges := [{ id := 0, u := 0, v := 1 }, { id := 1, u := 0, v := 1 }] },
                    forest := [0], coforest := [1] },
    cograph := none, children := [] }

def root2 : FNode :=
  { id := 0, type := NodeType.onesum, ternary := false, reg := 1, gra := 1, cogra := 0, pivots := [], reductions := [],
    minors := [],
    matrix := { numRows := 2, numCols := 2, nnz := 2, slice := [0, 1, 2], cols := [0, 1], vals := [1, 1] },
    transpose := none, graph := none, cograph := none,
    children := [{ rowsToParent := [-1], colsToParent := [1], specialRows := [], specialCols := [], child := 1 },
                 { rowsToParent := [-2], colsToParent := [2], specialRows := [], specialCols := [], child := 2 }] }

/-- an irregular ternary leaf `[[1, 1], [-1, 1]]` with its determinant minor (the whole matrix, determinant 2) -/
def irr : FNode :=
  { id := 0, type := NodeType.irregular, ternary := true, reg := -1, gra := 0, cogra := 0, pivots := [], reductions := [],
    minors := [{ type := -2, pivots := [], sub := some ([0, 1], [0, 1]) }],
    matrix := { numRows := 2, numCols := 2, nnz := 4, slice := [0, 2, 4], cols := [0, 1, 0, 1], vals := [1, 1, -1, 1] },
    transpose := none, graph := none, cograph := none, children := [] }

/-- Non-vacuity: the hypotheses of the theorems are met by concrete accepted trees (a graph leaf with certificate, a
1-sum root whose positive flags are propagated from its leaves, an irregular leaf with a determinant minor) … -/
example : checkTree [leaf1 7] = .ok () ∧ checkTree [root2, leaf1 1, leaf1 2] = .ok () ∧ checkTree [irr] = .ok () :=
  ⟨rfl, rfl, rfl⟩

/-- … wrong flags are rejected (a root flagged regular over a child that is not) … -/
example : (match checkFlags [root2, leaf1 1, { leaf1 2 with reg := 0 }] root2 with
    | .ok _ => true | .error _ => false) = false := by decide

/-- … and the theorems apply: the stored graph of the leaf multiplies out to its matrix, and the minor of `irr`
refutes total unimodularity. -/
example : checkGraphCert 1 1 [[1]]
    { nodes := [0, 1], edges := [{ id := 0, u := 0, v := 1 }, { id := 1, u := 0, v := 1 }] } [0] [1] false = .ok () :=
  graph_cert_sound (nodes := [leaf1 7]) (nd := leaf1 7) rfl rfl rfl

example : isTU 2 2 [[1, 1], [-1, 1]] = false :=
  minor_refutes_TU (nodes := [irr]) (nd := irr) (mn := { type := -2, pivots := [], sub := some ([0, 1], [0, 1]) })
    rfl rfl (List.mem_singleton.mpr rfl) rfl rfl (by decide)

end Examples

end Cmr.Props.C04
