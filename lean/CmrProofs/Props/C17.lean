/-
  Property C17 — the balancedness test answers yes exactly when no square submatrix with exactly two nonzeros in every
  row and column has an entry sum ≡ 2 (mod 4); non-ternary matrices are not balanced; a returned violator is such a
  submatrix of the input.

  Model: `Cmr/Balanced.lean` (`twoPerLine`, `entrySum`, `isUnbalancedHole`, the brute-force `isBalanced` that
  enumerates all pairs of increasing index lists of equal length).
  Tie: op `balanced` — `CMRbalancedTest` verdict = `isBalanced`; for a ternary input that is not balanced the returned
  submatrix (index lists in the library's order, not necessarily increasing) is checked with
  `rs.length == cs.length && noDup rs && noDup cs && isUnbalancedHole (sub M rs cs) rs.length` after `idxList`
  (all indices in range).

  Theorems: `isBalanced_iff` unfolds the oracle into the definition; `violator_refutes` shows that what the judge
  accepts as a violator — in ANY order of rows and columns — refutes balancedness as defined by the oracle (which only
  looks at increasing index lists): the hole predicate is invariant under permuting the index lists
  (`isUnbalancedHole_perm`).  `isBalanced_transpose`: balancedness is invariant under transposition.
-/
import CmrProofs.Lemmas.BalancedLemmas

set_option linter.unusedSimpArgs false
set_option linter.unusedVariables false

namespace Cmr.Props.C17
open Cmr

/-- **The oracle is the definition**: ternary, and no pair of increasing index lists of equal length selects a
submatrix with two nonzeros per line and entry sum ≡ 2 (mod 4). -/
theorem isBalanced_iff (m n : Nat) (M : Mat) :
    isBalanced m n M = true ↔
      isTernary M = true ∧
        ∀ k rs cs, rs.Sublist (List.range m) → cs.Sublist (List.range n) → rs.length = k → cs.length = k →
          isUnbalancedHole (sub M rs cs) k = false := by
  unfold isBalanced
  simp only [Bool.and_eq_true, List.all_eq_true, List.mem_range, mem_choose, Bool.not_eq_true', and_imp]
  constructor
  · rintro ⟨ht, h⟩
    refine ⟨ht, fun k rs cs hrs hcs hlr hlc => ?_⟩
    have h1 : rs.length ≤ m := sublist_range_length_le hrs
    have h2 : cs.length ≤ n := sublist_range_length_le hcs
    exact h k (by omega) rs hrs hlr cs hcs hlc
  · rintro ⟨ht, h⟩
    exact ⟨ht, fun k _ rs hrs hlr cs hcs hlc => h k rs cs hrs hcs hlr hlc⟩

/-- Entries outside {-1,0,1}: not balanced. -/
theorem not_ternary_not_balanced (m n : Nat) (M : Mat) (h : isTernary M = false) : isBalanced m n M = false := by
  simp [isBalanced, h]

/-- The hole predicate does not depend on the order in which rows and columns are listed. -/
theorem isUnbalancedHole_perm (M : Mat) {rs rs' cs cs' : List Nat} (k : Nat) (hr : rs.Perm rs') (hc : cs.Perm cs')
    (hlr : rs.length = k) (hlc : cs.length = k) :
    isUnbalancedHole (sub M rs cs) k = isUnbalancedHole (sub M rs' cs') k :=
  Cmr.isUnbalancedHole_perm M k hr hc hlr hlc

/-- … in particular it may be evaluated on the sorted index lists. -/
theorem isUnbalancedHole_sorted (M : Mat) (rs cs : List Nat) (k : Nat) (hlr : rs.length = k) (hlc : cs.length = k) :
    isUnbalancedHole (sub M rs cs) k =
      isUnbalancedHole (sub M (rs.insertionSort (· ≤ ·)) (cs.insertionSort (· ≤ ·))) k :=
  isUnbalancedHole_perm M k (List.perm_insertionSort _ rs).symm (List.perm_insertionSort _ cs).symm hlr hlc

/-- What the hole predicate says: exactly two nonzeros in every selected row (within the selected columns) and in
every selected column (within the selected rows), and the sum of the selected entries is ≡ 2 (mod 4). -/
theorem isUnbalancedHole_iff (M : Mat) (rs cs : List Nat) (k : Nat) (hlr : rs.length = k) (hlc : cs.length = k) :
    isUnbalancedHole (sub M rs cs) k = true ↔
      (∀ r ∈ rs, cs.countP (fun c => ent M r c != 0) = 2) ∧ (∀ c ∈ cs, rs.countP (fun r => ent M r c != 0) = 2) ∧
        (rs.map (fun r => (cs.map (fun c => ent M r c)).sum)).sum % 4 = 2 := by
  rw [isUnbalancedHole_sub M rs cs k hlr hlc]
  simp [isUnbalancedHoleL, twoPerLineL, entrySumL, and_assoc]

/-- **A violator in any order refutes balancedness**: a square selection of distinct in-range rows and columns (listed
in any order, as the library returns them) that is an unbalanced hole is a certificate of `isBalanced = false`. -/
theorem violator_refutes (m n : Nat) (M : Mat) (rs cs : List Nat) (hl : rs.length = cs.length)
    (hr : ∀ x ∈ rs, x < m) (hc : ∀ x ∈ cs, x < n) (hnr : rs.Nodup) (hnc : cs.Nodup) (ht : isTernary M = true)
    (hv : isUnbalancedHole (sub M rs cs) rs.length = true) : isBalanced m n M = false := by
  cases hb : isBalanced m n M with
  | false => rfl
  | true =>
    have h := ((isBalanced_iff m n M).mp hb).2 rs.length (rs.insertionSort (· ≤ ·)) (cs.insertionSort (· ≤ ·))
      (sorted_sublist_range rs m hr hnr) (sorted_sublist_range cs n hc hnc)
      (List.perm_insertionSort _ rs).length_eq (by rw [(List.perm_insertionSort _ cs).length_eq, hl])
    rw [← isUnbalancedHole_sorted M rs cs rs.length rfl hl.symm, hv] at h
    cases h

/-- The exact conjunction the judge evaluates on the decoded index lists. -/
theorem judge_violator_refutes (m n : Nat) (M : Mat) (rs cs : List Nat) (hr : rs.all (· < m) = true)
    (hc : cs.all (· < n) = true) (ht : isTernary M = true)
    (h : (rs.length == cs.length && decide rs.Nodup && decide cs.Nodup &&
      isUnbalancedHole (sub M rs cs) rs.length) = true) : isBalanced m n M = false := by
  simp only [Bool.and_eq_true, beq_iff_eq, decide_eq_true_eq] at h
  obtain ⟨⟨⟨hl, hnr⟩, hnc⟩, hv⟩ := h
  simp only [List.all_eq_true, decide_eq_true_eq] at hr hc
  exact violator_refutes m n M rs cs hl hr hc hnr hnc ht hv

/-- Conversely, a matrix that is not balanced and is ternary has a violator (with increasing index lists). -/
theorem exists_violator (m n : Nat) (M : Mat) (ht : isTernary M = true) (hb : isBalanced m n M = false) :
    ∃ rs cs : List Nat, rs.Sublist (List.range m) ∧ cs.Sublist (List.range n) ∧ rs.length = cs.length ∧
      isUnbalancedHole (sub M rs cs) rs.length = true := by
  by_contra hne
  have : isBalanced m n M = true := by
    rw [isBalanced_iff]
    refine ⟨ht, fun k rs cs hrs hcs hlr hlc => ?_⟩
    cases hh : isUnbalancedHole (sub M rs cs) k with
    | false => rfl
    | true =>
      exfalso
      apply hne
      exact ⟨rs, cs, hrs, hcs, by omega, by rw [hlr]; exact hh⟩
  rw [hb] at this
  cases this

/-- Balancedness is invariant under transposition. -/
theorem isBalanced_transpose (m n : Nat) (M : Mat) (h : M.wf m n = true) :
    isBalanced n m (transpose m n M) = isBalanced m n M := by
  have key : ∀ (k : Nat) (rs cs : List Nat), rs.Sublist (List.range m) → cs.Sublist (List.range n) →
      rs.length = k → cs.length = k →
      isUnbalancedHole (sub (transpose m n M) cs rs) k = isUnbalancedHole (sub M rs cs) k := by
    intro k rs cs hrs hcs hlr hlc
    rw [isUnbalancedHole_sub _ cs rs k hlc hlr, isUnbalancedHole_sub _ rs cs k hlr hlc]
    exact isUnbalancedHoleL_transpose m n M rs cs (fun x hx => List.mem_range.mp (hrs.subset hx))
      (fun x hx => List.mem_range.mp (hcs.subset hx))
  rw [Bool.eq_iff_iff, isBalanced_iff, isBalanced_iff, isTernary_transpose h]
  constructor
  · rintro ⟨ht, hh⟩
    refine ⟨ht, fun k rs cs hrs hcs hlr hlc => ?_⟩
    rw [← key k rs cs hrs hcs hlr hlc]
    exact hh k cs rs hcs hrs hlc hlr
  · rintro ⟨ht, hh⟩
    refine ⟨ht, fun k cs rs hcs hrs hlc hlr => ?_⟩
    rw [key k rs cs hrs hcs hlr hlc]
    exact hh k rs cs hrs hcs hlr hlc

/-- Non-vacuity: the 3×3 cycle matrix has entry sum 6 ≡ 2 and is not balanced; negating one entry makes the sum 4 and
the matrix balanced; an entry 2 makes a matrix not balanced; a violator listed in non-increasing order is accepted. -/
example : isBalanced 3 3 [[1, 1, 0], [0, 1, 1], [1, 0, 1]] = false ∧
    isBalanced 3 3 [[1, 1, 0], [0, 1, 1], [-1, 0, 1]] = true ∧
    isBalanced 2 2 [[1, 2], [0, 1]] = false ∧
    isBalanced 2 3 [[1, 1, 0], [1, -1, 1]] = false ∧
    isUnbalancedHole (sub [[1, 1, 0], [0, 1, 1], [1, 0, 1]] [2, 0, 1] [1, 2, 0]) 3 = true ∧
    isUnbalancedHole (sub [[1, 1, 0], [0, 1, 1], [-1, 0, 1]] [0, 1, 2] [0, 1, 2]) 3 = false := by decide

end Cmr.Props.C17
