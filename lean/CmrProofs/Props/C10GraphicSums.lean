/-
  Property C10 (extension) — the `sumRel` table entries for the graph classes `gra` (`isGraphic`) and `net` (`isNetwork`):
    * `sumRel "1" _ .gra = .both`, `sumRel "1" _ .net = .both` : a 1-sum is graphic (a network matrix) iff every summand
      is (`sum1_gra`, `sum1_net`, `compose1_gra_list`, `compose1_net_list`, both oracles at once: `compose1_orc_list`);
    * `sumRel "2" 2 .gra = .closed` : the binary 2-sum of graphic matrices is graphic, in both layouts
      (`sum2a_gra`, `sum2b_gra`);
    * `sumRel "2" 3 .net = .closed` : the ternary 2-sum of network matrices is a network matrix, in both layouts
      (`sum2a_net`, `sum2b_net`); both oracles at once: `sum2a_orc`, `sum2b_orc` with `chOf`.

  Route: the declarative reading `Realises` of `CmrProofs/Lemmas/GraStepLemmas.lean` (`orc_iff_realises`).
  1-sum `⇒`: each block is a submatrix (`orc_S`, i.e. `gra_S` and `net_S` of `C10Graphic.lean`);
  1-sum `⇐`: the disjoint union of the two forests realises the block-diagonal matrix
  (`GraSum.realises_blockDiag` in `CmrProofs/Lemmas/GraSumLemmas.lean`).
  2-sum, first layout `[[A,0],[d cᵀ,D]]` (`realises_sum2a`): the marker row `r` of the first operand is a forest edge of
  the first graph, the marker column `c` of the second operand a non-forest edge of the second, i.e. a walk `wc` in the second
  forest.  The two graphs are glued at the ends of the two markers and the marker is dropped (`GraSum.glueT`); a walk of
  the first forest through the marker is rerouted along `wc` (against `wc` for a backward step), which multiplies the
  entries of `wc` by the entry `±1` of the walk at `r` — the product `d cᵀ` (`pathEntry_glue_ge`).  All entries are
  0, 1 (and -1 in the signed reading), so the reduction `normChar` of the sum does nothing (`normChar_ok`).
  Second layout `[[A,a bᵀ],[0,D]]` (`realises_sum2b`): the first layout with the operands exchanged, blocks reordered
  by `realises_sub`.
  The operands are assumed well-formed (`Mat.wf`), as everywhere for these oracles.
-/
import CmrProofs.Lemmas.GraSumLemmas
import CmrProofs.Props.C10Graphic

set_option linter.unusedSimpArgs false
set_option linter.unusedVariables false

namespace Cmr.Props.C10GraphicSums
open Cmr Cmr.GraStep Cmr.GraSum Cmr.Props.C10Graphic

/-! ## 0. The table entries -/

theorem sumRel_gra_net :
    sumRel "1" 2 .gra = .both ∧ sumRel "1" 3 .net = .both ∧ (∀ ch, sumRel "1" ch .gra = .both) ∧
    (∀ ch, sumRel "1" ch .net = .both) ∧ sumRel "2" 2 .gra = .closed ∧ sumRel "2" 3 .net = .closed := by
  refine ⟨by decide, by decide, fun _ => rfl, fun _ => rfl, by decide, by decide⟩

/-! ## 1. 1-sums -/

/-- **Block-diagonal matrices**, both oracles at once (`orc true = isNetwork`, `orc false = isGraphic`). -/
theorem blockDiag_orc {signed : Bool} {m1 n1 m2 n2 : Nat} {A B : Mat} (hA : A.wf m1 n1 = true) (hB : B.wf m2 n2 = true) :
    orc signed (m1 + m2) (n1 + n2) (blockMat m1 n1 m2 n2 (fun i j => ent A i j) (fun _ _ => 0) (fun _ _ => 0)
      (fun i j => ent B i j)) = true ↔ orc signed m1 n1 A = true ∧ orc signed m2 n2 B = true := by
  have hwf := Cmr.blockMat_wf m1 n1 m2 n2 (fun i j => ent A i j) (fun _ _ => 0) (fun _ _ => 0) (fun i j => ent B i j)
  constructor
  · intro h
    constructor
    · have := orc_S hwf (rows := List.range m1) (cols := List.range n1) List.nodup_range
        (by intro x hx; simp at hx; omega) (by intro x hx; simp at hx; omega) h
      rw [List.length_range, List.length_range] at this
      have e : sub (blockMat m1 n1 m2 n2 (fun i j => ent A i j) (fun _ _ => 0) (fun _ _ => 0)
          (fun i j => ent B i j)) (List.range m1) (List.range n1) = A := by
        have hw := wf_sub (blockMat m1 n1 m2 n2 (fun i j => ent A i j) (fun _ _ => 0) (fun _ _ => 0)
          (fun i j => ent B i j)) (List.range m1) (List.range n1)
        simp only [List.length_range] at hw
        apply mat_ext hw hA
        intro i hi j hj
        rw [ent_sub _ _ _ (by simpa using hi) (by simpa using hj)]
        simp only [List.getElem_range]
        exact ent_blockMat_tl _ _ _ _ _ _ _ _ hi hj
      rwa [e] at this
    · have := orc_S hwf (rows := (List.range m2).map (m1 + ·)) (cols := (List.range n2).map (n1 + ·))
        (List.nodup_range.map (fun a b h => by simpa using h))
        (by intro x hx; simp at hx; omega) (by intro x hx; simp at hx; omega) h
      rw [List.length_map, List.length_range, List.length_map, List.length_range] at this
      have e : sub (blockMat m1 n1 m2 n2 (fun i j => ent A i j) (fun _ _ => 0) (fun _ _ => 0)
          (fun i j => ent B i j)) ((List.range m2).map (m1 + ·)) ((List.range n2).map (n1 + ·)) = B := by
        have hw := wf_sub (blockMat m1 n1 m2 n2 (fun i j => ent A i j) (fun _ _ => 0) (fun _ _ => 0)
          (fun i j => ent B i j)) ((List.range m2).map (m1 + ·)) ((List.range n2).map (n1 + ·))
        simp only [List.length_range, List.length_map] at hw
        apply mat_ext hw hB
        intro i hi j hj
        rw [ent_sub _ _ _ (by simpa using hi) (by simpa using hj)]
        simp only [List.getElem_map, List.getElem_range]
        exact ent_blockMat_br _ _ _ _ _ _ _ _ hi hj
      rwa [e] at this
  · rintro ⟨h1, h2⟩
    exact (orc_iff_realises hwf).mpr
      (realises_blockDiag ((orc_iff_realises hA).mp h1) ((orc_iff_realises hB).mp h2))

/-- **1-sum of any number of matrices** (`compose1` itself): the oracle accepts the result iff it accepts every summand. -/
theorem compose1_orc_list {signed : Bool} (l : List (Nat × Nat × Mat)) (hwf : ∀ x ∈ l, x.2.2.wf x.1 x.2.1 = true) :
    orc signed (compose1 l).1 (compose1 l).2.1 (compose1 l).2.2 = true ↔ ∀ x ∈ l, orc signed x.1 x.2.1 x.2.2 = true := by
  induction l with
  | nil => simp [compose1]; cases signed <;> decide
  | cons x rest ih =>
    obtain ⟨m, n, A⟩ := x
    have hA : A.wf m n = true := hwf (m, n, A) (List.mem_cons_self)
    have hrest : ∀ x ∈ rest, x.2.2.wf x.1 x.2.1 = true := fun x hx => hwf x (List.mem_cons_of_mem _ hx)
    simp only [compose1, List.mem_cons, forall_eq_or_imp]
    rw [← ih hrest]
    exact blockDiag_orc hA (C12.compose1_wf rest)

theorem compose1_gra_list (l : List (Nat × Nat × Mat)) (hwf : ∀ x ∈ l, x.2.2.wf x.1 x.2.1 = true) :
    isGraphic (compose1 l).1 (compose1 l).2.1 (compose1 l).2.2 = true ↔ ∀ x ∈ l, isGraphic x.1 x.2.1 x.2.2 = true :=
  compose1_orc_list (signed := false) l hwf

theorem compose1_net_list (l : List (Nat × Nat × Mat)) (hwf : ∀ x ∈ l, x.2.2.wf x.1 x.2.1 = true) :
    isNetwork (compose1 l).1 (compose1 l).2.1 (compose1 l).2.2 = true ↔ ∀ x ∈ l, isNetwork x.1 x.2.1 x.2.2 = true :=
  compose1_orc_list (signed := true) l hwf

/-- **1-sum, `gra`**: the model's `compose1` of two matrices is graphic iff both summands are. -/
theorem sum1_gra (m1 n1 : Nat) (A : Mat) (m2 n2 : Nat) (B : Mat) (hA : A.wf m1 n1 = true) (hB : B.wf m2 n2 = true) :
    isGraphic (compose1 [(m1, n1, A), (m2, n2, B)]).1 (compose1 [(m1, n1, A), (m2, n2, B)]).2.1
        (compose1 [(m1, n1, A), (m2, n2, B)]).2.2 = true ↔
      isGraphic m1 n1 A = true ∧ isGraphic m2 n2 B = true := by
  rw [compose1_gra_list _ (by intro x hx; simp at hx; rcases hx with rfl | rfl <;> assumption)]
  simp

/-- **1-sum, `net`**: the model's `compose1` of two matrices is a network matrix iff both summands are. -/
theorem sum1_net (m1 n1 : Nat) (A : Mat) (m2 n2 : Nat) (B : Mat) (hA : A.wf m1 n1 = true) (hB : B.wf m2 n2 = true) :
    isNetwork (compose1 [(m1, n1, A), (m2, n2, B)]).1 (compose1 [(m1, n1, A), (m2, n2, B)]).2.1
        (compose1 [(m1, n1, A), (m2, n2, B)]).2.2 = true ↔
      isNetwork m1 n1 A = true ∧ isNetwork m2 n2 B = true := by
  rw [compose1_net_list _ (by intro x hx; simp at hx; rcases hx with rfl | rfl <;> assumption)]
  simp

/-! ## 2. 2-sums -/

/-- characteristic of the 2-sum that goes with the reading: GF(2) for `isGraphic`, GF(3) for `isNetwork` -/
def chOf (signed : Bool) : Nat := if signed then 3 else 2

theorem normChar_ok {signed : Bool} {x : Int} (hx : x = 0 ∨ x = 1 ∨ (signed = true ∧ x = -1)) :
    normChar (chOf signed) x = x := by
  cases signed
  · rcases hx with h | h | ⟨h, _⟩
    · exact C12.normChar_two_of_binary (Or.inl h)
    · exact C12.normChar_two_of_binary (Or.inr h)
    · cases h
  · rcases hx with h | h | ⟨_, h⟩
    · exact C12.normChar_three_of_ternary (Or.inl h)
    · exact C12.normChar_three_of_ternary (Or.inr (Or.inl h))
    · exact C12.normChar_three_of_ternary (Or.inr (Or.inr h))

theorem normChar_pathEntry (signed : Bool) (w : List (Nat × Bool)) (k : Nat) :
    normChar (chOf signed) (pathEntry signed w k) = pathEntry signed w k := normChar_ok (pathEntry_cases _ _ _)

/-- the entry of the image walk on an edge of the second forest is the product of the two operand entries -/
theorem pathEntry_glue_ge {signed : Bool} {rows : List Nat} {r : Nat} {wc w : List (Nat × Bool)}
    (hw : ∀ x ∈ w, x.1 ∈ rows ∨ x.1 = r) (nd : (w.map Prod.fst).Nodup) (ndc : (wc.map Prod.fst).Nodup)
    (nd' : ((w.flatMap (stepG rows r wc)).map Prod.fst).Nodup) {i : Nat} (hi : rows.length ≤ i) :
    normChar (chOf signed) (pathEntry signed wc (i - rows.length) * pathEntry signed w r) =
      pathEntry signed (w.flatMap (stepG rows r wc)) i := by
  by_cases ht : (r, true) ∈ w <;> by_cases hf : (r, false) ∈ w
  · exact (not_both_dirs nd ht hf).elim
  · have h1 : pathEntry signed w r = 1 := by
      cases signed
      · rw [pathEntry_unsigned, if_pos (mem_map_fst_iff.mpr (Or.inl ht))]
      · rw [pathEntry_signed nd, if_pos ht]
    rw [h1, Int.mul_one, normChar_pathEntry]
    exact (pathEntry_eq_of_mem_iff ndc nd' (fun d => by rw [mem_glue_ge hw hi]; simp [ht, hf])).symm
  · cases signed
    · have h1 : pathEntry false w r = 1 := by
        rw [pathEntry_unsigned, if_pos (mem_map_fst_iff.mpr (Or.inr hf))]
      rw [h1, Int.mul_one, normChar_pathEntry, pathEntry_unsigned, pathEntry_unsigned]
      have : i ∈ (w.flatMap (stepG rows r wc)).map Prod.fst ↔ (i - rows.length) ∈ wc.map Prod.fst := by
        rw [mem_map_fst_iff, mem_map_fst_iff, mem_glue_ge hw hi, mem_glue_ge hw hi]
        simp [ht, hf, or_comm]
      simp only [this]
    · have h1 : pathEntry true w r = -1 := by
        rw [pathEntry_signed nd, if_neg ht, if_pos hf]
      have h2 := pathEntry_neg_of_mem_iff (w := wc) (w' := w.flatMap (stepG rows r wc)) ndc nd'
        (k := i - rows.length) (k' := i) (fun d => by rw [mem_glue_ge hw hi]; simp [ht, hf])
      rw [h1, h2, Int.mul_neg, Int.mul_one]
      rcases pathEntry_cases true wc (i - rows.length) with h | h | ⟨_, h⟩ <;> rw [h] <;> decide
  · have h1 : pathEntry signed w r = 0 := by
      apply pathEntry_zero_of_not_mem
      rw [mem_map_fst_iff]; simp [ht, hf]
    have h2 : pathEntry signed (w.flatMap (stepG rows r wc)) i = 0 := by
      apply pathEntry_zero_of_not_mem
      rw [mem_map_fst_iff, mem_glue_ge hw hi, mem_glue_ge hw hi]; simp [ht, hf]
    rw [h1, h2, Int.mul_zero]
    exact normChar_ok (Or.inl rfl)

/-- **2-sum `[[A,0],[d cᵀ,D]]`**: identify the marker forest edge `r` of the first graph with the marker non-forest edge
`c` of the second and delete it. -/
theorem realises_sum2a {signed : Bool} {m1 n1 m2 n2 : Nat} {M1 M2 : Mat} {r c : Nat} (hr : r < m1) (hc : c < n2)
    (h1 : Realises signed m1 n1 M1) (h2 : Realises signed m2 n2 M2) :
    Realises signed ((eraseIdxs (List.range m1) [r]).length + m2) (n1 + (eraseIdxs (List.range n2) [c]).length)
      (C12.sum2aResult (chOf signed) m1 n1 M1 m2 n2 M2 r c) := by
  obtain ⟨T1, rfl, hb1, hc1⟩ := h1
  obtain ⟨T2, rfl, hb2, hc2⟩ := h2
  obtain ⟨sc, tc, wc, hwc, ndc, hentc⟩ := hc2 c hc
  have he : T1[r]? = some T1[r] := List.getElem?_eq_getElem hr
  unfold C12.sum2aResult
  set rows := eraseIdxs (List.range T1.length) [r] with hrows
  set cols := eraseIdxs (List.range n2) [c] with hcols
  have hmem : ∀ k, k ∈ rows ↔ k < T1.length ∧ k ≠ r := by
    intro k; rw [hrows, mem_eraseIdxs_range]; simp
  have hnd : rows.Nodup := by
    rw [hrows]; unfold eraseIdxs; exact List.nodup_range.filter _
  have hrn : r ∉ rows := fun h => ((hmem r).mp h).2 rfl
  have hab : T1[r].tail ≠ T1[r].head := by
    intro h
    refine hb1 r _ he ?_
    rcases T1[r].tail_head with ⟨h1, h2⟩ | ⟨h1, h2⟩
    · rw [← h1, ← h2, h]; exact ReachOn.refl _
    · rw [← h1, ← h2, h]; exact ReachOn.refl _
  refine ⟨glueT T1 T2 rows T1[r].tail T1[r].head sc tc, glueT_length _ _ _ _ _ _ _,
    glueT_bridgeForest hb1 hb2 hnd hmem he (hwc.reachOn (fun _ _ => trivial)), ?_⟩
  intro j hj
  by_cases h2 : j < n1
  · obtain ⟨s, t, w, hw, nd, hent⟩ := hc1 j h2
    have hwm : ∀ x ∈ w, x.1 ∈ rows ∨ x.1 = r := by
      intro x hx
      obtain ⟨e, hxe⟩ := hw.getElem?_of_mem hx
      by_cases hxr : x.1 = r
      · exact Or.inr hxr
      · exact Or.inl ((hmem _).mpr ⟨(List.getElem?_eq_some_iff.mp hxe).1, hxr⟩)
    have nd' := nodup_glue (wc := wc) hnd hrn ndc hwm nd
    refine ⟨_, _, _, walk_glue hmem he hab hwc hw, nd', ?_⟩
    intro i hi
    rw [Cmr.ent_blockMat _ _ _ _ _ _ _ _ hi hj]
    by_cases h1 : i < rows.length <;> simp only [h1, h2, if_true, if_false]
    · have hg : rows.getD i 0 = rows[i] := by simp [List.getD_eq_getElem?_getD, h1]
      rw [hg, hent _ ((hmem _).mp (List.getElem_mem h1)).1, normChar_pathEntry]
      exact (pathEntry_eq_of_mem_iff nd nd' (fun d => mem_glue_lt hnd hrn hwm h1 d)).symm
    · rw [hentc _ (by omega), hent r hr]
      exact pathEntry_glue_ge hwm nd ndc nd' (by omega)
  · have hjl : j - n1 < cols.length := by omega
    have hcl : cols.getD (j - n1) 0 < n2 := (getD_eraseIdxs_range n2 [c] (i := j - n1) hjl).1
    obtain ⟨s, t, w, hw, nd, hent⟩ := hc2 _ hcl
    refine ⟨2 * s + 1, 2 * t + 1, shiftBy rows.length w,
      walk_append_right (contractT_length _ _ _).symm (walk_rename (2 * · + 1) hw), nodup_shiftBy nd, ?_⟩
    intro i hi
    rw [Cmr.ent_blockMat _ _ _ _ _ _ _ _ hi hj]
    by_cases h1 : i < rows.length <;> simp only [h1, h2, if_true, if_false]
    · exact (pathEntry_shiftBy_lt h1).symm
    · rw [pathEntry_shiftBy_ge nd (by omega), hent _ (by omega), normChar_pathEntry]

/-- **2-sum `[[A,a bᵀ],[0,D]]`**: the first layout with the operands exchanged, blocks reordered. -/
theorem realises_sum2b {signed : Bool} {m1 n1 m2 n2 : Nat} {M1 M2 : Mat} {c r : Nat} (hc : c < n1) (hr : r < m2)
    (h1 : Realises signed m1 n1 M1) (h2 : Realises signed m2 n2 M2) :
    Realises signed (m1 + (eraseIdxs (List.range m2) [r]).length) ((eraseIdxs (List.range n1) [c]).length + n2)
      (C12.sum2bResult (chOf signed) m1 n1 M1 m2 n2 M2 c r) := by
  have h := realises_sum2a hr hc h2 h1
  unfold C12.sum2aResult at h
  unfold C12.sum2bResult
  set rows2 := eraseIdxs (List.range m2) [r] with hrows2
  set cols1 := eraseIdxs (List.range n1) [c] with hcols1
  have hs := realises_sub h (rows := (List.range m1).map (· + rows2.length) ++ List.range rows2.length)
    (cols := (List.range cols1.length).map (· + n2) ++ List.range n2)
    (by
      rw [List.nodup_append]
      refine ⟨List.nodup_range.map (fun a b h => by simpa using h), List.nodup_range, ?_⟩
      intro a ha b hb
      simp at ha hb
      omega)
    (by intro x hx; simp at hx; omega) (by intro x hx; simp at hx; omega)
  simp only [List.length_append, List.length_map, List.length_range] at hs
  refine realises_congr ?_ hs
  intro i hi j hj
  rw [ent_sub _ _ _ (by simpa using hi) (by simpa using hj), Cmr.ent_blockMat _ _ _ _ _ _ _ _ hi hj]
  by_cases h1 : i < m1 <;> by_cases h2 : j < cols1.length
  · have e1 : ((List.range m1).map (· + rows2.length) ++ List.range rows2.length)[i]'(by simpa using hi) =
        i + rows2.length := by rw [List.getElem_append_left (by simpa using h1)]; simp
    have e2 : ((List.range cols1.length).map (· + n2) ++ List.range n2)[j]'(by simpa using hj) = j + n2 := by
      rw [List.getElem_append_left (by simpa using h2)]; simp
    rw [e1, e2, Cmr.ent_blockMat _ _ _ _ _ _ _ _ (by omega) (by omega)]
    simp [h1, h2]
  · have e1 : ((List.range m1).map (· + rows2.length) ++ List.range rows2.length)[i]'(by simpa using hi) =
        i + rows2.length := by rw [List.getElem_append_left (by simpa using h1)]; simp
    have e2 : ((List.range cols1.length).map (· + n2) ++ List.range n2)[j]'(by simpa using hj) = j - cols1.length := by
      rw [List.getElem_append_right (by simpa using h2)]; simp
    rw [e1, e2, Cmr.ent_blockMat _ _ _ _ _ _ _ _ (by omega) (by omega)]
    have : j - cols1.length < n2 := by omega
    simp [h1, h2, this]
  · have e1 : ((List.range m1).map (· + rows2.length) ++ List.range rows2.length)[i]'(by simpa using hi) =
        i - m1 := by rw [List.getElem_append_right (by simpa using h1)]; simp
    have e2 : ((List.range cols1.length).map (· + n2) ++ List.range n2)[j]'(by simpa using hj) = j + n2 := by
      rw [List.getElem_append_left (by simpa using h2)]; simp
    rw [e1, e2, Cmr.ent_blockMat _ _ _ _ _ _ _ _ (by omega) (by omega)]
    have : i - m1 < rows2.length := by omega
    simp [h1, h2, this]
  · have e1 : ((List.range m1).map (· + rows2.length) ++ List.range rows2.length)[i]'(by simpa using hi) =
        i - m1 := by rw [List.getElem_append_right (by simpa using h1)]; simp
    have e2 : ((List.range cols1.length).map (· + n2) ++ List.range n2)[j]'(by simpa using hj) = j - cols1.length := by
      rw [List.getElem_append_right (by simpa using h2)]; simp
    rw [e1, e2, Cmr.ent_blockMat _ _ _ _ _ _ _ _ (by omega) (by omega)]
    have h3 : i - m1 < rows2.length := by omega
    have h4 : j - cols1.length < n2 := by omega
    simp [h1, h2, h3, h4]

/-- both oracles at once -/
theorem sum2a_orc {signed : Bool} {m1 n1 : Nat} {M1 : Mat} {m2 n2 : Nat} {M2 : Mat} {r c : Nat} {P : Mat}
    (h : compose2a (chOf signed) m1 n1 M1 m2 n2 M2 r c = .ok P)
    (hwf1 : M1.wf m1 n1 = true) (hwf2 : M2.wf m2 n2 = true)
    (h1 : orc signed m1 n1 M1 = true) (h2 : orc signed m2 n2 M2 = true) :
    orc signed ((m1 - 1) + m2) (n1 + (n2 - 1)) P = true := by
  have hPwf := C12.compose2a_wf h
  obtain ⟨⟨hr, hc⟩, rfl⟩ := (C12.compose2a_eq_ok_iff _ _ _ _ _ _ _ _ _ _).mp h
  rw [orc_iff_realises hPwf]
  have := realises_sum2a hr hc ((orc_iff_realises hwf1).mp h1) ((orc_iff_realises hwf2).mp h2)
  rwa [length_eraseIdxs_one hr, length_eraseIdxs_one hc] at this

/-- **Binary 2-sum `[[A,0],[d cᵀ,D]]` of graphic matrices is graphic.** -/
theorem sum2a_gra {m1 n1 : Nat} {M1 : Mat} {m2 n2 : Nat} {M2 : Mat} {r c : Nat} {P : Mat}
    (h : compose2a 2 m1 n1 M1 m2 n2 M2 r c = .ok P)
    (hwf1 : M1.wf m1 n1 = true) (hwf2 : M2.wf m2 n2 = true)
    (h1 : isGraphic m1 n1 M1 = true) (h2 : isGraphic m2 n2 M2 = true) :
    isGraphic ((m1 - 1) + m2) (n1 + (n2 - 1)) P = true :=
  sum2a_orc (signed := false) h hwf1 hwf2 h1 h2

/-- **Ternary 2-sum `[[A,0],[d cᵀ,D]]` of network matrices is a network matrix.** -/
theorem sum2a_net {m1 n1 : Nat} {M1 : Mat} {m2 n2 : Nat} {M2 : Mat} {r c : Nat} {P : Mat}
    (h : compose2a 3 m1 n1 M1 m2 n2 M2 r c = .ok P)
    (hwf1 : M1.wf m1 n1 = true) (hwf2 : M2.wf m2 n2 = true)
    (h1 : isNetwork m1 n1 M1 = true) (h2 : isNetwork m2 n2 M2 = true) :
    isNetwork ((m1 - 1) + m2) (n1 + (n2 - 1)) P = true :=
  sum2a_orc (signed := true) h hwf1 hwf2 h1 h2

theorem sum2b_orc {signed : Bool} {m1 n1 : Nat} {M1 : Mat} {m2 n2 : Nat} {M2 : Mat} {c r : Nat} {P : Mat}
    (h : compose2b (chOf signed) m1 n1 M1 m2 n2 M2 c r = .ok P)
    (hwf1 : M1.wf m1 n1 = true) (hwf2 : M2.wf m2 n2 = true)
    (h1 : orc signed m1 n1 M1 = true) (h2 : orc signed m2 n2 M2 = true) :
    orc signed (m1 + (m2 - 1)) ((n1 - 1) + n2) P = true := by
  have hPwf := C12.compose2b_wf h
  obtain ⟨⟨hc, hr⟩, rfl⟩ := (C12.compose2b_eq_ok_iff _ _ _ _ _ _ _ _ _ _).mp h
  rw [orc_iff_realises hPwf]
  have := realises_sum2b hc hr ((orc_iff_realises hwf1).mp h1) ((orc_iff_realises hwf2).mp h2)
  rwa [length_eraseIdxs_one hr, length_eraseIdxs_one hc] at this

/-- **Binary 2-sum `[[A,a bᵀ],[0,D]]` of graphic matrices is graphic.** -/
theorem sum2b_gra {m1 n1 : Nat} {M1 : Mat} {m2 n2 : Nat} {M2 : Mat} {c r : Nat} {P : Mat}
    (h : compose2b 2 m1 n1 M1 m2 n2 M2 c r = .ok P)
    (hwf1 : M1.wf m1 n1 = true) (hwf2 : M2.wf m2 n2 = true)
    (h1 : isGraphic m1 n1 M1 = true) (h2 : isGraphic m2 n2 M2 = true) :
    isGraphic (m1 + (m2 - 1)) ((n1 - 1) + n2) P = true :=
  sum2b_orc (signed := false) h hwf1 hwf2 h1 h2

/-- **Ternary 2-sum `[[A,a bᵀ],[0,D]]` of network matrices is a network matrix.** -/
theorem sum2b_net {m1 n1 : Nat} {M1 : Mat} {m2 n2 : Nat} {M2 : Mat} {c r : Nat} {P : Mat}
    (h : compose2b 3 m1 n1 M1 m2 n2 M2 c r = .ok P)
    (hwf1 : M1.wf m1 n1 = true) (hwf2 : M2.wf m2 n2 = true)
    (h1 : isNetwork m1 n1 M1 = true) (h2 : isNetwork m2 n2 M2 = true) :
    isNetwork (m1 + (m2 - 1)) ((n1 - 1) + n2) P = true :=
  sum2b_orc (signed := true) h hwf1 hwf2 h1 h2

/-! ## 3. Non-vacuity and worked instances -/

/-- a 1-sum evaluated by the oracles directly -/
example : (compose1 [(2, 2, [[1, 1], [1, 0]]), (1, 1, [[1]])]) = (3, 3, [[1, 1, 0], [1, 0, 0], [0, 0, 1]]) ∧
    isGraphic 3 3 [[1, 1, 0], [1, 0, 0], [0, 0, 1]] = true ∧
    isGraphic 2 2 [[1, 1], [1, 0]] = true ∧ isGraphic 1 1 [[1]] = true := by decide

example : (compose1 [(2, 2, [[1, -1], [0, 1]]), (1, 2, [[-1, 1]])]) = (3, 4, [[1, -1, 0, 0], [0, 1, 0, 0], [0, 0, -1, 1]]) ∧
    isNetwork 3 4 [[1, -1, 0, 0], [0, 1, 0, 0], [0, 0, -1, 1]] = true ∧
    isNetwork 2 2 [[1, -1], [0, 1]] = true ∧ isNetwork 1 2 [[-1, 1]] = true := by decide

/-- `⇐` applied: the verdict on the sum from the verdicts on the summands -/
example : isGraphic 6 6 (compose1 [(3, 3, [[1, 1, 0], [1, 0, 1], [0, 1, 1]]), (3, 3, [[1, 1, 0], [1, 0, 1], [0, 1, 1]])]).2.2 = true :=
  (sum1_gra 3 3 _ 3 3 _ (by decide) (by decide)).mpr (by decide)

/-- `⇒` used contrapositively: the Fano matrix is not graphic, so no 1-sum with it is -/
example : isGraphic (compose1 [(3, 4, [[1, 1, 0, 1], [1, 0, 1, 1], [0, 1, 1, 1]]), (1, 1, [[1]])]).1
    (compose1 [(3, 4, [[1, 1, 0, 1], [1, 0, 1, 1], [0, 1, 1, 1]]), (1, 1, [[1]])]).2.1
    (compose1 [(3, 4, [[1, 1, 0, 1], [1, 0, 1, 1], [0, 1, 1, 1]]), (1, 1, [[1]])]).2.2 = false := by
  rw [Bool.eq_false_iff, Ne, sum1_gra 3 4 _ 1 1 _ (by decide) (by decide)]
  decide

/-- the same for `net`: `[[1,1],[1,-1]]` is not a network matrix -/
example : isNetwork (compose1 [(1, 1, [[-1]]), (2, 2, [[1, 1], [1, -1]])]).1 (compose1 [(1, 1, [[-1]]), (2, 2, [[1, 1], [1, -1]])]).2.1
    (compose1 [(1, 1, [[-1]]), (2, 2, [[1, 1], [1, -1]])]).2.2 = false := by
  rw [Bool.eq_false_iff, Ne, sum1_net 1 1 _ 2 2 _ (by decide) (by decide)]
  decide

/-! ### the 2-sum statements -/

/-- binary 2-sum (first layout) of the cycle matrix of `K4` (marker row 2) and `[[1,1],[1,0]]` (marker column 0) … -/
example : C12.okEq (compose2a 2 3 3 [[1, 1, 0], [1, 0, 1], [0, 1, 1]] 2 2 [[1, 1], [1, 0]] 2 0)
    [[1, 1, 0, 0], [1, 0, 1, 0], [0, 1, 1, 1], [0, 1, 1, 0]] = true := by decide

/-- … the theorem applies to it, and the verdict agrees with direct evaluation of the oracle -/
example : isGraphic 4 4 [[1, 1, 0, 0], [1, 0, 1, 0], [0, 1, 1, 1], [0, 1, 1, 0]] = true :=
  sum2a_gra (m1 := 3) (n1 := 3) (M1 := [[1, 1, 0], [1, 0, 1], [0, 1, 1]]) (m2 := 2) (n2 := 2) (M2 := [[1, 1], [1, 0]])
    (r := 2) (c := 0) (by decide) (by decide) (by decide) (by decide) (by decide)

example : isGraphic 4 4 [[1, 1, 0, 0], [1, 0, 1, 0], [0, 1, 1, 1], [0, 1, 1, 0]] = true := by decide

/-- ternary 2-sum (first layout) of two network matrices, marker row 0 and marker column 0 -/
example : C12.okEq (compose2a 3 3 2 [[-1, 1], [1, 0], [0, -1]] 2 2 [[1, -1], [0, 1]] 0 0)
    [[1, 0, 0], [0, -1, 0], [-1, 1, -1], [0, 0, 1]] = true := by decide

example : isNetwork 4 3 [[1, 0, 0], [0, -1, 0], [-1, 1, -1], [0, 0, 1]] = true :=
  sum2a_net (m1 := 3) (n1 := 2) (M1 := [[-1, 1], [1, 0], [0, -1]]) (m2 := 2) (n2 := 2) (M2 := [[1, -1], [0, 1]])
    (r := 0) (c := 0) (by decide) (by decide) (by decide) (by decide) (by decide)

example : isNetwork 4 3 [[1, 0, 0], [0, -1, 0], [-1, 1, -1], [0, 0, 1]] = true := by decide

/-- second layout -/
example : C12.okEq (compose2b 2 3 3 [[1, 1, 0], [1, 0, 1], [0, 1, 1]] 2 2 [[1, 1], [0, 1]] 2 0)
    [[1, 1, 0, 0], [1, 0, 1, 1], [0, 1, 1, 1], [0, 0, 0, 1]] = true := by decide

example : isGraphic 4 4 [[1, 1, 0, 0], [1, 0, 1, 1], [0, 1, 1, 1], [0, 0, 0, 1]] = true :=
  sum2b_gra (m1 := 3) (n1 := 3) (M1 := [[1, 1, 0], [1, 0, 1], [0, 1, 1]]) (m2 := 2) (n2 := 2) (M2 := [[1, 1], [0, 1]])
    (c := 2) (r := 0) (by decide) (by decide) (by decide) (by decide) (by decide)

example : C12.okEq (compose2b 3 3 2 [[-1, 1], [1, 0], [0, -1]] 2 2 [[1, -1], [0, 1]] 1 0)
    [[-1, 1, -1], [1, 0, 0], [0, -1, 1], [0, 0, 1]] = true := by decide

example : isNetwork 4 3 [[-1, 1, -1], [1, 0, 0], [0, -1, 1], [0, 0, 1]] = true :=
  sum2b_net (m1 := 3) (n1 := 2) (M1 := [[-1, 1], [1, 0], [0, -1]]) (m2 := 2) (n2 := 2) (M2 := [[1, -1], [0, 1]])
    (c := 1) (r := 0) (by decide) (by decide) (by decide) (by decide) (by decide)

example : isGraphic 4 4 [[1, 1, 0, 0], [1, 0, 1, 1], [0, 1, 1, 1], [0, 0, 0, 1]] = true ∧
    isNetwork 4 3 [[-1, 1, -1], [1, 0, 0], [0, -1, 1], [0, 0, 1]] = true := by decide

/-- the 2-sum entries are claimed in one characteristic only -/
example : sumRel "2" 3 .gra = .none ∧ sumRel "2" 2 .net = .none := by decide


end Cmr.Props.C10GraphicSums
