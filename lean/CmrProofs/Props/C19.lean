/-
  Property C19 — recognition is pure: results depend only on the arguments.

  Model: every recognizer of `Cmr/*` is a Lean function of its arguments — the model has no environment at all — so the
  only state a call of the C library can leave behind in the environment object is the scratch allocator, whose state
  after any completed (well-bracketed) call equals the state before (`balanced_restores`, C11).  What remains observable
  by a later call is therefore at most the *content* of scratch memory; the check varies exactly that (fill patterns),
  the history, repetition and concurrent environments, and demands identical results.
-/
import CmrProofs.Props.C11

namespace Cmr.Props.C19
open Cmr Cmr.Props.C11

/-- After any well-bracketed sequence of scratch allocations that runs to completion, a second identical sequence
finds the allocator in an equivalent state and therefore behaves identically (same success, same address offsets are
implied by `run_congr`): the allocator cannot carry history from one completed call to the next. -/
theorem allocator_history_free (hdr : Nat) (s s' : Stack) (ops : List StackOp)
    (hinv : Inv s) (hwb : WellBracketed ops) (hrun : Stack.run hdr s ops = some s') :
    s'.cur = s.cur ∧ s'.usage = s.usage ∧ s'.chunks = s.chunks ∧ ∀ k, s'.topAt k = s.topAt k :=
  balanced_restores hinv hwb hrun

/-- … in particular from the initial state: usage is back at 0. -/
theorem usage_zero_after_call (hdr : Nat) (s' : Stack) (ops : List StackOp)
    (hwb : WellBracketed ops) (hrun : Stack.run hdr Stack.init ops = some s') : s'.usage = 0 := by
  have := (balanced_restores inv_init hwb hrun).2.1
  simpa [usage_init] using this

example : (Stack.run 12 Stack.init [.alloc 40, .alloc 5000, .free, .free]).map Stack.usage = some 0 := by decide

end Cmr.Props.C19
