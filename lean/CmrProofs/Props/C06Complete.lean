/-
  C06 — completeness of the brute-force network oracle (a 'no' of the oracle is trustworthy).  The proofs are in
  `CmrProofs/Props/C05Complete.lean` (shared with the unsigned case); restated here so that the C06 audit covers them.
-/
import CmrProofs.Props.C05Complete
namespace Cmr.Props.C06Complete
open Cmr Cmr.Props.C05Complete

theorem isNetwork_complete {m n : Nat} {g : Graph} {T coT : List Edge} {M : Mat} (hm : T.length = m) (hn : coT.length = n)
    (hsp : isSpanningForest g T = true) (hM : cycleMatrix T coT true = some M) : M.wf m n = true ∧ isNetwork m n M = true :=
  isNetwork_complete' hm hn hsp hM

theorem certificate_implies_oracle {m n : Nat} {M : Mat} {g : Graph} {forest coforest : List Nat}
    (h : checkGraphCert m n M g forest coforest true = .ok ()) : isNetwork m n M = true :=
  isNetwork_of_checkGraphCert h

theorem oracle_no_is_trustworthy {m n : Nat} {M : Mat} (h : isNetwork m n M = false) :
    ¬ ∃ (g : Graph) (T coT : List Edge), T.length = m ∧ coT.length = n ∧ isSpanningForest g T = true ∧
      cycleMatrix T coT true = some M :=
  not_realisable_of_isNetwork_false h

end Cmr.Props.C06Complete
