/-
  Scalar kernels of the C library, regenerated from /repo's headers by tools/c2lean.py on every run (CmrGen/Kernels.lean).
  The theorems below are therefore about what the code says *now*: a change of `projectSignedHash`, `RANGE_SIGNED_HASH`,
  `moduloTernary`, `moduloNonnegative` or of the element encoding that breaks one of them breaks this file.

  Serves C08 / C11 (hashing of lines without undefined behaviour and with a canonical residue: the incremental hash updates of
  the series-parallel and graphicness code are consistent), C13 (the modulo kernels are the field arithmetic of the pivot model)
  and C03/C04/C08 (row/column element encoding round-trips).

  Proof scheme (kept independent of the textual shape of the generated definitions): `unfold`, then `kern_norm` (inline the
  `let`s, evaluate the constant, turn `decide`/`&&`/`||`/`==` into propositions), then name the single `Int.tmod` term and case
  on the sign of its first argument (`tmod_cases'`, which expresses it through `%`), then `kern_close` (split every remaining
  `if`, `omega`).  The order, the number and the duplication of the generated conjuncts do not matter.
-/
import CmrGen.Kernels
import Cmr.Pivot
namespace Cmr.Props.Kernels
open CmrGen

private theorem tmod_cases (a m : Int) : (0 ≤ a ∧ Int.tmod a m = a % m) ∨ (a < 0 ∧ Int.tmod a m = -((-a) % m)) := by
  by_cases h : 0 ≤ a
  · left; exact ⟨h, Int.tmod_eq_emod_of_nonneg h⟩
  · right
    have h' : 0 ≤ -a := by omega
    refine ⟨by omega, ?_⟩
    have := Int.neg_tmod (-a) m
    rw [Int.neg_neg] at this
    rw [this, Int.tmod_eq_emod_of_nonneg h']

/-- `tmod_cases` for a `Int.tmod` term that has been named by `generalize ht : Int.tmod a _ = t` (the modulus is read off `ht`,
so the proofs do not have to spell it). -/
private theorem tmod_cases' {a m t : Int} (h : Int.tmod a m = t) :
    (0 ≤ a ∧ t = a % m) ∨ (a < 0 ∧ t = -((-a) % m)) := by
  subst h; exact tmod_cases a m

private theorem tdiv_const : Int.tdiv 9223372036854775807 4 = 2305843009213693951 := by decide

/-- Normal form of the generated definitions: `let`s inlined, the constant evaluated, Boolean connectives and `decide`s turned
into propositions, `if`s on literal conditions decided.  (`omega` silently drops a fact that contains `True`/`False` or a
Boolean, hence the propositional clean-up lemmas.) -/
local macro "kern_norm" : tactic =>
  `(tactic| simp only [tdiv_const, decide_eq_true_eq, decide_eq_false_iff_not, Bool.and_eq_true, Bool.or_eq_true,
      Bool.not_eq_true', Bool.not_eq_true, Bool.ite_eq_true_distrib, Bool.if_true_right, Bool.if_true_left,
      beq_iff_eq, bne_iff_ne, beq_eq_false_iff_ne, ne_eq, Bool.and_true, Bool.true_and,
      and_true, true_and, and_self, false_and, and_false, or_false, false_or, true_or, or_true,
      not_false_eq_true, not_true_eq_false, if_true, if_false,
      ↓reduceIte, Int.reduceEq, Int.reduceLT, Int.reduceNeg] at *)

/-- close a goal that is linear arithmetic (with `%`, `/` by literals) under `if`s -/
local macro "kern_close" : tactic => `(tactic| ((repeat' split) <;> (try kern_norm) <;> omega))

/-! ### hashing -/

/-- the modulus of the hash projection -/
def hashModulus : Int := 2 * RANGE_SIGNED_HASH - 1

theorem range_value : 0 < RANGE_SIGNED_HASH ∧ 4 * RANGE_SIGNED_HASH ≤ 9223372036854775807 := by
  unfold RANGE_SIGNED_HASH; decide

/-- The result is strictly inside (-RANGE, RANGE), for every argument. -/
theorem projectSignedHash_range (v : Int) :
    -RANGE_SIGNED_HASH < projectSignedHash v ∧ projectSignedHash v < RANGE_SIGNED_HASH := by
  unfold projectSignedHash RANGE_SIGNED_HASH
  kern_norm
  generalize ht : Int.tmod v _ = t
  rcases tmod_cases' ht with h | h <;> kern_close

/-- The result is congruent to the argument modulo `2*RANGE-1`: it is the canonical representative of the residue class. -/
theorem projectSignedHash_congr (v : Int) : (projectSignedHash v - v) % hashModulus = 0 := by
  unfold projectSignedHash hashModulus RANGE_SIGNED_HASH
  kern_norm
  generalize ht : Int.tmod v _ = t
  rcases tmod_cases' ht with h | h <;> kern_close

/-- No intermediate result overflows a `long long` as long as the argument is at most three times the range in absolute value —
which is what the callers pass: the sum or difference of two projected values, or three times a projected value. -/
theorem projectSignedHash_fits_of_bound (v : Int) (h : -(3 * RANGE_SIGNED_HASH) ≤ v ∧ v ≤ 3 * RANGE_SIGNED_HASH) :
    projectSignedHash_fits v = true := by
  unfold projectSignedHash_fits
  unfold RANGE_SIGNED_HASH at h
  kern_norm
  generalize ht : Int.tmod v _ = t
  rcases tmod_cases' ht with h | h <;> kern_close

/-- the callers' arguments are within that bound and are themselves computed without overflow -/
theorem callers_within_bound (a b : Int)
    (ha : -RANGE_SIGNED_HASH < a ∧ a < RANGE_SIGNED_HASH) (hb : -RANGE_SIGNED_HASH < b ∧ b < RANGE_SIGNED_HASH) :
    (-(3 * RANGE_SIGNED_HASH) ≤ a + b ∧ a + b ≤ 3 * RANGE_SIGNED_HASH) ∧
    (-(3 * RANGE_SIGNED_HASH) ≤ a - b ∧ a - b ≤ 3 * RANGE_SIGNED_HASH) ∧
    (-(3 * RANGE_SIGNED_HASH) ≤ 3 * a ∧ 3 * a ≤ 3 * RANGE_SIGNED_HASH) ∧
    (-9223372036854775808 ≤ 3 * a ∧ 3 * a ≤ 9223372036854775807) := by
  unfold RANGE_SIGNED_HASH at *
  simp only [tdiv_const] at *
  omega

/-- Incremental updates are consistent: adding a line's hash vector entry and later subtracting it again gives back the hash one
started from (two equal lines reached through different update histories get the same hash). -/
theorem projectSignedHash_update_roundtrip (h x : Int)
    (hh : -RANGE_SIGNED_HASH < h ∧ h < RANGE_SIGNED_HASH) :
    projectSignedHash (projectSignedHash (h + x) - x) = h := by
  have r1 := projectSignedHash_range (projectSignedHash (h + x) - x)
  have c1 := projectSignedHash_congr (projectSignedHash (h + x) - x)
  have c2 := projectSignedHash_congr (h + x)
  unfold hashModulus RANGE_SIGNED_HASH at *
  simp only [tdiv_const] at *
  omega

/-! ### modulo kernels -/

theorem moduloTernary_three (p : Int) : moduloTernary p 3 = Cmr.mod3 p := by
  unfold moduloTernary Cmr.mod3
  kern_norm
  generalize ht : Int.tmod p _ = t
  rcases tmod_cases' ht with h | h <;> kern_close

theorem moduloTernary_two (p : Int) : moduloTernary p 2 = Cmr.mod2 p := by
  unfold moduloTernary Cmr.mod2
  kern_norm
  generalize ht : Int.tmod p _ = t
  rcases tmod_cases' ht with h | h <;> kern_close

theorem moduloNonnegative_spec (p q : Int) (hq : 0 < q) : moduloNonnegative p q = p % q := by
  have hq0 : (q = 0) = False := by simp only [eq_iff_iff, iff_false]; omega
  have hq1 : (q < 0) = False := by simp only [eq_iff_iff, iff_false]; omega
  unfold moduloNonnegative
  kern_norm
  simp only [hq0, hq1, if_false]
  generalize ht : Int.tmod p _ = t
  -- the modulus is symbolic here, so `omega` needs the facts about `p % q` and `-p % q` spelled out
  have h1 := Int.emod_nonneg p (by omega : q ≠ 0)
  have h2 := Int.emod_lt_of_pos p hq
  have h3 : -p % q = if p % q = 0 then 0 else q - p % q := by
    have hn : (q.natAbs : Int) = q := Int.natAbs_of_nonneg (by omega)
    simp only [Int.neg_emod, Int.dvd_iff_emod_eq_zero, hn]
  rcases tmod_cases' ht with h | h <;> kern_close

theorem modulo_fits (p : Int) (hp : -2147483648 ≤ p ∧ p ≤ 2147483647) :
    moduloTernary_fits p 3 = true ∧ moduloTernary_fits p 2 = true ∧ moduloNonnegative_fits p 3 = true ∧ moduloNonnegative_fits p 2 = true := by
  unfold moduloTernary_fits moduloNonnegative_fits
  refine ⟨?_, ?_, ?_, ?_⟩ <;>
    (kern_norm
     generalize ht : Int.tmod p _ = t
     rcases tmod_cases' ht with h | h <;> kern_close)

/-! ### row / column elements -/

theorem row_roundtrip (r : Int) (h : 0 ≤ r ∧ r < 2147483647) :
    CMRrowToElement_fits r = true ∧ CMRelementToRowIndex (CMRrowToElement r) = r ∧
    CMRelementIsRow (CMRrowToElement r) = 1 ∧ CMRelementIsColumn (CMRrowToElement r) = 0 ∧ CMRelementIsValid (CMRrowToElement r) = 1 := by
  unfold CMRrowToElement_fits CMRelementToRowIndex CMRrowToElement CMRelementIsRow CMRelementIsColumn CMRelementIsValid
  kern_norm
  kern_close

theorem column_roundtrip (c : Int) (h : 0 ≤ c ∧ c < 2147483647) :
    CMRcolumnToElement_fits c = true ∧ CMRelementToColumnIndex (CMRcolumnToElement c) = c ∧
    CMRelementIsColumn (CMRcolumnToElement c) = 1 ∧ CMRelementIsRow (CMRcolumnToElement c) = 0 ∧ CMRelementIsValid (CMRcolumnToElement c) = 1 := by
  unfold CMRcolumnToElement_fits CMRelementToColumnIndex CMRcolumnToElement CMRelementIsRow CMRelementIsColumn CMRelementIsValid
  kern_norm
  kern_close

theorem transpose_swaps (e : Int) :
    CMRelementTranspose (CMRelementTranspose e) = e ∧ CMRelementIsRow (CMRelementTranspose e) = CMRelementIsColumn e := by
  unfold CMRelementTranspose CMRelementIsRow CMRelementIsColumn
  kern_norm
  kern_close

theorem transpose_row_column (r : Int) : CMRelementTranspose (CMRrowToElement r) = CMRcolumnToElement r := by
  unfold CMRelementTranspose CMRrowToElement CMRcolumnToElement; omega

example : projectSignedHash 5 = 5 ∧ projectSignedHash (RANGE_SIGNED_HASH + 3) = 3 - RANGE_SIGNED_HASH + 1 ∧ projectSignedHash_fits (-(3 * RANGE_SIGNED_HASH)) = true := by decide
example : moduloTernary (-4) 3 = -1 ∧ moduloTernary 5 3 = -1 ∧ moduloNonnegative (-4) 3 = 2 := by decide

end Cmr.Props.Kernels
