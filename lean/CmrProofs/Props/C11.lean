/-
  Property C11 — the LIFO scratch allocator restores its state on well-bracketed use.

  Model: `Cmr/Stack.lean` (`Stack.alloc` = `_CMRallocStack`, `Stack.free` = `_CMRfreeStack`, `Stack.usage` =
  `CMRgetStackUsage`; `hdr` = 8 in NDEBUG builds, 12 in assertion-enabled builds).
  Statements: an invariant `Inv` of all reachable states (`inv_init`, `alloc_inv`, `free_inv`, `run_inv`,
  `reachable_inv`); `free` is defined right after `alloc` (`free_after_alloc_defined`) and the pair restores the
  observable state (`alloc_free_restores`, `alloc_free_equiv`); so does every well-bracketed sequence
  (`balanced_restores`, general depth form `depth_restores`; the depth-counter definition `WellBracketed` agrees
  with the inductive one, `wellBracketed_iff_nested`); observable equality `Equiv` (current stack, usage, chunks,
  free bytes per stack) is respected by `alloc`, `free` and `run` (`alloc_congr`, `free_congr`, `run_congr`);
  `alloc` is total below the 2^40 assertion (`alloc_defined_of_lt`); usage = live bytes + bytes left on skipped
  stacks (`usage_eq_chunks`, `usage_zero_of_no_chunks`, `usage_init`); and the alignment defect D8
  (`alignment_counterexample`, `alignment_counterexample_ndebug`).
  Tie: `wrap_stack.c` logs every `_CMRallocStack`/`_CMRfreeStack`; the trace of each public call must be
  well-bracketed and `Stack.usage` must equal `CMRgetStackUsage` before and after.
-/
import Cmr.Stack

set_option linter.unusedSimpArgs false
set_option linter.unusedVariables false

namespace Cmr.Props.C11
open Cmr

/-! ### Arithmetic and list helpers -/

theorem stackSize_eq (k : Nat) : stackSize k = 4096 * 2 ^ k := by
  simp [stackSize, firstStackSize, Nat.shiftLeft_eq]

theorem stackSize_pos (k : Nat) : 0 < stackSize k := by
  rw [stackSize_eq]; have := Nat.two_pow_pos k; omega

theorem getD_of_lt {l : List Nat} {k : Nat} (h : k < l.length) (d d' : Nat) : l.getD k d = l.getD k d' := by
  simp [List.getD_eq_getElem?_getD, List.getElem?_eq_getElem h]

theorem getD_set (l : List Nat) (k j v d : Nat) :
    (l.set k v).getD j d = if j = k ∧ k < l.length then v else l.getD j d := by
  simp only [List.getD_eq_getElem?_getD, List.getElem?_set]
  by_cases h1 : k = j
  · subst h1
    by_cases h2 : k < l.length <;> simp [h2]
  · have : ¬ j = k := fun h => h1 h.symm
    simp [h1, this]

theorem length_extendTops (tops : List Nat) (k : Nat) :
    (extendTops tops k).length = tops.length + (k + 1 - tops.length) := by
  simp [extendTops]

theorem lt_length_extendTops (tops : List Nat) (k : Nat) : k < (extendTops tops k).length := by
  rw [length_extendTops]; omega

theorem getD_extendTops (tops : List Nat) (k j : Nat) :
    (extendTops tops k).getD j (stackSize j) = tops.getD j (stackSize j) := by
  simp only [extendTops, List.getD_eq_getElem?_getD, List.getElem?_append]
  by_cases h : j < tops.length
  · simp [h]
  · simp only [h, if_false]
    have h' : tops.length ≤ j := Nat.le_of_not_lt h
    rw [List.getElem?_eq_none (by omega : tops.length ≤ j)]
    by_cases h2 : j - tops.length < k + 1 - tops.length
    · simp [h2]
      congr 1; omega
    · simp [h2]

/-! ### The `while` loop of `_CMRfreeStack` -/

theorem popEmpty_spec (tops : List Nat) (k : Nat) :
    popEmpty tops k ≤ k ∧ (∀ j, popEmpty tops k < j → j ≤ k → tops.getD j 0 = stackSize j) ∧
      (popEmpty tops k = 0 ∨ tops.getD (popEmpty tops k) 0 ≠ stackSize (popEmpty tops k)) := by
  induction k with
  | zero =>
    refine ⟨by simp [popEmpty], ?_, by simp [popEmpty]⟩
    intro j h1 h2; simp [popEmpty] at h1; omega
  | succ k ih =>
    unfold popEmpty
    by_cases h : tops.getD (k + 1) 0 = stackSize (k + 1)
    · simp only [h, beq_self_eq_true, if_true]
      obtain ⟨h1, h2, h3⟩ := ih
      refine ⟨by omega, ?_, h3⟩
      intro j hj hjk
      by_cases hj' : j = k + 1
      · subst hj'; exact h
      · exact h2 j hj (by omega)
    · have : (tops.getD (k + 1) 0 == stackSize (k + 1)) = false := by simpa using h
      simp only [this]
      refine ⟨Nat.le_refl _, ?_, Or.inr h⟩
      intro j hj hjk
      simp at hj; omega

/-- The loop's result is determined by its specification. -/
theorem popEmpty_unique (f : Nat → Nat) (k c₁ c₂ : Nat)
    (h₁ : c₁ ≤ k ∧ (∀ j, c₁ < j → j ≤ k → f j = stackSize j) ∧ (c₁ = 0 ∨ f c₁ ≠ stackSize c₁))
    (h₂ : c₂ ≤ k ∧ (∀ j, c₂ < j → j ≤ k → f j = stackSize j) ∧ (c₂ = 0 ∨ f c₂ ≠ stackSize c₂)) : c₁ = c₂ := by
  obtain ⟨a1, a2, a3⟩ := h₁
  obtain ⟨b1, b2, b3⟩ := h₂
  rcases Nat.lt_trichotomy c₁ c₂ with h | h | h
  · rcases b3 with b3 | b3
    · omega
    · exact absurd (a2 c₂ h b1) b3
  · exact h
  · rcases a3 with a3 | a3
    · omega
    · exact absurd (b2 c₁ h a1) a3

/-! ### Ghost chunk list -/

/-- bytes taken on stack `k` by the live chunks -/
def onStack (k : Nat) : List (Nat × Nat) → Nat
  | [] => 0
  | c :: cs => (if c.1 = k then c.2 else 0) + onStack k cs

theorem le_onStack_of_mem {cs : List (Nat × Nat)} {c : Nat × Nat} (h : c ∈ cs) : c.2 ≤ onStack c.1 cs := by
  induction cs with
  | nil => cases h
  | cons x xs ih =>
    simp only [onStack]
    rcases List.mem_cons.mp h with rfl | h
    · simp
    · have := ih h; omega

theorem exists_mem_of_onStack_pos {cs : List (Nat × Nat)} {k : Nat} (h : 0 < onStack k cs) :
    ∃ c ∈ cs, c.1 = k := by
  induction cs with
  | nil => simp [onStack] at h
  | cons x xs ih =>
    simp only [onStack] at h
    by_cases hx : x.1 = k
    · exact ⟨x, List.mem_cons_self, hx⟩
    · simp only [hx, if_false, Nat.zero_add] at h
      obtain ⟨c, hc, hk⟩ := ih h
      exact ⟨c, List.mem_cons_of_mem _ hc, hk⟩

/-! ### The invariant -/

/-- Invariant of every reachable allocator state. `topAt k` reads `tops[k]` for allocated stacks and is
`stackSize k` beyond, so the statements quantify over all `k`. -/
structure Inv (s : Stack) : Prop where
  /-- the current stack is allocated -/
  cur_lt : s.cur < s.tops.length
  /-- every stack above the current one is full (nothing taken) -/
  above_full : ∀ k, s.cur < k → s.topAt k = stackSize k
  /-- the current stack has something taken unless it is stack 0 -/
  cur_nonempty : s.cur = 0 ∨ s.topAt s.cur < stackSize s.cur
  /-- live chunks have positive size -/
  chunk_pos : ∀ c ∈ s.chunks, 0 < c.2
  /-- live chunks lie on stacks up to the current one -/
  chunk_le : ∀ c ∈ s.chunks, c.1 ≤ s.cur
  /-- LIFO order: stack indices are non-increasing from the most recent chunk to the oldest -/
  sorted : s.chunks.Pairwise (fun a b => b.1 ≤ a.1)
  /-- per stack, taken bytes plus free bytes is the stack size -/
  sum_eq : ∀ k, onStack k s.chunks + s.topAt k = stackSize k

theorem topAt_of_lt {s : Stack} {k : Nat} (h : k < s.tops.length) : s.tops.getD k 0 = s.topAt k :=
  getD_of_lt h _ _

theorem Inv.top_le {s : Stack} (h : Inv s) (k : Nat) : s.topAt k ≤ stackSize k := by
  have := h.sum_eq k; omega

theorem Inv.tops_le {s : Stack} (h : Inv s) (k : Nat) (hk : k < s.tops.length) : s.tops[k] ≤ stackSize k := by
  have := h.top_le k
  simpa [Stack.topAt, List.getD_eq_getElem?_getD, List.getElem?_eq_getElem hk] using this

theorem Inv.taken_eq {s : Stack} (h : Inv s) (k : Nat) : stackSize k - s.topAt k = onStack k s.chunks := by
  have := h.sum_eq k; omega

theorem Inv.tops_full_above {s : Stack} (h : Inv s) (k : Nat) (hc : s.cur < k) (hk : k < s.tops.length) :
    s.tops[k] = stackSize k := by
  have := h.above_full k hc
  simpa [Stack.topAt, List.getD_eq_getElem?_getD, List.getElem?_eq_getElem hk] using this

/-- The most recent chunk lies on the current stack. -/
theorem Inv.head_on_cur {s : Stack} (h : Inv s) {k r : Nat} {rest : List (Nat × Nat)}
    (hc : s.chunks = (k, r) :: rest) : k = s.cur := by
  have hle : k ≤ s.cur := h.chunk_le (k, r) (by simp [hc])
  rcases h.cur_nonempty with h0 | h0
  · omega
  · have hs := h.sum_eq s.cur
    obtain ⟨c, hcm, hck⟩ := exists_mem_of_onStack_pos (cs := s.chunks) (k := s.cur) (by omega)
    rw [hc] at hcm
    rcases List.mem_cons.mp hcm with rfl | hcm
    · exact hck
    · have hp := h.sorted
      rw [hc, List.pairwise_cons] at hp
      have := hp.1 c hcm
      simp at this; omega

theorem inv_init : Inv Stack.init where
  cur_lt := by simp [Stack.init]
  above_full := by
    intro k hk
    simp only [Stack.init] at hk
    simp only [Stack.topAt, Stack.init, List.getD_eq_getElem?_getD]
    rw [List.getElem?_eq_none (by simp; omega)]; rfl
  cur_nonempty := Or.inl rfl
  chunk_pos := by simp [Stack.init]
  chunk_le := by simp [Stack.init]
  sorted := by simp [Stack.init]
  sum_eq := by
    intro k
    simp only [Stack.topAt, Stack.init, onStack, List.getD_eq_getElem?_getD]
    cases k with
    | zero => simp [stackSize]
    | succ k => simp

/-! ### Specifications of `alloc` and `free` in terms of the observable state -/

/-- the bytes a request takes: size rounded up to 4, plus the header -/
def reqOf (hdr size : Nat) : Nat := (if size < 4 then 4 else size) + hdr

theorem reqOf_pos (hdr size : Nat) : 0 < reqOf hdr size := by
  unfold reqOf; split <;> omega

theorem skipCount_some {s : Stack} {req d : Nat} (h : skipCount s req = some d) :
    d < 64 ∧ req ≤ s.topAt (s.cur + d) := by
  unfold skipCount at h
  have h1 := List.find?_some h
  have h2 := List.mem_of_find?_eq_some h
  exact ⟨List.mem_range.mp h2, by simpa using h1⟩

theorem topAt_mk_set_extend (tops : List Nat) (k v c : Nat) (ch : List (Nat × Nat)) (j : Nat) :
    (Stack.mk ((extendTops tops k).set k v) c ch).topAt j = if j = k then v else tops.getD j (stackSize j) := by
  simp only [Stack.topAt, getD_set, lt_length_extendTops, and_true, getD_extendTops]

theorem alloc_eq (hdr : Nat) (s : Stack) (size : Nat) :
    s.alloc hdr size = (skipCount s (reqOf hdr size)).map (fun d =>
      (⟨(extendTops s.tops (s.cur + d)).set (s.cur + d) (s.topAt (s.cur + d) - reqOf hdr size), s.cur + d,
        (s.cur + d, reqOf hdr size) :: s.chunks⟩,
       (s.topAt (s.cur + d) - (if size < 4 then 4 else size)) % 8)) := by
  unfold Stack.alloc reqOf
  simp only []
  cases skipCount s ((if size < 4 then 4 else size) + hdr) with
  | none => rfl
  | some d =>
    have : (extendTops s.tops (s.cur + d)).getD (s.cur + d) 0 = s.topAt (s.cur + d) := by
      rw [getD_of_lt (lt_length_extendTops _ _) 0 (stackSize (s.cur + d)), getD_extendTops]; rfl
    simp only [Option.map, this]

theorem alloc_spec {hdr size : Nat} {s s' : Stack} {a : Nat} (h : s.alloc hdr size = some (s', a)) :
    ∃ d, skipCount s (reqOf hdr size) = some d ∧
      reqOf hdr size ≤ s.topAt (s.cur + d) ∧
      s'.cur = s.cur + d ∧ s'.chunks = (s.cur + d, reqOf hdr size) :: s.chunks ∧
      s'.cur < s'.tops.length ∧
      (∀ j, s'.topAt j = if j = s.cur + d then s.topAt j - reqOf hdr size else s.topAt j) ∧
      a = (s.topAt (s.cur + d) - (if size < 4 then 4 else size)) % 8 := by
  rw [alloc_eq] at h
  cases hd : skipCount s (reqOf hdr size) with
  | none => simp [hd] at h
  | some d =>
    simp only [hd, Option.map, Option.some.injEq, Prod.mk.injEq] at h
    obtain ⟨rfl, rfl⟩ := h
    refine ⟨d, rfl, (skipCount_some hd).2, rfl, rfl, ?_, ?_, rfl⟩
    · simp [lt_length_extendTops]
    · intro j
      rw [topAt_mk_set_extend]
      by_cases hj : j = s.cur + d
      · subst hj; simp
      · simp [hj, Stack.topAt]

theorem free_spec {s : Stack} {k req : Nat} {rest : List (Nat × Nat)} (hc : s.chunks = (k, req) :: rest)
    (hk : k < s.tops.length) :
    ∃ s', s.free = some s' ∧ s'.chunks = rest ∧ s'.tops.length = s.tops.length ∧
      (∀ j, s'.topAt j = if j = k then s.topAt j + req else s.topAt j) ∧
      s'.cur ≤ k ∧ (∀ j, s'.cur < j → j ≤ k → s'.topAt j = stackSize j) ∧
      (s'.cur = 0 ∨ s'.topAt s'.cur ≠ stackSize s'.cur) := by
  refine ⟨_, by unfold Stack.free; rw [hc], rfl, by simp, ?_, ?_⟩
  · intro j
    simp only [Stack.topAt, getD_set, hk, and_true]
    by_cases hj : j = k
    · subst hj; simp only [if_true]; rw [getD_of_lt hk 0 (stackSize j)]
    · simp [hj]
  · obtain ⟨p1, p2, p3⟩ := popEmpty_spec (s.tops.set k (s.tops.getD k 0 + req)) k
    have hlen : ∀ j, j ≤ k → j < (s.tops.set k (s.tops.getD k 0 + req)).length := by
      intro j hj; simp; omega
    refine ⟨p1, ?_, ?_⟩
    · intro j h1 h2
      have := p2 j h1 h2
      rwa [getD_of_lt (hlen j h2) 0 (stackSize j)] at this
    · rcases p3 with p3 | p3
      · exact Or.inl p3
      · right
        rwa [getD_of_lt (hlen _ p1) 0 (stackSize _)] at p3

/-! ### The invariant is preserved -/

theorem alloc_inv {hdr size : Nat} {s s' : Stack} {a : Nat} (h : Inv s) (ha : s.alloc hdr size = some (s', a)) :
    Inv s' := by
  obtain ⟨d, -, hreq, hcur, hch, hlt, htop, -⟩ := alloc_spec ha
  have hpos := reqOf_pos hdr size
  refine ⟨hlt, ?_, ?_, ?_, ?_, ?_, ?_⟩
  · intro j hj
    rw [htop j, if_neg (by omega)]
    exact h.above_full j (by omega)
  · right
    rw [hcur, htop, if_pos rfl]
    have := h.top_le (s.cur + d)
    omega
  · intro c hc
    rw [hch] at hc
    rcases List.mem_cons.mp hc with rfl | hc
    · exact hpos
    · exact h.chunk_pos c hc
  · intro c hc
    rw [hch] at hc
    rcases List.mem_cons.mp hc with rfl | hc
    · simp [hcur]
    · have := h.chunk_le c hc; omega
  · rw [hch, List.pairwise_cons]
    refine ⟨?_, h.sorted⟩
    intro c hc
    have := h.chunk_le c hc
    simp only; omega
  · intro j
    rw [hch, htop j]
    simp only [onStack]
    have := h.sum_eq j
    by_cases hj : j = s.cur + d
    · subst hj; simp only [if_true]; omega
    · have hj' : ¬ s.cur + d = j := fun e => hj e.symm
      simp only [hj, hj', if_false]; omega

theorem free_inv {s s' : Stack} (h : Inv s) (hf : s.free = some s') : Inv s' := by
  cases hc : s.chunks with
  | nil => simp [Stack.free, hc] at hf
  | cons c rest =>
    obtain ⟨k, req⟩ := c
    have hk : k = s.cur := h.head_on_cur hc
    obtain ⟨t, ht, hch, hlen, htop, hle, hfull, hne⟩ := free_spec hc (hk ▸ h.cur_lt)
    rw [hf] at ht
    cases ht
    have hsorted := h.sorted
    rw [hc, List.pairwise_cons] at hsorted
    have hsum : ∀ j, onStack j s'.chunks + s'.topAt j = stackSize j := by
      intro j
      rw [hch, htop j]
      have := h.sum_eq j
      rw [hc] at this
      simp only [onStack] at this
      by_cases hj : j = k
      · subst hj; simp only [if_true] at this ⊢; omega
      · have hj' : ¬ k = j := fun e => hj e.symm
        simp only [hj, hj', if_false] at this ⊢; omega
    refine ⟨by have := h.cur_lt; omega, ?_, ?_, ?_, ?_, ?_, hsum⟩
    · intro j hj
      by_cases hjk : j ≤ k
      · exact hfull j hj hjk
      · rw [htop j, if_neg (by omega)]
        exact h.above_full j (by omega)
    · rcases hne with h0 | h0
      · exact Or.inl h0
      · right
        have := hsum s'.cur
        omega
    · intro c hcm
      rw [hch] at hcm
      exact h.chunk_pos c (by rw [hc]; exact List.mem_cons_of_mem _ hcm)
    · intro c hcm
      rw [hch] at hcm
      have h1 : c.1 ≤ k := by simpa using hsorted.1 c hcm
      have h2 : 0 < c.2 := h.chunk_pos c (by rw [hc]; exact List.mem_cons_of_mem _ hcm)
      have h3 := le_onStack_of_mem hcm
      false_or_by_contra
      rename_i hcon
      have h4 := hfull c.1 (by omega) h1
      have h5 := hsum c.1
      rw [hch] at h5
      omega
    · rw [hch]; exact hsorted.2

theorem step_inv {hdr : Nat} {s s' : Stack} {op : StackOp} (h : Inv s) (hs : s.step hdr op = some s') : Inv s' := by
  cases op with
  | alloc n =>
    simp only [Stack.step, Option.map_eq_some_iff] at hs
    obtain ⟨⟨t, a⟩, h1, rfl⟩ := hs
    exact alloc_inv h h1
  | free => exact free_inv h hs

theorem run_inv {hdr : Nat} {ops : List StackOp} {s s' : Stack} (h : Inv s) (hr : Stack.run hdr s ops = some s') :
    Inv s' := by
  induction ops generalizing s with
  | nil => simp only [Stack.run, Option.some.injEq] at hr; exact hr ▸ h
  | cons op ops ih =>
    simp only [Stack.run, Option.bind_eq_some_iff] at hr
    obtain ⟨t, h1, h2⟩ := hr
    exact ih (step_inv h h1) h2

/-- Every state reachable from the initial one satisfies the invariant. -/
theorem reachable_inv {hdr : Nat} {ops : List StackOp} {s : Stack} (hr : Stack.run hdr Stack.init ops = some s) :
    Inv s := run_inv inv_init hr

/-! ### Observable equivalence -/

/-- Two allocator states are observably equal: same current stack, usage, live chunks and free bytes of every
stack (`tops` itself may differ by trailing full stacks). -/
structure Equiv (s t : Stack) : Prop where
  cur : s.cur = t.cur
  usage : s.usage = t.usage
  chunks : s.chunks = t.chunks
  topAt : ∀ k, s.topAt k = t.topAt k

theorem Equiv.of_obs {s t : Stack} (h1 : s.cur = t.cur) (h2 : s.chunks = t.chunks)
    (h3 : ∀ k, s.topAt k = t.topAt k) : Equiv s t :=
  ⟨h1, by simp only [Stack.usage, h1, h3], h2, h3⟩

theorem Equiv.refl (s : Stack) : Equiv s s := ⟨rfl, rfl, rfl, fun _ => rfl⟩

theorem Equiv.symm {s t : Stack} (h : Equiv s t) : Equiv t s :=
  ⟨h.cur.symm, h.usage.symm, h.chunks.symm, fun k => (h.topAt k).symm⟩

theorem Equiv.trans {s t u : Stack} (h : Equiv s t) (h' : Equiv t u) : Equiv s u :=
  ⟨h.cur.trans h'.cur, h.usage.trans h'.usage, h.chunks.trans h'.chunks, fun k => (h.topAt k).trans (h'.topAt k)⟩

/-- `free` never fails right after `alloc`. -/
theorem free_after_alloc_defined {hdr size : Nat} {s s' : Stack} {a : Nat} (h : Inv s)
    (ha : s.alloc hdr size = some (s', a)) : ∃ s'', s'.free = some s'' := by
  obtain ⟨d, -, hreq, hcur, hch, hlt, htop, -⟩ := alloc_spec ha
  obtain ⟨t, ht, -⟩ := free_spec hch (hcur ▸ hlt)
  exact ⟨t, ht⟩

/-- `alloc` followed by `free` restores the observable state. -/
theorem alloc_free_equiv {hdr size : Nat} {s s' s'' : Stack} {a : Nat} (h : Inv s)
    (ha : s.alloc hdr size = some (s', a)) (hf : s'.free = some s'') : Equiv s'' s := by
  obtain ⟨d, -, hreq, hcur, hch, hlt, htop, -⟩ := alloc_spec ha
  obtain ⟨t, ht, hch', -, htop', hle, hfull, hne⟩ := free_spec hch (hcur ▸ hlt)
  rw [hf] at ht
  cases ht
  have e : ∀ j, s''.topAt j = s.topAt j := by
    intro j
    rw [htop' j, htop j]
    by_cases hj : j = s.cur + d
    · subst hj; simp only [if_true]; omega
    · simp only [hj, if_false]
  refine Equiv.of_obs ?_ hch' e
  apply popEmpty_unique s''.topAt (s.cur + d) _ _ ⟨hle, hfull, hne⟩
  refine ⟨by omega, ?_, ?_⟩
  · intro j h1 _
    rw [e]; exact h.above_full j h1
  · rcases h.cur_nonempty with h0 | h0
    · exact Or.inl h0
    · right; rw [e]; omega

/-- **C11**: after `alloc` and the matching `free` the scratch stack is back at its pre-call level. -/
theorem alloc_free_restores {hdr size : Nat} {s s' s'' : Stack} {a : Nat} (h : Inv s)
    (ha : s.alloc hdr size = some (s', a)) (hf : s'.free = some s'') :
    s''.cur = s.cur ∧ s''.usage = s.usage ∧ s''.chunks = s.chunks ∧ (∀ k, s''.topAt k = s.topAt k) :=
  let e := alloc_free_equiv h ha hf
  ⟨e.cur, e.usage, e.chunks, e.topAt⟩

/-- `alloc` respects observable equivalence (including the returned address offset). -/
theorem alloc_congr {hdr size : Nat} {s t s' : Stack} {a : Nat} (e : Equiv s t)
    (ha : s.alloc hdr size = some (s', a)) : ∃ t', t.alloc hdr size = some (t', a) ∧ Equiv s' t' := by
  obtain ⟨d, hd, -, hcur, hch, -, htop, haddr⟩ := alloc_spec ha
  have hfun : s.topAt = t.topAt := funext e.topAt
  have hskip : skipCount t (reqOf hdr size) = some d := by
    rw [← hd]; simp only [skipCount, e.cur, hfun]
  have hb : ∃ x, t.alloc hdr size = some x := by
    rw [alloc_eq, hskip]; exact ⟨_, rfl⟩
  obtain ⟨⟨t', b⟩, hb⟩ := hb
  obtain ⟨d', hd', -, hcur', hch', -, htop', haddr'⟩ := alloc_spec hb
  rw [hskip] at hd'
  cases hd'
  have hab : a = b := by rw [haddr, haddr', e.cur, hfun]
  subst hab
  refine ⟨t', hb, Equiv.of_obs ?_ ?_ ?_⟩
  · rw [hcur, hcur', e.cur]
  · rw [hch, hch', e.cur, e.chunks]
  · intro j; rw [htop j, htop' j, e.cur, hfun]

/-- `free` respects observable equivalence. -/
theorem free_congr {s t s' : Stack} (hs : Inv s) (ht : Inv t) (e : Equiv s t) (hf : s.free = some s') :
    ∃ t', t.free = some t' ∧ Equiv s' t' := by
  cases hc : s.chunks with
  | nil => simp [Stack.free, hc] at hf
  | cons c rest =>
    obtain ⟨k, req⟩ := c
    have hc' : t.chunks = (k, req) :: rest := e.chunks ▸ hc
    have hk : k = s.cur := hs.head_on_cur hc
    have hk' : k = t.cur := ht.head_on_cur hc'
    obtain ⟨u, hu, hch, -, htop, hle, hfull, hne⟩ := free_spec hc (hk ▸ hs.cur_lt)
    obtain ⟨u', hu', hch', -, htop', hle', hfull', hne'⟩ := free_spec hc' (hk' ▸ ht.cur_lt)
    rw [hf] at hu
    cases hu
    have ee : ∀ j, u'.topAt j = s'.topAt j := by
      intro j; rw [htop j, htop' j, e.topAt j]
    refine ⟨u', hu', Equiv.of_obs ?_ (hch.trans hch'.symm) (fun j => (ee j).symm)⟩
    apply popEmpty_unique s'.topAt k _ _ ⟨hle, hfull, hne⟩
    refine ⟨hle', ?_, ?_⟩
    · intro j h1 h2; rw [← ee]; exact hfull' j h1 h2
    · rw [← ee]; exact hne'

theorem step_congr {hdr : Nat} {op : StackOp} {s t s' : Stack} (hs : Inv s) (ht : Inv t) (e : Equiv s t)
    (h : s.step hdr op = some s') : ∃ t', t.step hdr op = some t' ∧ Equiv s' t' := by
  cases op with
  | alloc n =>
    simp only [Stack.step, Option.map_eq_some_iff] at h
    obtain ⟨⟨u, a⟩, h1, rfl⟩ := h
    obtain ⟨t', h2, h3⟩ := alloc_congr e h1
    exact ⟨t', by simp [Stack.step, h2], h3⟩
  | free => exact free_congr hs ht e h

/-- Running an operation sequence respects observable equivalence. -/
theorem run_congr {hdr : Nat} {ops : List StackOp} {s t s' : Stack} (hs : Inv s) (ht : Inv t) (e : Equiv s t)
    (h : Stack.run hdr s ops = some s') : ∃ t', Stack.run hdr t ops = some t' ∧ Equiv s' t' := by
  induction ops generalizing s t with
  | nil =>
    simp only [Stack.run, Option.some.injEq] at h
    exact ⟨t, rfl, h ▸ e⟩
  | cons op ops ih =>
    simp only [Stack.run, Option.bind_eq_some_iff] at h
    obtain ⟨u, h1, h2⟩ := h
    obtain ⟨u', h3, h4⟩ := step_congr hs ht e h1
    obtain ⟨t', h5, h6⟩ := ih (step_inv hs h1) (step_inv ht h3) h4 h2
    exact ⟨t', by simp [Stack.run, h3, h5], h6⟩

/-! ### Well-bracketed sequences -/

/-- depth counter: starting with `d` pending `free`s the sequence never frees below depth 0 and ends at depth 0 -/
def balancedFrom : Nat → List StackOp → Bool
  | d, [] => d == 0
  | d, .alloc _ :: ops => balancedFrom (d + 1) ops
  | 0, .free :: _ => false
  | d + 1, .free :: ops => balancedFrom d ops

/-- A sequence of `alloc`/`free` operations is well-bracketed (decidable). -/
def WellBracketed (ops : List StackOp) : Prop := balancedFrom 0 ops = true

instance (ops : List StackOp) : Decidable (WellBracketed ops) := by unfold WellBracketed; infer_instance

/-- free the `d` most recent chunks -/
def popN : Nat → Stack → Option Stack
  | 0, s => some s
  | d + 1, s => s.free.bind (popN d)

theorem popN_congr {d : Nat} {s t s' : Stack} (hs : Inv s) (ht : Inv t) (e : Equiv s t)
    (h : popN d s = some s') : ∃ t', popN d t = some t' ∧ Equiv s' t' := by
  induction d generalizing s t with
  | zero =>
    simp only [popN, Option.some.injEq] at h
    exact ⟨t, rfl, h ▸ e⟩
  | succ d ih =>
    simp only [popN, Option.bind_eq_some_iff] at h
    obtain ⟨u, h1, h2⟩ := h
    obtain ⟨u', h3, h4⟩ := free_congr hs ht e h1
    obtain ⟨t', h5, h6⟩ := ih (free_inv hs h1) (free_inv ht h3) h4 h2
    exact ⟨t', by simp [popN, h3, h5], h6⟩

/-- General form: a sequence that starts with `d` pending `free`s, never goes below depth 0 and ends at depth 0
ends in the state obtained from the start state by freeing its `d` most recent chunks. -/
theorem depth_restores {hdr : Nat} {ops : List StackOp} {d : Nat} {s s' : Stack} (h : Inv s)
    (hb : balancedFrom d ops = true) (hr : Stack.run hdr s ops = some s') :
    ∃ t, popN d s = some t ∧ Equiv s' t := by
  induction ops generalizing s d with
  | nil =>
    simp only [balancedFrom, beq_iff_eq] at hb
    subst hb
    simp only [Stack.run, Option.some.injEq] at hr
    exact ⟨s, rfl, hr ▸ Equiv.refl s⟩
  | cons op ops ih =>
    simp only [Stack.run, Option.bind_eq_some_iff] at hr
    obtain ⟨s1, h1, h2⟩ := hr
    cases op with
    | alloc n =>
      simp only [balancedFrom] at hb
      have hi1 := step_inv h h1
      obtain ⟨t, ht, et⟩ := ih hi1 hb h2
      simp only [Stack.step, Option.map_eq_some_iff] at h1
      obtain ⟨⟨u, a⟩, h3, rfl⟩ := h1
      simp only [popN, Option.bind_eq_some_iff] at ht
      obtain ⟨s1', h4, h5⟩ := ht
      have e1 : Equiv s1' s := alloc_free_equiv h h3 h4
      obtain ⟨t', h6, h7⟩ := popN_congr (free_inv hi1 h4) h e1 h5
      exact ⟨t', h6, et.trans h7⟩
    | free =>
      cases d with
      | zero => simp [balancedFrom] at hb
      | succ d =>
        simp only [balancedFrom] at hb
        obtain ⟨t, ht, et⟩ := ih (step_inv h h1) hb h2
        simp only [Stack.step] at h1
        exact ⟨t, by simp [popN, h1, ht], et⟩

theorem balanced_equiv {hdr : Nat} {ops : List StackOp} {s s' : Stack} (h : Inv s) (hb : WellBracketed ops)
    (hr : Stack.run hdr s ops = some s') : Equiv s' s := by
  obtain ⟨t, ht, et⟩ := depth_restores h hb hr
  simp only [popN, Option.some.injEq] at ht
  exact ht ▸ et

/-- **C11**: every well-bracketed `alloc`/`free` sequence that runs to completion restores the allocator state. -/
theorem balanced_restores {hdr : Nat} {ops : List StackOp} {s s' : Stack} (h : Inv s) (hb : WellBracketed ops)
    (hr : Stack.run hdr s ops = some s') :
    s'.cur = s.cur ∧ s'.usage = s.usage ∧ s'.chunks = s.chunks ∧ ∀ k, s'.topAt k = s.topAt k :=
  let e := balanced_equiv h hb hr
  ⟨e.cur, e.usage, e.chunks, e.topAt⟩

/-! ### The depth-counter and the inductive formulation of well-bracketedness agree -/

/-- Inductive formulation: empty, `alloc n · ops · free`, concatenation. -/
inductive Nested : List StackOp → Prop
  | nil : Nested []
  | wrap (n : Nat) {ops : List StackOp} : Nested ops → Nested (.alloc n :: ops ++ [.free])
  | append {a b : List StackOp} : Nested a → Nested b → Nested (a ++ b)

theorem balancedFrom_append {a : List StackOp} {d : Nat} (h : balancedFrom d a = true) (e : Nat)
    (b : List StackOp) : balancedFrom (d + e) (a ++ b) = balancedFrom e b := by
  induction a generalizing d with
  | nil =>
    simp only [balancedFrom, beq_iff_eq] at h
    subst h; simp
  | cons op a ih =>
    cases op with
    | alloc n =>
      simp only [balancedFrom] at h
      have := ih h
      simp only [List.cons_append, balancedFrom]
      rw [show d + e + 1 = d + 1 + e by omega]; exact this
    | free =>
      cases d with
      | zero => simp [balancedFrom] at h
      | succ d =>
        simp only [balancedFrom] at h
        have := ih h
        rw [show d + 1 + e = (d + e) + 1 by omega]
        simp only [List.cons_append, balancedFrom]; exact this

theorem Nested.wellBracketed {ops : List StackOp} (h : Nested ops) : WellBracketed ops := by
  unfold WellBracketed
  induction h with
  | nil => rfl
  | wrap n _ ih =>
    simp only [List.cons_append, balancedFrom]
    have := balancedFrom_append ih 1 [.free]
    simp only [Nat.zero_add] at this
    rw [this]; rfl
  | @append a b _ _ iha ihb =>
    have := balancedFrom_append iha 0 b
    simp only [Nat.zero_add] at this
    rw [this]; exact ihb

theorem nested_aux (n : Nat) : ∀ l : List StackOp, l.length ≤ n →
    (balancedFrom 0 l = true → Nested l) ∧
    (∀ d, balancedFrom (d + 1) l = true →
      ∃ mid tail, l = mid ++ .free :: tail ∧ Nested mid ∧ balancedFrom d tail = true) := by
  induction n with
  | zero =>
    intro l hl
    have : l = [] := List.eq_nil_of_length_eq_zero (by omega)
    subst this
    exact ⟨fun _ => Nested.nil, fun d h => by simp [balancedFrom] at h⟩
  | succ n ih =>
    intro l hl
    cases l with
    | nil => exact ⟨fun _ => Nested.nil, fun d h => by simp [balancedFrom] at h⟩
    | cons op l' =>
      have hl' : l'.length ≤ n := by simp at hl; omega
      cases op with
      | alloc m =>
        constructor
        · intro h
          simp only [balancedFrom] at h
          obtain ⟨mid, tail, rfl, hm, ht⟩ := (ih l' hl').2 0 h
          have htl : tail.length ≤ n := by simp at hl'; omega
          have hnt := (ih tail htl).1 ht
          have : StackOp.alloc m :: (mid ++ StackOp.free :: tail) = (StackOp.alloc m :: mid ++ [StackOp.free]) ++ tail := by
            simp
          rw [this]
          exact Nested.append (Nested.wrap m hm) hnt
        · intro d h
          simp only [balancedFrom] at h
          obtain ⟨mid1, tail1, rfl, hm1, ht1⟩ := (ih l' hl').2 (d + 1) h
          have htl : tail1.length ≤ n := by simp at hl'; omega
          obtain ⟨mid2, tail2, rfl, hm2, ht2⟩ := (ih tail1 htl).2 d ht1
          refine ⟨(StackOp.alloc m :: mid1 ++ [StackOp.free]) ++ mid2, tail2, by simp, ?_, ht2⟩
          exact Nested.append (Nested.wrap m hm1) hm2
      | free =>
        constructor
        · intro h; simp [balancedFrom] at h
        · intro d h
          simp only [balancedFrom] at h
          exact ⟨[], l', rfl, Nested.nil, h⟩

theorem wellBracketed_iff_nested (ops : List StackOp) : WellBracketed ops ↔ Nested ops :=
  ⟨(nested_aux ops.length ops (Nat.le_refl _)).1, Nested.wellBracketed⟩

/-! ### Totality of `alloc` -/

/-- `alloc` succeeds whenever the request fits the 64th stack above the current one … -/
theorem alloc_defined {hdr size : Nat} {s : Stack} (h : Inv s) (hsz : reqOf hdr size ≤ stackSize (s.cur + 63)) :
    ∃ s' a, s.alloc hdr size = some (s', a) := by
  have : (skipCount s (reqOf hdr size)).isSome = true := by
    unfold skipCount
    rw [List.find?_isSome]
    refine ⟨63, by simp, ?_⟩
    rw [h.above_full (s.cur + 63) (by omega)]
    simpa using hsz
  obtain ⟨d, hd⟩ := Option.isSome_iff_exists.mp this
  rw [alloc_eq, hd]
  exact ⟨_, _, rfl⟩

/-- … in particular for every request that passes the assertion `size < 2^40` of `_CMRallocStack`. -/
theorem alloc_defined_of_lt {hdr size : Nat} {s : Stack} (h : Inv s) (hh : hdr ≤ 12) (hsz : size < 2 ^ 40) :
    ∃ s' a, s.alloc hdr size = some (s', a) := by
  apply alloc_defined h
  rw [stackSize_eq]
  have h1 : 2 ^ 63 ≤ 2 ^ (s.cur + 63) := Nat.pow_le_pow_right (by omega) (by omega)
  unfold reqOf
  split <;> omega

/-! ### Usage -/

theorem usage_init : Stack.init.usage = 0 := by decide

theorem sum_range_succ (f : Nat → Nat) (n : Nat) :
    ((List.range (n + 1)).map f).sum = ((List.range n).map f).sum + f n := by
  simp [List.range_succ]

theorem sum_range_add (f g : Nat → Nat) (n : Nat) :
    ((List.range n).map (fun k => f k + g k)).sum = ((List.range n).map f).sum + ((List.range n).map g).sum := by
  induction n with
  | zero => simp
  | succ n ih => rw [sum_range_succ, sum_range_succ, sum_range_succ, ih]; omega

theorem sum_range_congr {f g : Nat → Nat} {n : Nat} (h : ∀ k, k < n → f k = g k) :
    ((List.range n).map f).sum = ((List.range n).map g).sum := by
  induction n with
  | zero => simp
  | succ n ih =>
    rw [sum_range_succ, sum_range_succ, ih (fun k hk => h k (by omega)), h n (by omega)]

theorem sum_range_ite (a v n : Nat) :
    ((List.range n).map (fun k => if a = k then v else 0)).sum = if a < n then v else 0 := by
  induction n with
  | zero => simp
  | succ n ih =>
    rw [sum_range_succ, ih]
    by_cases h1 : a < n
    · have : ¬ a = n := by omega
      simp [h1, this]; omega
    · by_cases h2 : a = n
      · subst h2; simp
      · have : ¬ a < n + 1 := by omega
        simp [h1, h2, this]

theorem sum_onStack (cs : List (Nat × Nat)) (n : Nat) (h : ∀ c ∈ cs, c.1 < n) :
    ((List.range n).map (fun k => onStack k cs)).sum = (cs.map Prod.snd).sum := by
  induction cs with
  | nil =>
    simp only [onStack, List.map_nil, List.sum_nil]
    have := sum_range_ite 0 0 n
    simpa using this
  | cons c cs ih =>
    simp only [onStack, List.map_cons, List.sum_cons]
    rw [sum_range_add (fun k => if c.1 = k then c.2 else 0) (fun k => onStack k cs), sum_range_ite,
      ih (fun x hx => h x (List.mem_cons_of_mem _ hx)), if_pos (h c List.mem_cons_self)]

/-- `CMRgetStackUsage` = live bytes (with headers) + bytes left unused on the skipped stacks below the current one. -/
theorem usage_eq_chunks {s : Stack} (h : Inv s) :
    s.usage = (s.chunks.map Prod.snd).sum + ((List.range s.cur).map s.topAt).sum := by
  have h1 : ((List.range s.cur).map stackSize).sum =
      ((List.range s.cur).map (fun k => onStack k s.chunks)).sum + ((List.range s.cur).map s.topAt).sum := by
    rw [← sum_range_add]
    exact sum_range_congr (fun k _ => (h.sum_eq k).symm)
  have h2 := sum_onStack s.chunks (s.cur + 1) (fun c hc => by have := h.chunk_le c hc; omega)
  rw [sum_range_succ] at h2
  have h3 := h.sum_eq s.cur
  unfold Stack.usage
  omega

/-- With nothing live the usage is zero. -/
theorem usage_zero_of_no_chunks {s : Stack} (h : Inv s) (hc : s.chunks = []) : s.usage = 0 := by
  have hcur : s.cur = 0 := by
    rcases h.cur_nonempty with h0 | h0
    · exact h0
    · have := h.sum_eq s.cur
      rw [hc] at this
      simp only [onStack] at this
      omega
  have := h.sum_eq 0
  rw [hc] at this
  simp only [onStack] at this
  simp only [Stack.usage, hcur, List.range_zero, List.map_nil, List.sum_nil]
  omega

/-! ### The alignment defect (D8) -/

/-- In an assertion-enabled build (12 header bytes) the second of two 8-byte requests (e.g. two `size_t`/pointer
arrays of one element) is handed out at an address that is 4 modulo 8. -/
theorem alignment_counterexample :
    ∃ ops : List StackOp, ∃ s s' a, Stack.run 12 Stack.init ops = some s ∧ s.alloc 12 8 = some (s', a) ∧
      a % 8 ≠ 0 :=
  ⟨[.alloc 8], _, _, _, rfl, rfl, by decide⟩

/-- The same in NDEBUG builds (8 header bytes) after a request of at most 4 bytes (e.g. a short `char` array). -/
theorem alignment_counterexample_ndebug :
    ∃ ops : List StackOp, ∃ s s' a, Stack.run 8 Stack.init ops = some s ∧ s.alloc 8 8 = some (s', a) ∧
      a % 8 ≠ 0 :=
  ⟨[.alloc 1], _, _, _, rfl, rfl, by decide⟩

/-! ### Non-vacuity and worked instances -/

example : (Stack.run 12 Stack.init [.alloc 8]).bind (fun s => (s.alloc 12 8).map Prod.snd) = some 4 := by decide
example : (Stack.run 8 Stack.init [.alloc 1]).bind (fun s => (s.alloc 8 8).map Prod.snd) = some 4 := by decide
/-- a 1-byte request with 12-byte headers takes 16 bytes, so it happens to keep the next chunk aligned -/
example : (Stack.run 12 Stack.init [.alloc 1]).bind (fun s => (s.alloc 12 8).map Prod.snd) = some 0 := by decide

/-- a request that does not fit stack 0 skips to stack 1; freeing it steps back to stack 0 -/
example : (Stack.run 8 Stack.init [.alloc 100, .alloc 5000]).map (fun s => (s.cur, s.tops, s.chunks, s.usage)) =
    some (1, [3988, 3184], [(1, 5008), (0, 108)], 4096 + 5008) := by decide

example : (Stack.run 8 Stack.init [.alloc 100, .alloc 5000, .free]).map (fun s => (s.cur, s.tops, s.chunks, s.usage)) =
    some (0, [3988, 8192], [(0, 108)], 108) := by decide

example : WellBracketed [.alloc 100, .alloc 5000, .free, .alloc 7, .alloc 20000, .free, .free, .free] := by decide
example : ¬ WellBracketed [.alloc 100, .free, .free, .alloc 1] := by decide
example : (Stack.run 12 Stack.init
    [.alloc 100, .alloc 5000, .free, .alloc 7, .alloc 20000, .free, .free, .free]).isSome = true := by decide
example : Stack.init.free = none := by decide
example : Nested [.alloc 1, .alloc 2, .free, .free] := Nested.wrap 1 (Nested.wrap 2 Nested.nil)

end Cmr.Props.C11
