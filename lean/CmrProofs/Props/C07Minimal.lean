/-
  Property C07, extension — the judge's demand on violators of ternary input is achievable, and its determinant clause is
  automatic.

  `minimalViolator` (`Cmr/Judge.lean`) demands determinant exactly ±2 and all one-row-one-column deletions TU.  Proved here
  (no trusted mathematics left): the classical lemma that a minimally non-totally-unimodular {0,±1} matrix has
  determinant ±2 (`minimal_nonTU_det`, proof in `CmrProofs/Lemmas/MinimalNonTU.lean` by Truemper's pivot/Schur-complement
  induction), hence
   * `exists_minimalViolator`: every non-TU ternary matrix has strictly increasing in-range index lists accepted by both
     `validViolator` and `minimalViolator`;
   * `not_isTU_iff_exists_minimalViolator`: … and only those have;
   * `deletions_force_det_two` / `minimalViolator_of_valid`: a valid violator with TU deletions automatically has
     determinant ±2.
-/
import CmrProofs.Lemmas.MinimalNonTU
import CmrProofs.Lemmas.TUClosure
import CmrProofs.Props.C07
import Cmr.Judge

set_option linter.unusedSimpArgs false
set_option linter.unusedVariables false

namespace Cmr.Props.C07Minimal
open Cmr Matrix

theorem length_idxOf {k m : Nat} (f : Fin k → Fin m) : (idxOf f).length = k := by simp [idxOf]

theorem idxOf_pairwise {k m : Nat} (f : Fin k → Fin m) (hf : StrictMono f) : (idxOf f).Pairwise (· < ·) := by
  unfold idxOf
  rw [List.pairwise_ofFn]
  intro i j hij
  exact hf hij

theorem idxOf_lt {k m : Nat} (f : Fin k → Fin m) : ∀ x ∈ idxOf f, x < m := by
  intro x hx
  simp only [idxOf, List.mem_ofFn] at hx
  obtain ⟨i, rfl⟩ := hx
  exact (f i).isLt

/-- deleting position `i` from the index list of `f` gives the index list of `f` with line `i` skipped -/
theorem eraseAt_idxOf {k m : Nat} (f : Fin (k + 1) → Fin m) (i : Fin (k + 1)) :
    eraseAt (idxOf f) i.val = idxOf (f ∘ i.succAbove) := by
  unfold eraseAt
  apply List.ext_getElem
  · have := i.isLt
    simp [idxOf, List.length_eraseIdx]
    omega
  · intro j h1 h2
    have hj : j < k := by simpa [idxOf] using h2
    rw [List.getElem_eraseIdx]
    simp only [idxOf, List.getElem_ofFn, Function.comp]
    by_cases hji : j < i.val
    · have : i.succAbove ⟨j, hj⟩ = ⟨j, by omega⟩ := by
        rw [Fin.succAbove_of_castSucc_lt _ _ (by simpa [Fin.lt_def] using hji)]
        rfl
      simp [hji, this]
    · have : i.succAbove ⟨j, hj⟩ = ⟨j + 1, by omega⟩ := by
        rw [Fin.succAbove_of_le_castSucc _ _ (by simpa [Fin.le_def] using Nat.le_of_not_lt hji)]
        rfl
      simp [hji, this]

/-- **Every non-TU ternary matrix has a certificate the judge of C07 accepts**: strictly increasing in-range index lists of
equal length that pass both `validViolator` and `minimalViolator` (determinant exactly ±2, all one-row-one-column
deletions TU). -/
theorem exists_minimalViolator (m n : Nat) (M : Mat) (hwf : M.wf m n = true) (ht : isTernary M = true)
    (hTU : isTU m n M = false) :
    ∃ rs cs : List Nat, rs.length = cs.length ∧ rs.Pairwise (· < ·) ∧ cs.Pairwise (· < ·) ∧
      (∀ x ∈ rs, x < m) ∧ (∀ x ∈ cs, x < n) ∧
      validViolator m n M rs cs = true ∧ minimalViolator M rs cs = true := by
  have hN : ¬ (toMx m n M).IsTotallyUnimodular := by
    intro h
    rw [(isTU_iff m n M).mpr h] at hTU
    cases hTU
  have hent : ∀ (i : Fin m) (j : Fin n), toMx m n M i j = 0 ∨ toMx m n M i j = 1 ∨ toMx m n M i j = -1 :=
    fun i j => ent_ternary hwf ht i.isLt j.isLt
  obtain ⟨k, f, g, hf, hg, hd, hdel⟩ := exists_minimal_nonTU_submatrix (toMx m n M) hent hN
  have hdetL : detL (k + 1) (sub M (idxOf f) (idxOf g)) = ((toMx m n M).submatrix f g).det := by
    rw [detL_eq_det, toMx_sub_idxOf]
  refine ⟨idxOf f, idxOf g, by simp [length_idxOf], idxOf_pairwise f hf, idxOf_pairwise g hg, idxOf_lt f, idxOf_lt g,
    ?_, ?_⟩
  · simp only [validViolator, length_idxOf, Bool.and_eq_true, beq_iff_eq, List.all_eq_true, decide_eq_true_eq, noDup,
      Bool.or_eq_true, hdetL]
    refine ⟨⟨⟨⟨⟨trivial, idxOf_lt f⟩, idxOf_lt g⟩, (idxOf_pairwise f hf).nodup⟩, (idxOf_pairwise g hg).nodup⟩, ?_⟩
    omega
  · simp only [minimalViolator, length_idxOf, Bool.and_eq_true, Bool.or_eq_true, beq_iff_eq, List.all_eq_true,
      List.mem_range, hdetL, Nat.add_sub_cancel]
    refine ⟨hd, ?_⟩
    intro i hi j hj
    have e1 := eraseAt_idxOf f ⟨i, hi⟩
    have e2 := eraseAt_idxOf g ⟨j, hj⟩
    simp only at e1 e2
    rw [e1, e2, isTU_iff, toMx_sub_idxOf]
    exact hdel ⟨i, hi⟩ ⟨j, hj⟩

theorem val_succAbove {k : Nat} (i : Fin (k + 1)) (a : Fin k) :
    (i.succAbove a).val = if a.val < i.val then a.val else a.val + 1 := by
  unfold Fin.succAbove
  split <;> simp_all [Fin.lt_def]

theorem getElem_eraseIdx_succAbove {k : Nat} (l : List Nat) (hl : l.length = k + 1) (i : Fin (k + 1)) (a : Fin k) :
    (l.eraseIdx i.val)[a.val]'(by have := i.isLt; have := a.isLt; rw [List.length_eraseIdx]; split <;> omega)
      = l[(i.succAbove a).val]'(by rw [hl]; exact (i.succAbove a).isLt) := by
  rw [List.getElem_eraseIdx]
  simp only [val_succAbove]
  split <;> rfl

/-- the judge's deletion of a row and a column is Mathlib's `submatrix succAbove succAbove`, for arbitrary index lists -/
theorem toMx_sub_eraseAt {k : Nat} (M : Mat) (rs cs : List Nat) (hr : rs.length = k + 1) (hc : cs.length = k + 1)
    (i j : Fin (k + 1)) :
    toMx k k (sub M (eraseAt rs i.val) (eraseAt cs j.val))
      = (toMx (k + 1) (k + 1) (sub M rs cs)).submatrix i.succAbove j.succAbove := by
  ext a b
  have h1 : a.val < (eraseAt rs i.val).length := by
    have := i.isLt; have := a.isLt; unfold eraseAt; rw [List.length_eraseIdx]; split <;> omega
  have h2 : b.val < (eraseAt cs j.val).length := by
    have := j.isLt; have := b.isLt; unfold eraseAt; rw [List.length_eraseIdx]; split <;> omega
  simp only [toMx, submatrix_apply]
  rw [ent_sub M _ _ h1 h2, ent_sub M rs cs (by rw [hr]; exact (i.succAbove a).isLt) (by rw [hc]; exact (j.succAbove b).isLt)]
  simp only [eraseAt]
  rw [getElem_eraseIdx_succAbove rs hr i a, getElem_eraseIdx_succAbove cs hc j b]

/-- entries of a ternary matrix (any shape, any position: out of range reads 0) -/
theorem ent_ternary_any (M : Mat) (ht : isTernary M = true) (i j : Nat) :
    ent M i j = 0 ∨ ent M i j = 1 ∨ ent M i j = -1 := by
  simp only [isTernary, List.all_eq_true] at ht
  unfold ent
  rw [List.getD_eq_getElem?_getD, List.getD_eq_getElem?_getD]
  cases h : M[i]? with
  | none => simp
  | some row =>
    cases h2 : row[j]? with
    | none => simp [h2]
    | some x =>
      simp only [Option.getD_some, h2]
      exact (isTernaryEntry_iff _).mp (ht row (List.mem_of_getElem? h) x (List.mem_of_getElem? h2))

/-- **The determinant clause of `minimalViolator` is automatic**: for a ternary matrix, index lists of equal length whose
one-row-one-column deletions are all TU and whose determinant is not in {0,±1} select a submatrix of determinant exactly ±2. -/
theorem deletions_force_det_two (M : Mat) (ht : isTernary M = true) (rs cs : List Nat) (hl : rs.length = cs.length)
    (hdel : ∀ i, i < rs.length → ∀ j, j < rs.length →
      isTU (rs.length - 1) (rs.length - 1) (sub M (eraseAt rs i) (eraseAt cs j)) = true)
    (hd : detOk (detL rs.length (sub M rs cs)) = false) :
    detL rs.length (sub M rs cs) = 2 ∨ detL rs.length (sub M rs cs) = -2 := by
  cases hk : rs.length with
  | zero => rw [hk] at hd; simp [detL, detOk] at hd
  | succ k =>
    rw [hk] at hd hdel
    rw [detL_eq_det] at hd ⊢
    have hc : cs.length = k + 1 := by omega
    apply minimal_nonTU_det_of_deletions
    · intro a b
      simp only [toMx]
      rw [ent_sub M rs cs (by omega) (by omega)]
      exact ent_ternary_any M ht _ _
    · intro i j
      rw [← toMx_sub_eraseAt M rs cs hk hc i j, ← isTU_iff]
      exact hdel i.val i.isLt j.val j.isLt
    · intro h
      simp only [detOk, Bool.or_eq_false_iff, beq_eq_false_iff_ne, ne_eq] at hd
      omega

/-- hence, for ternary input, the judge's two clauses collapse to "valid violator with TU deletions" -/
theorem minimalViolator_of_valid (m n : Nat) (M : Mat) (ht : isTernary M = true) (rs cs : List Nat)
    (hv : validViolator m n M rs cs = true)
    (hdel : ∀ i, i < rs.length → ∀ j, j < rs.length →
      isTU (rs.length - 1) (rs.length - 1) (sub M (eraseAt rs i) (eraseAt cs j)) = true) :
    minimalViolator M rs cs = true := by
  simp only [validViolator, Bool.and_eq_true, beq_iff_eq, List.all_eq_true, decide_eq_true_eq, noDup,
    Bool.or_eq_true] at hv
  obtain ⟨⟨⟨⟨⟨hl, _⟩, _⟩, _⟩, _⟩, hd⟩ := hv
  have h2 := deletions_force_det_two M ht rs cs hl hdel (by
    simp only [detOk, Bool.or_eq_false_iff, beq_eq_false_iff_ne, ne_eq]
    omega)
  simp only [minimalViolator, Bool.and_eq_true, Bool.or_eq_true, beq_iff_eq, List.all_eq_true, List.mem_range]
  exact ⟨h2, hdel⟩

/-- **C07 is achievable exactly on the non-TU inputs**: a ternary matrix is not TU iff some index lists pass the judge's
`validViolator` and `minimalViolator` checks. -/
theorem not_isTU_iff_exists_minimalViolator (m n : Nat) (M : Mat) (hwf : M.wf m n = true) (ht : isTernary M = true) :
    isTU m n M = false ↔
      ∃ rs cs : List Nat, validViolator m n M rs cs = true ∧ minimalViolator M rs cs = true := by
  constructor
  · intro h
    obtain ⟨rs, cs, _, _, _, _, _, hv, hm⟩ := exists_minimalViolator m n M hwf ht h
    exact ⟨rs, cs, hv, hm⟩
  · rintro ⟨rs, cs, hv, _⟩
    exact Cmr.Props.C07.validViolator_refutes m n M rs cs hv

/-- The Mathlib-level theorem behind it (restated from `CmrProofs/Lemmas/MinimalNonTU.lean`): a square {0,±1} matrix all of
whose proper square submatrices have determinant in {0,±1}, but whose own determinant is not, has determinant ±2. -/
theorem minimal_nonTU_det {k : ℕ} (A : Matrix (Fin k) (Fin k) ℤ)
    (hent : ∀ i j, A i j = 0 ∨ A i j = 1 ∨ A i j = -1)
    (hminor : ∀ (p : ℕ) (f g : Fin p → Fin k), p < k → Function.Injective f → Function.Injective g →
      (A.submatrix f g).det = 0 ∨ (A.submatrix f g).det = 1 ∨ (A.submatrix f g).det = -1)
    (hdet : ¬ (A.det = 0 ∨ A.det = 1 ∨ A.det = -1)) : A.det = 2 ∨ A.det = -2 :=
  Cmr.minimal_nonTU_det A hent hminor hdet

/-- … and with total unimodularity of all proper submatrices as the hypothesis. -/
theorem minimal_nonTU_det_TU {k : ℕ} (A : Matrix (Fin k) (Fin k) ℤ)
    (hent : ∀ i j, A i j = 0 ∨ A i j = 1 ∨ A i j = -1)
    (hproper : ∀ (p : ℕ) (f g : Fin p → Fin k), p < k → Function.Injective f → Function.Injective g →
      (A.submatrix f g).IsTotallyUnimodular)
    (hdet : ¬ A.IsTotallyUnimodular) : A.det = 2 ∨ A.det = -2 := by
  apply Cmr.minimal_nonTU_det A hent
  · intro p f g hp hf hg
    have := hproper p f g hp hf hg p id id Function.injective_id Function.injective_id
    rw [← sgn_iff_range] at this
    simpa [Sgn] using this
  · intro hd
    apply hdet
    intro p f g hf hg
    by_cases hp : p < k
    · have := hproper p f g hp hf hg p id id Function.injective_id Function.injective_id
      simpa using this
    · have hpk : p = k := by
        have := Fintype.card_le_of_injective f hf
        simp at this
        omega
      subst hpk
      have hfb : Function.Bijective f := Finite.injective_iff_bijective.mp hf
      have hgb : Function.Bijective g := Finite.injective_iff_bijective.mp hg
      have e : A.submatrix f g = A.submatrix (Equiv.ofBijective f hfb) (Equiv.ofBijective g hgb) := rfl
      rw [e, ← sgn_iff_range]
      rcases det_submatrix_equiv_equiv A (Equiv.ofBijective f hfb) (Equiv.ofBijective g hgb) with h | h <;> rw [h]
      · exact hd
      · exact Sgn.neg hd

/-- Non-vacuity: the witness found for the 3×3 odd-cycle matrix inside a larger matrix. -/
example : let M : Mat := [[1, 0, 1, 1, 0], [0, 1, 0, 1, 1], [1, 0, 1, 0, 1]]
    isTU 3 5 M = false ∧ validViolator 3 5 M [0, 1, 2] [2, 3, 4] = true ∧ minimalViolator M [0, 1, 2] [2, 3, 4] = true := by
  decide
end Cmr.Props.C07Minimal

