/-
  Property C01 — the TU verdict equals the definition, for every algorithm and parameter setting.

  Contract-layer model: the verdict is `isTU m n M` — it has no algorithm or parameter argument, which *is* the claim:
  every algorithm × parameter combination must return this one value.  `isTU` is proved to decide Mathlib's
  `Matrix.IsTotallyUnimodular` for every shape (including 0 rows / 0 columns), so a disagreement between the library
  and the judge on any input is a contract violation, never an oracle bug.
  Tie: op `tu <mask> M` (all three algorithms, the option product) → `CMRtuTest`.
-/
import CmrProofs.Lemmas.TUClosure

set_option linter.unusedSimpArgs false
set_option linter.unusedVariables false

namespace Cmr.Props.C01
open Cmr Matrix

/-- The verdict the judge demands is exactly Mathlib's total unimodularity:
every square submatrix (along injective index maps) has determinant −1, 0 or +1. -/
theorem verdict_is_definition (m n : Nat) (M : Mat) :
    isTU m n M = true ↔ (toMx m n M).IsTotallyUnimodular := isTU_iff m n M

/-- Unfolded: `yes` iff for every `k` and all injective row/column selections the determinant lies in {−1,0,1}. -/
theorem verdict_unfolded (m n : Nat) (M : Mat) :
    isTU m n M = true ↔
      ∀ (k : ℕ) (f : Fin k → Fin m) (g : Fin k → Fin n), f.Injective → g.Injective →
        ((toMx m n M).submatrix f g).det = 0 ∨ ((toMx m n M).submatrix f g).det = 1 ∨
          ((toMx m n M).submatrix f g).det = -1 := by
  rw [isTU_iff]
  unfold Matrix.IsTotallyUnimodular
  constructor
  · intro h k f g hf hg
    obtain ⟨s, hs⟩ := h k f g hf hg
    cases s <;> simp_all
  · intro h k f g hf hg
    rcases h k f g hf hg with h | h | h
    · exact ⟨0, by simp [h]⟩
    · exact ⟨1, by simp [h]⟩
    · exact ⟨-1, by simp [h]⟩

/-- The list determinant used by the oracle is Mathlib's determinant. -/
theorem det_is_det (n : Nat) (M : Mat) : detL n M = (toMx n n M).det := detL_eq_det n M

/-- A matrix with an entry outside {−1,0,+1} is not TU (the "other integer entries" clause). -/
theorem not_ternary_not_TU (m n : Nat) (M : Mat) (i j : Nat) (hi : i < m) (hj : j < n)
    (h : isTernaryEntry (ent M i j) = false) : isTU m n M = false := by
  cases hq : isTU m n M with
  | false => rfl
  | true => rw [isTU_entry M hq hi hj] at h; cases h

/-- Empty shapes are TU. -/
theorem empty_rows_TU (n : Nat) (M : Mat) : isTU 0 n M = true := by
  rw [isTU_iff]
  intro k f g hf hg
  have : k = 0 := by
    have := Fintype.card_le_of_injective f hf
    simpa using this
  subst this
  exact ⟨1, by simp⟩

theorem empty_cols_TU (m : Nat) (M : Mat) : isTU m 0 M = true := by
  rw [isTU_iff]
  intro k f g hf hg
  have : k = 0 := by
    have := Fintype.card_le_of_injective g hg
    simpa using this
  subst this
  exact ⟨1, by simp⟩

/-- The verdict is invariant under transposition (used when the enumeration algorithms transpose tall inputs). -/
theorem verdict_transpose (m n : Nat) (M : Mat) : isTU n m (transpose m n M) = isTU m n M := isTU_transpose m n M

/-- Non-vacuity: a TU matrix, a non-TU ternary matrix, a non-ternary matrix. -/
example : isTU 3 3 [[1, 1, 0], [0, 1, 1], [0, 0, 1]] = true ∧
    isTU 3 3 [[1, 1, 0], [0, 1, 1], [1, 0, 1]] = false ∧ isTU 1 2 [[2, 0]] = false := by decide

end Cmr.Props.C01
