/-
  Property C09 — Camion signing keeps the support; the output passes the signedness test; a violator is a square
  submatrix with two nonzeros per line and determinant ±2; totally unimodular matrices are Camion-signed; for a regular
  support the signed output is totally unimodular.

  Model: the Camion signing algorithm itself is NOT modelled.  The judge (`judgeCamionx` in `Cmr/Judge.lean`) checks the
  library's output against oracles: `support S = support M`, `isTernary S`, `camionViolatorOk` for returned violators
  (`idxList` decoding, `noDup`, `twoPerLine`, `detL = ±2`), and on small inputs `isTU` / `isRegular (support M)`.
  Tie: op `camionx` — `CMRcamionTestSigns`, `CMRcamionComputeSigns` outputs fed to `judgeCamionx`.

  Theorems (the facts the judge relies on):
  * `camionViolator_refutes_TU`, `camionViolator_shape`: what the judge accepts as a violator is a square selection of
    distinct in-range rows and columns with exactly two nonzeros per line and determinant ±2, hence a certificate
    that the input is not totally unimodular (Mathlib sense through `isTU_iff`).
  * `tu_signing_makes_support_regular`: a TU matrix is a TU signing of its own support, so its support is regular.
  * `same_support_signing`, `regular_of_tu_resigning`: a ternary matrix with the same support as `M` is a signing of
    `support M`; if the signed output is TU then the support is regular.  So whenever the judge sees `isTU S` it is
    consistent with `isRegular (support M)`, and `isRegular (support M) = false` forces `isTU S = false`
    (`irregular_support_not_tu`).
  NOT proved here: the converse "regular support ⇒ the Camion-signed output is TU" is Camion's theorem (uniqueness of
  TU signings up to row/column scaling); the judge tests it (`camion:regular-gives-tu`), the proof is out of scope.
  Likewise "TU ⇒ passes the signedness test" is tested (`camion:tu-implies-signed`), with the violator direction
  covered by `camionViolator_refutes_TU` (a violator can only exist for a non-TU matrix).
-/
import CmrProofs.Props.C02
import CmrProofs.Props.C07
import CmrProofs.Lemmas.BalancedLemmas

set_option linter.unusedSimpArgs false
set_option linter.unusedVariables false

namespace Cmr.Props.C09
open Cmr Matrix
open Cmr.Props.C02

/-! ### decoding of index lists -/

theorem mapM_option_some {α β : Type} (f : α → Option β) (l : List α) (rs : List β) (h : l.mapM f = some rs) :
    List.Forall₂ (fun a b => f a = some b) l rs := by
  induction l generalizing rs with
  | nil =>
    simp at h
    subst h
    exact List.Forall₂.nil
  | cons v l ih =>
    rw [List.mapM_cons] at h
    cases hv : f v with
    | none => simp [hv] at h
    | some y =>
      cases hrest : List.mapM f l with
      | none => simp [hv, hrest] at h
      | some rest =>
        simp [hv, hrest] at h
        subst h
        exact List.Forall₂.cons hv (ih rest hrest)

/-- `idxList` succeeds only with all indices in range. -/
theorem idxList_lt (l : List Int) (b : Nat) (rs : List Nat) (h : idxList l b = some rs) : ∀ x ∈ rs, x < b := by
  have h2 := mapM_option_some _ l rs h
  intro x hx
  obtain ⟨i, hi, rfl⟩ := List.getElem_of_mem hx
  have hl := h2.length_eq
  have := (List.forall₂_iff_get.mp h2).2 i (by omega) hi
  simp only [List.get_eq_getElem] at this
  split at this
  · cases this
  · rename_i hv
    simp only [Option.some.injEq] at this
    simp at hv
    omega

theorem idxList_length (l : List Int) (b : Nat) (rs : List Nat) (h : idxList l b = some rs) : rs.length = l.length :=
  (mapM_option_some _ l rs h).length_eq.symm

/-- … and returns the harness integers unchanged, as naturals. -/
theorem idxList_getElem (l : List Int) (b : Nat) (rs : List Nat) (h : idxList l b = some rs) (i : Nat)
    (hi : i < rs.length) : ((rs[i] : Nat) : Int) = l[i]'(by rw [← idxList_length l b rs h]; exact hi) := by
  have h2 := mapM_option_some _ l rs h
  have hl := h2.length_eq
  have := (List.forall₂_iff_get.mp h2).2 i (by omega) hi
  simp only [List.get_eq_getElem] at this
  split at this
  · cases this
  · rename_i hv
    simp only [Option.some.injEq] at this
    simp at hv
    omega

/-! ### violators -/

/-- What `camionViolatorOk` accepts, spelled out. -/
theorem camionViolator_shape (m n : Nat) (M : Mat) (rsI csI : List Int) (h : camionViolatorOk m n M rsI csI = true) :
    ∃ rs cs : List Nat, idxList rsI m = some rs ∧ idxList csI n = some cs ∧
      rs.length = cs.length ∧ (∀ x ∈ rs, x < m) ∧ (∀ x ∈ cs, x < n) ∧ rs.Nodup ∧ cs.Nodup ∧
      twoPerLine (sub M rs cs) rs.length = true ∧
      (detL rs.length (sub M rs cs) = 2 ∨ detL rs.length (sub M rs cs) = -2) := by
  unfold camionViolatorOk at h
  cases hr : idxList rsI m with
  | none => simp [hr] at h
  | some rs =>
    cases hc : idxList csI n with
    | none => simp [hr, hc] at h
    | some cs =>
      simp only [hr, hc, Bool.and_eq_true, beq_iff_eq, noDup, decide_eq_true_eq, Bool.or_eq_true] at h
      obtain ⟨⟨⟨⟨⟨hl, hnr⟩, hnc⟩, _⟩, htwo⟩, hd⟩ := h
      exact ⟨rs, cs, rfl, rfl, hl, idxList_lt _ _ _ hr, idxList_lt _ _ _ hc, hnr, hnc, htwo, hd⟩

/-- … in terms of the index lists: every selected row has exactly two nonzeros among the selected columns and every
selected column exactly two among the selected rows. -/
theorem camionViolator_two_per_line (m n : Nat) (M : Mat) (rsI csI : List Int)
    (h : camionViolatorOk m n M rsI csI = true) :
    ∃ rs cs : List Nat, idxList rsI m = some rs ∧ idxList csI n = some cs ∧
      (∀ r ∈ rs, cs.countP (fun c => ent M r c != 0) = 2) ∧ (∀ c ∈ cs, rs.countP (fun r => ent M r c != 0) = 2) := by
  obtain ⟨rs, cs, hr, hc, hl, _, _, _, _, htwo, _⟩ := camionViolator_shape m n M rsI csI h
  refine ⟨rs, cs, hr, hc, ?_⟩
  rw [twoPerLine_sub M rs cs rs.length rfl hl.symm] at htwo
  simpa [twoPerLineL] using htwo

/-- A Camion violator is in particular a valid TU violator in the sense of C07. -/
theorem camionViolator_validViolator (m n : Nat) (M : Mat) (rsI csI : List Int)
    (h : camionViolatorOk m n M rsI csI = true) :
    ∃ rs cs : List Nat, idxList rsI m = some rs ∧ idxList csI n = some cs ∧ validViolator m n M rs cs = true := by
  obtain ⟨rs, cs, hr, hc, hl, hrm, hcn, hnr, hnc, _, hd⟩ := camionViolator_shape m n M rsI csI h
  refine ⟨rs, cs, hr, hc, ?_⟩
  simp only [validViolator, Bool.and_eq_true, beq_iff_eq, List.all_eq_true, decide_eq_true_eq, noDup,
    Bool.or_eq_true]
  refine ⟨⟨⟨⟨⟨hl, hrm⟩, hcn⟩, hnr⟩, hnc⟩, ?_⟩
  rcases hd with hd | hd <;> rw [hd] <;> decide

/-- **A returned violator certifies that the input is not totally unimodular.** -/
theorem camionViolator_refutes_TU (m n : Nat) (M : Mat) (rsI csI : List Int)
    (h : camionViolatorOk m n M rsI csI = true) : isTU m n M = false := by
  obtain ⟨rs, cs, _, _, hv⟩ := camionViolator_validViolator m n M rsI csI h
  exact C07.validViolator_refutes m n M rs cs hv

theorem camionViolator_refutes_TU_mathlib (m n : Nat) (M : Mat) (rsI csI : List Int)
    (h : camionViolatorOk m n M rsI csI = true) : ¬ (toMx m n M).IsTotallyUnimodular := by
  intro hTU
  have := (isTU_iff m n M).mpr hTU
  rw [camionViolator_refutes_TU m n M rsI csI h] at this
  cases this

/-- Equivalently: for a totally unimodular input no violator passes the judge. -/
theorem tu_no_camionViolator (m n : Nat) (M : Mat) (h : isTU m n M = true) (rsI csI : List Int) :
    camionViolatorOk m n M rsI csI = false := by
  cases hv : camionViolatorOk m n M rsI csI with
  | false => rfl
  | true =>
    rw [camionViolator_refutes_TU m n M rsI csI hv] at h
    cases h

/-! ### supports -/

theorem ent_mapEntries (f : Int → Int) (hf : f 0 = 0) (M : Mat) (i j : Nat) :
    ent (M.mapEntries f) i j = f (ent M i j) := by
  unfold ent Mat.mapEntries
  simp only [List.getD_eq_getElem?_getD, List.getElem?_map]
  cases h : M[i]? with
  | none => simp [hf]
  | some row =>
    simp only [Option.map_some, Option.getD_some, List.getElem?_map]
    cases h2 : row[j]? with
    | none => simp [hf]
    | some x => simp

/-- entries of the support (for all indices: out of range both sides are 0) -/
theorem ent_support (M : Mat) (i j : Nat) : ent (support M) i j = if ent M i j = 0 then 0 else 1 := by
  unfold support
  rw [ent_mapEntries _ (by simp)]
  simp

theorem wf_support (M : Mat) (m n : Nat) : (support M).wf m n = M.wf m n := by
  simp only [support, Mat.mapEntries, Mat.wf, List.all_map, List.length_map]
  congr 1
  apply List.all_congr rfl
  intro r
  simp

theorem isBinary_support (M : Mat) : isBinary (support M) = true := by
  simp only [support, Mat.mapEntries, isBinary, List.all_eq_true, List.mem_map]
  rintro row ⟨r, _, rfl⟩ x hx
  rw [List.mem_map] at hx
  obtain ⟨y, _, rfl⟩ := hx
  by_cases hy : y = 0 <;> simp [hy, isBinaryEntry]

/-- the support determines exactly the zero pattern -/
theorem ent_eq_zero_iff_of_support_eq {M S : Mat} (h : support S = support M) (i j : Nat) :
    ent S i j = 0 ↔ ent M i j = 0 := by
  have := congrArg (fun A => ent A i j) h
  simp only [ent_support] at this
  by_cases h1 : ent S i j = 0 <;> by_cases h2 : ent M i j = 0 <;> simp_all

/-- A ternary matrix with the support of `M` is a signing of `support M` — this is the shape of the library's output
that the judge enforces (`support S = support M`, `isTernary S`). -/
theorem same_support_signing (m n : Nat) (M S : Mat) (hM : M.wf m n = true) (hS : S.wf m n = true)
    (htM : isTernary M = true) (htS : isTernary S = true) (h : support S = support M) :
    IsSigningOf S (support M) := by
  have hwf : (support M).wf m n = true := by rw [wf_support]; exact hM
  rw [isSigningOf_iff_ent hwf]
  refine ⟨hS, fun i hi j hj => ?_⟩
  rw [ent_support]
  have hz := ent_eq_zero_iff_of_support_eq h i j
  rcases ent_ternary hS htS hi hj with e | e | e
  · have : ent M i j = 0 := hz.mp e
    simp [this, e]
  · have : ent M i j ≠ 0 := fun h0 => by rw [hz.mpr h0] at e; cases e
    simp [this, e]
  · have : ent M i j ≠ 0 := fun h0 => by rw [hz.mpr h0] at e; cases e
    simp [this, e]

/-- A ternary matrix is a signing of its own support. -/
theorem signing_of_own_support (m n : Nat) (S : Mat) (hS : S.wf m n = true) (htS : isTernary S = true) :
    IsSigningOf S (support S) :=
  same_support_signing m n S S hS hS htS htS rfl

/-- A well-formed totally unimodular matrix is ternary. -/
theorem ternary_of_tu (m n : Nat) (S : Mat) (hwf : S.wf m n = true) (h : isTU m n S = true) : isTernary S = true :=
  (isTernary_iff_ent hwf).mpr (fun i hi j hj => isTU_entry S h hi hj)

/-- **A TU matrix is a TU signing of its own support, so its support is regular.** -/
theorem tu_signing_makes_support_regular (m n : Nat) (S : Mat) (hwf : S.wf m n = true) (ht : isTernary S = true)
    (h : isTU m n S = true) : isRegular n (support S) = true := by
  have hw : (support S).wf m n = true := by rw [wf_support]; exact hwf
  exact (isRegular_iff m n (support S) hw).mpr
    ⟨isBinary_support S, S, signing_of_own_support m n S hwf ht, h⟩

/-- The ternarity hypothesis is implied by total unimodularity. -/
theorem tu_makes_support_regular (m n : Nat) (S : Mat) (hwf : S.wf m n = true) (h : isTU m n S = true) :
    isRegular n (support S) = true :=
  tu_signing_makes_support_regular m n S hwf (ternary_of_tu m n S hwf h) h

/-- **If the signed output is TU then the support of the input is regular.** -/
theorem regular_of_tu_resigning (m n : Nat) (M S : Mat) (hM : M.wf m n = true) (hS : S.wf m n = true)
    (htM : isTernary M = true) (htS : isTernary S = true) (h : support S = support M) (htu : isTU m n S = true) :
    isRegular n (support M) = true := by
  have hw : (support M).wf m n = true := by rw [wf_support]; exact hM
  exact (isRegular_iff m n (support M) hw).mpr
    ⟨isBinary_support M, S, same_support_signing m n M S hM hS htM htS h, htu⟩

/-- Contrapositive used by the judge's case split: with an irregular support no re-signing is TU — in particular neither
the input nor the library's output. -/
theorem irregular_support_not_tu (m n : Nat) (M S : Mat) (hM : M.wf m n = true) (hS : S.wf m n = true)
    (htM : isTernary M = true) (htS : isTernary S = true) (h : support S = support M)
    (hreg : isRegular n (support M) = false) : isTU m n S = false := by
  cases htu : isTU m n S with
  | false => rfl
  | true =>
    rw [regular_of_tu_resigning m n M S hM hS htM htS h htu] at hreg
    cases hreg

/-- A TU input has a regular support, in the same statement shape (`S := M`). -/
theorem tu_input_regular_support (m n : Nat) (M : Mat) (hM : M.wf m n = true) (htu : isTU m n M = true) :
    isRegular n (support M) = true := tu_makes_support_regular m n M hM htu

/-- Non-vacuity: the 3×3 cycle matrix is its own Camion violator (rows/columns in any order, given as the harness
integers), an out-of-range or repeated index is rejected; its support is regular and the re-signing with one `-1` is
TU.  (A matrix with a non-regular support — the Fano matrix — is exhibited in `C02`; repeating that search here by
`decide` costs a minute of kernel time.) -/
example : let M : Mat := [[1, 1, 0], [0, 1, 1], [1, 0, 1]]
    camionViolatorOk 3 3 M [0, 1, 2] [0, 1, 2] = true ∧
    camionViolatorOk 3 3 M [2, 0, 1] [1, 0, 2] = true ∧
    camionViolatorOk 3 3 M [0, 1, 3] [0, 1, 2] = false ∧
    camionViolatorOk 3 3 M [0, 1, -1] [0, 1, 2] = false ∧
    camionViolatorOk 3 3 M [0, 1, 1] [0, 1, 2] = false ∧
    camionViolatorOk 3 3 [[1, 1, 0], [0, 1, 1], [-1, 0, 1]] [0, 1, 2] [0, 1, 2] = false ∧
    isTU 3 3 M = false ∧
    support [[1, 1, 0], [0, 1, 1], [-1, 0, 1]] = support M ∧
    isTU 3 3 [[1, 1, 0], [0, 1, 1], [-1, 0, 1]] = true ∧
    isRegular 3 (support M) = true := by decide

end Cmr.Props.C09
