/-
  Property C10 (extension) — the pivot entry of the relation table for the graphic class:
    * `(Step.V2 r c).rel .gra = .iff` : graphicness (`isGraphic`) of a 0/1 matrix is invariant under a GF(2) pivot
      (`gra_V2`, `gra_step_V2`);
    * `(Step.V3 r c).rel .net = .iff` : being a network matrix (`isNetwork`) is invariant under a GF(3) pivot of a matrix
      with entries `0, 1, -1` (`net_V3`, `net_step_V3`).

  Route.  `GraStep.isGraphic_iff_realises` reads graphicness as `Realises false m n M`: a bridge forest `T` with `m`
  edges such that every column is the incidence vector of a walk with distinct edges.  A pivot on `M[r,c] = 1` exchanges
  the forest edge `r` with the non-forest edge `c` (`GraPivot.realises_pivot2`, see `CmrProofs/Lemmas/GraPivotLemmas.lean`).
  The converse direction follows from `C13.pivot2_involutive`.  The signed reading `Realises true` is treated in the same
  way (`GraPivot.realises_pivot3`); there a second pivot restores the matrix up to the signs of the pivot row and the
  pivot column (`C13.pivot3_twice`), which `realises_negRow` and `realises_negCol` absorb.
-/
import CmrProofs.Lemmas.GraPivotLemmas

set_option linter.unusedSimpArgs false
set_option linter.unusedVariables false

namespace Cmr.Props.C10GraphicPivot
open Cmr Cmr.GraStep Cmr.Props.C10Pivot

theorem gra_V2_imp {m n : Nat} {M : Mat} (hwf : M.wf m n = true) (hb : isBinary M = true) {r c : Nat}
    (hok : pivotOk2 m n M r c = true) (h : isGraphic m n M = true) : isGraphic m n (pivot2 m n M r c) = true := by
  obtain ⟨hr, hc, hp⟩ := pivotOk2_iff.mp hok
  have hp1 : ent M r c = 1 := by
    rcases ent_binary hwf hb hr hc with e | e
    · rw [e] at hp; exact absurd rfl hp
    · exact e
  rw [isGraphic_iff_realises (C13.pivot_wf2 m n M r c)]
  exact GraPivot.realises_pivot2 ((isGraphic_iff_realises hwf).mp h) hr hc hp1

/-- **Graphicness of a 0/1 matrix is invariant under a GF(2) pivot.** -/
theorem gra_V2 {m n : Nat} {M : Mat} (hwf : M.wf m n = true) (hb : isBinary M = true) {r c : Nat}
    (hok : pivotOk2 m n M r c = true) : isGraphic m n (pivot2 m n M r c) = isGraphic m n M := by
  obtain ⟨hr, hc, hp⟩ := pivotOk2_iff.mp hok
  have hp1 : ent M r c = 1 := by
    rcases ent_binary hwf hb hr hc with e | e
    · rw [e] at hp; exact absurd rfl hp
    · exact e
  rw [Bool.eq_iff_iff]
  refine ⟨fun h => ?_, gra_V2_imp hwf hb hok⟩
  have hok' : pivotOk2 m n (pivot2 m n M r c) r c = true := by
    rw [pivotOk2_iff]
    refine ⟨hr, hc, ?_⟩
    rw [pivot2, ent_ofFn _ hr hc]
    simp only [pivotRaw, beq_self_eq_true, if_true, hp1]
    decide
  have h2 := gra_V2_imp (C13.pivot_wf2 m n M r c) (C13.pivot2_binary m n M r c) hok' h
  rwa [C13.pivot2_involutive m n M hwf hb r c hr hc hp1] at h2

/-! ## Lift to the step table -/

theorem rel_gra_V2 (r c : Nat) : (Step.V2 r c).rel .gra = .iff := rfl

/-- the step `V2 r c` of the table, class `gra` -/
theorem gra_step_V2 {r c : Nat} {m n : Nat} {M : Mat} {m' n' : Nat} {M' : Mat}
    (h : (Step.V2 r c).apply m n M = some (m', n', M')) (hwf : M.wf m n = true) (hb : isBinary M = true) :
    isGraphic m' n' M' = isGraphic m n M := by
  simp only [Step.apply] at h
  split at h
  · rename_i hok
    simp only [Option.some.injEq, Prod.mk.injEq] at h
    obtain ⟨rfl, rfl, rfl⟩ := h
    exact gra_V2 hwf hb hok
  · cases h

/-! ## The GF(3) pivot of network matrices -/

theorem pivotOk3_iff' {m n : Nat} {M : Mat} {r c : Nat} :
    pivotOk3 m n M r c = true ↔ r < m ∧ c < n ∧ mod3 (ent M r c) ≠ 0 := by
  simp [pivotOk3, and_assoc]

theorem net_V3_imp {m n : Nat} {M : Mat} (hwf : M.wf m n = true) {r c : Nat}
    (hok : pivotOk3 m n M r c = true) (h : isNetwork m n M = true) : isNetwork m n (pivot3 m n M r c) = true := by
  obtain ⟨hr, hc, hp⟩ := pivotOk3_iff'.mp hok
  have hp0 : ent M r c ≠ 0 := by
    intro e; rw [e] at hp; exact hp rfl
  rw [isNetwork_iff_realises (C13.pivot_wf3 m n M r c)]
  exact GraPivot.realises_pivot3 ((isNetwork_iff_realises hwf).mp h) hr hc hp0

/-- **Being a network matrix is invariant under a GF(3) pivot (entries `0, ±1`).** -/
theorem net_V3 {m n : Nat} {M : Mat} (hwf : M.wf m n = true) (ht : isTernary M = true) {r c : Nat}
    (hok : pivotOk3 m n M r c = true) : isNetwork m n (pivot3 m n M r c) = isNetwork m n M := by
  obtain ⟨hr, hc, hp⟩ := pivotOk3_iff'.mp hok
  have hp0 : ent M r c ≠ 0 := by
    intro e; rw [e] at hp; exact hp rfl
  rw [Bool.eq_iff_iff]
  refine ⟨fun h => ?_, net_V3_imp hwf hok⟩
  have hok' : pivotOk3 m n (pivot3 m n M r c) r c = true := by
    rw [pivotOk3_iff']
    refine ⟨hr, hc, ?_⟩
    rw [pivot3, ent_ofFn _ hr hc]
    simp only [pivotRaw, beq_self_eq_true, if_true]
    rcases ent_ternary hwf ht hr hc with e | e | e
    · exact absurd e hp0
    · rw [e]; decide
    · rw [e]; decide
  have h2 := net_V3_imp (C13.pivot_wf3 m n M r c) hok' h
  rw [C13.pivot3_twice m n M hwf ht r c hr hc hp0] at h2
  have h3 := (isNetwork_iff_realises (wf_ofFn _ _ _)).mp h2
  rw [isNetwork_iff_realises hwf]
  have h4 : Realises true m n (Mat.ofFn m n (fun i j => if j = c then - ent M i j else ent M i j)) := by
    refine realises_negRow r ?_ h3
    intro i hi j hj
    rw [ent_ofFn _ hi hj, ent_ofFn _ hi hj]
    by_cases hir : i = r <;> by_cases hjc : j = c <;> simp [hir, hjc]
  refine realises_negCol c ?_ h4
  intro i hi j hj
  rw [ent_ofFn _ hi hj]
  by_cases hjc : j = c <;> simp [hjc]

theorem rel_net_V3 (r c : Nat) : (Step.V3 r c).rel .net = .iff := rfl

/-- the step `V3 r c` of the table, class `net` -/
theorem net_step_V3 {r c : Nat} {m n : Nat} {M : Mat} {m' n' : Nat} {M' : Mat}
    (h : (Step.V3 r c).apply m n M = some (m', n', M')) (hwf : M.wf m n = true) (ht : isTernary M = true) :
    isNetwork m' n' M' = isNetwork m n M := by
  simp only [Step.apply] at h
  split at h
  · rename_i hok
    simp only [Option.some.injEq, Prod.mk.injEq] at h
    obtain ⟨rfl, rfl, rfl⟩ := h
    exact net_V3 hwf ht hok
  · cases h

end Cmr.Props.C10GraphicPivot
