/-
  Property C14 — representation-matrix construction is exact and round-trips through recognition.

  Model: `Cmr/Graph.lean` (`cycleMatrix T coT signed` = `M(G,T)` resp. `M(D,T)` with rows in the order of the forest list
  and columns in the order of the coforest list, its `transpose`, and `isSpanningForest` for the correctness flag).
  Tie: op `repmat` — the matrix and transpose outputs of `CMRgraphicComputeMatrix` / `CMRnetworkComputeMatrix` are compared
  exactly with `cycleMatrix T coT signed` and `transpose T.length coT.length C` (where `T = F.filterMap g.edge?`), the
  correctness flag with `isSpanningForest`; constructed matrices are then sent through recognition and the returned graph
  is multiplied out by `checkGraphCert` (C05/C06).

  What is proved: shape and entry-for-entry contract of the constructed matrix (`cycleMatrix_wf`, `cycleMatrix_entries`),
  the transpose output (`cycleMatrix_transpose_shape`, `transpose_transpose`), and the round trip: a matrix constructed
  from a spanning forest and the complementary coforest is accepted by the certificate checker with the very same graph
  (`roundtrip`), i.e. it is graphic/network in the sense C05/C06 judge certificates.
-/
import CmrProofs.Lemmas.GraphLemmas

set_option linter.unusedSimpArgs false
set_option linter.unusedVariables false

namespace Cmr.Props.C14
open Cmr

/-- Rows in forest order, columns in coforest order: the shape is `|T| × |coT|`. -/
theorem cycleMatrix_wf {T coT : List Edge} {signed : Bool} {C : Mat} (h : cycleMatrix T coT signed = some C) :
    C.wf T.length coT.length = true := (cycleMatrix_spec h).1

/-- The contract of representation-matrix construction: column `j` is the incidence vector of a walk in `T` from the tail
to the head of coforest edge `j` that uses pairwise distinct forest edges; entry `(i,j)` is `0` if forest edge `i` is not
on it, and otherwise `1` (unsigned) resp. `+1`/`-1` according to whether the edge is traversed from `Edge.tail` to
`Edge.head` or the other way round (signed). -/
theorem cycleMatrix_entries {T coT : List Edge} {signed : Bool} {C : Mat} (h : cycleMatrix T coT signed = some C) :
    ∀ j (hj : j < coT.length), ∃ p, IsWalk T (coT[j]).tail (coT[j]).head p ∧ (p.map Prod.fst).Nodup ∧
      ∀ i, i < T.length → ent C i j = pathEntry signed p i := (cycleMatrix_spec h).2

/-- the unsigned reading of the contract -/
theorem cycleMatrix_entries_unsigned {T coT : List Edge} {C : Mat} (h : cycleMatrix T coT false = some C) :
    ∀ j (hj : j < coT.length), ∃ p, IsWalk T (coT[j]).tail (coT[j]).head p ∧ (p.map Prod.fst).Nodup ∧
      ∀ i, i < T.length → ent C i j = if i ∈ p.map Prod.fst then 1 else 0 := by
  intro j hj
  obtain ⟨p, w, nd, hp⟩ := cycleMatrix_entries h j hj
  exact ⟨p, w, nd, fun i hi => by rw [hp i hi, pathEntry_unsigned]⟩

/-- the signed reading of the contract -/
theorem cycleMatrix_entries_signed {T coT : List Edge} {C : Mat} (h : cycleMatrix T coT true = some C) :
    ∀ j (hj : j < coT.length), ∃ p, IsWalk T (coT[j]).tail (coT[j]).head p ∧ (p.map Prod.fst).Nodup ∧
      ∀ i, i < T.length → ent C i j = if (i, true) ∈ p then 1 else if (i, false) ∈ p then -1 else 0 := by
  intro j hj
  obtain ⟨p, w, nd, hp⟩ := cycleMatrix_entries h j hj
  exact ⟨p, w, nd, fun i hi => by rw [hp i hi, pathEntry_signed nd]⟩

/-- The constructed matrix is ternary, and binary in the unsigned case. -/
theorem cycleMatrix_ternary {T coT : List Edge} {signed : Bool} {C : Mat} (h : cycleMatrix T coT signed = some C) :
    isTernary C = true := Cmr.cycleMatrix_ternary h

theorem cycleMatrix_binary {T coT : List Edge} {C : Mat} (h : cycleMatrix T coT false = some C) :
    isBinary C = true := Cmr.cycleMatrix_binary h

/-- The transpose output has shape `|coT| × |T|` and entry `(j,i)` equal to entry `(i,j)` of the matrix. -/
theorem cycleMatrix_transpose_shape {T coT : List Edge} {signed : Bool} {C : Mat}
    (h : cycleMatrix T coT signed = some C) :
    (transpose T.length coT.length C).wf coT.length T.length = true ∧
    ∀ i, i < T.length → ∀ j, j < coT.length → ent (transpose T.length coT.length C) j i = ent C i j := by
  refine ⟨wf_ofFn _ _ _, ?_⟩
  intro i hi j hj
  simp only [transpose, ent_ofFn _ hj hi]

/-- Transposing twice gives the matrix back (so either output determines the other). -/
theorem transpose_transpose {m n : Nat} {C : Mat} (hwf : C.wf m n = true) : transpose n m (transpose m n C) = C := by
  apply mat_ext (wf_ofFn _ _ _) hwf
  intro i hi j hj
  simp only [transpose, ent_ofFn _ hi hj, ent_ofFn _ hj hi]

/-- The judge resolves the forest list by `filterMap`; for lists all of whose ids are known this is `edgesOf`. -/
theorem edgesOf_eq_filterMap {g : Graph} : ∀ {ids : List Nat} {T : List Edge}, g.edgesOf ids = some T →
    ids.filterMap g.edge? = T := by
  intro ids
  induction ids with
  | nil => intro T h; simp [Graph.edgesOf] at h; subst h; rfl
  | cons a l ih =>
    intro T h
    unfold Graph.edgesOf at h
    rw [List.mapM_cons] at h
    cases ha : g.edge? a with
    | none => simp [ha] at h
    | some b =>
      cases hl : l.mapM g.edge? with
      | none => simp [ha, hl] at h
      | some bs =>
        simp [ha, hl] at h
        subst h
        simp [List.filterMap_cons, ha, ih (T := bs) hl]

/-- Round trip: if `forest`/`coforest` partition the edge ids of `g`, resolve to `T`/`coT`, `T` is a spanning forest and the
construction yields `C`, then the certificate checker accepts `C` with this very graph — constructed matrices are
graphic (`signed = false`) resp. network (`signed = true`) matrices in the sense of C05/C06. -/
theorem roundtrip {g : Graph} {forest coforest : List Nat} {T coT : List Edge} {signed : Bool} {C : Mat}
    (hC : cycleMatrix T coT signed = some C)
    (hT : g.edgesOf forest = some T) (hcoT : g.edgesOf coforest = some coT)
    (hnd : (forest ++ coforest).Nodup) (hall : ∀ e ∈ g.edges, e.id ∈ forest ++ coforest)
    (hlen : (forest ++ coforest).length = g.edges.length) (hsp : isSpanningForest g T = true) :
    checkGraphCert T.length coT.length C g forest coforest signed = .ok () := by
  rw [checkGraphCert_ok_iff]
  exact ⟨(edgesOf_spec hT).1.symm, (edgesOf_spec hcoT).1.symm, hnd, hall, hlen, T, coT, hT, hcoT, hsp, hC⟩

/-- … and conversely the checker accepts nothing but the constructed matrix: the certificate determines `M`. -/
theorem cert_unique {m n : Nat} {M M' : Mat} {g : Graph} {forest coforest : List Nat} {signed : Bool}
    (h : checkGraphCert m n M g forest coforest signed = .ok ())
    (h' : checkGraphCert m n M' g forest coforest signed = .ok ()) : M = M' := by
  obtain ⟨_, _, _, _, _, T, coT, hT, hcoT, _, hC⟩ := (checkGraphCert_ok_iff _ _ _ _ _ _ _).mp h
  obtain ⟨_, _, _, _, _, T', coT', hT', hcoT', _, hC'⟩ := (checkGraphCert_ok_iff _ _ _ _ _ _ _).mp h'
  rw [hT] at hT'; rw [hcoT] at hcoT'
  cases hT'; cases hcoT'
  rw [hC] at hC'
  exact Option.some.inj hC'

/-- Non-vacuity: the triangle, undirected and directed (with a reversed forest arc), forest `{0,1}`, coforest `{2}`;
the constructed matrices, their transposes, and the round trip through the certificate checker. -/
example :
    let T : List Edge := [⟨0, 0, 1, false⟩, ⟨1, 1, 2, false⟩]
    let T' : List Edge := [⟨0, 0, 1, false⟩, ⟨1, 1, 2, true⟩]
    let coT : List Edge := [⟨2, 0, 2, false⟩]
    let g : Graph := { nodes := [0, 1, 2], edges := T ++ coT }
    let g' : Graph := { nodes := [0, 1, 2], edges := T' ++ coT }
    cycleMatrix T coT false = some [[1], [1]] ∧
    cycleMatrix T coT true = some [[1], [1]] ∧
    cycleMatrix T' coT true = some [[1], [-1]] ∧
    transpose 2 1 [[1], [-1]] = [[1, -1]] ∧
    g.edgesOf [0, 1] = some T ∧ g.edgesOf [2] = some coT ∧ g'.edgesOf [0, 1] = some T' ∧
    isSpanningForest g T = true ∧ isSpanningForest g [⟨0, 0, 1, false⟩] = false ∧ isSpanningForest g (T ++ coT) = false ∧
    checkGraphCert 2 1 [[1], [1]] g [0, 1] [2] false = .ok () ∧
    checkGraphCert 2 1 [[1], [-1]] g' [0, 1] [2] true = .ok () ∧
    cycleMatrix [⟨1, 1, 2, false⟩, ⟨2, 0, 2, false⟩] [⟨0, 0, 1, false⟩] true = some [[-1], [1]] ∧
    checkGraphCert 2 1 [[-1], [1]] g [1, 2] [0] true = .ok () := by
  decide

end Cmr.Props.C14
