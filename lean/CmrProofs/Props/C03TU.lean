/-
  Property C03, continued — partial TU certification of Seymour decomposition trees.

  `CmrProofs/Props/C03.lean` §4 proves that an accepted series-parallel node whose remainder is totally unimodular
  is totally unimodular (`sp_node_TU_partial`).  This file adds the other node kinds whose TU closure is proved in
  this project, and the induction over the tree:

  1. 1-sum nodes (`onesum_node_TU_iff`, `onesum_node_TU`): from `C03.onesum_blocks`, the block-diagonal lemma
     `C12.compose1_TU` (= `isTU_blockDiag`) by induction over the list of blocks (`blocks_TU`), and invariance under
     line permutations (`C10.tu_P`).  Holds over both fields, no hypothesis on the entries, and is an equivalence.
  2. 2-sum nodes (`twosum_node_TU` for ternary trees, `twosum_node_TU_binary_partial` for binary trees with 0/1
     children): from `C03.sum_recomposes` (the checker composes the children with `compose2a`, last row of the first
     child and first column of the second child special, and compares with the node's matrix read along permutations
     `rho`, `kap`), `C12.compose2a_TU(_binary)` and `C10.tu_P`.  (`checkRecompose` never uses `compose2b`.)
  3. pivot nodes of ternary trees (`pivot_node_TU_iff`, `pivot_node_TU`): from `C03.pivots_child` and the lift
     `pivots3_TU` of `C10.tu_V3` to pivot sequences.  The node's matrix must have entries in {-1,0,1} (`pivots3` reduces
     modulo 3, so without this hypothesis an entry 2 would be a counterexample, cf. the example after `C10.tu_V3`).
     An equivalence.
  4. The tree.  `checkTree` checks no ordering invariant on node ids (children are looked up by `findNode`, the first
     node of the list with the given id; nothing forces children to come later or to have larger ids, and a node list
     may be cyclic — see the last example, an accepted list in which a non-TU node is a 1-sum of itself and an
     empty matrix), so the combined statement is given for the inductive closure `Certified nodes nd`:
     a node is certified if its matrix is TU (`base`: the leaves — graphic, cographic, planar, R10 leaves are *not*
     proved TU in this project, their total unimodularity is a hypothesis), or if it is an accepted series-parallel /
     1-sum / 2-sum / pivot node (with the side conditions above) all of whose children are certified.
     `certified_TU : Certified nodes nd → isTU … = true`, `certified_TU_mathlib` (Mathlib's `IsTotallyUnimodular`),
     `certifiedId_TU` (nodes addressed by id).
     `tree_TU_partial`: for a tree accepted by `checkTree` in which child ids are larger than parent ids (what
     `parseNode` produces, but *not* checked by `checkTree` — hence `_partial`), all nodes are ternary with entries in
     {-1,0,1}, no Δ-, Y- or 3-sum node occurs and all leaves are TU, every node is TU.
  5. Δ-sum and Y-sum nodes of ternary trees (`deltasum_node_TU`, `ysum_node_TU`): from `C03.deltasum_recomposes` /
     `C03.ysum_recomposes` (the checker composes the children with `composeDelta` / `composeY` at the recorded special
     lines and compares with the node's matrix read along permutations `rho`, `kap`), the closure theorems
     `C12Delta.composeDelta_TU` / `C12Delta.composeY_TU` and `C10.tu_P`.  The shape facts (`deltasum_shape`,
     `ysum_shape`: `(m0-1)+(m1-1) = numRows`, `(n0-2)+(n1-2) = numCols`, resp. `(m0-2)+(m1-2)`, `(n0-1)+(n1-1)`) do
     *not* come from the `keepMapped` lengths as for 2-sums — the checker drops every line listed in `specialRows` /
     `specialCols`, and nothing bounds the length of these lists — but from `P = sub M rho kap` and the well-formedness
     of both sides (`composed_shape`); the column equation holds only if the node has a row (counterexample: last
     example of the file), and a node without rows is TU anyway (`isTU_zero_rows`).
     The closure predicate with the two new constructors is a *new* inductive type `Certified3` (so `Certified` and
     everything proved about it is unchanged; `certified3_of_certified` embeds it), with `certified3_TU`,
     `certified3_TU_mathlib`, `certified3Id_TU` and `tree_TU_partial3` (as `tree_TU_partial`, node types deltasum and
     ysum allowed).

     (When §5 was written the TU closure of `compose3` was not yet proved, so `Certified3` has no constructor for
     3-sum nodes and `tree_TU_partial3` excludes them; §6 closes this gap with a further predicate.)
  6. 3-sum nodes of ternary trees (Truemper's form, type `threesum`; `threesum_node_TU`): from
     `C03.threesum_recomposes` (the checker composes the children with `compose3` at the ten recorded special lines and
     compares with the node's matrix read along permutations `rho`, `kap`), the closure theorem
     `C12Three.compose3_TU` and `C10.tu_P`.  The checker passes `fun N => chOf nd != 3 || isTU 3 3 N` as the test of
     the connecting matrix `N`; for a ternary node (`chOf nd = 3`) this is the function `fun N => isTU 3 3 N` of
     `compose3_TU` (`tuCheck_ternary`, by `rfl`).  Shape facts as in §5 (`threesum_shape`:
     `(m0-2)+(m1-1) = numRows`, `(n0-1)+(n1-2) = numCols` if the node has a row), through `composed_shape` and
     `C12.compose3_wf`.
     The closure predicate with all constructors is the new inductive type `Certified4` (`Certified3` and everything
     about it unchanged; `certified4_of_certified3` embeds it), with `certified4_TU`, `certified4_TU_mathlib`,
     `certified4Id_TU`.  `accepted_type`: a node accepted by `checkRecompose` is a leaf or has one of the seven inner
     types (series-parallel, pivots, 1-, 2-, Δ-, Y-, 3-sum) — any other type makes `sumSpec` fail — so the whole-tree
     theorem `tree_TU_partial4` needs *no* hypothesis on the node types any more:

       in a ternary tree accepted by `checkTree`, with child ids larger than parent ids (`hord`) and entries in
       {-1,0,1}, in which all leaves are totally unimodular, every node is totally unimodular.

  What remains a hypothesis of `tree_TU_partial4` (hence still `_partial`):
    * the total unimodularity of the leaves (`hleaf`: graphic, cographic, planar, R10, unknown, irregular leaves are
      not proved TU in this project);
    * the ordering invariant `hord` (children have larger ids than their parent; not checked by `checkTree`, but
      checked by the judge on every dumped tree — the pre-order id invariant);
    * ternarity (`hfield`): every node has `ternary = true` and a matrix with entries in {-1,0,1}.
  Binary trees are excluded: Δ-, Y- and 3-sum nodes of binary trees (`composeDelta 2` / `composeY 2` / `compose3 2`
  reduce modulo 2, and for `ch = 2` the checker does not even test the connecting matrix `N` of a 3-sum; closure is
  proved only for `ch = 3`) and pivot nodes of binary trees (a GF(2) pivot does not preserve total unimodularity of the
  0/1 matrix; it preserves regularity, which is not the subject here) are out of scope; only 1-sums (any field),
  series-parallel nodes and 2-sums of 0/1 children (`twosum_node_TU_binary_partial`) are covered there.

  Hypotheses that had to be added, and why:
    * `isTernary nd.matrix.toDense` for series-parallel and pivot nodes (a unit line with entry 2 is accepted by
      `applyReductions`; `pivots3` reduces modulo 3);
    * `nd.ternary = true` for 2-sum, Δ-sum, Y-sum, 3-sum and pivot nodes (the field decides which composition / pivot
      the checker uses, and for 3-sums whether `N` is tested at all);
    * for 2-sum nodes of binary trees: the children are 0/1 matrices (`compose2a 2` reduces modulo 2).
-/
import CmrProofs.Props.C03
import CmrProofs.Props.C10
import CmrProofs.Props.C12Delta
import CmrProofs.Props.C12Three

set_option linter.unusedSimpArgs false
set_option linter.unusedVariables false

namespace Cmr.Props.C03TU
open Cmr

/-! ### 0. helpers -/

/-- the entry function of the block-diagonal arrangement checked by `checkRecompose` for 1-sum nodes -/
def blockEntry (blocks : List (List Nat × List Nat × Mat)) (i j : Nat) : Int :=
  match blocks.find? (fun b => b.1.contains i && b.2.1.contains j) with
  | some (rs, cs, B) => ent B (rs.idxOf i) (cs.idxOf j)
  | none => 0

theorem blockEntry_cons (b : List Nat × List Nat × Mat) (rest : List (List Nat × List Nat × Mat)) (i j : Nat) :
    blockEntry (b :: rest) i j =
      if (b.1.contains i && b.2.1.contains j) = true then ent b.2.2 (b.1.idxOf i) (b.2.1.idxOf j)
      else blockEntry rest i j := by
  unfold blockEntry
  rw [List.find?_cons]
  split_ifs with h
  · simp only [h]
  · simp only [h]

theorem blockEntry_zero_of_row {blocks : List (List Nat × List Nat × Mat)} {i : Nat}
    (hi : i ∉ blocks.flatMap (·.1)) (j : Nat) : blockEntry blocks i j = 0 := by
  induction blocks with
  | nil => rfl
  | cons b rest ih =>
    rw [List.flatMap_cons, List.mem_append, not_or] at hi
    rw [blockEntry_cons, if_neg, ih hi.2]
    simp [hi.1]

theorem blockEntry_zero_of_col {blocks : List (List Nat × List Nat × Mat)} (i : Nat) {j : Nat}
    (hj : j ∉ blocks.flatMap (·.2.1)) : blockEntry blocks i j = 0 := by
  induction blocks with
  | nil => rfl
  | cons b rest ih =>
    rw [List.flatMap_cons, List.mem_append, not_or] at hj
    rw [blockEntry_cons, if_neg, ih hj.2]
    simp [hj.1]

theorem isTU_zero_zero (M : Mat) : isTU 0 0 M = true := rfl

theorem getD_lt (l : List Nat) {i : Nat} (h : i < l.length) : l.getD i 0 = l[i] := by
  simp [List.getD_eq_getElem?_getD, h]

theorem not_both_left {rs cs : List Nat} {x : Nat} (y : Nat) (h : x ∉ rs) : ¬ (rs.contains x && cs.contains y) = true := by
  simp [h]

theorem not_both_right {rs cs : List Nat} (x : Nat) {y : Nat} (h : y ∉ cs) : ¬ (rs.contains x && cs.contains y) = true := by
  simp [h]

theorem getD_append_left' (l₁ l₂ : List Nat) {i : Nat} (h : i < l₁.length) : (l₁ ++ l₂).getD i 0 = l₁.getD i 0 := by
  simp [List.getD_eq_getElem?_getD, List.getElem?_append_left h]

theorem getD_append_right' (l₁ l₂ : List Nat) {i : Nat} (h : l₁.length ≤ i) :
    (l₁ ++ l₂).getD i 0 = l₂.getD (i - l₁.length) 0 := by
  simp [List.getD_eq_getElem?_getD, List.getElem?_append_right h]

/-- The block-diagonal arrangement, read along the concatenated line lists, is TU iff all blocks are. -/
theorem blocks_TU (blocks : List (List Nat × List Nat × Mat))
    (hR : (blocks.flatMap (·.1)).Nodup) (hC : (blocks.flatMap (·.2.1)).Nodup) :
    isTU (blocks.flatMap (·.1)).length (blocks.flatMap (·.2.1)).length
      (Mat.ofFn (blocks.flatMap (·.1)).length (blocks.flatMap (·.2.1)).length (fun i j =>
        blockEntry blocks ((blocks.flatMap (·.1)).getD i 0) ((blocks.flatMap (·.2.1)).getD j 0))) = true ↔
    ∀ b ∈ blocks, isTU b.1.length b.2.1.length b.2.2 = true := by
  induction blocks with
  | nil => simp [isTU_zero_zero]
  | cons b rest ih =>
    obtain ⟨rs, cs, B⟩ := b
    simp only [List.flatMap_cons, List.length_append, List.mem_cons, forall_eq_or_imp] at hR hC ⊢
    obtain ⟨hrs, hR', hdR⟩ := List.nodup_append.mp hR
    obtain ⟨hcs, hC', hdC⟩ := List.nodup_append.mp hC
    rw [← ih hR' hC', ← isTU_blockDiag]
    rw [Bool.eq_iff_iff.mp ?_]
    apply isTU_congr
    intro i hi j hj
    rw [ent_ofFn _ hi hj, Cmr.ent_blockMat _ _ _ _ _ _ _ _ hi hj, blockEntry_cons]
    by_cases h1 : i < rs.length <;> by_cases h2 : j < cs.length <;> simp only [h1, h2, if_true, if_false]
    · rw [getD_append_left' rs _ h1, getD_append_left' cs _ h2, getD_lt _ h1, getD_lt _ h2]
      simp [hrs.idxOf_getElem, hcs.idxOf_getElem]
    · have hj' : j - cs.length < (rest.flatMap (·.2.1)).length := by omega
      rw [getD_append_right' cs _ (by omega : cs.length ≤ j), getD_lt _ hj']
      have hmem : (rest.flatMap (·.2.1))[j - cs.length] ∈ rest.flatMap (·.2.1) := List.getElem_mem _
      have hn : (rest.flatMap (·.2.1))[j - cs.length] ∉ cs := fun hx => hdC _ hx _ hmem rfl
      rw [if_neg (not_both_right _ hn), getD_append_left' rs _ h1, getD_lt _ h1]
      exact blockEntry_zero_of_row (fun hx => hdR _ (List.getElem_mem _) _ hx rfl) _
    · have hi' : i - rs.length < (rest.flatMap (·.1)).length := by omega
      rw [getD_append_right' rs _ (by omega : rs.length ≤ i), getD_lt _ hi']
      have hmem : (rest.flatMap (·.1))[i - rs.length] ∈ rest.flatMap (·.1) := List.getElem_mem _
      have hn : (rest.flatMap (·.1))[i - rs.length] ∉ rs := fun hx => hdR _ hx _ hmem rfl
      rw [if_neg (not_both_left _ hn), getD_append_left' cs _ h2, getD_lt _ h2]
      exact blockEntry_zero_of_col _ (fun hx => hdC _ (List.getElem_mem _) _ hx rfl)
    · have hi' : i - rs.length < (rest.flatMap (·.1)).length := by omega
      rw [getD_append_right' rs _ (by omega : rs.length ≤ i), getD_append_right' cs _ (by omega : cs.length ≤ j)]
      have hmem : (rest.flatMap (·.1)).getD (i - rs.length) 0 ∈ rest.flatMap (·.1) := by
        rw [getD_lt _ hi']; exact List.getElem_mem _
      have hn : (rest.flatMap (·.1)).getD (i - rs.length) 0 ∉ rs := fun hx => hdR _ hx _ hmem rfl
      rw [if_neg (not_both_left _ hn), ent_ofFn _ (by omega) (by omega)]


theorem isPermOf_of_isPerm {l : List Nat} {n : Nat} (h : isPerm l n = true) : isPermOf l n = true := by
  obtain ⟨h1, h2, h3, _⟩ := C03.isPerm_spec h
  exact (isPermOf_iff l n).mpr ⟨h2, h3, h1⟩

theorem toDense_wf (A : Csr) : A.toDense.wf A.numRows A.numCols = true := wf_ofFn _ _ _

/-- TU is invariant under reading a matrix along permutations of its rows and columns (`isPerm` form). -/
theorem isTU_sub_perm {m n : Nat} {M : Mat} (hwf : M.wf m n = true) {rho kap : List Nat}
    (hr : isPerm rho m = true) (hc : isPerm kap n = true) : isTU m n (sub M rho kap) = isTU m n M :=
  C10.tu_P hwf (isPermOf_of_isPerm hr) (isPermOf_of_isPerm hc)

theorem forall2_forall_iff {α β : Type} {R : α → β → Prop} {P : α → Prop} {Q : β → Prop} {l : List α} {k : List β}
    (h : List.Forall₂ R l k) (hPQ : ∀ x y, R x y → (P x ↔ Q y)) : (∀ x ∈ l, P x) ↔ ∀ y ∈ k, Q y := by
  induction h with
  | nil => simp
  | cons h1 _ ih => simp only [List.mem_cons, forall_eq_or_imp, ih, hPQ _ _ h1]

/-! ### 1. 1-sum nodes -/

/-- **1-sum node**: an accepted 1-sum node is totally unimodular iff all its children are.  No hypothesis on the field
or on the entries is needed. -/
theorem onesum_node_TU_iff {nodes : List FNode} {nd : FNode} (h : checkRecompose nodes nd = .ok ())
    (ht : nd.type = NodeType.onesum) :
    isTU nd.matrix.numRows nd.matrix.numCols nd.matrix.toDense = true ↔
      ∀ ci ∈ nd.children, ∀ k, findNode nodes ci.child = some k →
        isTU k.matrix.numRows k.matrix.numCols k.matrix.toDense = true := by
  obtain ⟨_, blocks, hf, hpR, hpC, _, _, hM⟩ := C03.onesum_blocks h ht
  have hkids : (∀ ci ∈ nd.children, ∀ k, findNode nodes ci.child = some k →
      isTU k.matrix.numRows k.matrix.numCols k.matrix.toDense = true) ↔
      ∀ b ∈ blocks, isTU b.1.length b.2.1.length b.2.2 = true := by
    refine forall2_forall_iff hf ?_
    rintro ci b ⟨k, hk, _, _, l1, l2, e⟩
    rw [l1, l2, e]
    constructor
    · intro hh; exact hh k hk
    · intro hh k' hk'
      rw [hk] at hk'
      cases hk'
      exact hh
  rw [hkids]
  obtain ⟨nR, lR, ltR, _⟩ := C03.isPerm_spec hpR
  obtain ⟨nC, lC, ltC, _⟩ := C03.isPerm_spec hpC
  rw [← blocks_TU blocks nR nC, ← isTU_sub_perm (toDense_wf _) hpR hpC]
  have hM' : nd.matrix.toDense = Mat.ofFn nd.matrix.numRows nd.matrix.numCols (blockEntry blocks) := hM
  rw [hM', ← lR, ← lC]
  rw [Bool.eq_iff_iff.mp ?_]
  apply isTU_congr
  intro i hi j hj
  rw [ent_sub _ _ _ hi hj, ent_ofFn _ (by rw [lR]; exact ltR _ (List.getElem_mem _)) (by rw [lC]; exact ltC _ (List.getElem_mem _)),
    ent_ofFn _ hi hj, getD_lt _ hi, getD_lt _ hj]

theorem onesum_node_TU {nodes : List FNode} {nd : FNode} (h : checkRecompose nodes nd = .ok ())
    (ht : nd.type = NodeType.onesum)
    (hchild : ∀ ci ∈ nd.children, ∀ k, findNode nodes ci.child = some k →
      isTU k.matrix.numRows k.matrix.numCols k.matrix.toDense = true) :
    isTU nd.matrix.numRows nd.matrix.numCols nd.matrix.toDense = true :=
  (onesum_node_TU_iff h ht).mpr hchild


/-! ### 2. 2-sum nodes -/

theorem length_filter_ne (n a : Nat) (ha : a < n) :
    ((List.range n).filter (fun i => !([some a] : List (Option Nat)).contains (some i))).length = n - 1 := by
  have : (List.range n).filter (fun i => !([some a] : List (Option Nat)).contains (some i)) = (List.range n).erase a := by
    rw [List.nodup_range.erase_eq_filter]
    apply List.filter_congr
    intro x _
    simp [bne, beq_eq_decide]
  rw [this, List.length_erase_of_mem (List.mem_range.mpr ha), List.length_range]

theorem length_keepMapped {l : List Int} {bad : List (Option Nat)} {f : Int → Option Nat} {r : List Nat}
    (h : keepMapped l bad f = some r) :
    r.length = ((List.range l.length).filter (fun i => !bad.contains (some i))).length := by
  unfold keepMapped at h
  exact ((Ex.mapM_option_eq_some_iff _ _ _).mp h).length_eq.symm

theorem length_keepMapped_nil {l : List Int} {f : Int → Option Nat} {r : List Nat}
    (h : keepMapped l [] f = some r) : r.length = l.length := by
  rw [length_keepMapped h]; simp

theorem length_keepMapped_one {l : List Int} {a : Nat} {f : Int → Option Nat} {r : List Nat}
    (h : keepMapped l [some a] f = some r) (ha : a < l.length) : r.length = l.length - 1 := by
  rw [length_keepMapped h, length_filter_ne _ _ ha]

/-- what the checker guarantees at a 2-sum node, with the shapes made explicit -/
theorem twosum_shape {nodes : List FNode} {nd : FNode} (h : checkRecompose nodes nd = .ok ())
    (ht : nd.type = NodeType.twosum) :
    ∃ c0 k0 c1 k1, nd.children = [c0, c1] ∧ findNode nodes c0.child = some k0 ∧ findNode nodes c1.child = some k1 ∧
      ∃ P rho kap,
        compose2a (chOf nd) k0.matrix.numRows k0.matrix.numCols k0.matrix.toDense k1.matrix.numRows k1.matrix.numCols
          k1.matrix.toDense (k0.matrix.numRows - 1) 0 = .ok P ∧
        isPerm rho nd.matrix.numRows = true ∧ isPerm kap nd.matrix.numCols = true ∧
        P = sub nd.matrix.toDense rho kap ∧
        (k0.matrix.numRows - 1) + k1.matrix.numRows = nd.matrix.numRows ∧
        k0.matrix.numCols + (k1.matrix.numCols - 1) = nd.matrix.numCols := by
  obtain ⟨c0, k0, c1, k1, hc, hf0, hf1, l1, l2, l3, l4, P, r0, r1, q0, q1, hP, e1, e2, e3, e4, p1, p2, hM⟩ :=
    C03.sum_recomposes h (Or.inl ht)
  rw [C03.sumSpec_twosum ht] at hP e1 e2 e3 e4
  simp only at hP e1 e2 e3 e4
  split at hP
  · cases hP
  · rename_i hz
    simp only [Bool.or_eq_true, beq_iff_eq, not_or] at hz
    refine ⟨c0, k0, c1, k1, hc, hf0, hf1, P, _, _, hP, p1, p2, hM, ?_, ?_⟩
    · have := (C03.isPerm_spec p1).2.1
      rw [List.length_append, length_keepMapped_one e1 (by omega), length_keepMapped_nil e2, l1, l3] at this
      exact this
    · have := (C03.isPerm_spec p2).2.1
      rw [List.length_append, length_keepMapped_nil e3, length_keepMapped_one e4 (by omega), l2, l4] at this
      exact this

/-- **2-sum node of a ternary tree**: if both children are totally unimodular, so is the node. -/
theorem twosum_node_TU {nodes : List FNode} {nd : FNode} (h : checkRecompose nodes nd = .ok ())
    (ht : nd.type = NodeType.twosum) (hf : nd.ternary = true)
    (hchild : ∀ ci ∈ nd.children, ∀ k, findNode nodes ci.child = some k →
      isTU k.matrix.numRows k.matrix.numCols k.matrix.toDense = true) :
    isTU nd.matrix.numRows nd.matrix.numCols nd.matrix.toDense = true := by
  obtain ⟨c0, k0, c1, k1, hc, hf0, hf1, P, rho, kap, hP, p1, p2, hM, lr, lc⟩ := twosum_shape h ht
  have hch : chOf nd = 3 := by simp [chOf, hf]
  rw [hch] at hP
  have h0 := hchild c0 (by rw [hc]; simp) k0 hf0
  have h1 := hchild c1 (by rw [hc]; simp) k1 hf1
  have key := C12.compose2a_TU hP h0 h1
  rw [lr, lc, hM, isTU_sub_perm (toDense_wf _) p1 p2] at key
  exact key

/-- **2-sum node of a binary tree** (partial: the children are assumed to be 0/1 matrices, which `checkRecompose`
does not check): if both children are totally unimodular, so is the node. -/
theorem twosum_node_TU_binary_partial {nodes : List FNode} {nd : FNode} (h : checkRecompose nodes nd = .ok ())
    (ht : nd.type = NodeType.twosum) (hf : nd.ternary = false)
    (hbin : ∀ ci ∈ nd.children, ∀ k, findNode nodes ci.child = some k → isBinary k.matrix.toDense = true)
    (hchild : ∀ ci ∈ nd.children, ∀ k, findNode nodes ci.child = some k →
      isTU k.matrix.numRows k.matrix.numCols k.matrix.toDense = true) :
    isTU nd.matrix.numRows nd.matrix.numCols nd.matrix.toDense = true := by
  obtain ⟨c0, k0, c1, k1, hc, hf0, hf1, P, rho, kap, hP, p1, p2, hM, lr, lc⟩ := twosum_shape h ht
  have hch : chOf nd = 2 := by simp [chOf, hf]
  rw [hch] at hP
  have m0 : c0 ∈ nd.children := by rw [hc]; simp
  have m1 : c1 ∈ nd.children := by rw [hc]; simp
  have key := C12.compose2a_TU_binary hP (toDense_wf _) (hbin c0 m0 k0 hf0) (toDense_wf _) (hbin c1 m1 k1 hf1)
    (hchild c0 m0 k0 hf0) (hchild c1 m1 k1 hf1)
  rw [lr, lc, hM, isTU_sub_perm (toDense_wf _) p1 p2] at key
  exact key

/-! ### 3. pivot nodes -/

/-- lift of `tu_V3` to pivot sequences: on a ternary matrix, a successful sequence of GF(3) pivots does not change the
TU verdict -/
theorem pivots3_TU {m n : Nat} (ps : List (Nat × Nat)) : ∀ (M : Mat), M.wf m n = true → isTernary M = true →
    ∀ E, pivots3 m n M ps = some E → isTU m n E = isTU m n M := by
  induction ps with
  | nil =>
    intro M hwf ht E hE
    simp only [pivots3, Option.some.injEq] at hE
    subst hE
    apply isTU_congr
    intro i hi j hj
    rw [ent_ofFn _ hi hj]
    exact mod3_of_ternary (ent_ternary hwf ht hi hj)
  | cons p ps ih =>
    obtain ⟨r, c⟩ := p
    intro M hwf ht E hE
    simp only [pivots3] at hE
    split at hE
    · rename_i hok
      rw [ih _ (C13.pivot_wf3 m n M r c) (C13.pivot3_ternary m n M r c) E hE]
      exact C10.tu_V3 hwf ht hok
    · cases hE

/-- **Pivot node of a ternary tree**: an accepted pivot node with entries in {-1,0,1} is totally unimodular iff its
child is. -/
theorem pivot_node_TU_iff {nodes : List FNode} {nd : FNode} (h : checkRecompose nodes nd = .ok ())
    (ht : nd.type = NodeType.pivots) (hf : nd.ternary = true) (hter : isTernary nd.matrix.toDense = true) :
    isTU nd.matrix.numRows nd.matrix.numCols nd.matrix.toDense = true ↔
      ∀ ci ∈ nd.children, ∀ k, findNode nodes ci.child = some k →
        isTU k.matrix.numRows k.matrix.numCols k.matrix.toDense = true := by
  obtain ⟨ci, k, E, hc, hk, _, _, _, hE, e1, e2, e3, _, _⟩ := C03.pivots_child h ht
  rw [hf, if_pos rfl] at hE
  have key := pivots3_TU nd.pivots _ (toDense_wf nd.matrix) hter E hE
  rw [← key, hc]
  simp only [List.mem_singleton, forall_eq]
  constructor
  · intro hh k' hk'
    rw [hk] at hk'
    cases hk'
    rw [e1, e2, e3]; exact hh
  · intro hh
    have := hh k hk
    rwa [e1, e2, e3] at this


theorem pivot_node_TU {nodes : List FNode} {nd : FNode} (h : checkRecompose nodes nd = .ok ())
    (ht : nd.type = NodeType.pivots) (hf : nd.ternary = true) (hter : isTernary nd.matrix.toDense = true)
    (hchild : ∀ ci ∈ nd.children, ∀ k, findNode nodes ci.child = some k →
      isTU k.matrix.numRows k.matrix.numCols k.matrix.toDense = true) :
    isTU nd.matrix.numRows nd.matrix.numCols nd.matrix.toDense = true :=
  (pivot_node_TU_iff h ht hf hter).mpr hchild

/-! ### 4. the tree -/

/-- Inductive closure: the nodes whose total unimodularity follows from the total unimodularity of the leaves below
them through series-parallel, 1-sum, 2-sum and pivot nodes.  (`base` is not restricted to leaf types: any node whose
matrix is known to be TU may serve as a starting point.) -/
inductive Certified (nodes : List FNode) : FNode → Prop
  | base {nd : FNode} (hTU : isTU nd.matrix.numRows nd.matrix.numCols nd.matrix.toDense = true) : Certified nodes nd
  | sp {nd : FNode} (h : checkRecompose nodes nd = .ok ()) (ht : nd.type = NodeType.seriesParallel)
      (hter : isTernary nd.matrix.toDense = true)
      (hkids : ∀ ci ∈ nd.children, ∀ k, findNode nodes ci.child = some k → Certified nodes k) : Certified nodes nd
  | onesum {nd : FNode} (h : checkRecompose nodes nd = .ok ()) (ht : nd.type = NodeType.onesum)
      (hkids : ∀ ci ∈ nd.children, ∀ k, findNode nodes ci.child = some k → Certified nodes k) : Certified nodes nd
  | twosum {nd : FNode} (h : checkRecompose nodes nd = .ok ()) (ht : nd.type = NodeType.twosum)
      (hf : nd.ternary = true)
      (hkids : ∀ ci ∈ nd.children, ∀ k, findNode nodes ci.child = some k → Certified nodes k) : Certified nodes nd
  | twosumBinary {nd : FNode} (h : checkRecompose nodes nd = .ok ()) (ht : nd.type = NodeType.twosum)
      (hf : nd.ternary = false)
      (hbin : ∀ ci ∈ nd.children, ∀ k, findNode nodes ci.child = some k → isBinary k.matrix.toDense = true)
      (hkids : ∀ ci ∈ nd.children, ∀ k, findNode nodes ci.child = some k → Certified nodes k) : Certified nodes nd
  | pivots {nd : FNode} (h : checkRecompose nodes nd = .ok ()) (ht : nd.type = NodeType.pivots)
      (hf : nd.ternary = true) (hter : isTernary nd.matrix.toDense = true)
      (hkids : ∀ ci ∈ nd.children, ∀ k, findNode nodes ci.child = some k → Certified nodes k) : Certified nodes nd

/-- **Partial TU certification of a decomposition tree**: every certified node is totally unimodular. -/
theorem certified_TU {nodes : List FNode} {nd : FNode} (hc : Certified nodes nd) :
    isTU nd.matrix.numRows nd.matrix.numCols nd.matrix.toDense = true := by
  induction hc with
  | base hTU => exact hTU
  | sp h ht hter _ ih => exact C03.sp_node_TU_partial h ht hter ih
  | onesum h ht _ ih => exact onesum_node_TU h ht ih
  | twosum h ht hf _ ih => exact twosum_node_TU h ht hf ih
  | twosumBinary h ht hf hbin _ ih => exact twosum_node_TU_binary_partial h ht hf hbin ih
  | pivots h ht hf hter _ ih => exact pivot_node_TU h ht hf hter ih

/-- … in Mathlib's sense. -/
theorem certified_TU_mathlib {nodes : List FNode} {nd : FNode} (hc : Certified nodes nd) :
    (toMx nd.matrix.numRows nd.matrix.numCols nd.matrix.toDense).IsTotallyUnimodular :=
  (isTU_iff _ _ _).mp (certified_TU hc)

/-- nodes addressed by id, as the children lists do -/
def CertifiedId (nodes : List FNode) (i : Nat) : Prop := ∃ nd, findNode nodes i = some nd ∧ Certified nodes nd

theorem certifiedId_TU {nodes : List FNode} {i : Nat} (hc : CertifiedId nodes i) :
    ∃ nd, findNode nodes i = some nd ∧ isTU nd.matrix.numRows nd.matrix.numCols nd.matrix.toDense = true := by
  obtain ⟨nd, hf, h⟩ := hc
  exact ⟨nd, hf, certified_TU h⟩

/-- children given by id: it is enough that the ids of the children are certified -/
theorem kids_of_certifiedId {nodes : List FNode} {nd : FNode}
    (h : ∀ ci ∈ nd.children, CertifiedId nodes ci.child) :
    ∀ ci ∈ nd.children, ∀ k, findNode nodes ci.child = some k → Certified nodes k := by
  intro ci hci k hk
  obtain ⟨k', hk', hc⟩ := h ci hci
  rw [hk] at hk'
  cases hk'
  exact hc

/-! #### a whole tree, under the ordering invariant of `parseNode` -/

theorem findNode_spec {nodes : List FNode} {i : Nat} {k : FNode} (h : findNode nodes i = some k) :
    k ∈ nodes ∧ k.id = i := by
  unfold findNode at h
  refine ⟨List.mem_of_find?_eq_some h, ?_⟩
  have := List.find?_some h
  simpa using this

/-- an upper bound of the ids of a node list -/
def maxId (nodes : List FNode) : Nat := nodes.foldr (fun nd b => max nd.id b) 0

theorem le_maxId {nodes : List FNode} {nd : FNode} (h : nd ∈ nodes) : nd.id ≤ maxId nodes := by
  induction nodes with
  | nil => cases h
  | cons x rest ih =>
    simp only [maxId, List.foldr_cons]
    rcases List.mem_cons.mp h with rfl | hm
    · exact Nat.le_max_left _ _
    · exact Nat.le_trans (ih hm) (Nat.le_max_right _ _)

/-- **A whole tree** (partial: `hord`, the ordering invariant "children have larger ids than their parent", holds for
the node lists produced by `parseNode` but is not checked by `checkTree`; it provides the well-founded order for the
induction).  In a ternary tree accepted by `checkTree` all of whose matrices have entries in {-1,0,1}, without Δ-, Y-
and 3-sum nodes, and whose leaves are totally unimodular, every node is totally unimodular. -/
theorem tree_TU_partial {nodes : List FNode} (hT : checkTree nodes = .ok ())
    (hord : ∀ nd ∈ nodes, ∀ ci ∈ nd.children, nd.id < ci.child)
    (hfield : ∀ nd ∈ nodes, nd.ternary = true ∧ isTernary nd.matrix.toDense = true)
    (htypes : ∀ nd ∈ nodes, nd.type ∈ leafTypes ∨ nd.type = NodeType.seriesParallel ∨ nd.type = NodeType.pivots ∨
      nd.type = NodeType.onesum ∨ nd.type = NodeType.twosum)
    (hleaf : ∀ nd ∈ nodes, nd.type ∈ leafTypes → isTU nd.matrix.numRows nd.matrix.numCols nd.matrix.toDense = true) :
    ∀ nd ∈ nodes, Certified nodes nd ∧ isTU nd.matrix.numRows nd.matrix.numCols nd.matrix.toDense = true := by
  have step : ∀ nd ∈ nodes, (∀ ci ∈ nd.children, ∀ k, findNode nodes ci.child = some k → Certified nodes k) →
      Certified nodes nd := by
    intro nd hm hkids
    have hrec := (C03.checkTree_all_nodes hT nd hm).1
    rcases htypes nd hm with ht | ht | ht | ht | ht
    · exact Certified.base (hleaf nd hm ht)
    · exact Certified.sp hrec ht (hfield nd hm).2 hkids
    · exact Certified.pivots hrec ht (hfield nd hm).1 (hfield nd hm).2 hkids
    · exact Certified.onesum hrec ht hkids
    · exact Certified.twosum hrec ht (hfield nd hm).1 hkids
  have key : ∀ d, ∀ nd ∈ nodes, maxId nodes - nd.id ≤ d → Certified nodes nd := by
    intro d
    induction d with
    | zero =>
      intro nd hm hd
      refine step nd hm (fun ci hci k hk => ?_)
      obtain ⟨hkm, hid⟩ := findNode_spec hk
      have := hord nd hm ci hci
      have := le_maxId hkm
      omega
    | succ d ih =>
      intro nd hm hd
      refine step nd hm (fun ci hci k hk => ?_)
      obtain ⟨hkm, hid⟩ := findNode_spec hk
      have := hord nd hm ci hci
      have := le_maxId hkm
      exact ih k hkm (by omega)
  intro nd hm
  have := key _ nd hm (Nat.le_refl _)
  exact ⟨this, certified_TU this⟩

/-! ### 5. Δ-sum and Y-sum nodes of ternary trees -/

/-- a matrix without rows is totally unimodular -/
theorem isTU_zero_rows (n : Nat) (M : Mat) : isTU 0 n M = true := by
  rw [isTU_iff]
  exact Matrix.emptyRows_isTotallyUnimodular _

/-- the shape of a well-formed matrix is determined by the matrix, except for the column count of a matrix without
rows -/
theorem wf_dims {M : Mat} {m n m' n' : Nat} (h : M.wf m n = true) (h' : M.wf m' n' = true) :
    m = m' ∧ (0 < m → n = n') := by
  simp only [Mat.wf, Bool.and_eq_true, beq_iff_eq, List.all_eq_true] at h h'
  obtain ⟨h1, h2⟩ := h
  obtain ⟨h1', h2'⟩ := h'
  refine ⟨h1.symm.trans h1', fun hm => ?_⟩
  cases M with
  | nil => simp at h1; omega
  | cons r rest =>
    have a := h2 r (List.mem_cons_self ..)
    have b := h2' r (List.mem_cons_self ..)
    omega

/-- If the composed matrix `P` (well formed of shape `R × C`) equals the node's matrix read along permutations of its
rows and columns, then `R` is the node's row count and, unless the node has no rows, `C` is its column count.
(For Δ- and Y-sum nodes the shape cannot be read off the `keepMapped` lengths as for 2-sums: the checker drops *all*
lines listed in `specialRows` / `specialCols`, and these lists may be longer than the one/two entries that
`composeDelta` / `composeY` use; the shape is forced only through `P = sub M rho kap`.  With zero rows the column
counts may indeed differ, see the last example of the file.) -/
theorem composed_shape {nd : FNode} {P : Mat} {R C : Nat} {rho kap : List Nat} (hwf : P.wf R C = true)
    (p1 : isPerm rho nd.matrix.numRows = true) (p2 : isPerm kap nd.matrix.numCols = true)
    (hM : P = sub nd.matrix.toDense rho kap) :
    R = nd.matrix.numRows ∧ (0 < nd.matrix.numRows → C = nd.matrix.numCols) := by
  have hs : (sub nd.matrix.toDense rho kap).wf rho.length kap.length = true := by simp [Mat.wf, sub]
  rw [← hM] at hs
  obtain ⟨e1, e2⟩ := wf_dims hwf hs
  have l1 := (C03.isPerm_spec p1).2.1
  have l2 := (C03.isPerm_spec p2).2.1
  exact ⟨e1.trans l1, fun h => (e2 (by omega)).trans l2⟩

/-- common last step of the sum nodes: TU of the composed matrix transfers to the node's matrix -/
theorem sum_node_TU_of_composed {nd : FNode} {P : Mat} {R C : Nat} {rho kap : List Nat}
    (hwf : P.wf R C = true) (hTU : isTU R C P = true)
    (p1 : isPerm rho nd.matrix.numRows = true) (p2 : isPerm kap nd.matrix.numCols = true)
    (hM : P = sub nd.matrix.toDense rho kap) :
    isTU nd.matrix.numRows nd.matrix.numCols nd.matrix.toDense = true := by
  obtain ⟨e1, e2⟩ := composed_shape hwf p1 p2 hM
  by_cases hR : nd.matrix.numRows = 0
  · rw [hR]
    exact isTU_zero_rows _ _
  · rw [e1, e2 (by omega), hM, isTU_sub_perm (toDense_wf _) p1 p2] at hTU
    exact hTU

/-- what the checker guarantees at a Δ-sum node, with the shapes made explicit (the analogue of `twosum_shape`; the
column equation needs a node with at least one row) -/
theorem deltasum_shape {nodes : List FNode} {nd : FNode} (h : checkRecompose nodes nd = .ok ())
    (ht : nd.type = NodeType.deltasum) :
    ∃ c0 k0 c1 k1, nd.children = [c0, c1] ∧ findNode nodes c0.child = some k0 ∧ findNode nodes c1.child = some k1 ∧
      ∃ a b c d e f P rho kap,
        composeDelta (chOf nd) k0.matrix.numRows k0.matrix.numCols k0.matrix.toDense k1.matrix.numRows k1.matrix.numCols
          k1.matrix.toDense a b c d e f = .ok P ∧
        isPerm rho nd.matrix.numRows = true ∧ isPerm kap nd.matrix.numCols = true ∧
        P = sub nd.matrix.toDense rho kap ∧
        (k0.matrix.numRows - 1) + (k1.matrix.numRows - 1) = nd.matrix.numRows ∧
        (0 < nd.matrix.numRows → (k0.matrix.numCols - 2) + (k1.matrix.numCols - 2) = nd.matrix.numCols) := by
  obtain ⟨c0, k0, c1, k1, hc, hf0, hf1, a, b, c, d, e, f, _, _, _, _, _, _, P, rho, kap, hP, p1, p2, hM, _⟩ :=
    C03.deltasum_recomposes h ht
  obtain ⟨e1, e2⟩ := composed_shape (C12.composeDelta_wf hP) p1 p2 hM
  exact ⟨c0, k0, c1, k1, hc, hf0, hf1, a, b, c, d, e, f, P, rho, kap, hP, p1, p2, hM, e1, e2⟩

/-- what the checker guarantees at a Y-sum node, with the shapes made explicit -/
theorem ysum_shape {nodes : List FNode} {nd : FNode} (h : checkRecompose nodes nd = .ok ())
    (ht : nd.type = NodeType.ysum) :
    ∃ c0 k0 c1 k1, nd.children = [c0, c1] ∧ findNode nodes c0.child = some k0 ∧ findNode nodes c1.child = some k1 ∧
      ∃ a b c d e f P rho kap,
        composeY (chOf nd) k0.matrix.numRows k0.matrix.numCols k0.matrix.toDense k1.matrix.numRows k1.matrix.numCols
          k1.matrix.toDense a b c d e f = .ok P ∧
        isPerm rho nd.matrix.numRows = true ∧ isPerm kap nd.matrix.numCols = true ∧
        P = sub nd.matrix.toDense rho kap ∧
        (k0.matrix.numRows - 2) + (k1.matrix.numRows - 2) = nd.matrix.numRows ∧
        (0 < nd.matrix.numRows → (k0.matrix.numCols - 1) + (k1.matrix.numCols - 1) = nd.matrix.numCols) := by
  obtain ⟨c0, k0, c1, k1, hc, hf0, hf1, a, b, c, d, e, f, _, _, _, _, _, _, P, rho, kap, hP, p1, p2, hM, _⟩ :=
    C03.ysum_recomposes h ht
  obtain ⟨e1, e2⟩ := composed_shape (C12.composeY_wf hP) p1 p2 hM
  exact ⟨c0, k0, c1, k1, hc, hf0, hf1, a, b, c, d, e, f, P, rho, kap, hP, p1, p2, hM, e1, e2⟩

/-- **Δ-sum node of a ternary tree**: if both children are totally unimodular, so is the node
(`C12Delta.composeDelta_TU`). -/
theorem deltasum_node_TU {nodes : List FNode} {nd : FNode} (h : checkRecompose nodes nd = .ok ())
    (ht : nd.type = NodeType.deltasum) (hf : nd.ternary = true)
    (hchild : ∀ ci ∈ nd.children, ∀ k, findNode nodes ci.child = some k →
      isTU k.matrix.numRows k.matrix.numCols k.matrix.toDense = true) :
    isTU nd.matrix.numRows nd.matrix.numCols nd.matrix.toDense = true := by
  obtain ⟨c0, k0, c1, k1, hc, hf0, hf1, a, b, c, d, e, f, P, rho, kap, hP, p1, p2, hM, _, _⟩ := deltasum_shape h ht
  have hch : chOf nd = 3 := by simp [chOf, hf]
  rw [hch] at hP
  have h0 := hchild c0 (by rw [hc]; simp) k0 hf0
  have h1 := hchild c1 (by rw [hc]; simp) k1 hf1
  exact sum_node_TU_of_composed (C12.composeDelta_wf hP) (C12Delta.composeDelta_TU hP h0 h1) p1 p2 hM

/-- **Y-sum node of a ternary tree**: if both children are totally unimodular, so is the node
(`C12Delta.composeY_TU`). -/
theorem ysum_node_TU {nodes : List FNode} {nd : FNode} (h : checkRecompose nodes nd = .ok ())
    (ht : nd.type = NodeType.ysum) (hf : nd.ternary = true)
    (hchild : ∀ ci ∈ nd.children, ∀ k, findNode nodes ci.child = some k →
      isTU k.matrix.numRows k.matrix.numCols k.matrix.toDense = true) :
    isTU nd.matrix.numRows nd.matrix.numCols nd.matrix.toDense = true := by
  obtain ⟨c0, k0, c1, k1, hc, hf0, hf1, a, b, c, d, e, f, P, rho, kap, hP, p1, p2, hM, _, _⟩ := ysum_shape h ht
  have hch : chOf nd = 3 := by simp [chOf, hf]
  rw [hch] at hP
  have h0 := hchild c0 (by rw [hc]; simp) k0 hf0
  have h1 := hchild c1 (by rw [hc]; simp) k1 hf1
  exact sum_node_TU_of_composed (C12.composeY_wf hP) (C12Delta.composeY_TU hP h0 h1) p1 p2 hM

/-- Inductive closure as `Certified`, extended by Δ-sum and Y-sum nodes of ternary trees (a new predicate, so that
`Certified` and the theorems about it stay as they are; `certified3_of_certified` embeds the old one).  3-sum nodes
(type `threesum`) are still not covered. -/
inductive Certified3 (nodes : List FNode) : FNode → Prop
  | base {nd : FNode} (hTU : isTU nd.matrix.numRows nd.matrix.numCols nd.matrix.toDense = true) : Certified3 nodes nd
  | sp {nd : FNode} (h : checkRecompose nodes nd = .ok ()) (ht : nd.type = NodeType.seriesParallel)
      (hter : isTernary nd.matrix.toDense = true)
      (hkids : ∀ ci ∈ nd.children, ∀ k, findNode nodes ci.child = some k → Certified3 nodes k) : Certified3 nodes nd
  | onesum {nd : FNode} (h : checkRecompose nodes nd = .ok ()) (ht : nd.type = NodeType.onesum)
      (hkids : ∀ ci ∈ nd.children, ∀ k, findNode nodes ci.child = some k → Certified3 nodes k) : Certified3 nodes nd
  | twosum {nd : FNode} (h : checkRecompose nodes nd = .ok ()) (ht : nd.type = NodeType.twosum)
      (hf : nd.ternary = true)
      (hkids : ∀ ci ∈ nd.children, ∀ k, findNode nodes ci.child = some k → Certified3 nodes k) : Certified3 nodes nd
  | twosumBinary {nd : FNode} (h : checkRecompose nodes nd = .ok ()) (ht : nd.type = NodeType.twosum)
      (hf : nd.ternary = false)
      (hbin : ∀ ci ∈ nd.children, ∀ k, findNode nodes ci.child = some k → isBinary k.matrix.toDense = true)
      (hkids : ∀ ci ∈ nd.children, ∀ k, findNode nodes ci.child = some k → Certified3 nodes k) : Certified3 nodes nd
  | pivots {nd : FNode} (h : checkRecompose nodes nd = .ok ()) (ht : nd.type = NodeType.pivots)
      (hf : nd.ternary = true) (hter : isTernary nd.matrix.toDense = true)
      (hkids : ∀ ci ∈ nd.children, ∀ k, findNode nodes ci.child = some k → Certified3 nodes k) : Certified3 nodes nd
  | deltasum {nd : FNode} (h : checkRecompose nodes nd = .ok ()) (ht : nd.type = NodeType.deltasum)
      (hf : nd.ternary = true)
      (hkids : ∀ ci ∈ nd.children, ∀ k, findNode nodes ci.child = some k → Certified3 nodes k) : Certified3 nodes nd
  | ysum {nd : FNode} (h : checkRecompose nodes nd = .ok ()) (ht : nd.type = NodeType.ysum)
      (hf : nd.ternary = true)
      (hkids : ∀ ci ∈ nd.children, ∀ k, findNode nodes ci.child = some k → Certified3 nodes k) : Certified3 nodes nd

theorem certified3_of_certified {nodes : List FNode} {nd : FNode} (hc : Certified nodes nd) : Certified3 nodes nd := by
  induction hc with
  | base hTU => exact .base hTU
  | sp h ht hter _ ih => exact .sp h ht hter ih
  | onesum h ht _ ih => exact .onesum h ht ih
  | twosum h ht hf _ ih => exact .twosum h ht hf ih
  | twosumBinary h ht hf hbin _ ih => exact .twosumBinary h ht hf hbin ih
  | pivots h ht hf hter _ ih => exact .pivots h ht hf hter ih

/-- **Partial TU certification of a decomposition tree, with Δ- and Y-sum nodes**: every `Certified3` node is totally
unimodular. -/
theorem certified3_TU {nodes : List FNode} {nd : FNode} (hc : Certified3 nodes nd) :
    isTU nd.matrix.numRows nd.matrix.numCols nd.matrix.toDense = true := by
  induction hc with
  | base hTU => exact hTU
  | sp h ht hter _ ih => exact C03.sp_node_TU_partial h ht hter ih
  | onesum h ht _ ih => exact onesum_node_TU h ht ih
  | twosum h ht hf _ ih => exact twosum_node_TU h ht hf ih
  | twosumBinary h ht hf hbin _ ih => exact twosum_node_TU_binary_partial h ht hf hbin ih
  | pivots h ht hf hter _ ih => exact pivot_node_TU h ht hf hter ih
  | deltasum h ht hf _ ih => exact deltasum_node_TU h ht hf ih
  | ysum h ht hf _ ih => exact ysum_node_TU h ht hf ih

/-- … in Mathlib's sense. -/
theorem certified3_TU_mathlib {nodes : List FNode} {nd : FNode} (hc : Certified3 nodes nd) :
    (toMx nd.matrix.numRows nd.matrix.numCols nd.matrix.toDense).IsTotallyUnimodular :=
  (isTU_iff _ _ _).mp (certified3_TU hc)

def Certified3Id (nodes : List FNode) (i : Nat) : Prop := ∃ nd, findNode nodes i = some nd ∧ Certified3 nodes nd

theorem certified3Id_TU {nodes : List FNode} {i : Nat} (hc : Certified3Id nodes i) :
    ∃ nd, findNode nodes i = some nd ∧ isTU nd.matrix.numRows nd.matrix.numCols nd.matrix.toDense = true := by
  obtain ⟨nd, hf, h⟩ := hc
  exact ⟨nd, hf, certified3_TU h⟩

/-- **A whole tree, Δ- and Y-sum nodes allowed** (partial for the same reason as `tree_TU_partial`: the ordering
invariant `hord` is not checked by `checkTree`).  In a ternary tree accepted by `checkTree` all of whose matrices have
entries in {-1,0,1}, without 3-sum nodes (type `threesum`), and whose leaves are totally unimodular, every node is
totally unimodular. -/
theorem tree_TU_partial3 {nodes : List FNode} (hT : checkTree nodes = .ok ())
    (hord : ∀ nd ∈ nodes, ∀ ci ∈ nd.children, nd.id < ci.child)
    (hfield : ∀ nd ∈ nodes, nd.ternary = true ∧ isTernary nd.matrix.toDense = true)
    (htypes : ∀ nd ∈ nodes, nd.type ∈ leafTypes ∨ nd.type = NodeType.seriesParallel ∨ nd.type = NodeType.pivots ∨
      nd.type = NodeType.onesum ∨ nd.type = NodeType.twosum ∨ nd.type = NodeType.deltasum ∨ nd.type = NodeType.ysum)
    (hleaf : ∀ nd ∈ nodes, nd.type ∈ leafTypes → isTU nd.matrix.numRows nd.matrix.numCols nd.matrix.toDense = true) :
    ∀ nd ∈ nodes, Certified3 nodes nd ∧ isTU nd.matrix.numRows nd.matrix.numCols nd.matrix.toDense = true := by
  have step : ∀ nd ∈ nodes, (∀ ci ∈ nd.children, ∀ k, findNode nodes ci.child = some k → Certified3 nodes k) →
      Certified3 nodes nd := by
    intro nd hm hkids
    have hrec := (C03.checkTree_all_nodes hT nd hm).1
    rcases htypes nd hm with ht | ht | ht | ht | ht | ht | ht
    · exact Certified3.base (hleaf nd hm ht)
    · exact Certified3.sp hrec ht (hfield nd hm).2 hkids
    · exact Certified3.pivots hrec ht (hfield nd hm).1 (hfield nd hm).2 hkids
    · exact Certified3.onesum hrec ht hkids
    · exact Certified3.twosum hrec ht (hfield nd hm).1 hkids
    · exact Certified3.deltasum hrec ht (hfield nd hm).1 hkids
    · exact Certified3.ysum hrec ht (hfield nd hm).1 hkids
  have key : ∀ d, ∀ nd ∈ nodes, maxId nodes - nd.id ≤ d → Certified3 nodes nd := by
    intro d
    induction d with
    | zero =>
      intro nd hm hd
      refine step nd hm (fun ci hci k hk => ?_)
      obtain ⟨hkm, hid⟩ := findNode_spec hk
      have := hord nd hm ci hci
      have := le_maxId hkm
      omega
    | succ d ih =>
      intro nd hm hd
      refine step nd hm (fun ci hci k hk => ?_)
      obtain ⟨hkm, hid⟩ := findNode_spec hk
      have := hord nd hm ci hci
      have := le_maxId hkm
      exact ih k hkm (by omega)
  intro nd hm
  have := key _ nd hm (Nat.le_refl _)
  exact ⟨this, certified3_TU this⟩

/-! ### non-vacuity -/

section Examples

def nodeT (id : Nat) (ty : Int) (A : Csr) (ch : List ChildInfo) : FNode :=
  { id := id, type := ty, ternary := true, reg := 0, gra := 0, cogra := 0, pivots := [], reductions := [],
    minors := [], matrix := A, transpose := none, graph := none, cograph := none, children := ch }

def kid (rows cols : List Int) (child : Nat) : ChildInfo :=
  { rowsToParent := rows, colsToParent := cols, specialRows := [], specialCols := [], child := child }

/-- root: 1-sum `diag([[1,0],[1,1]], [[1,1],[1,0]])` of node 1 (a 2-sum) and node 4 (a pivot node) -/
def t0 : FNode := nodeT 0 NodeType.onesum
  { numRows := 4, numCols := 4, nnz := 6, slice := [0, 1, 3, 5, 6], cols := [0, 0, 1, 2, 3, 2], vals := [1, 1, 1, 1, 1, 1] }
  [kid [-1, -2] [1, 2] 1, kid [-3, -4] [3, 4] 4]
/-- `[[1,0],[1,1]]` = 2-sum of `[[1],[1]]` (last row special) and `[[1,1]]` (first column special) -/
def t1 : FNode := nodeT 1 NodeType.twosum
  { numRows := 2, numCols := 2, nnz := 3, slice := [0, 1, 3], cols := [0, 0, 1], vals := [1, 1, 1] }
  [kid [-1, 0] [1] 2, kid [-2] [0, 2] 3]
def t2 : FNode := nodeT 2 NodeType.unknown
  { numRows := 2, numCols := 1, nnz := 2, slice := [0, 1, 2], cols := [0, 0], vals := [1, 1] } []
def t3 : FNode := nodeT 3 NodeType.unknown
  { numRows := 1, numCols := 2, nnz := 2, slice := [0, 2], cols := [0, 1], vals := [1, 1] } []
/-- `[[1,1],[1,0]]` with a GF(3) pivot at (0,0); child `[[-1,1],[1,-1]]` -/
def t4 : FNode :=
  { nodeT 4 NodeType.pivots
      { numRows := 2, numCols := 2, nnz := 3, slice := [0, 2, 3], cols := [0, 1, 0], vals := [1, 1, 1] }
      [kid [1, -2] [-1, 2] 5] with pivots := [(0, 0)] }
/-- `[[-1,1],[1,-1]]`: row 1 is a copy of row 0, then column 1 is a copy of column 0; remainder `[[-1]]` -/
def t5 : FNode :=
  { nodeT 5 NodeType.seriesParallel
      { numRows := 2, numCols := 2, nnz := 4, slice := [0, 2, 4], cols := [0, 1, 0, 1], vals := [-1, 1, 1, -1] }
      [kid [-1] [1] 6] with reductions := [⟨-2, -1⟩, ⟨2, 1⟩] }
def t6 : FNode := nodeT 6 NodeType.unknown
  { numRows := 1, numCols := 1, nnz := 1, slice := [0, 1], cols := [0], vals := [-1] } []

def tree : List FNode := [t0, t1, t2, t3, t4, t5, t6]

/-- the example tree (1-sum over a 2-sum and a pivot node over a series-parallel node) is accepted -/
example : checkTree tree = .ok () := rfl

theorem kids_one {nodes : List FNode} {P : FNode → Prop} {c : ChildInfo} {k : FNode}
    (hk : findNode nodes c.child = some k) (h : P k) :
    ∀ ci ∈ [c], ∀ k', findNode nodes ci.child = some k' → P k' := by
  intro ci hci k' hk'
  rw [List.mem_singleton] at hci
  subst hci
  rw [hk] at hk'
  cases hk'
  exact h

theorem kids_two {nodes : List FNode} {P : FNode → Prop} {c d : ChildInfo} {k l : FNode}
    (hk : findNode nodes c.child = some k) (hl : findNode nodes d.child = some l) (h : P k) (h' : P l) :
    ∀ ci ∈ [c, d], ∀ k', findNode nodes ci.child = some k' → P k' := by
  intro ci hci k' hk'
  rcases List.mem_cons.mp hci with rfl | hci
  · rw [hk] at hk'; cases hk'; exact h
  · rw [List.mem_singleton] at hci
    subst hci
    rw [hl] at hk'; cases hk'; exact h'

/-- the single-node theorems apply: 2-sum node -/
example : isTU 2 2 t1.matrix.toDense = true :=
  twosum_node_TU (nodes := tree) (nd := t1) rfl rfl rfl
    (kids_two (nodes := tree) (c := kid [-1, 0] [1] 2) (d := kid [-2] [0, 2] 3) (k := t2) (l := t3) rfl rfl
      (by decide) (by decide))

/-- … pivot node (both directions) -/
example : isTU 2 2 t4.matrix.toDense = true ↔ isTU 2 2 t5.matrix.toDense = true := by
  have h := pivot_node_TU_iff (nodes := tree) (nd := t4) rfl rfl rfl (by decide)
  refine h.trans ⟨fun hh => hh (kid [1, -2] [-1, 2] 5) (List.mem_singleton.mpr rfl) t5 rfl, fun hh => ?_⟩
  exact kids_one (nodes := tree) (c := kid [1, -2] [-1, 2] 5) (k := t5) rfl hh

/-- … 1-sum node, here of the binary example tree of `C03` -/
example : isTU 2 2 C03.root2.matrix.toDense = true :=
  onesum_node_TU (nodes := [C03.root2, C03.leaf1 1, C03.leaf1 2]) (nd := C03.root2) rfl rfl
    (kids_two (nodes := [C03.root2, C03.leaf1 1, C03.leaf1 2]) (k := C03.leaf1 1) (l := C03.leaf1 2) rfl rfl
      (by decide) (by decide))

/-- the leaves are TU, hence the root is certified, constructor by constructor -/
theorem tree_certified : Certified tree t0 := by
  have c2 : Certified tree t2 := .base (by decide)
  have c3 : Certified tree t3 := .base (by decide)
  have c6 : Certified tree t6 := .base (by decide)
  have c5 : Certified tree t5 := .sp rfl rfl (by decide) (kids_one (nodes := tree) (c := kid [-1] [1] 6) rfl c6)
  have c4 : Certified tree t4 :=
    .pivots rfl rfl rfl (by decide) (kids_one (nodes := tree) (c := kid [1, -2] [-1, 2] 5) rfl c5)
  have c1 : Certified tree t1 :=
    .twosum rfl rfl rfl (kids_two (nodes := tree) (c := kid [-1, 0] [1] 2) (d := kid [-2] [0, 2] 3) rfl rfl c2 c3)
  exact .onesum rfl rfl
    (kids_two (nodes := tree) (c := kid [-1, -2] [1, 2] 1) (d := kid [-3, -4] [3, 4] 4) rfl rfl c1 c4)

example : isTU 4 4 [[1, 0, 0, 0], [1, 1, 0, 0], [0, 0, 1, 1], [0, 0, 1, 0]] = true := certified_TU tree_certified

example : CertifiedId tree 0 := ⟨t0, rfl, tree_certified⟩

/-- the hypotheses of `tree_TU_partial` are satisfiable: they hold for the example tree -/
example : ∀ nd ∈ tree, Certified tree nd ∧ isTU nd.matrix.numRows nd.matrix.numCols nd.matrix.toDense = true :=
  tree_TU_partial rfl (by decide) (by decide) (by decide) (by decide)

/-- Why the combined statement needs the closure predicate (or the ordering hypothesis `hord` of `tree_TU_partial`):
`checkTree` does not check that the node list is a tree.  Here node 0, the 1×1 matrix `[[2]]`, is a "1-sum" of itself
and of the empty matrix (node 1); the list is accepted, all "leaves" (node 1) are TU, and node 0 is not TU.  Node 0 is
not `Certified` (by `certified_TU`). -/
def cyc0 : FNode := nodeT 0 NodeType.onesum
  { numRows := 1, numCols := 1, nnz := 1, slice := [0, 1], cols := [0], vals := [2] } [kid [-1] [1] 0, kid [] [] 1]
def cyc1 : FNode := nodeT 1 NodeType.unknown { numRows := 0, numCols := 0, nnz := 0, slice := [0], cols := [], vals := [] } []

example : checkTree [cyc0, cyc1] = .ok () ∧ isTU 1 1 cyc0.matrix.toDense = false ∧ isTU 0 0 cyc1.matrix.toDense = true ∧
    ¬ Certified [cyc0, cyc1] cyc0 :=
  ⟨rfl, by decide, by decide, fun h => by have := certified_TU h; revert this; decide⟩

end Examples

/-! ### non-vacuity, Δ- and Y-sum nodes -/

section Examples3

/-- child record with special lines -/
def kidS (rows cols : List Int) (sr sc : List (Option Nat)) (child : Nat) : ChildInfo :=
  { rowsToParent := rows, colsToParent := cols, specialRows := sr, specialCols := sc, child := child }

/-- `[[1,1],[1,1]]` -/
def csrOnes22 : Csr := { numRows := 2, numCols := 2, nnz := 4, slice := [0, 2, 4], cols := [0, 1, 0, 1], vals := [1, 1, 1, 1] }

/-- root: 1-sum `diag([[1,1],[1,1]], [[1,1],[1,1]])` of node 1 (a Δ-sum) and node 4 (a Y-sum) -/
def s0 : FNode := nodeT 0 NodeType.onesum
  { numRows := 4, numCols := 4, nnz := 8, slice := [0, 2, 4, 6, 8], cols := [0, 1, 0, 1, 2, 3, 2, 3],
    vals := [1, 1, 1, 1, 1, 1, 1, 1] }
  [kid [-1, -2] [1, 2] 1, kid [-3, -4] [3, 4] 4]
/-- `[[1,1],[1,1]] = [[A, a bᵀ],[d cᵀ, D]]` with `A = a = b = c = d = D = ε = 1`: Δ-sum of
`[[A,a,a],[cᵀ,0,ε]] = [[1,1,1],[1,0,1]]` (special row 1, special columns 1, 2) and
`[[ε,0,bᵀ],[d,d,D]] = [[1,0,1],[1,1,1]]` (special row 0, special columns 0, 1) -/
def s1 : FNode := nodeT 1 NodeType.deltasum csrOnes22
  [kidS [-1, 0] [1, 0, 0] [some 1] [some 1, some 2] 2, kidS [0, -2] [0, 0, 2] [some 0] [some 0, some 1] 3]
def s2 : FNode := nodeT 2 NodeType.unknown
  { numRows := 2, numCols := 3, nnz := 5, slice := [0, 3, 5], cols := [0, 1, 2, 0, 2], vals := [1, 1, 1, 1, 1] } []
def s3 : FNode := nodeT 3 NodeType.unknown
  { numRows := 2, numCols := 3, nnz := 5, slice := [0, 2, 5], cols := [0, 2, 0, 1, 2], vals := [1, 1, 1, 1, 1] } []
/-- the same matrix as a Y-sum of `[[A,a],[cᵀ,0],[cᵀ,ε]] = [[1,1],[1,0],[1,1]]` (special rows 1, 2, special column 1) and
`[[ε,bᵀ],[0,bᵀ],[d,D]] = [[1,1],[0,1],[1,1]]` (special rows 0, 1, special column 0) -/
def s4 : FNode := nodeT 4 NodeType.ysum csrOnes22
  [kidS [-1, 0, 0] [1, 0] [some 1, some 2] [some 1] 5, kidS [0, 0, -2] [0, 2] [some 0, some 1] [some 0] 6]
def s5 : FNode := nodeT 5 NodeType.unknown
  { numRows := 3, numCols := 2, nnz := 5, slice := [0, 2, 3, 5], cols := [0, 1, 0, 0, 1], vals := [1, 1, 1, 1, 1] } []
def s6 : FNode := nodeT 6 NodeType.unknown
  { numRows := 3, numCols := 2, nnz := 5, slice := [0, 2, 3, 5], cols := [0, 1, 1, 0, 1], vals := [1, 1, 1, 1, 1] } []

def tree3 : List FNode := [s0, s1, s2, s3, s4, s5, s6]

/-- the example tree (1-sum over a Δ-sum node and a Y-sum node, four TU leaves) is accepted -/
example : checkTree tree3 = .ok () := rfl

/-- `deltasum_node_TU` applies to the Δ-sum node (its children are TU by evaluation) -/
example : isTU 2 2 s1.matrix.toDense = true :=
  deltasum_node_TU (nodes := tree3) (nd := s1) rfl rfl rfl
    (kids_two (nodes := tree3) (c := kidS [-1, 0] [1, 0, 0] [some 1] [some 1, some 2] 2)
      (d := kidS [0, -2] [0, 0, 2] [some 0] [some 0, some 1] 3) (k := s2) (l := s3) rfl rfl (by decide) (by decide))

/-- `ysum_node_TU` applies to the Y-sum node -/
example : isTU 2 2 s4.matrix.toDense = true :=
  ysum_node_TU (nodes := tree3) (nd := s4) rfl rfl rfl
    (kids_two (nodes := tree3) (c := kidS [-1, 0, 0] [1, 0] [some 1, some 2] [some 1] 5)
      (d := kidS [0, 0, -2] [0, 2] [some 0, some 1] [some 0] 6) (k := s5) (l := s6) rfl rfl (by decide) (by decide))

/-- the root is certified, constructor by constructor -/
theorem tree3_certified : Certified3 tree3 s0 := by
  have c2 : Certified3 tree3 s2 := .base (by decide)
  have c3 : Certified3 tree3 s3 := .base (by decide)
  have c5 : Certified3 tree3 s5 := .base (by decide)
  have c6 : Certified3 tree3 s6 := .base (by decide)
  have c1 : Certified3 tree3 s1 :=
    .deltasum rfl rfl rfl (kids_two (nodes := tree3) (c := kidS [-1, 0] [1, 0, 0] [some 1] [some 1, some 2] 2)
      (d := kidS [0, -2] [0, 0, 2] [some 0] [some 0, some 1] 3) rfl rfl c2 c3)
  have c4 : Certified3 tree3 s4 :=
    .ysum rfl rfl rfl (kids_two (nodes := tree3) (c := kidS [-1, 0, 0] [1, 0] [some 1, some 2] [some 1] 5)
      (d := kidS [0, 0, -2] [0, 2] [some 0, some 1] [some 0] 6) rfl rfl c5 c6)
  exact .onesum rfl rfl
    (kids_two (nodes := tree3) (c := kid [-1, -2] [1, 2] 1) (d := kid [-3, -4] [3, 4] 4) rfl rfl c1 c4)

example : isTU 4 4 [[1, 1, 0, 0], [1, 1, 0, 0], [0, 0, 1, 1], [0, 0, 1, 1]] = true := certified3_TU tree3_certified

example : Certified3Id tree3 0 := ⟨s0, rfl, tree3_certified⟩

/-- the old predicate embeds -/
example : Certified3 tree t0 := certified3_of_certified tree_certified

/-- the hypotheses of `tree_TU_partial3` are satisfiable: they hold for the example tree -/
example : ∀ nd ∈ tree3, Certified3 tree3 nd ∧ isTU nd.matrix.numRows nd.matrix.numCols nd.matrix.toDense = true :=
  tree_TU_partial3 rfl (by decide) (by decide) (by decide) (by decide)

/-- Why `deltasum_shape` states the column equation only for nodes with at least one row: the checker removes every
line listed in `specialCols`, not only the two that `composeDelta` uses.  Here both children are `[[1,0,1]]` (only the
special row), the first child lists all three of its columns as special, the node is the 0×1 matrix, the composition
is the 0×2 matrix `[]`, and the list is accepted although `(3-2)+(3-2) ≠ 1`.  (Harmless for total unimodularity: a
matrix without rows is TU.) -/
def z0 : FNode := nodeT 0 NodeType.deltasum
  { numRows := 0, numCols := 1, nnz := 0, slice := [0], cols := [], vals := [] }
  [kidS [0] [0, 0, 0] [some 0] [some 1, some 2, some 0] 1, kidS [0] [0, 0, 1] [some 0] [some 0, some 1] 2]
def z1 (id : Nat) : FNode := nodeT id NodeType.unknown
  { numRows := 1, numCols := 3, nnz := 2, slice := [0, 2], cols := [0, 2], vals := [1, 1] } []

example : checkTree [z0, z1 1, z1 2] = .ok () ∧
    ((z1 1).matrix.numCols - 2) + ((z1 2).matrix.numCols - 2) ≠ z0.matrix.numCols := ⟨rfl, by decide⟩

end Examples3

/-! ### 6. 3-sum nodes of ternary trees, and the whole tree without a hypothesis on the node types -/

/-- The test of the connecting matrix that `checkRecompose` hands to `compose3` is, for a ternary node, the oracle
`isTU 3 3` of `C12Three.compose3_TU`.  (For `ch = 2` it is the constant `true`: binary 3-sum nodes are not tested.) -/
theorem tuCheck_ternary {ch : Nat} (hch : ch = 3) :
    (fun N : Mat => ch != 3 || isTU 3 3 N) = fun N => isTU 3 3 N := by
  subst hch
  rfl

/-- what the checker guarantees at a 3-sum node, with the shapes made explicit (as `deltasum_shape`; the column
equation needs a node with at least one row, for the same reason) -/
theorem threesum_shape {nodes : List FNode} {nd : FNode} (h : checkRecompose nodes nd = .ok ())
    (ht : nd.type = NodeType.threesum) :
    ∃ c0 k0 c1 k1, nd.children = [c0, c1] ∧ findNode nodes c0.child = some k0 ∧ findNode nodes c1.child = some k1 ∧
      ∃ ri rj ck cl cz rg ri2 rj2 ck2 cl2 P rho kap,
        compose3 (chOf nd) k0.matrix.numRows k0.matrix.numCols k0.matrix.toDense k1.matrix.numRows k1.matrix.numCols
          k1.matrix.toDense ri rj ck cl cz rg ri2 rj2 ck2 cl2 (fun N => chOf nd != 3 || isTU 3 3 N) = .ok P ∧
        isPerm rho nd.matrix.numRows = true ∧ isPerm kap nd.matrix.numCols = true ∧
        P = sub nd.matrix.toDense rho kap ∧
        (k0.matrix.numRows - 2) + (k1.matrix.numRows - 1) = nd.matrix.numRows ∧
        (0 < nd.matrix.numRows → (k0.matrix.numCols - 1) + (k1.matrix.numCols - 2) = nd.matrix.numCols) := by
  obtain ⟨c0, k0, c1, k1, hc, hf0, hf1, ri, rj, ck, cl, cz, rg, ri2, rj2, ck2, cl2, _, P, rho, kap, hP, p1, p2, hM, _⟩ :=
    C03.threesum_recomposes h ht
  obtain ⟨e1, e2⟩ := composed_shape (C12.compose3_wf hP) p1 p2 hM
  exact ⟨c0, k0, c1, k1, hc, hf0, hf1, ri, rj, ck, cl, cz, rg, ri2, rj2, ck2, cl2, P, rho, kap, hP, p1, p2, hM, e1, e2⟩

/-- **3-sum node of a ternary tree**: if both children are totally unimodular, so is the node
(`C12Three.compose3_TU`). -/
theorem threesum_node_TU {nodes : List FNode} {nd : FNode} (h : checkRecompose nodes nd = .ok ())
    (ht : nd.type = NodeType.threesum) (hf : nd.ternary = true)
    (hchild : ∀ ci ∈ nd.children, ∀ k, findNode nodes ci.child = some k →
      isTU k.matrix.numRows k.matrix.numCols k.matrix.toDense = true) :
    isTU nd.matrix.numRows nd.matrix.numCols nd.matrix.toDense = true := by
  obtain ⟨c0, k0, c1, k1, hc, hf0, hf1, ri, rj, ck, cl, cz, rg, ri2, rj2, ck2, cl2, P, rho, kap, hP, p1, p2, hM, _, _⟩ :=
    threesum_shape h ht
  have hch : chOf nd = 3 := by simp [chOf, hf]
  rw [tuCheck_ternary hch, hch] at hP
  have h0 := hchild c0 (by rw [hc]; simp) k0 hf0
  have h1 := hchild c1 (by rw [hc]; simp) k1 hf1
  exact sum_node_TU_of_composed (C12.compose3_wf hP) (C12Three.compose3_TU hP h0 h1) p1 p2 hM

/-- Inductive closure as `Certified3`, extended by 3-sum nodes of ternary trees: all node types that
`checkRecompose` accepts (`accepted_type`) have a constructor.  (Again a new predicate, so that `Certified3` and the
theorems about it stay as they are; `certified4_of_certified3` embeds the old one.) -/
inductive Certified4 (nodes : List FNode) : FNode → Prop
  | base {nd : FNode} (hTU : isTU nd.matrix.numRows nd.matrix.numCols nd.matrix.toDense = true) : Certified4 nodes nd
  | sp {nd : FNode} (h : checkRecompose nodes nd = .ok ()) (ht : nd.type = NodeType.seriesParallel)
      (hter : isTernary nd.matrix.toDense = true)
      (hkids : ∀ ci ∈ nd.children, ∀ k, findNode nodes ci.child = some k → Certified4 nodes k) : Certified4 nodes nd
  | onesum {nd : FNode} (h : checkRecompose nodes nd = .ok ()) (ht : nd.type = NodeType.onesum)
      (hkids : ∀ ci ∈ nd.children, ∀ k, findNode nodes ci.child = some k → Certified4 nodes k) : Certified4 nodes nd
  | twosum {nd : FNode} (h : checkRecompose nodes nd = .ok ()) (ht : nd.type = NodeType.twosum)
      (hf : nd.ternary = true)
      (hkids : ∀ ci ∈ nd.children, ∀ k, findNode nodes ci.child = some k → Certified4 nodes k) : Certified4 nodes nd
  | twosumBinary {nd : FNode} (h : checkRecompose nodes nd = .ok ()) (ht : nd.type = NodeType.twosum)
      (hf : nd.ternary = false)
      (hbin : ∀ ci ∈ nd.children, ∀ k, findNode nodes ci.child = some k → isBinary k.matrix.toDense = true)
      (hkids : ∀ ci ∈ nd.children, ∀ k, findNode nodes ci.child = some k → Certified4 nodes k) : Certified4 nodes nd
  | pivots {nd : FNode} (h : checkRecompose nodes nd = .ok ()) (ht : nd.type = NodeType.pivots)
      (hf : nd.ternary = true) (hter : isTernary nd.matrix.toDense = true)
      (hkids : ∀ ci ∈ nd.children, ∀ k, findNode nodes ci.child = some k → Certified4 nodes k) : Certified4 nodes nd
  | deltasum {nd : FNode} (h : checkRecompose nodes nd = .ok ()) (ht : nd.type = NodeType.deltasum)
      (hf : nd.ternary = true)
      (hkids : ∀ ci ∈ nd.children, ∀ k, findNode nodes ci.child = some k → Certified4 nodes k) : Certified4 nodes nd
  | ysum {nd : FNode} (h : checkRecompose nodes nd = .ok ()) (ht : nd.type = NodeType.ysum)
      (hf : nd.ternary = true)
      (hkids : ∀ ci ∈ nd.children, ∀ k, findNode nodes ci.child = some k → Certified4 nodes k) : Certified4 nodes nd
  | threesum {nd : FNode} (h : checkRecompose nodes nd = .ok ()) (ht : nd.type = NodeType.threesum)
      (hf : nd.ternary = true)
      (hkids : ∀ ci ∈ nd.children, ∀ k, findNode nodes ci.child = some k → Certified4 nodes k) : Certified4 nodes nd

theorem certified4_of_certified3 {nodes : List FNode} {nd : FNode} (hc : Certified3 nodes nd) : Certified4 nodes nd := by
  induction hc with
  | base hTU => exact .base hTU
  | sp h ht hter _ ih => exact .sp h ht hter ih
  | onesum h ht _ ih => exact .onesum h ht ih
  | twosum h ht hf _ ih => exact .twosum h ht hf ih
  | twosumBinary h ht hf hbin _ ih => exact .twosumBinary h ht hf hbin ih
  | pivots h ht hf hter _ ih => exact .pivots h ht hf hter ih
  | deltasum h ht hf _ ih => exact .deltasum h ht hf ih
  | ysum h ht hf _ ih => exact .ysum h ht hf ih

/-- **TU certification of a decomposition tree, all inner node types**: every `Certified4` node is totally
unimodular. -/
theorem certified4_TU {nodes : List FNode} {nd : FNode} (hc : Certified4 nodes nd) :
    isTU nd.matrix.numRows nd.matrix.numCols nd.matrix.toDense = true := by
  induction hc with
  | base hTU => exact hTU
  | sp h ht hter _ ih => exact C03.sp_node_TU_partial h ht hter ih
  | onesum h ht _ ih => exact onesum_node_TU h ht ih
  | twosum h ht hf _ ih => exact twosum_node_TU h ht hf ih
  | twosumBinary h ht hf hbin _ ih => exact twosum_node_TU_binary_partial h ht hf hbin ih
  | pivots h ht hf hter _ ih => exact pivot_node_TU h ht hf hter ih
  | deltasum h ht hf _ ih => exact deltasum_node_TU h ht hf ih
  | ysum h ht hf _ ih => exact ysum_node_TU h ht hf ih
  | threesum h ht hf _ ih => exact threesum_node_TU h ht hf ih

/-- … in Mathlib's sense. -/
theorem certified4_TU_mathlib {nodes : List FNode} {nd : FNode} (hc : Certified4 nodes nd) :
    (toMx nd.matrix.numRows nd.matrix.numCols nd.matrix.toDense).IsTotallyUnimodular :=
  (isTU_iff _ _ _).mp (certified4_TU hc)

def Certified4Id (nodes : List FNode) (i : Nat) : Prop := ∃ nd, findNode nodes i = some nd ∧ Certified4 nodes nd

theorem certified4Id_TU {nodes : List FNode} {i : Nat} (hc : Certified4Id nodes i) :
    ∃ nd, findNode nodes i = some nd ∧ isTU nd.matrix.numRows nd.matrix.numCols nd.matrix.toDense = true := by
  obtain ⟨nd, hf, h⟩ := hc
  exact ⟨nd, hf, certified4_TU h⟩

/-- The node types that `checkRecompose` accepts: the leaf types and the seven inner types the library produces.  (Any
other type falls through to the sum branch of the checker, where `sumSpec` reports "unknown node type".) -/
theorem accepted_type {nodes : List FNode} {nd : FNode} (h : checkRecompose nodes nd = .ok ()) :
    nd.type ∈ leafTypes ∨ nd.type = NodeType.seriesParallel ∨ nd.type = NodeType.pivots ∨
      nd.type = NodeType.onesum ∨ nd.type = NodeType.twosum ∨ nd.type = NodeType.deltasum ∨ nd.type = NodeType.ysum ∨
      nd.type = NodeType.threesum := by
  obtain ⟨_, _, kids, _, _, hb⟩ := (checkRecompose_ok_iff nodes nd).mp h
  by_cases h1 : nd.type ∈ leafTypes
  · exact Or.inl h1
  by_cases h2 : nd.type = NodeType.seriesParallel
  · exact Or.inr (Or.inl h2)
  by_cases h3 : nd.type = NodeType.pivots
  · exact Or.inr (Or.inr (Or.inl h3))
  by_cases h4 : nd.type = NodeType.onesum
  · exact Or.inr (Or.inr (Or.inr (Or.inl h4)))
  by_cases h5 : nd.type = NodeType.twosum
  · exact Or.inr (Or.inr (Or.inr (Or.inr (Or.inl h5))))
  by_cases h6 : nd.type = NodeType.deltasum
  · exact Or.inr (Or.inr (Or.inr (Or.inr (Or.inr (Or.inl h6)))))
  by_cases h7 : nd.type = NodeType.ysum
  · exact Or.inr (Or.inr (Or.inr (Or.inr (Or.inr (Or.inr (Or.inl h7))))))
  by_cases h8 : nd.type = NodeType.threesum
  · exact Or.inr (Or.inr (Or.inr (Or.inr (Or.inr (Or.inr (Or.inr h8))))))
  exfalso
  have hl : leafTypes.contains nd.type = false := by simpa using h1
  have hbody : recompBody nd kids = recompSum nd kids := by
    unfold recompBody
    simp only [hl, beq_iff_eq, h2, h3, h4, if_false, Bool.false_eq_true]
  rw [hbody, recompSum_ok_iff] at hb
  obtain ⟨c0, k0, c1, k1, _, _, _, _, _, P, _, _, _, _, hP, _⟩ := hb
  unfold sumSpec at hP
  simp only [beq_iff_eq, h5, h6, h7, h8, if_false] at hP
  cases hP

/-- **A whole ternary tree, every node type** (partial only in that the three hypotheses below remain).  In a ternary
tree accepted by `checkTree` all of whose matrices have entries in {-1,0,1} (`hfield`), in which child ids are larger
than parent ids (`hord`: not checked by `checkTree`, but checked by the judge on every dumped tree) and whose leaves are
totally unimodular (`hleaf`), every node is totally unimodular.  No hypothesis on the node types: an accepted node is a
leaf or a series-parallel, pivot, 1-sum, 2-sum, Δ-sum, Y-sum or 3-sum node (`accepted_type`), and each of these
preserves total unimodularity over GF(3). -/
theorem tree_TU_partial4 {nodes : List FNode} (hT : checkTree nodes = .ok ())
    (hord : ∀ nd ∈ nodes, ∀ ci ∈ nd.children, nd.id < ci.child)
    (hfield : ∀ nd ∈ nodes, nd.ternary = true ∧ isTernary nd.matrix.toDense = true)
    (hleaf : ∀ nd ∈ nodes, nd.type ∈ leafTypes → isTU nd.matrix.numRows nd.matrix.numCols nd.matrix.toDense = true) :
    ∀ nd ∈ nodes, Certified4 nodes nd ∧ isTU nd.matrix.numRows nd.matrix.numCols nd.matrix.toDense = true := by
  have step : ∀ nd ∈ nodes, (∀ ci ∈ nd.children, ∀ k, findNode nodes ci.child = some k → Certified4 nodes k) →
      Certified4 nodes nd := by
    intro nd hm hkids
    have hrec := (C03.checkTree_all_nodes hT nd hm).1
    rcases accepted_type hrec with ht | ht | ht | ht | ht | ht | ht | ht
    · exact Certified4.base (hleaf nd hm ht)
    · exact Certified4.sp hrec ht (hfield nd hm).2 hkids
    · exact Certified4.pivots hrec ht (hfield nd hm).1 (hfield nd hm).2 hkids
    · exact Certified4.onesum hrec ht hkids
    · exact Certified4.twosum hrec ht (hfield nd hm).1 hkids
    · exact Certified4.deltasum hrec ht (hfield nd hm).1 hkids
    · exact Certified4.ysum hrec ht (hfield nd hm).1 hkids
    · exact Certified4.threesum hrec ht (hfield nd hm).1 hkids
  have key : ∀ d, ∀ nd ∈ nodes, maxId nodes - nd.id ≤ d → Certified4 nodes nd := by
    intro d
    induction d with
    | zero =>
      intro nd hm hd
      refine step nd hm (fun ci hci k hk => ?_)
      obtain ⟨hkm, hid⟩ := findNode_spec hk
      have := hord nd hm ci hci
      have := le_maxId hkm
      omega
    | succ d ih =>
      intro nd hm hd
      refine step nd hm (fun ci hci k hk => ?_)
      obtain ⟨hkm, hid⟩ := findNode_spec hk
      have := hord nd hm ci hci
      have := le_maxId hkm
      exact ih k hkm (by omega)
  intro nd hm
  have := key _ nd hm (Nat.le_refl _)
  exact ⟨this, certified4_TU this⟩

/-! ### non-vacuity, 3-sum nodes -/

section Examples4

/-- 3-sum root: the 5×5 matrix of the second example of `C12Three` (connecting matrix `Q = [[0,-1],[1,1]]`,
`(α;β) = (-1;1)`, `(γ δ) = (1 1)`), composed from the 4×4 leaves `u1` (special rows 2, 3 = `C_i`, `C_j`; special columns
0, 1 = the columns of `Q`, and 3 = `(0;α;β)`) and `u2` (special rows 0 = `(γ δ 0)`, and 1, 2 = the rows of `Q`; special
columns 0, 1 = `C_k`, `C_l`).  The node keeps rows 0, 1 and columns 0, 1, 2 of `u1`, rows 1, 2, 3 and columns 2, 3 of
`u2`. -/
def u0 : FNode := nodeT 0 NodeType.threesum
  { numRows := 5, numCols := 5, nnz := 17, slice := [0, 2, 4, 8, 12, 17],
    cols := [0, 2, 0, 2, 1, 2, 3, 4, 0, 1, 2, 3, 0, 1, 2, 3, 4],
    vals := [-1, 1, -1, 1, -1, 1, -1, -1, 1, 1, -1, 1, -1, -1, 1, -1, -1] }
  [kidS [-1, -2, 0, 0] [1, 2, 3, 0] [some 2, some 3] [some 0, some 1, some 3] 1,
   kidS [0, -3, -4, -5] [0, 0, 4, 5] [some 0, some 1, some 2] [some 0, some 1] 2]
/-- `[[-1,0,1,0],[-1,0,1,0],[0,-1,1,-1],[1,1,-1,1]]` -/
def u1 : FNode := nodeT 1 NodeType.unknown
  { numRows := 4, numCols := 4, nnz := 11, slice := [0, 2, 4, 7, 11], cols := [0, 2, 0, 2, 1, 2, 3, 0, 1, 2, 3],
    vals := [-1, 1, -1, 1, -1, 1, -1, 1, 1, -1, 1] } []
/-- `[[1,1,0,0],[0,-1,-1,-1],[1,1,1,0],[-1,-1,-1,-1]]` -/
def u2 : FNode := nodeT 2 NodeType.unknown
  { numRows := 4, numCols := 4, nnz := 12, slice := [0, 2, 5, 8, 12], cols := [0, 1, 1, 2, 3, 0, 1, 2, 0, 1, 2, 3],
    vals := [1, 1, -1, -1, -1, 1, 1, 1, -1, -1, -1, -1] } []

def tree4 : List FNode := [u0, u1, u2]

example : u0.matrix.toDense =
    [[-1, 0, 1, 0, 0], [-1, 0, 1, 0, 0], [0, -1, 1, -1, -1], [1, 1, -1, 1, 0], [-1, -1, 1, -1, -1]] := by decide

/-- the example tree (a 3-sum root over two TU leaves) is accepted -/
example : checkTree tree4 = .ok () := rfl

/-- `threesum_node_TU` applies to the root (its children are TU by evaluation) -/
example : isTU 5 5 u0.matrix.toDense = true :=
  threesum_node_TU (nodes := tree4) (nd := u0) rfl rfl rfl
    (kids_two (nodes := tree4) (c := kidS [-1, -2, 0, 0] [1, 2, 3, 0] [some 2, some 3] [some 0, some 1, some 3] 1)
      (d := kidS [0, -3, -4, -5] [0, 0, 4, 5] [some 0, some 1, some 2] [some 0, some 1] 2) (k := u1) (l := u2) rfl rfl
      (by decide) (by decide))

/-- the root is certified, constructor by constructor -/
theorem tree4_certified : Certified4 tree4 u0 := by
  have c1 : Certified4 tree4 u1 := .base (by decide)
  have c2 : Certified4 tree4 u2 := .base (by decide)
  exact .threesum rfl rfl rfl
    (kids_two (nodes := tree4) (c := kidS [-1, -2, 0, 0] [1, 2, 3, 0] [some 2, some 3] [some 0, some 1, some 3] 1)
      (d := kidS [0, -3, -4, -5] [0, 0, 4, 5] [some 0, some 1, some 2] [some 0, some 1] 2) rfl rfl c1 c2)

example : isTU 5 5 [[-1, 0, 1, 0, 0], [-1, 0, 1, 0, 0], [0, -1, 1, -1, -1], [1, 1, -1, 1, 0], [-1, -1, 1, -1, -1]] = true :=
  certified4_TU tree4_certified

example : Certified4Id tree4 0 := ⟨u0, rfl, tree4_certified⟩

/-- the old predicates embed -/
example : Certified4 tree3 s0 := certified4_of_certified3 tree3_certified
example : Certified4 tree t0 := certified4_of_certified3 (certified3_of_certified tree_certified)

/-- the hypotheses of `tree_TU_partial4` are satisfiable: they hold for the 3-sum tree, and for the two earlier example
trees (no list of node types has to be supplied any more) -/
example : ∀ nd ∈ tree4, Certified4 tree4 nd ∧ isTU nd.matrix.numRows nd.matrix.numCols nd.matrix.toDense = true :=
  tree_TU_partial4 rfl (by decide) (by decide) (by decide)

example : ∀ nd ∈ tree3, Certified4 tree3 nd ∧ isTU nd.matrix.numRows nd.matrix.numCols nd.matrix.toDense = true :=
  tree_TU_partial4 rfl (by decide) (by decide) (by decide)

example : ∀ nd ∈ tree, Certified4 tree nd ∧ isTU nd.matrix.numRows nd.matrix.numCols nd.matrix.toDense = true :=
  tree_TU_partial4 rfl (by decide) (by decide) (by decide)

/-- a second 3-sum tree, with identity connecting matrix: root and both leaves are `[[1,1,0],[1,0,1],[0,1,-1]]` (first
example of `C12Three`) -/
def csrW : Csr :=
  { numRows := 3, numCols := 3, nnz := 6, slice := [0, 2, 4, 6], cols := [0, 1, 0, 2, 1, 2], vals := [1, 1, 1, 1, 1, -1] }
def w0 : FNode := nodeT 0 NodeType.threesum csrW
  [kidS [-1, 0, 0] [1, 2, 0] [some 1, some 2] [some 0, some 1, some 2] 1,
   kidS [0, -2, -3] [0, 0, 3] [some 0, some 1, some 2] [some 0, some 1] 2]
def w1 (id : Nat) : FNode := nodeT id NodeType.unknown csrW []

example : ∀ nd ∈ [w0, w1 1, w1 2],
    Certified4 [w0, w1 1, w1 2] nd ∧ isTU nd.matrix.numRows nd.matrix.numCols nd.matrix.toDense = true :=
  tree_TU_partial4 rfl (by decide) (by decide) (by decide)

/-- `accepted_type` is sharp: a node of a type outside the list (here 99) is rejected -/
example : checkRecompose [nodeT 0 99 csrW []] (nodeT 0 99 csrW []) ≠ .ok () := by decide

/-- Why `nd.ternary = true` is needed at 3-sum nodes: over GF(2) the checker does not test the connecting matrix
(`fun N => chOf nd != 3 || isTU 3 3 N` is constantly `true` for `chOf nd = 2`). -/
example : (fun N : Mat => (2 : Nat) != 3 || isTU 3 3 N) = fun _ => true := rfl

end Examples4

end Cmr.Props.C03TU
