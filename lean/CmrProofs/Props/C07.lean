/-
  Property C07 — every 'not TU' answer carries a valid violating submatrix.

  Contract: `validViolator` (equal sizes, in range, no repetition, |det| ≥ 2) and `minimalViolator`
  (det = ±2 and every one-row-one-column deletion TU) of `Cmr/Judge.lean`.
  Theorems: a valid violator really refutes TU (Mathlib sense); the checks performed by `minimalViolator` cover
  every proper square submatrix.
-/
import CmrProofs.Lemmas.TUClosure
import Cmr.Judge

set_option linter.unusedSimpArgs false
set_option linter.unusedVariables false

namespace Cmr.Props.C07
open Cmr Matrix

/-- What the judge accepts as a violator is a certificate of non-TU-ness of the input. -/
theorem validViolator_refutes (m n : Nat) (M : Mat) (rs cs : List Nat)
    (h : validViolator m n M rs cs = true) : isTU m n M = false := by
  cases hq : isTU m n M with
  | false => rfl
  | true =>
    simp only [validViolator, Bool.and_eq_true, beq_iff_eq, List.all_eq_true, decide_eq_true_eq, noDup,
      Bool.or_eq_true] at h
    obtain ⟨⟨⟨⟨⟨hl, hr⟩, hc⟩, hnr⟩, hnc⟩, hd⟩ := h
    have := detOk_of_isTU M hq rs cs hl hr hc hnr hnc
    simp only [detOk, Bool.or_eq_true, beq_iff_eq] at this
    omega

/-- … hence the input is not totally unimodular in Mathlib's sense. -/
theorem validViolator_refutes_mathlib (m n : Nat) (M : Mat) (rs cs : List Nat)
    (h : validViolator m n M rs cs = true) : ¬ (toMx m n M).IsTotallyUnimodular := by
  intro hTU
  have := (isTU_iff m n M).mpr hTU
  rw [validViolator_refutes m n M rs cs h] at this
  cases this

/-- The determinant clause is about Mathlib's determinant of the selected submatrix. -/
theorem violator_det_is_det (M : Mat) (rs cs : List Nat) :
    detL rs.length (sub M rs cs) = (toMx rs.length rs.length (sub M rs cs)).det := detL_eq_det _ _

/-- A minimal violator has determinant exactly ±2 … -/
theorem minimalViolator_det (M : Mat) (rs cs : List Nat) (h : minimalViolator M rs cs = true) :
    detL rs.length (sub M rs cs) = 2 ∨ detL rs.length (sub M rs cs) = -2 := by
  simp only [minimalViolator, Bool.and_eq_true, Bool.or_eq_true, beq_iff_eq] at h
  exact h.1

/-- … and deleting any one row and any one column leaves a totally unimodular matrix. -/
theorem minimalViolator_deletions (M : Mat) (rs cs : List Nat) (h : minimalViolator M rs cs = true)
    (i j : Nat) (hi : i < rs.length) (hj : j < rs.length) :
    (toMx (rs.length - 1) (rs.length - 1) (sub M (eraseAt rs i) (eraseAt cs j))).IsTotallyUnimodular := by
  simp only [minimalViolator, Bool.and_eq_true, List.all_eq_true, List.mem_range] at h
  exact (isTU_iff _ _ _).mp (h.2 i hi j hj)

/-- Non-vacuity: the 3×3 cycle matrix is its own minimal violator. -/
example : let M : Mat := [[1, 1, 0], [0, 1, 1], [1, 0, 1]]
    validViolator 3 3 M [0, 1, 2] [0, 1, 2] = true ∧ minimalViolator M [0, 1, 2] [0, 1, 2] = true := by decide

end Cmr.Props.C07
