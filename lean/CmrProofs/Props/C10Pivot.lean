/-
  Property C10 (extension) — the regularity verdict of a 0/1 matrix is invariant under a GF(2) pivot.

  Model: `Cmr/Pivot.lean` (`pivot2`, `pivotOk2`, `pivotRaw`), `Cmr/Regular.lean` (`isRegular`), `Cmr/Rel.lean`
  (`Step.V2`, table entry `iff` for the binary-only class `reg`).
  Argument: a regular `M` has a TU signing `S` (C02).  `S[r,c] = ±1`, so the GF(3) pivot of `S` at `(r,c)` is TU
  (`isTU_pivot3`) and equals the rational pivot, whose entries are in `{0,±1}` (`pivotRaw_ternary_of_TU`: 2×2 minors of a
  TU matrix).  Entrywise `pivotRaw S ≡ pivotRaw M (mod 2)`, so `pivot3 S` is a TU signing of `pivot2 M`
  (`reg_V2_yes`).  The converse is the same statement applied to `pivot2 M`, since the binary pivot is an involution
  (`C13.pivot2_involutive`).
  §2 lifts this to the step table: `reg_step_V2`, `apply_binary` (every step with a table entry for `reg` keeps 0/1
  matrices 0/1), `reg_step_iff_binary`, and `reg_steps_binary` for step lists that may contain GF(2) pivots.
-/
import CmrProofs.Props.C10

set_option linter.unusedSimpArgs false
set_option linter.unusedVariables false

namespace Cmr.Props.C10Pivot
open Cmr Matrix Cmr.Props.C02

/-! ## 1. The GF(2) pivot -/

theorem pivotOk2_iff {m n : Nat} {M : Mat} {r c : Nat} :
    pivotOk2 m n M r c = true ↔ r < m ∧ c < n ∧ mod2 (ent M r c) ≠ 0 := by
  simp [pivotOk2, and_assoc]

/-- the rational pivot of a TU matrix on a `±1` entry has entries in `{0, ±1}` -/
theorem pivotRaw_ternary_of_TU {m n : Nat} {S : Mat} (hTU : isTU m n S = true) {r c : Nat} (hr : r < m) (hc : c < n)
    (hε : ent S r c = 1 ∨ ent S r c = -1) {i j : Nat} (hi : i < m) (hj : j < n) :
    pivotRaw S r c i j = 0 ∨ pivotRaw S r c i j = 1 ∨ pivotRaw S r c i j = -1 := by
  have hA := (isTU_iff m n S).mp hTU
  have hA' := pivot_isTotallyUnimodular (toMx m n S) hA ⟨r, hr⟩ ⟨c, hc⟩ (ent S r c) hε rfl
  have hraw : pivotRaw S r c i j = (Matrix.of fun (i : Fin m) (j : Fin n) =>
      if i = (⟨r, hr⟩ : Fin m) then (if j = (⟨c, hc⟩ : Fin n) then -(ent S r c) else ent S r c * toMx m n S ⟨r, hr⟩ j)
      else if j = (⟨c, hc⟩ : Fin n) then ent S r c * toMx m n S i ⟨c, hc⟩
      else toMx m n S i j - ent S r c * toMx m n S i ⟨c, hc⟩ * toMx m n S ⟨r, hr⟩ j) ⟨i, hi⟩ ⟨j, hj⟩ := by
    simp only [pivotRaw, toMx, of_apply, Fin.ext_iff, beq_iff_eq]
  have hrange := hA'.apply ⟨i, hi⟩ ⟨j, hj⟩
  rw [← hraw] at hrange
  obtain ⟨s, hs⟩ := hrange
  rw [← hs]
  cases s <;> simp


/-- `s` is an admissible signed value for the 0/1 entry `b` -/
def SgnOf (b s : Int) : Prop := (b = 0 ∧ s = 0) ∨ (b = 1 ∧ (s = 1 ∨ s = -1))

theorem sgnOf_of_signs {m n : Nat} {S M : Mat} (hb : ∀ i, i < m → ∀ j, j < n → (ent M i j = 0 ∨ ent M i j = 1))
    (hs : Signs m n S M) {i j : Nat} (hi : i < m) (hj : j < n) : SgnOf (ent M i j) (ent S i j) := by
  have h := hs i hi j hj
  rcases hb i hi j hj with e | e
  · rw [if_pos e] at h; exact Or.inl ⟨e, h⟩
  · rw [if_neg (by rw [e]; decide)] at h; exact Or.inr ⟨e, h⟩

/-- arithmetic core: if `x ∈ {0,±1}` and `x ≡ y (mod 2)` then `mod3 x` is an admissible signed value for `mod2 y` -/
theorem sign_core {y x : Int} (hx : x = 0 ∨ x = 1 ∨ x = -1) (hxy : (x - y) % 2 = 0) :
    if mod2 y = 0 then mod3 x = 0 else (mod3 x = 1 ∨ mod3 x = -1) := by
  rw [mod3_of_ternary hx]
  unfold mod2
  rcases hx with rfl | rfl | rfl <;> split <;> omega

theorem sgnOf_mod2 {b s : Int} (h : SgnOf b s) : (s - b) % 2 = 0 := by
  rcases h with ⟨rfl, rfl⟩ | ⟨rfl, rfl | rfl⟩ <;> decide

theorem pivotRaw_congr2 {m n : Nat} {S M : Mat} (hb : ∀ i, i < m → ∀ j, j < n → (ent M i j = 0 ∨ ent M i j = 1))
    (hs : Signs m n S M) {r c : Nat} (hr : r < m) (hc : c < n) {i j : Nat} (hi : i < m) (hj : j < n) :
    (pivotRaw S r c i j - pivotRaw M r c i j) % 2 = 0 := by
  have e1 := sgnOf_of_signs hb hs hr hc
  have e2 := sgnOf_of_signs hb hs hr hj
  have e3 := sgnOf_of_signs hb hs hi hc
  have e4 := sgnOf_of_signs hb hs hi hj
  unfold pivotRaw
  simp only []
  generalize ent S r c = a at *
  generalize ent M r c = a' at *
  generalize ent S r j = b at *
  generalize ent M r j = b' at *
  generalize ent S i c = d at *
  generalize ent M i c = d' at *
  generalize ent S i j = f at *
  generalize ent M i j = f' at *
  split
  · split
    · rcases e1 with ⟨rfl, rfl⟩ | ⟨rfl, rfl | rfl⟩ <;> decide
    · rcases e1 with ⟨rfl, rfl⟩ | ⟨rfl, rfl | rfl⟩ <;> rcases e2 with ⟨rfl, rfl⟩ | ⟨rfl, rfl | rfl⟩ <;> decide
  · split
    · rcases e1 with ⟨rfl, rfl⟩ | ⟨rfl, rfl | rfl⟩ <;> rcases e3 with ⟨rfl, rfl⟩ | ⟨rfl, rfl | rfl⟩ <;> decide
    · rcases e1 with ⟨rfl, rfl⟩ | ⟨rfl, rfl | rfl⟩ <;> rcases e2 with ⟨rfl, rfl⟩ | ⟨rfl, rfl | rfl⟩ <;>
        rcases e3 with ⟨rfl, rfl⟩ | ⟨rfl, rfl | rfl⟩ <;> rcases e4 with ⟨rfl, rfl⟩ | ⟨rfl, rfl | rfl⟩ <;> decide

/-- forward direction: a GF(2) pivot of a regular matrix is regular -/
theorem reg_V2_yes {m n : Nat} {M : Mat} (hwf : M.wf m n = true) {r c : Nat}
    (hok : pivotOk2 m n M r c = true) (hR : isRegular n M = true) : isRegular n (pivot2 m n M r c) = true := by
  obtain ⟨hr, hc, hp⟩ := pivotOk2_iff.mp hok
  obtain ⟨hb, S, hS, hsig, hTU⟩ := (isRegular_iff_signs hwf).mp hR
  have hε : ent S r c = 1 ∨ ent S r c = -1 := by
    rcases sgnOf_of_signs hb hsig hr hc with ⟨e, _⟩ | ⟨_, e⟩
    · rw [e] at hp; exact absurd rfl hp
    · exact e
  have hok3 : pivotOk3 m n S r c = true := by
    rw [pivotOk3_iff]
    refine ⟨hr, hc, ?_⟩
    rcases hε with e | e <;> rw [e] <;> decide
  rw [isRegular_iff_signs (C13.pivot_wf2 m n M r c)]
  refine ⟨fun i hi j hj => ent_binary (C13.pivot_wf2 m n M r c) (C13.pivot2_binary m n M r c) hi hj,
    pivot3 m n S r c, C13.pivot_wf3 m n S r c, ?_, isTU_pivot3 hTU hok3⟩
  intro i hi j hj
  simp only [pivot2, pivot3, ent_ofFn _ hi hj]
  exact sign_core (pivotRaw_ternary_of_TU hTU hr hc hε hi hj) (pivotRaw_congr2 hb hsig hr hc hi hj)

/-- **Regularity of a 0/1 matrix is invariant under a GF(2) pivot.** -/
theorem reg_V2 {m n : Nat} {M : Mat} (hwf : M.wf m n = true) (hb : isBinary M = true) {r c : Nat}
    (hok : pivotOk2 m n M r c = true) : isRegular n (pivot2 m n M r c) = isRegular n M := by
  obtain ⟨hr, hc, hp⟩ := pivotOk2_iff.mp hok
  have hp1 : ent M r c = 1 := by
    rcases ent_binary hwf hb hr hc with e | e
    · rw [e] at hp; exact absurd rfl hp
    · exact e
  rw [Bool.eq_iff_iff]
  refine ⟨fun h => ?_, reg_V2_yes hwf hok⟩
  have hok' : pivotOk2 m n (pivot2 m n M r c) r c = true := by
    rw [pivotOk2_iff]
    refine ⟨hr, hc, ?_⟩
    rw [pivot2, ent_ofFn _ hr hc]
    simp only [pivotRaw, beq_self_eq_true, if_true, hp1]
    decide
  have h2 := reg_V2_yes (C13.pivot_wf2 m n M r c) hok' h
  rwa [C13.pivot2_involutive m n M hwf hb r c hr hc hp1] at h2


/-! ## 2. Lift to the step table -/

/-- the step `V2 r c` of the table -/
theorem reg_step_V2 {r c : Nat} {m n : Nat} {M : Mat} {m' n' : Nat} {M' : Mat}
    (h : (Step.V2 r c).apply m n M = some (m', n', M')) (hwf : M.wf m n = true) (hb : isBinary M = true) :
    isRegular n' M' = isRegular n M := by
  simp only [Step.apply] at h
  split at h
  · rename_i hok
    simp only [Option.some.injEq, Prod.mk.injEq] at h
    obtain ⟨rfl, rfl, rfl⟩ := h
    exact reg_V2 hwf hb hok
  · cases h

/-- a step with a table entry (`iff` or `imp`) for `reg` has sign `+1` if it is an insertion -/
theorem reg_rel_unitSign' {s : Step} (hrel : s.rel .reg = .iff ∨ s.rel .reg = .imp) : s.unitSign = true := by
  rcases hrel with h | h
  · exact C10.reg_rel_unitSign h
  · obtain ⟨rows, cols, rfl⟩ := C10.rel_imp_isSlice h
    rfl

/-- **Every step with a table entry for `reg` maps 0/1 matrices to 0/1 matrices.** -/
theorem apply_binary {m n : Nat} {M : Mat} {s : Step} {m' n' : Nat} {M' : Mat}
    (hrel : s.rel .reg = .iff ∨ s.rel .reg = .imp)
    (h : s.apply m n M = some (m', n', M')) (hwf : M.wf m n = true) (hb : isBinary M = true) :
    isBinary M' = true := by
  have hbe := (isBinary_iff_ent hwf).mp hb
  have hwf' := Step.apply_wf h hwf
  have hl := length_of_wf hwf
  have h1 := reg_rel_unitSign' hrel
  cases s with
  | T =>
    simp only [Step.apply, Option.some.injEq, Prod.mk.injEq] at h
    obtain ⟨rfl, rfl, rfl⟩ := h
    rw [isBinary_iff_ent hwf']
    intro a ha b hb'
    rw [ent_transpose M ha hb']; exact hbe b hb' a ha
  | P rows cols =>
    obtain ⟨hr, hc, rfl, rfl, rfl⟩ := apply_P_iff.mp h
    rw [isBinary_iff_ent (wf_sub M rows cols)]
    intro a ha b hb'
    rw [ent_sub M rows cols ha hb']
    exact hbe _ (((isPermOf_iff _ _).mp hr).2.1 _ (List.getElem_mem ha)) _
      (((isPermOf_iff _ _).mp hc).2.1 _ (List.getElem_mem hb'))
  | S rows cols =>
    obtain ⟨hr, hc, _, _, rfl, rfl, rfl⟩ := apply_S_iff.mp h
    rw [isBinary_iff_ent (wf_sub M rows cols)]
    intro a ha b hb'
    rw [ent_sub M rows cols ha hb']
    exact hbe _ (hr _ (List.getElem_mem ha)) _ (hc _ (List.getElem_mem hb'))
  | V2 r c =>
    simp only [Step.apply] at h
    split at h
    · simp only [Option.some.injEq, Prod.mk.injEq] at h; obtain ⟨rfl, rfl, rfl⟩ := h
      exact C13.pivot2_binary _ _ M r c
    · cases h
  | V3 r c => rcases hrel with e | e <;> simp [Step.rel, Cls.beq_eq_decide] at e
  | NR i => rcases hrel with e | e <;> simp [Step.rel, Cls.binaryOnly] at e
  | NC j => rcases hrel with e | e <;> simp [Step.rel, Cls.binaryOnly] at e
  | ZR pos =>
    obtain ⟨p, hs, rfl, rfl, rfl⟩ := apply_rowIns rfl h
    obtain ⟨rfl, hp⟩ := hs
    rw [isBinary_iff_ent hwf']
    intro a ha b hb'
    rw [ent_insertRow M _ (by omega)]
    split
    · exact hbe a (by omega) b hb'
    · split
      · simp [Step.newRow, List.getD_eq_getElem?_getD, List.getElem?_replicate, hb']
      · exact hbe (a - 1) (by omega) b hb'
  | UR pos j sg =>
    obtain ⟨p, hs, rfl, rfl, rfl⟩ := apply_rowIns rfl h
    obtain ⟨rfl, hp, hj, hsg⟩ := hs
    have hsg1 : sg = 1 := by simpa [Step.unitSign] using h1
    rw [isBinary_iff_ent hwf']
    intro a ha b hb'
    rw [ent_insertRow M _ (by omega)]
    split
    · exact hbe a (by omega) b hb'
    · split
      · simp only [Step.newRow, getD_unitVec sg hb']
        split
        · exact Or.inr hsg1
        · exact Or.inl rfl
      · exact hbe (a - 1) (by omega) b hb'
  | DR pos i sg =>
    obtain ⟨p, hs, rfl, rfl, rfl⟩ := apply_rowIns rfl h
    obtain ⟨rfl, hp, hi, hsg⟩ := hs
    have hsg1 : sg = 1 := by simpa [Step.unitSign] using h1
    rw [isBinary_iff_ent hwf']
    intro a ha b hb'
    rw [ent_insertRow M _ (by omega)]
    split
    · exact hbe a (by omega) b hb'
    · split
      · simp only [Step.newRow]; rw [getD_scaledRow, hsg1, Int.one_mul]
        exact hbe i hi b hb'
      · exact hbe (a - 1) (by omega) b hb'
  | ZC pos =>
    obtain ⟨p, hs, rfl, rfl, rfl⟩ := apply_colIns rfl h
    obtain ⟨rfl, hp⟩ := hs
    rw [isBinary_iff_ent hwf']
    intro a ha b hb'
    rw [ent_insertCol _ hwf hp ha]
    split
    · exact hbe a ha b (by omega)
    · split
      · exact Or.inl rfl
      · exact hbe a ha (b - 1) (by omega)
  | UC pos i sg =>
    obtain ⟨p, hs, rfl, rfl, rfl⟩ := apply_colIns rfl h
    obtain ⟨rfl, hp, hi, hsg⟩ := hs
    have hsg1 : sg = 1 := by simpa [Step.unitSign] using h1
    rw [isBinary_iff_ent hwf']
    intro a ha b hb'
    rw [ent_insertCol _ hwf hp ha]
    split
    · exact hbe a ha b (by omega)
    · split
      · simp only [Step.newCol]
        split
        · exact Or.inr hsg1
        · exact Or.inl rfl
      · exact hbe a ha (b - 1) (by omega)
  | DC pos j sg =>
    obtain ⟨p, hs, rfl, rfl, rfl⟩ := apply_colIns rfl h
    obtain ⟨rfl, hp, hj, hsg⟩ := hs
    have hsg1 : sg = 1 := by simpa [Step.unitSign] using h1
    rw [isBinary_iff_ent hwf']
    intro a ha b hb'
    rw [ent_insertCol _ hwf hp ha]
    split
    · exact hbe a ha b (by omega)
    · split
      · simp only [Step.newCol, hsg1, Int.one_mul]
        exact hbe a ha j hj
      · exact hbe a ha (b - 1) (by omega)

/-- **Every step whose table entry for `reg` is `iff` — the GF(2) pivot included — leaves the regularity verdict of a
0/1 matrix unchanged.** -/
theorem reg_step_iff_binary {s : Step} (hrel : s.rel .reg = .iff) {m n : Nat} {M : Mat}
    {m' n' : Nat} {M' : Mat} (h : s.apply m n M = some (m', n', M')) (hwf : M.wf m n = true)
    (hb : isBinary M = true) : isRegular n' M' = isRegular n M := by
  by_cases hnp : s.isPivot = false
  · exact C10.reg_step_iff hnp hrel h hwf
  · cases s <;> simp [Step.isPivot] at hnp
    · exact reg_step_V2 h hwf hb
    · simp [Step.rel, Cls.beq_eq_decide] at hrel

/-- `steps_lift_inv` with an invariant that only the steps with a table entry have to preserve -/
theorem steps_lift_inv' {c : Cls} (hc : c.dual = c) (V : Nat → Nat → Mat → Bool) (Inv : Nat → Nat → Mat → Prop)
    (hinv : ∀ s : Step, (s.rel c = .iff ∨ s.rel c = .imp) → ∀ m n M m' n' M',
      Step.apply m n M s = some (m', n', M') → M.wf m n = true → Inv m n M → Inv m' n' M')
    (hiff : ∀ s : Step, s.rel c = .iff → ∀ m n M m' n' M', s.apply m n M = some (m', n', M') → M.wf m n = true → Inv m n M →
      V m' n' M' = V m n M)
    (himp : ∀ s : Step, s.rel c = .imp → ∀ m n M m' n' M', s.apply m n M = some (m', n', M') → M.wf m n = true → Inv m n M →
      V m n M = true → V m' n' M' = true) :
    ∀ steps : List Step, ∀ m n M m' n' M', applySteps m n M steps = some (m', n', M') →
      M.wf m n = true → Inv m n M →
      ((stepsRel c steps).2 = .iff → V m' n' M' = V m n M ∧ Inv m' n' M') ∧
      ((stepsRel c steps).2 = .imp → (V m n M = true → V m' n' M' = true) ∧ Inv m' n' M') := by
  intro steps
  induction steps with
  | nil =>
    intro m n M m' n' M' h hwf hI
    simp only [applySteps, Option.some.injEq, Prod.mk.injEq] at h
    obtain ⟨rfl, rfl, rfl⟩ := h
    exact ⟨fun _ => ⟨rfl, hI⟩, fun _ => ⟨fun h => h, hI⟩⟩
  | cons s rest ih =>
    intro m n M m' n' M' h hwf hI
    simp only [applySteps] at h
    split at h
    · cases h
    · rename_i m1 n1 M1 h1
      have hwf1 := Step.apply_wf h1 hwf
      rw [stepsRel_cons, stepClass_selfdual hc]
      simp only
      constructor
      · intro hr
        obtain ⟨ha, hb⟩ := Rel.seq_eq_iff.mp hr
        have hI1 := hinv s (Or.inl ha) m n M m1 n1 M1 h1 hwf hI
        obtain ⟨e, hI'⟩ := (ih m1 n1 M1 m' n' M' h hwf1 hI1).1 hb
        exact ⟨by rw [e, hiff s ha m n M m1 n1 M1 h1 hwf hI], hI'⟩
      · intro hr
        obtain ⟨ha, hb⟩ := Rel.seq_eq_imp hr
        have hI1 := hinv s ha m n M m1 n1 M1 h1 hwf hI
        have hV1 : V m n M = true → V m1 n1 M1 = true := by
          intro hV
          rcases ha with ha | ha
          · rw [hiff s ha m n M m1 n1 M1 h1 hwf hI]; exact hV
          · exact himp s ha m n M m1 n1 M1 h1 hwf hI hV
        rcases hb with hb | hb
        · obtain ⟨e, hI'⟩ := (ih m1 n1 M1 m' n' M' h hwf1 hI1).1 hb
          exact ⟨fun hV => by rw [e]; exact hV1 hV, hI'⟩
        · obtain ⟨e, hI'⟩ := (ih m1 n1 M1 m' n' M' h hwf1 hI1).2 hb
          exact ⟨fun hV => e (hV1 hV), hI'⟩

/-- **Lift to arbitrary step lists, 0/1 input**: combined relation `iff` gives equal regularity verdicts, `imp` gives
yes ⇒ yes; GF(2) pivots are allowed in the list (steps with table entry `none` for `reg` — `V3`, `NR`, `NC`, insertions
with sign `-1` — make the combined relation `none`).  In both cases the result is again a 0/1 matrix. -/
theorem reg_steps_binary {steps : List Step} {m n : Nat} {M : Mat}
    {m' n' : Nat} {M' : Mat} (h : applySteps m n M steps = some (m', n', M')) (hwf : M.wf m n = true)
    (hb : isBinary M = true) :
    (stepsRel .reg steps).1 = .reg ∧
    ((stepsRel .reg steps).2 = .iff → isRegular n' M' = isRegular n M ∧ isBinary M' = true) ∧
    ((stepsRel .reg steps).2 = .imp → (isRegular n M = true → isRegular n' M' = true) ∧ isBinary M' = true) :=
  ⟨stepsRel_class_selfdual rfl steps,
   steps_lift_inv' (c := .reg) rfl (fun _ n M => isRegular n M) (fun _ _ M => isBinary M = true)
    (fun s hrel m n M m' n' M' h hwf hb => apply_binary hrel h hwf hb)
    (fun s hrel m n M m' n' M' h hwf hb => reg_step_iff_binary hrel h hwf hb)
    (fun s hrel m n M m' n' M' h hwf _ hR => C10.reg_step_imp hrel h hwf hR)
    steps m n M m' n' M' h hwf hb⟩


/-! ## Non-vacuity -/

/-- a regular 0/1 matrix that is not TU, a valid pivot position, the pivoted matrix, and the equal verdicts -/
example :
    Mat.wf [[1, 1, 0], [0, 1, 1], [1, 0, 1]] 3 3 = true ∧ isBinary [[1, 1, 0], [0, 1, 1], [1, 0, 1]] = true ∧
    pivotOk2 3 3 [[1, 1, 0], [0, 1, 1], [1, 0, 1]] 0 1 = true ∧
    pivot2 3 3 [[1, 1, 0], [0, 1, 1], [1, 0, 1]] 0 1 = [[1, 1, 0], [1, 1, 1], [1, 0, 1]] ∧
    isRegular 3 [[1, 1, 0], [0, 1, 1], [1, 0, 1]] = true ∧
    isRegular 3 [[1, 1, 0], [1, 1, 1], [1, 0, 1]] = true := by decide

/-- the 0/1 hypothesis of `reg_V2` cannot be dropped: `pivot2` reduces modulo 2 -/
example : pivotOk2 1 2 [[1, 2]] 0 0 = true ∧ isRegular 2 [[1, 2]] = false ∧
    isRegular 2 (pivot2 1 2 [[1, 2]] 0 0) = true := by decide

/-- a step list with GF(2) pivots whose combined relation for `reg` is `iff`, and one with a slice (`imp`) -/
example :
    stepsRel .reg [.T, .V2 1 0, .ZR 1, .V2 0 2, .DC 0 1 1] = (.reg, .iff) ∧
    stepsRel .reg [.V2 0 1, .S [0, 2] [1, 2], .T] = (.reg, .imp) ∧
    applySteps 3 3 [[1, 1, 0], [0, 1, 1], [1, 0, 1]] [.T, .V2 1 0, .ZR 1, .V2 0 2, .DC 0 1 1] =
      some (4, 4, [[1, 1, 1, 1], [0, 0, 0, 0], [1, 1, 1, 0], [0, 1, 0, 1]]) := by decide

/-- the lifted theorem applied to that list: the result is regular because the base matrix is -/
example : isRegular 4 [[1, 1, 1, 1], [0, 0, 0, 0], [1, 1, 1, 0], [0, 1, 0, 1]] = true :=
  (((reg_steps_binary (steps := [.T, .V2 1 0, .ZR 1, .V2 0 2, .DC 0 1 1]) (m := 3) (n := 3)
    (M := [[1, 1, 0], [0, 1, 1], [1, 0, 1]]) (m' := 4) (n' := 4) (by decide) (by decide) (by decide)).2.1
      (by decide)).1).trans (by decide)

end Cmr.Props.C10Pivot
