/-
  Property C08 — series-parallel reductions: validity of reported reductions, exactness of the verdict, confluence.

  Model: `Cmr/SP.lean` (`validReduction`, `applyReduction(s)`, `findReducible`, `irreducible`, `spReduce`, `isSPgreedy`,
  `allRemovals`, `spSearch`, the violator deciders `isCycleSupport`, `isM3prime`, `isSPViolator` and the separation
  decider `is2Separation`).
  Tie: op `sp` (`judgeSp`) — the verdict of `CMRspTest{Binary,Ternary}` / `CMRspDecompose*` is compared with `spSearch`
  (≤ 9 lines) or `isSPgreedy`; the reported reductions must pass `applyReductions` one after another and leave an
  `irreducible` remainder that is empty iff the verdict is "series-parallel".

  What is proved.  The declarative notion is `Removable` (delete one remaining line that is zero, a unit vector or a
  (negated, if ternary) copy of another remaining line of the same kind), its reflexive-transitive closure `Reaches`
  and `IsSP` = "some removal sequence reaches the empty index sets".
  * every reduction accepted by `validReduction` is a `Removable` step and conversely (`validReduction_removable`,
    `removable_validReduction`); accepted reduction lists are genuine sequences (`applyReductions_reaches`,
    `applyReductions_error`);
  * `allRemovals` lists exactly the `Removable` steps, `spSearch` decides `IsSP` (`spSearch_sound/complete`);
  * `findReducible` returns valid reductions, finds one iff there is one (`irreducible_iff`), so the greedy sequence
    is genuine and ends irreducible;
  * **confluence** (`sp_confluent`): any maximal removal sequence ends in the empty matrix iff the matrix is
    series-parallel; hence `isSPgreedy` also decides `IsSP` (`isSPgreedy_iff`) and agrees with `spSearch`.  The proof
    goes through `Cmr.SPE.embed`: series-parallelness is inherited by signed embeddings, in particular by
    sub-index-sets (`isSP_mono`);
  * every matrix accepted by `isSPViolator` (`M_2`, `M_3'`, cycles of length ≥ 3; any signs) is irreducible
    (`m2_irreducible`, `m3prime_irreducible`, `cycle_irreducible`, `violator_irreducible`), and a violator found on a
    submatrix certifies that the matrix is not series-parallel (`violator_certifies`).
  Index lists are duplicate-free wherever the Boolean tests count nonzeros (`R.Nodup`, `C.Nodup`); the judge only
  ever uses `List.range` and erasures thereof.
-/
import CmrProofs.Lemmas.SPLemmas

set_option linter.unusedSimpArgs false
set_option linter.unusedVariables false

namespace Cmr.Props.C08
open Cmr

/-! ### the declarative notion -/

/-- `(R', C')` arises from `(R, C)` by deleting one remaining row or column which, restricted to the remaining lines,
is zero, has exactly one nonzero, or equals (if `ternary`: or is the negation of) another remaining line of the same
kind. -/
inductive Removable (ternary : Bool) (M : Mat) (R C : List Nat) : List Nat → List Nat → Prop
  | rowZero (r : Nat) : r ∈ R → (∀ c ∈ C, ent M r c = 0) → Removable ternary M R C (R.erase r) C
  | rowUnit (r c : Nat) : r ∈ R → c ∈ C → ent M r c ≠ 0 → (∀ c' ∈ C, ent M r c' ≠ 0 → c' = c) →
      Removable ternary M R C (R.erase r) C
  | rowCopy (r r2 : Nat) : r ∈ R → r2 ∈ R → r2 ≠ r →
      ((∀ c ∈ C, ent M r c = ent M r2 c) ∨ (ternary = true ∧ ∀ c ∈ C, ent M r c = - ent M r2 c)) →
      Removable ternary M R C (R.erase r) C
  | colZero (c : Nat) : c ∈ C → (∀ r ∈ R, ent M r c = 0) → Removable ternary M R C R (C.erase c)
  | colUnit (c r : Nat) : c ∈ C → r ∈ R → ent M r c ≠ 0 → (∀ r' ∈ R, ent M r' c ≠ 0 → r' = r) →
      Removable ternary M R C R (C.erase c)
  | colCopy (c c2 : Nat) : c ∈ C → c2 ∈ C → c2 ≠ c →
      ((∀ r ∈ R, ent M r c = ent M r c2) ∨ (ternary = true ∧ ∀ r ∈ R, ent M r c = - ent M r c2)) →
      Removable ternary M R C R (C.erase c)

/-- reflexive-transitive closure of `Removable` -/
inductive Reaches (ternary : Bool) (M : Mat) : (List Nat × List Nat) → (List Nat × List Nat) → Prop
  | refl (p : List Nat × List Nat) : Reaches ternary M p p
  | head {R C R' C' : List Nat} {q : List Nat × List Nat} :
      Removable ternary M R C R' C' → Reaches ternary M (R', C') q → Reaches ternary M (R, C) q

/-- series-parallel: some sequence of removals reaches the empty matrix -/
def IsSP (ternary : Bool) (M : Mat) (R C : List Nat) : Prop := Reaches ternary M (R, C) ([], [])

theorem Reaches.trans {ternary : Bool} {M : Mat} {p q s : List Nat × List Nat}
    (h1 : Reaches ternary M p q) (h2 : Reaches ternary M q s) : Reaches ternary M p s := by
  induction h1 with
  | refl => exact h2
  | head hr _ ih => exact Reaches.head hr (ih h2)

theorem Reaches.single {ternary : Bool} {M : Mat} {R C R' C' : List Nat} (h : Removable ternary M R C R' C') :
    Reaches ternary M (R, C) (R', C') := Reaches.head h (Reaches.refl _)

/-- `Removable` in terms of the generic line predicate of `SPLemmas` -/
theorem removable_iff {ternary : Bool} {M : Mat} {R C R' C' : List Nat} :
    Removable ternary M R C R' C' ↔
      (∃ r, LineRem ternary (ent M) R C r ∧ R' = R.erase r ∧ C' = C) ∨
      (∃ c, LineRem ternary (flipE (ent M)) C R c ∧ R' = R ∧ C' = C.erase c) := by
  constructor
  · intro h
    cases h with
    | rowZero r hr h => exact Or.inl ⟨r, ⟨hr, Or.inl h⟩, rfl, rfl⟩
    | rowUnit r c hr hc h1 h2 => exact Or.inl ⟨r, ⟨hr, Or.inr (Or.inl ⟨c, hc, h1, h2⟩)⟩, rfl, rfl⟩
    | rowCopy r r2 hr hr2 hne h => exact Or.inl ⟨r, ⟨hr, Or.inr (Or.inr ⟨r2, hr2, hne, h⟩)⟩, rfl, rfl⟩
    | colZero c hc h => exact Or.inr ⟨c, ⟨hc, Or.inl h⟩, rfl, rfl⟩
    | colUnit c r hc hr h1 h2 => exact Or.inr ⟨c, ⟨hc, Or.inr (Or.inl ⟨r, hr, h1, h2⟩)⟩, rfl, rfl⟩
    | colCopy c c2 hc hc2 hne h => exact Or.inr ⟨c, ⟨hc, Or.inr (Or.inr ⟨c2, hc2, hne, h⟩)⟩, rfl, rfl⟩
  · rintro (⟨r, ⟨hr, h⟩, rfl, rfl⟩ | ⟨c, ⟨hc, h⟩, rfl, rfl⟩)
    · rcases h with h | ⟨c, hc, h1, h2⟩ | ⟨r2, hr2, hne, h⟩
      · exact Removable.rowZero r hr h
      · exact Removable.rowUnit r c hr hc h1 h2
      · exact Removable.rowCopy r r2 hr hr2 hne h
    · rcases h with h | ⟨r, hr, h1, h2⟩ | ⟨c2, hc2, hne, h⟩
      · exact Removable.colZero c hc h
      · exact Removable.colUnit c r hc hr h1 h2
      · exact Removable.colCopy c c2 hc hc2 hne h

/-- a removal deletes exactly one element of one of the two duplicate-free index lists -/
theorem Removable.shape {ternary : Bool} {M : Mat} {R C R' C' : List Nat} (h : Removable ternary M R C R' C') :
    (∃ r ∈ R, R' = R.erase r ∧ C' = C) ∨ (∃ c ∈ C, R' = R ∧ C' = C.erase c) := by
  rcases removable_iff.mp h with ⟨r, hr, h1, h2⟩ | ⟨c, hc, h1, h2⟩
  · exact Or.inl ⟨r, hr.1, h1, h2⟩
  · exact Or.inr ⟨c, hc.1, h1, h2⟩

theorem Removable.length {ternary : Bool} {M : Mat} {R C R' C' : List Nat} (h : Removable ternary M R C R' C') :
    R'.length + C'.length + 1 = R.length + C.length := by
  rcases h.shape with ⟨r, hr, rfl, rfl⟩ | ⟨c, hc, rfl, rfl⟩
  · have := List.length_erase_of_mem hr
    have := List.length_pos_of_mem hr
    omega
  · have := List.length_erase_of_mem hc
    have := List.length_pos_of_mem hc
    omega

theorem Removable.nodup {ternary : Bool} {M : Mat} {R C R' C' : List Nat} (h : Removable ternary M R C R' C')
    (hR : R.Nodup) (hC : C.Nodup) : R'.Nodup ∧ C'.Nodup := by
  rcases h.shape with ⟨r, hr, rfl, rfl⟩ | ⟨c, hc, rfl, rfl⟩
  · exact ⟨hR.erase r, hC⟩
  · exact ⟨hR, hC.erase c⟩

theorem Removable.subset {ternary : Bool} {M : Mat} {R C R' C' : List Nat} (h : Removable ternary M R C R' C') :
    (∀ x ∈ R', x ∈ R) ∧ (∀ y ∈ C', y ∈ C) := by
  rcases h.shape with ⟨r, hr, rfl, rfl⟩ | ⟨c, hc, rfl, rfl⟩
  · exact ⟨fun x hx => List.mem_of_mem_erase hx, fun y hy => hy⟩
  · exact ⟨fun x hx => hx, fun y hy => List.mem_of_mem_erase hy⟩

theorem Reaches.nodup_subset {ternary : Bool} {M : Mat} {p q : List Nat × List Nat} (h : Reaches ternary M p q)
    (hR : p.1.Nodup) (hC : p.2.Nodup) :
    q.1.Nodup ∧ q.2.Nodup ∧ (∀ x ∈ q.1, x ∈ p.1) ∧ (∀ y ∈ q.2, y ∈ p.2) := by
  induction h with
  | refl => exact ⟨hR, hC, fun x hx => hx, fun y hy => hy⟩
  | head hr _ ih =>
    obtain ⟨h1, h2⟩ := hr.nodup hR hC
    obtain ⟨h3, h4, h5, h6⟩ := ih h1 h2
    exact ⟨h3, h4, fun x hx => hr.subset.1 x (h5 x hx), fun y hy => hr.subset.2 y (h6 y hy)⟩

/-- `IsSP` is the generic `SPE` of `SPLemmas` -/
theorem isSP_iff_SPE {ternary : Bool} {M : Mat} {R C : List Nat} :
    IsSP ternary M R C ↔ SPE ternary (ent M) R C := by
  constructor
  · intro h
    unfold IsSP at h
    generalize hp : (R, C) = p at h
    generalize hq : (([], []) : List Nat × List Nat) = q at h
    induction h generalizing R C with
    | refl =>
      rw [← hq] at hp
      injection hp with h1 h2
      subst h1 h2
      exact SPE.nil
    | head hr _ ih =>
      injection hp with h1 h2
      subst h1 h2
      rcases removable_iff.mp hr with ⟨r, hlr, rfl, rfl⟩ | ⟨c, hlc, rfl, rfl⟩
      · exact SPE.row hlr (ih rfl hq)
      · exact SPE.col hlc (ih rfl hq)
  · intro h
    induction h with
    | nil => exact Reaches.refl _
    | row hr _ ih => exact Reaches.head (removable_iff.mpr (Or.inl ⟨_, hr, rfl, rfl⟩)) ih
    | col hc _ ih => exact Reaches.head (removable_iff.mpr (Or.inr ⟨_, hc, rfl, rfl⟩)) ih

/-- an `IsSP` index pair is empty or has a removable line whose removal is `IsSP` again -/
theorem isSP_cases {ternary : Bool} {M : Mat} {R C : List Nat} (h : IsSP ternary M R C) :
    (R = [] ∧ C = []) ∨ ∃ R' C', Removable ternary M R C R' C' ∧ IsSP ternary M R' C' := by
  unfold IsSP at h
  generalize hp : (R, C) = p at h
  generalize hq : (([], []) : List Nat × List Nat) = q at h
  cases h with
  | refl =>
    rw [← hq] at hp
    injection hp with h1 h2
    exact Or.inl ⟨h1, h2⟩
  | head hr hrest =>
    injection hp with h1 h2
    subst h1 h2 hq
    exact Or.inr ⟨_, _, hr, hrest⟩

/-! ### reductions accepted by the judge -/

/-- Every reduction accepted by `validReduction` is a genuine zero / unit / copy removal. -/
theorem validReduction_removable {ternary : Bool} {M : Mat} {R C : List Nat} {red : Reduction}
    (h : validReduction ternary M R C red = true) :
    Removable ternary M R C (applyReduction R C red).1 (applyReduction R C red).2 := by
  unfold validReduction at h
  unfold applyReduction
  split at h
  · cases h
  · split at h
    · rename_i _ hrow
      simp only [hrow, if_true]
      simp only [Bool.and_eq_true, List.contains_iff_mem] at h
      obtain ⟨hr, h⟩ := h
      split at h
      · exact Removable.rowZero _ hr ((isZeroVec_map (ent M) C _).mp h)
      · split at h
        · simp only [Bool.and_eq_true, List.contains_iff_mem, bne_iff_ne] at h
          exact Removable.rowCopy _ _ hr h.1.2 h.1.1 ((parallelVec_map ternary (ent M) C _ _).mp h.2)
        · simp only [Bool.and_eq_true, List.contains_iff_mem, bne_iff_ne, beq_iff_eq] at h
          obtain ⟨hc, h1, h2⟩ := lineUnit_of_filter (E := ent M) h.2
          exact Removable.rowUnit _ _ hr hc h1 h2
    · rename_i _ hrow
      simp only [hrow, if_false]
      simp only [Bool.and_eq_true, List.contains_iff_mem] at h
      obtain ⟨hc, h⟩ := h
      split at h
      · exact Removable.colZero _ hc ((isZeroVec_map (flipE (ent M)) R _).mp h)
      · split at h
        · simp only [Bool.and_eq_true, List.contains_iff_mem, bne_iff_ne] at h
          exact Removable.colCopy _ _ hc h.1.2 h.1.1 ((parallelVec_map ternary (flipE (ent M)) R _ _).mp h.2)
        · simp only [Bool.and_eq_true, List.contains_iff_mem, bne_iff_ne, beq_iff_eq] at h
          obtain ⟨hr, h1, h2⟩ := lineUnit_of_filter (E := flipE (ent M)) h.2
          exact Removable.colUnit _ _ hc hr h1 h2

/-- Conversely every genuine removal (of duplicate-free index lists) is accepted under its encoding. -/
theorem removable_validReduction {ternary : Bool} {M : Mat} {R C R' C' : List Nat} (hR : R.Nodup) (hC : C.Nodup)
    (h : Removable ternary M R C R' C') :
    ∃ red, validReduction ternary M R C red = true ∧ applyReduction R C red = (R', C') := by
  cases h with
  | rowZero r hr h => exact ⟨⟨-1 - (r : Int), 0⟩, validReduction_rowZero hr h, by simp [applyReduction]⟩
  | rowUnit r c hr hc h1 h2 =>
    exact ⟨⟨-1 - (r : Int), (c : Int) + 1⟩, validReduction_rowUnit hr (filter_of_lineUnit hC ⟨hc, h1, h2⟩),
      by simp [applyReduction]⟩
  | rowCopy r r2 hr hr2 hne h =>
    exact ⟨⟨-1 - (r : Int), -1 - (r2 : Int)⟩, validReduction_rowCopy hr hr2 hne h, by simp [applyReduction]⟩
  | colZero c hc h => exact ⟨⟨(c : Int) + 1, 0⟩, validReduction_colZero hc h, by simp [applyReduction]⟩
  | colUnit c r hc hr h1 h2 =>
    exact ⟨⟨(c : Int) + 1, -1 - (r : Int)⟩,
      validReduction_colUnit hc (filter_of_lineUnit (E := flipE (ent M)) hR ⟨hr, h1, h2⟩), by simp [applyReduction]⟩
  | colCopy c c2 hc hc2 hne h =>
    exact ⟨⟨(c : Int) + 1, (c2 : Int) + 1⟩, validReduction_colCopy hc hc2 hne h, by simp [applyReduction]⟩

/-- A list of reductions accepted in order is a genuine removal sequence. -/
theorem applyReductions_reaches {ternary : Bool} {M : Mat} {reds : List Reduction} {R C R' C' : List Nat} {k : Nat}
    (h : applyReductions ternary M R C reds k = .ok (R', C')) : Reaches ternary M (R, C) (R', C') := by
  induction reds generalizing R C k with
  | nil =>
    simp only [applyReductions] at h
    injection h with h
    rw [h]
    exact Reaches.refl _
  | cons red rest ih =>
    simp only [applyReductions] at h
    split at h
    · rename_i hv
      exact Reaches.head (validReduction_removable hv) (ih h)
    · cases h

/-- If the run is rejected with index `j` then `j - k` reductions were applied successfully and the next one is not
valid at the point reached. -/
theorem applyReductions_error {ternary : Bool} {M : Mat} {reds : List Reduction} {R C : List Nat} {k j : Nat}
    (h : applyReductions ternary M R C reds k = .error j) :
    k ≤ j ∧ ∃ red R1 C1, reds[j - k]? = some red ∧
      applyReductions ternary M R C (reds.take (j - k)) k = .ok (R1, C1) ∧
      validReduction ternary M R1 C1 red = false := by
  induction reds generalizing R C k with
  | nil => simp [applyReductions] at h
  | cons red rest ih =>
    simp only [applyReductions] at h
    split at h
    · rename_i hv
      obtain ⟨hk, red', R1, C1, h1, h2, h3⟩ := ih h
      refine ⟨by omega, red', R1, C1, ?_, ?_, h3⟩
      · have : j - k = (j - (k + 1)) + 1 := by omega
        rw [this, List.getElem?_cons_succ]
        exact h1
      · have : j - k = (j - (k + 1)) + 1 := by omega
        rw [this, List.take_succ_cons]
        simp only [applyReductions, hv, if_true]
        exact h2
    · rename_i hv
      injection h with h
      subst h
      refine ⟨Nat.le_refl _, red, R, C, by simp, by simp [applyReductions], by simpa using hv⟩

/-! ### `allRemovals` and the exhaustive search -/

theorem allRemovals_eq (ternary : Bool) (M : Mat) (R C : List Nat) :
    allRemovals ternary M R C =
      (R.filter (lineRemB ternary (ent M) R C)).map (fun r => (R.erase r, C)) ++
      (C.filter (lineRemB ternary (flipE (ent M)) C R)).map (fun c => (R, C.erase c)) := rfl

/-- `allRemovals` lists removals only … -/
theorem mem_allRemovals_removable {ternary : Bool} {M : Mat} {R C R' C' : List Nat}
    (h : (R', C') ∈ allRemovals ternary M R C) : Removable ternary M R C R' C' := by
  rw [allRemovals_eq, List.mem_append] at h
  rcases h with h | h
  · obtain ⟨r, hr, heq⟩ := List.mem_map.mp h
    obtain ⟨hrR, hb⟩ := List.mem_filter.mp hr
    injection heq with h1 h2
    exact removable_iff.mpr (Or.inl ⟨r, lineRemB_sound hrR hb, h1.symm, h2.symm⟩)
  · obtain ⟨c, hc, heq⟩ := List.mem_map.mp h
    obtain ⟨hcC, hb⟩ := List.mem_filter.mp hc
    injection heq with h1 h2
    exact removable_iff.mpr (Or.inr ⟨c, lineRemB_sound hcC hb, h1.symm, h2.symm⟩)

/-- … and, for duplicate-free index lists, all of them. -/
theorem mem_allRemovals_iff {ternary : Bool} {M : Mat} {R C R' C' : List Nat} (hR : R.Nodup) (hC : C.Nodup) :
    (R', C') ∈ allRemovals ternary M R C ↔ Removable ternary M R C R' C' := by
  refine ⟨mem_allRemovals_removable, fun h => ?_⟩
  rw [allRemovals_eq, List.mem_append]
  rcases removable_iff.mp h with ⟨r, hr, rfl, rfl⟩ | ⟨c, hc, rfl, rfl⟩
  · exact Or.inl (List.mem_map.mpr ⟨r, List.mem_filter.mpr ⟨hr.1, lineRemB_complete hC hr⟩, rfl⟩)
  · exact Or.inr (List.mem_map.mpr ⟨c, List.mem_filter.mpr ⟨hc.1, lineRemB_complete hR hc⟩, rfl⟩)

theorem spSearch_sound {ternary : Bool} {M : Mat} {fuel : Nat} {R C : List Nat}
    (h : spSearch ternary M fuel R C = true) : IsSP ternary M R C := by
  induction fuel generalizing R C with
  | zero =>
    simp only [spSearch, Bool.and_eq_true, List.isEmpty_iff] at h
    obtain ⟨rfl, rfl⟩ := h
    exact Reaches.refl _
  | succ fuel ih =>
    simp only [spSearch] at h
    split at h
    · rename_i he
      simp only [Bool.and_eq_true, List.isEmpty_iff] at he
      obtain ⟨rfl, rfl⟩ := he
      exact Reaches.refl _
    · obtain ⟨⟨R', C'⟩, hmem, hs⟩ := List.any_eq_true.mp h
      exact Reaches.head (mem_allRemovals_removable hmem) (ih hs)

theorem spSearch_complete {ternary : Bool} {M : Mat} {fuel : Nat} {R C : List Nat} (hR : R.Nodup) (hC : C.Nodup)
    (h : IsSP ternary M R C) (hf : R.length + C.length ≤ fuel) : spSearch ternary M fuel R C = true := by
  induction fuel generalizing R C with
  | zero =>
    have h1 : R = [] := List.eq_nil_of_length_eq_zero (by omega)
    have h2 : C = [] := List.eq_nil_of_length_eq_zero (by omega)
    subst h1 h2
    rfl
  | succ fuel ih =>
    simp only [spSearch]
    split
    · rfl
    · rename_i he
      rcases isSP_cases h with ⟨rfl, rfl⟩ | ⟨R', C', hrem, hsp⟩
      · exact absurd rfl he
      · obtain ⟨hR', hC'⟩ := hrem.nodup hR hC
        have hl := hrem.length
        exact List.any_eq_true.mpr ⟨(R', C'), (mem_allRemovals_iff hR hC).mpr hrem,
          ih (R := R') (C := C') hR' hC' hsp (by omega)⟩

/-- `spSearch` decides series-parallelness. -/
theorem spSearch_iff {ternary : Bool} {M : Mat} {m n : Nat} :
    spSearch ternary M (m + n) (List.range m) (List.range n) = true ↔ IsSP ternary M (List.range m) (List.range n) :=
  ⟨spSearch_sound, fun h => spSearch_complete List.nodup_range List.nodup_range h (by simp)⟩

/-! ### the greedy search -/

theorem findReducible_some_valid {ternary : Bool} {M : Mat} {R C : List Nat} {red : Reduction}
    (h : findReducible ternary M R C = some red) : validReduction ternary M R C red = true := by
  rw [findReducible_eq] at h
  split at h
  · rename_i x hx
    injection h with h
    subst h
    obtain ⟨r, hr, ⟨h0, rfl⟩ | ⟨c, hc, rfl⟩ | ⟨r2, hr2, hne, hcp, rfl⟩⟩ := findLineB_some hx
    · exact validReduction_rowZero hr h0
    · exact validReduction_rowUnit hr hc
    · exact validReduction_rowCopy hr hr2 hne hcp
  · obtain ⟨c, hc, ⟨h0, rfl⟩ | ⟨r, hr, rfl⟩ | ⟨c2, hc2, hne, hcp, rfl⟩⟩ := findLineB_some h
    · exact validReduction_colZero hc h0
    · exact validReduction_colUnit hc hr
    · exact validReduction_colCopy hc hc2 hne hcp

theorem findReducible_none_iff {ternary : Bool} {M : Mat} {R C : List Nat} :
    findReducible ternary M R C = none ↔
      (∀ r ∈ R, lineRemB ternary (ent M) R C r = false) ∧ (∀ c ∈ C, lineRemB ternary (flipE (ent M)) C R c = false) := by
  rw [findReducible_eq]
  split
  · rename_i x hx
    constructor
    · intro h; cases h
    · intro h
      rw [findLineB_none.mpr h.1] at hx
      cases hx
  · rename_i hx
    rw [findLineB_none] at hx ⊢
    exact ⟨fun h => ⟨hx, h⟩, fun h => h.2⟩

/-- `findReducible` fails exactly when no line is removable. -/
theorem irreducible_iff {ternary : Bool} {M : Mat} {R C : List Nat} (hR : R.Nodup) (hC : C.Nodup) :
    irreducible ternary M R C = true ↔ ¬ ∃ R' C', Removable ternary M R C R' C' := by
  unfold irreducible
  rw [Option.isNone_iff_eq_none, findReducible_none_iff]
  constructor
  · rintro ⟨h1, h2⟩ ⟨R', C', h⟩
    rcases removable_iff.mp h with ⟨r, hr, _, _⟩ | ⟨c, hc, _, _⟩
    · have := lineRemB_complete hC hr
      rw [h1 r hr.1] at this
      cases this
    · have := lineRemB_complete hR hc
      rw [h2 c hc.1] at this
      cases this
  · intro h
    constructor
    · intro r hr
      cases hb : lineRemB ternary (ent M) R C r with
      | false => rfl
      | true => exact absurd ⟨_, _, removable_iff.mpr (Or.inl ⟨r, lineRemB_sound hr hb, rfl, rfl⟩)⟩ h
    · intro c hc
      cases hb : lineRemB ternary (flipE (ent M)) C R c with
      | false => rfl
      | true => exact absurd ⟨_, _, removable_iff.mpr (Or.inr ⟨c, lineRemB_sound hc hb, rfl, rfl⟩)⟩ h

/-- the direction of `irreducible_iff` that needs no hypothesis on the index lists -/
theorem irreducible_of_not_removable {ternary : Bool} {M : Mat} {R C : List Nat}
    (h : ¬ ∃ R' C', Removable ternary M R C R' C') : irreducible ternary M R C = true := by
  unfold irreducible
  cases hf : findReducible ternary M R C with
  | none => rfl
  | some red => exact absurd ⟨_, _, validReduction_removable (findReducible_some_valid hf)⟩ h

theorem spReduce_reaches {ternary : Bool} {M : Mat} {fuel : Nat} {R C R' C' : List Nat}
    (h : spReduce ternary M fuel R C = (R', C')) : Reaches ternary M (R, C) (R', C') := by
  induction fuel generalizing R C with
  | zero =>
    simp only [spReduce] at h
    rw [h]; exact Reaches.refl _
  | succ fuel ih =>
    simp only [spReduce] at h
    split at h
    · rw [h]; exact Reaches.refl _
    · rename_i red hf
      exact Reaches.head (validReduction_removable (findReducible_some_valid hf)) (ih h)

/-- with enough fuel the greedy sequence is maximal -/
theorem spReduce_irreducible {ternary : Bool} {M : Mat} {fuel : Nat} {R C R' C' : List Nat}
    (h : spReduce ternary M fuel R C = (R', C')) (hf : R.length + C.length ≤ fuel) :
    irreducible ternary M R' C' = true := by
  induction fuel generalizing R C with
  | zero =>
    simp only [spReduce] at h
    injection h with h1 h2
    subst h1 h2
    have h1 : R = [] := List.eq_nil_of_length_eq_zero (by omega)
    have h2 : C = [] := List.eq_nil_of_length_eq_zero (by omega)
    subst h1 h2
    rfl
  | succ fuel ih =>
    simp only [spReduce] at h
    split at h
    · rename_i hf
      injection h with h1 h2
      subst h1 h2
      simp [irreducible, hf]
    · rename_i red hfr
      have hl := (validReduction_removable (findReducible_some_valid hfr)).length
      exact ih h (by omega)

theorem isSPgreedy_sound {ternary : Bool} {m n : Nat} {M : Mat} (h : isSPgreedy ternary m n M = true) :
    IsSP ternary M (List.range m) (List.range n) := by
  unfold isSPgreedy at h
  cases hs : spReduce ternary M (m + n) (List.range m) (List.range n) with
  | mk R' C' =>
    rw [hs] at h
    simp only [Bool.and_eq_true, List.isEmpty_iff] at h
    obtain ⟨rfl, rfl⟩ := h
    exact spReduce_reaches hs

/-! ### confluence -/

/-- Sub-index-sets of a series-parallel matrix are series-parallel (special case of `Cmr.SPE.embed`: signed embeddings
preserve series-parallelness). -/
theorem isSP_mono {ternary : Bool} {M : Mat} {R C R' C' : List Nat} (h : IsSP ternary M R C)
    (hR' : R'.Nodup) (hC' : C'.Nodup) (hR : ∀ x ∈ R', x ∈ R) (hC : ∀ y ∈ C', y ∈ C) : IsSP ternary M R' C' :=
  isSP_iff_SPE.mpr ((isSP_iff_SPE.mp h).mono hR' hC' hR hC)

/-- Series-parallelness is invariant under renaming lines and scaling them by signs (`-1` only if ternary). -/
theorem isSP_embed {ternary : Bool} {M M' : Mat} {R C R' C' : List Nat} {f g : Nat → Nat} {s u : Nat → Int}
    (h : IsSP ternary M R C) (hR' : R'.Nodup) (hC' : C'.Nodup)
    (emb : Emb ternary (ent M') R' C' (ent M) R C f g s u) : IsSP ternary M' R' C' :=
  isSP_iff_SPE.mpr ((isSP_iff_SPE.mp h).embed hR' hC' emb)

/-- Removing any removable line from a series-parallel matrix leaves a series-parallel matrix. -/
theorem isSP_hereditary {ternary : Bool} {M : Mat} {R C R' C' : List Nat} (hR : R.Nodup) (hC : C.Nodup)
    (h : IsSP ternary M R C) (hrem : Removable ternary M R C R' C') : IsSP ternary M R' C' :=
  isSP_mono h (hrem.nodup hR hC).1 (hrem.nodup hR hC).2 hrem.subset.1 hrem.subset.2

theorem isSP_reaches {ternary : Bool} {M : Mat} {R C R1 C1 : List Nat} (hR : R.Nodup) (hC : C.Nodup)
    (h : IsSP ternary M R C) (hreach : Reaches ternary M (R, C) (R1, C1)) : IsSP ternary M R1 C1 := by
  obtain ⟨h1, h2, h3, h4⟩ := hreach.nodup_subset hR hC
  exact isSP_mono h h1 h2 h3 h4

/-- **Confluence**: the verdict does not depend on the order of the reductions — any maximal removal sequence ends in
the empty matrix iff the matrix is series-parallel. -/
theorem sp_confluent {ternary : Bool} {M : Mat} {R C R1 C1 : List Nat} (hR : R.Nodup) (hC : C.Nodup)
    (hreach : Reaches ternary M (R, C) (R1, C1)) (hirr : ¬ ∃ R' C', Removable ternary M R1 C1 R' C') :
    IsSP ternary M R C ↔ (R1 = [] ∧ C1 = []) := by
  constructor
  · intro h
    rcases isSP_cases (isSP_reaches hR hC h hreach) with h | ⟨R', C', hrem, _⟩
    · exact h
    · exact absurd ⟨R', C', hrem⟩ hirr
  · rintro ⟨rfl, rfl⟩
    exact hreach

/-- Hence the greedy search decides series-parallelness … -/
theorem isSPgreedy_iff {ternary : Bool} {m n : Nat} {M : Mat} :
    isSPgreedy ternary m n M = true ↔ IsSP ternary M (List.range m) (List.range n) := by
  refine ⟨isSPgreedy_sound, fun h => ?_⟩
  unfold isSPgreedy
  cases hs : spReduce ternary M (m + n) (List.range m) (List.range n) with
  | mk R' C' =>
    have hreach := spReduce_reaches hs
    obtain ⟨h1, h2, _, _⟩ := hreach.nodup_subset List.nodup_range List.nodup_range
    have hirr := (irreducible_iff h1 h2).mp (spReduce_irreducible hs (by simp))
    obtain ⟨rfl, rfl⟩ := (sp_confluent List.nodup_range List.nodup_range hreach hirr).mp h
    rfl

/-- … and the judge's consistency check "greedy = exhaustive" can never fire. -/
theorem isSPgreedy_eq_spSearch (ternary : Bool) (m n : Nat) (M : Mat) :
    isSPgreedy ternary m n M = spSearch ternary M (m + n) (List.range m) (List.range n) := by
  rw [Bool.eq_iff_iff, isSPgreedy_iff, spSearch_iff]

/-- What the judge checks on a reported reduction list: if it is accepted and leaves an irreducible remainder, then the
remainder is empty iff the matrix is series-parallel. -/
theorem applyReductions_verdict {ternary : Bool} {m n : Nat} {M : Mat} {reds : List Reduction} {R' C' : List Nat}
    (h : applyReductions ternary M (List.range m) (List.range n) reds 0 = .ok (R', C'))
    (hirr : irreducible ternary M R' C' = true) :
    (R'.isEmpty && C'.isEmpty) = isSPgreedy ternary m n M := by
  have hreach := applyReductions_reaches h
  obtain ⟨h1, h2, _, _⟩ := hreach.nodup_subset List.nodup_range List.nodup_range
  have := sp_confluent List.nodup_range List.nodup_range hreach ((irreducible_iff h1 h2).mp hirr)
  rw [Bool.eq_iff_iff, isSPgreedy_iff, this]
  simp [List.isEmpty_iff]

/-! ### violators are irreducible -/

/-- the ternary `M_2` violators (2×2, no zero, determinant ±2) have no removable line -/
theorem m2_irreducible {V : Mat} (h : isSPViolator true V 2 = true) : irreducible true V [0, 1] [0, 1] = true := by
  simp only [isSPViolator, beq_self_eq_true, if_true, Bool.true_and, Bool.and_eq_true, List.all_eq_true,
    List.mem_range, bne_iff_ne, ne_eq, Bool.or_eq_true, beq_iff_eq] at h
  obtain ⟨hnz, hdet⟩ := h
  have h00 := hnz 0 (by omega) 0 (by omega)
  have h01 := hnz 0 (by omega) 1 (by omega)
  have h10 := hnz 1 (by omega) 0 (by omega)
  have h11 := hnz 1 (by omega) 1 (by omega)
  apply irreducible_of_not_removable
  rintro ⟨R', C', hrem⟩
  rcases removable_iff.mp hrem with ⟨r, hr, _, _⟩ | ⟨c, hc, _, _⟩
  · exact two_by_two_not_rem h00 h01 h10 h11 (by omega) r hr
  · refine two_by_two_not_rem (E := flipE (ent V)) h00 h10 h01 h11 ?_ c hc
    show ent V 0 0 * ent V 1 1 - ent V 1 0 * ent V 0 1 ≠ 0
    rw [Int.mul_comm (ent V 1 0)]
    omega

/-- a matrix whose support is a single cycle of length `k ≥ 3` admits no reduction -/
theorem cycle_irreducible {ternary : Bool} {V : Mat} {k : Nat} (h : isCycleSupport V k = true) (hk : k ≥ 3) :
    irreducible ternary V (List.range k) (List.range k) = true := by
  obtain ⟨_, hcyc⟩ := isCycleSupport_cycE h
  apply irreducible_of_not_removable
  rintro ⟨R', C', hrem⟩
  rcases removable_iff.mp hrem with ⟨r, hr, _, _⟩ | ⟨c, hc, _, _⟩
  · exact hcyc.not_lineRem_row hk r hr
  · exact hcyc.not_lineRem_col hk c hc

/-- hence such matrices are not series-parallel -/
theorem cycle_not_isSP {ternary : Bool} {V : Mat} {k : Nat} (h : isCycleSupport V k = true) (hk : k ≥ 3) :
    ¬ IsSP ternary V (List.range k) (List.range k) := by
  intro hsp
  have hirr := (irreducible_iff List.nodup_range List.nodup_range).mp (cycle_irreducible (ternary := ternary) h hk)
  rcases isSP_cases hsp with ⟨h1, _⟩ | ⟨R', C', hrem, _⟩
  · have : (List.range k).length = 0 := by rw [h1]; rfl
    simp at this; omega
  · exact hirr ⟨R', C', hrem⟩

/-- the `M_3'` patterns (3×3, exactly two zeros, in different rows and different columns) have no removable line -/
theorem m3prime_irreducible {ternary : Bool} {V : Mat} (h : isM3prime V = true) :
    irreducible ternary V (List.range 3) (List.range 3) = true := by
  have hm := isM3prime_m3E h
  apply irreducible_of_not_removable
  rintro ⟨R', C', hrem⟩
  rcases removable_iff.mp hrem with ⟨r, hr, _, _⟩ | ⟨c, hc, _, _⟩
  · exact hm.not_lineRem r hr
  · exact hm.flip.not_lineRem c hc

/-- Every matrix accepted by `isSPViolator` is irreducible (and non-empty): a reported violator certifies that its
index sets cannot be reduced further, whatever the signs of the entries. -/
theorem violator_irreducible {ternary : Bool} {V : Mat} {k : Nat} (h : isSPViolator ternary V k = true) :
    2 ≤ k ∧ irreducible ternary V (List.range k) (List.range k) = true := by
  unfold isSPViolator at h
  split at h
  · rename_i hk
    have hk2 : k = 2 := by simpa using hk
    subst hk2
    have ht : ternary = true := by
      cases ternary
      · simp at h
      · rfl
    subst ht
    refine ⟨Nat.le_refl _, ?_⟩
    have : isSPViolator true V 2 = true := by
      unfold isSPViolator
      simpa using h
    exact m2_irreducible this
  · split at h
    · rename_i hk3
      have hk3' : k = 3 := by simpa using hk3
      subst hk3'
      refine ⟨by omega, ?_⟩
      rcases Bool.or_eq_true _ _ ▸ h with h | h
      · exact m3prime_irreducible h
      · exact cycle_irreducible h (Nat.le_refl _)
    · rename_i hk2 hk3
      have hc := (isCycleSupport_cycE h).1
      have hk2' : k ≠ 2 := by simpa using hk2
      have hk3' : k ≠ 3 := by simpa using hk3
      exact ⟨hc, cycle_irreducible h (by omega)⟩

/-- … so a matrix restricted to the lines of a violator is not series-parallel, and neither is any duplicate-free
pair of index lists containing lines on which the matrix looks like a violator (`isSP_mono`). -/
theorem violator_not_isSP {ternary : Bool} {V : Mat} {k : Nat} (h : isSPViolator ternary V k = true) :
    ¬ IsSP ternary V (List.range k) (List.range k) := by
  obtain ⟨hk, hirr⟩ := violator_irreducible h
  intro hsp
  rcases isSP_cases hsp with ⟨h1, _⟩ | ⟨R', C', hrem, _⟩
  · have : (List.range k).length = 0 := by rw [h1]; rfl
    simp at this; omega
  · exact (irreducible_iff List.nodup_range List.nodup_range).mp hirr ⟨R', C', hrem⟩

theorem ent_sub {M : Mat} {rs cs : List Nat} {i j : Nat} (hi : i < rs.length) (hj : j < cs.length) :
    ent (sub M rs cs) i j = ent M (rs.getD i 0) (cs.getD j 0) := by
  simp [ent, sub, List.getD_eq_getElem?_getD, List.getElem?_map, List.getElem?_eq_getElem hi,
    List.getElem?_eq_getElem hj]

/-- **A reported violator certifies "not series-parallel"**: if the submatrix on duplicate-free lines `rs ⊆ R`,
`cs ⊆ C` passes `isSPViolator`, then `(R, C)` is not series-parallel. -/
theorem violator_certifies {ternary : Bool} {M : Mat} {R C rs cs : List Nat} (hrs : rs.Nodup) (hcs : cs.Nodup)
    (hlen : rs.length = cs.length) (hsubR : ∀ x ∈ rs, x ∈ R) (hsubC : ∀ y ∈ cs, y ∈ C)
    (h : isSPViolator ternary (sub M rs cs) rs.length = true) : ¬ IsSP ternary M R C := by
  intro hsp
  refine violator_not_isSP h (isSP_embed (f := fun i => rs.getD i 0) (g := fun j => cs.getD j 0)
    (s := fun _ => 1) (u := fun _ => 1) hsp List.nodup_range List.nodup_range ?_)
  have getR : ∀ i, (hi : i < rs.length) → rs.getD i 0 = rs[i] := by
    intro i hi; simp [List.getD_eq_getElem?_getD, List.getElem?_eq_getElem hi]
  have getC : ∀ j, (hj : j < cs.length) → cs.getD j 0 = cs[j] := by
    intro j hj; simp [List.getD_eq_getElem?_getD, List.getElem?_eq_getElem hj]
  exact
    { mapR := fun i hi => by
        have hi' := List.mem_range.mp hi
        show rs.getD i 0 ∈ R
        rw [getR i hi']; exact hsubR _ (List.getElem_mem hi')
      mapC := fun j hj => by
        have hj' : j < cs.length := hlen ▸ List.mem_range.mp hj
        show cs.getD j 0 ∈ C
        rw [getC j hj']; exact hsubC _ (List.getElem_mem hj')
      injR := fun i hi i' hi' he => by
        have h1 := List.mem_range.mp hi
        have h2 := List.mem_range.mp hi'
        exact (List.getD_inj h1 h2 hrs).mp he
      injC := fun j hj j' hj' he => by
        have h1 : j < cs.length := hlen ▸ List.mem_range.mp hj
        have h2 : j' < cs.length := hlen ▸ List.mem_range.mp hj'
        exact (List.getD_inj h1 h2 hcs).mp he
      sgnR := fun _ => Or.inl rfl
      sgnC := fun _ => Or.inl rfl
      ent := fun i hi j hj => by
        rw [ent_sub (List.mem_range.mp hi) (hlen ▸ List.mem_range.mp hj)]
        simp }

/-! ### non-vacuity -/

/-- Non-vacuity: a series-parallel matrix (both deciders agree), the 3×3 cycle (not series-parallel, a violator,
irreducible), an accepted and a rejected reduction list, a 2-separation. -/
example : let M : Mat := [[1, 1, 0], [1, 1, 0], [0, 1, -1]]
    spSearch true M 6 (List.range 3) (List.range 3) = true ∧ isSPgreedy true 3 3 M = true ∧
    spReduce true M 6 (List.range 3) (List.range 3) = ([], []) := by
  decide

example : let W : Mat := [[1, 1, 0], [0, 1, 1], [1, 0, 1]]
    spSearch true W 6 (List.range 3) (List.range 3) = false ∧ isSPgreedy true 3 3 W = false ∧
    isCycleSupport W 3 = true ∧ isSPViolator true W 3 = true ∧ isSPViolator false W 3 = true ∧
    irreducible true W (List.range 3) (List.range 3) = true ∧
    isSPViolator true [[1, 1], [1, -1]] 2 = true ∧ isSPViolator false [[1, 1], [1, -1]] 2 = false ∧
    isSPViolator true [[1, 1, 0], [1, 1, 1], [0, 1, 1]] 3 = true := by
  decide

example : let M : Mat := [[1, 1, 0], [1, 1, 0], [0, 1, -1]]
    -- row 0 is a copy of row 1; column 0 is then a unit column (nonzero in row 1); column 2 is a unit column (row 2)
    applyReductions true M (List.range 3) (List.range 3) [⟨-1, -2⟩, ⟨1, -2⟩, ⟨3, -3⟩] 0 = .ok ([1, 2], [1]) ∧
    -- … after which column 1 is not a unit column
    applyReductions true M (List.range 3) (List.range 3) [⟨-1, -2⟩, ⟨1, -2⟩, ⟨2, -2⟩] 0 = .error 2 ∧
    -- a negated copy is accepted in the ternary case only
    validReduction true [[1, -1], [-1, 1]] [0, 1] [0, 1] ⟨-1, -2⟩ = true ∧
    validReduction false [[1, -1], [-1, 1]] [0, 1] [0, 1] ⟨-1, -2⟩ = false :=
  ⟨rfl, rfl, by decide, by decide⟩

example : let M : Mat := [[1, 1, 0, 0], [1, -1, 0, 0], [0, 1, 1, 1], [0, 1, 1, -1]]
    is2Separation M [0, 1] [0, 1] [2, 3] [2, 3] = true ∧ is2Separation M [0, 1] [0] [2, 3] [1, 2, 3] = true ∧
    is2Separation M [0, 1] [2, 3] [2, 3] [0, 1] = false ∧ is2Separation M [0] [] [1, 2, 3] [0, 1, 2, 3] = false ∧
    rankLE1 M [2, 3] [0, 1] = true ∧ rankLE1 M [0, 1] [0, 1] = false := by
  decide

end Cmr.Props.C08
