/-
  Property C10 (extension) — the `sumRel` table entries for the class `reg` (regular = 0/1 with a TU signing):
    * `sumRel "1" 2 .reg = .both`   : a 1-sum is regular iff every summand is (`sum1_reg`, `compose1_reg_list`);
    * `sumRel "2" 2 .reg = .closed` : the binary 2-sum of regular matrices is regular, in both layouts
                                      (`sum2a_reg`, `sum2b_reg`).

  Route: `isRegular_iff_signs` (RelLemmas, from `C02.isRegular_iff`) reads regularity entrywise.
  1-sum: `⇒` each block is a submatrix (`isRegular_sub`); `⇐` the block-diagonal matrix of TU signings of the blocks is
  a TU signing (`isTU_blockDiag`).
  2-sum: for TU signings `S1`, `S2` of the operands, the GF(3) 2-sum of `S1`, `S2` (same special row/column) is TU
  (`C12.compose2a_TU`, `C12.compose2b_TU`) and signs the binary 2-sum of the operands entry by entry: an entry of a
  2-sum is an entry of an operand or a product `d_i · c_j`, and products of signed values sign the product
  (`signedBy_mul`); no reduction mod 2 / mod 3 changes such a value.
  The operands are assumed well-formed (`Mat.wf`): `isRegular` inspects every stored entry, not only the `m × n` window.
-/
import CmrProofs.Props.C10

set_option linter.unusedSimpArgs false
set_option linter.unusedVariables false

namespace Cmr.Props.C10Sums
open Cmr Matrix Cmr.Props.C02

/-! ## 0. The table entries -/

theorem sumRel_reg : sumRel "1" 2 .reg = .both ∧ sumRel "2" 2 .reg = .closed := by decide

/-! ## 1. Entry-level facts on signings -/

/-- admissible signed value `s` of the 0/1 value `a` -/
def SignedBy (a s : Int) : Prop := if a = 0 then s = 0 else (s = 1 ∨ s = -1)

theorem signedBy_zero : SignedBy 0 0 := by simp [SignedBy]

theorem signedBy_ternary {a s : Int} (h : SignedBy a s) : s = 0 ∨ s = 1 ∨ s = -1 := by
  unfold SignedBy at h
  split_ifs at h with h0
  · exact Or.inl h
  · exact Or.inr h

/-- reduction does not disturb a signed 0/1 entry -/
theorem signedBy_norm {a s : Int} (ha : a = 0 ∨ a = 1) (h : SignedBy a s) :
    SignedBy (normChar 2 a) (normChar 3 s) := by
  rw [C12.normChar_two_of_binary ha, C12.normChar_three_of_ternary (signedBy_ternary h)]
  exact h

/-- the product of signed values signs the product -/
theorem signedBy_mul {a b s t : Int} (ha : a = 0 ∨ a = 1) (hb : b = 0 ∨ b = 1) (hs : SignedBy a s)
    (ht : SignedBy b t) : SignedBy (a * b) (s * t) := by
  unfold SignedBy at *
  rcases ha with rfl | rfl <;> rcases hb with rfl | rfl <;> simp at hs ht ⊢
  · simp [hs]
  · simp [hs]
  · simp [ht]
  · rcases hs with rfl | rfl <;> rcases ht with rfl | rfl <;> simp

theorem signedBy_norm_mul {a b s t : Int} (ha : a = 0 ∨ a = 1) (hb : b = 0 ∨ b = 1) (hs : SignedBy a s)
    (ht : SignedBy b t) : SignedBy (normChar 2 (a * b)) (normChar 3 (s * t)) :=
  signedBy_norm (C12.binary_mul ha hb) (signedBy_mul ha hb hs ht)

theorem signs_iff {m n : Nat} {S M : Mat} :
    Signs m n S M ↔ ∀ i, i < m → ∀ j, j < n → SignedBy (ent M i j) (ent S i j) := Iff.rfl

/-! ## 2. 1-sums -/

/-- **Block-diagonal matrices**: regular iff both blocks are. -/
theorem blockDiag_reg {m1 n1 m2 n2 : Nat} {A B : Mat} (hA : A.wf m1 n1 = true) (hB : B.wf m2 n2 = true) :
    isRegular (n1 + n2) (blockMat m1 n1 m2 n2 (fun i j => ent A i j) (fun _ _ => 0) (fun _ _ => 0)
      (fun i j => ent B i j)) = true ↔ isRegular n1 A = true ∧ isRegular n2 B = true := by
  have hwf := Cmr.blockMat_wf m1 n1 m2 n2 (fun i j => ent A i j) (fun _ _ => 0) (fun _ _ => 0) (fun i j => ent B i j)
  constructor
  · intro h
    constructor
    · have := isRegular_sub hwf h (List.range m1) (List.range n1)
        (by intro x hx; simp at hx; omega) (by intro x hx; simp at hx; omega)
      rw [List.length_range] at this
      have e : sub (blockMat m1 n1 m2 n2 (fun i j => ent A i j) (fun _ _ => 0) (fun _ _ => 0)
          (fun i j => ent B i j)) (List.range m1) (List.range n1) = A := by
        have hw := wf_sub (blockMat m1 n1 m2 n2 (fun i j => ent A i j) (fun _ _ => 0) (fun _ _ => 0)
          (fun i j => ent B i j)) (List.range m1) (List.range n1)
        simp only [List.length_range] at hw
        apply mat_ext hw hA
        intro i hi j hj
        rw [ent_sub _ _ _ (by simpa using hi) (by simpa using hj)]
        simp only [List.getElem_range]
        exact ent_blockMat_tl _ _ _ _ _ _ _ _ hi hj
      rwa [e] at this
    · have := isRegular_sub hwf h ((List.range m2).map (m1 + ·)) ((List.range n2).map (n1 + ·))
        (by intro x hx; simp at hx; omega) (by intro x hx; simp at hx; omega)
      rw [List.length_map, List.length_range] at this
      have e : sub (blockMat m1 n1 m2 n2 (fun i j => ent A i j) (fun _ _ => 0) (fun _ _ => 0)
          (fun i j => ent B i j)) ((List.range m2).map (m1 + ·)) ((List.range n2).map (n1 + ·)) = B := by
        have hw := wf_sub (blockMat m1 n1 m2 n2 (fun i j => ent A i j) (fun _ _ => 0) (fun _ _ => 0)
          (fun i j => ent B i j)) ((List.range m2).map (m1 + ·)) ((List.range n2).map (n1 + ·))
        simp only [List.length_range, List.length_map] at hw
        apply mat_ext hw hB
        intro i hi j hj
        rw [ent_sub _ _ _ (by simpa using hi) (by simpa using hj)]
        simp only [List.getElem_map, List.getElem_range]
        exact ent_blockMat_br _ _ _ _ _ _ _ _ hi hj
      rwa [e] at this
  · rintro ⟨h1, h2⟩
    obtain ⟨hb1, S1, hS1, hsig1, hTU1⟩ := (isRegular_iff_signs hA).mp h1
    obtain ⟨hb2, S2, hS2, hsig2, hTU2⟩ := (isRegular_iff_signs hB).mp h2
    rw [isRegular_iff_signs hwf]
    refine ⟨?_, blockMat m1 n1 m2 n2 (fun i j => ent S1 i j) (fun _ _ => 0) (fun _ _ => 0) (fun i j => ent S2 i j),
      Cmr.blockMat_wf _ _ _ _ _ _ _ _, ?_, (isTU_blockDiag m1 n1 m2 n2 S1 S2).mpr ⟨hTU1, hTU2⟩⟩
    · intro i hi j hj
      rw [Cmr.ent_blockMat _ _ _ _ _ _ _ _ hi hj]
      by_cases h1 : i < m1 <;> by_cases h2 : j < n1 <;> simp only [h1, h2, if_true, if_false]
      · exact hb1 i h1 j h2
      · first | exact Or.inl rfl | exact Or.inl trivial
      · first | exact Or.inl rfl | exact Or.inl trivial
      · exact hb2 _ (by omega) _ (by omega)
    · intro i hi j hj
      rw [Cmr.ent_blockMat _ _ _ _ _ _ _ _ hi hj, Cmr.ent_blockMat _ _ _ _ _ _ _ _ hi hj]
      by_cases h1 : i < m1 <;> by_cases h2 : j < n1 <;> simp only [h1, h2, if_true, if_false]
      · exact hsig1 i h1 j h2
      · exact hsig2 _ (by omega) _ (by omega)

/-- **1-sum of any number of matrices** (`compose1` itself): the result is regular iff every summand is. -/
theorem compose1_reg_list (l : List (Nat × Nat × Mat)) (hwf : ∀ x ∈ l, x.2.2.wf x.1 x.2.1 = true) :
    isRegular (compose1 l).2.1 (compose1 l).2.2 = true ↔ ∀ x ∈ l, isRegular x.2.1 x.2.2 = true := by
  induction l with
  | nil => simp [compose1]; decide
  | cons x rest ih =>
    obtain ⟨m, n, A⟩ := x
    have hA : A.wf m n = true := hwf (m, n, A) (List.mem_cons_self)
    have hrest : ∀ x ∈ rest, x.2.2.wf x.1 x.2.1 = true := fun x hx => hwf x (List.mem_cons_of_mem _ hx)
    simp only [compose1, List.mem_cons, forall_eq_or_imp]
    rw [← ih hrest]
    exact blockDiag_reg hA (C12.compose1_wf rest)

/-- **1-sum**: the model's `compose1` of two matrices is regular iff both summands are. -/
theorem sum1_reg (m1 n1 : Nat) (A : Mat) (m2 n2 : Nat) (B : Mat) (hA : A.wf m1 n1 = true) (hB : B.wf m2 n2 = true) :
    isRegular (compose1 [(m1, n1, A), (m2, n2, B)]).2.1 (compose1 [(m1, n1, A), (m2, n2, B)]).2.2 = true ↔
      isRegular n1 A = true ∧ isRegular n2 B = true := by
  rw [compose1_reg_list _ (by intro x hx; simp at hx; rcases hx with rfl | rfl <;> assumption)]
  simp

/-! ## 3. 2-sums -/

/-- The GF(3) 2-sum of signings of the operands signs the GF(2) 2-sum of the operands (first layout). -/
theorem sum2a_signs {m1 n1 : Nat} {M1 S1 : Mat} {m2 n2 : Nat} {M2 S2 : Mat} {r c : Nat}
    (hr : r < m1) (hc : c < n2)
    (hb1 : ∀ i, i < m1 → ∀ j, j < n1 → (ent M1 i j = 0 ∨ ent M1 i j = 1))
    (hb2 : ∀ i, i < m2 → ∀ j, j < n2 → (ent M2 i j = 0 ∨ ent M2 i j = 1))
    (hs1 : Signs m1 n1 S1 M1) (hs2 : Signs m2 n2 S2 M2) :
    Signs ((eraseIdxs (List.range m1) [r]).length + m2) (n1 + (eraseIdxs (List.range n2) [c]).length)
      (C12.sum2aResult 3 m1 n1 S1 m2 n2 S2 r c) (C12.sum2aResult 2 m1 n1 M1 m2 n2 M2 r c) := by
  unfold C12.sum2aResult
  set rows1 := eraseIdxs (List.range m1) [r] with hrows1
  set cols2 := eraseIdxs (List.range n2) [c] with hcols2
  have hrow : ∀ i, i < rows1.length → rows1.getD i 0 < m1 := fun i hi => (getD_eraseIdxs_range m1 [r] hi).1
  have hcol : ∀ j, j < cols2.length → cols2.getD j 0 < n2 := fun j hj => (getD_eraseIdxs_range n2 [c] hj).1
  intro i hi j hj
  rw [Cmr.ent_blockMat _ _ _ _ _ _ _ _ hi hj, Cmr.ent_blockMat _ _ _ _ _ _ _ _ hi hj]
  by_cases h1 : i < rows1.length <;> by_cases h2 : j < n1 <;> simp only [h1, h2, if_true, if_false]
  · exact signedBy_norm (hb1 _ (hrow i h1) j h2) (hs1 _ (hrow i h1) j h2)
  · exact signedBy_norm_mul (hb2 _ (by omega) c hc) (hb1 r hr j h2) (hs2 _ (by omega) c hc) (hs1 r hr j h2)
  · exact signedBy_norm (hb2 _ (by omega) _ (hcol _ (by omega))) (hs2 _ (by omega) _ (hcol _ (by omega)))

/-- **Binary 2-sum `[[A,0],[d cᵀ,D]]` of regular matrices is regular.** -/
theorem sum2a_reg {m1 n1 : Nat} {M1 : Mat} {m2 n2 : Nat} {M2 : Mat} {r c : Nat} {P : Mat}
    (h : compose2a 2 m1 n1 M1 m2 n2 M2 r c = .ok P)
    (hwf1 : M1.wf m1 n1 = true) (hwf2 : M2.wf m2 n2 = true)
    (hR1 : isRegular n1 M1 = true) (hR2 : isRegular n2 M2 = true) :
    isRegular (n1 + (n2 - 1)) P = true := by
  have hPwf := C12.compose2a_wf h
  have hPb := C12.compose_entries.1 r c h
  obtain ⟨⟨hr, hc⟩, rfl⟩ := (C12.compose2a_eq_ok_iff _ _ _ _ _ _ _ _ _ _).mp h
  obtain ⟨hb1, S1, hS1, hsig1, hTU1⟩ := (isRegular_iff_signs hwf1).mp hR1
  obtain ⟨hb2, S2, hS2, hsig2, hTU2⟩ := (isRegular_iff_signs hwf2).mp hR2
  have hQ : compose2a 3 m1 n1 S1 m2 n2 S2 r c = .ok (C12.sum2aResult 3 m1 n1 S1 m2 n2 S2 r c) :=
    (C12.compose2a_eq_ok_iff _ _ _ _ _ _ _ _ _ _).mpr ⟨⟨hr, hc⟩, rfl⟩
  rw [isRegular_iff_signs hPwf]
  refine ⟨(isBinary_iff_ent hPwf).mp hPb, _, C12.compose2a_wf hQ, ?_, C12.compose2a_TU hQ hTU1 hTU2⟩
  have := sum2a_signs hr hc hb1 hb2 hsig1 hsig2
  rwa [length_eraseIdxs_one hr, length_eraseIdxs_one hc] at this

theorem sum2b_signs {m1 n1 : Nat} {M1 S1 : Mat} {m2 n2 : Nat} {M2 S2 : Mat} {c r : Nat}
    (hc : c < n1) (hr : r < m2)
    (hb1 : ∀ i, i < m1 → ∀ j, j < n1 → (ent M1 i j = 0 ∨ ent M1 i j = 1))
    (hb2 : ∀ i, i < m2 → ∀ j, j < n2 → (ent M2 i j = 0 ∨ ent M2 i j = 1))
    (hs1 : Signs m1 n1 S1 M1) (hs2 : Signs m2 n2 S2 M2) :
    Signs (m1 + (eraseIdxs (List.range m2) [r]).length) ((eraseIdxs (List.range n1) [c]).length + n2)
      (C12.sum2bResult 3 m1 n1 S1 m2 n2 S2 c r) (C12.sum2bResult 2 m1 n1 M1 m2 n2 M2 c r) := by
  unfold C12.sum2bResult
  set cols1 := eraseIdxs (List.range n1) [c] with hcols1
  set rows2 := eraseIdxs (List.range m2) [r] with hrows2
  have hcol : ∀ j, j < cols1.length → cols1.getD j 0 < n1 := fun j hj => (getD_eraseIdxs_range n1 [c] hj).1
  have hrow : ∀ i, i < rows2.length → rows2.getD i 0 < m2 := fun i hi => (getD_eraseIdxs_range m2 [r] hi).1
  intro i hi j hj
  rw [Cmr.ent_blockMat _ _ _ _ _ _ _ _ hi hj, Cmr.ent_blockMat _ _ _ _ _ _ _ _ hi hj]
  by_cases h1 : i < m1 <;> by_cases h2 : j < cols1.length <;> simp only [h1, h2, if_true, if_false]
  · exact signedBy_norm (hb1 _ h1 _ (hcol j h2)) (hs1 _ h1 _ (hcol j h2))
  · exact signedBy_norm_mul (hb1 _ h1 c hc) (hb2 r hr _ (by omega)) (hs1 _ h1 c hc) (hs2 r hr _ (by omega))
  · exact signedBy_norm (hb2 _ (hrow _ (by omega)) _ (by omega)) (hs2 _ (hrow _ (by omega)) _ (by omega))

/-- **Binary 2-sum `[[A,a bᵀ],[0,D]]` of regular matrices is regular.** -/
theorem sum2b_reg {m1 n1 : Nat} {M1 : Mat} {m2 n2 : Nat} {M2 : Mat} {c r : Nat} {P : Mat}
    (h : compose2b 2 m1 n1 M1 m2 n2 M2 c r = .ok P)
    (hwf1 : M1.wf m1 n1 = true) (hwf2 : M2.wf m2 n2 = true)
    (hR1 : isRegular n1 M1 = true) (hR2 : isRegular n2 M2 = true) :
    isRegular ((n1 - 1) + n2) P = true := by
  have hPwf := C12.compose2b_wf h
  have hPb := C12.compose_entries.2.2.1 c r h
  obtain ⟨⟨hc, hr⟩, rfl⟩ := (C12.compose2b_eq_ok_iff _ _ _ _ _ _ _ _ _ _).mp h
  obtain ⟨hb1, S1, hS1, hsig1, hTU1⟩ := (isRegular_iff_signs hwf1).mp hR1
  obtain ⟨hb2, S2, hS2, hsig2, hTU2⟩ := (isRegular_iff_signs hwf2).mp hR2
  have hQ : compose2b 3 m1 n1 S1 m2 n2 S2 c r = .ok (C12.sum2bResult 3 m1 n1 S1 m2 n2 S2 c r) :=
    (C12.compose2b_eq_ok_iff _ _ _ _ _ _ _ _ _ _).mpr ⟨⟨hc, hr⟩, rfl⟩
  rw [isRegular_iff_signs hPwf]
  refine ⟨(isBinary_iff_ent hPwf).mp hPb, _, C12.compose2b_wf hQ, ?_, C12.compose2b_TU hQ hTU1 hTU2⟩
  have := sum2b_signs hc hr hb1 hb2 hsig1 hsig2
  rwa [length_eraseIdxs_one hr, length_eraseIdxs_one hc] at this


/-! ## 4. Non-vacuity and worked instances -/

/-- `R3` is regular but not TU, so the statements below do not reduce to the TU ones. -/
def R3 : Mat := [[1, 1, 0], [0, 1, 1], [1, 0, 1]]

example : isRegular 3 R3 = true ∧ isTU 3 3 R3 = false ∧ R3.wf 3 3 = true := by decide

/-- a binary 2-sum (first layout) of `R3` (special row 2) and `[[1,1],[1,0]]` (special column 0) composes ok … -/
example : C12.okEq (compose2a 2 3 3 R3 2 2 [[1, 1], [1, 0]] 2 0) [[1, 1, 0, 0], [0, 1, 1, 0], [1, 0, 1, 1], [1, 0, 1, 0]] = true := by
  decide

/-- … and the theorem applies to it; the verdict agrees with direct evaluation of the decider. -/
example : isRegular 4 [[1, 1, 0, 0], [0, 1, 1, 0], [1, 0, 1, 1], [1, 0, 1, 0]] = true :=
  sum2a_reg (m1 := 3) (n1 := 3) (M1 := R3) (m2 := 2) (n2 := 2) (M2 := [[1, 1], [1, 0]]) (r := 2) (c := 0)
    (by decide) (by decide) (by decide) (by decide) (by decide)

example : isRegular 4 [[1, 1, 0, 0], [0, 1, 1, 0], [1, 0, 1, 1], [1, 0, 1, 0]] = true ∧
    isTU 4 4 [[1, 1, 0, 0], [0, 1, 1, 0], [1, 0, 1, 1], [1, 0, 1, 0]] = false := by decide

/-- second layout: `R3` (special column 2) and `[[1,1],[0,1]]` (special row 0) -/
example : C12.okEq (compose2b 2 3 3 R3 2 2 [[1, 1], [0, 1]] 2 0) [[1, 1, 0, 0], [0, 1, 1, 1], [1, 0, 1, 1], [0, 0, 0, 1]] = true := by
  decide

example : isRegular 4 [[1, 1, 0, 0], [0, 1, 1, 1], [1, 0, 1, 1], [0, 0, 0, 1]] = true :=
  sum2b_reg (m1 := 3) (n1 := 3) (M1 := R3) (m2 := 2) (n2 := 2) (M2 := [[1, 1], [0, 1]]) (c := 2) (r := 0)
    (by decide) (by decide) (by decide) (by decide) (by decide)

example : isRegular 4 [[1, 1, 0, 0], [0, 1, 1, 1], [1, 0, 1, 1], [0, 0, 0, 1]] = true := by decide

/-- 1-sum: `R3 ⊕ [[1]]` is regular. -/
example : (compose1 [(3, 3, R3), (1, 1, [[1]])]).2.2 = [[1, 1, 0, 0], [0, 1, 1, 0], [1, 0, 1, 0], [0, 0, 0, 1]] ∧
    isRegular 4 (compose1 [(3, 3, R3), (1, 1, [[1]])]).2.2 = true := by decide

/-- `⇒` direction used contrapositively: a summand that is not regular (here: not 0/1) makes the 1-sum not regular. -/
example : isRegular (compose1 [(3, 3, R3), (1, 1, [[-1]])]).2.1 (compose1 [(3, 3, R3), (1, 1, [[-1]])]).2.2 = false := by
  rw [Bool.eq_false_iff, Ne, sum1_reg 3 3 R3 1 1 _ (by decide) (by decide)]
  decide

/-- the 2-sum entry is claimed for the binary 2-sum only (nothing for the GF(3) 2-sum of 0/1 matrices) -/
example : sumRel "2" 3 .reg = .none ∧ sumRel "2" 2 .tu = .none := by decide

end Cmr.Props.C10Sums
