/-
  Property C15 — complement operations and the complement-TU test follow their definition.

  Model: `Cmr/Complement.lean` (`rowComplement`, `colComplement`, the one-call formula `complementRC`, `isCTU`).
  Tie: op `complement` (exact equality of `CMRctuComplementRowColumn` with `complementRC`) and op `ctu`
  (`CMRctuTest` verdict = `isCTU`, witness validated through the public complement operation and `isTU`).
-/
import CmrProofs.Lemmas.DetBridge
import Cmr.Complement

set_option linter.unusedSimpArgs false
set_option linter.unusedVariables false
set_option linter.unnecessarySeqFocus false

namespace Cmr.Props.C15
open Cmr

/-- The one-call row-and-column form equals the row complement followed by the column complement. -/
theorem complementRC_eq_row_then_col (m n : Nat) (M : Mat) (r c : Nat) (hr : r < m) (hc : c < n) :
    complementRC m n M (some r) (some c) = colComplement m n (rowComplement m n M r) c := by
  unfold complementRC colComplement
  apply ofFn_congr
  intro i hi j hj
  simp only [rowComplement, ent_ofFn _ hi hj, ent_ofFn _ hi hc, ent_ofFn _ hr hj, ent_ofFn _ hr hc]
  by_cases h1 : i = r <;> by_cases h2 : j = c <;> simp [h1, h2] <;> omega

/-- … and also the column complement followed by the row complement (the two single operations commute). -/
theorem complementRC_eq_col_then_row (m n : Nat) (M : Mat) (r c : Nat) (hr : r < m) (hc : c < n) :
    complementRC m n M (some r) (some c) = rowComplement m n (colComplement m n M c) r := by
  unfold complementRC rowComplement
  apply ofFn_congr
  intro i hi j hj
  simp only [colComplement, ent_ofFn _ hi hj, ent_ofFn _ hi hc, ent_ofFn _ hr hj, ent_ofFn _ hr hc]
  by_cases h1 : i = r <;> by_cases h2 : j = c <;> simp [h1, h2] <;> omega

/-- Complemented matrices are 0/1 matrices of the same shape. -/
theorem complementRC_wf (m n : Nat) (M : Mat) (r c : Option Nat) : (complementRC m n M r c).wf m n = true := by
  unfold complementRC rowComplement colComplement
  cases r <;> cases c <;> simp only [] <;> exact wf_ofFn _ _ _

theorem complementRC_binary (m n : Nat) (M : Mat) (hwf : M.wf m n = true) (hb : isBinary M = true)
    (r c : Option Nat) : isBinary (complementRC m n M r c) = true := by
  unfold complementRC rowComplement colComplement
  cases r <;> cases c <;> simp only [] <;> apply isBinary_ofFn <;> intro i hi j hj
  · exact ent_binary hwf hb hi hj
  · split <;> first | exact ent_binary hwf hb hi hj | omega
  · split <;> first | exact ent_binary hwf hb hi hj | omega
  · repeat' split
    all_goals first | exact ent_binary hwf hb hi hj | omega

/-- Entry-wise description used by the involution proof. -/
theorem ent_complementRC (m n : Nat) (M : Mat) (r c : Nat) {i j : Nat} (hi : i < m) (hj : j < n) :
    ent (complementRC m n M (some r) (some c)) i j =
      if i == r then (if j == c then ent M i j else (ent M i j + ent M r c) % 2)
      else if j == c then (ent M i j + ent M r c) % 2
      else (ent M i j + ent M r c + ent M r j + ent M i c) % 2 := by
  simp only [complementRC, ent_ofFn _ hi hj]

/-- Complementing twice (same row and/or column) restores a 0/1 matrix. -/
theorem complementRC_involutive (m n : Nat) (M : Mat) (hwf : M.wf m n = true) (hb : isBinary M = true)
    (r c : Option Nat) (hr : ∀ i, r = some i → i < m) (hc : ∀ j, c = some j → j < n) :
    complementRC m n (complementRC m n M r c) r c = M := by
  apply mat_ext (complementRC_wf _ _ _ _ _) hwf
  intro i hi j hj
  have e := ent_binary hwf hb hi hj
  cases r with
  | none =>
    cases c with
    | none => simp [complementRC, ent_ofFn _ hi hj]
    | some c =>
      have hc' := hc c rfl
      have e2 := ent_binary hwf hb hi hc'
      simp only [complementRC, colComplement, ent_ofFn _ hi hj, ent_ofFn _ hi hc']
      by_cases h2 : j = c <;> simp [h2] <;> omega
  | some r =>
    have hr' := hr r rfl
    have e1 := ent_binary hwf hb hr' hj
    cases c with
    | none =>
      simp only [complementRC, rowComplement, ent_ofFn _ hi hj, ent_ofFn _ hr' hj]
      by_cases h1 : i = r <;> simp [h1] <;> omega
    | some c =>
      have hc' := hc c rfl
      have e2 := ent_binary hwf hb hi hc'
      have e3 := ent_binary hwf hb hr' hc'
      rw [ent_complementRC _ _ _ _ _ hi hj, ent_complementRC _ _ _ _ _ hi hj, ent_complementRC _ _ _ _ _ hr' hc',
        ent_complementRC _ _ _ _ _ hr' hj, ent_complementRC _ _ _ _ _ hi hc']
      by_cases h1 : i = r <;> by_cases h2 : j = c <;> simp [h1, h2] <;> omega

theorem mem_complementChoices (m n : Nat) (r c : Option Nat) :
    (r, c) ∈ complementChoices m n ↔ (∀ i, r = some i → i < m) ∧ (∀ j, c = some j → j < n) := by
  unfold complementChoices
  simp only [List.mem_flatMap, List.mem_append, List.mem_map, List.mem_range, List.mem_singleton, Prod.mk.injEq]
  constructor
  · rintro ⟨r', hr', c', hc', rfl, rfl⟩
    refine ⟨?_, ?_⟩
    · intro i hi; subst hi
      rcases hr' with ⟨a, ha, h⟩ | h
      · cases h; exact ha
      · cases h
    · intro j hj; subst hj
      rcases hc' with ⟨a, ha, h⟩ | h
      · cases h; exact ha
      · cases h
  · rintro ⟨h1, h2⟩
    refine ⟨r, ?_, c, ?_, rfl, rfl⟩
    · cases r with
      | none => exact Or.inr rfl
      | some i => exact Or.inl ⟨i, h1 i rfl, rfl⟩
    · cases c with
      | none => exact Or.inr rfl
      | some j => exact Or.inl ⟨j, h2 j rfl, rfl⟩

/-- The complement-TU oracle answers yes exactly when all `(rows+1)(columns+1)` complemented matrices are totally
unimodular in Mathlib's sense. -/
theorem isCTU_iff (m n : Nat) (M : Mat) :
    isCTU m n M = true ↔
      ∀ (r c : Option Nat), (∀ i, r = some i → i < m) → (∀ j, c = some j → j < n) →
        (toMx m n (complementRC m n M r c)).IsTotallyUnimodular := by
  unfold isCTU
  simp only [List.all_eq_true]
  constructor
  · intro h r c hr hc
    have := h (r, c) ((mem_complementChoices m n r c).mpr ⟨hr, hc⟩)
    exact (isTU_iff _ _ _).mp this
  · rintro h ⟨r, c⟩ hmem
    obtain ⟨hr, hc⟩ := (mem_complementChoices m n r c).mp hmem
    exact (isTU_iff _ _ _).mpr (h r c hr hc)

/-- There are exactly `(rows+1)(columns+1)` choices. -/
theorem complementChoices_length (m n : Nat) : (complementChoices m n).length = (m + 1) * (n + 1) := by
  unfold complementChoices
  simp [List.length_flatMap, Function.comp_def, List.map_const', List.sum_replicate]
  rw [Nat.succ_mul]

/-- A 'no' witness is sound: a reported choice whose complemented matrix fails the oracle refutes CTU. -/
theorem ctu_witness_sound (m n : Nat) (M : Mat) (r c : Option Nat)
    (hr : ∀ i, r = some i → i < m) (hc : ∀ j, c = some j → j < n)
    (h : isTU m n (complementRC m n M r c) = false) : isCTU m n M = false := by
  cases hq : isCTU m n M with
  | false => rfl
  | true =>
    have := (isCTU_iff m n M).mp hq r c hr hc
    rw [← isTU_iff] at this
    rw [this] at h; cases h

/-- Non-vacuity: the hypotheses of the theorems above are met by a concrete matrix, on which the one-call form, the
two sequential forms and the involution can be evaluated. -/
example : let M : Mat := [[1, 1, 0], [1, 1, 1]]
    M.wf 2 3 = true ∧ isBinary M = true ∧
    complementRC 2 3 M (some 0) (some 0) = [[1, 0, 1], [0, 0, 1]] ∧
    colComplement 2 3 (rowComplement 2 3 M 0) 0 = [[1, 0, 1], [0, 0, 1]] ∧
    complementRC 2 3 (complementRC 2 3 M (some 0) (some 0)) (some 0) (some 0) = M ∧
    isCTU 2 3 M = true ∧ isCTU 3 3 [[1, 1, 0], [0, 1, 1], [1, 0, 1]] = false := by decide

end Cmr.Props.C15
