/-
  Property C19, scratch clause — "a result does not depend on what earlier calls left in the scratch memory".

  The recognizers take their work arrays from the environment's stack, which is not cleared between calls.  A call
  can therefore see an earlier call only through a scratch cell that it reads before writing it.  The model: a
  straight-line program over registers (all zero at entry), the input arguments and a scratch memory with arbitrary
  initial contents; the executable check `initBeforeUse` demands a `write` to an address before every `read` of it;
  the theorems say that under the check the output is a function of the inputs alone.

  Addresses are literals.  There is no control flow; a loop with an input-independent bound is its unrolling.
-/
namespace Cmr.Props.C19Init

abbrev Mem := Nat → Int      -- scratch memory (contents at entry are arbitrary)
abbrev Regs := Nat → Int     -- local variables (zero at entry)
abbrev Inputs := List Int
abbrev Output := List Int

inductive Expr where
  | lit (i : Int)
  | reg (r : Nat)
  | arg (i : Nat)
  | add (a b : Expr)
  | mul (a b : Expr)
deriving DecidableEq, Repr

def Expr.eval (inp : Inputs) (regs : Regs) : Expr → Int
  | .lit i => i
  | .reg r => regs r
  | .arg i => inp.getD i 0
  | .add a b => a.eval inp regs + b.eval inp regs
  | .mul a b => a.eval inp regs * b.eval inp regs

inductive Instr where
  | write (addr : Nat) (e : Expr)    -- scratch[addr] = e
  | read (reg : Nat) (addr : Nat)    -- reg = scratch[addr]
  | out (e : Expr)                   -- append e to the result
deriving DecidableEq, Repr

abbrev Program := List Instr

def set (f : Nat → Int) (a : Nat) (v : Int) : Nat → Int := fun x => if x = a then v else f x

structure State where
  regs : Regs
  mem : Mem
  out : Output

def exec (inp : Inputs) : Program → State → State
  | [], s => s
  | .write a e :: rest, s => exec inp rest { s with mem := set s.mem a (e.eval inp s.regs) }
  | .read r a :: rest, s => exec inp rest { s with regs := set s.regs r (s.mem a) }
  | .out e :: rest, s => exec inp rest { s with out := s.out ++ [e.eval inp s.regs] }

def entry (scratch : Mem) : State := ⟨fun _ => 0, scratch, []⟩

/-- the result of one call -/
def run (p : Program) (inp : Inputs) (scratch : Mem) : Output := (exec inp p (entry scratch)).out

/-- the scratch memory one call leaves for the next -/
def scratchAfter (p : Program) (inp : Inputs) (scratch : Mem) : Mem := (exec inp p (entry scratch)).mem

/-- two calls in sequence on one scratch memory -/
def runTwice (p : Program) (inp : Inputs) (scratch : Mem) : Output × Output :=
  (run p inp scratch, run p inp (scratchAfter p inp scratch))

/-- every `read a` is preceded, in program order, by a `write a` (`written` = addresses written so far) -/
def initAux : Program → List Nat → Bool
  | [], _ => true
  | .write a _ :: rest, written => initAux rest (a :: written)
  | .read _ a :: rest, written => written.contains a && initAux rest written
  | .out _ :: rest, written => initAux rest written

def initBeforeUse (p : Program) : Bool := initAux p []

/-- Two executions whose memories agree on the written addresses produce the same output. -/
theorem exec_out_eq (inp : Inputs) (p : Program) (written : List Nat) (regs : Regs) (m₁ m₂ : Mem) (o : Output)
    (hp : initAux p written = true) (hm : ∀ a, a ∈ written → m₁ a = m₂ a) :
    (exec inp p ⟨regs, m₁, o⟩).out = (exec inp p ⟨regs, m₂, o⟩).out := by
  induction p generalizing written regs m₁ m₂ o with
  | nil => rfl
  | cons i rest ih =>
    cases i with
    | write a e =>
      simp only [initAux] at hp
      simp only [exec]
      apply ih (a :: written) _ _ _ _ hp
      intro x hx
      simp only [set]
      by_cases hxa : x = a
      · simp [hxa]
      · simp only [hxa, if_false]
        rcases List.mem_cons.mp hx with h | h
        · exact absurd h hxa
        · exact hm x h
    | read r a =>
      simp [initAux] at hp
      simp only [exec]
      rw [hm a hp.1]
      exact ih written _ _ _ _ hp.2 hm
    | out e =>
      simp only [initAux] at hp
      simp only [exec]
      exact ih written _ _ _ _ hp hm

/-- 1. Under the check the result is independent of the scratch contents at entry. -/
theorem history_free (p : Program) (hp : initBeforeUse p = true) (inp : Inputs) (s₁ s₂ : Mem) :
    run p inp s₁ = run p inp s₂ :=
  exec_out_eq inp p [] _ s₁ s₂ [] hp (fun _ h => absurd h List.not_mem_nil)

/-- 2. Two calls in sequence on one scratch memory give the same result twice. -/
theorem repeat_same (p : Program) (hp : initBeforeUse p = true) (inp : Inputs) (s : Mem) :
    (runTwice p inp s).1 = (runTwice p inp s).2 :=
  history_free p hp inp s (scratchAfter p inp s)

/-- and a call gives the same result whatever call (program, inputs) came before it on the same scratch memory -/
theorem after_any_call (p q : Program) (hp : initBeforeUse p = true) (inp inq : Inputs) (s : Mem) :
    run p inp (scratchAfter q inq s) = run p inp s :=
  history_free p hp inp _ _

/-- reads cell 3 before anything wrote it, then overwrites it: a counter that was never reset -/
def uninit : Program :=
  [.read 0 3, .write 3 (.add (.reg 0) (.arg 0)), .read 1 3, .out (.reg 1)]

/-- writes cells 3 and 4 first, then reads them -/
def inited : Program :=
  [.write 3 (.arg 0), .write 4 (.mul (.arg 0) (.arg 1)), .read 0 3, .read 1 4,
   .write 3 (.add (.reg 0) (.reg 1)), .read 2 3, .out (.reg 2), .out (.reg 1)]

/-- 3. The read-before-write program is rejected and does give different results for two fill patterns — and
    different results in two successive calls; the write-first program is accepted. -/
theorem uninit_example_differs :
    initBeforeUse uninit = false ∧
    run uninit [5] (fun _ => 0) = [5] ∧ run uninit [5] (fun _ => 255) = [260] ∧
    run uninit [5] (fun _ => 0) ≠ run uninit [5] (fun _ => 255) ∧
    runTwice uninit [5] (fun _ => 0) = ([5], [10]) ∧
    initBeforeUse inited = true ∧
    run inited [5, 7] (fun _ => 0) = [40, 35] ∧ run inited [5, 7] (fun _ => 255) = [40, 35] := by
  decide

/-- theorem 1 applied to the accepted example -/
theorem inited_history_free (inp : Inputs) (s₁ s₂ : Mem) : run inited inp s₁ = run inited inp s₂ :=
  history_free inited (by decide) inp s₁ s₂

end Cmr.Props.C19Init
