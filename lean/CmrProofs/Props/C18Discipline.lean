/-
  Property C18, cleanup clause — "a timeout leaves the scratch stack balanced and nothing leaked".

  `C18.lean` models only the answer (unlimited result or timeout).  This file models the *exits*: a function body
  acquires scratch-stack blocks and heap objects, reads the clock at check points, and calls other bodies either
  through `CMR_CALL(x)` (`if (err) return err;` — the error leaves the body at once) or by capturing the error,
  releasing what the body owns and then returning it.  The discipline `safe` is the rule the C code follows;
  the theorems say that the rule is sufficient: under it, every exit — normal or at any injected clock read —
  restores the entry stack depth and the entry number of heap objects.

  Syntax is tree shaped (a body contains its callees inline), so everything is structurally recursive.
-/
namespace Cmr.Props.C18Discipline

/-- resource state and observable effects: outstanding scratch-stack allocations, live heap objects, work done -/
structure St where
  depth : Nat
  heap : Nat
  log : List Nat
deriving DecidableEq, Repr

/-- statements that never look at the clock and never fail -/
inductive Simple where
  | alloc            -- CMRallocStackArray
  | free             -- CMRfreeStackArray
  | new              -- CMRallocBlock / ...create
  | delete           -- CMRfreeBlock / ...free
  | work (n : Nat)   -- pure computation, recorded in the log
deriving DecidableEq, Repr

def Simple.exec : Simple → St → St
  | .alloc, s => { s with depth := s.depth + 1 }
  | .free, s => { s with depth := s.depth - 1 }
  | .new, s => { s with heap := s.heap + 1 }
  | .delete, s => { s with heap := s.heap - 1 }
  | .work n, s => { s with log := s.log ++ [n] }

def execList : List Simple → St → St
  | [], s => s
  | x :: xs, s => execList xs (x.exec s)

/-- a function body: a statement followed by the rest of the body; callees are inline -/
inductive Body where
  | done
  | simple (s : Simple) (rest : Body)
  | check (rest : Body)                                      -- clock read; `return CMR_ERROR_TIMEOUT` when it fails
  | callProp (f : Body) (rest : Body)                        -- `CMR_CALL( f(...) );`
  | callGuard (f : Body) (cleanup : List Simple) (rest : Body) -- `err = f(...); if (err) { cleanup; return err; }`
deriving DecidableEq, Repr

inductive Result where
  | ok (st : St) (reads : Nat)
  | timeout (st : St) (reads : Nat)
deriving DecidableEq, Repr

def Result.st : Result → St
  | .ok s _ => s
  | .timeout s _ => s

def Result.isTimeout : Result → Bool
  | .ok _ _ => false
  | .timeout _ _ => true

/-- run with the clock passing the limit at the `k`-th read (`reads` = clock reads so far, over all bodies) -/
def run (k : Nat) : Body → St → Nat → Result
  | .done, st, r => .ok st r
  | .simple s rest, st, r => run k rest (s.exec st) r
  | .check rest, st, r => if r + 1 ≥ k then .timeout st (r + 1) else run k rest st (r + 1)
  | .callProp f rest, st, r =>
    match run k f st r with
    | .ok st' r' => run k rest st' r'
    | .timeout st' r' => .timeout st' r'
  | .callGuard f cleanup rest, st, r =>
    match run k f st r with
    | .ok st' r' => run k rest st' r'
    | .timeout st' r' => .timeout (execList cleanup st') r'

/-- run without a time limit -/
def runU : Body → St → St
  | .done, st => st
  | .simple s rest, st => runU rest (s.exec st)
  | .check rest, st => runU rest st
  | .callProp f rest, st => runU rest (runU f st)
  | .callGuard f _ rest, st => runU rest (runU f st)

/-- clock reads of a complete run -/
def checks : Body → Nat
  | .done => 0
  | .simple _ rest => checks rest
  | .check rest => checks rest + 1
  | .callProp f rest => checks f + checks rest
  | .callGuard f _ rest => checks f + checks rest

/-- `cleanup` releases exactly `a` stack blocks and `h` heap objects and acquires nothing -/
def releases : List Simple → Nat → Nat → Bool
  | [], a, h => a == 0 && h == 0
  | .free :: xs, a, h => 0 < a && releases xs (a - 1) h
  | .delete :: xs, a, h => 0 < h && releases xs a (h - 1)
  | .work _ :: xs, a, h => releases xs a h
  | .alloc :: _, _, _ => false
  | .new :: _, _, _ => false

/-- the discipline, with `a` / `h` = stack blocks / heap objects the body acquired since its entry and still holds -/
def safeAux : Body → Nat → Nat → Bool
  | .done, a, h => a == 0 && h == 0
  | .simple .alloc rest, a, h => safeAux rest (a + 1) h
  | .simple .free rest, a, h => 0 < a && safeAux rest (a - 1) h
  | .simple .new rest, a, h => safeAux rest a (h + 1)
  | .simple .delete rest, a, h => 0 < h && safeAux rest a (h - 1)
  | .simple (.work _) rest, a, h => safeAux rest a h
  | .check rest, a, h => a == 0 && h == 0 && safeAux rest a h
  | .callProp f rest, a, h => a == 0 && h == 0 && safeAux f 0 0 && safeAux rest a h
  | .callGuard f cleanup rest, a, h => safeAux f 0 0 && releases cleanup a h && safeAux rest a h

def safe (b : Body) : Bool := safeAux b 0 0

/-! ### the limited run is the unlimited run or a timeout -/

theorem run_refines (k : Nat) (b : Body) (st : St) (r : Nat) :
    (run k b st r).isTimeout = true ∨ run k b st r = .ok (runU b st) (r + checks b) := by
  induction b generalizing st r with
  | done => right; rfl
  | simple s rest ih => simpa [run, runU, checks] using ih (s.exec st) r
  | check rest ih =>
    by_cases hk : r + 1 ≥ k
    · left; simp [run, hk, Result.isTimeout]
    · have := ih st (r + 1)
      simp only [run, hk, runU, checks, if_false]
      rw [show r + (checks rest + 1) = r + 1 + checks rest by omega]
      exact this
  | callProp f rest ihf ihr =>
    simp only [run, runU, checks]
    rcases ihf st r with h | h
    · left
      cases hf : run k f st r with
      | ok s' r' => rw [hf] at h; simp [Result.isTimeout] at h
      | timeout s' r' => rfl
    · rw [h]
      simpa [Nat.add_assoc] using ihr (runU f st) (r + checks f)
  | callGuard f c rest ihf ihr =>
    simp only [run, runU, checks]
    rcases ihf st r with h | h
    · left
      cases hf : run k f st r with
      | ok s' r' => rw [hf] at h; simp [Result.isTimeout] at h
      | timeout s' r' => rfl
    · rw [h]
      simpa [Nat.add_assoc] using ihr (runU f st) (r + checks f)

theorem run_no_timeout (k : Nat) (b : Body) (st : St) (r : Nat) (hk : r + checks b < k) :
    run k b st r = .ok (runU b st) (r + checks b) := by
  induction b generalizing st r with
  | done => rfl
  | simple s rest ih => simpa [run, runU, checks] using ih (s.exec st) r (by simpa [checks] using hk)
  | check rest ih =>
    have h1 : ¬ (r + 1 ≥ k) := by simp only [checks] at hk; omega
    have := ih st (r + 1) (by simp only [checks] at hk; omega)
    simp only [run, h1, runU, checks, if_false]
    rw [show r + (checks rest + 1) = r + 1 + checks rest by omega]
    exact this
  | callProp f rest ihf ihr =>
    simp only [checks] at hk
    simp only [run, runU, checks]
    rw [ihf st r (by omega)]
    simpa [Nat.add_assoc] using ihr (runU f st) (r + checks f) (by omega)
  | callGuard f c rest ihf ihr =>
    simp only [checks] at hk
    simp only [run, runU, checks]
    rw [ihf st r (by omega)]
    simpa [Nat.add_assoc] using ihr (runU f st) (r + checks f) (by omega)

/-! ### under the discipline every exit restores the entry resources -/

theorem releases_restores (c : List Simple) (a h d0 h0 : Nat) (st : St)
    (hc : releases c a h = true) (hd : st.depth = d0 + a) (hh : st.heap = h0 + h) :
    (execList c st).depth = d0 ∧ (execList c st).heap = h0 := by
  induction c generalizing a h st with
  | nil =>
    simp [releases] at hc
    obtain ⟨ha, hh'⟩ := hc
    subst ha; subst hh'
    exact ⟨hd, hh⟩
  | cons x xs ih =>
    cases x with
    | alloc => simp [releases] at hc
    | new => simp [releases] at hc
    | free =>
      simp [releases] at hc
      exact ih (a - 1) h (Simple.exec .free st) hc.2 (by simp [Simple.exec]; omega) (by simpa [Simple.exec] using hh)
    | delete =>
      simp [releases] at hc
      exact ih a (h - 1) (Simple.exec .delete st) hc.2 (by simpa [Simple.exec] using hd) (by simp [Simple.exec]; omega)
    | work n =>
      simp [releases] at hc
      exact ih a h (Simple.exec (.work n) st) hc (by simpa [Simple.exec] using hd) (by simpa [Simple.exec] using hh)

/-- The invariant: whatever way a disciplined body ends, it ends with the resources it was entered with. -/
theorem safeAux_exit (k : Nat) (b : Body) (a h d0 h0 : Nat) (st : St) (r : Nat)
    (hs : safeAux b a h = true) (hd : st.depth = d0 + a) (hh : st.heap = h0 + h) :
    (run k b st r).st.depth = d0 ∧ (run k b st r).st.heap = h0 := by
  induction b generalizing a h d0 h0 st r with
  | done =>
    simp [safeAux] at hs
    obtain ⟨ha, hh'⟩ := hs
    subst ha; subst hh'
    exact ⟨hd, hh⟩
  | simple s rest ih =>
    cases s with
    | alloc =>
      simp only [safeAux] at hs
      exact ih (a + 1) h d0 h0 _ r hs (by simp [Simple.exec]; omega) (by simpa [Simple.exec] using hh)
    | free =>
      simp [safeAux] at hs
      exact ih (a - 1) h d0 h0 _ r hs.2 (by simp [Simple.exec]; omega) (by simpa [Simple.exec] using hh)
    | new =>
      simp only [safeAux] at hs
      exact ih a (h + 1) d0 h0 _ r hs (by simpa [Simple.exec] using hd) (by simp [Simple.exec]; omega)
    | delete =>
      simp [safeAux] at hs
      exact ih a (h - 1) d0 h0 _ r hs.2 (by simpa [Simple.exec] using hd) (by simp [Simple.exec]; omega)
    | work n =>
      simp only [safeAux] at hs
      exact ih a h d0 h0 _ r hs (by simpa [Simple.exec] using hd) (by simpa [Simple.exec] using hh)
  | check rest ih =>
    simp [safeAux] at hs
    obtain ⟨⟨ha, hh'⟩, hrest⟩ := hs
    by_cases hk : r + 1 ≥ k
    · subst ha; subst hh'
      simp only [run, hk, if_true, Result.st]
      exact ⟨hd, hh⟩
    · simp only [run, hk, if_false]
      exact ih a h d0 h0 st (r + 1) hrest hd hh
  | callProp f rest ihf ihr =>
    simp [safeAux] at hs
    obtain ⟨⟨⟨ha, hh'⟩, hf⟩, hrest⟩ := hs
    subst ha; subst hh'
    have hF := ihf 0 0 d0 h0 st r hf hd hh
    simp only [run]
    cases hrun : run k f st r with
    | ok s' r' =>
      rw [hrun] at hF
      exact ihr 0 0 d0 h0 s' r' hrest hF.1 hF.2
    | timeout s' r' =>
      rw [hrun] at hF
      exact hF
  | callGuard f c rest ihf ihr =>
    simp [safeAux] at hs
    obtain ⟨⟨hf, hc⟩, hrest⟩ := hs
    have hF := ihf 0 0 st.depth st.heap st r hf rfl rfl
    simp only [run]
    cases hrun : run k f st r with
    | ok s' r' =>
      rw [hrun] at hF
      exact ihr a h d0 h0 s' r' hrest (hF.1.trans hd) (hF.2.trans hh)
    | timeout s' r' =>
      rw [hrun] at hF
      exact releases_restores c a h d0 h0 s' hc (hF.1.trans hd) (hF.2.trans hh)

/-! ### the four statements -/

/-- 1. Without a timeout a disciplined body returns `ok` with exactly the entry resources (and the unlimited effects). -/
theorem safe_ok_balanced (k : Nat) (b : Body) (st : St) (reads : Nat)
    (hs : safe b = true) (hk : reads + checks b < k) :
    ∃ st', run k b st reads = .ok st' (reads + checks b) ∧
      st'.depth = st.depth ∧ st'.heap = st.heap ∧ st'.log = (runU b st).log := by
  refine ⟨runU b st, run_no_timeout k b st reads hk, ?_, ?_, rfl⟩
  · have := (safeAux_exit k b 0 0 st.depth st.heap st reads hs rfl rfl).1
    rwa [run_no_timeout k b st reads hk] at this
  · have := (safeAux_exit k b 0 0 st.depth st.heap st reads hs rfl rfl).2
    rwa [run_no_timeout k b st reads hk] at this

/-- 2. For every injection point: a timeout of a disciplined body leaves the stack depth restored and no heap object
    leaked. -/
theorem safe_timeout_clean (k : Nat) (b : Body) (st st' : St) (reads reads' : Nat)
    (hs : safe b = true) (ht : run k b st reads = .timeout st' reads') :
    st'.depth = st.depth ∧ st'.heap = st.heap := by
  have := safeAux_exit k b 0 0 st.depth st.heap st reads hs rfl rfl
  rwa [ht] at this

/-- 3. For every injection point the run is a timeout or exactly the unlimited run (state, log and reads). -/
theorem limited_refines (k : Nat) (b : Body) (st : St) (reads : Nat) :
    (∃ st' reads', run k b st reads = .timeout st' reads') ∨
      run k b st reads = .ok (runU b st) (reads + checks b) := by
  rcases run_refines k b st reads with h | h
  · left
    cases hr : run k b st reads with
    | ok s' r' => rw [hr] at h; simp [Result.isTimeout] at h
    | timeout s' r' => exact ⟨s', r', rfl⟩
  · right; exact h

/-- `alloc; CMR_CALL(f()); free` where `f` reads the clock: the pattern the discipline forbids. -/
def leaky : Body :=
  .simple .alloc (.callProp (.check .done) (.simple .free .done))

/-- 4a. The forbidden pattern really leaks (timeout at the first clock read, one block left on the stack),
    and the checker rejects it. -/
theorem unsafe_example_leaks :
    run 1 leaky ⟨0, 0, []⟩ 0 = .timeout ⟨0 + 1, 0, []⟩ 1 ∧ safe leaky = false ∧
      run 2 leaky ⟨0, 0, []⟩ 0 = .ok ⟨0, 0, []⟩ 1 := by
  decide

/-- a callee with a bare check (holding nothing), then a guarded check while holding a block -/
def inner : Body :=
  .check (.simple .alloc (.simple (.work 1)
    (.callGuard (.check .done) [.free] (.simple .free .done))))

/-- nested guarded calls: `inner` guarded, then a propagating wrapper around `inner` guarded again -/
def outer : Body :=
  .simple .new (.simple .alloc
    (.callGuard inner [.work 9, .free, .delete]
      (.simple (.work 7)
        (.callGuard (.callProp inner (.simple (.work 2) .done)) [.delete, .free]
          (.simple .free (.simple .delete (.check .done)))))))

theorem outer_safe : safe outer = true := by decide

/-- 4b. Theorem 2 applied to the accepted example: clean at every injection point, from every entry state. -/
theorem outer_timeout_clean (k : Nat) (st st' : St) (reads reads' : Nat)
    (ht : run k outer st reads = .timeout st' reads') :
    st'.depth = st.depth ∧ st'.heap = st.heap :=
  safe_timeout_clean k outer st st' reads reads' outer_safe ht

/-- the accepted example does time out at each of its five clock reads, and then not any more -/
theorem outer_timeouts :
    (List.range 8).map (fun k => (run k outer ⟨3, 2, []⟩ 0).isTimeout) =
      [true, true, true, true, true, true, false, false] ∧
    (List.range 8).all (fun k => (run k outer ⟨3, 2, []⟩ 0).st.depth == 3 &&
      (run k outer ⟨3, 2, []⟩ 0).st.heap == 2) = true := by
  decide

end Cmr.Props.C18Discipline
