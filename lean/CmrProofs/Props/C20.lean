/-
  Property C20 — sparse matrices are well-formed, and the sparse and dense views agree.

  Model: `Cmr/Csr.lean` (`Csr` = the raw `rowSlice` / `entryColumns` / `entryValues` arrays and the `numNonzeros`
  field exactly as stored, `Csr.consistent` = the well-formedness predicate, `Csr.toDense`, `Csr.ofDense`) and the
  dense operations of `Cmr/Mat.lean` that the judge composes (`transpose`, `sub`, `support`, `signedSupport`).
  Tie: the harness dumps the raw arrays of every matrix the library returns; the judge evaluates
  `Csr.consistent` on the dump and compares `Csr.toDense` of the dump with the model's dense result.

  Proved here: the predicate means what its description says (`consistent_iff` and the per-clause corollaries);
  `ofDense` always produces a consistent matrix; `toDense ∘ ofDense = id` on well-formed dense matrices and
  `ofDense ∘ toDense = id` on consistent sparse ones, so the sparse form is canonical
  (`toDense_injective_on_consistent`); and the dense algebraic laws the judge relies on.
-/
import CmrProofs.Lemmas.CsrLemmas

set_option linter.unusedSimpArgs false
set_option linter.unusedVariables false

namespace Cmr.Props.C20
open Cmr

/-- The dense image of any stored matrix has the declared shape. -/
theorem toDense_wf (A : Csr) : (A.toDense).wf A.numRows A.numCols = true := wf_ofFn _ _ _

/-- Entry `(i,j)` of the dense image is the value found at column `j` in the stored row `i`. -/
theorem ent_toDense (A : Csr) (i j : Nat) (hi : i < A.numRows) (hj : j < A.numCols) :
    ent A.toDense i j = lookupCol (A.rowCols i) (A.rowVals i) j := by
  unfold Csr.toDense; rw [ent_ofFn _ hi hj]

/-- The Boolean predicate of C20, unfolded: row slices have `numRows+1` entries, start at 0, are monotone and end
at `nnz`, which is also the length of both entry arrays; within each row the column indices are strictly
increasing and in range; no stored zero. -/
theorem consistent_iff (A : Csr) :
    A.consistent = true ↔
      A.slice.length = A.numRows + 1 ∧ A.slice.getD 0 1 = 0 ∧ A.slice.Pairwise (· ≤ ·) ∧
      A.slice.getD A.numRows 0 = A.nnz ∧ A.cols.length = A.nnz ∧ A.vals.length = A.nnz ∧
      (∀ r, r < A.numRows → (A.rowCols r).Pairwise (· < ·) ∧ ∀ c ∈ A.rowCols r, c < A.numCols) ∧
      (∀ v ∈ A.vals, v ≠ 0) := by
  unfold Csr.consistent
  simp only [Bool.and_eq_true, beq_iff_eq, monotone_iff, List.all_eq_true, List.mem_range,
    strictIncBelow_iff, bne_iff_ne, ne_eq, and_assoc]

/-- The canonical sparse form of any dense matrix is consistent (all shapes, including `m = 0` or `n = 0`, and
regardless of whether `M` itself is well-formed: `ofDense` reads `M` through `ent`). -/
theorem ofDense_consistent (m n : Nat) (M : Mat) : (Csr.ofDense m n M).consistent = true := by
  rw [consistent_iff]
  refine ⟨ofDense_slice_length m n M, ?_, ?_, ofDense_slice_last m n M, ?_, ?_, ?_, ?_⟩
  · simp [ofDense_slice]
  · rw [← monotone_iff, ofDense_slice]; exact monotone_cons_psums _ _
  · rw [ofDense_cols, ofDense_nnz, List.length_map]
  · rw [ofDense_vals, ofDense_nnz, List.length_map]
  · intro r hr
    rw [ofDense_numRows] at hr
    rw [ofDense_rowCols _ _ _ _ hr, ofDense_numCols]
    have := sparseRow_strictIncBelow (denseRow n M r)
    rw [length_denseRow, strictIncBelow_iff] at this
    exact this
  · intro v hv
    rw [ofDense_vals] at hv
    obtain ⟨p, hp, rfl⟩ := List.mem_map.mp hv
    obtain ⟨l, hl, hpl⟩ := List.mem_flatten.mp hp
    obtain ⟨i, _, rfl⟩ := List.mem_map.mp hl
    exact sparseRow_no_zero _ p hpl

/-- Round trip dense → sparse → dense is the identity on well-formed matrices. -/
theorem toDense_ofDense (m n : Nat) (M : Mat) (h : M.wf m n = true) : (Csr.ofDense m n M).toDense = M := by
  apply mat_ext (toDense_wf _) h
  intro i hi j hj
  have hi' : i < m := hi
  have hj' : j < n := hj
  rw [ent_toDense _ _ _ hi hj, ofDense_rowCols _ _ _ _ hi', ofDense_rowVals _ _ _ _ hi', lookupCol_sparseRow,
    getD_denseRow _ _ _ _ hj']



/-- What consistency guarantees, one statement per clause. -/
theorem consistent_no_zero (A : Csr) (h : A.consistent = true) : ∀ v ∈ A.vals, v ≠ 0 :=
  ((consistent_iff A).mp h).2.2.2.2.2.2.2

theorem consistent_slice_monotone (A : Csr) (h : A.consistent = true) : A.slice.Pairwise (· ≤ ·) :=
  ((consistent_iff A).mp h).2.2.1

theorem consistent_slice_length (A : Csr) (h : A.consistent = true) : A.slice.length = A.numRows + 1 :=
  ((consistent_iff A).mp h).1

theorem consistent_slice_first (A : Csr) (h : A.consistent = true) : A.slice.getD 0 0 = 0 := by
  have h1 := consistent_slice_length A h
  have h0 := ((consistent_iff A).mp h).2.1
  have hk : 0 < A.slice.length := by omega
  simp only [List.getD_eq_getElem?_getD, List.getElem?_eq_getElem hk, Option.getD_some] at h0 ⊢
  exact h0

theorem consistent_slice_last (A : Csr) (h : A.consistent = true) : A.slice.getD A.numRows 0 = A.nnz :=
  ((consistent_iff A).mp h).2.2.2.1

theorem consistent_cols_length (A : Csr) (h : A.consistent = true) : A.cols.length = A.nnz :=
  ((consistent_iff A).mp h).2.2.2.2.1

theorem consistent_vals_length (A : Csr) (h : A.consistent = true) : A.vals.length = A.nnz :=
  ((consistent_iff A).mp h).2.2.2.2.2.1

theorem consistent_cols_lt (A : Csr) (h : A.consistent = true) (r : Nat) (hr : r < A.numRows) :
    ∀ c ∈ A.rowCols r, c < A.numCols :=
  (((consistent_iff A).mp h).2.2.2.2.2.2.1 r hr).2

theorem consistent_cols_sorted (A : Csr) (h : A.consistent = true) (r : Nat) (hr : r < A.numRows) :
    (A.rowCols r).Pairwise (· < ·) :=
  (((consistent_iff A).mp h).2.2.2.2.2.2.1 r hr).1

/-- slice entries of a consistent matrix are ordered (index form) and bounded by `nnz` -/
theorem consistent_slice_le (A : Csr) (h : A.consistent = true) (r s : Nat) (hrs : r ≤ s) (hs : s ≤ A.numRows) :
    A.slice.getD r 0 ≤ A.slice.getD s 0 :=
  getD_le_getD_of_pairwise (consistent_slice_monotone A h) hrs (by rw [consistent_slice_length A h]; omega)

theorem consistent_slice_le_nnz (A : Csr) (h : A.consistent = true) (r : Nat) (hr : r ≤ A.numRows) :
    A.slice.getD r 0 ≤ A.nnz := by
  rw [← consistent_slice_last A h]; exact consistent_slice_le A h r _ hr (Nat.le_refl _)

/-- row `r` of a consistent matrix stores exactly `slice[r+1] - slice[r]` entries -/
theorem consistent_rowCols_length (A : Csr) (h : A.consistent = true) (r : Nat) (hr : r < A.numRows) :
    (A.rowCols r).length = A.slice.getD (r + 1) 0 - A.slice.getD r 0 := by
  have h1 := consistent_slice_le_nnz A h (r + 1) hr
  have h2 := consistent_slice_le A h r (r + 1) (Nat.le_succ r) hr
  have h3 := consistent_cols_length A h
  simp only [Csr.rowCols, List.length_take, List.length_drop]
  omega

theorem consistent_rowVals_length (A : Csr) (h : A.consistent = true) (r : Nat) (hr : r < A.numRows) :
    (A.rowVals r).length = A.slice.getD (r + 1) 0 - A.slice.getD r 0 := by
  have h1 := consistent_slice_le_nnz A h (r + 1) hr
  have h2 := consistent_slice_le A h r (r + 1) (Nat.le_succ r) hr
  have h3 := consistent_vals_length A h
  simp only [Csr.rowVals, List.length_take, List.length_drop]
  omega

/-- the entry arrays of a consistent matrix are the concatenation of its rows -/
theorem consistent_cols_eq_flatten (A : Csr) (h : A.consistent = true) :
    A.cols = ((List.range A.numRows).map A.rowCols).flatten := by
  have := take_slice_eq_flatten A.cols A.slice (consistent_slice_monotone A h) ((consistent_iff A).mp h).2.1
    A.numRows (by rw [consistent_slice_length A h]; omega)
  rw [consistent_slice_last A h, ← consistent_cols_length A h, List.take_length] at this
  exact this

theorem consistent_vals_eq_flatten (A : Csr) (h : A.consistent = true) :
    A.vals = ((List.range A.numRows).map A.rowVals).flatten := by
  have := take_slice_eq_flatten A.vals A.slice (consistent_slice_monotone A h) ((consistent_iff A).mp h).2.1
    A.numRows (by rw [consistent_slice_length A h]; omega)
  rw [consistent_slice_last A h, ← consistent_vals_length A h, List.take_length] at this
  exact this

theorem consistent_rowVals_no_zero (A : Csr) (h : A.consistent = true) (r : Nat) : ∀ v ∈ A.rowVals r, v ≠ 0 := by
  intro v hv
  exact consistent_no_zero A h v (List.mem_of_mem_drop (List.mem_of_mem_take hv))

/-- The sparse form is canonical: consistent matrices of the same shape with the same dense matrix are equal. -/
theorem toDense_injective_on_consistent (A B : Csr) (hA : A.consistent = true) (hB : B.consistent = true)
    (hm : A.numRows = B.numRows) (hn : A.numCols = B.numCols) (hd : A.toDense = B.toDense) : A = B := by
  -- rows agree
  have hrow : ∀ r, r < A.numRows → A.rowCols r = B.rowCols r ∧ A.rowVals r = B.rowVals r := by
    intro r hr
    have hrB : r < B.numRows := hm ▸ hr
    apply lookupCol_canonical
    · rw [consistent_rowCols_length A hA r hr, consistent_rowVals_length A hA r hr]
    · rw [consistent_rowCols_length B hB r hrB, consistent_rowVals_length B hB r hrB]
    · exact consistent_cols_sorted A hA r hr
    · exact consistent_cols_sorted B hB r hrB
    · exact consistent_rowVals_no_zero A hA r
    · exact consistent_rowVals_no_zero B hB r
    · intro j
      by_cases hj : j < A.numCols
      · have hjB : j < B.numCols := hn ▸ hj
        rw [← ent_toDense A r j hr hj, ← ent_toDense B r j hrB hjB, hd]
      · rw [lookupCol_of_not_mem, lookupCol_of_not_mem]
        · intro hmem; exact hj (hn ▸ consistent_cols_lt B hB r hrB j hmem)
        · intro hmem; exact hj (consistent_cols_lt A hA r hr j hmem)
  have hcols : A.cols = B.cols := by
    rw [consistent_cols_eq_flatten A hA, consistent_cols_eq_flatten B hB, ← hm]
    congr 1
    apply List.map_congr_left
    intro r hr
    exact (hrow r (List.mem_range.mp hr)).1
  have hvals : A.vals = B.vals := by
    rw [consistent_vals_eq_flatten A hA, consistent_vals_eq_flatten B hB, ← hm]
    congr 1
    apply List.map_congr_left
    intro r hr
    exact (hrow r (List.mem_range.mp hr)).2
  have hnnz : A.nnz = B.nnz := by
    rw [← consistent_cols_length A hA, ← consistent_cols_length B hB, hcols]
  have hsl : ∀ k, k ≤ A.numRows → A.slice.getD k 0 = B.slice.getD k 0 := by
    intro k
    induction k with
    | zero => intro _; rw [consistent_slice_first A hA, consistent_slice_first B hB]
    | succ k ih =>
      intro hk
      have hkA : k < A.numRows := hk
      have hkB : k < B.numRows := hm ▸ hkA
      have e := ih (Nat.le_of_lt hkA)
      have l1 := consistent_rowCols_length A hA k hkA
      have l2 := consistent_rowCols_length B hB k hkB
      have m1 := consistent_slice_le A hA k (k + 1) (Nat.le_succ k) hkA
      have m2 := consistent_slice_le B hB k (k + 1) (Nat.le_succ k) hkB
      rw [(hrow k hkA).1] at l1
      omega
  have hslice : A.slice = B.slice := by
    have lA := consistent_slice_length A hA
    have lB := consistent_slice_length B hB
    apply List.ext_getElem (by omega)
    intro i h1 h2
    have := hsl i (by omega)
    simpa [List.getD_eq_getElem?_getD, List.getElem?_eq_getElem h1, List.getElem?_eq_getElem h2] using this
  cases A; cases B
  simp only [Csr.mk.injEq]
  exact ⟨hm, hn, hnnz, hslice, hcols, hvals⟩

/-- Round trip sparse → dense → sparse is the identity on consistent matrices. -/
theorem ofDense_toDense (A : Csr) (h : A.consistent = true) : Csr.ofDense A.numRows A.numCols A.toDense = A :=
  toDense_injective_on_consistent _ _ (ofDense_consistent _ _ _) h rfl rfl
    (toDense_ofDense _ _ _ (toDense_wf A))

/-! ### Dense algebraic laws the judge relies on -/

theorem transpose_transpose (m n : Nat) (M : Mat) (h : M.wf m n = true) :
    transpose n m (transpose m n M) = M := by
  apply mat_ext (transpose_wf _ _ _) h
  intro i hi j hj
  rw [ent_transpose _ _ _ _ _ hi hj, ent_transpose _ _ _ _ _ hj hi]

theorem support_support (M : Mat) : support (support M) = support M := by
  unfold support
  rw [mapEntries_mapEntries]
  congr 1
  funext x
  by_cases h : x = 0 <;> simp [h]

theorem support_signedSupport (M : Mat) : support (signedSupport M) = support M := by
  unfold support signedSupport
  rw [mapEntries_mapEntries]
  congr 1
  funext x
  by_cases h : x = 0
  · simp [h]
  · by_cases h2 : x > 0 <;> simp [h, h2]

theorem signedSupport_signedSupport (M : Mat) : signedSupport (signedSupport M) = signedSupport M := by
  unfold signedSupport
  rw [mapEntries_mapEntries]
  congr 1
  funext x
  by_cases h : x = 0
  · simp [h]
  · by_cases h2 : x > 0 <;> simp [h, h2]

/-- a slice of a slice is the composed slice -/
theorem sub_sub (M : Mat) (rs cs rs' cs' : List Nat) (hr : ∀ i ∈ rs', i < rs.length)
    (hc : ∀ j ∈ cs', j < cs.length) :
    sub (sub M rs cs) rs' cs' = sub M (rs'.map (fun i => rs.getD i 0)) (cs'.map (fun j => cs.getD j 0)) := by
  unfold sub
  rw [List.map_map]
  apply List.map_congr_left
  intro i hi
  simp only [Function.comp]
  rw [List.map_map]
  apply List.map_congr_left
  intro j hj
  exact ent_sub M rs cs i j (hr i hi) (hc j hj)

theorem transpose_support (m n : Nat) (M : Mat) : transpose m n (support M) = support (transpose m n M) := by
  apply mat_ext (transpose_wf _ _ _) (m := n) (n := m)
  · simp [support, Mat.mapEntries, transpose, Mat.ofFn, Mat.wf]
  · intro j hj i hi
    rw [ent_support, ent_transpose _ _ _ _ _ hj hi, ent_transpose _ _ _ _ _ hj hi, ent_support]

theorem transpose_signedSupport (m n : Nat) (M : Mat) :
    transpose m n (signedSupport M) = signedSupport (transpose m n M) := by
  apply mat_ext (transpose_wf _ _ _) (m := n) (n := m)
  · simp [signedSupport, Mat.mapEntries, transpose, Mat.ofFn, Mat.wf]
  · intro j hj i hi
    rw [ent_signedSupport, ent_transpose _ _ _ _ _ hj hi, ent_transpose _ _ _ _ _ hj hi, ent_signedSupport]

/-! ### Non-vacuity and worked instances -/

/-- all six stored fields, for comparing by `decide` (`Csr` derives `BEq` only) -/
def fields (A : Csr) : Nat × Nat × Nat × List Nat × List Nat × List Int :=
  (A.numRows, A.numCols, A.nnz, A.slice, A.cols, A.vals)

/-- a consistent matrix: `[[0,1,-1],[0,0,2]]` as stored -/
example : (Csr.mk 2 3 3 [0, 2, 3] [1, 2, 2] [1, -1, 2]).consistent = true := by decide

/-- stored zero -/
example : (Csr.mk 2 3 3 [0, 2, 3] [1, 2, 2] [1, 0, 2]).consistent = false := by decide
/-- columns of row 0 not strictly increasing (unsorted, and a duplicate) -/
example : (Csr.mk 2 3 3 [0, 2, 3] [2, 1, 2] [1, -1, 2]).consistent = false ∧
    (Csr.mk 2 3 3 [0, 2, 3] [1, 1, 2] [1, -1, 2]).consistent = false := by decide
/-- `numNonzeros` field differs from the last slice entry -/
example : (Csr.mk 2 3 4 [0, 2, 3] [1, 2, 2] [1, -1, 2]).consistent = false := by decide
/-- column index out of range; slice not monotone; slice not starting at 0; slice of the wrong length -/
example : (Csr.mk 2 3 3 [0, 2, 3] [1, 3, 2] [1, -1, 2]).consistent = false ∧
    (Csr.mk 2 3 1 [0, 2, 1] [1, 2] [1, -1]).consistent = false ∧
    (Csr.mk 2 3 3 [1, 2, 3] [1, 2, 2] [1, -1, 2]).consistent = false ∧
    (Csr.mk 2 3 3 [0, 2, 3, 3] [1, 2, 2] [1, -1, 2]).consistent = false := by decide

example : fields (Csr.ofDense 2 3 [[0, 1, -1], [0, 0, 2]]) = (2, 3, 3, [0, 2, 3], [1, 2, 2], [1, -1, 2]) ∧
    (Csr.ofDense 2 3 [[0, 1, -1], [0, 0, 2]]).toDense = [[0, 1, -1], [0, 0, 2]] ∧
    (Csr.mk 2 3 3 [0, 2, 3] [1, 2, 2] [1, -1, 2]).toDense = [[0, 1, -1], [0, 0, 2]] := by decide

/-- degenerate shapes -/
example : fields (Csr.ofDense 0 3 []) = (0, 3, 0, [0], [], []) ∧ (Csr.ofDense 0 3 []).consistent = true ∧
    (Csr.ofDense 0 3 []).toDense = [] := by decide
example : fields (Csr.ofDense 2 0 [[], []]) = (2, 0, 0, [0, 0, 0], [], []) ∧
    (Csr.ofDense 2 0 [[], []]).consistent = true ∧
    (Csr.ofDense 2 0 [[], []]).toDense = ([[], []] : Mat) := by decide

/-- `toDense_ofDense` needs well-formedness: a ragged matrix is padded, not reproduced. -/
example : (Csr.ofDense 2 2 [[1], [0, 1]]).toDense = [[1, 0], [0, 1]] := by decide

/-- `toDense` is not injective without consistency: a stored zero is invisible in the dense view. -/
example : (Csr.mk 1 2 1 [0, 1] [0] [0]).toDense = (Csr.mk 1 2 0 [0, 0] [] []).toDense := by decide

/-- dense laws, and `sub_sub` failing without the index bound -/
example : let M : Mat := [[0, 2, -3], [4, 0, 0]]
    transpose 3 2 (transpose 2 3 M) = M ∧ support (signedSupport M) = [[0, 1, 1], [1, 0, 0]] ∧
    transpose 2 3 (support M) = support (transpose 2 3 M) ∧
    sub (sub M [1, 0] [2, 0, 1]) [1, 1] [0] = sub M [0, 0] [2] ∧
    sub (sub M [1] [0]) [1] [0] ≠ sub M [1] [0] := by decide

end Cmr.Props.C20
