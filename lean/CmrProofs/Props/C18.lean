/-
  Property C18 — a time limit never changes an answer: the unlimited result or a clean timeout.

  Model (deliberately thin): a time-limited call is a list of steps; a `check` step reads the clock and aborts with
  `timeout` (no output) if the limit has passed — here: if at least `k` clock reads have happened — all other steps
  transform the state without looking at the clock.  The content of C18 in the C code is the cleanup on the 45
  `return CMR_ERROR_TIMEOUT` exits, which no model exhibits; that part is enumerated by fault injection at every clock
  read (tools/props.py `c18`), together with the allocator theorem `balanced_restores` of C11 for the stack clause.
-/
namespace Cmr.Props.C18

inductive Step (σ : Type) where
  | work (f : σ → σ)     -- computation that does not depend on the clock
  | check                -- `if (clock() - start > limit) return CMR_ERROR_TIMEOUT`

/-- unlimited run -/
def run {σ : Type} : List (Step σ) → σ → σ
  | [], s => s
  | .work f :: rest, s => run rest (f s)
  | .check :: rest, s => run rest s

/-- run with the clock jumping past the limit at the `k`-th read (`reads` = reads so far); `none` = timeout, no output -/
def runLimited {σ : Type} (k : Nat) : List (Step σ) → σ → Nat → Option σ
  | [], s, _ => some s
  | .work f :: rest, s, reads => runLimited k rest (f s) reads
  | .check :: rest, s, reads => if reads + 1 ≥ k then none else runLimited k rest s (reads + 1)

def numChecks {σ : Type} : List (Step σ) → Nat
  | [] => 0
  | .work _ :: rest => numChecks rest
  | .check :: rest => numChecks rest + 1

/-- Either a timeout without output or exactly the unlimited answer. -/
theorem limited_refines {σ : Type} (k : Nat) (prog : List (Step σ)) (s : σ) (reads : Nat) :
    runLimited k prog s reads = none ∨ runLimited k prog s reads = some (run prog s) := by
  induction prog generalizing s reads with
  | nil => right; rfl
  | cons st rest ih =>
    cases st with
    | work f => simpa [runLimited, run] using ih (f s) reads
    | check =>
      simp only [runLimited, run]
      split
      · left; rfl
      · exact ih s (reads + 1)

/-- If the injection point lies beyond the reads the run performs, the limited run is the unlimited one. -/
theorem limited_eq_unlimited {σ : Type} (k : Nat) (prog : List (Step σ)) (s : σ) (reads : Nat)
    (h : reads + numChecks prog < k) : runLimited k prog s reads = some (run prog s) := by
  induction prog generalizing s reads with
  | nil => rfl
  | cons st rest ih =>
    cases st with
    | work f => simpa [runLimited, run, numChecks] using ih (f s) reads (by simpa [numChecks] using h)
    | check =>
      simp only [runLimited, run, numChecks] at *
      have : ¬ (reads + 1 ≥ k) := by omega
      simp only [this, if_false]
      exact ih s (reads + 1) (by omega)

/-- An injection at a read that the run performs yields a timeout. -/
theorem limited_timeout {σ : Type} (k : Nat) (prog : List (Step σ)) (s : σ) (reads : Nat)
    (hk : reads < k) (h : k ≤ reads + numChecks prog) : runLimited k prog s reads = none := by
  induction prog generalizing s reads with
  | nil => simp [numChecks] at h; omega
  | cons st rest ih =>
    cases st with
    | work f => simpa [runLimited, numChecks] using ih (f s) reads hk (by simpa [numChecks] using h)
    | check =>
      simp only [runLimited, numChecks] at *
      by_cases hq : reads + 1 ≥ k
      · simp [hq]
      · simp only [hq, if_false]
        exact ih s (reads + 1) (by omega) (by omega)

example : runLimited 2 [Step.work (· + 1), .check, .work (· * 2), .check, .work (· + 5)] 0 0 = none := by decide
example : runLimited 3 [Step.work (· + 1), .check, .work (· * 2), .check, .work (· + 5)] 0 0 = some 7 := by decide
example : run [Step.work (· + 1), .check, .work (· * 2), .check, .work (· + 5)] 0 = 7 := by decide

end Cmr.Props.C18
