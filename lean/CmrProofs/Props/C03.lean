/-
  Property C03 — every node of a decomposition tree recomposes from its children.

  Model: `Cmr/Tree.lean` (`FNode` = one node of the library's `CMR_SEYMOUR_NODE` tree flattened by `parseNode`;
  `checkRecompose nodes nd` = the per-node recomposition check; `checkTree` runs `checkRecompose` and `checkFlags` (C04)
  on every node), using `Cmr/Sums.lean` (`compose2a`, `composeDelta`, `composeY`, `compose3`), `Cmr/Pivot.lean`
  (`pivots2`, `pivots3`) and `Cmr/SP.lean` (`applyReductions`).
  Tie: tree ops (`judgeTreePayload` of `Cmr/Judge.lean`): every tree handed out by `CMRtuTest` / `CMRregularTest` and
  by the complete/refine decomposition calls is serialised node by node and must pass `checkTree`; a rejection
  `(tag, text)` is a finding (tags other than `tree:flag*`, `tree:graph-cert`, `tree:r10`, `tree:minor` belong to C03).

  What is proved.  `CmrProofs/Lemmas/TreeLemmas.lean` cuts the checker into verbatim pieces (`checkRecompose_eq` holds by
  `rfl`) and characterises acceptance of every piece (`checkRecompose_ok_iff`, `recompLeaf/SP/Piv/One/Sum_ok_iff`).  Here:
  1. `checkTree_all_nodes` / `checkTree_ok_iff`: acceptance of a tree of any shape means acceptance of every node by both
     checkers — no node is skipped.
  2. The declarative content of an accepted node, all in full strength (not merely "the sub-check evaluated to true"):
     `leaf_no_children`, `consistent_matrix`, `children_found`, `pivots_child`, `sp_child` (the reductions form a C08
     removal sequence `Reaches`; no child ⇒ `IsSP`), `onesum_blocks`, `sum_recomposes` and its four instances
     `twosum_recomposes`, `deltasum_recomposes`, `ysum_recomposes`, `threesum_recomposes`.
  3. `isPerm_iff`: the Boolean `isPerm l n` says exactly that `l` is a permutation of `0, …, n-1`.
  4. Partial TU certification (only series-parallel nodes; the sum and pivot nodes are *not* covered):
     `removable_TU` (putting back a zero line, a ±unit line or a ± copy of a line preserves total unimodularity; the
     entries must be in {-1,0,1}, otherwise a unit line with entry 2 is a counterexample — this hypothesis was added to
     the statement), `reaches_TU`, `isSP_TU`, and `sp_node_TU_partial(_mathlib)`: an accepted series-parallel node with
     entries in {-1,0,1} whose child (if any) is totally unimodular is totally unimodular.
-/
import CmrProofs.Lemmas.TreeLemmas
import CmrProofs.Props.C08

set_option linter.unusedSimpArgs false
set_option linter.unusedVariables false

namespace Cmr.Props.C03
open Cmr

/-! ### 1. every node is checked -/

theorem checkTree_ok_iff (nodes : List FNode) :
    checkTree nodes = .ok () ↔ ∀ nd ∈ nodes, checkRecompose nodes nd = .ok () ∧ checkFlags nodes nd = .ok () := by
  unfold checkTree
  rw [Ex.forM_ok_iff]
  apply forall₂_congr
  intro nd _
  rw [Ex.bind_eq_ok]
  constructor
  · rintro ⟨u, h1, h2⟩; exact ⟨h1, h2⟩
  · rintro ⟨h1, h2⟩; exact ⟨(), h1, h2⟩

theorem checkTree_all_nodes {nodes : List FNode} (h : checkTree nodes = .ok ()) :
    ∀ nd ∈ nodes, checkRecompose nodes nd = .ok () ∧ checkFlags nodes nd = .ok () :=
  (checkTree_ok_iff nodes).mp h

/-! ### 3. `isPerm` -/

theorem isPerm_iff (l : List Nat) (n : Nat) : isPerm l n = true ↔ l.Perm (List.range n) := Cmr.isPerm_iff l n

theorem isPerm_spec {l : List Nat} {n : Nat} (h : isPerm l n = true) :
    l.Nodup ∧ l.length = n ∧ (∀ x ∈ l, x < n) ∧ ∀ x, x < n → x ∈ l := by
  have hp := (isPerm_iff l n).mp h
  refine ⟨hp.nodup_iff.mpr List.nodup_range, by simpa using hp.length_eq, ?_, ?_⟩
  · intro x hx; exact List.mem_range.mp (hp.subset hx)
  · intro x hx; exact hp.symm.subset (List.mem_range.mpr hx)

/-! ### 2. what an accepted node of each kind looks like -/

theorem kids_nil {nodes : List FNode} {nd : FNode} (hk : Kids nodes nd []) : nd.children = [] := by
  have := List.Forall₂.length_eq hk
  exact List.length_eq_zero_iff.mp (by simpa using this)

theorem kids_cons {nodes : List FNode} {nd : FNode} {ci : ChildInfo} {k : FNode} {tail : List (ChildInfo × FNode)}
    (hk : Kids nodes nd ((ci, k) :: tail)) :
    ∃ rest, nd.children = ci :: rest ∧ findNode nodes ci.child = some k ∧
      List.Forall₂ (fun ci p => findNode nodes ci.child = some p.2 ∧ p.1 = ci) rest tail := by
  unfold Kids at hk
  generalize nd.children = l at hk
  cases hk with
  | cons h1 h2 =>
    obtain ⟨h3, h4⟩ := h1
    simp only at h3 h4
    subst h4
    exact ⟨_, rfl, h3, h2⟩

theorem forall2_mem_left {α β : Type} {R : α → β → Prop} {l : List α} {k : List β} (h : List.Forall₂ R l k) :
    ∀ x ∈ l, ∃ y ∈ k, R x y := by
  induction h with
  | nil => intro x hx; cases hx
  | cons h1 _ ih =>
    intro x hx
    rcases List.mem_cons.mp hx with rfl | hm
    · exact ⟨_, List.mem_cons_self .., h1⟩
    · obtain ⟨y, hy, hr⟩ := ih x hm
      exact ⟨y, List.mem_cons_of_mem _ hy, hr⟩

theorem kids_length {nodes : List FNode} {nd : FNode} {kids : List (ChildInfo × FNode)} (hk : Kids nodes nd kids) :
    kids.length = nd.children.length := (List.Forall₂.length_eq hk).symm

/-- a. leaves have no children -/
theorem leaf_no_children {nodes : List FNode} {nd : FNode} (h : checkRecompose nodes nd = .ok ())
    (ht : nd.type ∈ leafTypes) : nd.children = [] := by
  obtain ⟨_, _, kids, hk, _, hb⟩ := (checkRecompose_ok_iff nodes nd).mp h
  rw [recompBody_leaf ht, recompLeaf_ok_iff] at hb
  subst hb
  exact kids_nil hk

/-- b. the stored matrix is a consistent CSR matrix, and so is the stored transpose, which is the transpose -/
theorem consistent_matrix {nodes : List FNode} {nd : FNode} (h : checkRecompose nodes nd = .ok ()) :
    nd.matrix.consistent = true ∧
    ∀ T, nd.transpose = some T → T.consistent = true ∧ T.numRows = nd.matrix.numCols ∧ T.numCols = nd.matrix.numRows ∧
      T.toDense = transpose nd.matrix.numRows nd.matrix.numCols nd.matrix.toDense := by
  obtain ⟨h1, h2, _⟩ := (checkRecompose_ok_iff nodes nd).mp h
  exact ⟨h1, h2⟩

/-- every child named by an accepted node exists in the node list, is over the same field and has a consistent matrix -/
theorem children_found {nodes : List FNode} {nd : FNode} (h : checkRecompose nodes nd = .ok ()) :
    ∀ ci ∈ nd.children, ∃ k, findNode nodes ci.child = some k ∧ k.ternary = nd.ternary ∧ k.matrix.consistent = true := by
  obtain ⟨_, _, kids, hk, hf, _⟩ := (checkRecompose_ok_iff nodes nd).mp h
  intro ci hci
  obtain ⟨p, hp, h1, h2⟩ := forall2_mem_left hk ci hci
  exact ⟨p.2, h1, hf p hp⟩

/-- c. a pivot node has exactly one child, and that child's matrix is the node's matrix after the recorded pivots
(over GF(3) for ternary nodes, GF(2) otherwise); the recorded pivots are non-empty with pairwise distinct rows and
columns, and the child's element maps swap exactly the pivot lines. -/
theorem pivots_child {nodes : List FNode} {nd : FNode} (h : checkRecompose nodes nd = .ok ())
    (ht : nd.type = NodeType.pivots) :
    ∃ ci k E, nd.children = [ci] ∧ findNode nodes ci.child = some k ∧
      nd.pivots ≠ [] ∧ (nd.pivots.map Prod.fst).Nodup ∧ (nd.pivots.map Prod.snd).Nodup ∧
      (if nd.ternary then pivots3 nd.matrix.numRows nd.matrix.numCols nd.matrix.toDense nd.pivots
        else pivots2 nd.matrix.numRows nd.matrix.numCols nd.matrix.toDense nd.pivots) = some E ∧
      k.matrix.numRows = nd.matrix.numRows ∧ k.matrix.numCols = nd.matrix.numCols ∧ k.matrix.toDense = E ∧
      ci.rowsToParent = pivExpRows nd.matrix.numRows nd.pivots ∧
      ci.colsToParent = pivExpCols nd.matrix.numCols nd.pivots := by
  obtain ⟨_, _, kids, hk, _, hb⟩ := (checkRecompose_ok_iff nodes nd).mp h
  rw [recompBody_piv ht, recompPiv_ok_iff] at hb
  obtain ⟨ci, k, rfl, E, hE, a1, a2, a3, a4, a5, a6, a7, a8⟩ := hb
  obtain ⟨rest, hc, hf, hr⟩ := kids_cons hk
  cases hr
  exact ⟨ci, k, E, hc, hf, a3, a4, a5, hE, a1, a2, a6, a7, a8⟩

/-- d. a series-parallel node: the recorded reductions are valid one after the other (so they form a genuine removal
sequence in the sense of C08); without a child they remove everything (the matrix is series-parallel), with a child the
child's matrix is the submatrix on exactly the lines that remain. -/
theorem sp_child {nodes : List FNode} {nd : FNode} (h : checkRecompose nodes nd = .ok ())
    (ht : nd.type = NodeType.seriesParallel) :
    nd.children.length ≤ 1 ∧ ∃ R C,
      applyReductions nd.ternary nd.matrix.toDense (List.range nd.matrix.numRows) (List.range nd.matrix.numCols)
        nd.reductions 0 = .ok (R, C) ∧
      C08.Reaches nd.ternary nd.matrix.toDense (List.range nd.matrix.numRows, List.range nd.matrix.numCols) (R, C) ∧
      (nd.children = [] → R = [] ∧ C = [] ∧
        C08.IsSP nd.ternary nd.matrix.toDense (List.range nd.matrix.numRows) (List.range nd.matrix.numCols)) ∧
      (∀ ci, nd.children = [ci] → ∃ k rs cs, findNode nodes ci.child = some k ∧
        ci.rowsToParent.mapM rowOfElem = some rs ∧ ci.colsToParent.mapM colOfElem = some cs ∧
        rs.length = k.matrix.numRows ∧ cs.length = k.matrix.numCols ∧ rs.Nodup ∧ cs.Nodup ∧
        (∀ x, x ∈ rs ↔ x ∈ R) ∧ (∀ x, x ∈ cs ↔ x ∈ C) ∧
        k.matrix.toDense = sub nd.matrix.toDense rs cs) := by
  obtain ⟨_, _, kids, hk, _, hb⟩ := (checkRecompose_ok_iff nodes nd).mp h
  rw [recompBody_sp ht, recompSP_ok_iff] at hb
  obtain ⟨hlen, R, C, happ, hnil, hcons⟩ := hb
  have hreach := C08.applyReductions_reaches happ
  refine ⟨by rw [← kids_length hk]; exact hlen, R, C, happ, hreach, ?_, ?_⟩
  · intro hc
    have hk0 : kids = [] := List.length_eq_zero_iff.mp (by rw [kids_length hk, hc]; rfl)
    obtain ⟨rfl, rfl⟩ := hnil hk0
    exact ⟨rfl, rfl, hreach⟩
  · intro ci hc
    have hl : kids.length = 1 := by rw [kids_length hk, hc]; rfl
    obtain ⟨p, rfl⟩ := List.length_eq_one_iff.mp hl
    obtain ⟨ci', k⟩ := p
    obtain ⟨rest, hc', hf, _⟩ := kids_cons hk
    rw [hc] at hc'
    cases hc'
    obtain ⟨rs, cs, h1, h2, a1, a2, b1, b2, b3, b4, b5, b6, c1⟩ := hcons ci k rfl
    exact ⟨k, rs, cs, hf, h1, h2, a1, a2, b5, b6, fun x => ⟨b1 x, b2 x⟩, fun x => ⟨b3 x, b4 x⟩, c1⟩

/-- e. a 1-sum node has at least two children whose row (column) index lists partition the rows (columns) of the
node's matrix, and the matrix is the block-diagonal arrangement of the children's matrices: entry `(i, j)` is read from
the child whose lines contain both `i` and `j`, and is `0` if there is none. -/
theorem onesum_blocks {nodes : List FNode} {nd : FNode} (h : checkRecompose nodes nd = .ok ())
    (ht : nd.type = NodeType.onesum) :
    2 ≤ nd.children.length ∧ ∃ blocks : List (List Nat × List Nat × Mat),
      List.Forall₂ (fun ci b => ∃ k, findNode nodes ci.child = some k ∧
        ci.rowsToParent.mapM rowOfElem = some b.1 ∧ ci.colsToParent.mapM colOfElem = some b.2.1 ∧
        b.1.length = k.matrix.numRows ∧ b.2.1.length = k.matrix.numCols ∧ b.2.2 = k.matrix.toDense) nd.children blocks ∧
      isPerm (blocks.flatMap (·.1)) nd.matrix.numRows = true ∧
      isPerm (blocks.flatMap (·.2.1)) nd.matrix.numCols = true ∧
      (blocks.flatMap (·.1)).Perm (List.range nd.matrix.numRows) ∧
      (blocks.flatMap (·.2.1)).Perm (List.range nd.matrix.numCols) ∧
      nd.matrix.toDense = Mat.ofFn nd.matrix.numRows nd.matrix.numCols (fun i j =>
        match blocks.find? (fun b => b.1.contains i && b.2.1.contains j) with
        | some (rs, cs, B) => ent B (rs.idxOf i) (cs.idxOf j)
        | none => 0) := by
  obtain ⟨_, _, kids, hk, hfld, hb⟩ := (checkRecompose_ok_iff nodes nd).mp h
  rw [recompBody_one ht, recompOne_ok_iff] at hb
  obtain ⟨hlen, blocks, hbl, hr, hc, hM⟩ := hb
  refine ⟨by rw [← kids_length hk]; exact hlen, blocks, ?_, hr, hc, (isPerm_iff _ _).mp hr, (isPerm_iff _ _).mp hc,
    hM.symm⟩
  unfold Kids at hk
  generalize nd.children = l at hk
  clear hlen hr hc hM hfld
  induction hk generalizing blocks with
  | nil => cases hbl; exact List.Forall₂.nil
  | cons h1 _ ih =>
    cases hbl with
    | cons hb1 hb2 =>
      refine List.Forall₂.cons ?_ (ih _ hb2)
      obtain ⟨e1, e2, e3, e4, e5⟩ := (oneBlock_ok_iff _ _ _).mp hb1
      rw [h1.2] at e1 e2
      exact ⟨_, h1.1, e1, e2, e3, e4, e5⟩

/-! #### f. 2-, Δ-, Y- and 3-sums -/

theorem sumSpec_twosum {nd : FNode} (ht : nd.type = NodeType.twosum) (c0 : ChildInfo) (k0 : FNode) (c1 : ChildInfo)
    (k1 : FNode) :
    sumSpec nd c0 k0 c1 k1 =
      (if (k0.matrix.numRows == 0 || k1.matrix.numCols == 0) = true then .error "empty child"
        else compose2a (chOf nd) k0.matrix.numRows k0.matrix.numCols k0.matrix.toDense k1.matrix.numRows k1.matrix.numCols k1.matrix.toDense (k0.matrix.numRows - 1) 0,
       [some (k0.matrix.numRows - 1)], [], [], [some 0]) := by
  unfold sumSpec
  simp only [ht]
  rfl

theorem sumSpec_deltasum {nd : FNode} (ht : nd.type = NodeType.deltasum) (c0 : ChildInfo) (k0 : FNode) (c1 : ChildInfo)
    (k1 : FNode) :
    sumSpec nd c0 k0 c1 k1 =
      ((match c0.specialRows.getD 0 none, c0.specialCols.getD 0 none, c0.specialCols.getD 1 none,
          c1.specialRows.getD 0 none, c1.specialCols.getD 0 none, c1.specialCols.getD 1 none with
        | some a, some b, some c, some d, some e, some f => composeDelta (chOf nd) k0.matrix.numRows k0.matrix.numCols k0.matrix.toDense k1.matrix.numRows k1.matrix.numCols k1.matrix.toDense a b c d e f
        | _, _, _, _, _, _ => .error "special lines not recorded"),
       c0.specialRows, c0.specialCols, c1.specialRows, c1.specialCols) := by
  unfold sumSpec
  simp only [ht]
  rfl

theorem sumSpec_ysum {nd : FNode} (ht : nd.type = NodeType.ysum) (c0 : ChildInfo) (k0 : FNode) (c1 : ChildInfo)
    (k1 : FNode) :
    sumSpec nd c0 k0 c1 k1 =
      ((match c0.specialRows.getD 0 none, c0.specialRows.getD 1 none, c0.specialCols.getD 0 none,
          c1.specialRows.getD 0 none, c1.specialRows.getD 1 none, c1.specialCols.getD 0 none with
        | some a, some b, some c, some d, some e, some f => composeY (chOf nd) k0.matrix.numRows k0.matrix.numCols k0.matrix.toDense k1.matrix.numRows k1.matrix.numCols k1.matrix.toDense a b c d e f
        | _, _, _, _, _, _ => .error "special lines not recorded"),
       c0.specialRows, c0.specialCols, c1.specialRows, c1.specialCols) := by
  unfold sumSpec
  simp only [ht]
  rfl

theorem sumSpec_threesum {nd : FNode} (ht : nd.type = NodeType.threesum) (c0 : ChildInfo) (k0 : FNode) (c1 : ChildInfo)
    (k1 : FNode) :
    sumSpec nd c0 k0 c1 k1 =
      ((match (c0.specialRows ++ c0.specialCols ++ c1.specialRows ++ c1.specialCols).mapM id with
        | some [ri, rj, ck, cl, cz, rg, ri2, rj2, ck2, cl2] =>
          compose3 (chOf nd) k0.matrix.numRows k0.matrix.numCols k0.matrix.toDense k1.matrix.numRows k1.matrix.numCols k1.matrix.toDense ri rj ck cl cz rg ri2 rj2 ck2 cl2 (fun N => chOf nd != 3 || isTU 3 3 N)
        | _ => .error "special lines not recorded"),
       c0.specialRows, [c0.specialCols.getD 2 none], [c1.specialRows.getD 0 none], c1.specialCols) := by
  unfold sumSpec
  simp only [ht]
  rfl

/-- f (general form). A 2-, Δ-, Y- or 3-sum node has exactly two children; the composition prescribed for its type
(`sumSpec`, first component) succeeds on the children's dense matrices with result `P`; the child-to-parent maps of the
non-special lines (`sumSpec`, other components = the special lines of each child) decode to index lists whose
concatenations `rho`, `kap` are permutations of the rows and columns; and `P` is the node's matrix read along
`rho`, `kap`. -/
theorem sum_recomposes {nodes : List FNode} {nd : FNode} (h : checkRecompose nodes nd = .ok ())
    (ht : nd.type = NodeType.twosum ∨ nd.type = NodeType.deltasum ∨ nd.type = NodeType.ysum ∨
      nd.type = NodeType.threesum) :
    ∃ c0 k0 c1 k1, nd.children = [c0, c1] ∧ findNode nodes c0.child = some k0 ∧ findNode nodes c1.child = some k1 ∧
      c0.rowsToParent.length = k0.matrix.numRows ∧ c0.colsToParent.length = k0.matrix.numCols ∧
      c1.rowsToParent.length = k1.matrix.numRows ∧ c1.colsToParent.length = k1.matrix.numCols ∧
      ∃ P r0 r1 q0 q1,
        (sumSpec nd c0 k0 c1 k1).1 = .ok P ∧
        keepMapped c0.rowsToParent (sumSpec nd c0 k0 c1 k1).2.1 rowOfElem = some r0 ∧
        keepMapped c1.rowsToParent (sumSpec nd c0 k0 c1 k1).2.2.2.1 rowOfElem = some r1 ∧
        keepMapped c0.colsToParent (sumSpec nd c0 k0 c1 k1).2.2.1 colOfElem = some q0 ∧
        keepMapped c1.colsToParent (sumSpec nd c0 k0 c1 k1).2.2.2.2 colOfElem = some q1 ∧
        isPerm (r0 ++ r1) nd.matrix.numRows = true ∧ isPerm (q0 ++ q1) nd.matrix.numCols = true ∧
        P = sub nd.matrix.toDense (r0 ++ r1) (q0 ++ q1) := by
  obtain ⟨_, _, kids, hk, _, hb⟩ := (checkRecompose_ok_iff nodes nd).mp h
  rw [recompBody_sum ht, recompSum_ok_iff] at hb
  obtain ⟨c0, k0, c1, k1, rfl, l1, l2, l3, l4, rest⟩ := hb
  obtain ⟨r, hc, hf0, hr⟩ := kids_cons hk
  cases hr with
  | cons h1 h2 =>
    cases h2
    obtain ⟨hf1, e⟩ := h1
    simp only at hf1 e
    subst e
    exact ⟨_, k0, _, k1, hc, hf0, hf1, l1, l2, l3, l4, rest⟩

/-- f, 2-sum: the composition is `compose2a` with the last row of the first child and the first column of the second
child as the special lines. -/
theorem twosum_recomposes {nodes : List FNode} {nd : FNode} (h : checkRecompose nodes nd = .ok ())
    (ht : nd.type = NodeType.twosum) :
    ∃ c0 k0 c1 k1, nd.children = [c0, c1] ∧ findNode nodes c0.child = some k0 ∧ findNode nodes c1.child = some k1 ∧
      k0.matrix.numRows ≠ 0 ∧ k1.matrix.numCols ≠ 0 ∧
      ∃ P rho kap,
        compose2a (chOf nd) k0.matrix.numRows k0.matrix.numCols k0.matrix.toDense k1.matrix.numRows k1.matrix.numCols k1.matrix.toDense (k0.matrix.numRows - 1) 0 = .ok P ∧
        isPerm rho nd.matrix.numRows = true ∧ isPerm kap nd.matrix.numCols = true ∧
        P = sub nd.matrix.toDense rho kap ∧
        ∃ r0 r1 q0 q1, rho = r0 ++ r1 ∧ kap = q0 ++ q1 ∧
          keepMapped c0.rowsToParent [some (k0.matrix.numRows - 1)] rowOfElem = some r0 ∧
          keepMapped c1.rowsToParent [] rowOfElem = some r1 ∧
          keepMapped c0.colsToParent [] colOfElem = some q0 ∧
          keepMapped c1.colsToParent [some 0] colOfElem = some q1 := by
  obtain ⟨c0, k0, c1, k1, hc, hf0, hf1, _, _, _, _, P, r0, r1, q0, q1, hP, e1, e2, e3, e4, p1, p2, hM⟩ :=
    sum_recomposes h (Or.inl ht)
  rw [sumSpec_twosum ht] at hP e1 e2 e3 e4
  simp only at hP e1 e2 e3 e4
  split at hP
  · cases hP
  · rename_i hz
    simp only [Bool.or_eq_true, beq_iff_eq, not_or] at hz
    exact ⟨c0, k0, c1, k1, hc, hf0, hf1, hz.1, hz.2, P, _, _, hP, p1, p2, hM, r0, r1, q0, q1, rfl, rfl, e1, e2, e3, e4⟩

/-- f, Δ-sum: the special row and the two special columns of each child are recorded, and `composeDelta` succeeds. -/
theorem deltasum_recomposes {nodes : List FNode} {nd : FNode} (h : checkRecompose nodes nd = .ok ())
    (ht : nd.type = NodeType.deltasum) :
    ∃ c0 k0 c1 k1, nd.children = [c0, c1] ∧ findNode nodes c0.child = some k0 ∧ findNode nodes c1.child = some k1 ∧
      ∃ a b c d e f, c0.specialRows.getD 0 none = some a ∧ c0.specialCols.getD 0 none = some b ∧
        c0.specialCols.getD 1 none = some c ∧ c1.specialRows.getD 0 none = some d ∧
        c1.specialCols.getD 0 none = some e ∧ c1.specialCols.getD 1 none = some f ∧
      ∃ P rho kap,
        composeDelta (chOf nd) k0.matrix.numRows k0.matrix.numCols k0.matrix.toDense k1.matrix.numRows k1.matrix.numCols k1.matrix.toDense a b c d e f = .ok P ∧
        isPerm rho nd.matrix.numRows = true ∧ isPerm kap nd.matrix.numCols = true ∧
        P = sub nd.matrix.toDense rho kap ∧
        ∃ r0 r1 q0 q1, rho = r0 ++ r1 ∧ kap = q0 ++ q1 ∧
          keepMapped c0.rowsToParent c0.specialRows rowOfElem = some r0 ∧
          keepMapped c1.rowsToParent c1.specialRows rowOfElem = some r1 ∧
          keepMapped c0.colsToParent c0.specialCols colOfElem = some q0 ∧
          keepMapped c1.colsToParent c1.specialCols colOfElem = some q1 := by
  obtain ⟨c0, k0, c1, k1, hc, hf0, hf1, _, _, _, _, P, r0, r1, q0, q1, hP, e1, e2, e3, e4, p1, p2, hM⟩ :=
    sum_recomposes h (Or.inr (Or.inl ht))
  rw [sumSpec_deltasum ht] at hP e1 e2 e3 e4
  simp only at hP e1 e2 e3 e4
  split at hP
  · rename_i a b c d e f ha hb hc' hd he hf
    exact ⟨c0, k0, c1, k1, hc, hf0, hf1, a, b, c, d, e, f, ha, hb, hc', hd, he, hf, P, _, _, hP, p1, p2, hM,
      r0, r1, q0, q1, rfl, rfl, e1, e2, e3, e4⟩
  · cases hP

/-- f, Y-sum: the two special rows and the special column of each child are recorded, and `composeY` succeeds. -/
theorem ysum_recomposes {nodes : List FNode} {nd : FNode} (h : checkRecompose nodes nd = .ok ())
    (ht : nd.type = NodeType.ysum) :
    ∃ c0 k0 c1 k1, nd.children = [c0, c1] ∧ findNode nodes c0.child = some k0 ∧ findNode nodes c1.child = some k1 ∧
      ∃ a b c d e f, c0.specialRows.getD 0 none = some a ∧ c0.specialRows.getD 1 none = some b ∧
        c0.specialCols.getD 0 none = some c ∧ c1.specialRows.getD 0 none = some d ∧
        c1.specialRows.getD 1 none = some e ∧ c1.specialCols.getD 0 none = some f ∧
      ∃ P rho kap,
        composeY (chOf nd) k0.matrix.numRows k0.matrix.numCols k0.matrix.toDense k1.matrix.numRows k1.matrix.numCols k1.matrix.toDense a b c d e f = .ok P ∧
        isPerm rho nd.matrix.numRows = true ∧ isPerm kap nd.matrix.numCols = true ∧
        P = sub nd.matrix.toDense rho kap ∧
        ∃ r0 r1 q0 q1, rho = r0 ++ r1 ∧ kap = q0 ++ q1 ∧
          keepMapped c0.rowsToParent c0.specialRows rowOfElem = some r0 ∧
          keepMapped c1.rowsToParent c1.specialRows rowOfElem = some r1 ∧
          keepMapped c0.colsToParent c0.specialCols colOfElem = some q0 ∧
          keepMapped c1.colsToParent c1.specialCols colOfElem = some q1 := by
  obtain ⟨c0, k0, c1, k1, hc, hf0, hf1, _, _, _, _, P, r0, r1, q0, q1, hP, e1, e2, e3, e4, p1, p2, hM⟩ :=
    sum_recomposes h (Or.inr (Or.inr (Or.inl ht)))
  rw [sumSpec_ysum ht] at hP e1 e2 e3 e4
  simp only at hP e1 e2 e3 e4
  split at hP
  · rename_i a b c d e f ha hb hc' hd he hf
    exact ⟨c0, k0, c1, k1, hc, hf0, hf1, a, b, c, d, e, f, ha, hb, hc', hd, he, hf, P, _, _, hP, p1, p2, hM,
      r0, r1, q0, q1, rfl, rfl, e1, e2, e3, e4⟩
  · cases hP

/-- f, 3-sum: the ten special lines are recorded (two rows and three columns of the first child, three rows and two
columns of the second, in this order) and `compose3` succeeds (for ternary nodes including the test that the
connecting 3×3 matrix is totally unimodular). -/
theorem threesum_recomposes {nodes : List FNode} {nd : FNode} (h : checkRecompose nodes nd = .ok ())
    (ht : nd.type = NodeType.threesum) :
    ∃ c0 k0 c1 k1, nd.children = [c0, c1] ∧ findNode nodes c0.child = some k0 ∧ findNode nodes c1.child = some k1 ∧
      ∃ ri rj ck cl cz rg ri2 rj2 ck2 cl2,
        (c0.specialRows ++ c0.specialCols ++ c1.specialRows ++ c1.specialCols).mapM id =
          some [ri, rj, ck, cl, cz, rg, ri2, rj2, ck2, cl2] ∧
      ∃ P rho kap,
        compose3 (chOf nd) k0.matrix.numRows k0.matrix.numCols k0.matrix.toDense k1.matrix.numRows k1.matrix.numCols k1.matrix.toDense ri rj ck cl cz rg ri2 rj2 ck2 cl2 (fun N => chOf nd != 3 || isTU 3 3 N) = .ok P ∧
        isPerm rho nd.matrix.numRows = true ∧ isPerm kap nd.matrix.numCols = true ∧
        P = sub nd.matrix.toDense rho kap ∧
        ∃ r0 r1 q0 q1, rho = r0 ++ r1 ∧ kap = q0 ++ q1 ∧
          keepMapped c0.rowsToParent c0.specialRows rowOfElem = some r0 ∧
          keepMapped c1.rowsToParent [c1.specialRows.getD 0 none] rowOfElem = some r1 ∧
          keepMapped c0.colsToParent [c0.specialCols.getD 2 none] colOfElem = some q0 ∧
          keepMapped c1.colsToParent c1.specialCols colOfElem = some q1 := by
  obtain ⟨c0, k0, c1, k1, hc, hf0, hf1, _, _, _, _, P, r0, r1, q0, q1, hP, e1, e2, e3, e4, p1, p2, hM⟩ :=
    sum_recomposes h (Or.inr (Or.inr (Or.inr ht)))
  rw [sumSpec_threesum ht] at hP e1 e2 e3 e4
  simp only at hP e1 e2 e3 e4
  split at hP
  · rename_i ri rj ck cl cz rg ri2 rj2 ck2 cl2 hs
    exact ⟨c0, k0, c1, k1, hc, hf0, hf1, ri, rj, ck, cl, cz, rg, ri2, rj2, ck2, cl2, hs, P, _, _, hP, p1, p2, hM,
      r0, r1, q0, q1, rfl, rfl, e1, e2, e3, e4⟩
  · cases hP

/-! ### 4. total unimodularity of series-parallel extensions (partial TU certification) -/

section TU
open Matrix

/-- entries on the index sets are in {-1,0,1} -/
def TernaryOn (M : Mat) (R C : List Nat) : Prop := ∀ r ∈ R, ∀ c ∈ C, isTernaryEntry (ent M r c) = true

theorem TernaryOn.mono {M : Mat} {R C R' C' : List Nat} (h : TernaryOn M R C) (hR : ∀ x ∈ R', x ∈ R)
    (hC : ∀ y ∈ C', y ∈ C) : TernaryOn M R' C' := fun r hr c hc => h r (hR r hr) c (hC c hc)

/-- Single step: putting back a zero line, a unit line or a (negated) copy of a line preserves total unimodularity.
The entries are assumed to be in {-1,0,1} (otherwise a unit line with entry 2 would be a counterexample); the index
lists need neither be duplicate-free nor in range. -/
theorem removable_TU {t : Bool} {M : Mat} {R C R' C' : List Nat} (h : C08.Removable t M R C R' C')
    (hT : TernaryOn M R C) (hTU : isTU R'.length C'.length (sub M R' C') = true) :
    isTU R.length C.length (sub M R C) = true := by
  rw [isTU_sub_iff_mxOn] at hTU ⊢
  rcases C08.removable_iff.mp h with ⟨r, hr, rfl, rfl⟩ | ⟨c, hc, rfl, rfl⟩
  · refine lineRem_TU ?_ hr hTU
    intro x hx y hy
    exact (isTernaryEntry_iff _).mp (hT x hx y hy)
  · rw [← transpose_isTotallyUnimodular_iff, mxOn_transpose] at hTU ⊢
    refine lineRem_TU ?_ hc hTU
    intro y hy x hx
    exact (isTernaryEntry_iff _).mp (hT x hx y hy)

/-- … hence along any removal sequence. -/
theorem reaches_TU {t : Bool} {M : Mat} {p q : List Nat × List Nat} (h : C08.Reaches t M p q)
    (hT : TernaryOn M p.1 p.2) (hTU : isTU q.1.length q.2.length (sub M q.1 q.2) = true) :
    isTU p.1.length p.2.length (sub M p.1 p.2) = true := by
  induction h with
  | refl => exact hTU
  | head hr _ ih =>
    obtain ⟨s1, s2⟩ := hr.subset
    exact removable_TU hr hT (ih (hT.mono s1 s2) hTU)

theorem isTU_nil (M : Mat) : isTU ([] : List Nat).length ([] : List Nat).length (sub M [] []) = true := rfl

/-- A series-parallel matrix with entries in {-1,0,1} is totally unimodular. -/
theorem isSP_TU {t : Bool} {M : Mat} {R C : List Nat} (h : C08.IsSP t M R C) (hT : TernaryOn M R C) :
    isTU R.length C.length (sub M R C) = true :=
  reaches_TU h hT (isTU_nil M)

theorem sub_range_eq {M : Mat} {m n : Nat} (hwf : M.wf m n = true) : sub M (List.range m) (List.range n) = M :=
  ofFn_ent hwf

/-- **Partial TU certification of a series-parallel node.**  If the node is accepted by `checkRecompose`, its matrix has
entries in {-1,0,1}, and the matrix of its child (if any) is totally unimodular, then the node's matrix is totally
unimodular. -/
theorem sp_node_TU_partial {nodes : List FNode} {nd : FNode} (h : checkRecompose nodes nd = .ok ())
    (ht : nd.type = NodeType.seriesParallel) (hter : isTernary nd.matrix.toDense = true)
    (hchild : ∀ ci ∈ nd.children, ∀ k, findNode nodes ci.child = some k →
      isTU k.matrix.numRows k.matrix.numCols k.matrix.toDense = true) :
    isTU nd.matrix.numRows nd.matrix.numCols nd.matrix.toDense = true := by
  obtain ⟨hlen, R, C, _, hreach, hnil, hcons⟩ := sp_child h ht
  have hwf : nd.matrix.toDense.wf nd.matrix.numRows nd.matrix.numCols = true := wf_ofFn _ _ _
  have hT : TernaryOn nd.matrix.toDense (List.range nd.matrix.numRows) (List.range nd.matrix.numCols) := by
    intro r hr c hc
    exact (isTernaryEntry_iff _).mpr (ent_ternary hwf hter (List.mem_range.mp hr) (List.mem_range.mp hc))
  have key : isTU R.length C.length (sub nd.matrix.toDense R C) = true := by
    cases hch : nd.children with
    | nil =>
      obtain ⟨rfl, rfl, _⟩ := hnil hch
      exact isTU_nil _
    | cons ci rest =>
      have : rest = [] := by
        rw [hch] at hlen
        simp only [List.length_cons] at hlen
        exact List.length_eq_zero_iff.mp (by omega)
      subst this
      obtain ⟨k, rs, cs, hf, _, _, l1, l2, _, _, mR, mC, hK⟩ := hcons ci hch
      have hk := hchild ci (by rw [hch]; exact List.mem_cons_self ..) k hf
      rw [← l1, ← l2, hK, isTU_sub_iff_mxOn] at hk
      rw [isTU_sub_iff_mxOn]
      exact mxOn_TU_of_subset (fun x hx => (mR x).mpr hx) (fun y hy => (mC y).mpr hy) hk
  have := reaches_TU hreach hT key
  simpa [sub_range_eq hwf] using this

/-- … in Mathlib's sense. -/
theorem sp_node_TU_partial_mathlib {nodes : List FNode} {nd : FNode} (h : checkRecompose nodes nd = .ok ())
    (ht : nd.type = NodeType.seriesParallel) (hter : isTernary nd.matrix.toDense = true)
    (hchild : ∀ ci ∈ nd.children, ∀ k, findNode nodes ci.child = some k →
      (toMx k.matrix.numRows k.matrix.numCols k.matrix.toDense).IsTotallyUnimodular) :
    (toMx nd.matrix.numRows nd.matrix.numCols nd.matrix.toDense).IsTotallyUnimodular :=
  (isTU_iff _ _ _).mp (sp_node_TU_partial h ht hter
    (fun ci hci k hk => (isTU_iff _ _ _).mpr (hchild ci hci k hk)))

end TU

/-! ### non-vacuity -/

section Examples

/-- the 1×1 matrix `[[1]]` in CSR form -/
def one11 : Csr := { numRows := 1, numCols := 1, nnz := 1, slice := [0, 1], cols := [0], vals := [1] }

/-- a graph leaf for `[[1]]`: two parallel edges, the first is the forest, the second the coforest -/
def leaf1 (id : Nat) : FNode :=
  { id := id, type := NodeType.graph, ternary := false, reg := 1, gra := 1, cogra := 0, pivots := [], reductions := [],
    minors := [], matrix := one11, transpose := some one11,
    graph := some { g := { nodes := [0, 1], edges := [{ id := 0, u := 0, v := 1 }, { id := 1, u := 0, v := 1 }] },
                    forest := [0], coforest := [1] },
    cograph := none, children := [] }

/-- a 1-sum root for the 2×2 identity matrix with two `[[1]]` leaves -/
def root2 : FNode :=
  { id := 0, type := NodeType.onesum, ternary := false, reg := 1, gra := 1, cogra := 0, pivots := [], reductions := [],
    minors := [],
    matrix := { numRows := 2, numCols := 2, nnz := 2, slice := [0, 1, 2], cols := [0, 1], vals := [1, 1] },
    transpose := none, graph := none, cograph := none,
    children := [{ rowsToParent := [-1], colsToParent := [1], specialRows := [], specialCols := [], child := 1 },
                 { rowsToParent := [-2], colsToParent := [2], specialRows := [], specialCols := [], child := 2 }] }

/-- a series-parallel root for `[[1, 1], [0, 1]]` (ternary): remove row 1 (unit, column 1), then column 1 (copy of
column 0); what remains is the child `[[1]]` on row 0, column 0 -/
def spRoot : FNode :=
  { id := 0, type := NodeType.seriesParallel, ternary := true, reg := 1, gra := 0, cogra := 0, pivots := [],
    reductions := [⟨-2, 2⟩, ⟨2, 1⟩], minors := [],
    matrix := { numRows := 2, numCols := 2, nnz := 3, slice := [0, 2, 3], cols := [0, 1, 1], vals := [1, 1, 1] },
    transpose := none, graph := none, cograph := none,
    children := [{ rowsToParent := [-1], colsToParent := [1], specialRows := [], specialCols := [], child := 1 }] }

/-- its child: `[[1]]` over GF(3), type unknown -/
def spLeaf : FNode :=
  { id := 1, type := NodeType.unknown, ternary := true, reg := 1, gra := 0, cogra := 0, pivots := [], reductions := [],
    minors := [], matrix := one11, transpose := none, graph := none, cograph := none, children := [] }

/-- a pivot root for `[[1, 1], [1, 0]]` over GF(2) with the pivot at (0,0); child `[[1, 1], [1, 1]]` -/
def pivRoot : FNode :=
  { id := 0, type := NodeType.pivots, ternary := false, reg := 0, gra := 0, cogra := 0, pivots := [(0, 0)],
    reductions := [], minors := [],
    matrix := { numRows := 2, numCols := 2, nnz := 3, slice := [0, 2, 3], cols := [0, 1, 0], vals := [1, 1, 1] },
    transpose := none, graph := none, cograph := none,
    children := [{ rowsToParent := [1, -2], colsToParent := [-1, 2], specialRows := [], specialCols := [], child := 1 }] }

def pivLeaf : FNode :=
  { id := 1, type := NodeType.unknown, ternary := false, reg := 0, gra := 0, cogra := 0, pivots := [], reductions := [],
    minors := [],
    matrix := { numRows := 2, numCols := 2, nnz := 4, slice := [0, 2, 4], cols := [0, 1, 0, 1], vals := [1, 1, 1, 1] },
    transpose := none, graph := none, cograph := none, children := [] }

/-- Non-vacuity: concrete trees are accepted, so the hypotheses of the theorems above are satisfiable for a leaf, a
1-sum node, a series-parallel node with child and a pivot node; and a tree with a missing child is rejected. -/
example : checkTree [leaf1 7] = .ok () ∧ checkTree [root2, leaf1 1, leaf1 2] = .ok () ∧
    checkTree [spRoot, spLeaf] = .ok () ∧ checkTree [pivRoot, pivLeaf] = .ok () := ⟨rfl, rfl, rfl, rfl⟩

example : (match checkTree [root2, leaf1 1] with | .ok _ => true | .error _ => false) = false := by decide

/-- … and the theorems apply to them: -/
example : isTU 2 2 spRoot.matrix.toDense = true := by
  have h : checkRecompose [spRoot, spLeaf] spRoot = .ok () := rfl
  refine sp_node_TU_partial h rfl (by decide) ?_
  intro ci hci k hk
  simp only [spRoot, List.mem_singleton] at hci
  subst hci
  have : k = spLeaf := by
    have h2 : findNode [spRoot, spLeaf] 1 = some spLeaf := rfl
    rw [h2] at hk
    exact (Option.some.inj hk).symm
  subst this
  decide

example : isPerm [2, 0, 1] 3 = true ∧ isPerm [0, 0, 1] 3 = false ∧ isPerm [0, 1, 3] 3 = false := by decide

end Examples

end Cmr.Props.C03
