/-
  Property C05, completeness of the brute-force graphicness oracle: a `no` of `isGraphic` is trustworthy.

  Model: `Cmr/Graph.lean`.  `graphicSearch m n M` enumerates all lists `p ∈ parentFns m m` (functions `{1..m} → {0..m}`),
  forms the edge list `parentEdges p` (edge `i` joins node `i+1` with `p[i]`), keeps it if the union-find test
  `forestLabels (range (m+1))` accepts it (then it is a spanning tree of the nodes `0..m`) and if for every column `j` the
  support `{i | M[i][j] ≠ 0}` passes `supportIsPath` (degrees ≤ 2, exactly two odd nodes, and the tree path between them
  has exactly these edges).

  What is proved (`isGraphic_complete`): whenever `M = cycleMatrix T coT false` for a spanning forest `T` of some graph `g`
  (any number of components, isolated nodes, arbitrary node names, parallel edges, loops among the coforest edges), the
  oracle answers `true` for `M` with `m = |T|`, `n = |coT|`.

  Proof (lemmas in `CmrProofs/Lemmas/GraphComplete.lean`):
  (a) `forestLabels` accepts iff no edge joins nodes connected by earlier edges (`forestLabels_isSome_iff`); then every edge
      is a bridge (`bridges_of_incremental`); the edges can be assigned injectively to "child" ends (`exists_rooting`);
      renaming the child end of edge `i` to `i+1` and every other node to `0` glues the components at their roots, drops
      isolated nodes and yields `parentEdges (parentOf T c)`, again a bridge forest (`parentEdges_bridgeForest`), with
      every walk of `T` mapped to a walk with the same edge indices (`walk_parentEdges`);
  (b) `parentOf T c ∈ parentFns m m` (`mem_parentFns_of`);
  (c) in a bridge forest `supportIsPath` accepts the edge set of every walk with distinct edges (`supportIsPath_of_walk`),
      using completeness of `treePath` (`treePath_complete`) and uniqueness of such walks (`walk_unique`).

  The signed analogue for `isNetwork` / `networkSearch` (property C06) is `isNetwork_complete`: same tree, arc `i` of the
  new tree reversed iff the tail of arc `i` of `T` is not its child end (`orientOf`), so that walks keep their directions
  (`walk_reorient`); `signedColumnOk` then finds the column itself or its negative (`signedColumnOk_of_walk`).

  Not proved here (other direction, not needed for the trustworthiness of a `no`): that `isGraphic m n M = true` implies
  the existence of a realisation with `cycleMatrix … = some M`; `C05.graphicSearch_sound` only states that the returned
  tree passes the decider.
-/
import CmrProofs.Lemmas.GraphComplete

set_option linter.unusedSimpArgs false
set_option linter.unusedVariables false

namespace Cmr.Props.C05Complete
open Cmr

theorem mem_parentEdges_parentOf {T : List Edge} {c : Nat → Nat} {e : Edge} (h : e ∈ parentEdges (parentOf T c)) :
    e.u ∈ List.range (T.length + 1) ∧ e.v ∈ List.range (T.length + 1) := by
  obtain ⟨i, hi⟩ := List.mem_iff_getElem?.mp h
  rw [parentEdges_parentOf_getElem?] at hi
  cases hT : T[i]? with
  | none => simp [hT] at hi
  | some ei =>
    have hlt := (List.getElem?_eq_some_iff.mp hT).1
    simp only [hT, Option.map_some, Option.some.injEq] at hi
    subst hi
    simp only [List.mem_range]
    have := nodeIdx_le c T.length (otherEnd ei (c i))
    omega

/-- The tree test of both searches (`graphicSearch`, `networkSearch`) accepts the renamed, glued tree
`parentEdges (parentOf T c)` for the (signed or unsigned) fundamental-cycle matrix of `T`. -/
theorem treeCond_complete {signed : Bool} {T coT : List Edge} {M : Mat} (hb : IsBridgeForest T) {c : Nat → Nat}
    (hc : IsRooting T c) (hM : cycleMatrix T coT signed = some M) :
    ((forestLabels (List.range (T.length + 1)) (parentEdges (parentOf T c))).isSome &&
      (List.range coT.length).all (fun j => supportIsPath (parentEdges (parentOf T c))
        ((List.range T.length).filter (fun i => ent M i j != 0)))) = true := by
  have hb' := parentEdges_bridgeForest hb hc
  obtain ⟨_, hcols⟩ := cycleMatrix_spec hM
  have h1 : (forestLabels (List.range (T.length + 1)) (parentEdges (parentOf T c))).isSome = true :=
    (forestLabels_isSome_iff (fun e he => mem_parentEdges_parentOf he)).mpr hb'.incr
  have h2 : (List.range coT.length).all (fun j => supportIsPath (parentEdges (parentOf T c))
      ((List.range T.length).filter (fun i => ent M i j != 0))) = true := by
    rw [List.all_eq_true]
    intro j hj
    have hj : j < coT.length := by simpa using hj
    obtain ⟨w, hw, nd, hent⟩ := hcols j hj
    obtain ⟨w', hw', hfst⟩ := walk_parentEdges hc hw
    refine supportIsPath_of_walk hb' hw' (hfst ▸ nd) (List.Nodup.sublist List.filter_sublist List.nodup_range) ?_
    intro k
    rw [hfst]
    exact mem_support_iff hw rfl hent k
  rw [h1, h2]; rfl

/-- The search succeeds on the fundamental-cycle matrix of any forest `T` (accepted by the union-find test on a node list
containing all its ends) with respect to any list `coT` of edges whose ends are joined by `T`. -/
theorem graphicSearch_complete {nodes : List Nat} {T coT : List Edge} {M : Mat}
    (hn : ∀ e ∈ T, e.u ∈ nodes ∧ e.v ∈ nodes) (hf : (forestLabels nodes T).isSome = true)
    (hM : cycleMatrix T coT false = some M) : (graphicSearch T.length coT.length M).isSome = true := by
  have hincr := (forestLabels_isSome_iff hn).mp hf
  have hb := bridges_of_incremental hincr
  obtain ⟨c, hc⟩ := exists_rooting hincr
  unfold graphicSearch
  rw [List.findSome?_isSome_iff]
  refine ⟨parentOf T c, mem_parentFns_of _ _ (parentOf_length T c) (parentOf_le T c), ?_⟩
  simp only [treeCond_complete hb hc hM, if_true, Option.isSome_some]

/-- **Completeness of the graphicness oracle.**  If `M` is the fundamental-cycle matrix `M(G,T)` of a spanning forest `T`
of a graph `g` with respect to a coforest list `coT`, then `isGraphic` answers `true` (with `m = |T|` rows and `n = |coT|`
columns).  Contrapositively: `isGraphic m n M = false` excludes every such realisation. -/
theorem isGraphic_complete {g : Graph} {T coT : List Edge} {M : Mat} (hsp : isSpanningForest g T = true)
    (hM : cycleMatrix T coT false = some M) : isGraphic T.length coT.length M = true := by
  unfold isGraphic
  rw [Bool.and_eq_true]
  exact ⟨cycleMatrix_binary hM,
    graphicSearch_complete (isSpanningForest_nodes hsp) (isSpanningForest_isForest hsp) hM⟩

/-- the same with the row/column counts as parameters, in the form asked for by the tie of C05 -/
theorem isGraphic_complete' {m n : Nat} {g : Graph} {T coT : List Edge} {M : Mat} (hm : T.length = m)
    (hn : coT.length = n) (hsp : isSpanningForest g T = true) (hM : cycleMatrix T coT false = some M) :
    M.wf m n = true ∧ isGraphic m n M = true := by
  subst hm hn
  exact ⟨(cycleMatrix_spec hM).1, isGraphic_complete hsp hM⟩

/-- every matrix accepted by the certificate checker is accepted by the oracle: checker and oracle cannot disagree in the
direction "certificate accepted, oracle says no" -/
theorem isGraphic_of_checkGraphCert {m n : Nat} {M : Mat} {g : Graph} {forest coforest : List Nat}
    (h : checkGraphCert m n M g forest coforest false = .ok ()) : isGraphic m n M = true := by
  obtain ⟨h1, h2, _, _, _, T, coT, hT, hcoT, hsp, hC⟩ := (checkGraphCert_ok_iff _ _ _ _ _ _ _).mp h
  obtain ⟨hTl, _⟩ := edgesOf_spec hT
  obtain ⟨hcl, _⟩ := edgesOf_spec hcoT
  exact (isGraphic_complete' (by omega) (by omega) hsp hC).2

/-- a `no` of the oracle is trustworthy: then no graph, spanning forest and coforest list realise `M` -/
theorem not_realisable_of_isGraphic_false {m n : Nat} {M : Mat} (h : isGraphic m n M = false) :
    ¬ ∃ (g : Graph) (T coT : List Edge), T.length = m ∧ coT.length = n ∧ isSpanningForest g T = true ∧
      cycleMatrix T coT false = some M := by
  rintro ⟨g, T, coT, hm, hn, hsp, hM⟩
  rw [(isGraphic_complete' hm hn hsp hM).2] at h
  cases h

/-! ### the signed analogue: completeness of the network-matrix oracle -/

/-- The network search succeeds on the signed fundamental-cycle matrix `M(D,T)` of any forest of arcs `T`: the same
renamed tree as in the unsigned case, with arc `i` reversed iff the tail of arc `i` of `T` is not its child end. -/
theorem networkSearch_complete {nodes : List Nat} {T coT : List Edge} {M : Mat}
    (hn : ∀ e ∈ T, e.u ∈ nodes ∧ e.v ∈ nodes) (hf : (forestLabels nodes T).isSome = true)
    (hM : cycleMatrix T coT true = some M) : (networkSearch T.length coT.length M).isSome = true := by
  have hincr := (forestLabels_isSome_iff hn).mp hf
  have hb := bridges_of_incremental hincr
  obtain ⟨c, hc⟩ := exists_rooting hincr
  obtain ⟨_, hcols⟩ := cycleMatrix_spec hM
  unfold networkSearch
  rw [List.findSome?_isSome_iff]
  refine ⟨parentOf T c, mem_parentFns_of _ _ (parentOf_length T c) (parentOf_le T c), ?_⟩
  simp only [treeCond_complete hb hc hM, if_true]
  rw [List.findSome?_isSome_iff]
  refine ⟨orientOf T c, by simpa [orientOf_length] using mem_boolVecs (orientOf T c), ?_⟩
  have hall : (List.range coT.length).all (fun j =>
      signedColumnOk (reorient (parentEdges (parentOf T c)) (orientOf T c)) T.length M j) = true := by
    rw [List.all_eq_true]
    intro j hj
    have hj : j < coT.length := by simpa using hj
    obtain ⟨w, hw, nd, hent⟩ := hcols j hj
    exact signedColumnOk_of_walk (reorient_bridgeForest hb hc) (walk_reorient hb hc hw) nd
      (reorient_parent_length T c) hent
  change (if (List.range coT.length).all (fun j =>
      signedColumnOk (reorient (parentEdges (parentOf T c)) (orientOf T c)) T.length M j) = true
    then some (reorient (parentEdges (parentOf T c)) (orientOf T c)) else none).isSome = true
  rw [hall]; rfl

/-- **Completeness of the network-matrix oracle.**  If `M` is the signed fundamental-cycle matrix `M(D,T)` of a spanning
forest `T` of a digraph `g` with respect to a coforest list `coT`, then `isNetwork` answers `true`. -/
theorem isNetwork_complete {g : Graph} {T coT : List Edge} {M : Mat} (hsp : isSpanningForest g T = true)
    (hM : cycleMatrix T coT true = some M) : isNetwork T.length coT.length M = true := by
  unfold isNetwork
  rw [Bool.and_eq_true]
  exact ⟨cycleMatrix_ternary hM,
    networkSearch_complete (isSpanningForest_nodes hsp) (isSpanningForest_isForest hsp) hM⟩

theorem isNetwork_complete' {m n : Nat} {g : Graph} {T coT : List Edge} {M : Mat} (hm : T.length = m)
    (hn : coT.length = n) (hsp : isSpanningForest g T = true) (hM : cycleMatrix T coT true = some M) :
    M.wf m n = true ∧ isNetwork m n M = true := by
  subst hm hn
  exact ⟨(cycleMatrix_spec hM).1, isNetwork_complete hsp hM⟩

/-- every matrix accepted by the signed certificate checker is accepted by the network oracle -/
theorem isNetwork_of_checkGraphCert {m n : Nat} {M : Mat} {g : Graph} {forest coforest : List Nat}
    (h : checkGraphCert m n M g forest coforest true = .ok ()) : isNetwork m n M = true := by
  obtain ⟨h1, h2, _, _, _, T, coT, hT, hcoT, hsp, hC⟩ := (checkGraphCert_ok_iff _ _ _ _ _ _ _).mp h
  obtain ⟨hTl, _⟩ := edgesOf_spec hT
  obtain ⟨hcl, _⟩ := edgesOf_spec hcoT
  exact (isNetwork_complete' (by omega) (by omega) hsp hC).2

/-- a `no` of the network oracle is trustworthy -/
theorem not_realisable_of_isNetwork_false {m n : Nat} {M : Mat} (h : isNetwork m n M = false) :
    ¬ ∃ (g : Graph) (T coT : List Edge), T.length = m ∧ coT.length = n ∧ isSpanningForest g T = true ∧
      cycleMatrix T coT true = some M := by
  rintro ⟨g, T, coT, hm, hn, hsp, hM⟩
  rw [(isNetwork_complete' hm hn hsp hM).2] at h
  cases h

/-- Non-vacuity: `K4` on the nodes `10, 20, 30, 40` (so that renaming is needed) plus an isolated node `50`, with the star
at `10` as spanning tree: the hypotheses of `isGraphic_complete` hold, the matrix is the 3×3 matrix with triangle
supports, and the oracle evaluates to `true`. -/
example :
    let T : List Edge := [⟨0, 10, 20, false⟩, ⟨1, 30, 10, false⟩, ⟨2, 10, 40, false⟩]
    let coT : List Edge := [⟨3, 20, 30, false⟩, ⟨4, 20, 40, false⟩, ⟨5, 40, 30, false⟩]
    let g : Graph := { nodes := [10, 20, 30, 40, 50], edges := T ++ coT }
    isSpanningForest g T = true ∧
    cycleMatrix T coT false = some [[1, 1, 0], [1, 0, 1], [0, 1, 1]] ∧
    isGraphic 3 3 [[1, 1, 0], [1, 0, 1], [0, 1, 1]] = true := by decide

/-- a forest with two components and a loop in the coforest: `T = {1–2, 3–4}`, coforest `{2–1, 4–3, 5–5}` -/
example :
    let T : List Edge := [⟨0, 1, 2, false⟩, ⟨1, 3, 4, false⟩]
    let coT : List Edge := [⟨2, 2, 1, false⟩, ⟨3, 4, 3, false⟩, ⟨4, 5, 5, false⟩]
    let g : Graph := { nodes := [1, 2, 3, 4, 5], edges := T ++ coT }
    isSpanningForest g T = true ∧
    cycleMatrix T coT false = some [[1, 0, 0], [0, 1, 0]] ∧
    isGraphic 2 3 [[1, 0, 0], [0, 1, 0]] = true := by decide

/-- the theorem applied to the first example (instead of evaluating the oracle) -/
example : isGraphic 3 3 [[1, 1, 0], [1, 0, 1], [0, 1, 1]] = true :=
  isGraphic_complete
    (g := { nodes := [10, 20, 30, 40, 50],
            edges := [⟨0, 10, 20, false⟩, ⟨1, 30, 10, false⟩, ⟨2, 10, 40, false⟩, ⟨3, 20, 30, false⟩,
                      ⟨4, 20, 40, false⟩, ⟨5, 40, 30, false⟩] })
    (T := [⟨0, 10, 20, false⟩, ⟨1, 30, 10, false⟩, ⟨2, 10, 40, false⟩])
    (coT := [⟨3, 20, 30, false⟩, ⟨4, 20, 40, false⟩, ⟨5, 40, 30, false⟩]) (by decide) (by decide)

/-- signed non-vacuity: a directed triangle-plus-star with a reversed arc; hypotheses hold and the oracle says `true` -/
example :
    let T : List Edge := [⟨0, 10, 20, false⟩, ⟨1, 30, 10, true⟩, ⟨2, 10, 40, false⟩]
    let coT : List Edge := [⟨3, 20, 30, false⟩, ⟨4, 40, 20, false⟩]
    let g : Graph := { nodes := [10, 20, 30, 40, 50], edges := T ++ coT }
    isSpanningForest g T = true ∧
    cycleMatrix T coT true = some [[-1, 1], [1, 0], [0, -1]] ∧
    isNetwork 3 2 [[-1, 1], [1, 0], [0, -1]] = true := by decide

end Cmr.Props.C05Complete
