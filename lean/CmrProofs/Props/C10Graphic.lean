/-
  Property C10, the graph classes: the relation table `Step.rel` of `Cmr/Rel.lean` for `gra`, `cog`, `net`, `con`
  (`C10.lean` only has the transposition entries `graphic_T`, `network_T` for these classes).

  Oracles: `isGraphic m n M` / `isNetwork m n M` of `Cmr/Graph.lean` (brute force over all trees on the nodes `0..m`, rows =
  forest edges, columns = non-forest edges), `isCographic` / `isConetwork` = the same on the transpose (`RelLemmas`).

  Route (`CmrProofs/Lemmas/GraStepLemmas.lean`): for well-formed `M` the oracles decide the declarative statement
  `Realises signed m n M` — there is a forest `T` with `m` edges, every edge a bridge, such that every column of `M` is the
  (signed) incidence vector of a walk with distinct edges in `T` (`isGraphic_iff`, `isNetwork_iff`) — and `Realises` is
  closed under the graph operations behind the steps:
    P        reordering forest / non-forest edges;
    S        deleting non-forest edges, contracting forest edges (`realises_sub`); only yes ⇒ yes;
    ZC UC DC a loop; an edge parallel to a forest edge; an edge parallel (sign `-1`: antiparallel) to a non-forest edge;
    ZR UR DR a coloop; a forest edge in series with a non-forest edge; a forest edge in series with a forest edge;
    NR NC    reversing a forest / non-forest arc (signed reading only).
  The reverse direction of every insertion is the slice that removes the inserted line.

  Main statements
  * `orc_step_iff`, `orc_step_imp` (`orc true = isNetwork`, `orc false = isGraphic`): every step other than `T` and the
    pivots with table entry `iff` (`imp`) for `net` / `gra` leaves the verdict unchanged (maps yes to yes); the same for
    the dual oracles: `orcD_step_iff`, `orcD_step_imp`; specialisations `gra_step_iff`, `net_step_iff`, `cog_step_iff`,
    `con_step_iff`, `gra_P`, `gra_S`, `gra_rowInsertion`, `gra_colInsertion`, `net_NR`, `net_NC`, … ;
  * `graph_step_iff`, `graph_step_imp`, `graph_steps`: one step including `T`, and lists of non-pivot steps, for the
    class-indexed `verdict` of the four graph classes, in the form of `stepsRel`.
  No 0/1 or ternarity hypothesis is needed (the oracles refuse other entries before and after every step); the matrix has
  to be well-formed.  Sign `-1` insertions are `iff` only for `net` / `con`, exactly as in the table.
  Not covered: the pivots `V2` (for `gra`, `cog`) and `V3` (for `net`, `con`).
-/
import CmrProofs.Lemmas.GraStepLemmas
import CmrProofs.Props.C10

set_option linter.unusedSimpArgs false
set_option linter.unusedVariables false

namespace Cmr.Props.C10Graphic
open Cmr Cmr.GraStep

/-- the two oracles under one name: `isNetwork` for the signed reading, `isGraphic` for the unsigned one -/
def orc : Bool → Nat → Nat → Mat → Bool
  | true => isNetwork
  | false => isGraphic

theorem orc_iff_realises {signed : Bool} {m n : Nat} {M : Mat} (hwf : M.wf m n = true) :
    orc signed m n M = true ↔ Realises signed m n M := by
  cases signed
  · exact isGraphic_iff_realises hwf
  · exact isNetwork_iff_realises hwf

/-- minors (contract the forest edges outside `rows`, delete the non-forest edges outside `cols`): yes stays yes -/
theorem orc_S {signed : Bool} {m n : Nat} {M : Mat} (hwf : M.wf m n = true) {rows cols : List Nat} (hnd : rows.Nodup)
    (hr : ∀ x ∈ rows, x < m) (hc : ∀ x ∈ cols, x < n) (h : orc signed m n M = true) :
    orc signed rows.length cols.length (sub M rows cols) = true :=
  (orc_iff_realises (wf_sub M rows cols)).mpr (realises_sub ((orc_iff_realises hwf).mp h) hnd hr hc)

theorem orc_P {signed : Bool} {m n : Nat} {M : Mat} (hwf : M.wf m n = true) {rows cols : List Nat}
    (hr : isPermOf rows m = true) (hc : isPermOf cols n = true) :
    orc signed m n (sub M rows cols) = orc signed m n M := by
  obtain ⟨hl, hlt, hnd⟩ := (isPermOf_iff rows m).mp hr
  obtain ⟨hl', hlt', _⟩ := (isPermOf_iff cols n).mp hc
  have hwf' : (sub M rows cols).wf m n = true := by
    have := wf_sub M rows cols; rwa [hl, hl'] at this
  rw [Bool.eq_iff_iff]
  constructor
  · intro h
    obtain ⟨il, ilt, ind⟩ := (isPermOf_iff _ m).mp (isPermOf_invPerm hr)
    obtain ⟨il', ilt', _⟩ := (isPermOf_iff _ n).mp (isPermOf_invPerm hc)
    have := orc_S hwf' ind ilt ilt' h
    rwa [sub_invPerm hwf hr hc, il, il'] at this
  · intro h
    have := orc_S hwf hnd hlt hlt' h
    rwa [hl, hl'] at this

theorem orc_colIns {signed : Bool} {m n : Nat} {M : Mat} (hwf : M.wf m n = true) {s : Step} {pos : Nat}
    (hs : s.colInsOk m n pos) (h1 : signed = true ∨ s.unitSign = true) :
    orc signed m (n + 1) (insertCol M pos (s.newCol M)) = orc signed m n M := by
  have hp : pos ≤ n := by cases s <;> simp only [Step.colInsOk] at hs <;> first | exact hs.2 | exact hs.2.1
  have hwf' : (insertCol M pos (s.newCol M)).wf m (n + 1) = true := wf_insertCol hwf
  rw [Bool.eq_iff_iff]
  constructor
  · intro h
    have := orc_S hwf' (rows := List.range m) (cols := skipIdx n pos) List.nodup_range (by simp)
      skipIdx_lt h
    rwa [sub_skip_insertCol hwf hp, List.length_range, length_skipIdx] at this
  · intro h
    exact (orc_iff_realises hwf').mpr (realises_colIns hwf hs h1 ((orc_iff_realises hwf).mp h))

theorem orc_rowIns {signed : Bool} {m n : Nat} {M : Mat} (hwf : M.wf m n = true) {s : Step} {pos : Nat}
    (hs : s.rowInsOk m n pos) (h1 : signed = true ∨ s.unitSign = true) :
    orc signed (m + 1) n (insertRow M pos (s.newRow n M)) = orc signed m n M := by
  have hp : pos ≤ m := by cases s <;> simp only [Step.rowInsOk] at hs <;> first | exact hs.2 | exact hs.2.1
  have hwf' : (insertRow M pos (s.newRow n M)).wf (m + 1) n = true := wf_insertRow hwf (length_newRow hwf hs)
  rw [Bool.eq_iff_iff]
  constructor
  · intro h
    have := orc_S hwf' (rows := skipIdx m pos) (cols := List.range n) (skipIdx_nodup m pos) skipIdx_lt (by simp) h
    rwa [sub_skip_insertRow hwf hp, List.length_range, length_skipIdx] at this
  · intro h
    exact (orc_iff_realises hwf').mpr (realises_rowIns hwf hs h1 ((orc_iff_realises hwf).mp h))

theorem orc_NR {m n : Nat} {M : Mat} (hwf : M.wf m n = true) (i : Nat) :
    orc true m n (negRow M i) = orc true m n M := by
  have hwf' := wf_negRow hwf i
  rw [Bool.eq_iff_iff, orc_iff_realises hwf, orc_iff_realises hwf']
  constructor
  · exact realises_negRow i (fun r _ c _ => by rw [ent_negRow]; by_cases h : r = i <;> simp [h])
  · exact realises_negRow i (fun r _ c _ => ent_negRow M i r c)

theorem orc_NC {m n : Nat} {M : Mat} (hwf : M.wf m n = true) (j : Nat) :
    orc true m n (negCol M j) = orc true m n M := by
  have hwf' := wf_negCol hwf j
  rw [Bool.eq_iff_iff, orc_iff_realises hwf, orc_iff_realises hwf']
  constructor
  · exact realises_negCol j (fun r _ c _ => by rw [ent_negCol]; by_cases h : c = j <;> simp [h])
  · exact realises_negCol j (fun r _ c _ => ent_negCol M j r c)

/-! ### the table entries for `gra` and `net`, step by step -/

/-- `net` for the signed reading, `gra` for the unsigned one -/
def graCls (signed : Bool) : Cls := if signed then .net else .gra

/-- for `gra`, an insertion step with table entry `iff` has sign `+1` -/
theorem graCls_rel_sign {signed : Bool} {s : Step} (hrel : s.rel (graCls signed) = .iff) :
    signed = true ∨ s.unitSign = true := by
  cases signed
  · right
    cases s <;> simp only [Step.unitSign] <;> rename_i p q sg <;>
      · by_cases h : sg = 1
        · simp [h]
        · simp [graCls, Step.rel, Cls.beq_eq_decide, Cls.binaryOnly, h] at hrel
  · exact Or.inl rfl

/-- **Every step other than a transposition or a pivot whose table entry for `gra` (`net`) is `iff` leaves the verdict of
`isGraphic` (`isNetwork`) unchanged.** -/
theorem orc_step_iff {signed : Bool} {s : Step} (hnp : s.isPivot = false) (hT : s ≠ .T)
    (hrel : s.rel (graCls signed) = .iff) {m n : Nat} {M : Mat} {m' n' : Nat} {M' : Mat}
    (h : s.apply m n M = some (m', n', M')) (hwf : M.wf m n = true) : orc signed m' n' M' = orc signed m n M := by
  have hsg := graCls_rel_sign hrel
  cases s with
  | T => exact absurd rfl hT
  | P rows cols =>
    obtain ⟨hr, hc, rfl, rfl, rfl⟩ := apply_P_iff.mp h
    exact orc_P hwf hr hc
  | S rows cols => simp [Step.rel] at hrel
  | V2 r c => simp [Step.isPivot] at hnp
  | V3 r c => simp [Step.isPivot] at hnp
  | NR i =>
    obtain ⟨_, rfl, rfl, rfl⟩ := apply_NR_iff.mp h
    cases signed
    · simp [graCls, Step.rel, Cls.binaryOnly] at hrel
    · exact orc_NR hwf i
  | NC j =>
    obtain ⟨_, rfl, rfl, rfl⟩ := apply_NC_iff.mp h
    cases signed
    · simp [graCls, Step.rel, Cls.binaryOnly] at hrel
    · exact orc_NC hwf j
  | ZR pos =>
    obtain ⟨p, hs, rfl, rfl, rfl⟩ := apply_rowIns rfl h
    exact orc_rowIns hwf hs hsg
  | UR pos j sg =>
    obtain ⟨p, hs, rfl, rfl, rfl⟩ := apply_rowIns rfl h
    exact orc_rowIns hwf hs hsg
  | DR pos i sg =>
    obtain ⟨p, hs, rfl, rfl, rfl⟩ := apply_rowIns rfl h
    exact orc_rowIns hwf hs hsg
  | ZC pos =>
    obtain ⟨p, hs, rfl, rfl, rfl⟩ := apply_colIns rfl h
    exact orc_colIns hwf hs hsg
  | UC pos i sg =>
    obtain ⟨p, hs, rfl, rfl, rfl⟩ := apply_colIns rfl h
    exact orc_colIns hwf hs hsg
  | DC pos j sg =>
    obtain ⟨p, hs, rfl, rfl, rfl⟩ := apply_colIns rfl h
    exact orc_colIns hwf hs hsg

/-- **A slice maps yes to yes.** -/
theorem orc_step_imp {signed : Bool} {s : Step} (hrel : s.rel (graCls signed) = .imp) {m n : Nat} {M : Mat}
    {m' n' : Nat} {M' : Mat} (h : s.apply m n M = some (m', n', M')) (hwf : M.wf m n = true)
    (hyes : orc signed m n M = true) : orc signed m' n' M' = true := by
  obtain ⟨rows, cols, rfl⟩ := C10.rel_imp_isSlice hrel
  obtain ⟨hr, hc, hnr, _, rfl, rfl, rfl⟩ := apply_S_iff.mp h
  exact orc_S hwf hnr hr hc hyes

/-! ### the dual classes `cog`, `con`: the same oracles on the transpose -/

theorem transpose_sub {M : Mat} {m n : Nat} {rows cols : List Nat} (hr : ∀ x ∈ rows, x < m) (hc : ∀ x ∈ cols, x < n) :
    transpose rows.length cols.length (sub M rows cols) = sub (transpose m n M) cols rows := by
  apply mat_ext (wf_transpose _ _ _) (wf_sub _ cols rows)
  intro i hi j hj
  rw [ent_transpose _ hi hj, ent_sub _ _ _ hj hi, ent_sub _ _ _ hi hj,
    ent_transpose _ (hc _ (List.getElem_mem hi)) (hr _ (List.getElem_mem hj))]

theorem transpose_negRow {M : Mat} {m n : Nat} (hwf : M.wf m n = true) (i : Nat) :
    transpose m n (negRow M i) = negCol (transpose m n M) i := by
  apply mat_ext (wf_transpose _ _ _) (wf_negCol (wf_transpose m n M) i)
  intro k hk j hj
  rw [ent_transpose _ hk hj, ent_negCol, ent_negRow, ent_transpose _ hk hj]

/-- the column-insertion step that a row-insertion step becomes under transposition -/
def toColIns : Step → Step
  | .ZR p => .ZC p
  | .UR p j s => .UC p j s
  | .DR p i s => .DC p i s
  | s => s

theorem rowIns_toColIns {m n : Nat} {s : Step} {pos : Nat} (hs : s.rowInsOk m n pos) :
    (toColIns s).colInsOk n m pos ∧ (toColIns s).unitSign = s.unitSign := by
  cases s <;> simp only [Step.rowInsOk] at hs
  · exact ⟨hs, rfl⟩
  · exact ⟨hs, rfl⟩
  · exact ⟨hs, rfl⟩

theorem transpose_rowIns {M : Mat} {m n : Nat} (hwf : M.wf m n = true) {s : Step} {pos : Nat} (hs : s.rowInsOk m n pos) :
    transpose (m + 1) n (insertRow M pos (s.newRow n M)) =
      insertCol (transpose m n M) pos ((toColIns s).newCol (transpose m n M)) := by
  have hp : pos ≤ m := by cases s <;> simp only [Step.rowInsOk] at hs <;> first | exact hs.2 | exact hs.2.1
  have hl := length_of_wf hwf
  apply mat_ext (wf_transpose _ _ _) (wf_insertCol (wf_transpose m n M))
  intro i hi j hj
  rw [ent_transpose _ hi hj, ent_insertRow M _ (by omega), ent_insertCol _ (wf_transpose m n M) hp hi]
  by_cases h1 : j < pos
  · simp only [h1, if_true]; rw [ent_transpose _ hi (by omega)]
  · by_cases h2 : j = pos
    · simp only [h1, h2, if_false, if_true]
      cases s <;> simp only [Step.rowInsOk] at hs
      · simp [Step.newRow, toColIns, Step.newCol, List.getD_eq_getElem?_getD, List.getElem?_replicate, hi]
      · rename_i p c sg
        simp only [Step.newRow, toColIns, Step.newCol]
        rw [getD_unitVec sg hi]; simp
      · rename_i p r sg
        simp only [Step.newRow, toColIns, Step.newCol]
        rw [getD_scaledRow, ent_transpose _ hi hs.2.2.1]
        simp
    · simp only [h1, h2, if_false]; rw [ent_transpose _ hi (by omega)]

/-- the oracle of the dual class (`isCographic` for the unsigned, `isConetwork` for the signed reading) -/
def orcD (signed : Bool) (m n : Nat) (M : Mat) : Bool := orc signed n m (transpose m n M)

theorem orcD_S {signed : Bool} {m n : Nat} {M : Mat} (hwf : M.wf m n = true) {rows cols : List Nat} (hnd : cols.Nodup)
    (hr : ∀ x ∈ rows, x < m) (hc : ∀ x ∈ cols, x < n) (h : orcD signed m n M = true) :
    orcD signed rows.length cols.length (sub M rows cols) = true := by
  unfold orcD at h ⊢
  rw [transpose_sub hr hc]
  exact orc_S (wf_transpose m n M) hnd hc hr h

theorem orcD_P {signed : Bool} {m n : Nat} {M : Mat} (hwf : M.wf m n = true) {rows cols : List Nat}
    (hr : isPermOf rows m = true) (hc : isPermOf cols n = true) :
    orcD signed m n (sub M rows cols) = orcD signed m n M := by
  obtain ⟨hl, hlt, _⟩ := (isPermOf_iff rows m).mp hr
  obtain ⟨hl', hlt', _⟩ := (isPermOf_iff cols n).mp hc
  have := transpose_sub (M := M) hlt hlt'
  rw [hl, hl'] at this
  unfold orcD
  rw [this]
  exact orc_P (wf_transpose m n M) hc hr

theorem orcD_rowIns {signed : Bool} {m n : Nat} {M : Mat} (hwf : M.wf m n = true) {s : Step} {pos : Nat}
    (hs : s.rowInsOk m n pos) (h1 : signed = true ∨ s.unitSign = true) :
    orcD signed (m + 1) n (insertRow M pos (s.newRow n M)) = orcD signed m n M := by
  obtain ⟨h2, h3⟩ := rowIns_toColIns hs
  unfold orcD
  rw [transpose_rowIns hwf hs]
  exact orc_colIns (wf_transpose m n M) h2 (by rw [h3]; exact h1)

theorem orcD_colIns {signed : Bool} {m n : Nat} {M : Mat} (hwf : M.wf m n = true) {s : Step} {pos : Nat}
    (hs : s.colInsOk m n pos) (h1 : signed = true ∨ s.unitSign = true) :
    orcD signed m (n + 1) (insertCol M pos (s.newCol M)) = orcD signed m n M := by
  obtain ⟨h2, h3, _⟩ := colIns_toRowIns hwf hs
  unfold orcD
  rw [transpose_colIns hwf hs]
  exact orc_rowIns (wf_transpose m n M) h2 (by rw [h3]; exact h1)

theorem orcD_NR {m n : Nat} {M : Mat} (hwf : M.wf m n = true) (i : Nat) :
    orcD true m n (negRow M i) = orcD true m n M := by
  unfold orcD
  rw [transpose_negRow hwf]
  exact orc_NC (wf_transpose m n M) i

theorem orcD_NC {m n : Nat} {M : Mat} (hwf : M.wf m n = true) (j : Nat) :
    orcD true m n (negCol M j) = orcD true m n M := by
  unfold orcD
  rw [transpose_negCol hwf]
  exact orc_NR (wf_transpose m n M) j

theorem graCls_dual_rel_sign {signed : Bool} {s : Step} (hrel : s.rel (graCls signed).dual = .iff) :
    signed = true ∨ s.unitSign = true := by
  cases signed
  · right
    cases s <;> simp only [Step.unitSign] <;> rename_i p q sg <;>
      · by_cases h : sg = 1
        · simp [h]
        · simp [graCls, Cls.dual, Step.rel, Cls.beq_eq_decide, Cls.binaryOnly, h] at hrel
  · exact Or.inl rfl

/-- **Every step other than a transposition or a pivot whose table entry for `cog` (`con`) is `iff` leaves the verdict of
`isCographic` (`isConetwork`) unchanged.** -/
theorem orcD_step_iff {signed : Bool} {s : Step} (hnp : s.isPivot = false) (hT : s ≠ .T)
    (hrel : s.rel (graCls signed).dual = .iff) {m n : Nat} {M : Mat} {m' n' : Nat} {M' : Mat}
    (h : s.apply m n M = some (m', n', M')) (hwf : M.wf m n = true) : orcD signed m' n' M' = orcD signed m n M := by
  have hsg := graCls_dual_rel_sign hrel
  cases s with
  | T => exact absurd rfl hT
  | P rows cols =>
    obtain ⟨hr, hc, rfl, rfl, rfl⟩ := apply_P_iff.mp h
    exact orcD_P hwf hr hc
  | S rows cols => simp [Step.rel] at hrel
  | V2 r c => simp [Step.isPivot] at hnp
  | V3 r c => simp [Step.isPivot] at hnp
  | NR i =>
    obtain ⟨_, rfl, rfl, rfl⟩ := apply_NR_iff.mp h
    cases signed
    · simp [graCls, Cls.dual, Step.rel, Cls.binaryOnly] at hrel
    · exact orcD_NR hwf i
  | NC j =>
    obtain ⟨_, rfl, rfl, rfl⟩ := apply_NC_iff.mp h
    cases signed
    · simp [graCls, Cls.dual, Step.rel, Cls.binaryOnly] at hrel
    · exact orcD_NC hwf j
  | ZR pos =>
    obtain ⟨p, hs, rfl, rfl, rfl⟩ := apply_rowIns rfl h
    exact orcD_rowIns hwf hs hsg
  | UR pos j sg =>
    obtain ⟨p, hs, rfl, rfl, rfl⟩ := apply_rowIns rfl h
    exact orcD_rowIns hwf hs hsg
  | DR pos i sg =>
    obtain ⟨p, hs, rfl, rfl, rfl⟩ := apply_rowIns rfl h
    exact orcD_rowIns hwf hs hsg
  | ZC pos =>
    obtain ⟨p, hs, rfl, rfl, rfl⟩ := apply_colIns rfl h
    exact orcD_colIns hwf hs hsg
  | UC pos i sg =>
    obtain ⟨p, hs, rfl, rfl, rfl⟩ := apply_colIns rfl h
    exact orcD_colIns hwf hs hsg
  | DC pos j sg =>
    obtain ⟨p, hs, rfl, rfl, rfl⟩ := apply_colIns rfl h
    exact orcD_colIns hwf hs hsg

theorem orcD_step_imp {signed : Bool} {s : Step} (hrel : s.rel (graCls signed).dual = .imp) {m n : Nat} {M : Mat}
    {m' n' : Nat} {M' : Mat} (h : s.apply m n M = some (m', n', M')) (hwf : M.wf m n = true)
    (hyes : orcD signed m n M = true) : orcD signed m' n' M' = true := by
  obtain ⟨rows, cols, rfl⟩ := C10.rel_imp_isSlice hrel
  obtain ⟨hr, hc, _, hnc, rfl, rfl, rfl⟩ := apply_S_iff.mp h
  exact orcD_S hwf hnc hr hc hyes

/-! ### all four graph classes: one step, and step lists -/

/-- the verdict oracle of a graph class (`false` for the other classes) -/
def verdict : Cls → Nat → Nat → Mat → Bool
  | .gra => isGraphic
  | .cog => isCographic
  | .net => isNetwork
  | .con => isConetwork
  | _ => fun _ _ _ => false

def isGraphCls : Cls → Bool
  | .gra | .cog | .net | .con => true
  | _ => false

/-- the class seen after one step: transposition dualises it (as in `stepsRel`) -/
def stepCls (c : Cls) : Step → Cls
  | .T => c.dual
  | _ => c

theorem stepsRel_cons' (c : Cls) (s : Step) (rest : List Step) :
    stepsRel c (s :: rest) = ((stepsRel (stepCls c s) rest).1, (s.rel c).seq (stepsRel (stepCls c s) rest).2) := by
  cases s <;> rfl

theorem isGraphCls_dual {c : Cls} (hc : isGraphCls c = true) : isGraphCls c.dual = true := by
  cases c <;> simp [isGraphCls, Cls.dual] at hc ⊢

/-- transposition (restating `C10.graphic_T`, `C10.network_T`) -/
theorem verdict_T {c : Cls} (hc : isGraphCls c = true) {m n : Nat} {M : Mat} (hwf : M.wf m n = true) :
    verdict c.dual n m (transpose m n M) = verdict c m n M := by
  cases c <;> simp only [isGraphCls] at hc <;> try cases hc
  · exact (C10.graphic_T hwf).1
  · exact (C10.graphic_T hwf).2
  · exact (C10.network_T hwf).1
  · exact (C10.network_T hwf).2

/-- **One step of the table for the classes `gra`, `cog`, `net`, `con`.**  Every non-pivot step whose table entry is `iff`
leaves the verdict unchanged (for `T`: the verdict of the dual class on the transpose). -/
theorem graph_step_iff {c : Cls} (hc : isGraphCls c = true) {s : Step} (hnp : s.isPivot = false)
    (hrel : s.rel c = .iff) {m n : Nat} {M : Mat} {m' n' : Nat} {M' : Mat}
    (h : s.apply m n M = some (m', n', M')) (hwf : M.wf m n = true) :
    verdict (stepCls c s) m' n' M' = verdict c m n M := by
  by_cases hT : s = .T
  · subst hT
    simp only [Step.apply, Option.some.injEq, Prod.mk.injEq] at h
    obtain ⟨rfl, rfl, rfl⟩ := h
    exact verdict_T hc hwf
  · have hcls : stepCls c s = c := by cases s <;> first | rfl | exact absurd rfl hT
    rw [hcls]
    cases c <;> simp only [isGraphCls] at hc <;> try cases hc
    · exact orc_step_iff (signed := false) hnp hT hrel h hwf
    · exact orcD_step_iff (signed := false) hnp hT hrel h hwf
    · exact orc_step_iff (signed := true) hnp hT hrel h hwf
    · exact orcD_step_iff (signed := true) hnp hT hrel h hwf

/-- **A step with table entry `imp` (a slice) maps yes to yes**, for `gra`, `cog`, `net`, `con`. -/
theorem graph_step_imp {c : Cls} (hc : isGraphCls c = true) {s : Step} (hrel : s.rel c = .imp) {m n : Nat} {M : Mat}
    {m' n' : Nat} {M' : Mat} (h : s.apply m n M = some (m', n', M')) (hwf : M.wf m n = true)
    (hyes : verdict c m n M = true) : verdict (stepCls c s) m' n' M' = true := by
  obtain ⟨rows, cols, rfl⟩ := C10.rel_imp_isSlice hrel
  cases c <;> simp only [isGraphCls] at hc <;> try cases hc
  · exact orc_step_imp (signed := false) hrel h hwf hyes
  · exact orcD_step_imp (signed := false) hrel h hwf hyes
  · exact orc_step_imp (signed := true) hrel h hwf hyes
  · exact orcD_step_imp (signed := true) hrel h hwf hyes

/-- **Lift to step lists**: for a list of non-pivot steps the relation computed by `stepsRel` holds between the verdict of
`c` on `M` and the verdict of the class `(stepsRel c steps).1` on the transformed matrix. -/
theorem graph_steps {steps : List Step} (hnp : ∀ s ∈ steps, s.isPivot = false) :
    ∀ {c : Cls}, isGraphCls c = true → ∀ {m n : Nat} {M : Mat} {m' n' : Nat} {M' : Mat},
      applySteps m n M steps = some (m', n', M') → M.wf m n = true →
      isGraphCls (stepsRel c steps).1 = true ∧
      ((stepsRel c steps).2 = .iff → verdict (stepsRel c steps).1 m' n' M' = verdict c m n M) ∧
      ((stepsRel c steps).2 = .imp → verdict c m n M = true → verdict (stepsRel c steps).1 m' n' M' = true) := by
  induction steps with
  | nil =>
    intro c hc m n M m' n' M' h hwf
    simp only [applySteps, Option.some.injEq, Prod.mk.injEq] at h
    obtain ⟨rfl, rfl, rfl⟩ := h
    exact ⟨hc, fun _ => rfl, fun _ h => h⟩
  | cons s rest ih =>
    intro c hc m n M m' n' M' h hwf
    have hs := hnp s (by simp)
    have hrest : ∀ t ∈ rest, t.isPivot = false := fun t ht => hnp t (by simp [ht])
    simp only [applySteps] at h
    split at h
    · cases h
    · rename_i m1 n1 M1 h1
      have hwf1 := Step.apply_wf h1 hwf
      have hc1 : isGraphCls (stepCls c s) = true := by
        cases s <;> first | exact isGraphCls_dual hc | exact hc
      obtain ⟨ih0, ih1, ih2⟩ := ih hrest hc1 h hwf1
      rw [stepsRel_cons']
      refine ⟨ih0, ?_, ?_⟩
      · intro hr
        obtain ⟨ha, hb⟩ := Rel.seq_eq_iff.mp hr
        rw [ih1 hb, graph_step_iff hc hs ha h1 hwf]
      · intro hr hV
        obtain ⟨ha, hb⟩ := Rel.seq_eq_imp hr
        have hV1 : verdict (stepCls c s) m1 n1 M1 = true := by
          rcases ha with ha | ha
          · rw [graph_step_iff hc hs ha h1 hwf]; exact hV
          · exact graph_step_imp hc ha h1 hwf hV
        rcases hb with hb | hb
        · rw [ih1 hb]; exact hV1
        · exact ih2 hb hV1

/-! ### the entries one by one, for `isGraphic` and `isNetwork` -/

/-- (a) row/column permutation -/
theorem gra_P {M : Mat} {m n : Nat} (hwf : M.wf m n = true) {rows cols : List Nat} (hr : isPermOf rows m = true)
    (hc : isPermOf cols n = true) : isGraphic m n (sub M rows cols) = isGraphic m n M :=
  orc_P (signed := false) hwf hr hc

theorem net_P {M : Mat} {m n : Nat} (hwf : M.wf m n = true) {rows cols : List Nat} (hr : isPermOf rows m = true)
    (hc : isPermOf cols n = true) : isNetwork m n (sub M rows cols) = isNetwork m n M :=
  orc_P (signed := true) hwf hr hc

/-- (c) minors: rows without repetition (the other forest edges are contracted), any in-range columns (the other
non-forest edges are deleted; repetitions give parallel edges) -/
theorem gra_S {M : Mat} {m n : Nat} (hwf : M.wf m n = true) {rows cols : List Nat} (hnd : rows.Nodup)
    (hr : ∀ x ∈ rows, x < m) (hc : ∀ x ∈ cols, x < n) (h : isGraphic m n M = true) :
    isGraphic rows.length cols.length (sub M rows cols) = true :=
  orc_S (signed := false) hwf hnd hr hc h

theorem net_S {M : Mat} {m n : Nat} (hwf : M.wf m n = true) {rows cols : List Nat} (hnd : rows.Nodup)
    (hr : ∀ x ∈ rows, x < m) (hc : ∀ x ∈ cols, x < n) (h : isNetwork m n M = true) :
    isNetwork rows.length cols.length (sub M rows cols) = true :=
  orc_S (signed := true) hwf hnd hr hc h

/-- (b), (d) zero / unit / duplicate row with sign `+1` -/
theorem gra_rowInsertion {M : Mat} {m n : Nat} (hwf : M.wf m n = true) {s : Step} {pos : Nat}
    (hs : s.rowInsOk m n pos) (h1 : s.unitSign = true) :
    isGraphic (m + 1) n (insertRow M pos (s.newRow n M)) = isGraphic m n M :=
  orc_rowIns (signed := false) hwf hs (Or.inr h1)

/-- (b), (d) zero / unit / duplicate column with sign `+1` -/
theorem gra_colInsertion {M : Mat} {m n : Nat} (hwf : M.wf m n = true) {s : Step} {pos : Nat}
    (hs : s.colInsOk m n pos) (h1 : s.unitSign = true) :
    isGraphic m (n + 1) (insertCol M pos (s.newCol M)) = isGraphic m n M :=
  orc_colIns (signed := false) hwf hs (Or.inr h1)

/-- zero / `±` unit / `±` duplicate row -/
theorem net_rowInsertion {M : Mat} {m n : Nat} (hwf : M.wf m n = true) {s : Step} {pos : Nat}
    (hs : s.rowInsOk m n pos) : isNetwork (m + 1) n (insertRow M pos (s.newRow n M)) = isNetwork m n M :=
  orc_rowIns (signed := true) hwf hs (Or.inl rfl)

/-- zero / `±` unit / `±` duplicate column -/
theorem net_colInsertion {M : Mat} {m n : Nat} (hwf : M.wf m n = true) {s : Step} {pos : Nat}
    (hs : s.colInsOk m n pos) : isNetwork m (n + 1) (insertCol M pos (s.newCol M)) = isNetwork m n M :=
  orc_colIns (signed := true) hwf hs (Or.inl rfl)

theorem gra_ZR {M : Mat} {m n : Nat} (hwf : M.wf m n = true) {pos : Nat} (hp : pos ≤ m) :
    isGraphic (m + 1) n (insertRow M pos (List.replicate n 0)) = isGraphic m n M :=
  gra_rowInsertion hwf (s := .ZR pos) ⟨rfl, hp⟩ rfl

theorem gra_ZC {M : Mat} {m n : Nat} (hwf : M.wf m n = true) {pos : Nat} (hp : pos ≤ n) :
    isGraphic m (n + 1) (insertCol M pos (fun _ => 0)) = isGraphic m n M :=
  gra_colInsertion hwf (s := .ZC pos) ⟨rfl, hp⟩ rfl

theorem gra_UR {M : Mat} {m n : Nat} (hwf : M.wf m n = true) {pos j : Nat} (hp : pos ≤ m) (hj : j < n) :
    isGraphic (m + 1) n (insertRow M pos (unitVec n j 1)) = isGraphic m n M :=
  gra_rowInsertion hwf (s := .UR pos j 1) ⟨rfl, hp, hj, Or.inl rfl⟩ rfl

theorem gra_UC {M : Mat} {m n : Nat} (hwf : M.wf m n = true) {pos i : Nat} (hp : pos ≤ n) (hi : i < m) :
    isGraphic m (n + 1) (insertCol M pos (fun k => if k == i then 1 else 0)) = isGraphic m n M :=
  gra_colInsertion hwf (s := .UC pos i 1) ⟨rfl, hp, hi, Or.inl rfl⟩ rfl

theorem gra_DR {M : Mat} {m n : Nat} (hwf : M.wf m n = true) {pos i : Nat} (hp : pos ≤ m) (hi : i < m) :
    isGraphic (m + 1) n (insertRow M pos ((M.getD i []).map (1 * ·))) = isGraphic m n M :=
  gra_rowInsertion hwf (s := .DR pos i 1) ⟨rfl, hp, hi, Or.inl rfl⟩ rfl

theorem gra_DC {M : Mat} {m n : Nat} (hwf : M.wf m n = true) {pos j : Nat} (hp : pos ≤ n) (hj : j < n) :
    isGraphic m (n + 1) (insertCol M pos (fun k => 1 * ent M k j)) = isGraphic m n M :=
  gra_colInsertion hwf (s := .DC pos j 1) ⟨rfl, hp, hj, Or.inl rfl⟩ rfl

/-- (e) reversing a forest arc / a non-forest arc -/
theorem net_NR {M : Mat} {m n : Nat} (hwf : M.wf m n = true) (i : Nat) :
    isNetwork m n (negRow M i) = isNetwork m n M := orc_NR hwf i

theorem net_NC {M : Mat} {m n : Nat} (hwf : M.wf m n = true) (j : Nat) :
    isNetwork m n (negCol M j) = isNetwork m n M := orc_NC hwf j

/-- table for `gra` -/
theorem gra_step_iff {s : Step} (hnp : s.isPivot = false) (hT : s ≠ .T) (hrel : s.rel .gra = .iff) {m n : Nat} {M : Mat}
    {m' n' : Nat} {M' : Mat} (h : s.apply m n M = some (m', n', M')) (hwf : M.wf m n = true) :
    isGraphic m' n' M' = isGraphic m n M := orc_step_iff (signed := false) hnp hT hrel h hwf

theorem gra_step_imp {s : Step} (hrel : s.rel .gra = .imp) {m n : Nat} {M : Mat} {m' n' : Nat} {M' : Mat}
    (h : s.apply m n M = some (m', n', M')) (hwf : M.wf m n = true) (hG : isGraphic m n M = true) :
    isGraphic m' n' M' = true := orc_step_imp (signed := false) hrel h hwf hG

/-- table for `net` -/
theorem net_step_iff {s : Step} (hnp : s.isPivot = false) (hT : s ≠ .T) (hrel : s.rel .net = .iff) {m n : Nat} {M : Mat}
    {m' n' : Nat} {M' : Mat} (h : s.apply m n M = some (m', n', M')) (hwf : M.wf m n = true) :
    isNetwork m' n' M' = isNetwork m n M := orc_step_iff (signed := true) hnp hT hrel h hwf

theorem net_step_imp {s : Step} (hrel : s.rel .net = .imp) {m n : Nat} {M : Mat} {m' n' : Nat} {M' : Mat}
    (h : s.apply m n M = some (m', n', M')) (hwf : M.wf m n = true) (hN : isNetwork m n M = true) :
    isNetwork m' n' M' = true := orc_step_imp (signed := true) hrel h hwf hN

/-- table for `cog`, `con` -/
theorem cog_step_iff {s : Step} (hnp : s.isPivot = false) (hT : s ≠ .T) (hrel : s.rel .cog = .iff) {m n : Nat} {M : Mat}
    {m' n' : Nat} {M' : Mat} (h : s.apply m n M = some (m', n', M')) (hwf : M.wf m n = true) :
    isCographic m' n' M' = isCographic m n M := orcD_step_iff (signed := false) hnp hT hrel h hwf

theorem con_step_iff {s : Step} (hnp : s.isPivot = false) (hT : s ≠ .T) (hrel : s.rel .con = .iff) {m n : Nat} {M : Mat}
    {m' n' : Nat} {M' : Mat} (h : s.apply m n M = some (m', n', M')) (hwf : M.wf m n = true) :
    isConetwork m' n' M' = isConetwork m n M := orcD_step_iff (signed := true) hnp hT hrel h hwf

/-- the declarative reading, restated -/
theorem isGraphic_iff {m n : Nat} {M : Mat} (hwf : M.wf m n = true) :
    isGraphic m n M = true ↔ Realises false m n M := isGraphic_iff_realises hwf

theorem isNetwork_iff {m n : Nat} {M : Mat} (hwf : M.wf m n = true) :
    isNetwork m n M = true ↔ Realises true m n M := isNetwork_iff_realises hwf

/-! ### non-vacuity -/

/-- the cycle matrix of `K4` (star as tree) and some of its images: evaluated by the oracle -/
example : isGraphic 3 3 [[1, 1, 0], [1, 0, 1], [0, 1, 1]] = true ∧
    isGraphic 3 3 (sub [[1, 1, 0], [1, 0, 1], [0, 1, 1]] [2, 0, 1] [1, 2, 0]) = true ∧
    isGraphic 2 3 (sub [[1, 1, 0], [1, 0, 1], [0, 1, 1]] [2, 0] [1, 2, 0]) = true ∧
    isGraphic 4 3 (insertRow [[1, 1, 0], [1, 0, 1], [0, 1, 1]] 1 [1, 1, 0]) = true ∧
    isGraphic 4 3 (insertRow [[1, 1, 0], [1, 0, 1], [0, 1, 1]] 3 (unitVec 3 2 1)) = true := by decide

/-- the theorems applied to it -/
example : isGraphic 3 3 (sub [[1, 1, 0], [1, 0, 1], [0, 1, 1]] [2, 0, 1] [1, 2, 0]) =
    isGraphic 3 3 [[1, 1, 0], [1, 0, 1], [0, 1, 1]] := gra_P (by decide) (by decide) (by decide)

example : (Step.DR 1 0 1).apply 3 3 [[1, 1, 0], [1, 0, 1], [0, 1, 1]] =
      some (4, 3, [[1, 1, 0], [1, 1, 0], [1, 0, 1], [0, 1, 1]]) ∧
    (Step.DR 1 0 1).rel .gra = .iff ∧ (Step.DR 1 0 (-1)).rel .gra = .none ∧ (Step.DR 1 0 (-1)).rel .net = .iff := by
  decide

example : isGraphic 4 3 [[1, 1, 0], [1, 1, 0], [1, 0, 1], [0, 1, 1]] = isGraphic 3 3 [[1, 1, 0], [1, 0, 1], [0, 1, 1]] :=
  gra_step_iff (s := .DR 1 0 1) rfl (by intro h; cases h) (by decide) (by decide) (by decide)

/-- `S` is only monotone: the Fano matrix is not graphic, deleting its last column makes it graphic -/
example : isGraphic 3 4 [[1, 1, 0, 1], [1, 0, 1, 1], [0, 1, 1, 1]] = false ∧
    isGraphic 3 3 (sub [[1, 1, 0, 1], [1, 0, 1, 1], [0, 1, 1, 1]] [0, 1, 2] [0, 1, 2]) = true := by decide

/-- signed: reversing arcs, antiparallel non-forest arcs -/
example : isNetwork 3 2 [[-1, 1], [1, 0], [0, -1]] = true ∧
    isNetwork 3 2 (negRow [[-1, 1], [1, 0], [0, -1]] 0) = true ∧
    isNetwork 3 2 (negCol [[-1, 1], [1, 0], [0, -1]] 1) = true ∧
    isNetwork 3 3 (insertCol [[-1, 1], [1, 0], [0, -1]] 2 (fun k => -1 * ent [[-1, 1], [1, 0], [0, -1]] k 0)) = true ∧
    isNetwork 2 2 [[1, 1], [1, -1]] = false ∧ isNetwork 2 2 (negRow [[1, 1], [1, -1]] 1) = false := by decide

example : isNetwork 3 2 (negRow [[-1, 1], [1, 0], [0, -1]] 0) = isNetwork 3 2 [[-1, 1], [1, 0], [0, -1]] :=
  net_NR (by decide) 0

/-- a step list through the dual class: transpose, insert a zero row (a zero column of the original), transpose back -/
example : verdict (stepsRel .gra [.T, .ZR 0, .T]).1 3 4 [[0, 1, 1, 0], [0, 1, 0, 1], [0, 0, 1, 1]] =
    verdict .gra 3 3 [[1, 1, 0], [1, 0, 1], [0, 1, 1]] :=
  (graph_steps (steps := [.T, .ZR 0, .T]) (by decide) (c := .gra) rfl (by decide) (by decide)).2.1 (by decide)

end Cmr.Props.C10Graphic
